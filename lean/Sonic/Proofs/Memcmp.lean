import Sonic.Model.Memcmp

/-!
# Helper lemmas for C14 (`Sonic.Model.Memcmp`)

* `or_mod_page`: `(a ||| b) % 4096 ≤ 4064 → a % 4096 ≤ 4064 ∧ b % 4096 ≤ 4064` (why `in_page_32` is sound);
* `block_cases` / `block32`: the `movemask + 1`, `bzhi`, `ctz` idiom — `mask = 0` iff all lanes equal, otherwise
  `ctz mask` is the first differing lane and `bzhi mask s ≠ 0` iff that lane is below `s`;
* `Mapped`: the page-granular mapping hypothesis; `load_ok`/`rd_ok`: mapped loads do not fault;
* `InlinedMemcmpEq_ok`, `InlinedMemcmp_ok`, `memcmpRef_ok`: no fault + exact result for every length/address
  (coverage of `[0,s)` by the block set is `allEq_cover` and the `EqOn`/`FirstDiffOn` append lemmas);
* `lexDiff`, `lt_iff_lexDiff`: link to the lexicographic order on byte lists; placement lemmas for `place2`;
* `lessAt_ok`, `less_eq`, `nameEq_eq`, `findMember_eq`, `findMemberAt_ok`, `kernels_congr`.

`rdD`/`vec` (byte / byte list at an address with default `0`) are *proof devices only*: every use is at an
address that the hypotheses show to be mapped (`mem_eq_some`, `load_ok`).
-/
namespace Sonic.Proofs.Memcmp
open Sonic.Model.Memcmp

theorem or_mod_page {a b : Nat} (h : (a ||| b) % 4096 ≤ 4064) : a % 4096 ≤ 4064 ∧ b % 4096 ≤ 4064 := by
  have e : (a ||| b) % 2 ^ 12 = a % 2 ^ 12 ||| b % 2 ^ 12 := Nat.or_mod_two_pow
  have h1 : a % 2 ^ 12 ≤ a % 2 ^ 12 ||| b % 2 ^ 12 := Nat.left_le_or
  have h2 : b % 2 ^ 12 ≤ a % 2 ^ 12 ||| b % 2 ^ 12 := Nat.right_le_or
  simp only [Nat.reducePow] at e h1 h2
  omega

def rdD (mem : Mem) (q : Nat) : Nat := (mem q).getD 0

def vec (mem : Mem) (p : Nat) : Nat → List Nat
  | 0 => []
  | w + 1 => rdD mem p :: vec mem (p + 1) w

@[simp] theorem ok_bind {α β : Type} (x : α) (f : α → Except Fault β) : (Except.ok x >>= f) = f x := rfl
@[simp] theorem pure_eq {α : Type} (x : α) : (pure x : Except Fault α) = .ok x := rfl

theorem mem_eq_some {mem : Mem} {p : Nat} (h : (mem p).isSome) : mem p = some (rdD mem p) := by
  unfold rdD; cases hm : mem p with
  | none => simp [hm] at h
  | some v => rfl

theorem rd_ok {mem : Mem} {p : Nat} (h : (mem p).isSome) : rd mem p = .ok (rdD mem p) := by
  unfold rd; rw [mem_eq_some h]

theorem load_ok {mem : Mem} : ∀ (w p : Nat), (∀ j, j < w → (mem (p + j)).isSome) →
    load mem p w = .ok (vec mem p w)
  | 0, _, _ => rfl
  | w + 1, p, h => by
    have h0 : (mem p).isSome := by simpa using h 0 (by omega)
    have ih := load_ok w (p + 1) (fun j hj => by
      have := h (j + 1) (by omega); rwa [show p + (j + 1) = p + 1 + j by omega] at this)
    unfold load; rw [mem_eq_some h0, ih]; rfl

theorem length_vec (mem : Mem) : ∀ w p, (vec mem p w).length = w
  | 0, _ => rfl
  | w + 1, p => by simp [vec, length_vec mem w]

/-- the byte ranges agree on their first `w` bytes -/
def AllEq (mem : Mem) (a b w : Nat) : Prop := ∀ j, j < w → rdD mem (a + j) = rdD mem (b + j)

/-- `d` is the first index (below `w`) at which the ranges differ -/
def IsFirstDiff (mem : Mem) (a b w d : Nat) : Prop :=
  d < w ∧ rdD mem (a + d) ≠ rdD mem (b + d) ∧ ∀ j, j < d → rdD mem (a + j) = rdD mem (b + j)

theorem allEq_succ {mem : Mem} {a b w : Nat} (h0 : rdD mem a = rdD mem b) (h : AllEq mem (a + 1) (b + 1) w) :
    AllEq mem a b (w + 1) := by
  intro j hj
  cases j with
  | zero => simpa using h0
  | succ j => have := h j (by omega); rwa [show a + 1 + j = a + (j + 1) by omega, show b + 1 + j = b + (j + 1) by omega] at this

theorem firstDiff_succ {mem : Mem} {a b w d : Nat} (h0 : rdD mem a = rdD mem b)
    (h : IsFirstDiff mem (a + 1) (b + 1) w d) : IsFirstDiff mem a b (w + 1) (d + 1) := by
  obtain ⟨h1, h2, h3⟩ := h
  refine ⟨by omega, ?_, ?_⟩
  · rwa [show a + 1 + d = a + (d + 1) by omega, show b + 1 + d = b + (d + 1) by omega] at h2
  · intro j hj
    cases j with
    | zero => simpa using h0
    | succ j => have := h3 j (by omega); rwa [show a + 1 + j = a + (j + 1) by omega, show b + 1 + j = b + (j + 1) by omega] at this

theorem pow_succ_mul (d k : Nat) : 2 ^ (d + 1) * (2 * k + 1) = 2 * (2 ^ d * (2 * k + 1)) := by
  rw [Nat.pow_succ, Nat.mul_comm (2 ^ d) 2, Nat.mul_assoc]

/-- the `movemask + 1` idiom on a `w`-lane compare of two memory ranges -/
theorem block_cases (mem : Mem) : ∀ (w a b : Nat),
    (AllEq mem a b w ∧ movemask (cmpeq (vec mem a w) (vec mem b w)) + 1 = 2 ^ w) ∨
    (∃ d k, IsFirstDiff mem a b w d ∧
      movemask (cmpeq (vec mem a w) (vec mem b w)) + 1 = 2 ^ d * (2 * k + 1) ∧
      movemask (cmpeq (vec mem a w) (vec mem b w)) + 1 < 2 ^ w)
  | 0, a, b => Or.inl ⟨fun j hj => absurd hj (Nat.not_lt_zero j), rfl⟩
  | w + 1, a, b => by
    have ih := block_cases mem w (a + 1) (b + 1)
    have hp : 2 ^ (w + 1) = 2 * 2 ^ w := by rw [Nat.pow_succ, Nat.mul_comm]
    by_cases h0 : rdD mem a = rdD mem b
    · have hm : movemask (cmpeq (vec mem a (w + 1)) (vec mem b (w + 1))) =
          1 + 2 * movemask (cmpeq (vec mem (a + 1) w) (vec mem (b + 1) w)) := by
        simp [vec, cmpeq, movemask, h0]
      rcases ih with ⟨hall, hmm⟩ | ⟨d, k, hfd, hmm, hlt⟩
      · left; exact ⟨allEq_succ h0 hall, by rw [hm, hp]; omega⟩
      · right; refine ⟨d + 1, k, firstDiff_succ h0 hfd, ?_, by rw [hm, hp]; omega⟩
        rw [hm, pow_succ_mul, ← hmm]; omega
    · have hm : movemask (cmpeq (vec mem a (w + 1)) (vec mem b (w + 1))) =
          2 * movemask (cmpeq (vec mem (a + 1) w) (vec mem (b + 1) w)) := by
        simp [vec, cmpeq, movemask, h0]
      right
      refine ⟨0, movemask (cmpeq (vec mem (a + 1) w) (vec mem (b + 1) w)),
        ⟨by omega, by simpa using h0, fun j hj => absurd hj (Nat.not_lt_zero j)⟩, by rw [hm]; omega, ?_⟩
      rw [hm, hp]
      rcases ih with ⟨_, hmm⟩ | ⟨_, _, _, _, hlt⟩ <;> omega

theorem ctzAux_pow : ∀ (d f k : Nat), d < f → ctzAux f (2 ^ d * (2 * k + 1)) = d
  | 0, f + 1, k, _ => by simp [ctzAux]
  | d + 1, f + 1, k, h => by
    rw [pow_succ_mul]
    have ih := ctzAux_pow d f k (by omega)
    unfold ctzAux
    rw [if_neg (by omega), show 2 * (2 ^ d * (2 * k + 1)) / 2 = 2 ^ d * (2 * k + 1) by omega, ih]; omega

theorem pow_mul_odd_ne_zero (d k : Nat) : 2 ^ d * (2 * k + 1) ≠ 0 :=
  Nat.mul_ne_zero (Nat.pos_iff_ne_zero.mp (Nat.pow_pos (by decide))) (by omega)

theorem bzhi_zero (s : Nat) : bzhi 0 s = 0 := by unfold bzhi; simp

/-- `bzhi` on `2^d * odd`: clears everything iff `s ≤ d`, otherwise keeps the lowest set bit -/
theorem bzhi_pow_mul_odd (d k s : Nat) (hs : s < 32) :
    (s ≤ d → bzhi (2 ^ d * (2 * k + 1)) s = 0) ∧
    (d < s → ∃ k', bzhi (2 ^ d * (2 * k + 1)) s = 2 ^ d * (2 * k' + 1)) := by
  have hb : bzhi (2 ^ d * (2 * k + 1)) s = 2 ^ d * (2 * k + 1) % 2 ^ s := by
    unfold bzhi; simp only [show s % 256 = s by omega, hs, if_true]
  rw [hb]
  constructor
  · intro h
    exact Nat.mod_eq_zero_of_dvd (Nat.dvd_trans (Nat.pow_dvd_pow 2 h) (Nat.dvd_mul_right _ _))
  · intro h
    obtain ⟨e, rfl⟩ : ∃ e, s = d + (e + 1) := ⟨s - d - 1, by omega⟩
    rw [Nat.pow_add, Nat.mul_mod_mul_left]
    have hpar : (2 * k + 1) % 2 ^ (e + 1) % 2 = (2 * k + 1) % 2 :=
      Nat.mod_mod_of_dvd _ (by rw [Nat.pow_succ]; exact Nat.dvd_mul_left 2 _)
    exact ⟨(2 * k + 1) % 2 ^ (e + 1) / 2, by congr 1; omega⟩


/-! ### the 32-lane block step -/

theorem block32 (mem : Mem) (a b : Nat) :
    (AllEq mem a b 32 ∧ mask32 (cmpeq (vec mem a 32) (vec mem b 32)) = 0) ∨
    (∃ d, IsFirstDiff mem a b 32 d ∧ mask32 (cmpeq (vec mem a 32) (vec mem b 32)) ≠ 0 ∧
      ctz32 (mask32 (cmpeq (vec mem a 32) (vec mem b 32))) = d ∧
      ∀ s, s < 32 →
        (s ≤ d → bzhi (mask32 (cmpeq (vec mem a 32) (vec mem b 32))) s = 0) ∧
        (d < s → bzhi (mask32 (cmpeq (vec mem a 32) (vec mem b 32))) s ≠ 0 ∧
          ctz32 (bzhi (mask32 (cmpeq (vec mem a 32) (vec mem b 32))) s) = d)) := by
  rcases block_cases mem 32 a b with ⟨hall, hmm⟩ | ⟨d, k, hfd, hmm, hlt⟩
  · left; exact ⟨hall, by unfold mask32; rw [hmm, Nat.mod_self]⟩
  · right
    have hM : mask32 (cmpeq (vec mem a 32) (vec mem b 32)) = 2 ^ d * (2 * k + 1) := by
      unfold mask32; rw [Nat.mod_eq_of_lt hlt, hmm]
    refine ⟨d, hfd, ?_, ?_, ?_⟩
    · rw [hM]; exact pow_mul_odd_ne_zero d k
    · rw [hM]; exact ctzAux_pow d 32 k hfd.1
    · intro s hs
      rw [hM]
      obtain ⟨h1, h2⟩ := bzhi_pow_mul_odd d k s hs
      refine ⟨h1, fun hds => ?_⟩
      obtain ⟨k', hk'⟩ := h2 hds
      rw [hk']
      exact ⟨pow_mul_odd_ne_zero d k', ctzAux_pow d 32 k' hfd.1⟩

/-! ### "all lanes set" -/

theorem movemask_all : ∀ bs : List Bool,
    movemask bs + 1 ≤ 2 ^ bs.length ∧ (movemask bs + 1 = 2 ^ bs.length ↔ bs.all id = true)
  | [] => by simp [movemask]
  | b :: bs => by
    obtain ⟨h1, h2⟩ := movemask_all bs
    have hp : 2 ^ (b :: bs).length = 2 * 2 ^ bs.length := by
      rw [List.length_cons, Nat.pow_succ, Nat.mul_comm]
    rw [hp]
    cases b with
    | false => simp [movemask]; omega
    | true =>
      simp only [movemask, if_true, List.all_cons, id, Bool.true_and]
      rw [← h2]; omega

theorem mask32_eq_zero_iff (bs : List Bool) (h : bs.length = 32) : mask32 bs = 0 ↔ bs.all id = true := by
  obtain ⟨h1, h2⟩ := movemask_all bs
  rw [h] at h1 h2
  unfold mask32
  rw [← h2]
  simp only [Nat.reducePow] at *
  omega

theorem movemask16_iff (bs : List Bool) (h : bs.length = 16) : movemask bs = 0xFFFF ↔ bs.all id = true := by
  obtain ⟨h1, h2⟩ := movemask_all bs
  rw [h] at h1 h2
  rw [← h2]
  simp only [Nat.reducePow] at *
  omega

theorem all_vand : ∀ u v : List Bool, u.length = v.length → (vand u v).all id = (u.all id && v.all id)
  | [], [], _ => rfl
  | [], _ :: _, h => by simp at h
  | _ :: _, [], h => by simp at h
  | x :: u, y :: v, h => by
    have ih := all_vand u v (by simpa using h)
    simp only [vand, List.all_cons, id, ih]
    cases x <;> cases y <;> simp

theorem length_vand : ∀ u v : List Bool, u.length = v.length → (vand u v).length = u.length
  | [], [], _ => rfl
  | [], _ :: _, h => by simp at h
  | _ :: _, [], h => by simp at h
  | x :: u, y :: v, h => by simp [vand, length_vand u v (by simpa using h)]

theorem length_cmpeq_vec (mem : Mem) : ∀ w a b, (cmpeq (vec mem a w) (vec mem b w)).length = w
  | 0, _, _ => rfl
  | w + 1, a, b => by simp [vec, cmpeq, length_cmpeq_vec mem w]

theorem allEq_succ_iff {mem : Mem} {a b w : Nat} :
    AllEq mem a b (w + 1) ↔ rdD mem a = rdD mem b ∧ AllEq mem (a + 1) (b + 1) w := by
  constructor
  · intro h
    refine ⟨by simpa using h 0 (by omega), fun j hj => ?_⟩
    have := h (j + 1) (by omega)
    rwa [show a + (j + 1) = a + 1 + j by omega, show b + (j + 1) = b + 1 + j by omega] at this
  · exact fun ⟨h0, h⟩ => allEq_succ h0 h

theorem all_cmpeq_vec (mem : Mem) : ∀ w a b,
    (cmpeq (vec mem a w) (vec mem b w)).all id = true ↔ AllEq mem a b w
  | 0, a, b => by simp [vec, cmpeq, AllEq]
  | w + 1, a, b => by
    rw [allEq_succ_iff, ← all_cmpeq_vec mem w (a + 1) (b + 1)]
    simp [vec, cmpeq]

theorem vec_eq_iff (mem : Mem) : ∀ w a b, vec mem a w = vec mem b w ↔ AllEq mem a b w
  | 0, a, b => by simp [vec, AllEq]
  | w + 1, a, b => by
    rw [allEq_succ_iff, ← vec_eq_iff mem w (a + 1) (b + 1)]
    simp [vec]

/-! ### page-granular mapping -/

/-- every page that contains a byte of `[a, a+s)` is fully mapped (nothing is said about other pages) -/
def Mapped (mem : Mem) (a s : Nat) : Prop :=
  ∀ i, i < s → ∀ q, q / 4096 = (a + i) / 4096 → (mem q).isSome

theorem Mapped.pre {mem : Mem} {a s : Nat} (h : Mapped mem a s) {w : Nat} (hw : w ≤ s) :
    ∀ j, j < w → (mem (a + j)).isSome := fun j hj => h j (by omega) (a + j) rfl

theorem Mapped.sub {mem : Mem} {a s : Nat} (h : Mapped mem a s) {o w : Nat} (ho : o + w ≤ s) :
    ∀ j, j < w → (mem (a + o + j)).isSome := fun j hj =>
  h (o + j) (by omega) (a + o + j) (by rw [Nat.add_assoc])

theorem Mapped.inpage {mem : Mem} {a s : Nat} (h : Mapped mem a s) (hs : 0 < s) (hp : a % 4096 ≤ 4064) :
    ∀ j, j < 32 → (mem (a + j)).isSome := fun j hj => h 0 hs (a + j) (by omega)

theorem Mapped.mono {mem : Mem} {a s t : Nat} (h : Mapped mem a s) (ht : t ≤ s) : Mapped mem a t :=
  fun i hi q hq => h i (by omega) q hq

theorem in_page_32_true {san : Bool} {a b : Nat} (h : in_page_32 san a b = true) :
    san = false ∧ a % 4096 ≤ 4064 ∧ b % 4096 ≤ 4064 := by
  unfold in_page_32 at h
  cases san with
  | true => simp at h
  | false =>
    simp only [Bool.false_eq_true, if_false, decide_eq_true_eq] at h
    exact ⟨rfl, or_mod_page h⟩

/-! ### ranges relative to fixed base addresses -/

def EqOn (mem : Mem) (a b lo hi : Nat) : Prop := ∀ j, lo ≤ j → j < hi → rdD mem (a + j) = rdD mem (b + j)

def FirstDiffOn (mem : Mem) (a b lo hi d : Nat) : Prop :=
  lo ≤ d ∧ d < hi ∧ rdD mem (a + d) ≠ rdD mem (b + d) ∧ ∀ j, lo ≤ j → j < d → rdD mem (a + j) = rdD mem (b + j)

theorem allEq_at {mem : Mem} {a b o w : Nat} : AllEq mem (a + o) (b + o) w ↔ EqOn mem a b o (o + w) := by
  constructor
  · intro h j h1 h2
    have := h (j - o) (by omega)
    rwa [show a + o + (j - o) = a + j by omega, show b + o + (j - o) = b + j by omega] at this
  · intro h j hj
    have := h (o + j) (by omega) (by omega)
    rwa [← Nat.add_assoc, ← Nat.add_assoc] at this

theorem allEq_zero {mem : Mem} {a b w : Nat} : AllEq mem a b w ↔ EqOn mem a b 0 w :=
  ⟨fun h j _ hj => h j hj, fun h j hj => h j (Nat.zero_le j) hj⟩

theorem firstDiff_at {mem : Mem} {a b o w e : Nat} :
    IsFirstDiff mem (a + o) (b + o) w e ↔ FirstDiffOn mem a b o (o + w) (o + e) := by
  constructor
  · rintro ⟨h1, h2, h3⟩
    refine ⟨by omega, by omega, by rwa [← Nat.add_assoc, ← Nat.add_assoc], fun j hj1 hj2 => ?_⟩
    have := h3 (j - o) (by omega)
    rwa [show a + o + (j - o) = a + j by omega, show b + o + (j - o) = b + j by omega] at this
  · rintro ⟨_, h1, h2, h3⟩
    refine ⟨by omega, by rwa [← Nat.add_assoc, ← Nat.add_assoc] at h2, fun j hj => ?_⟩
    have := h3 (o + j) (by omega) (by omega)
    rwa [← Nat.add_assoc, ← Nat.add_assoc] at this

theorem firstDiff_zero {mem : Mem} {a b w d : Nat} : IsFirstDiff mem a b w d ↔ FirstDiffOn mem a b 0 w d :=
  ⟨fun ⟨h1, h2, h3⟩ => ⟨Nat.zero_le d, h1, h2, fun j _ hj => h3 j hj⟩,
   fun ⟨_, h1, h2, h3⟩ => ⟨h1, h2, fun j hj => h3 j (Nat.zero_le j) hj⟩⟩

theorem EqOn.append {mem : Mem} {a b lo mid mid' hi : Nat} (h1 : EqOn mem a b lo mid) (h2 : EqOn mem a b mid' hi)
    (hm : mid' ≤ mid) : EqOn mem a b lo hi := fun j hj1 hj2 => by
  by_cases hj : j < mid
  · exact h1 j hj1 hj
  · exact h2 j (by omega) hj2

theorem EqOn.mono {mem : Mem} {a b lo hi lo' hi' : Nat} (h : EqOn mem a b lo hi) (h1 : lo ≤ lo') (h2 : hi' ≤ hi) :
    EqOn mem a b lo' hi' := fun j hj1 hj2 => h j (by omega) (by omega)

theorem FirstDiffOn.prepend {mem : Mem} {a b lo mid mid' hi d : Nat} (h1 : EqOn mem a b lo mid)
    (h2 : FirstDiffOn mem a b mid' hi d) (hm : mid' ≤ mid) (hl : lo ≤ mid') : FirstDiffOn mem a b lo hi d := by
  obtain ⟨g1, g2, g3, g4⟩ := h2
  refine ⟨by omega, g2, g3, fun j hj1 hj2 => ?_⟩
  by_cases hj : j < mid
  · exact h1 j hj1 hj
  · exact g4 j (by omega) hj2

theorem FirstDiffOn.extend {mem : Mem} {a b lo hi hi' d : Nat} (h : FirstDiffOn mem a b lo hi d) (hh : hi ≤ hi') :
    FirstDiffOn mem a b lo hi' d := ⟨h.1, by have := h.2.1; omega, h.2.2.1, h.2.2.2⟩

theorem FirstDiffOn.not_eqOn {mem : Mem} {a b lo hi d : Nat} (h : FirstDiffOn mem a b lo hi d) :
    ¬ EqOn mem a b lo hi := fun he => h.2.2.1 (he d h.1 h.2.1)

/-- `block32` at offset `o` from the bases -/
theorem block32_at (mem : Mem) (a b o : Nat) :
    (EqOn mem a b o (o + 32) ∧ mask32 (cmpeq (vec mem (a + o) 32) (vec mem (b + o) 32)) = 0) ∨
    (∃ e, FirstDiffOn mem a b o (o + 32) (o + e) ∧
      mask32 (cmpeq (vec mem (a + o) 32) (vec mem (b + o) 32)) ≠ 0 ∧
      ctz32 (mask32 (cmpeq (vec mem (a + o) 32) (vec mem (b + o) 32))) = e) := by
  rcases block32 mem (a + o) (b + o) with ⟨h1, h2⟩ | ⟨d, h1, h2, h3, _⟩
  · exact Or.inl ⟨allEq_at.mp h1, h2⟩
  · exact Or.inr ⟨d, firstDiff_at.mp h1, h2, h3⟩

/-! ### `InlinedMemcmpEq` -/

theorem memEqK_ok {mem : Mem} {a b k : Nat} (ha : ∀ j, j < k → (mem (a + j)).isSome)
    (hb : ∀ j, j < k → (mem (b + j)).isSome) :
    memEqK mem a b k = .ok (decide (vec mem a k = vec mem b k)) := by
  unfold memEqK; rw [load_ok k a ha, load_ok k b hb]; rfl

theorem allEq_cover {mem : Mem} {a b s k : Nat} (hk : k ≤ s) (hs : s ≤ 2 * k) :
    AllEq mem a b k ∧ AllEq mem (a + (s - k)) (b + (s - k)) k ↔ AllEq mem a b s := by
  rw [allEq_at, allEq_zero, allEq_zero]
  constructor
  · rintro ⟨h1, h2⟩
    exact h1.append h2 (by omega) |>.mono (Nat.le_refl 0) (by omega)
  · intro h
    exact ⟨h.mono (Nat.le_refl 0) hk, h.mono (Nat.zero_le _) (by omega)⟩

theorem two_memEqK {mem : Mem} {a b s k : Nat} (hk : k ≤ s) (hs : s ≤ 2 * k)
    (hA : Mapped mem a s) (hB : Mapped mem b s) :
    ∃ c, (if decide (vec mem a k = vec mem b k) = true then memEqK mem (a + s - k) (b + s - k) k
          else Except.ok false) = .ok c ∧ (c = true ↔ AllEq mem a b s) := by
  rw [show a + s - k = a + (s - k) by omega, show b + s - k = b + (s - k) by omega,
    memEqK_ok (hA.sub (o := s - k) (by omega)) (hB.sub (o := s - k) (by omega))]
  by_cases h : vec mem a k = vec mem b k
  · refine ⟨_, by rw [if_pos (by simpa using h)], ?_⟩
    rw [decide_eq_true_iff, vec_eq_iff, ← allEq_cover hk hs]
    exact ⟨fun h2 => ⟨(vec_eq_iff _ _ _ _).mp h, h2⟩, fun h2 => h2.2⟩
  · refine ⟨false, by rw [if_neg (by simpa using h)], ?_⟩
    rw [← allEq_cover hk hs, ← vec_eq_iff]
    simp [h]

theorem cross_page_ok {mem : Mem} {a b s : Nat} (hs0 : 0 < s) (hs : s < 32)
    (hA : Mapped mem a s) (hB : Mapped mem b s) :
    ∃ c, is_eq_lt_32_cross_page mem a b s = .ok c ∧ (c = true ↔ AllEq mem a b s) := by
  unfold is_eq_lt_32_cross_page
  by_cases h16 : s ≥ 16
  · rw [if_pos h16, show a + s - 16 = a + (s - 16) by omega, show b + s - 16 = b + (s - 16) by omega,
      load_ok 16 a (hA.pre h16), load_ok 16 b (hB.pre h16),
      load_ok 16 _ (hA.sub (o := s - 16) (by omega)), load_ok 16 _ (hB.sub (o := s - 16) (by omega))]
    refine ⟨_, rfl, ?_⟩
    rw [decide_eq_true_iff, movemask16_iff _ (by rw [length_vand _ _ (by simp [length_cmpeq_vec]), length_cmpeq_vec]),
      all_vand _ _ (by simp [length_cmpeq_vec]), Bool.and_eq_true, all_cmpeq_vec, all_cmpeq_vec]
    exact allEq_cover h16 (by omega)
  · rw [if_neg h16]
    by_cases h8 : s ≥ 8
    · rw [if_pos h8, memEqK_ok (hA.pre h8) (hB.pre h8)]
      exact two_memEqK h8 (by omega) hA hB
    · rw [if_neg h8]
      by_cases h4 : s ≥ 4
      · rw [if_pos h4, memEqK_ok (hA.pre h4) (hB.pre h4)]
        exact two_memEqK h4 (by omega) hA hB
      · rw [if_neg h4]
        by_cases h2 : s ≥ 2
        · rw [if_pos h2, memEqK_ok (hA.pre h2) (hB.pre h2)]
          exact two_memEqK h2 (by omega) hA hB
        · rw [if_neg h2]
          have h1 : s = 1 := by omega
          subst h1
          have ea := rd_ok (by simpa using hA.pre (w := 1) (by omega) 0 (by omega) : (mem a).isSome)
          have eb := rd_ok (by simpa using hB.pre (w := 1) (by omega) 0 (by omega) : (mem b).isSome)
          rw [ea, eb]
          refine ⟨_, rfl, ?_⟩
          rw [decide_eq_true_iff]
          constructor
          · intro h j hj
            have : j = 0 := by omega
            subst this; simpa using h
          · intro h; simpa using h 0 (by omega)

theorem is_eq_lt_32_ok {san : Bool} {mem : Mem} {a b s : Nat} (hs0 : 0 < s) (hs : s < 32)
    (hA : Mapped mem a s) (hB : Mapped mem b s) :
    ∃ c, is_eq_lt_32 san mem a b s = .ok c ∧ (c = true ↔ AllEq mem a b s) := by
  unfold is_eq_lt_32
  by_cases hin : in_page_32 san a b = true
  · obtain ⟨_, hpa, hpb⟩ := in_page_32_true hin
    rw [if_pos hin, load_ok 32 a (hA.inpage hs0 hpa), load_ok 32 b (hB.inpage hs0 hpb)]
    refine ⟨_, rfl, ?_⟩
    rw [decide_eq_true_iff]
    rcases block32 mem a b with ⟨h1, h2⟩ | ⟨d, h1, _, _, h4⟩
    · rw [h2]
      exact ⟨fun _ j hj => h1 j (by omega), fun _ => bzhi_zero s⟩
    · obtain ⟨g1, g2⟩ := h4 s hs
      by_cases hd : s ≤ d
      · exact ⟨fun _ j hj => h1.2.2 j (by omega), fun _ => g1 hd⟩
      · exact ⟨fun h => absurd h (g2 (by omega)).1, fun h => absurd (h d (by omega)) h1.2.1⟩
  · rw [if_neg hin]
    exact cross_page_ok hs0 hs hA hB

theorem eqLoop_ok {mem : Mem} {a b : Nat} : ∀ (n i : Nat),
    (∀ j, j < 32 * n → (mem (a + i + j)).isSome) → (∀ j, j < 32 * n → (mem (b + i + j)).isSome) →
    ∃ c, eqLoop mem a b i n = .ok c ∧ (c = true ↔ EqOn mem a b i (i + 32 * n))
  | 0, i, _, _ => ⟨true, rfl, by simp only [true_iff]; intro j h1 h2; omega⟩
  | n + 1, i, ha, hb => by
    unfold eqLoop
    rw [load_ok 32 (a + i) (fun j hj => ha j (by omega)), load_ok 32 (b + i) (fun j hj => hb j (by omega))]
    rcases block32_at mem a b i with ⟨h1, h2⟩ | ⟨e, h1, h2, _⟩
    · obtain ⟨c, hc, hiff⟩ := eqLoop_ok n (i + 32)
        (fun j hj => by have := ha (32 + j) (by omega); rwa [show a + i + (32 + j) = a + (i + 32) + j by omega] at this)
        (fun j hj => by have := hb (32 + j) (by omega); rwa [show b + i + (32 + j) = b + (i + 32) + j by omega] at this)
      refine ⟨c, by simp only [ok_bind, h2, ne_eq, not_true_eq_false, if_false]; exact hc, ?_⟩
      rw [hiff]
      constructor
      · intro h; exact (h1.append h (Nat.le_refl _)).mono (Nat.le_refl _) (by omega)
      · intro h; exact h.mono (by omega) (by omega)
    · refine ⟨false, by simp only [ok_bind, ne_eq, h2, not_false_eq_true, if_true, pure_eq], ?_⟩
      simp only [Bool.false_eq_true, false_iff]
      exact fun h => (h1.extend (by omega)).not_eqOn h

theorem InlinedMemcmpEq_ok {san : Bool} {mem : Mem} {a b s : Nat}
    (hA : Mapped mem a s) (hB : Mapped mem b s) :
    ∃ c, InlinedMemcmpEq san mem a b s = .ok c ∧ (c = true ↔ AllEq mem a b s) := by
  unfold InlinedMemcmpEq
  by_cases h0 : s = 0
  · subst h0; exact ⟨true, rfl, by simp only [true_iff]; intro j hj; omega⟩
  rw [if_neg h0]
  by_cases h32 : s < 32
  · rw [if_pos h32]; exact is_eq_lt_32_ok (by omega) h32 hA hB
  rw [if_neg h32]
  dsimp only
  have hn : s / 32 * 32 / 32 - 1 = s / 32 - 1 := by omega
  rw [hn, load_ok 32 a (hA.pre (by omega)), load_ok 32 b (hB.pre (by omega)),
    show a + s - 32 = a + (s - 32) by omega, show b + s - 32 = b + (s - 32) by omega]
  obtain ⟨c, hc, hiff⟩ := eqLoop_ok (mem := mem) (a := a) (b := b) (s / 32 - 1) 32
    (hA.sub (o := 32) (by omega)) (hB.sub (o := 32) (by omega))
  simp only [ok_bind, hc]
  cases c with
  | false =>
    refine ⟨false, by simp, ?_⟩
    simp only [Bool.false_eq_true, false_iff] at hiff ⊢
    exact fun h => hiff ((allEq_zero.mp h).mono (by omega) (by omega))
  | true =>
    have hmid := hiff.mp rfl
    rw [load_ok 32 _ (hA.sub (o := s - 32) (by omega)), load_ok 32 _ (hB.sub (o := s - 32) (by omega))]
    simp only [Bool.not_true, Bool.false_eq_true, if_false, ok_bind, pure_eq, ne_eq]
    have hlen : (vand (cmpeq (vec mem (a + (s - 32)) 32) (vec mem (b + (s - 32)) 32))
        (cmpeq (vec mem a 32) (vec mem b 32))).length = 32 := by
      rw [length_vand _ _ (by simp [length_cmpeq_vec]), length_cmpeq_vec]
    have hz := mask32_eq_zero_iff _ hlen
    rw [all_vand _ _ (by simp [length_cmpeq_vec]), Bool.and_eq_true, all_cmpeq_vec, all_cmpeq_vec,
      allEq_at, allEq_zero] at hz
    have hcov : (EqOn mem a b (s - 32) (s - 32 + 32) ∧ EqOn mem a b 0 32) ↔ AllEq mem a b s := by
      rw [allEq_zero]
      constructor
      · rintro ⟨h1, h2⟩
        exact ((h2.append hmid (Nat.le_refl _)).append h1 (by omega)).mono (Nat.le_refl _) (by omega)
      · intro h; exact ⟨h.mono (by omega) (by omega), h.mono (by omega) (by omega)⟩
    rw [← hcov, ← hz]
    by_cases hm : mask32 (vand (cmpeq (vec mem (a + (s - 32)) 32) (vec mem (b + (s - 32)) 32))
        (cmpeq (vec mem a 32) (vec mem b 32))) = 0
    · exact ⟨true, by rw [if_neg (by simpa using hm)], by simp [hm]⟩
    · exact ⟨false, by rw [if_pos hm], by simp [hm]⟩

/-! ### `InlinedMemcmp` -/

/-- value of the first differing byte pair relative to the bases, `0` if the ranges are equal -/
def CmpSpec (mem : Mem) (a b s : Nat) (r : Int) : Prop :=
  (AllEq mem a b s ∧ r = 0) ∨
  (∃ d, IsFirstDiff mem a b s d ∧ r = (rdD mem (a + d) : Int) - (rdD mem (b + d) : Int))

theorem AllEq.symm {mem : Mem} {a b w : Nat} (h : AllEq mem a b w) : AllEq mem b a w :=
  fun j hj => (h j hj).symm

theorem IsFirstDiff.symm {mem : Mem} {a b w d : Nat} (h : IsFirstDiff mem a b w d) : IsFirstDiff mem b a w d :=
  ⟨h.1, fun e => h.2.1 e.symm, fun j hj => (h.2.2 j hj).symm⟩

theorem memcmpRef_ok {mem : Mem} : ∀ (s a b : Nat),
    (∀ j, j < s → (mem (a + j)).isSome) → (∀ j, j < s → (mem (b + j)).isSome) →
    ∃ r, memcmpRef mem a b s = .ok r ∧ CmpSpec mem a b s r
  | 0, a, b, _, _ => ⟨0, rfl, Or.inl ⟨fun j hj => absurd hj (Nat.not_lt_zero j), rfl⟩⟩
  | s + 1, a, b, ha, hb => by
    unfold memcmpRef
    rw [rd_ok (by simpa using ha 0 (by omega) : (mem a).isSome),
      rd_ok (by simpa using hb 0 (by omega) : (mem b).isSome)]
    simp only [ok_bind, ne_eq]
    by_cases h0 : rdD mem a = rdD mem b
    · obtain ⟨r, hr, hspec⟩ := memcmpRef_ok s (a + 1) (b + 1)
        (fun j hj => by have := ha (j + 1) (by omega); rwa [show a + (j + 1) = a + 1 + j by omega] at this)
        (fun j hj => by have := hb (j + 1) (by omega); rwa [show b + (j + 1) = b + 1 + j by omega] at this)
      refine ⟨r, by rw [if_neg (by simpa using h0)]; exact hr, ?_⟩
      rcases hspec with ⟨h1, h2⟩ | ⟨d, h1, h2⟩
      · exact Or.inl ⟨allEq_succ h0 h1, h2⟩
      · refine Or.inr ⟨d + 1, firstDiff_succ h0 h1, ?_⟩
        rw [h2, show a + 1 + d = a + (d + 1) by omega, show b + 1 + d = b + (d + 1) by omega]
    · refine ⟨_, by rw [if_pos h0]; rfl, Or.inr ⟨0, ⟨by omega, by simpa using h0, fun j hj => absurd hj (Nat.not_lt_zero j)⟩, ?_⟩⟩
      simp

theorem cmp_lt_32_ok {san : Bool} {mem : Mem} {l r s : Nat} (hs0 : 0 < s) (hs : s < 32)
    (hA : Mapped mem l s) (hB : Mapped mem r s) :
    ∃ v, cmp_lt_32 san mem l r s = .ok v ∧ CmpSpec mem l r s v := by
  unfold cmp_lt_32
  by_cases hin : in_page_32 san l r = true
  · obtain ⟨_, hpa, hpb⟩ := in_page_32_true hin
    rw [if_pos hin, load_ok 32 r (hB.inpage hs0 hpb), load_ok 32 l (hA.inpage hs0 hpa)]
    simp only [ok_bind, ne_eq]
    rcases block32 mem r l with ⟨h1, h2⟩ | ⟨d, h1, _, _, h4⟩
    · rw [h2, bzhi_zero]
      exact ⟨0, by simp, Or.inl ⟨fun j hj => (h1 j (by omega)).symm, rfl⟩⟩
    · obtain ⟨g1, g2⟩ := h4 s hs
      by_cases hd : s ≤ d
      · rw [g1 hd]
        exact ⟨0, by simp, Or.inl ⟨fun j hj => (h1.2.2 j (by omega)).symm, rfl⟩⟩
      · obtain ⟨g3, g4⟩ := g2 (by omega)
        rw [if_pos g3, g4, rd_ok (hA.pre (Nat.le_refl s) d (by omega)), rd_ok (hB.pre (Nat.le_refl s) d (by omega))]
        exact ⟨_, rfl, Or.inr ⟨d, ⟨by omega, fun e => h1.2.1 e.symm, fun j hj => (h1.2.2 j hj).symm⟩, rfl⟩⟩
  · rw [if_neg hin]
    exact memcmpRef_ok s l r (hA.pre (Nat.le_refl s)) (hB.pre (Nat.le_refl s))

theorem cmpLoop_ok {mem : Mem} {l r : Nat} : ∀ (n i : Nat),
    (∀ j, j < 32 * n → (mem (l + i + j)).isSome) → (∀ j, j < 32 * n → (mem (r + i + j)).isSome) →
    ∃ o, cmpLoop mem l r i n = .ok o ∧
      ((o = none ∧ EqOn mem l r i (i + 32 * n)) ∨
       (∃ d, FirstDiffOn mem l r i (i + 32 * n) d ∧
         o = some ((rdD mem (l + d) : Int) - (rdD mem (r + d) : Int))))
  | 0, i, _, _ => ⟨none, rfl, Or.inl ⟨rfl, fun j h1 h2 => by omega⟩⟩
  | n + 1, i, ha, hb => by
    unfold cmpLoop
    rw [load_ok 32 (l + i) (fun j hj => ha j (by omega)), load_ok 32 (r + i) (fun j hj => hb j (by omega))]
    simp only [ok_bind, ne_eq]
    rcases block32_at mem l r i with ⟨h1, h2⟩ | ⟨e, h1, h2, h3⟩
    · obtain ⟨o, ho, hspec⟩ := cmpLoop_ok n (i + 32)
        (fun j hj => by have := ha (32 + j) (by omega); rwa [show l + i + (32 + j) = l + (i + 32) + j by omega] at this)
        (fun j hj => by have := hb (32 + j) (by omega); rwa [show r + i + (32 + j) = r + (i + 32) + j by omega] at this)
      refine ⟨o, by rw [if_neg (by simpa using h2)]; exact ho, ?_⟩
      rcases hspec with ⟨g1, g2⟩ | ⟨d, g1, g2⟩
      · exact Or.inl ⟨g1, (h1.append g2 (Nat.le_refl _)).mono (Nat.le_refl _) (by omega)⟩
      · exact Or.inr ⟨d, (g1.prepend h1 (Nat.le_refl _) (by omega)).extend (by omega), g2⟩
    · have hlt : e < 32 := by have := h1.2.1; omega
      rw [if_pos h2, h3,
        rd_ok (by have := ha e (by omega); rwa [Nat.add_assoc] at this),
        rd_ok (by have := hb e (by omega); rwa [Nat.add_assoc] at this)]
      exact ⟨_, rfl, Or.inr ⟨i + e, h1.extend (by omega), rfl⟩⟩

theorem InlinedMemcmp_ok {san : Bool} {mem : Mem} {l r s : Nat}
    (hA : Mapped mem l s) (hB : Mapped mem r s) :
    ∃ v, InlinedMemcmp san mem l r s = .ok v ∧ CmpSpec mem l r s v := by
  unfold InlinedMemcmp
  by_cases h0 : s = 0
  · subst h0; exact ⟨0, rfl, Or.inl ⟨fun j hj => absurd hj (Nat.not_lt_zero j), rfl⟩⟩
  rw [if_neg h0]
  by_cases h32 : s < 32
  · rw [if_pos h32]; exact cmp_lt_32_ok (by omega) h32 hA hB
  rw [if_neg h32]
  dsimp only
  have hn : s / 32 * 32 / 32 - 1 = s / 32 - 1 := by omega
  rw [hn, load_ok 32 l (hA.pre (by omega)), load_ok 32 r (hB.pre (by omega))]
  simp only [ok_bind, ne_eq]
  rcases block32 mem l r with ⟨h1, h2⟩ | ⟨d, h1, h2, h3, _⟩
  · rw [if_neg (by simpa using h2)]
    obtain ⟨o, ho, hspec⟩ := cmpLoop_ok (mem := mem) (l := l) (r := r) (s / 32 - 1) 32
      (hA.sub (o := 32) (by omega)) (hB.sub (o := 32) (by omega))
    rw [ho]
    simp only [ok_bind]
    have h1' := allEq_zero.mp h1
    rcases hspec with ⟨g1, g2⟩ | ⟨d, g1, g2⟩
    · subst g1
      dsimp only
      have hpre : EqOn mem l r 0 (32 + 32 * (s / 32 - 1)) := h1'.append g2 (Nat.le_refl _)
      rw [load_ok 32 _ (hA.sub (o := s - 32) (by omega)), load_ok 32 _ (hB.sub (o := s - 32) (by omega))]
      simp only [ok_bind]
      rcases block32_at mem l r (s - 32) with ⟨k1, k2⟩ | ⟨e, k1, k2, k3⟩
      · rw [if_neg (by simpa using k2)]
        exact ⟨0, rfl, Or.inl ⟨allEq_zero.mpr ((hpre.append k1 (by omega)).mono (Nat.le_refl _) (by omega)), rfl⟩⟩
      · have hlt : e < 32 := by have := k1.2.1; omega
        rw [if_pos k2, k3,
          rd_ok (by have := hA.sub (o := s - 32) (w := 32) (by omega) e hlt; rwa [Nat.add_assoc] at this),
          rd_ok (by have := hB.sub (o := s - 32) (w := 32) (by omega) e hlt; rwa [Nat.add_assoc] at this)]
        refine ⟨_, rfl, Or.inr ⟨s - 32 + e, firstDiff_zero.mpr ?_, rfl⟩⟩
        exact (k1.prepend hpre (by omega) (Nat.zero_le _)).extend (by omega)
    · subst g2
      dsimp only
      refine ⟨_, rfl, Or.inr ⟨d, firstDiff_zero.mpr ?_, rfl⟩⟩
      exact (g1.prepend h1' (Nat.le_refl _) (Nat.zero_le _)).extend (by omega)
  · rw [if_pos h2, h3, rd_ok (hA.pre (w := 32) (by omega) d h1.1), rd_ok (hB.pre (w := 32) (by omega) d h1.1)]
    exact ⟨_, rfl, Or.inr ⟨d, ⟨by have := h1.1; omega, h1.2.1, h1.2.2⟩, rfl⟩⟩

/-! ### byte ranges as lists, lexicographic order -/

/-- the byte range `[a, a+s)` as it is in memory (`none` = unmapped) -/
def bytes (mem : Mem) (a : Nat) : Nat → List (Option Nat)
  | 0 => []
  | s + 1 => mem a :: bytes mem (a + 1) s

theorem bytes_eq_iff {mem : Mem} : ∀ (s a b : Nat),
    (∀ j, j < s → (mem (a + j)).isSome) → (∀ j, j < s → (mem (b + j)).isSome) →
    (bytes mem a s = bytes mem b s ↔ AllEq mem a b s)
  | 0, a, b, _, _ => by simp [bytes, AllEq]
  | s + 1, a, b, ha, hb => by
    have ih := bytes_eq_iff s (a + 1) (b + 1)
      (fun j hj => by have := ha (j + 1) (by omega); rwa [show a + (j + 1) = a + 1 + j by omega] at this)
      (fun j hj => by have := hb (j + 1) (by omega); rwa [show b + (j + 1) = b + 1 + j by omega] at this)
    have ea := mem_eq_some (by simpa using ha 0 (by omega) : (mem a).isSome)
    have eb := mem_eq_some (by simpa using hb 0 (by omega) : (mem b).isSome)
    rw [allEq_succ_iff, ← ih]
    simp only [bytes, List.cons.injEq]
    rw [ea, eb]
    simp

theorem bytes_eq_map_vec {mem : Mem} : ∀ (s a : Nat), (∀ j, j < s → (mem (a + j)).isSome) →
    bytes mem a s = (vec mem a s).map some
  | 0, _, _ => rfl
  | s + 1, a, ha => by
    have ih := bytes_eq_map_vec s (a + 1)
      (fun j hj => by have := ha (j + 1) (by omega); rwa [show a + (j + 1) = a + 1 + j by omega] at this)
    simp only [bytes, vec, List.map_cons, ih]
    rw [mem_eq_some (by simpa using ha 0 (by omega) : (mem a).isSome)]

theorem getElem?_vec (mem : Mem) : ∀ (w p j : Nat), j < w → (vec mem p w)[j]? = some (rdD mem (p + j))
  | w + 1, p, 0, _ => by simp [vec]
  | w + 1, p, j + 1, h => by
    simp only [vec, List.getElem?_cons_succ]
    rw [getElem?_vec mem w (p + 1) j (by omega), show p + 1 + j = p + (j + 1) by omega]

/-- first differing pair of two byte lists (compared up to the shorter length), as `x - y`; `0` if none -/
def lexDiff : List Nat → List Nat → Int
  | x :: xs, y :: ys => if x ≠ y then (x : Int) - (y : Int) else lexDiff xs ys
  | _, _ => 0

theorem lt_iff_lexDiff : ∀ (xs ys : List Nat),
    xs < ys ↔ lexDiff xs ys < 0 ∨ (lexDiff xs ys = 0 ∧ xs.length < ys.length)
  | [], [] => by simp [lexDiff]
  | [], y :: ys => by simp [lexDiff, List.nil_lt_cons]
  | x :: xs, [] => by simp [lexDiff]
  | x :: xs, y :: ys => by
    rw [List.cons_lt_cons_iff, lt_iff_lexDiff xs ys]
    by_cases h : x = y
    · subst h; simp [lexDiff]
    · simp only [lexDiff, ne_eq, h, not_false_eq_true, if_true, false_and, or_false, List.length_cons]
      omega

theorem lexDiff_eq_zero_iff : ∀ (xs ys : List Nat), xs.length = ys.length → (lexDiff xs ys = 0 ↔ xs = ys)
  | [], [], _ => by simp [lexDiff]
  | [], _ :: _, h => by simp at h
  | _ :: _, [], h => by simp at h
  | x :: xs, y :: ys, h => by
    have ih := lexDiff_eq_zero_iff xs ys (by simpa using h)
    by_cases hxy : x = y
    · subst hxy; simp [lexDiff, ih]
    · simp only [lexDiff, ne_eq, hxy, not_false_eq_true, if_true, List.cons.injEq, false_and, iff_false]
      omega

theorem lexDiff_vec (mem : Mem) : ∀ (s a b : Nat), CmpSpec mem a b s (lexDiff (vec mem a s) (vec mem b s))
  | 0, a, b => Or.inl ⟨fun j hj => absurd hj (Nat.not_lt_zero j), rfl⟩
  | s + 1, a, b => by
    simp only [vec, lexDiff]
    by_cases h0 : rdD mem a = rdD mem b
    · rw [if_neg (by simpa using h0)]
      rcases lexDiff_vec mem s (a + 1) (b + 1) with ⟨h1, h2⟩ | ⟨d, h1, h2⟩
      · exact Or.inl ⟨allEq_succ h0 h1, h2⟩
      · refine Or.inr ⟨d + 1, firstDiff_succ h0 h1, ?_⟩
        rw [h2, show a + 1 + d = a + (d + 1) by omega, show b + 1 + d = b + (d + 1) by omega]
    · rw [if_pos h0]
      exact Or.inr ⟨0, ⟨by omega, by simpa using h0, fun j hj => absurd hj (Nat.not_lt_zero j)⟩, by simp⟩

theorem CmpSpec.unique {mem : Mem} {a b s : Nat} {r r' : Int} (h : CmpSpec mem a b s r) (h' : CmpSpec mem a b s r') :
    r = r' := by
  rcases h with ⟨h1, h2⟩ | ⟨d, h1, h2⟩ <;> rcases h' with ⟨g1, g2⟩ | ⟨d', g1, g2⟩
  · rw [h2, g2]
  · exact absurd (h1 d' g1.1) g1.2.1
  · exact absurd (g1 d h1.1) h1.2.1
  · have : d = d' := by
      rcases Nat.lt_trichotomy d d' with hlt | heq | hgt
      · exact absurd (g1.2.2 d hlt) h1.2.1
      · exact heq
      · exact absurd (h1.2.2 d' hgt) g1.2.1
    subst this; rw [h2, g2]

theorem CmpSpec.eq_lexDiff {mem : Mem} {a b s : Nat} {r : Int} (h : CmpSpec mem a b s r) :
    r = lexDiff (vec mem a s) (vec mem b s) := h.unique (lexDiff_vec mem s a b)

theorem lexDiff_vec_min (mem : Mem) : ∀ (n1 n2 a b : Nat),
    lexDiff (vec mem a n1) (vec mem b n2) = lexDiff (vec mem a (min n1 n2)) (vec mem b (min n1 n2))
  | 0, n2, a, b => by simp [vec, lexDiff]
  | n1 + 1, 0, a, b => by simp [vec, lexDiff]
  | n1 + 1, n2 + 1, a, b => by
    rw [Nat.succ_min_succ]
    simp only [vec, lexDiff]
    rw [lexDiff_vec_min mem n1 n2 (a + 1) (b + 1)]

/-- a mapped range loads as `vec`; so `load mem a s = .ok xs` pins `xs` -/
theorem load_eq_vec {mem : Mem} {a s : Nat} {xs : List Nat} (hA : Mapped mem a s) (h : load mem a s = .ok xs) :
    xs = vec mem a s := by
  rw [load_ok s a (hA.pre (Nat.le_refl s))] at h
  exact (Except.ok.inj h).symm

/-! ### `Less` -/

theorem lessAt_ok {san : Bool} {mem : Mem} {p1 n1 p2 n2 : Nat} (h1 : Mapped mem p1 n1) (h2 : Mapped mem p2 n2) :
    lessAt san mem p1 n1 p2 n2 = .ok (decide (vec mem p1 n1 < vec mem p2 n2)) := by
  unfold lessAt
  obtain ⟨r, hr, hspec⟩ := InlinedMemcmp_ok (san := san) (h1.mono (Nat.min_le_left n1 n2)) (h2.mono (Nat.min_le_right n1 n2))
  dsimp only
  rw [hr]
  simp only [ok_bind, pure_eq]
  congr 1
  have hl := hspec.eq_lexDiff
  rw [← lexDiff_vec_min] at hl
  have := lt_iff_lexDiff (vec mem p1 n1) (vec mem p2 n2)
  rw [length_vec, length_vec, ← hl] at this
  rw [Bool.eq_iff_iff]
  simp only [Bool.or_eq_true, Bool.and_eq_true, decide_eq_true_eq]
  exact this.symm

/-! ### placement -/

theorem arena_isSome {base size start : Nat} {xs : List Nat} {g p : Nat} (h1 : base ≤ p) (h2 : p < base + size) :
    (arena base size start xs g p).isSome := by
  unfold arena
  rw [if_pos ⟨h1, h2⟩]
  split
  · next h => rw [List.getElem?_eq_getElem (by omega)]; rfl
  · rfl

theorem arena_none {base size start : Nat} {xs : List Nat} {g p : Nat} (h : p < base ∨ base + size ≤ p) :
    arena base size start xs g p = none := by
  unfold arena
  rw [if_neg (by omega)]

theorem arena_at {base size start : Nat} {xs : List Nat} {g j : Nat} (h1 : base ≤ start)
    (h2 : start + xs.length ≤ base + size) (hj : j < xs.length) :
    arena base size start xs g (start + j) = xs[j]? := by
  unfold arena
  rw [if_pos (by omega), if_pos (by omega), show start + j - start = j by omega]

theorem union_left {m1 m2 : Mem} {p : Nat} (h : (m1 p).isSome) : union m1 m2 p = m1 p := by
  unfold union
  cases hm : m1 p with
  | none => simp [hm] at h
  | some v => rfl

theorem union_right {m1 m2 : Mem} {p : Nat} (h : m1 p = none) : union m1 m2 p = m2 p := by
  unfold union; rw [h]

theorem vec_eq_of_getElem {mem : Mem} : ∀ (xs : List Nat) (p : Nat),
    (∀ j, j < xs.length → mem (p + j) = xs[j]?) → vec mem p xs.length = xs
  | [], _, _ => rfl
  | x :: t, p, h => by
    have h0 : mem p = some x := by simpa using h 0 (by simp)
    have ih := vec_eq_of_getElem t (p + 1) (fun j hj => by
      have := h (j + 1) (by simpa using hj)
      rwa [show p + (j + 1) = p + 1 + j by omega, List.getElem?_cons_succ] at this)
    simp only [List.length_cons, vec, ih, rdD, h0, Option.getD_some]

theorem place2_mapped1 (xs ys : List Nat) (g : Nat) : Mapped (place2 xs ys g) (addr1 xs) xs.length := by
  intro i hi q hq
  unfold place2
  have hq' : q < regionSize xs.length := by unfold addr1 regionSize at *; omega
  have := arena_isSome (base := 0) (size := regionSize xs.length) (start := addr1 xs) (xs := xs) (g := g)
    (Nat.zero_le q) (by omega)
  rw [union_left this]; exact this

theorem place2_mapped2 (xs ys : List Nat) (g : Nat) : Mapped (place2 xs ys g) (addr2 xs ys) ys.length := by
  intro i hi q hq
  unfold place2
  have hq' : base2 xs ≤ q ∧ q < base2 xs + regionSize ys.length := by
    unfold addr2 base2 regionSize at *; omega
  rw [union_right (arena_none (by unfold base2 at hq'; omega))]
  exact arena_isSome hq'.1 hq'.2

theorem place2_vec1 (xs ys : List Nat) (g : Nat) : vec (place2 xs ys g) (addr1 xs) xs.length = xs := by
  apply vec_eq_of_getElem
  intro j hj
  unfold place2
  have hle : xs.length ≤ regionSize xs.length := by unfold regionSize; omega
  have e := arena_at (base := 0) (size := regionSize xs.length) (start := addr1 xs) (xs := xs) (g := g) (j := j)
    (Nat.zero_le _) (by unfold addr1; omega) hj
  rw [union_left (by rw [e, List.getElem?_eq_getElem hj]; rfl), e]

theorem place2_vec2 (xs ys : List Nat) (g : Nat) : vec (place2 xs ys g) (addr2 xs ys) ys.length = ys := by
  apply vec_eq_of_getElem
  intro j hj
  unfold place2
  have hle : ys.length ≤ regionSize ys.length := by unfold regionSize; omega
  rw [union_right (arena_none (by unfold addr2 base2; omega))]
  exact arena_at (by unfold addr2; omega) (by unfold addr2; omega) hj

/-- the byte right after the first operand of `place2` is unmapped (it ends on the last mapped byte) -/
theorem place2_end1 (xs ys : List Nat) (g : Nat) : place2 xs ys g (addr1 xs + xs.length) = none := by
  unfold place2
  have hle : xs.length ≤ regionSize xs.length := by unfold regionSize; omega
  have e : addr1 xs + xs.length = regionSize xs.length := by unfold addr1; omega
  rw [e, union_right (arena_none (by omega)), arena_none (by unfold base2; omega)]

theorem place2_end2 (xs ys : List Nat) (g : Nat) : place2 xs ys g (addr2 xs ys + ys.length) = none := by
  unfold place2
  have hle : ys.length ≤ regionSize ys.length := by unfold regionSize; omega
  have e : addr2 xs ys + ys.length = base2 xs + regionSize ys.length := by unfold addr2; omega
  rw [e, union_right (arena_none (by unfold base2; omega)), arena_none (by omega)]

theorem less_eq (s1 s2 : List Nat) : less s1 s2 = decide (s1 < s2) := by
  unfold less
  rw [lessAt_ok (place2_mapped1 s1 s2 170) (place2_mapped2 s1 s2 170), place2_vec1, place2_vec2]

/-! ### `findMemberImpl` -/

theorem nameEq_eq (name key : List Nat) : nameEq name key = decide (name = key) := by
  unfold nameEq
  by_cases hl : name.length = key.length
  · rw [if_pos hl]
    have hA := place2_mapped1 name key 170
    rw [hl] at hA
    obtain ⟨c, hc, hiff⟩ := InlinedMemcmpEq_ok (san := false) hA (place2_mapped2 name key 170)
    rw [hc]
    dsimp only
    rw [Bool.eq_iff_iff, hiff, ← vec_eq_iff, place2_vec2, ← hl, place2_vec1, decide_eq_true_iff]
  · rw [if_neg hl]
    have : name ≠ key := fun h => hl (by rw [h])
    simp [this]

theorem findMember_eq : ∀ (names : List (List Nat)) (key : List Nat),
    findMember names key = names.findIdx? (fun n => decide (n = key))
  | [], _ => rfl
  | n :: rest, key => by
    rw [findMember, List.findIdx?_cons, nameEq_eq, findMember_eq rest key]

/-- linear lookup on an arbitrary memory: first member of the right size whose bytes equal the key's -/
theorem findMemberAt_ok {san : Bool} {mem : Mem} {key len : Nat} (hK : Mapped mem key len) :
    ∀ (members : List (Nat × Nat)), (∀ m, m ∈ members → Mapped mem m.1 m.2) →
    findMemberAt san mem members key len =
      .ok (members.findIdx? (fun m => decide (vec mem m.1 m.2 = vec mem key len)))
  | [], _ => rfl
  | (p, n) :: rest, hM => by
    have ih := findMemberAt_ok (san := san) hK rest (fun m hm => hM m (List.mem_cons_of_mem _ hm))
    have hP : Mapped mem p n := hM (p, n) (List.mem_cons_self ..)
    rw [findMemberAt, List.findIdx?_cons, ih]
    by_cases hn : n = len
    · subst hn
      obtain ⟨c, hc, hiff⟩ := InlinedMemcmpEq_ok (san := san) hP hK
      rw [if_pos rfl, hc]
      simp only [ok_bind, pure_eq]
      rw [← vec_eq_iff] at hiff
      cases c with
      | true => rw [if_pos rfl, if_pos (by simpa using hiff.mp rfl)]
      | false =>
        have : ¬ vec mem p n = vec mem key n := fun h => by simpa using hiff.mpr h
        rw [if_neg (by simp), if_neg (by simpa using this)]
    · rw [if_neg hn]
      have : ¬ vec mem p n = vec mem key len := fun h => hn (by simpa [length_vec] using congrArg List.length h)
      simp only [ok_bind, pure_eq]
      rw [if_neg (by simp), if_neg (by simpa using this)]

/-! ### further facts used by the property statements -/

theorem lexDiff_swap : ∀ (xs ys : List Nat), lexDiff ys xs = - lexDiff xs ys
  | [], [] => by simp [lexDiff]
  | [], _ :: _ => by simp [lexDiff]
  | _ :: _, [] => by simp [lexDiff]
  | x :: xs, y :: ys => by
    by_cases h : x = y
    · subst h; simp [lexDiff, lexDiff_swap xs ys]
    · have h' : ¬ y = x := fun e => h e.symm
      simp only [lexDiff, ne_eq, h, h', not_false_eq_true, if_true]; omega

theorem lexDiff_first : ∀ (xs ys : List Nat) (d x y : Nat), xs[d]? = some x → ys[d]? = some y → x ≠ y →
    (∀ j, j < d → xs[j]? = ys[j]?) → lexDiff xs ys = (x : Int) - (y : Int)
  | [], _, d, _, _, h, _, _, _ => by simp at h
  | _ :: _, [], d, _, _, _, h, _, _ => by simp at h
  | x0 :: xs, y0 :: ys, 0, x, y, hx, hy, hne, _ => by
    simp only [List.getElem?_cons_zero, Option.some.injEq] at hx hy
    subst hx hy
    simp [lexDiff, hne]
  | x0 :: xs, y0 :: ys, d + 1, x, y, hx, hy, hne, hpre => by
    have h0 : x0 = y0 := by simpa using hpre 0 (by omega)
    simp only [List.getElem?_cons_succ] at hx hy
    have ih := lexDiff_first xs ys d x y hx hy hne (fun j hj => by simpa using hpre (j + 1) (by omega))
    simp [lexDiff, h0, ih]

theorem lexDiff_range : ∀ (xs ys : List Nat), (∀ x, x ∈ xs → x < 256) → (∀ y, y ∈ ys → y < 256) →
    -255 ≤ lexDiff xs ys ∧ lexDiff xs ys ≤ 255
  | [], _, _, _ => by simp [lexDiff]
  | _ :: _, [], _, _ => by simp [lexDiff]
  | x :: xs, y :: ys, hx, hy => by
    have h1 := hx x (List.mem_cons_self ..)
    have h2 := hy y (List.mem_cons_self ..)
    have ih := lexDiff_range xs ys (fun z hz => hx z (List.mem_cons_of_mem _ hz)) (fun z hz => hy z (List.mem_cons_of_mem _ hz))
    simp only [lexDiff]
    split <;> omega

theorem load_mem {mem : Mem} : ∀ (w p : Nat) (xs : List Nat), load mem p w = .ok xs → ∀ x, x ∈ xs → ∃ q, mem q = some x
  | 0, p, xs, h, x, hx => by
    have : xs = [] := (Except.ok.inj h).symm
    subst this; simp at hx
  | w + 1, p, xs, h, x, hx => by
    unfold load at h
    cases hm : mem p with
    | none => rw [hm] at h; simp at h
    | some v =>
      rw [hm] at h
      cases hl : load mem (p + 1) w with
      | error e => rw [hl] at h; simp at h
      | ok vs =>
        rw [hl] at h
        have : xs = v :: vs := (Except.ok.inj h).symm
        subst this
        rcases List.mem_cons.mp hx with rfl | hx'
        · exact ⟨p, hm⟩
        · exact load_mem w (p + 1) vs hl x hx'

theorem rdD_congr {mem mem' : Mem} {q : Nat} (h : mem' q = mem q) : rdD mem' q = rdD mem q := by
  unfold rdD; rw [h]

/-- the kernels' results are determined by the operand bytes alone (and not by `san`) -/
theorem kernels_congr {san san' : Bool} {mem mem' : Mem} {a b s : Nat}
    (hA : Mapped mem a s) (hB : Mapped mem b s) (hA' : Mapped mem' a s) (hB' : Mapped mem' b s)
    (hag : ∀ i, i < s → mem' (a + i) = mem (a + i) ∧ mem' (b + i) = mem (b + i)) :
    InlinedMemcmpEq san' mem' a b s = InlinedMemcmpEq san mem a b s ∧
    InlinedMemcmp san' mem' a b s = InlinedMemcmp san mem a b s := by
  have hE : ∀ j, j < s → (rdD mem' (a + j) = rdD mem' (b + j) ↔ rdD mem (a + j) = rdD mem (b + j)) := fun j hj => by
    rw [rdD_congr (hag j hj).1, rdD_congr (hag j hj).2]
  have hall : AllEq mem' a b s ↔ AllEq mem a b s :=
    ⟨fun h j hj => (hE j hj).mp (h j hj), fun h j hj => (hE j hj).mpr (h j hj)⟩
  constructor
  · obtain ⟨c, hc, hiff⟩ := InlinedMemcmpEq_ok (san := san) hA hB
    obtain ⟨c', hc', hiff'⟩ := InlinedMemcmpEq_ok (san := san') hA' hB'
    rw [hc, hc']
    congr 1
    rw [Bool.eq_iff_iff, hiff, hiff', hall]
  · obtain ⟨r, hr, hspec⟩ := InlinedMemcmp_ok (san := san) hA hB
    obtain ⟨r', hr', hspec'⟩ := InlinedMemcmp_ok (san := san') hA' hB'
    rw [hr, hr']
    congr 1
    have hspec'' : CmpSpec mem a b s r' := by
      rcases hspec' with ⟨h1, h2⟩ | ⟨d, ⟨h1, h2, h3⟩, h4⟩
      · exact Or.inl ⟨hall.mp h1, h2⟩
      · refine Or.inr ⟨d, ⟨h1, fun e => h2 ((hE d h1).mpr e), fun j hj => (hE j (by omega)).mp (h3 j hj)⟩, ?_⟩
        rw [h4, rdD_congr (hag d h1).1, rdD_congr (hag d h1).2]
    exact hspec''.unique hspec

theorem list_not_lt_both (a b : List Nat) : (¬ a < b ∧ ¬ b < a) ↔ a = b := by
  constructor
  · rintro ⟨h1, h2⟩
    exact List.le_antisymm (List.not_lt.mp h2) (List.not_lt.mp h1)
  · rintro rfl
    exact ⟨List.lt_irrefl a, List.lt_irrefl a⟩

theorem findIdx_rel {mem : Mem} {key len : Nat} : ∀ (members : List (Nat × Nat)) (names : List (List Nat)),
    members.length = names.length →
    (∀ (i : Nat) (m : Nat × Nat) (nm : List Nat), members[i]? = some m → names[i]? = some nm →
      Mapped mem m.1 m.2 ∧ load mem m.1 m.2 = .ok nm) →
    members.findIdx? (fun m => decide (vec mem m.1 m.2 = vec mem key len)) =
      names.findIdx? (fun n => decide (n = vec mem key len))
  | [], [], _, _ => rfl
  | [], _ :: _, h, _ => by simp at h
  | _ :: _, [], h, _ => by simp at h
  | m :: ms, n :: ns, h, hp => by
    have h0 := hp 0 m n (by simp) (by simp)
    rw [List.findIdx?_cons, List.findIdx?_cons,
      findIdx_rel ms ns (by simpa using h)
        (fun i m' n' h1 h2 => hp (i + 1) m' n' (by simpa using h1) (by simpa using h2)),
      load_eq_vec h0.1 h0.2]

/-- `findMemberAt` on a memory holding `names` / `keyBytes` computes `findMember names keyBytes` -/
theorem findMemberAt_lists {san : Bool} {mem : Mem} {key len : Nat} {keyBytes : List Nat}
    (hK : Mapped mem key len) (hk : load mem key len = .ok keyBytes)
    (members : List (Nat × Nat)) (names : List (List Nat)) (hlen : members.length = names.length)
    (hM : ∀ (i : Nat) (m : Nat × Nat) (nm : List Nat), members[i]? = some m → names[i]? = some nm →
      Mapped mem m.1 m.2 ∧ load mem m.1 m.2 = .ok nm) :
    findMemberAt san mem members key len = .ok (findMember names keyBytes) := by
  have hmap : ∀ m, m ∈ members → Mapped mem m.1 m.2 := by
    intro m hm
    obtain ⟨i, hi, e⟩ := List.mem_iff_getElem.mp hm
    have hi' : i < names.length := by omega
    exact (hM i m names[i] (by rw [List.getElem?_eq_getElem hi, e]) (List.getElem?_eq_getElem hi')).1
  rw [findMemberAt_ok hK members hmap, findMember_eq, load_eq_vec hK hk, findIdx_rel members names hlen hM]

end Sonic.Proofs.Memcmp
