import Sonic.Model.Pool
namespace Sonic.Proofs.Pool
open Sonic.Model.Pool Sonic.Gen

/-! ### memory interface lemmas -/

theorem fillFrom_size (f : Nat → Nat) (o : Nat) : ∀ (n i : Nat) (a : Array Nat), (Mem.fillFrom f o i n a).size = a.size := by
  intro n; induction n with
  | zero => intro i a; rfl
  | succ n ih => intro i a; simp [Mem.fillFrom, ih]

theorem fillFrom_getElem? (f : Nat → Nat) (o : Nat) : ∀ (n i : Nat) (a : Array Nat) (k : Nat),
    (Mem.fillFrom f o i n a)[k]? =
      if o + i ≤ k ∧ k < o + i + n ∧ k < a.size then some (f (k - o)) else a[k]? := by
  intro n; induction n with
  | zero => intro i a k; simp [Mem.fillFrom]; omega
  | succ n ih =>
    intro i a k
    simp only [Mem.fillFrom, ih, Array.size_setIfInBounds, Array.getElem?_setIfInBounds]
    by_cases h1 : o + i = k
    · subst h1
      by_cases h2 : o + i < a.size
      · simp [h2]
      · have : a[o+i]? = none := by simp; omega
        simp [h2]
    · by_cases h3 : o + (i + 1) ≤ k ∧ k < o + (i + 1) + n ∧ k < a.size
      · have : o + i ≤ k ∧ k < o + i + (n + 1) ∧ k < a.size := by omega
        simp [h3, this]
      · have : ¬ (o + i ≤ k ∧ k < o + i + (n + 1) ∧ k < a.size) := by omega
        simp [h3, this, h1]

theorem read_baseMalloc (m : Mem) (b h r o : Nat) :
    (m.baseMalloc b h).read r o =
      if r = m.size then (if o < b - h then some poison else none) else m.read r o := by
  simp only [Mem.read, Mem.baseMalloc, Array.getElem?_push]
  by_cases hr : r = m.size
  · simp [hr, Array.getElem?_replicate]
  · simp [hr]

theorem size_baseMalloc (m : Mem) (b h : Nat) : (m.baseMalloc b h).size = m.size + 1 := by
  simp [Mem.baseMalloc]

theorem read_free (m : Mem) (r' r o : Nat) :
    (m.free r').read r o = if r = r' then none else m.read r o := by
  simp only [Mem.read, Mem.free, Array.getElem?_setIfInBounds]
  by_cases hr : r' = r
  · subst hr
    by_cases h2 : r' < m.size <;> simp [h2]
  · have : ¬ r = r' := fun h => hr h.symm
    simp [hr, this]

theorem size_free (m : Mem) (r : Nat) : (m.free r).size = m.size := by simp [Mem.free]

theorem read_freeAll (rs : List Nat) : ∀ (m : Mem) (r o : Nat),
    (m.freeAll rs).read r o = if r ∈ rs then none else m.read r o := by
  induction rs with
  | nil => intro m r o; simp [Mem.freeAll]
  | cons x xs ih =>
    intro m r o
    simp only [Mem.freeAll, ih, read_free, List.mem_cons]
    by_cases h1 : r ∈ xs <;> by_cases h2 : r = x <;> simp [h1, h2]

theorem size_freeAll (rs : List Nat) : ∀ (m : Mem), (m.freeAll rs).size = m.size := by
  induction rs with
  | nil => intro m; rfl
  | cons x xs ih => intro m; simp [Mem.freeAll, ih, size_free]

theorem read_fill (m : Mem) (r0 o0 len : Nat) (f : Nat → Nat) (r o : Nat) :
    (m.fill r0 o0 len f).read r o =
      if r = r0 ∧ o0 ≤ o ∧ o < o0 + len ∧ (m.read r o).isSome then some (f (o - o0)) else m.read r o := by
  simp only [Mem.read, Mem.fill, Array.getElem?_modify]
  by_cases hr : r0 = r
  · subst hr
    simp only [if_true, true_and]
    rcases hm : m[r0]? with _ | a
    · simp
    · simp only [Option.map_some, fillFrom_getElem?]
      by_cases hk : o < a.size
      · simp [hk]
      · have : a[o]? = none := by simp; omega
        simp [hk]
  · have : ¬ r = r0 := fun h => hr h.symm
    simp [hr, this]

theorem size_fill (m : Mem) (r0 o0 len : Nat) (f : Nat → Nat) : (m.fill r0 o0 len f).size = m.size := by
  simp [Mem.fill]

theorem size_copy (m : Mem) (a b c d e : Nat) : (m.copy a b c d e).size = m.size := by
  simp [Mem.copy, size_fill]

/-! ### definitions -/

def count (pid : Nat) (slots : List Handle) : Nat := slots.countP (Handle.refers pid)

/-- sum of the aligned sizes of the blocks of pool `pid` -/
def blockSum (pid : Nat) (blocks : List Block) : Nat :=
  ((blocks.filter (fun b => b.pool == pid)).map (·.asz)).sum

/-- different regions, or non-overlapping offset ranges -/
def Disjoint (a b : Block) : Prop := a.reg ≠ b.reg ∨ a.off + a.asz ≤ b.off ∨ b.off + b.asz ≤ a.off

structure ChunkInv (pools : List (Option Pool)) (mem : Mem) (freed userRegs : List Nat) : Prop where
  chunk_ok : ∀ pid p, poolAt pools pid = some p → ∀ c ∈ p.chunks,
    c.size ≤ c.cap ∧ c.size % 8 = 0 ∧ c.reg < mem.size ∧ (∀ o, o < c.cap → (mem.read c.reg o).isSome) ∧
      c.reg ∉ freed
  regs_nodup : ∀ pid p, poolAt pools pid = some p → p.chunks.Pairwise (fun a b => a.reg ≠ b.reg)
  regs_disj : ∀ i j p q, poolAt pools i = some p → poolAt pools j = some q →
    ∀ c ∈ p.chunks, ∀ d ∈ q.chunks, c.reg = d.reg → i = j
  sreg_last : ∀ pid p, poolAt pools pid = some p → (lastChunk p.head p.rest).reg = p.sreg
  freed_lt : ∀ r ∈ freed, r < mem.size
  user_lt : ∀ u ∈ userRegs, u < mem.size
  user_nf : ∀ u ∈ userRegs, u ∉ freed
  user_chunk : ∀ pid p, poolAt pools pid = some p → ∀ c ∈ p.chunks, c.reg ∈ userRegs →
    c.reg = p.sreg ∧ p.ownBuffer = false

structure BlockInv (pools : List (Option Pool)) (blocks : List Block) (nextBlock : Nat) : Prop where
  block_ok : ∀ b ∈ blocks, b.id < nextBlock ∧ b.off % 8 = 0 ∧ b.asz = alignUp b.req ∧ 0 < b.req ∧
    ∃ p, poolAt pools b.pool = some p ∧ ∃ c ∈ p.chunks, c.reg = b.reg ∧ b.off + b.asz ≤ c.size
  disj : blocks.Pairwise (fun a b => a.id ≠ b.id ∧ Disjoint a b)
  account : ∀ pid p, poolAt pools pid = some p → blockSum pid blocks ≤ p.size

def PatInv (mem : Mem) (blocks : List Block) : Prop :=
  ∀ b ∈ blocks, ∀ i, i < b.req → mem.read b.reg (b.off + i) = some (pat b.id i)

/-- reference count of pool `pid`, 0 for a pool that does not exist (any more) -/
def rcN (pools : List (Option Pool)) (pid : Nat) : Nat :=
  match poolAt pools pid with
  | some p => p.refcount
  | none => 0

structure RefInv (pools : List (Option Pool)) (slots : List Handle) : Prop where
  slots_len : slots.length = 8
  /-- `refcount` = number of live, non-moved handles referring to the pool -/
  rc_eq : ∀ pid, rcN pools pid = count pid slots
  rc_pos : ∀ pid p, poolAt pools pid = some p → 1 ≤ p.refcount

/-- the part of the invariant that does not mention handles / reference counts -/
structure MemInv (s : State) : Prop where
  chunk : ChunkInv s.pools s.mem s.freed s.userRegs
  block : BlockInv s.pools s.blocks s.nextBlock
  pat : PatInv s.mem s.blocks

/-- the invariant of every reachable state -/
structure PoolInv (s : State) : Prop extends MemInv s where
  ref : RefInv s.pools s.slots

/-! ### basic lemmas -/

theorem poolAt_lt {pools : List (Option Pool)} {pid : Nat} {p : Pool} (h : poolAt pools pid = some p) :
    pid < pools.length := by
  unfold poolAt at h
  rcases hq : pools[pid]? with _ | x
  · simp [hq] at h
  · exact (List.getElem?_eq_some_iff.mp hq).1

theorem poolAt_set {pools : List (Option Pool)} {pid : Nat} (hlt : pid < pools.length) (x : Option Pool)
    (q : Nat) : poolAt (pools.set pid x) q = if q = pid then x else poolAt pools q := by
  unfold poolAt
  rw [List.getElem?_set]
  by_cases h : pid = q
  · subst h; cases x <;> simp [hlt]
  · have : ¬ q = pid := fun e => h e.symm
    simp [h, this]

theorem poolAt_append (pools : List (Option Pool)) (x : Option Pool) (q : Nat) :
    poolAt (pools ++ [x]) q = if q = pools.length then x else poolAt pools q := by
  unfold poolAt
  by_cases h : q = pools.length
  · subst h; cases x <;> simp
  · by_cases h2 : q < pools.length
    · simp [h, List.getElem?_append_left h2]
    · have h3 : pools.length < q := by omega
      have : (pools ++ [x])[q]? = none := by simp; omega
      have h4 : pools[q]? = none := by simp; omega
      simp [h, this, h4]

theorem le_alignUp (x : Nat) : x ≤ alignUp x := by unfold alignUp; omega
theorem alignUp_mod (x : Nat) : alignUp x % 8 = 0 := by unfold alignUp; omega
theorem alignUp_pos {x : Nat} (h : 0 < x) : 0 < alignUp x := by unfold alignUp; omega
theorem alignUp_mono {x y : Nat} (h : x ≤ y) : alignUp x ≤ alignUp y := by unfold alignUp; omega

theorem chunkSize_ge (cp : Policy) (need : Nat) : need ≤ (cp.chunkSize need).2 := by
  unfold Policy.chunkSize
  cases cp.kind <;> simp only
  · split <;> omega
  · generalize (if cp.minChunk < need ∧ cp.minChunk < SONIC_MAX_CHUNK_CAPACITY then _ else cp : Policy) = cp'
    split <;> omega

theorem read_fill_isSome (m : Mem) (r0 o0 len : Nat) (f : Nat → Nat) (r o : Nat) :
    ((m.fill r0 o0 len f).read r o).isSome = (m.read r o).isSome := by
  rw [read_fill]; split
  · next h => simp [h.2.2.2]
  · rfl

theorem read_fill_of_outside (m : Mem) (r0 o0 len : Nat) (f : Nat → Nat) (r o : Nat)
    (h : r = r0 → o < o0 ∨ o0 + len ≤ o) : (m.fill r0 o0 len f).read r o = m.read r o := by
  rw [read_fill]; split
  · next h' => have := h h'.1; omega
  · rfl

theorem read_baseMalloc_of_some {m : Mem} {r o v : Nat} (b h : Nat) (hv : m.read r o = some v) :
    (m.baseMalloc b h).read r o = some v := by
  rw [read_baseMalloc]
  split
  · next hr =>
    subst hr
    simp [Mem.read] at hv
  · exact hv

theorem lastChunk_reg_congr {h h' : Chunk} (t : List Chunk) (e : h'.reg = h.reg) :
    (lastChunk h' t).reg = (lastChunk h t).reg := by
  cases t <;> simp [lastChunk, e]

theorem lastChunk_mem (h : Chunk) (t : List Chunk) : lastChunk h t ∈ h :: t := by
  induction t generalizing h with
  | nil => simp [lastChunk]
  | cons c t ih => simp only [lastChunk]; exact List.mem_cons_of_mem _ (ih c)

/-! ### transformations preserving the invariant parts -/

section
variable {pools : List (Option Pool)} {mem : Mem} {freed ur : List Nat} {blocks : List Block} {n : Nat}

theorem ChunkInv.fill (h : ChunkInv pools mem freed ur) (r o len : Nat) (f : Nat → Nat) :
    ChunkInv pools (mem.fill r o len f) freed ur where
  chunk_ok := by
    intro pid p hp c hc
    obtain ⟨a, b, c1, d, e⟩ := h.chunk_ok pid p hp c hc
    refine ⟨a, b, by simpa [size_fill] using c1, ?_, e⟩
    intro o' ho'; rw [read_fill_isSome]; exact d o' ho'
  regs_nodup := h.regs_nodup
  regs_disj := h.regs_disj
  sreg_last := h.sreg_last
  freed_lt := by simpa [size_fill] using h.freed_lt
  user_lt := by simpa [size_fill] using h.user_lt
  user_nf := h.user_nf
  user_chunk := h.user_chunk

theorem PatInv.fill (h : PatInv mem blocks) (r o len : Nat) (f : Nat → Nat)
    (hd : ∀ b ∈ blocks, b.reg = r → o + len ≤ b.off ∨ b.off + b.req ≤ o) :
    PatInv (mem.fill r o len f) blocks := by
  intro b hb i hi
  rw [read_fill_of_outside]
  · exact h b hb i hi
  · intro e; have := hd b hb e; omega

theorem PatInv.addBlock (h : PatInv mem blocks) (b : Block)
    (hb : ∀ i, i < b.req → mem.read b.reg (b.off + i) = some (pat b.id i)) : PatInv mem (b :: blocks) := by
  intro x hx i hi
  rcases List.mem_cons.mp hx with rfl | hx
  · exact hb i hi
  · exact h x hx i hi

theorem PatInv.baseMalloc (h : PatInv mem blocks) (b hd : Nat) : PatInv (mem.baseMalloc b hd) blocks := by
  intro x hx i hi
  exact read_baseMalloc_of_some b hd (h x hx i hi)

theorem blockSum_cons (pid : Nat) (b : Block) (bs : List Block) :
    blockSum pid (b :: bs) = (if b.pool = pid then b.asz else 0) + blockSum pid bs := by
  unfold blockSum
  by_cases h : b.pool = pid <;> simp [h]

theorem BlockInv.addBlock (h : BlockInv pools blocks n) (b : Block) (hid : b.id = n)
    (hoff : b.off % 8 = 0) (hasz : b.asz = alignUp b.req) (hreq : 0 < b.req)
    (hin : ∃ p, poolAt pools b.pool = some p ∧ ∃ c ∈ p.chunks, c.reg = b.reg ∧ b.off + b.asz ≤ c.size)
    (hdisj : ∀ x ∈ blocks, Disjoint b x)
    (hacc : ∀ p, poolAt pools b.pool = some p → blockSum b.pool blocks + b.asz ≤ p.size) :
    BlockInv pools (b :: blocks) (n + 1) where
  block_ok := by
    intro x hx
    rcases List.mem_cons.mp hx with rfl | hx
    · exact ⟨by omega, hoff, hasz, hreq, hin⟩
    · obtain ⟨a, r⟩ := h.block_ok x hx
      exact ⟨by omega, r⟩
  disj := by
    refine List.pairwise_cons.mpr ⟨?_, h.disj⟩
    intro x hx
    have := (h.block_ok x hx).1
    exact ⟨by omega, hdisj x hx⟩
  account := by
    intro pid p hp
    rw [blockSum_cons]
    by_cases e : b.pool = pid
    · subst e; simp only [if_true]; have := hacc p hp; omega
    · simp only [e, if_false]; have := h.account pid p hp; omega

/-- replace pool `pid` by `p'` which differs from it only in the head chunk's size and the refcount -/
theorem ChunkInv.updHead (h : ChunkInv pools mem freed ur) {pid : Nat} {p p' : Pool}
    (hp : poolAt pools pid = some p) (hrest : p'.rest = p.rest) (hreg : p'.head.reg = p.head.reg)
    (hcap : p'.head.cap = p.head.cap) (hsz : p'.head.size ≤ p'.head.cap) (hal : p'.head.size % 8 = 0)
    (hsreg : p'.sreg = p.sreg) (hown : p'.ownBuffer = p.ownBuffer) :
    ChunkInv (pools.set pid (some p')) mem freed ur := by
  have hlt := poolAt_lt hp
  have hmap : ∀ c ∈ p'.chunks, ∃ c0 ∈ p.chunks, c0.reg = c.reg ∧ c0.cap = c.cap := by
    intro c hc
    simp only [Pool.chunks, hrest, List.mem_cons] at hc
    rcases hc with rfl | hc
    · exact ⟨p.head, by simp [Pool.chunks], hreg.symm, hcap.symm⟩
    · exact ⟨c, by simp [Pool.chunks, hc], rfl, rfl⟩
  constructor
  · intro q x hx c hc
    rw [poolAt_set hlt] at hx
    split at hx
    · next e =>
      subst e; cases hx
      simp only [Pool.chunks, hrest, List.mem_cons] at hc
      rcases hc with rfl | hc
      · obtain ⟨_, _, c1, d, e⟩ := h.chunk_ok q p hp p.head (by simp [Pool.chunks])
        exact ⟨hsz, hal, by rw [hreg]; exact c1, by rw [hreg, hcap]; exact d, by rw [hreg]; exact e⟩
      · exact h.chunk_ok q p hp c (by simp [Pool.chunks, hc])
    · exact h.chunk_ok q x hx c hc
  · intro q x hx
    rw [poolAt_set hlt] at hx
    split at hx
    · next e =>
      subst e; cases hx
      have := h.regs_nodup q p hp
      simp only [Pool.chunks, hrest, List.pairwise_cons, hreg] at this ⊢
      exact this
    · exact h.regs_nodup q x hx
  · intro i j x y hx hy c hc d hd e
    rw [poolAt_set hlt] at hx hy
    by_cases hi : i = pid <;> by_cases hj : j = pid
    · omega
    · simp only [hi, if_true, hj, if_false] at hx hy; cases hx
      obtain ⟨c0, hc0, e0, _⟩ := hmap c hc
      rw [hi]
      exact h.regs_disj pid j p y hp hy c0 hc0 d hd (by omega)
    · simp only [hi, if_false, hj, if_true] at hx hy; cases hy
      obtain ⟨d0, hd0, e0, _⟩ := hmap d hd
      rw [hj]
      exact h.regs_disj i pid x p hx hp c hc d0 hd0 (by omega)
    · simp only [hi, if_false, hj] at hx hy
      exact h.regs_disj i j x y hx hy c hc d hd e
  · intro q x hx
    rw [poolAt_set hlt] at hx
    split at hx
    · next e =>
      subst e; cases hx
      rw [hrest, hsreg, lastChunk_reg_congr _ hreg]; exact h.sreg_last q p hp
    · exact h.sreg_last q x hx
  · exact h.freed_lt
  · exact h.user_lt
  · exact h.user_nf
  · intro q x hx c hc hu
    rw [poolAt_set hlt] at hx
    split at hx
    · next e =>
      subst e; cases hx
      obtain ⟨c0, hc0, e0, _⟩ := hmap c hc
      have := h.user_chunk q p hp c0 hc0 (by rw [e0]; exact hu)
      rw [hsreg, hown, ← e0]; exact this
    · exact h.user_chunk q x hx c hc hu

theorem Pool.size_eq (p : Pool) : p.size = p.head.size + (p.rest.map (·.size)).sum := by
  simp [Pool.size, Pool.chunks]

theorem BlockInv.updHead (h : BlockInv pools blocks n) {pid : Nat} {p p' : Pool}
    (hp : poolAt pools pid = some p) (hrest : p'.rest = p.rest) (hreg : p'.head.reg = p.head.reg)
    (hge : p.head.size ≤ p'.head.size) : BlockInv (pools.set pid (some p')) blocks n := by
  have hlt := poolAt_lt hp
  constructor
  · intro b hb
    obtain ⟨a1, a2, a3, a4, q, hq, c, hc, e1, e2⟩ := h.block_ok b hb
    refine ⟨a1, a2, a3, a4, ?_⟩
    rw [poolAt_set hlt]
    by_cases e : b.pool = pid
    · simp only [e, if_true]
      rw [e, hp] at hq; cases hq
      refine ⟨p', rfl, ?_⟩
      simp only [Pool.chunks, List.mem_cons] at hc
      rcases hc with rfl | hc
      · exact ⟨p'.head, by simp [Pool.chunks], by omega, by omega⟩
      · exact ⟨c, by simp [Pool.chunks, hrest, hc], e1, e2⟩
    · simp only [e, if_false]
      exact ⟨q, hq, c, hc, e1, e2⟩
  · exact h.disj
  · intro q x hx
    rw [poolAt_set hlt] at hx
    split at hx
    · next e =>
      subst e; cases hx
      have := h.account q p hp
      rw [Pool.size_eq] at this ⊢
      rw [hrest]; omega
    · exact h.account q x hx

/-- `AddChunk`: pool `pid` gets a new head chunk in the fresh region `mem.size` -/
theorem ChunkInv.addChunk (h : ChunkInv pools mem freed ur) {pid : Nat} {p : Pool}
    (hp : poolAt pools pid = some p) (cap a hdr rcnt : Nat) (ha : a ≤ cap) (hal : a % 8 = 0) :
    ChunkInv (pools.set pid (some { p with head := ⟨mem.size, cap, a⟩, rest := p.head :: p.rest,
                                           refcount := rcnt }))
      (mem.baseMalloc (hdr + cap) hdr) freed ur := by
  have hlt := poolAt_lt hp
  have hold : ∀ q x, poolAt pools q = some x → ∀ c ∈ x.chunks,
      c.size ≤ c.cap ∧ c.size % 8 = 0 ∧ c.reg < (mem.baseMalloc (hdr + cap) hdr).size ∧
        (∀ o, o < c.cap → ((mem.baseMalloc (hdr + cap) hdr).read c.reg o).isSome) ∧ c.reg ∉ freed := by
    intro q x hx c hc
    obtain ⟨a1, a2, a3, a4, a5⟩ := h.chunk_ok q x hx c hc
    refine ⟨a1, a2, by rw [size_baseMalloc]; omega, ?_, a5⟩
    intro o ho
    rw [read_baseMalloc, if_neg (by omega)]; exact a4 o ho
  constructor
  · intro q x hx c hc
    rw [poolAt_set hlt] at hx
    split at hx
    · next e =>
      subst e; cases hx
      simp only [Pool.chunks, List.mem_cons] at hc
      rcases hc with rfl | hc
      · refine ⟨ha, hal, by rw [size_baseMalloc]; simp, ?_, ?_⟩
        · intro o ho
          simp only at ho
          rw [read_baseMalloc]; simp; omega
        · intro hf; have := h.freed_lt _ hf; simp at this
      · exact hold q p hp c (by simpa [Pool.chunks] using hc)
    · exact hold q x hx c hc
  · intro q x hx
    rw [poolAt_set hlt] at hx
    split at hx
    · next e =>
      subst e; cases hx
      simp only [Pool.chunks, List.pairwise_cons]
      refine ⟨?_, by simpa [Pool.chunks] using h.regs_nodup q p hp⟩
      intro c hc
      have := (h.chunk_ok q p hp c (by simpa [Pool.chunks] using hc)).2.2.1
      omega
    · exact h.regs_nodup q x hx
  · intro i j x y hx hy c hc d hd e
    rw [poolAt_set hlt] at hx hy
    by_cases hi : i = pid <;> by_cases hj : j = pid
    · omega
    · simp only [hi, if_true, hj, if_false] at hx hy; cases hx
      simp only [Pool.chunks, List.mem_cons] at hc
      rcases hc with rfl | hc
      · have := (h.chunk_ok j y hy d hd).2.2.1
        simp only at e; omega
      · rw [hi]; exact h.regs_disj pid j p y hp hy c (by simpa [Pool.chunks] using hc) d hd e
    · simp only [hi, if_false, hj, if_true] at hx hy; cases hy
      simp only [Pool.chunks, List.mem_cons] at hd
      rcases hd with rfl | hd
      · have := (h.chunk_ok i x hx c hc).2.2.1
        simp only at e; omega
      · rw [hj]; exact h.regs_disj i pid x p hx hp c hc d (by simpa [Pool.chunks] using hd) e
    · simp only [hi, if_false, hj] at hx hy
      exact h.regs_disj i j x y hx hy c hc d hd e
  · intro q x hx
    rw [poolAt_set hlt] at hx
    split at hx
    · next e =>
      subst e; cases hx
      exact h.sreg_last q p hp
    · exact h.sreg_last q x hx
  · intro r hr; rw [size_baseMalloc]; have := h.freed_lt r hr; omega
  · intro r hr; rw [size_baseMalloc]; have := h.user_lt r hr; omega
  · exact h.user_nf
  · intro q x hx c hc hu
    rw [poolAt_set hlt] at hx
    split at hx
    · next e =>
      subst e; cases hx
      simp only [Pool.chunks, List.mem_cons] at hc
      rcases hc with rfl | hc
      · have := h.user_lt _ hu; simp at this
      · exact h.user_chunk q p hp c (by simpa [Pool.chunks] using hc) hu
    · exact h.user_chunk q x hx c hc hu

theorem BlockInv.addChunk (h : BlockInv pools blocks n) {pid : Nat} {p : Pool}
    (hp : poolAt pools pid = some p) (c0 : Chunk) (rcnt : Nat) :
    BlockInv (pools.set pid (some { p with head := c0, rest := p.head :: p.rest, refcount := rcnt }))
      blocks n := by
  have hlt := poolAt_lt hp
  constructor
  · intro b hb
    obtain ⟨a1, a2, a3, a4, q, hq, c, hc, e1, e2⟩ := h.block_ok b hb
    refine ⟨a1, a2, a3, a4, ?_⟩
    rw [poolAt_set hlt]
    by_cases e : b.pool = pid
    · simp only [e, if_true]
      rw [e, hp] at hq; cases hq
      exact ⟨_, rfl, c, by simp only [Pool.chunks] at hc ⊢; exact List.mem_cons_of_mem _ hc, e1, e2⟩
    · simp only [e, if_false]
      exact ⟨q, hq, c, hc, e1, e2⟩
  · exact h.disj
  · intro q x hx
    rw [poolAt_set hlt] at hx
    split at hx
    · next e =>
      subst e; cases hx
      have := h.account q p hp
      simp only [Pool.size, Pool.chunks, List.map_cons, List.sum_cons] at this ⊢
      omega
    · exact h.account q x hx

theorem mem_freedByClear {r : Nat} : ∀ {h : Chunk} {t : List Chunk}, r ∈ freedByClear h t →
    ∃ c ∈ h :: t, c.reg = r := by
  intro h t; induction t generalizing h with
  | nil => intro hr; simp [freedByClear] at hr
  | cons c t ih =>
    intro hr
    simp only [freedByClear, List.mem_cons] at hr
    rcases hr with rfl | hr
    · exact ⟨h, by simp, rfl⟩
    · obtain ⟨x, hx, e⟩ := ih hr
      exact ⟨x, List.mem_cons_of_mem _ hx, e⟩

theorem lastChunk_reg_not_mem : ∀ {h : Chunk} {t : List Chunk},
    (h :: t).Pairwise (fun a b => a.reg ≠ b.reg) → (lastChunk h t).reg ∉ freedByClear h t := by
  intro h t; induction t generalizing h with
  | nil => intro _; simp [freedByClear]
  | cons c t ih =>
    intro hp hm
    simp only [freedByClear, lastChunk, List.mem_cons] at hm
    obtain ⟨h1, h2⟩ := List.pairwise_cons.mp hp
    rcases hm with e | hm
    · exact h1 _ (lastChunk_mem c t) e.symm
    · exact ih h2 hm

theorem blockSum_eq_zero {pid : Nat} {blocks : List Block} (h : ∀ b ∈ blocks, b.pool ≠ pid) :
    blockSum pid blocks = 0 := by
  induction blocks with
  | nil => rfl
  | cons b bs ih =>
    rw [blockSum_cons, if_neg (h b (by simp)), ih (fun x hx => h x (List.mem_cons_of_mem _ hx))]

theorem blockSum_filter_ne {pid q : Nat} (blocks : List Block) (hq : q ≠ pid) :
    blockSum q (blocks.filter (fun b => b.pool != pid)) = blockSum q blocks := by
  induction blocks with
  | nil => rfl
  | cons b bs ih =>
    by_cases e : b.pool = pid
    · have : b.pool ≠ q := by omega
      simp only [List.filter_cons, e, bne_self_eq_false, Bool.false_eq_true, if_false, ih]
      rw [blockSum_cons, e, if_neg (by omega)]; simp
    · have : (b.pool != pid) = true := by simpa using e
      simp only [List.filter_cons, this, if_true, blockSum_cons, ih]

theorem mem_filter_pool {pid : Nat} {blocks : List Block} {b : Block}
    (hb : b ∈ blocks.filter (fun b => b.pool != pid)) : b ∈ blocks ∧ b.pool ≠ pid := by
  have := List.mem_filter.mp hb
  exact ⟨this.1, by simpa using this.2⟩

/-- pool `pid` is cleared / destroyed: it becomes `np`, `regs` are freed, its blocks are dropped -/
theorem ChunkInv.shrink (h : ChunkInv pools mem freed ur) {pid : Nat} {p : Pool}
    (hp : poolAt pools pid = some p) (np : Option Pool) (regs : List Nat)
    (hregs : ∀ r ∈ regs, ∃ c ∈ p.chunks, c.reg = r)
    (hnp : ∀ p', np = some p' → p'.rest = [] ∧ p'.head.reg = (lastChunk p.head p.rest).reg ∧
      p'.head.cap = (lastChunk p.head p.rest).cap ∧ p'.head.size = 0 ∧ p'.sreg = p.sreg ∧
      p'.ownBuffer = p.ownBuffer ∧ p'.head.reg ∉ regs)
    (huser : ∀ r ∈ regs, r ∉ ur) :
    ChunkInv (pools.set pid np) (mem.freeAll regs) (freed ++ regs) ur := by
  have hlt := poolAt_lt hp
  have hlast : lastChunk p.head p.rest ∈ p.chunks := lastChunk_mem _ _
  have hother : ∀ q x, q ≠ pid → poolAt pools q = some x → ∀ c ∈ x.chunks, c.reg ∉ regs := by
    intro q x hq hx c hc hr
    obtain ⟨c', hc', e⟩ := hregs _ hr
    exact hq (h.regs_disj q pid x p hx hp c hc c' hc' e.symm)
  have hkeep : ∀ q x, poolAt pools q = some x → ∀ c ∈ x.chunks, c.reg ∉ regs →
      c.size ≤ c.cap ∧ c.size % 8 = 0 ∧ c.reg < (mem.freeAll regs).size ∧
        (∀ o, o < c.cap → ((mem.freeAll regs).read c.reg o).isSome) ∧ c.reg ∉ freed ++ regs := by
    intro q x hx c hc hr
    obtain ⟨a1, a2, a3, a4, a5⟩ := h.chunk_ok q x hx c hc
    refine ⟨a1, a2, by rw [size_freeAll]; exact a3, ?_, by simp [a5, hr]⟩
    intro o ho; rw [read_freeAll, if_neg hr]; exact a4 o ho
  constructor
  · intro q x hx c hc
    rw [poolAt_set hlt] at hx
    split at hx
    · next e =>
      subst e
      obtain ⟨b1, b2, b3, b4, b5, b6, b7⟩ := hnp x hx
      simp only [Pool.chunks, b1, List.mem_singleton] at hc
      subst hc
      obtain ⟨a1, a2, a3, a4, a5⟩ := hkeep q p hp _ hlast (by rw [← b2]; exact b7)
      refine ⟨by omega, by omega, by rw [b2]; exact a3, ?_, by rw [b2]; exact a5⟩
      rw [b2, b3]; exact a4
    · next e => exact hkeep q x hx c hc (hother q x e hx c hc)
  · intro q x hx
    rw [poolAt_set hlt] at hx
    split at hx
    · next e =>
      subst e
      obtain ⟨b1, _⟩ := hnp x hx
      simp [Pool.chunks, b1]
    · exact h.regs_nodup q x hx
  · intro i j x y hx hy c hc d hd e
    rw [poolAt_set hlt] at hx hy
    by_cases hi : i = pid <;> by_cases hj : j = pid
    · omega
    · simp only [hi, if_true, hj, if_false] at hx hy
      obtain ⟨b1, b2, _⟩ := hnp x hx
      simp only [Pool.chunks, b1, List.mem_singleton] at hc
      subst hc
      rw [hi]
      exact h.regs_disj pid j p y hp hy _ hlast d hd (by omega)
    · simp only [hi, if_false, hj, if_true] at hx hy
      obtain ⟨b1, b2, _⟩ := hnp y hy
      simp only [Pool.chunks, b1, List.mem_singleton] at hd
      subst hd
      rw [hj]
      exact h.regs_disj i pid x p hx hp c hc _ hlast (by omega)
    · simp only [hi, if_false, hj] at hx hy
      exact h.regs_disj i j x y hx hy c hc d hd e
  · intro q x hx
    rw [poolAt_set hlt] at hx
    split at hx
    · next e =>
      subst e
      obtain ⟨b1, b2, b3, b4, b5, b6, b7⟩ := hnp x hx
      rw [b1, b5]; simp only [lastChunk]; rw [b2]; exact h.sreg_last q p hp
    · exact h.sreg_last q x hx
  · intro r hr
    rw [size_freeAll]
    rcases List.mem_append.mp hr with hr | hr
    · exact h.freed_lt r hr
    · obtain ⟨c, hc, e⟩ := hregs r hr
      rw [← e]; exact (h.chunk_ok pid p hp c hc).2.2.1
  · intro r hr; rw [size_freeAll]; exact h.user_lt r hr
  · intro r hr hm
    rcases List.mem_append.mp hm with hm | hm
    · exact h.user_nf r hr hm
    · exact huser r hm hr
  · intro q x hx c hc hu
    rw [poolAt_set hlt] at hx
    split at hx
    · next e =>
      subst e
      obtain ⟨b1, b2, b3, b4, b5, b6, b7⟩ := hnp x hx
      simp only [Pool.chunks, b1, List.mem_singleton] at hc
      subst hc
      have := h.user_chunk q p hp _ hlast (by rw [← b2]; exact hu)
      rw [b2, b5, b6]; exact this
    · exact h.user_chunk q x hx c hc hu

theorem BlockInv.shrink (h : BlockInv pools blocks n) {pid : Nat} {p : Pool}
    (hp : poolAt pools pid = some p) (np : Option Pool) :
    BlockInv (pools.set pid np) (blocks.filter (fun b => b.pool != pid)) n := by
  have hlt := poolAt_lt hp
  constructor
  · intro b hb
    obtain ⟨hb, hne⟩ := mem_filter_pool hb
    obtain ⟨a1, a2, a3, a4, q, hq, r⟩ := h.block_ok b hb
    refine ⟨a1, a2, a3, a4, q, ?_, r⟩
    rw [poolAt_set hlt, if_neg hne]; exact hq
  · exact h.disj.sublist List.filter_sublist
  · intro q x hx
    rw [poolAt_set hlt] at hx
    split at hx
    · next e =>
      subst e
      rw [blockSum_eq_zero]
      · omega
      · intro b hb; exact (mem_filter_pool hb).2
    · next e =>
      rw [blockSum_filter_ne _ e]; exact h.account q x hx

theorem PatInv.shrink (h : PatInv mem blocks) (hc : ChunkInv pools mem freed ur) (hb : BlockInv pools blocks n)
    {pid : Nat} {p : Pool} (hp : poolAt pools pid = some p) (regs : List Nat)
    (hregs : ∀ r ∈ regs, ∃ c ∈ p.chunks, c.reg = r) :
    PatInv (mem.freeAll regs) (blocks.filter (fun b => b.pool != pid)) := by
  intro b hbm i hi
  obtain ⟨hbm, hne⟩ := mem_filter_pool hbm
  rw [read_freeAll, if_neg]
  · exact h b hbm i hi
  · intro hr
    obtain ⟨c', hc', e⟩ := hregs _ hr
    obtain ⟨_, _, _, _, q, hq, c, hcm, e1, _⟩ := hb.block_ok b hbm
    exact hne (hc.regs_disj b.pool pid q p hq hp c hcm c' hc' (by omega))

/-- a new pool with a single chunk in the fresh region `mem.size` -/
theorem ChunkInv.newPool (h : ChunkInv pools mem freed ur) (p : Pool) (bytes hdr : Nat) (ur' : List Nat)
    (hhead : p.head = ⟨mem.size, bytes - hdr, 0⟩) (hrest : p.rest = []) (hsreg : p.sreg = mem.size)
    (hur : (ur' = ur ∧ p.ownBuffer = true) ∨ (ur' = mem.size :: ur ∧ p.ownBuffer = false)) :
    ChunkInv (pools ++ [some p]) (mem.baseMalloc bytes hdr) freed ur' := by
  have hold : ∀ q x, poolAt pools q = some x → ∀ c ∈ x.chunks,
      c.size ≤ c.cap ∧ c.size % 8 = 0 ∧ c.reg < (mem.baseMalloc bytes hdr).size ∧
        (∀ o, o < c.cap → ((mem.baseMalloc bytes hdr).read c.reg o).isSome) ∧ c.reg ∉ freed := by
    intro q x hx c hc
    obtain ⟨a1, a2, a3, a4, a5⟩ := h.chunk_ok q x hx c hc
    refine ⟨a1, a2, by rw [size_baseMalloc]; omega, ?_, a5⟩
    intro o ho
    rw [read_baseMalloc, if_neg (by omega)]; exact a4 o ho
  have hchunks : p.chunks = [⟨mem.size, bytes - hdr, 0⟩] := by simp [Pool.chunks, hhead, hrest]
  have hnotin : mem.size ∉ ur := fun hm => by have := h.user_lt _ hm; omega
  constructor
  · intro q x hx c hc
    rw [poolAt_append] at hx
    split at hx
    · cases hx
      simp only [hchunks, List.mem_singleton] at hc
      subst hc
      refine ⟨by simp, by simp, by rw [size_baseMalloc]; simp, ?_, ?_⟩
      · intro o ho
        simp only at ho
        rw [read_baseMalloc]; simp [ho]
      · intro hf; have := h.freed_lt _ hf; simp at this
    · exact hold q x hx c hc
  · intro q x hx
    rw [poolAt_append] at hx
    split at hx
    · cases hx; simp [hchunks]
    · exact h.regs_nodup q x hx
  · intro i j x y hx hy c hc d hd e
    rw [poolAt_append] at hx hy
    by_cases hi : i = pools.length <;> by_cases hj : j = pools.length
    · omega
    · simp only [hi, if_true, hj, if_false] at hx hy; cases hx
      simp only [hchunks, List.mem_singleton] at hc; subst hc
      have := (h.chunk_ok j y hy d hd).2.2.1
      simp only at e; omega
    · simp only [hi, if_false, hj, if_true] at hx hy; cases hy
      simp only [hchunks, List.mem_singleton] at hd; subst hd
      have := (h.chunk_ok i x hx c hc).2.2.1
      simp only at e; omega
    · simp only [hi, if_false, hj] at hx hy
      exact h.regs_disj i j x y hx hy c hc d hd e
  · intro q x hx
    rw [poolAt_append] at hx
    split at hx
    · cases hx; simp [hrest, lastChunk, hhead, hsreg]
    · exact h.sreg_last q x hx
  · intro r hr; rw [size_baseMalloc]; have := h.freed_lt r hr; omega
  · intro r hr; rw [size_baseMalloc]
    rcases hur with ⟨rfl, _⟩ | ⟨rfl, _⟩
    · have := h.user_lt r hr; omega
    · rcases List.mem_cons.mp hr with rfl | hr
      · omega
      · have := h.user_lt r hr; omega
  · intro r hr
    rcases hur with ⟨rfl, _⟩ | ⟨rfl, _⟩
    · exact h.user_nf r hr
    · rcases List.mem_cons.mp hr with rfl | hr
      · intro hf; have := h.freed_lt _ hf; omega
      · exact h.user_nf r hr
  · intro q x hx c hc hu
    rw [poolAt_append] at hx
    split at hx
    · cases hx
      simp only [hchunks, List.mem_singleton] at hc; subst hc
      rcases hur with ⟨rfl, _⟩ | ⟨rfl, ho⟩
      · exact absurd hu hnotin
      · exact ⟨by simp [hsreg], ho⟩
    · have hlt := (h.chunk_ok q x hx c hc).2.2.1
      rcases hur with ⟨rfl, _⟩ | ⟨rfl, ho⟩
      · exact h.user_chunk q x hx c hc hu
      · rcases List.mem_cons.mp hu with e | hu
        · omega
        · exact h.user_chunk q x hx c hc hu

theorem BlockInv.newPool (h : BlockInv pools blocks n) (p : Pool) :
    BlockInv (pools ++ [some p]) blocks n := by
  have hne : ∀ b ∈ blocks, b.pool ≠ pools.length := by
    intro b hb
    obtain ⟨_, _, _, _, q, hq, _⟩ := h.block_ok b hb
    have := poolAt_lt hq; omega
  constructor
  · intro b hb
    obtain ⟨a1, a2, a3, a4, q, hq, r⟩ := h.block_ok b hb
    refine ⟨a1, a2, a3, a4, q, ?_, r⟩
    rw [poolAt_append, if_neg (hne b hb)]; exact hq
  · exact h.disj
  · intro q x hx
    rw [poolAt_append] at hx
    split at hx
    · next e => subst e; rw [blockSum_eq_zero hne]; omega
    · exact h.account q x hx

theorem eq_of_id_eq {R : Block → Block → Prop} : ∀ {l : List Block},
    l.Pairwise (fun a b => a.id ≠ b.id ∧ R a b) → ∀ {a b : Block}, a ∈ l → b ∈ l → a.id = b.id → a = b := by
  intro l; induction l with
  | nil => intro _ a b ha; simp at ha
  | cons x xs ih =>
    intro hp a b ha hb e
    obtain ⟨h1, h2⟩ := List.pairwise_cons.mp hp
    rcases List.mem_cons.mp ha with ha' | ha' <;> rcases List.mem_cons.mp hb with hb' | hb'
    · rw [ha', hb']
    · rw [ha'] at e; exact absurd e (h1 b hb').1
    · rw [hb'] at e; exact absurd e.symm (h1 a ha').1
    · exact ih h2 ha' hb' e

/-- the ghost update of `recordGrow` -/
def updBlock (bid r' : Nat) (x : Block) : Block :=
  if x.id = bid then { x with req := r', asz := alignUp r' } else x

theorem blockSum_upd {R : Block → Block → Prop} (pid : Nat) (b : Block) (r' : Nat)
    (hle : b.asz ≤ alignUp r') : ∀ {l : List Block},
    l.Pairwise (fun a b => a.id ≠ b.id ∧ R a b) → b ∈ l →
    blockSum pid (l.map (updBlock b.id r')) =
      blockSum pid l + (if b.pool = pid then alignUp r' - b.asz else 0) := by
  intro l; induction l with
  | nil => intro _ hb; simp at hb
  | cons x xs ih =>
    intro hp hb
    obtain ⟨h1, h2⟩ := List.pairwise_cons.mp hp
    rw [List.map_cons, blockSum_cons, blockSum_cons]
    rcases List.mem_cons.mp hb with rfl | hb
    · have hxs : xs.map (updBlock b.id r') = xs := by
        conv => rhs; rw [← List.map_id xs]
        apply List.map_congr_left
        intro y hy
        have := (h1 y hy).1
        simp only [updBlock, id]; rw [if_neg]; exact fun e => this e.symm
      rw [hxs]
      simp only [updBlock, if_true]
      split <;> omega
    · have hne : x.id ≠ b.id := (h1 b hb).1
      rw [ih h2 hb]
      simp only [updBlock, if_neg hne]; omega

theorem BlockInv.updBlock (h : BlockInv pools blocks n) {b : Block} (hb : b ∈ blocks) (r' : Nat)
    (hr : b.req ≤ r')
    (hin : ∀ p, poolAt pools b.pool = some p → ∃ c ∈ p.chunks, c.reg = b.reg ∧ b.off + alignUp r' ≤ c.size)
    (hdisj : ∀ x ∈ blocks, x.id ≠ b.id →
      x.reg ≠ b.reg ∨ x.off + x.asz ≤ b.off ∨ b.off + alignUp r' ≤ x.off)
    (hacc : ∀ p, poolAt pools b.pool = some p → blockSum b.pool blocks + (alignUp r' - b.asz) ≤ p.size) :
    BlockInv pools (blocks.map (updBlock b.id r')) n := by
  obtain ⟨b1, b2, b3, b4, pb, hpb, _⟩ := h.block_ok b hb
  have hle : b.asz ≤ alignUp r' := by rw [b3]; exact alignUp_mono hr
  constructor
  · intro x hx
    obtain ⟨y, hy, rfl⟩ := List.mem_map.mp hx
    by_cases e : y.id = b.id
    · have := eq_of_id_eq h.disj hy hb e; subst this
      simp only [Pool.updBlock, if_true]
      exact ⟨b1, b2, trivial, by omega, pb, hpb, hin pb hpb⟩
    · simp only [Pool.updBlock, if_neg e]; exact h.block_ok y hy
  · rw [List.pairwise_map]
    refine h.disj.imp_of_mem ?_
    intro x y hx hy hxy
    by_cases ex : x.id = b.id <;> by_cases ey : y.id = b.id
    · exact absurd (ex.trans ey.symm) hxy.1
    · have := eq_of_id_eq h.disj hx hb ex; subst this
      simp only [Pool.updBlock, if_true, if_neg ey]
      refine ⟨hxy.1, ?_⟩
      rcases hdisj y hy ey with d | d | d
      · exact Or.inl (fun e => d e.symm)
      · exact Or.inr (Or.inr d)
      · exact Or.inr (Or.inl d)
    · have := eq_of_id_eq h.disj hy hb ey; subst this
      simp only [Pool.updBlock, if_true, if_neg ex]
      exact ⟨hxy.1, hdisj x hx ex⟩
    · simp only [Pool.updBlock, if_neg ex, if_neg ey]; exact hxy
  · intro q x hx
    rw [blockSum_upd q b r' hle h.disj hb]
    by_cases e : b.pool = q
    · subst e; simp only [if_true]; exact hacc x hx
    · simp only [if_neg e]; exact h.account q x hx

theorem PatInv.updBlock (h : PatInv mem blocks) (hd : BlockInv pools blocks n) {b : Block} (hb : b ∈ blocks)
    (r' : Nat) (hnew : ∀ i, i < r' → mem.read b.reg (b.off + i) = some (pat b.id i)) :
    PatInv mem (blocks.map (updBlock b.id r')) := by
  intro x hx i hi
  obtain ⟨y, hy, rfl⟩ := List.mem_map.mp hx
  by_cases e : y.id = b.id
  · have := eq_of_id_eq hd.disj hy hb e; subst this
    simp only [Pool.updBlock, if_true] at hi ⊢
    exact hnew i hi
  · simp only [Pool.updBlock, if_neg e] at hi ⊢; exact h y hy i hi

/-- a block lying in the region of the head chunk of pool `pid` belongs to that pool and ends below
    the head chunk's fill mark -/
theorem block_in_head (hc : ChunkInv pools mem freed ur) (hb : BlockInv pools blocks n) {pid : Nat} {p : Pool}
    (hp : poolAt pools pid = some p) {b : Block} (hbm : b ∈ blocks) (e : b.reg = p.head.reg) :
    b.pool = pid ∧ b.off + b.asz ≤ p.head.size := by
  obtain ⟨_, _, _, _, q, hq, c, hcm, e1, e2⟩ := hb.block_ok b hbm
  have hpid := hc.regs_disj b.pool pid q p hq hp c hcm p.head (by simp [Pool.chunks]) (by omega)
  refine ⟨hpid, ?_⟩
  have hqp : p = q := by rw [hpid, hp] at hq; exact Option.some.inj hq
  subst hqp
  have hnd := hc.regs_nodup pid p hp
  simp only [Pool.chunks, List.pairwise_cons, List.mem_cons] at hnd hcm
  rcases hcm with rfl | hcm
  · exact e2
  · exact absurd (e1.trans e).symm (hnd.1 c hcm)

theorem block_reg_lt (hc : ChunkInv pools mem freed ur) (hb : BlockInv pools blocks n) {b : Block}
    (hbm : b ∈ blocks) : b.reg < mem.size := by
  obtain ⟨_, _, _, _, q, hq, c, hcm, e1, _⟩ := hb.block_ok b hbm
  rw [← e1]; exact (hc.chunk_ok _ q hq c hcm).2.2.1

/-- every byte of the aligned extent of a live block is readable (inside live allocated memory) -/
theorem block_readable (hc : ChunkInv pools mem freed ur) (hb : BlockInv pools blocks n) {b : Block}
    (hbm : b ∈ blocks) (i : Nat) (hi : i < b.asz) : (mem.read b.reg (b.off + i)).isSome := by
  obtain ⟨_, _, _, _, q, hq, c, hcm, e1, e2⟩ := hb.block_ok b hbm
  obtain ⟨a1, _, _, a4, _⟩ := hc.chunk_ok _ q hq c hcm
  rw [← e1]; exact a4 _ (by omega)

end

/-! ### reference counting -/

/-- 1 if the handle refers to pool `q`, else 0 -/
def refN (h : Handle) (q : Nat) : Nat := if h.refers q then 1 else 0

@[simp] theorem refN_live (pid : Nat) (cp : Policy) (q : Nat) :
    refN (.live pid cp) q = if pid = q then 1 else 0 := by
  simp [refN, Handle.refers]
@[simp] theorem refN_empty (q : Nat) : refN .empty q = 0 := by simp [refN, Handle.refers]
@[simp] theorem refN_moved (cp : Policy) (q : Nat) : refN (.moved cp) q = 0 := by simp [refN, Handle.refers]

theorem count_set_of {slots : List Handle} {k : Nat} {h0 : Handle} (hold : slots[k]? = some h0)
    (q : Nat) (h : Handle) :
    count q (slots.set k h) + refN h0 q = count q slots + refN h q := by
  obtain ⟨hk, e⟩ := List.getElem?_eq_some_iff.mp hold
  unfold count refN
  rw [List.countP_set hk, e]
  by_cases hr : h0.refers q = true
  · have : 0 < List.countP (Handle.refers q) slots :=
      List.countP_pos_iff.mpr ⟨h0, by rw [← e]; exact List.getElem_mem hk, hr⟩
    simp only [hr, if_true]; omega
  · simp only [hr]; simp

theorem count_pos {slots : List Handle} {k pid : Nat} {cp : Policy}
    (h : slots[k]? = some (.live pid cp)) : 0 < count pid slots := by
  obtain ⟨hk, e⟩ := List.getElem?_eq_some_iff.mp h
  exact List.countP_pos_iff.mpr ⟨.live pid cp, by rw [← e]; exact List.getElem_mem hk, by simp [Handle.refers]⟩

theorem RefInv.live {pools : List (Option Pool)} {slots : List Handle} (h : RefInv pools slots)
    {k pid : Nat} {cp : Policy} (hk : slots[k]? = some (.live pid cp)) :
    ∃ p, poolAt pools pid = some p ∧ p.refcount = count pid slots ∧ 1 ≤ p.refcount := by
  have hpos := count_pos hk
  have := h.rc_eq pid
  unfold rcN at this
  rcases hp : poolAt pools pid with _ | p
  · simp only [hp] at this; omega
  · simp only [hp] at this
    exact ⟨p, rfl, this, by omega⟩

theorem RefInv.of_pool {pools : List (Option Pool)} {slots : List Handle} (h : RefInv pools slots)
    {pid : Nat} {p : Pool} (hp : poolAt pools pid = some p) :
    p.refcount = count pid slots ∧ 1 ≤ p.refcount := by
  have := h.rc_eq pid
  unfold rcN at this
  simp only [hp] at this
  exact ⟨this, h.rc_pos pid p hp⟩

theorem poolAt_incRef {s : State} {pid : Nat} {p : Pool} (hp : poolAt s.pools pid = some p) (q : Nat) :
    poolAt (incRef s pid).pools q =
      if q = pid then some { p with refcount := p.refcount + 1 } else poolAt s.pools q := by
  unfold incRef
  simp only [State.pool?, hp]
  rw [poolAt_set (poolAt_lt hp)]

theorem poolAt_dtor {s : State} {pid : Nat} {p : Pool} (hp : poolAt s.pools pid = some p) (cp : Policy)
    (q : Nat) :
    poolAt (dtor s (.live pid cp)).1.pools q =
      if q = pid then (if p.refcount > 1 then some { p with refcount := p.refcount - 1 } else none)
      else poolAt s.pools q := by
  unfold dtor
  simp only [State.pool?, hp]
  by_cases hr : p.refcount > 1
  · simp only [hr, if_true]; rw [poolAt_set (poolAt_lt hp)]
  · simp only [hr, if_false]; rw [poolAt_set (poolAt_lt hp)]

theorem dtor_slots (s : State) (h : Handle) : (dtor s h).1.slots = s.slots := by
  unfold dtor
  cases h with
  | empty => rfl
  | moved cp => rfl
  | live pid cp =>
    simp only
    split
    · split <;> rfl
    · rfl

theorem dtor_pools_of_not_live (s : State) (h : Handle) (hn : ∀ pid cp, h ≠ .live pid cp) :
    (dtor s h).1.pools = s.pools := by
  unfold dtor
  cases h with
  | empty => rfl
  | moved cp => rfl
  | live pid cp => exact absurd rfl (hn pid cp)

theorem incRef_slots (s : State) (pid : Nat) : (incRef s pid).slots = s.slots := by
  unfold incRef; split <;> rfl

/-! ### the memory part of the invariant under the handle operations -/

theorem MemInv.setRefcount {s : State} (h : MemInv s) {pid : Nat} {p : Pool}
    (hp : poolAt s.pools pid = some p) (r : Nat) :
    MemInv { s with pools := s.pools.set pid (some { p with refcount := r }) } := by
  obtain ⟨a1, a2, _, _, _⟩ := h.chunk.chunk_ok pid p hp p.head (by simp [Pool.chunks])
  exact ⟨h.chunk.updHead hp rfl rfl rfl a1 a2 rfl rfl, h.block.updHead hp rfl rfl (Nat.le_refl _), h.pat⟩

theorem MemInv.incRef {s : State} (h : MemInv s) (pid : Nat) : MemInv (incRef s pid) := by
  unfold Sonic.Model.Pool.incRef
  rcases hp : poolAt s.pools pid with _ | p
  · simp only [State.pool?, hp]; exact h
  · simp only [State.pool?, hp]; exact h.setRefcount hp _

theorem clearFrees_sub {p : Pool} : ∀ r ∈ freedByClear p.head p.rest, ∃ c ∈ p.chunks, c.reg = r :=
  fun _ hr => mem_freedByClear hr

theorem clearFrees_user {pools : List (Option Pool)} {mem : Mem} {freed ur : List Nat}
    (hc : ChunkInv pools mem freed ur) {pid : Nat} {p : Pool} (hp : poolAt pools pid = some p) :
    ∀ r ∈ freedByClear p.head p.rest, r ∉ ur := by
  intro r hr hu
  obtain ⟨c, hcm, e⟩ := mem_freedByClear hr
  have := (hc.user_chunk pid p hp c hcm (by rw [e]; exact hu)).1
  rw [← hc.sreg_last pid p hp, e] at this
  exact lastChunk_reg_not_mem (hc.regs_nodup pid p hp) (this ▸ hr)

theorem dtorFrees_sub {pools : List (Option Pool)} {mem : Mem} {freed ur : List Nat}
    (hc : ChunkInv pools mem freed ur) {pid : Nat} {p : Pool} (hp : poolAt pools pid = some p) :
    ∀ r ∈ p.dtorFrees, ∃ c ∈ p.chunks, c.reg = r := by
  intro r hr
  simp only [Pool.dtorFrees, Pool.clear, List.mem_append] at hr
  rcases hr with hr | hr
  · exact mem_freedByClear hr
  · split at hr
    · simp only [List.mem_singleton] at hr
      exact ⟨_, lastChunk_mem p.head p.rest, by rw [hr]; exact hc.sreg_last pid p hp⟩
    · simp at hr

theorem dtorFrees_user {pools : List (Option Pool)} {mem : Mem} {freed ur : List Nat}
    (hc : ChunkInv pools mem freed ur) {pid : Nat} {p : Pool} (hp : poolAt pools pid = some p) :
    ∀ r ∈ p.dtorFrees, r ∉ ur := by
  intro r hr
  simp only [Pool.dtorFrees, Pool.clear, List.mem_append] at hr
  rcases hr with hr | hr
  · exact clearFrees_user hc hp r hr
  · split at hr
    · next ho =>
      simp only [List.mem_singleton] at hr
      intro hu
      have := (hc.user_chunk pid p hp _ (lastChunk_mem p.head p.rest)
        (by rw [hc.sreg_last pid p hp, ← hr]; exact hu)).2
      rw [ho] at this; cases this
    · simp at hr

theorem MemInv.dtor {s : State} (h : MemInv s) (hd : Handle) : MemInv (dtor s hd).1 := by
  unfold Sonic.Model.Pool.dtor
  cases hd with
  | empty => exact h
  | moved cp => exact h
  | live pid cp =>
    simp only
    rcases hp : poolAt s.pools pid with _ | p
    · simp only [State.pool?, hp]; exact h
    · simp only [State.pool?, hp]
      split
      · exact h.setRefcount hp _
      · exact ⟨h.chunk.shrink hp none _ (dtorFrees_sub h.chunk hp) (by intro p' e; cases e)
                 (dtorFrees_user h.chunk hp),
               h.block.shrink hp none,
               h.pat.shrink h.chunk h.block hp _ (dtorFrees_sub h.chunk hp)⟩

/-! ### every operation preserves the invariant -/

theorem isLive_iff {s : State} {k : Nat} :
    isLive s k = true ↔ ∃ pid cp, s.slots[k]? = some (.live pid cp) := by
  unfold isLive
  split
  · next pid cp h => simp [h]
  · next h =>
    simp only [Bool.false_eq_true, false_iff]
    intro ⟨pid, cp, e⟩; exact h pid cp e

theorem isEmpty_iff {s : State} {k : Nat} : isEmpty s k = true ↔ s.slots[k]? = some .empty := by
  unfold isEmpty
  split
  · next h => simp [h]
  · next h => simp only [Bool.false_eq_true, false_iff]; exact h

theorem inv_copy {s : State} (h : PoolInv s) (dst src : Nat) (hd : s.slots[dst]? = some .empty) :
    PoolInv (execCopy s dst src).1 := by
  unfold execCopy
  split
  · next pid cp hs =>
    obtain ⟨p, hp, hrc, hpos⟩ := h.ref.live hs
    have hm := h.toMemInv.incRef pid
    refine { toMemInv := ⟨hm.chunk, hm.block, hm.pat⟩, ref := ⟨?_, ?_, ?_⟩ }
    · simp [incRef_slots, h.ref.slots_len]
    · intro q
      simp only [incRef_slots, rcN, poolAt_incRef hp]
      have hc := count_set_of hd q (.live pid cp)
      have hq := h.ref.rc_eq q
      simp only [refN_live, refN_empty, rcN] at hc hq
      by_cases e : q = pid
      · subst e; simp only [if_true] at hc ⊢; omega
      · have : ¬ pid = q := fun x => e x.symm
        simp only [this, e, if_false] at hc ⊢; omega
    · intro q x hx
      simp only [poolAt_incRef hp] at hx
      split at hx
      · cases hx; simp
      · exact h.ref.rc_pos q x hx
  · exact h

theorem getElem?_set_ne' {slots : List Handle} {i j : Nat} (h : i ≠ j) (x : Handle) :
    (slots.set i x)[j]? = slots[j]? := by
  rw [List.getElem?_set, if_neg h]

theorem inv_move {s : State} (h : PoolInv s) (dst src : Nat) (hd : s.slots[dst]? = some .empty) :
    PoolInv (execMove s dst src).1 := by
  unfold execMove
  split
  · next pid cp hs =>
    have hne : dst ≠ src := by intro e; rw [e, hs] at hd; cases hd
    refine { toMemInv := ⟨h.chunk, h.block, h.pat⟩, ref := ⟨?_, ?_, h.ref.rc_pos⟩ }
    · simp [h.ref.slots_len]
    · intro q
      have c1 := count_set_of hd q (.live pid cp)
      have c2 := count_set_of (slots := s.slots.set dst (.live pid cp)) (k := src)
        (by rw [getElem?_set_ne' hne]; exact hs) q (.moved cp)
      have hq := h.ref.rc_eq q
      simp only [refN_live, refN_empty, refN_moved] at c1 c2
      show rcN s.pools q = count q ((s.slots.set dst (.live pid cp)).set src (.moved cp))
      omega
  · exact h

theorem inv_destroy {s : State} (h : PoolInv s) (slot : Nat) : PoolInv (execDestroy s slot).1 := by
  unfold execDestroy
  split
  · next hd hs =>
    have hm := h.toMemInv.dtor hd
    refine { toMemInv := ⟨hm.chunk, hm.block, hm.pat⟩, ref := ?_ }
    show RefInv (dtor s hd).1.pools ((dtor s hd).1.slots.set slot .empty)
    rw [dtor_slots]
    cases hd with
    | live pd cpd =>
      obtain ⟨p, hp, hrc, hpos⟩ := h.ref.live hs
      refine ⟨by simp [h.ref.slots_len], ?_, ?_⟩
      · intro q
        have c1 := count_set_of hs q .empty
        have hq := h.ref.rc_eq q
        simp only [refN_live, refN_empty, rcN] at c1 hq
        simp only [rcN, poolAt_dtor hp]
        by_cases e : q = pd
        · subst e
          simp only [if_true] at c1 ⊢
          by_cases hr : p.refcount > 1 <;> simp only [hr, if_true, if_false] <;> omega
        · have : ¬ pd = q := fun x => e x.symm
          simp only [this, e, if_false] at c1 ⊢; omega
      · intro q x hx
        simp only [poolAt_dtor hp] at hx
        split at hx
        · split at hx
          · cases hx; simp only; omega
          · cases hx
        · exact h.ref.rc_pos q x hx
    | empty =>
      rw [dtor_pools_of_not_live _ _ (by intro _ _ e; cases e)]
      refine ⟨by simp [h.ref.slots_len], ?_, h.ref.rc_pos⟩
      intro q
      have c1 := count_set_of hs q .empty
      have hq := h.ref.rc_eq q
      simp only [refN_empty] at c1; omega
    | moved cp0 =>
      rw [dtor_pools_of_not_live _ _ (by intro _ _ e; cases e)]
      refine ⟨by simp [h.ref.slots_len], ?_, h.ref.rc_pos⟩
      intro q
      have c1 := count_set_of hs q .empty
      have hq := h.ref.rc_eq q
      simp only [refN_empty, refN_moved] at c1; omega
  · exact h

theorem inv_assign {s : State} (h : PoolInv s) (dst src : Nat) : PoolInv (execAssign s dst src).1 := by
  unfold execAssign
  split
  · next pid cp hd hs hds =>
    obtain ⟨p, hp, hrc, hpos⟩ := h.ref.live hs
    have hm := (h.toMemInv.incRef pid).dtor hd
    refine { toMemInv := ⟨hm.chunk, hm.block, hm.pat⟩, ref := ?_ }
    show RefInv (dtor (incRef s pid) hd).1.pools ((dtor (incRef s pid) hd).1.slots.set dst (.live pid cp))
    rw [dtor_slots, incRef_slots]
    cases hd with
    | live pd cpd =>
      obtain ⟨pp, hpp, hrcp, hposp⟩ := h.ref.live hds
      by_cases hpd : pd = pid
      · subst hpd
        rw [hp] at hpp; cases hpp
        have hp1 : poolAt (incRef s pd).pools pd = some { p with refcount := p.refcount + 1 } := by
          rw [poolAt_incRef hp]; simp
        refine ⟨by simp [h.ref.slots_len], ?_, ?_⟩
        · intro q
          have c1 := count_set_of hds q (.live pd cp)
          have hq := h.ref.rc_eq q
          simp only [refN_live, rcN] at c1 hq
          simp only [rcN, poolAt_dtor hp1, poolAt_incRef hp]
          by_cases e : q = pd
          · subst e
            have hr : p.refcount + 1 > 1 := by omega
            simp only [if_true, hr, hp] at c1 hq ⊢; omega
          · have : ¬ pd = q := fun x => e x.symm
            simp only [this, e, if_false] at c1 ⊢; omega
        · intro q x hx
          simp only [poolAt_dtor hp1, poolAt_incRef hp] at hx
          have hr : p.refcount + 1 > 1 := by omega
          split at hx
          · cases hx; simp only; omega
          · exact h.ref.rc_pos q x hx
      · have hp1 : poolAt (incRef s pid).pools pd = some pp := by
          rw [poolAt_incRef hp, if_neg hpd]; exact hpp
        refine ⟨by simp [h.ref.slots_len], ?_, ?_⟩
        · intro q
          have c1 := count_set_of hds q (.live pid cp)
          have hq := h.ref.rc_eq q
          simp only [refN_live, rcN] at c1 hq
          simp only [rcN, poolAt_dtor hp1, poolAt_incRef hp]
          by_cases e : q = pd
          · subst e
            have : ¬ pid = q := fun x => hpd x.symm
            simp only [if_true, this, if_false, hpp] at c1 hq ⊢
            by_cases hr : pp.refcount > 1 <;> simp only [hr, if_true, if_false] <;> omega
          · have : ¬ pd = q := fun x => e x.symm
            simp only [this, e, if_false] at c1 ⊢
            by_cases e2 : q = pid
            · subst e2; simp only [if_true, hp] at c1 hq ⊢; omega
            · have : ¬ pid = q := fun x => e2 x.symm
              simp only [this, e2, if_false] at c1 ⊢; omega
        · intro q x hx
          simp only [poolAt_dtor hp1, poolAt_incRef hp] at hx
          split at hx
          · split at hx
            · cases hx; simp only; omega
            · cases hx
          · split at hx
            · cases hx; simp
            · exact h.ref.rc_pos q x hx
    | empty =>
      rw [dtor_pools_of_not_live _ _ (by intro _ _ e; cases e)]
      refine ⟨by simp [h.ref.slots_len], ?_, ?_⟩
      · intro q
        have c1 := count_set_of hds q (.live pid cp)
        have hq := h.ref.rc_eq q
        simp only [refN_live, refN_empty, rcN] at c1 hq
        simp only [rcN, poolAt_incRef hp]
        by_cases e : q = pid
        · subst e; simp only [if_true, hp] at c1 hq ⊢; omega
        · have : ¬ pid = q := fun x => e x.symm
          simp only [this, e, if_false] at c1 ⊢; omega
      · intro q x hx
        simp only [poolAt_incRef hp] at hx
        split at hx
        · cases hx; simp
        · exact h.ref.rc_pos q x hx
    | moved cp0 =>
      rw [dtor_pools_of_not_live _ _ (by intro _ _ e; cases e)]
      refine ⟨by simp [h.ref.slots_len], ?_, ?_⟩
      · intro q
        have c1 := count_set_of hds q (.live pid cp)
        have hq := h.ref.rc_eq q
        simp only [refN_live, refN_moved, rcN] at c1 hq
        simp only [rcN, poolAt_incRef hp]
        by_cases e : q = pid
        · subst e; simp only [if_true, hp] at c1 hq ⊢; omega
        · have : ¬ pid = q := fun x => e x.symm
          simp only [this, e, if_false] at c1 ⊢; omega
      · intro q x hx
        simp only [poolAt_incRef hp] at hx
        split at hx
        · cases hx; simp
        · exact h.ref.rc_pos q x hx
  · exact h

theorem inv_massign {s : State} (h : PoolInv s) (dst src : Nat) (hne : dst ≠ src) :
    PoolInv (execMassign s dst src).1 := by
  unfold execMassign
  split
  · next pid cp hd hs hds =>
    have hm := h.toMemInv.dtor hd
    refine { toMemInv := ⟨hm.chunk, hm.block, hm.pat⟩, ref := ?_ }
    show RefInv (dtor s hd).1.pools
      (((dtor s hd).1.slots.set dst (.live pid cp)).set src (.moved cp))
    rw [dtor_slots]
    have hlen : ((s.slots.set dst (.live pid cp)).set src (.moved cp)).length = 8 := by
      simp [h.ref.slots_len]
    have cnt : ∀ q, count q ((s.slots.set dst (.live pid cp)).set src (.moved cp)) + refN hd q =
        count q s.slots := by
      intro q
      have c1 := count_set_of hds q (.live pid cp)
      have c2 := count_set_of (slots := s.slots.set dst (.live pid cp)) (k := src)
        (by rw [getElem?_set_ne' hne]; exact hs) q (.moved cp)
      simp only [refN_live, refN_moved] at c1 c2
      omega
    cases hd with
    | live pd cpd =>
      obtain ⟨pp, hpp, hrcp, hposp⟩ := h.ref.live hds
      refine ⟨hlen, ?_, ?_⟩
      · intro q
        have c1 := cnt q
        have hq := h.ref.rc_eq q
        simp only [refN_live, rcN] at c1 hq
        simp only [rcN, poolAt_dtor hpp]
        by_cases e : q = pd
        · subst e
          simp only [if_true, hpp] at c1 hq ⊢
          by_cases hr : pp.refcount > 1 <;> simp only [hr, if_true, if_false] <;> omega
        · have : ¬ pd = q := fun x => e x.symm
          simp only [this, e, if_false] at c1 ⊢; omega
      · intro q x hx
        simp only [poolAt_dtor hpp] at hx
        split at hx
        · split at hx
          · cases hx; simp only; omega
          · cases hx
        · exact h.ref.rc_pos q x hx
    | empty =>
      rw [dtor_pools_of_not_live _ _ (by intro _ _ e; cases e)]
      refine ⟨hlen, ?_, h.ref.rc_pos⟩
      intro q
      have c1 := cnt q
      have hq := h.ref.rc_eq q
      simp only [refN_empty] at c1; omega
    | moved cp0 =>
      rw [dtor_pools_of_not_live _ _ (by intro _ _ e; cases e)]
      refine ⟨hlen, ?_, h.ref.rc_pos⟩
      intro q
      have c1 := cnt q
      have hq := h.ref.rc_eq q
      simp only [refN_moved] at c1; omega
  · exact h

theorem inv_stat {s : State} (h : PoolInv s) (slot : Nat) : PoolInv (execStat s slot).1 := by
  unfold execStat
  split
  · split <;> exact h
  · exact h

theorem poolAt_length (pools : List (Option Pool)) : poolAt pools pools.length = none := by
  rcases hp : poolAt pools pools.length with _ | p
  · rfl
  · have := poolAt_lt hp; omega

theorem RefInv.newPool {pools : List (Option Pool)} {slots : List Handle} (h : RefInv pools slots)
    {slot : Nat} (hd : slots[slot]? = some .empty) (p : Pool) (hr : p.refcount = 1) (cp : Policy) :
    RefInv (pools ++ [some p]) (slots.set slot (.live pools.length cp)) := by
  refine ⟨by simp [h.slots_len], ?_, ?_⟩
  · intro q
    have c1 := count_set_of hd q (.live pools.length cp)
    have hq := h.rc_eq q
    simp only [refN_live, refN_empty, rcN] at c1 hq
    simp only [rcN, poolAt_append]
    by_cases e : q = pools.length
    · subst e
      simp only [if_true, poolAt_length] at c1 hq ⊢; omega
    · have : ¬ pools.length = q := fun x => e x.symm
      simp only [this, e, if_false] at c1 ⊢; omega
  · intro q x hx
    rw [poolAt_append] at hx
    split at hx
    · cases hx; omega
    · exact h.rc_pos q x hx

/-- replace pool `pid` by one with the same reference count, and the handle in `slot` (which refers
    to `pid`) by another handle referring to `pid` -/
theorem RefInv.setPool {pools : List (Option Pool)} {slots : List Handle} (h : RefInv pools slots)
    {pid : Nat} {p : Pool} (hp : poolAt pools pid = some p) (p' : Pool) (hr : p'.refcount = p.refcount) :
    RefInv (pools.set pid (some p')) slots := by
  have hlt := poolAt_lt hp
  refine ⟨h.slots_len, ?_, ?_⟩
  · intro q
    have hq := h.rc_eq q
    simp only [rcN] at hq
    simp only [rcN, poolAt_set hlt]
    by_cases e : q = pid
    · subst e; simp only [if_true, hp] at hq ⊢; omega
    · simp only [e, if_false]; exact hq
  · intro q x hx
    rw [poolAt_set hlt] at hx
    split at hx
    · next e => subst e; cases hx; have := h.rc_pos q p hp; omega
    · exact h.rc_pos q x hx

theorem RefInv.setCp {pools : List (Option Pool)} {slots : List Handle} (h : RefInv pools slots)
    {slot pid : Nat} {cp : Policy} (hs : slots[slot]? = some (.live pid cp)) (cp' : Policy) :
    RefInv pools (slots.set slot (.live pid cp')) := by
  refine ⟨by simp [h.slots_len], ?_, h.rc_pos⟩
  intro q
  have c1 := count_set_of hs q (.live pid cp')
  have hq := h.rc_eq q
  simp only [refN_live] at c1; omega

theorem RefInv.alloc {pools : List (Option Pool)} {slots : List Handle} (h : RefInv pools slots)
    {slot pid : Nat} {cp : Policy} {p : Pool} (hs : slots[slot]? = some (.live pid cp))
    (hp : poolAt pools pid = some p) (p' : Pool) (hr : p'.refcount = p.refcount) (cp' : Policy) :
    RefInv (pools.set pid (some p')) (slots.set slot (.live pid cp')) :=
  (h.setPool hp p' hr).setCp hs cp'

theorem inv_new {s : State} (h : PoolInv s) (slot : Nat) (kind : PolicyKind) (cap : Nat)
    (hd : s.slots[slot]? = some .empty) : PoolInv (execNew s slot kind cap).1 := by
  unfold execNew
  refine { toMemInv := ⟨?_, ?_, ?_⟩, ref := ?_ }
  · exact h.chunk.newPool _ _ _ _ (by simp) rfl rfl (Or.inl ⟨rfl, rfl⟩)
  · exact h.block.newPool _
  · exact h.pat.baseMalloc _ _
  · exact h.ref.newPool hd _ rfl _

theorem inv_newbuf {s : State} (h : PoolInv s) (slot : Nat) (kind : PolicyKind) (cap bufsize misalign : Nat)
    (hd : s.slots[slot]? = some .empty) : PoolInv (execNewbuf s slot kind cap bufsize misalign).1 := by
  unfold execNewbuf
  refine { toMemInv := ⟨?_, ?_, ?_⟩, ref := ?_ }
  · refine h.chunk.newPool _ _ _ _ ?_ rfl rfl (Or.inr ⟨rfl, rfl⟩)
    simp only [Chunk.mk.injEq, true_and, and_true]; omega
  · exact h.block.newPool _
  · exact h.pat.baseMalloc _ _
  · exact h.ref.newPool hd _ rfl _

theorem inv_clear {s : State} (h : PoolInv s) (slot : Nat) : PoolInv (execClear s slot).1 := by
  unfold execClear
  split
  · next pid cp hs =>
    rcases hp : poolAt s.pools pid with _ | p
    · simp only [State.pool?, hp]; exact h
    · simp only [State.pool?, hp]
      refine { toMemInv := ⟨?_, ?_, ?_⟩, ref := ?_ }
      · refine h.chunk.shrink hp (some p.clear.1) p.clear.2 clearFrees_sub ?_ (clearFrees_user h.chunk hp)
        intro p' e; cases e
        exact ⟨rfl, rfl, rfl, rfl, rfl, rfl, lastChunk_reg_not_mem (h.chunk.regs_nodup pid p hp)⟩
      · exact h.block.shrink hp _
      · exact h.pat.shrink h.chunk h.block hp _ clearFrees_sub
      · exact h.ref.setPool hp _ rfl
  · exact h

/-! ### Malloc / Realloc -/

theorem alignUp_idem (x : Nat) : alignUp (alignUp x) = alignUp x := by unfold alignUp; omega

theorem poolMalloc_cases (p : Pool) (cp : Policy) (mem : Mem) (size : Nat) (h : size ≠ 0) :
    (p.head.size + alignUp size ≤ p.head.cap ∧
      poolMalloc p cp mem size =
        ⟨{ p with head := { p.head with size := p.head.size + alignUp size } }, cp, mem,
          some (p.head.reg, p.head.size)⟩) ∨
    (p.head.cap < p.head.size + alignUp size ∧
      poolMalloc p cp mem size =
        ⟨{ p with head := ⟨mem.size, (cp.chunkSize (alignUp size)).2, alignUp size⟩,
                  rest := p.head :: p.rest },
          (cp.chunkSize (alignUp size)).1,
          mem.baseMalloc (SIZEOF_CHUNK_HEADER + (cp.chunkSize (alignUp size)).2) SIZEOF_CHUNK_HEADER,
          some (mem.size, 0)⟩) := by
  unfold poolMalloc
  simp only [h, if_false]
  by_cases hf : p.head.size + alignUp size > p.head.cap
  · right; rw [if_pos hf]; exact ⟨hf, rfl⟩
  · left; rw [if_neg hf]; exact ⟨by omega, rfl⟩

theorem poolRealloc_cases (p : Pool) (cp : Policy) (mem : Mem) (r o old new : Nat) (hn : new ≠ 0) :
    (alignUp new ≤ alignUp old ∧ poolRealloc p cp mem (some (r, o)) old new = ⟨p, cp, mem, some (r, o)⟩) ∨
    (alignUp old < alignUp new ∧ r = p.head.reg ∧ o + alignUp old = p.head.size ∧
      p.head.size + (alignUp new - alignUp old) ≤ p.head.cap ∧
      poolRealloc p cp mem (some (r, o)) old new =
        ⟨{ p with head := { p.head with size := p.head.size + (alignUp new - alignUp old) } }, cp, mem,
          some (r, o)⟩) ∨
    (alignUp old < alignUp new ∧
      ¬ (r = p.head.reg ∧ o + alignUp old = p.head.size ∧
          p.head.size + (alignUp new - alignUp old) ≤ p.head.cap) ∧
      ∃ r' o', (poolMalloc p cp mem (alignUp new)).ptr = some (r', o') ∧
        poolRealloc p cp mem (some (r, o)) old new =
          { poolMalloc p cp mem (alignUp new) with
            mem := if alignUp old ≠ 0 then (poolMalloc p cp mem (alignUp new)).mem.copy r' o' r o (alignUp old)
                   else (poolMalloc p cp mem (alignUp new)).mem }) := by
  unfold poolRealloc
  simp only [hn, if_false]
  by_cases h1 : alignUp old ≥ alignUp new
  · left; rw [if_pos h1]; exact ⟨h1, rfl⟩
  · right
    rw [if_neg h1]
    by_cases h2 : r = p.head.reg ∧ o + alignUp old = p.head.size ∧
        p.head.size + (alignUp new - alignUp old) ≤ p.head.cap
    · left; rw [if_pos h2]
      exact ⟨by omega, h2.1, h2.2.1, h2.2.2, rfl⟩
    · right
      rw [if_neg h2]
      refine ⟨by omega, h2, ?_⟩
      have hne : alignUp new ≠ 0 := by have := le_alignUp new; omega
      rcases poolMalloc_cases p cp mem (alignUp new) hne with ⟨_, e⟩ | ⟨_, e⟩
      · exact ⟨_, _, by rw [e], by rw [e]⟩
      · exact ⟨_, _, by rw [e], by rw [e]⟩

/-- the state after the allocator part of `pool-malloc` / `pool-realloc` -/
def allocState (s : State) (slot pid : Nat) (r : MallocRes) : State :=
  { s with pools := s.pools.set pid (some r.pool), slots := s.slots.set slot (.live pid r.cp), mem := r.mem }

theorem allocCore_eq {s : State} {slot pid : Nat} {cp : Policy} {p : Pool}
    (hs : s.slots[slot]? = some (.live pid cp)) (hp : poolAt s.pools pid = some p)
    (orig : Ptr) (old new : Nat) :
    allocCore s slot orig old new =
      some (allocState s slot pid (poolRealloc p cp s.mem orig old new), pid,
            poolRealloc p cp s.mem orig old new) := by
  unfold allocCore allocState
  simp only [hs, State.pool?, hp]

/-- facts about a block about to be recorded at `(reg, off)` with aligned size `a` in pool `pid` -/
structure NewBlockOk (pools : List (Option Pool)) (blocks : List Block) (pid reg off a : Nat) : Prop where
  off_al : off % 8 = 0
  in_chunk : ∃ p', poolAt pools pid = some p' ∧ ∃ c ∈ p'.chunks, c.reg = reg ∧ off + a ≤ c.size
  above : ∀ b ∈ blocks, b.reg = reg → b.off + b.asz ≤ off
  acc : ∀ p', poolAt pools pid = some p' → blockSum pid blocks + a ≤ p'.size

theorem inv_poolMalloc {s : State} (h : PoolInv s) {slot pid : Nat} {cp : Policy} {p : Pool}
    (hs : s.slots[slot]? = some (.live pid cp)) (hp : poolAt s.pools pid = some p)
    (size : Nat) (hsz : size ≠ 0) :
    ∃ reg off, (poolMalloc p cp s.mem size).ptr = some (reg, off) ∧
      PoolInv (allocState s slot pid (poolMalloc p cp s.mem size)) ∧
      NewBlockOk (allocState s slot pid (poolMalloc p cp s.mem size)).pools s.blocks pid reg off
        (alignUp size) ∧
      (∀ r o v, s.mem.read r o = some v → (poolMalloc p cp s.mem size).mem.read r o = some v) ∧
      (∀ b ∈ s.blocks, (reg, off) ≠ (b.reg, b.off)) := by
  have hlt := poolAt_lt hp
  obtain ⟨c1, c2, c3, c4, c5⟩ := h.chunk.chunk_ok pid p hp p.head (by simp [Pool.chunks])
  have hal := alignUp_mod size
  have hpos : 0 < alignUp size := alignUp_pos (by omega)
  rcases poolMalloc_cases p cp s.mem size hsz with ⟨hfit, e⟩ | ⟨hnofit, e⟩
  · rw [e]
    refine ⟨p.head.reg, p.head.size, rfl, ?_, ?_, fun _ _ _ hv => hv, ?_⟩
    · refine { toMemInv := ⟨?_, ?_, h.pat⟩, ref := ?_ }
      · exact h.chunk.updHead hp rfl rfl rfl hfit (by simp only; omega) rfl rfl
      · exact h.block.updHead hp rfl rfl (by simp)
      · refine RefInv.alloc h.ref hs hp _ ?_ _; rfl
    · refine ⟨c2, ⟨{ p with head := { p.head with size := p.head.size + alignUp size } },
          by simp only [allocState]; rw [poolAt_set hlt, if_pos rfl],
          { p.head with size := p.head.size + alignUp size }, by simp [Pool.chunks], rfl,
          Nat.le_refl _⟩, ?_, ?_⟩
      · intro b hb e; exact (block_in_head h.chunk h.block hp hb e).2
      · intro p' hp'
        simp only [allocState] at hp'
        rw [poolAt_set hlt, if_pos rfl] at hp'; cases hp'
        have := h.block.account pid p hp
        rw [Pool.size_eq] at this ⊢; simp only; omega
    · intro b hb e
      simp only [Prod.mk.injEq] at e
      have := (block_in_head h.chunk h.block hp hb e.1.symm).2
      have hb3 := (h.block.block_ok b hb)
      have : 0 < b.asz := by rw [hb3.2.2.1]; exact alignUp_pos hb3.2.2.2.1
      omega
  · rw [e]
    have hge := chunkSize_ge cp (alignUp size)
    refine ⟨s.mem.size, 0, rfl, ?_, ?_, fun _ _ _ hv => read_baseMalloc_of_some _ _ hv, ?_⟩
    · refine { toMemInv := ⟨?_, ?_, ?_⟩, ref := ?_ }
      · exact h.chunk.addChunk hp _ _ _ p.refcount hge hal
      · exact h.block.addChunk hp _ p.refcount
      · exact h.pat.baseMalloc _ _
      · refine RefInv.alloc h.ref hs hp _ ?_ _; rfl
    · refine ⟨by simp, ⟨{ p with head := ⟨s.mem.size, (cp.chunkSize (alignUp size)).2, alignUp size⟩,
                                  rest := p.head :: p.rest },
          by simp only [allocState]; rw [poolAt_set hlt, if_pos rfl],
          ⟨s.mem.size, (cp.chunkSize (alignUp size)).2, alignUp size⟩, by simp [Pool.chunks], rfl,
          by simp⟩, ?_, ?_⟩
      · intro b hb e
        have := block_reg_lt h.chunk h.block hb; omega
      · intro p' hp'
        simp only [allocState] at hp'
        rw [poolAt_set hlt, if_pos rfl] at hp'; cases hp'
        have := h.block.account pid p hp
        simp only [Pool.size, Pool.chunks, List.map_cons, List.sum_cons] at this ⊢; omega
    · intro b hb e
      simp only [Prod.mk.injEq] at e
      have := block_reg_lt h.chunk h.block hb; omega

theorem PoolInv.fillMem {s : State} (h : PoolInv s) (r o len : Nat) (f : Nat → Nat)
    (hd : ∀ b ∈ s.blocks, b.reg = r → o + len ≤ b.off ∨ b.off + b.req ≤ o) :
    PoolInv { s with mem := s.mem.fill r o len f } :=
  { toMemInv := ⟨h.chunk.fill r o len f, h.block, h.pat.fill r o len f hd⟩, ref := h.ref }

theorem newBlock_readable {s : State} (h : PoolInv s) {pid reg off a : Nat}
    (hn : NewBlockOk s.pools s.blocks pid reg off a) (i : Nat) (hi : i < a) :
    (s.mem.read reg (off + i)).isSome := by
  obtain ⟨p', hp', c, hc, e1, e2⟩ := hn.in_chunk
  obtain ⟨a1, _, _, a4, _⟩ := h.chunk.chunk_ok pid p' hp' c hc
  rw [← e1]; exact a4 _ (by omega)

theorem inv_recordNew {s : State} (h : PoolInv s) {pid reg off size : Nat} (hsz : 0 < size)
    (hn : NewBlockOk s.pools s.blocks pid reg off (alignUp size)) :
    PoolInv (recordNew s pid reg off size) := by
  unfold recordNew
  have hle := le_alignUp size
  refine { toMemInv := ⟨h.chunk.fill _ _ _ _, ?_, ?_⟩, ref := h.ref }
  · refine h.block.addBlock ⟨s.nextBlock, pid, reg, off, size, alignUp size⟩ rfl hn.off_al rfl hsz
      hn.in_chunk ?_ hn.acc
    intro x hx
    by_cases e : x.reg = reg
    · exact Or.inr (Or.inr (hn.above x hx e))
    · exact Or.inl (fun e' => e e'.symm)
  · refine (h.pat.fill reg off size _ ?_).addBlock ⟨s.nextBlock, pid, reg, off, size, alignUp size⟩ ?_
    · intro b hb e
      have := hn.above b hb e
      have := (h.block.block_ok b hb).2.2.1
      have := le_alignUp b.req
      right; omega
    · intro i hi
      simp only at hi ⊢
      rw [read_fill, if_pos ⟨rfl, by omega, by omega, newBlock_readable h hn i (by omega)⟩]
      congr 2; omega

theorem inv_recordGrow {s : State} (h : PoolInv s) {b : Block} (hb : b ∈ s.blocks) (newsize : Nat)
    (hgt : b.req < newsize)
    (hin : ∀ p, poolAt s.pools b.pool = some p →
      ∃ c ∈ p.chunks, c.reg = b.reg ∧ b.off + alignUp newsize ≤ c.size)
    (hdisj : ∀ x ∈ s.blocks, x.id ≠ b.id →
      x.reg ≠ b.reg ∨ x.off + x.asz ≤ b.off ∨ b.off + alignUp newsize ≤ x.off)
    (hacc : ∀ p, poolAt s.pools b.pool = some p →
      blockSum b.pool s.blocks + (alignUp newsize - b.asz) ≤ p.size) :
    PoolInv (recordGrow s b b.req newsize) := by
  unfold recordGrow
  have hle := le_alignUp newsize
  obtain ⟨b1, b2, b3, b4, pb, hpb, _⟩ := h.block.block_ok b hb
  have hfill : ∀ x ∈ s.blocks, x.reg = b.reg →
      b.off + b.req + (newsize - b.req) ≤ x.off ∨ x.off + x.req ≤ b.off + b.req := by
    intro x hx e
    by_cases eid : x.id = b.id
    · have := eq_of_id_eq h.block.disj hx hb eid; subst this; right; omega
    · have := (h.block.block_ok x hx).2.2.1
      have := le_alignUp x.req
      rcases hdisj x hx eid with d | d | d
      · exact absurd e d
      · right; omega
      · left; omega
  refine { toMemInv := ⟨h.chunk.fill _ _ _ _, ?_, ?_⟩, ref := h.ref }
  · exact h.block.updBlock hb newsize (by omega) hin hdisj hacc
  · refine (h.pat.fill _ _ _ _ hfill).updBlock h.block hb newsize ?_
    intro i hi
    by_cases hlt : i < b.req
    · rw [read_fill_of_outside _ _ _ _ _ _ _ (by intro _; omega)]
      exact h.pat b hb i hlt
    · obtain ⟨c, hc, e1, e2⟩ := hin pb hpb
      obtain ⟨a1, _, _, a4, _⟩ := h.chunk.chunk_ok _ pb hpb c hc
      rw [read_fill, if_pos ⟨rfl, by omega, by omega, by rw [← e1]; exact a4 _ (by omega)⟩]
      congr 2; omega

theorem allocCore_some {s : State} {slot : Nat} {orig : Ptr} {old new : Nat} {s1 : State} {pid : Nat}
    {r : MallocRes} (h : allocCore s slot orig old new = some (s1, pid, r)) :
    ∃ cp p, s.slots[slot]? = some (.live pid cp) ∧ poolAt s.pools pid = some p ∧
      r = poolRealloc p cp s.mem orig old new ∧ s1 = allocState s slot pid r := by
  unfold allocCore at h
  split at h
  · next pid' cp hs =>
    split at h
    · next p hp =>
      simp only [Option.some.injEq, Prod.mk.injEq] at h
      obtain ⟨e1, e2, e3⟩ := h
      subst e2
      exact ⟨cp, p, hs, hp, e3.symm, by rw [← e1, ← e3]; rfl⟩
    · cases h
  · cases h

theorem inv_allocSame {s : State} (h : PoolInv s) {slot pid : Nat} {cp : Policy} {p : Pool}
    (hs : s.slots[slot]? = some (.live pid cp)) (hp : poolAt s.pools pid = some p) (ptr : Ptr) :
    PoolInv (allocState s slot pid ⟨p, cp, s.mem, ptr⟩) := by
  obtain ⟨a1, a2, _, _, _⟩ := h.chunk.chunk_ok pid p hp p.head (by simp [Pool.chunks])
  refine { toMemInv := ⟨?_, ?_, h.pat⟩, ref := ?_ }
  · exact h.chunk.updHead hp rfl rfl rfl a1 a2 rfl rfl
  · exact h.block.updHead hp rfl rfl (Nat.le_refl _)
  · exact RefInv.alloc h.ref hs hp p rfl cp

theorem poolRealloc_none (p : Pool) (cp : Policy) (mem : Mem) (old new : Nat) :
    poolRealloc p cp mem none old new = poolMalloc p cp mem new := rfl

theorem poolMalloc_zero (p : Pool) (cp : Policy) (mem : Mem) : poolMalloc p cp mem 0 = ⟨p, cp, mem, none⟩ := rfl

/-- `Malloc(size)` through `slot`, then the harness bookkeeping -/
theorem inv_mallocPath {s : State} (h : PoolInv s) {slot pid : Nat} {cp : Policy} {p : Pool}
    (hs : s.slots[slot]? = some (.live pid cp)) (hp : poolAt s.pools pid = some p) (size : Nat) :
    PoolInv (match (poolMalloc p cp s.mem size).ptr with
      | none => allocState s slot pid (poolMalloc p cp s.mem size)
      | some (reg, off) => recordNew (allocState s slot pid (poolMalloc p cp s.mem size)) pid reg off size) := by
  by_cases hz : size = 0
  · subst hz; rw [poolMalloc_zero]; exact inv_allocSame h hs hp none
  · obtain ⟨reg, off, e, hi, hn, _, _⟩ := inv_poolMalloc h hs hp size hz
    rw [e]
    exact inv_recordNew hi (by omega) hn

theorem inv_malloc {s : State} (h : PoolInv s) (slot size : Nat) : PoolInv (execMalloc s slot size).1 := by
  unfold execMalloc
  rcases hac : allocCore s slot none 0 size with _ | ⟨s1, pid, r⟩
  · exact h
  · obtain ⟨cp, p, hs, hp, rfl, rfl⟩ := allocCore_some hac
    have := inv_mallocPath h hs hp size
    rw [poolRealloc_none]
    simp only
    split at this <;> next e => simp only [e]; exact this

theorem Disjoint.symm {a b : Block} (h : Disjoint a b) : Disjoint b a := by
  rcases h with d | d | d
  · exact Or.inl (fun e => d e.symm)
  · exact Or.inr (Or.inr d)
  · exact Or.inr (Or.inl d)

theorem disj_of_mem : ∀ {l : List Block}, l.Pairwise (fun a b => a.id ≠ b.id ∧ Disjoint a b) →
    ∀ {x b : Block}, x ∈ l → b ∈ l → x.id ≠ b.id → Disjoint x b := by
  intro l; induction l with
  | nil => intro _ x b hx; simp at hx
  | cons y ys ih =>
    intro hp x b hx hb hne
    obtain ⟨h1, h2⟩ := List.pairwise_cons.mp hp
    rcases List.mem_cons.mp hx with hx' | hx' <;> rcases List.mem_cons.mp hb with hb' | hb'
    · rw [hx', hb'] at hne; exact absurd rfl hne
    · rw [hx']; exact (h1 b hb').2
    · rw [hb']; exact (h1 x hx').2.symm
    · exact ih h2 hx' hb' hne

theorem findBlock_some {s : State} {bid : Nat} {b : Block} (h : s.findBlock bid = some b) :
    b ∈ s.blocks ∧ b.id = bid := by
  unfold State.findBlock at h
  exact ⟨List.mem_of_find?_eq_some h, by simpa using List.find?_some h⟩

theorem poolAt_set_same {pools : List (Option Pool)} {pid : Nat} {p : Pool}
    (hp : poolAt pools pid = some p) (q : Nat) : poolAt (pools.set pid (some p)) q = poolAt pools q := by
  rw [poolAt_set (poolAt_lt hp)]
  split
  · next e => rw [e, hp]
  · rfl

/-- `Realloc(block b, b.req, newsize)` through `slot`, then the harness bookkeeping -/
theorem inv_reallocPath {s : State} (h : PoolInv s) {slot pid : Nat} {cp : Policy} {p : Pool}
    (hs : s.slots[slot]? = some (.live pid cp)) (hp : poolAt s.pools pid = some p)
    {b : Block} (hb : b ∈ s.blocks) (newsize : Nat) :
    PoolInv (match (poolRealloc p cp s.mem (some (b.reg, b.off)) b.req newsize).ptr with
      | none => allocState s slot pid (poolRealloc p cp s.mem (some (b.reg, b.off)) b.req newsize)
      | some (reg, off) =>
        if reg = b.reg ∧ off = b.off then
          (if newsize > b.req then
            recordGrow (allocState s slot pid (poolRealloc p cp s.mem (some (b.reg, b.off)) b.req newsize))
              b b.req newsize
           else allocState s slot pid (poolRealloc p cp s.mem (some (b.reg, b.off)) b.req newsize))
        else recordNew (allocState s slot pid (poolRealloc p cp s.mem (some (b.reg, b.off)) b.req newsize))
              pid reg off newsize) := by
  have hlt := poolAt_lt hp
  obtain ⟨b1, b2, b3, b4, pb, hpb, cb, hcb, ecb1, ecb2⟩ := h.block.block_ok b hb
  by_cases hz : newsize = 0
  · subst hz
    have : poolRealloc p cp s.mem (some (b.reg, b.off)) b.req 0 = ⟨p, cp, s.mem, none⟩ := by
      simp [poolRealloc]
    rw [this]; exact inv_allocSame h hs hp none
  · rcases poolRealloc_cases p cp s.mem b.reg b.off b.req newsize hz with
      ⟨hle, e⟩ | ⟨hlt', hreg, hoff, hfit, e⟩ | ⟨hlt', hno, r', o', eptr, e⟩
    · -- no growth needed
      rw [e]
      simp only [and_self, if_true]
      have hI := inv_allocSame h hs hp (some (b.reg, b.off))
      split
      · next hgt =>
        have hasz : alignUp newsize = b.asz := by
          have := alignUp_mono (Nat.le_of_lt hgt); omega
        refine inv_recordGrow hI hb newsize hgt ?_ ?_ ?_
        · intro q hq
          simp only [allocState] at hq
          rw [poolAt_set_same hp, hpb] at hq; cases hq
          exact ⟨cb, hcb, ecb1, by omega⟩
        · intro x hx hne
          have hd : Disjoint x b := disj_of_mem h.block.disj hx hb hne
          rw [hasz]; exact hd
        · intro q hq
          simp only [allocState] at hq
          rw [poolAt_set_same hp] at hq
          have := h.block.account _ q hq
          rw [hasz]; simp only [allocState]; omega
      · exact hI
    · -- grown in place
      rw [e]
      simp only [and_self, if_true]
      obtain ⟨hbp, hbe⟩ := block_in_head h.chunk h.block hp hb hreg
      obtain ⟨c1, c2, _⟩ := h.chunk.chunk_ok pid p hp p.head (by simp [Pool.chunks])
      have hm1 := alignUp_mod newsize
      have hm2 := alignUp_mod b.req
      have hI : PoolInv (allocState s slot pid
          ⟨{ p with head := { p.head with size := p.head.size + (alignUp newsize - alignUp b.req) } }, cp,
            s.mem, some (b.reg, b.off)⟩) := by
        refine { toMemInv := ⟨?_, ?_, h.pat⟩, ref := ?_ }
        · exact h.chunk.updHead hp rfl rfl rfl hfit (by simp only; omega) rfl rfl
        · exact h.block.updHead hp rfl rfl (by simp)
        · refine RefInv.alloc h.ref hs hp _ ?_ _; rfl
      have hgt : b.req < newsize := by
        rcases Nat.lt_or_ge b.req newsize with g | g
        · exact g
        · have := alignUp_mono g; omega
      rw [if_pos hgt]
      refine inv_recordGrow hI hb newsize hgt ?_ ?_ ?_
      · intro q hq
        simp only [allocState] at hq
        rw [hbp, poolAt_set hlt, if_pos rfl] at hq; cases hq
        exact ⟨{ p.head with size := p.head.size + (alignUp newsize - alignUp b.req) },
          by simp [Pool.chunks], hreg.symm, by simp only; omega⟩
      · intro x hx hne
        by_cases ex : x.reg = b.reg
        · right; left
          have hx2 := (block_in_head h.chunk h.block hp hx (ex.trans hreg)).2
          have hxa : 0 < x.asz := by
            have := h.block.block_ok x hx
            rw [this.2.2.1]; exact alignUp_pos this.2.2.2.1
          -- x and b are disjoint; b is the last block of the head chunk
          have hd : Disjoint x b := disj_of_mem h.block.disj hx hb hne
          rcases hd with d | d | d
          · exact absurd ex d
          · exact d
          · omega
        · exact Or.inl ex
      · intro q hq
        simp only [allocState] at hq
        rw [hbp, poolAt_set hlt, if_pos rfl] at hq; cases hq
        have := h.block.account pid p hp
        rw [Pool.size_eq] at this ⊢
        rw [hbp]; simp only [allocState]; omega
    · -- allocate and copy
      have hne : alignUp newsize ≠ 0 := by have := le_alignUp newsize; omega
      obtain ⟨reg, off, eptr', hI, hn, hext, hfresh⟩ := inv_poolMalloc h hs hp (alignUp newsize) hne
      rw [eptr] at eptr'; cases eptr'
      rw [alignUp_idem] at hn
      rw [e]
      simp only [eptr]
      have hneq : ¬ (r' = b.reg ∧ o' = b.off) := by
        intro ⟨e1, e2⟩; exact hfresh b hb (by rw [e1, e2])
      rw [if_neg hneq]
      have hI2 : PoolInv (allocState s slot pid
          { poolMalloc p cp s.mem (alignUp newsize) with
            mem := if alignUp b.req ≠ 0 then
                (poolMalloc p cp s.mem (alignUp newsize)).mem.copy r' o' b.reg b.off (alignUp b.req)
              else (poolMalloc p cp s.mem (alignUp newsize)).mem }) := by
        split
        · have := hI.fillMem r' o' (alignUp b.req)
            (fun j => ((poolMalloc p cp s.mem (alignUp newsize)).mem.read b.reg (b.off + j)).getD poison) ?_
          · exact this
          · intro x hx ex
            have := hn.above x hx ex
            have := (h.block.block_ok x hx).2.2.1
            have := le_alignUp x.req
            right
            simp only [allocState] at *
            omega
        · exact hI
      exact inv_recordNew hI2 (by omega) hn

theorem inv_realloc {s : State} (h : PoolInv s) (slot : Nat) (blk : Option Nat) (old new : Nat)
    (hpre : ∀ bid b, blk = some bid → s.findBlock bid = some b → b.req = old) :
    PoolInv (execRealloc s slot blk old new).1 := by
  unfold execRealloc
  cases blk with
  | none =>
    simp only
    rcases hac : allocCore s slot none old new with _ | ⟨s1, pid, r⟩
    · exact h
    · obtain ⟨cp, p, hs, hp, rfl, rfl⟩ := allocCore_some hac
      have := inv_mallocPath h hs hp new
      rw [poolRealloc_none]
      simp only
      split at this <;> next e => simp only [e]; exact this
  | some bid =>
    simp only
    rcases hf : s.findBlock bid with _ | b
    · exact h
    · simp only
      obtain ⟨hb, _⟩ := findBlock_some hf
      have hold := hpre bid b rfl hf
      subst hold
      rcases hac : allocCore s slot (some (b.reg, b.off)) b.req new with _ | ⟨s1, pid, r⟩
      · exact h
      · obtain ⟨cp, p, hs, hp, rfl, rfl⟩ := allocCore_some hac
        have := inv_reallocPath h hs hp hb new
        simp only
        split at this
        · next e => simp only [e]; exact this
        · next reg off e =>
          simp only [e]
          split at this
          · next hc => rw [if_pos hc]; simp only; exact this
          · next hc => rw [if_neg hc]; exact this

theorem inv_step {s : State} (h : PoolInv s) (op : Op) : PoolInv (step s op).1 := by
  unfold step
  by_cases hpre : op.pre s = true
  · rw [if_pos hpre]
    cases op with
    | new slot kind cap =>
      simp only [Op.pre, Bool.and_eq_true, isEmpty_iff] at hpre
      exact inv_new h slot kind cap hpre.1
    | newbuf slot kind cap bufsize misalign =>
      simp only [Op.pre, Bool.and_eq_true, isEmpty_iff] at hpre
      exact inv_newbuf h slot kind cap bufsize misalign hpre.1.1.1.1
    | copy dst src =>
      simp only [Op.pre, Bool.and_eq_true, isEmpty_iff] at hpre
      exact inv_copy h dst src hpre.1
    | move dst src =>
      simp only [Op.pre, Bool.and_eq_true, isEmpty_iff] at hpre
      exact inv_move h dst src hpre.1
    | assign dst src => exact inv_assign h dst src
    | massign dst src =>
      simp only [Op.pre, Bool.and_eq_true, decide_eq_true_eq] at hpre
      exact inv_massign h dst src hpre.1.2
    | destroy slot => exact inv_destroy h slot
    | malloc slot size => exact inv_malloc h slot size
    | realloc slot blk o n =>
      refine inv_realloc h slot blk o n ?_
      intro bid b e hf
      subst e
      simp only [Op.pre, Bool.and_eq_true, hf, decide_eq_true_eq] at hpre
      exact hpre.2
    | clear slot => exact inv_clear h slot
    | stat slot => exact inv_stat h slot
  · rw [if_neg hpre]; exact h

theorem inv_init : PoolInv State.init := by
  refine { toMemInv := ⟨?_, ?_, ?_⟩, ref := ⟨rfl, ?_, ?_⟩ }
  · constructor <;> simp [State.init, poolAt]
  · constructor <;> simp [State.init, poolAt]
  · intro b hb; simp [State.init] at hb
  · intro pid; simp [State.init, rcN, poolAt, count, Handle.refers]
  · intro pid p hp; simp [State.init, poolAt] at hp

theorem foldl_inv {s : State} (h : PoolInv s) (ops : List Op) :
    PoolInv (ops.foldl (fun s op => (step s op).1) s) := by
  induction ops generalizing s with
  | nil => exact h
  | cons op ops ih => exact ih (inv_step h op)

theorem inv_run (ops : List Op) : PoolInv (run ops) := foldl_inv inv_init ops

/-! ### blocks persist: a surviving block keeps its address, its requested size only grows -/

def Persist (n : Nat) (old new : List Block) : Prop :=
  ∀ b' ∈ new, b'.id < n → ∃ b ∈ old, b.id = b'.id ∧ b.reg = b'.reg ∧ b.off = b'.off ∧ b.req ≤ b'.req

theorem Persist.of_sub {n : Nat} {old new : List Block} (h : ∀ b ∈ new, b ∈ old) : Persist n old new :=
  fun b' hb' _ => ⟨b', h b' hb', rfl, rfl, rfl, Nat.le_refl _⟩

theorem Persist.refl (n : Nat) (l : List Block) : Persist n l l := Persist.of_sub (fun _ h => h)

theorem Persist.cons {n : Nat} {old new : List Block} (h : Persist n old new) (b0 : Block) (h0 : ¬ b0.id < n) :
    Persist n old (b0 :: new) := by
  intro b' hb' hlt
  rcases List.mem_cons.mp hb' with rfl | hb'
  · exact absurd hlt h0
  · exact h b' hb' hlt

theorem Persist.upd {n : Nat} {l : List Block} {R : Block → Block → Prop}
    (hp : l.Pairwise (fun a b => a.id ≠ b.id ∧ R a b)) {b : Block} (hb : b ∈ l) (r' : Nat) (hr : b.req ≤ r') :
    Persist n l (l.map (updBlock b.id r')) := by
  intro b' hb' _
  obtain ⟨y, hy, rfl⟩ := List.mem_map.mp hb'
  by_cases e : y.id = b.id
  · have := eq_of_id_eq hp hy hb e; subst this
    exact ⟨y, hy, by simp [Pool.updBlock], by simp [Pool.updBlock], by simp [Pool.updBlock],
      by simp [Pool.updBlock]; exact hr⟩
  · exact ⟨y, hy, by simp [Pool.updBlock, e], by simp [Pool.updBlock, e], by simp [Pool.updBlock, e],
      by simp [Pool.updBlock, e]⟩

theorem dtor_blocks_sub (s : State) (h : Handle) : ∀ b ∈ (dtor s h).1.blocks, b ∈ s.blocks := by
  unfold dtor
  cases h with
  | empty => exact fun _ h => h
  | moved cp => exact fun _ h => h
  | live pid cp =>
    simp only
    split
    · split
      · exact fun _ h => h
      · exact fun b hb => (List.mem_filter.mp hb).1
    · exact fun _ h => h

theorem dtor_nextBlock (s : State) (h : Handle) : (dtor s h).1.nextBlock = s.nextBlock := by
  unfold dtor
  cases h with
  | empty => rfl
  | moved cp => rfl
  | live pid cp =>
    simp only
    split
    · split <;> rfl
    · rfl

theorem incRef_blocks (s : State) (pid : Nat) : (incRef s pid).blocks = s.blocks := by
  unfold incRef; split <;> rfl

theorem persist_mallocPath (s : State) (slot pid reg off size : Nat) (r : MallocRes) :
    Persist s.nextBlock s.blocks (recordNew (allocState s slot pid r) pid reg off size).blocks :=
  (Persist.refl _ _).cons _ (by simp [allocState])

theorem persist_step {s : State} (h : PoolInv s) (op : Op) :
    Persist s.nextBlock s.blocks (step s op).1.blocks := by
  unfold step
  split
  · next hpre =>
    cases op with
    | new slot kind cap => exact Persist.refl _ _
    | newbuf slot kind cap bufsize misalign => exact Persist.refl _ _
    | copy dst src =>
      simp only [exec, execCopy]
      split
      · simp only [incRef_blocks]; exact Persist.refl _ _
      · exact Persist.refl _ _
    | move dst src =>
      simp only [exec, execMove]
      split <;> exact Persist.refl _ _
    | assign dst src =>
      simp only [exec, execAssign]
      split
      · refine Persist.of_sub (fun b hb => ?_)
        have := dtor_blocks_sub _ _ b hb
        rwa [incRef_blocks] at this
      · exact Persist.refl _ _
    | massign dst src =>
      simp only [exec, execMassign]
      split
      · exact Persist.of_sub (fun b hb => dtor_blocks_sub _ _ b hb)
      · exact Persist.refl _ _
    | destroy slot =>
      simp only [exec, execDestroy]
      split
      · exact Persist.of_sub (fun b hb => dtor_blocks_sub _ _ b hb)
      · exact Persist.refl _ _
    | malloc slot size =>
      simp only [exec, execMalloc]
      rcases hac : allocCore s slot none 0 size with _ | ⟨s1, pid, r⟩
      · exact Persist.refl _ _
      · obtain ⟨cp, p, hs, hp, rfl, rfl⟩ := allocCore_some hac
        simp only
        split
        · exact Persist.refl _ _
        · exact persist_mallocPath _ _ _ _ _ _ _
    | realloc slot blk o n =>
      simp only [exec, execRealloc]
      cases blk with
      | none =>
        simp only
        rcases hac : allocCore s slot none o n with _ | ⟨s1, pid, r⟩
        · exact Persist.refl _ _
        · obtain ⟨cp, p, hs, hp, rfl, rfl⟩ := allocCore_some hac
          simp only
          split
          · exact Persist.refl _ _
          · exact persist_mallocPath _ _ _ _ _ _ _
      | some bid =>
        simp only
        rcases hf : s.findBlock bid with _ | b
        · exact Persist.refl _ _
        · simp only
          obtain ⟨hb, _⟩ := findBlock_some hf
          have hold : b.req = o := by
            simp only [Op.pre, Bool.and_eq_true, hf, decide_eq_true_eq] at hpre
            exact hpre.2
          rcases hac : allocCore s slot (some (b.reg, b.off)) o n with _ | ⟨s1, pid, r⟩
          · exact Persist.refl _ _
          · obtain ⟨cp, p, hs, hp, rfl, rfl⟩ := allocCore_some hac
            simp only
            split
            · exact Persist.refl _ _
            · split
              · split
                · next hgt =>
                  exact Persist.upd h.block.disj hb n (by omega)
                · exact Persist.refl _ _
              · exact persist_mallocPath _ _ _ _ _ _ _
    | clear slot =>
      simp only [exec, execClear]
      split
      · split
        · exact Persist.of_sub (fun b hb => (List.mem_filter.mp hb).1)
        · exact Persist.refl _ _
      · exact Persist.refl _ _
    | stat slot =>
      simp only [exec, execStat]
      split
      · split <;> exact Persist.refl _ _
      · exact Persist.refl _ _
  · exact Persist.refl _ _

/-- the bytes of every block that survives an op are unchanged by it -/
theorem stable_step {s : State} (h : PoolInv s) (op : Op) {b b' : Block} (hb : b ∈ s.blocks)
    (hb' : b' ∈ (step s op).1.blocks) (hid : b'.id = b.id) :
    b'.reg = b.reg ∧ b'.off = b.off ∧ b.req ≤ b'.req ∧
    ∀ i, i < b.req → (step s op).1.mem.read b.reg (b.off + i) = s.mem.read b.reg (b.off + i) := by
  have hlt := (h.block.block_ok b hb).1
  obtain ⟨b0, hb0, e0, e1, e2, e3⟩ := persist_step h op b' hb' (by omega)
  have : b0 = b := eq_of_id_eq h.block.disj hb0 hb (by omega)
  subst this
  refine ⟨e1.symm, e2.symm, e3, ?_⟩
  intro i hi
  have h' := inv_step h op
  have := h'.pat b' hb' i (by omega)
  rw [← e1, ← e2, ← e0] at this
  rw [this, h.pat b0 hb i hi]

/-! ### Realloc keeps the old contents -/

theorem realloc_prefix {s : State} (h : PoolInv s) {slot pid : Nat} {cp : Policy} {p : Pool}
    (hs : s.slots[slot]? = some (.live pid cp)) (hp : poolAt s.pools pid = some p)
    {b : Block} (hb : b ∈ s.blocks) (new reg off : Nat)
    (hr : (poolRealloc p cp s.mem (some (b.reg, b.off)) b.req new).ptr = some (reg, off)) :
    (∀ i, i < min b.req new → ∃ v, s.mem.read b.reg (b.off + i) = some v ∧
        (poolRealloc p cp s.mem (some (b.reg, b.off)) b.req new).mem.read reg (off + i) = some v) ∧
    ((reg, off) = (b.reg, b.off) ↔
      (alignUp new ≤ alignUp b.req ∨
        (b.reg = p.head.reg ∧ b.off + alignUp b.req = p.head.size ∧
          p.head.size + (alignUp new - alignUp b.req) ≤ p.head.cap))) := by
  obtain ⟨b1, b2, b3, b4, _⟩ := h.block.block_ok b hb
  have hle := le_alignUp b.req
  have hrd : ∀ i, i < b.req → ∃ v, s.mem.read b.reg (b.off + i) = some v := by
    intro i hi
    exact Option.isSome_iff_exists.mp (block_readable h.chunk h.block hb i (by omega))
  have hz : new ≠ 0 := by
    intro e; subst e
    simp [poolRealloc] at hr
  rcases poolRealloc_cases p cp s.mem b.reg b.off b.req new hz with
    ⟨hle', e⟩ | ⟨hlt', hreg, hoff, hfit, e⟩ | ⟨hlt', hno, r', o', eptr, e⟩
  · rw [e] at hr ⊢
    simp only [Option.some.injEq, Prod.mk.injEq] at hr
    obtain ⟨rfl, rfl⟩ := hr
    refine ⟨?_, ?_⟩
    · intro i hi
      obtain ⟨v, hv⟩ := hrd i (by omega)
      exact ⟨v, hv, hv⟩
    · exact ⟨fun _ => Or.inl hle', fun _ => rfl⟩
  · rw [e] at hr ⊢
    simp only [Option.some.injEq, Prod.mk.injEq] at hr
    obtain ⟨rfl, rfl⟩ := hr
    refine ⟨?_, ?_⟩
    · intro i hi
      obtain ⟨v, hv⟩ := hrd i (by omega)
      exact ⟨v, hv, hv⟩
    · exact ⟨fun _ => Or.inr ⟨hreg, hoff, hfit⟩, fun _ => rfl⟩
  · have hne : alignUp new ≠ 0 := by have := le_alignUp new; omega
    obtain ⟨reg', off', eptr', hI, hn, hext, hfresh⟩ := inv_poolMalloc h hs hp (alignUp new) hne
    rw [eptr] at eptr'; cases eptr'
    rw [alignUp_idem] at hn
    rw [e] at hr ⊢
    simp only [eptr, Option.some.injEq] at hr
    cases hr
    refine ⟨?_, ?_⟩
    · intro i hi
      obtain ⟨v, hv⟩ := hrd i (by omega)
      refine ⟨v, hv, ?_⟩
      have hao : alignUp b.req ≠ 0 := by omega
      simp only [hao, ne_eq, not_false_eq_true, if_true, Mem.copy]
      have hsome := newBlock_readable hI hn i (by omega)
      simp only [allocState] at hsome
      rw [read_fill, if_pos ⟨rfl, by omega, by omega, hsome⟩]
      have : reg + 0 = reg := rfl
      rw [show off + i - off = i by omega, hext _ _ _ hv]; rfl
    · constructor
      · intro e'; exact absurd e' (hfresh b hb)
      · intro e'
        rcases e' with d | d
        · omega
        · exact absurd d hno

/-! ### when are regions freed -/

theorem dtor_freed (s : State) (hd : Handle) :
    (dtor s hd).1.freed = s.freed ∨
      ∃ pid cp p, hd = .live pid cp ∧ poolAt s.pools pid = some p ∧ p.refcount ≤ 1 ∧
        poolAt (dtor s hd).1.pools pid = none := by
  cases hd with
  | empty => left; rfl
  | moved cp => left; rfl
  | live pid cp =>
    rcases hp : poolAt s.pools pid with _ | p
    · left; unfold dtor; simp only [State.pool?, hp]
    · by_cases hr : p.refcount > 1
      · left; unfold dtor; simp only [State.pool?, hp, hr, if_true]
      · right
        refine ⟨pid, cp, p, rfl, hp, by omega, ?_⟩
        rw [poolAt_dtor hp, if_pos rfl, if_neg hr]

theorem incRef_freed (s : State) (pid : Nat) : (incRef s pid).freed = s.freed := by
  unfold incRef; split <;> rfl

/-- base `Free` is called only by `Clear`, or by the destructor (directly, or inside an assignment)
    of the last handle referring to a pool, which then ceases to exist -/
theorem freed_step {s : State} (h : PoolInv s) (op : Op) :
    (step s op).1.freed = s.freed ∨ (∃ slot, op = .clear slot) ∨
      ∃ k pid cp p, (op = .destroy k ∨ (∃ src, op = .assign k src) ∨ (∃ src, op = .massign k src)) ∧
        s.slots[k]? = some (.live pid cp) ∧ poolAt s.pools pid = some p ∧ p.refcount = 1 ∧
        count pid s.slots = 1 ∧ poolAt (step s op).1.pools pid = none := by
  unfold step
  split
  · next hpre =>
    cases op with
    | new slot kind cap => left; rfl
    | newbuf slot kind cap bufsize misalign => left; rfl
    | copy dst src =>
      left; simp only [exec, execCopy]
      split
      · simp only [incRef_freed]
      · rfl
    | move dst src =>
      left; simp only [exec, execMove]
      split <;> rfl
    | assign dst src =>
      simp only [exec, execAssign]
      split
      · next pid cp hd hs hds =>
        obtain ⟨p, hp, hrc, hpos⟩ := h.ref.live hs
        rcases dtor_freed (incRef s pid) hd with e | ⟨pd, cpd, pp, rfl, hpp, hle, hnone⟩
        · left; simp only [e, incRef_freed]
        · right; right
          rw [poolAt_incRef hp] at hpp
          by_cases e : pd = pid
          · subst e; simp only [if_true, Option.some.injEq] at hpp
            subst hpp; simp only at hle; omega
          · rw [if_neg e] at hpp
            have := h.ref.of_pool hpp
            exact ⟨dst, pd, cpd, pp, Or.inr (Or.inl ⟨src, rfl⟩), hds, hpp, by omega, by omega, hnone⟩
      · left; rfl
    | massign dst src =>
      simp only [exec, execMassign]
      split
      · next pid cp hd hs hds =>
        rcases dtor_freed s hd with e | ⟨pd, cpd, pp, rfl, hpp, hle, hnone⟩
        · left; simp only [e]
        · right; right
          have := h.ref.of_pool hpp
          exact ⟨dst, pd, cpd, pp, Or.inr (Or.inr ⟨src, rfl⟩), hds, hpp, by omega, by omega, hnone⟩
      · left; rfl
    | destroy slot =>
      simp only [exec, execDestroy]
      split
      · next hd hs =>
        rcases dtor_freed s hd with e | ⟨pd, cpd, pp, rfl, hpp, hle, hnone⟩
        · left; simp only [e]
        · right; right
          have := h.ref.of_pool hpp
          exact ⟨slot, pd, cpd, pp, Or.inl rfl, hs, hpp, by omega, by omega, hnone⟩
      · left; rfl
    | malloc slot size =>
      left; simp only [exec, execMalloc]
      rcases hac : allocCore s slot none 0 size with _ | ⟨s1, pid, r⟩
      · rfl
      · obtain ⟨cp, p, hs, hp, rfl, rfl⟩ := allocCore_some hac
        simp only
        split <;> rfl
    | realloc slot blk o n =>
      left; simp only [exec, execRealloc]
      cases blk with
      | none =>
        simp only
        rcases hac : allocCore s slot none o n with _ | ⟨s1, pid, r⟩
        · rfl
        · obtain ⟨cp, p, hs, hp, rfl, rfl⟩ := allocCore_some hac
          simp only
          split <;> rfl
      | some bid =>
        simp only
        rcases hf : s.findBlock bid with _ | b
        · rfl
        · simp only
          rcases hac : allocCore s slot (some (b.reg, b.off)) o n with _ | ⟨s1, pid, r⟩
          · rfl
          · obtain ⟨cp, p, hs, hp, rfl, rfl⟩ := allocCore_some hac
            simp only
            split
            · rfl
            · split
              · split <;> rfl
              · rfl
    | clear slot => right; left; exact ⟨slot, rfl⟩
    | stat slot =>
      left; simp only [exec, execStat]
      split
      · split <;> rfl
      · rfl
  · left; rfl

/-! ### the content check never fails -/

theorem checkPat_true (a : Array Nat) (o id : Nat) : ∀ (n i : Nat),
    (∀ j, i ≤ j → j < i + n → a[o + j]? = some (pat id j)) → checkPat a o id i n = true := by
  intro n; induction n with
  | zero => intro i _; rfl
  | succ n ih =>
    intro i h
    simp only [checkPat]
    have hi := h i (Nat.le_refl _) (by omega)
    obtain ⟨hlt, e⟩ := Array.getElem?_eq_some_iff.mp hi
    rw [dif_pos hlt, if_pos e]
    exact ih (i + 1) (fun j h1 h2 => h j (by omega) (by omega))

theorem blockOk_of_pat {m : Mem} {b : Block}
    (h : ∀ i, i < b.req → m.read b.reg (b.off + i) = some (pat b.id i)) (hpos : 0 < b.req) :
    blockOk m b = true := by
  unfold blockOk
  rcases hm : m[b.reg]? with _ | a
  · have := h 0 hpos
    simp [Mem.read, hm] at this
  · simp only
    apply checkPat_true
    intro j _ hj
    have := h j (by omega)
    simpa [Mem.read, hm] using this

theorem memCheck_none {s : State} (h : PoolInv s) : memCheck s = none := by
  unfold memCheck
  rw [Option.map_eq_none_iff, List.find?_eq_none]
  intro b hb
  have hb := List.mem_reverse.mp hb
  simp [blockOk_of_pat (h.pat b hb) (h.block.block_ok b hb).2.2.2.1]

/-! ### zero-size requests -/

theorem set_same {α : Type} {l : List α} {i : Nat} {a : α} (h : l[i]? = some a) : l.set i a = l := by
  obtain ⟨hi, e⟩ := List.getElem?_eq_some_iff.mp h
  rw [← e]; exact List.set_getElem_self hi

theorem poolAt_getElem? {pools : List (Option Pool)} {pid : Nat} {p : Pool} (h : poolAt pools pid = some p) :
    pools[pid]? = some (some p) := by
  unfold poolAt at h
  split at h
  · next q hq => cases h; exact hq
  · cases h

theorem allocState_same {s : State} {slot pid : Nat} {cp : Policy} {p : Pool}
    (hs : s.slots[slot]? = some (.live pid cp)) (hp : poolAt s.pools pid = some p) (ptr : Ptr) :
    allocState s slot pid ⟨p, cp, s.mem, ptr⟩ = s := by
  unfold allocState
  simp only [set_same hs, set_same (poolAt_getElem? hp)]

theorem poolRealloc_zero (p : Pool) (cp : Policy) (mem : Mem) (orig : Ptr) (old : Nat) :
    poolRealloc p cp mem orig old 0 = ⟨p, cp, mem, none⟩ := by
  unfold poolRealloc
  cases orig with
  | none => rfl
  | some ro => simp

theorem zero_realloc {s : State} (h : PoolInv s) (slot : Nat) (blk : Option Nat) (old : Nat)
    (hpre : (Op.realloc slot blk old 0).pre s = true) :
    ∃ sz cap, step s (.realloc slot blk old 0) = (s, .ptr none sz cap false none) := by
  unfold step
  rw [if_pos hpre]
  simp only [Op.pre, Bool.and_eq_true] at hpre
  obtain ⟨pid, cp, hs⟩ := isLive_iff.mp hpre.1.1.1
  obtain ⟨p, hp, _⟩ := h.ref.live hs
  simp only [exec, execRealloc]
  cases blk with
  | none =>
    simp only [allocCore_eq hs hp, poolRealloc_zero, allocState_same hs hp]
    exact ⟨_, _, rfl⟩
  | some bid =>
    simp only
    rcases hf : s.findBlock bid with _ | b
    · simp [hf] at hpre
    · simp only [allocCore_eq hs hp, poolRealloc_zero, allocState_same hs hp]
      exact ⟨_, _, rfl⟩

theorem zero_malloc {s : State} (h : PoolInv s) (slot : Nat) (hl : isLive s slot = true) :
    ∃ sz cap, step s (.malloc slot 0) = (s, .ptr none sz cap false none) := by
  unfold step
  have hpre : (Op.malloc slot 0).pre s = true := by simp [Op.pre, hl, maxSize]
  rw [if_pos hpre]
  obtain ⟨pid, cp, hs⟩ := isLive_iff.mp hl
  obtain ⟨p, hp, _⟩ := h.ref.live hs
  simp only [exec, execMalloc, allocCore_eq hs hp, poolRealloc_zero, allocState_same hs hp]
  exact ⟨_, _, rfl⟩

/-! ### copies share the pool -/

theorem copy_shares {s : State} (h : PoolInv s) (dst src : Nat) (hpre : (Op.copy dst src).pre s = true) :
    ∃ pid cp p, s.slots[src]? = some (.live pid cp) ∧
      (step s (.copy dst src)).1.slots[src]? = some (.live pid cp) ∧
      (step s (.copy dst src)).1.slots[dst]? = some (.live pid cp) ∧
      poolAt (step s (.copy dst src)).1.pools pid = some p ∧ p.refcount = count pid s.slots + 1 := by
  unfold step
  rw [if_pos hpre]
  simp only [Op.pre, Bool.and_eq_true, isEmpty_iff] at hpre
  obtain ⟨pid, cp, hs⟩ := isLive_iff.mp hpre.2
  obtain ⟨p, hp, hrc, _⟩ := h.ref.live hs
  have hne : dst ≠ src := by intro e; rw [e, hs] at hpre; cases hpre.1
  have hdl : dst < s.slots.length := (List.getElem?_eq_some_iff.mp hpre.1).1
  refine ⟨pid, cp, { p with refcount := p.refcount + 1 }, hs, ?_, ?_, ?_, by simp only; omega⟩
  · simp only [exec, execCopy, hs, incRef_slots]
    rw [getElem?_set_ne' hne]; exact hs
  · simp only [exec, execCopy, hs, incRef_slots]
    rw [List.getElem?_set, if_pos rfl, if_pos hdl]
  · simp only [exec, execCopy, hs]
    rw [poolAt_incRef hp, if_pos rfl]

end Sonic.Proofs.Pool
