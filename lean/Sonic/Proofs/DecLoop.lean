import Sonic.Proofs.DecInv
import Sonic.Proofs.DecRounded
import Mathlib.Algebra.Order.Archimedean.Basic

/-!
# The scaling loops of `DecimalToF64`
-/
namespace Sonic.Proofs.Dec

open Sonic.Model.BigDecimal

/-- the value and the decimal stay in the same binade: below -/
theorem inv_lt_pow (x : ℚ) (hx : 0 < x) (hxlo : (2 : ℚ) ^ (-1110 : ℤ) ≤ x) (d : Decimal) (s : ℤ) (h : Inv x d s) (c : ℤ)
    (hv : val d < 2 ^ c) : x * 2 ^ s < 2 ^ c := by
  obtain ⟨q, hq1, hq2⟩ := exists_mem_Ico_zpow hx (by norm_num : (1 : ℚ) < 2)
  have hqlo : -1110 ≤ q := by
    by_contra hcon
    have : (2 : ℚ) ^ (q + 1) ≤ 2 ^ (-1110 : ℤ) := zpow_le_zpow_right₀ (by norm_num) (by omega)
    linarith
  have hg := h.grid 1 q (by norm_num) hqlo (by simpa using hq1) (by
    rw [zpow_add₀ two_ne, zpow_one] at hq2; simpa [mul_comm] using hq2)
  simp only [Nat.cast_one, one_mul] at hg
  have hlt : (2 : ℚ) ^ (q + s) < 2 ^ c := lt_of_le_of_lt hg hv
  have hqc : q + s < c := (zpow_lt_zpow_iff_right₀ (by norm_num : (1 : ℚ) < 2)).1 hlt
  have h2s : (0 : ℚ) < 2 ^ s := by positivity
  calc x * 2 ^ s < 2 ^ (q + 1) * 2 ^ s := mul_lt_mul_of_pos_right hq2 h2s
    _ = 2 ^ (q + 1 + s) := by rw [← zpow_add₀ two_ne]
    _ ≤ 2 ^ c := zpow_le_zpow_right₀ (by norm_num) (by omega)

/-- … and above -/
theorem inv_ge_pow (x : ℚ) (hx : 0 < x) (hxlo : (2 : ℚ) ^ (-1110 : ℤ) ≤ x) (d : Decimal) (s : ℤ) (h : Inv x d s) (c : ℤ)
    (hy : 2 ^ c ≤ x * 2 ^ s) : 2 ^ c ≤ val d := by
  by_contra hcon
  have := inv_lt_pow x hx hxlo d s h c (not_le.1 hcon)
  linarith

/-- `kPowTab[i]` for `1 ≤ i ≤ 8` is a shift `n` with `2^n ≤ 10^i` -/
theorem powTab_small (i : ℤ) (h1 : 1 ≤ i) (h8 : i ≤ 8) :
    ∃ n : ℕ, powTab i = some n ∧ 3 ≤ n ∧ n ≤ 26 ∧ (2 : ℚ) ^ n ≤ 10 ^ i := by
  have : i = 1 ∨ i = 2 ∨ i = 3 ∨ i = 4 ∨ i = 5 ∨ i = 6 ∨ i = 7 ∨ i = 8 := by omega
  rcases this with h | h | h | h | h | h | h | h <;> subst h
  · exact ⟨3, by decide, by omega, by omega, by norm_num⟩
  · exact ⟨6, by decide, by omega, by omega, by norm_num⟩
  · exact ⟨9, by decide, by omega, by omega, by norm_num⟩
  · exact ⟨13, by decide, by omega, by omega, by norm_num⟩
  · exact ⟨16, by decide, by omega, by omega, by norm_num⟩
  · exact ⟨19, by decide, by omega, by omega, by norm_num⟩
  · exact ⟨23, by decide, by omega, by omega, by norm_num⟩
  · exact ⟨26, by decide, by omega, by omega, by norm_num⟩

theorem powTab_zero : powTab 0 = some 1 := by decide

/-- `while (d->dp > 0) { … DecimalShift(d, -n); exp2 += n; }` -/
theorem scaleDown_spec (x : ℚ) (hx : 0 < x) : ∀ (f : ℕ) (d : Decimal) (s : ℤ), Inv x d s → 1 ≤ f →
    val d < 2 ^ (3 * (f - 1)) → s ≤ 0 →
    ∃ d' s', scaleDown f d (-s) = (d', -s') ∧ Inv x d' s' ∧ d'.dp ≤ 0 ∧ d'.neg = d.neg ∧ s' ≤ s ∧
      (s' = s → d' = d) := by
  intro f
  induction f with
  | zero => intro d s _ h; omega
  | succ f ih =>
    intro d s hinv _ hv hs
    by_cases hdp : d.dp > 0
    · obtain ⟨hlead, hhi, _⟩ := val_bounds d hinv.wf hinv.pos
      have hv1 : (1 : ℚ) ≤ val d := by
        have : (10 : ℚ) ^ (0 : ℤ) ≤ 10 ^ (d.dp - 1) := zpow_le_zpow_right₀ (by norm_num) (by omega)
        rw [zpow_zero] at this; linarith
      -- the shift
      have hn : ∃ n : ℕ, (if d.dp ≥ 9 then some 27 else powTab d.dp) = some n ∧ 3 ≤ n ∧ n ≤ 27 := by
        by_cases h9 : d.dp ≥ 9
        · exact ⟨27, by rw [if_pos h9], by omega, by omega⟩
        · obtain ⟨n, hn1, hn2, hn3, _⟩ := powTab_small d.dp (by omega) (by omega)
          exact ⟨n, by rw [if_neg h9, hn1], hn2, by omega⟩
      obtain ⟨n, hnsome, hn3, hn27⟩ := hn
      have hf2 : 2 ≤ f + 1 := by
        by_contra hcon
        have : f = 0 := by omega
        subst this
        simp at hv; linarith
      have h2n : (8 : ℚ) ≤ 2 ^ n := by
        calc (8 : ℚ) = 2 ^ 3 := by norm_num
          _ ≤ 2 ^ n := pow_le_pow_right₀ (by norm_num) hn3
      have h2n' : (2 : ℚ) ^ n ≤ 2 ^ 27 := pow_le_pow_right₀ (by norm_num) hn27
      have h2npos : (0 : ℚ) < 2 ^ n := by positivity
      obtain ⟨hinv', hneg', _, hdp', hstep⟩ := inv_rightShift x hx d s n hinv (by omega) (Or.inr (by
        have : (1 : ℚ) / 2 ^ 27 ≤ val d / 2 ^ n := by
          rw [div_le_div_iff₀ (by positivity) h2npos]
          nlinarith
        have h29 : (10 : ℚ) ^ (-29 : ℤ) ≤ 1 / 2 ^ 27 := by norm_num
        linarith))
      have hshift : decimalShift d (-(n : ℤ)) = rightShift d n :=
        decimalShift_right d n (nd_pos_of_dnat d hinv.pos) (by omega) (by omega)
      obtain ⟨d2, s2, hrec, hinv2, hdp2, hneg2, hs2, _⟩ := ih (rightShift d n) (s - n) hinv' (by omega)
        (by
          have h1 : val (rightShift d n) ≤ val d / 2 ^ n := hstep.1
          have h2 : val d / 2 ^ n ≤ val d / 8 := div_le_div_of_nonneg_left (by linarith) (by norm_num) h2n
          have h3 : (2 : ℚ) ^ (3 * (f + 1 - 1)) = 8 * 2 ^ (3 * (f - 1)) := by
            have : 3 * (f + 1 - 1) = 3 + 3 * (f - 1) := by omega
            rw [this, pow_add]; norm_num
          rw [h3] at hv
          linarith)
        (by omega)
      refine ⟨d2, s2, ?_, hinv2, hdp2, by rw [hneg2, hneg'], by omega, fun h => by omega⟩
      rw [scaleDown, if_pos hdp, hnsome]
      simp only
      rw [hshift, show -s + (n : ℤ) = -(s - n) by ring]
      exact hrec
    · refine ⟨d, s, ?_, hinv, by omega, rfl, le_refl _, fun _ => rfl⟩
      rw [scaleDown, if_neg hdp]

/-- the leading digit decides `val d < 1/2` when `dp = 0` -/
theorem half_iff (d : Decimal) (hwf : WF d) (hpos : 0 < Dnat d) (hdp0 : d.dp = 0) :
    (rd d.d 0 < 53 ↔ val d < 1 / 2) := by
  obtain ⟨hnd, _, _⟩ := dnat_bounds d hwf hpos
  have hsplit := dval_split d.d 1 (d.nd - 1)
  rw [show 1 + (d.nd - 1) = d.nd by omega] at hsplit
  have hR : mval d.d 1 (d.nd - 1) < 10 ^ (d.nd - 1) := mval_lt _ _ _ (fun j h1 h2 => hwf.digits j (by omega))
  have h0 := hwf.digits 0 hnd
  have hd1 : dval d.d 1 = rd d.d 0 - 48 := by simp [dval]
  rw [hd1] at hsplit
  have hP : (10 : ℕ) ^ d.nd = 10 ^ (d.nd - 1) * 10 := by rw [← Nat.pow_succ]; congr 1; omega
  have hval : val d = (Dnat d : ℚ) / 10 ^ d.nd := by
    unfold val; rw [hdp0, zero_sub, zpow_neg, zpow_natCast, div_eq_mul_inv]
  have hiff : val d < 1 / 2 ↔ 2 * Dnat d < 10 ^ d.nd := by
    rw [hval, div_lt_div_iff₀ (by positivity) (by norm_num)]
    constructor
    · intro h
      have : ((2 * Dnat d : ℕ) : ℚ) < ((10 ^ d.nd : ℕ) : ℚ) := by push_cast; linarith
      exact_mod_cast this
    · intro h
      have : ((2 * Dnat d : ℕ) : ℚ) < ((10 ^ d.nd : ℕ) : ℚ) := by exact_mod_cast h
      push_cast at this; linarith
  rw [hiff, hP]
  unfold Dnat
  rw [hsplit]
  generalize 10 ^ (d.nd - 1) = P at *
  generalize mval d.d 1 (d.nd - 1) = R at *
  constructor
  · intro h
    have : (rd d.d 0 - 48) * P ≤ 4 * P := Nat.mul_le_mul_right _ (by omega)
    omega
  · intro h
    by_contra hcon
    have : 5 * P ≤ (rd d.d 0 - 48) * P := Nat.mul_le_mul_right _ (by omega)
    omega

/-- termination measure of the scale-up loop: `a` shifts by 27 bits, then `b` further shifts reach `1/2` -/
def Pot (f : ℕ) (y : ℚ) : Prop :=
  ∃ a b : ℕ, a + b + 1 ≤ f ∧ 1 / 2 ≤ y * 2 ^ (27 * a + b) ∧ (0 < a → y * 2 ^ (27 * (a - 1)) < 10 ^ (-9 : ℤ))

theorem pot_step (f : ℕ) (y : ℚ) (n : ℕ) (hy0 : 0 < y) (hp : Pot (f + 1) y) (hy : y < 1 / 2) (hn1 : 1 ≤ n)
    (hn : n = 27 ∨ (n ≤ 26 ∧ (10 : ℚ) ^ (-9 : ℤ) ≤ y)) : Pot f (y * 2 ^ n) := by
  obtain ⟨a, b, hab, h1, h2⟩ := hp
  have step_b : a = 0 → Pot f (y * 2 ^ n) := by
    intro ha
    subst ha
    simp only [Nat.mul_zero, Nat.zero_add] at h1
    have hb : 1 ≤ b := by
      by_contra hcon
      have : b = 0 := by omega
      subst this
      simp at h1; linarith
    refine ⟨0, b - 1, by omega, ?_, fun h => by omega⟩
    simp only [Nat.mul_zero, Nat.zero_add]
    have e : y * 2 ^ n * 2 ^ (b - 1) = y * 2 ^ b * 2 ^ (n - 1) := by
      have : (2 : ℚ) ^ n * 2 ^ (b - 1) = 2 ^ b * 2 ^ (n - 1) := by
        rw [← pow_add, ← pow_add]; congr 1; omega
      rw [mul_assoc, this, mul_assoc]
    rw [e]
    have : (1 : ℚ) ≤ 2 ^ (n - 1) := one_le_pow₀ (by norm_num)
    have hyb : (0 : ℚ) < y * 2 ^ b := by positivity
    nlinarith
  rcases Nat.eq_zero_or_pos a with ha | ha
  · exact step_b ha
  · rcases hn with hn | ⟨_, hn⟩
    · subst hn
      refine ⟨a - 1, b, by omega, ?_, fun h => ?_⟩
      · have : y * 2 ^ 27 * 2 ^ (27 * (a - 1) + b) = y * 2 ^ (27 * a + b) := by
          rw [mul_assoc, ← pow_add]; congr 2; omega
        rw [this]; exact h1
      · have : y * 2 ^ 27 * 2 ^ (27 * (a - 1 - 1)) = y * 2 ^ (27 * (a - 1)) := by
          rw [mul_assoc, ← pow_add]; congr 2; omega
        rw [this]; exact h2 ha
    · exfalso
      have := h2 ha
      have h3 : (1 : ℚ) ≤ 2 ^ (27 * (a - 1)) := one_le_pow₀ (by norm_num)
      nlinarith

/-- `while (dp < 0 || (dp == 0 && d[0] < '5')) { … DecimalShift(d, n); exp2 -= n; }` -/
theorem scaleUp_spec (x : ℚ) (hx : 0 < x) (hxlo : (2 : ℚ) ^ (-1110 : ℤ) ≤ x) : ∀ (f : ℕ) (d : Decimal) (s : ℤ),
    Inv x d s → Pot f (x * 2 ^ s) → val d < 1 →
    ∃ d' s', scaleUp f d (-s) = (d', -s') ∧ Inv x d' s' ∧ 1 / 2 ≤ val d' ∧ val d' < 1 ∧ d'.neg = d.neg ∧ s ≤ s' := by
  intro f
  induction f with
  | zero =>
    intro d s _ hp _
    obtain ⟨a, b, hab, _⟩ := hp
    omega
  | succ f ih =>
    intro d s hinv hpot hv1
    obtain ⟨hlead, hhi, _⟩ := val_bounds d hinv.wf hinv.pos
    have hvpos : (0 : ℚ) < val d := lt_of_lt_of_le (by positivity) hlead
    have hdp0 : d.dp ≤ 0 := by
      by_contra hcon
      have : (10 : ℚ) ^ (0 : ℤ) ≤ 10 ^ (d.dp - 1) := zpow_le_zpow_right₀ (by norm_num) (by omega)
      rw [zpow_zero] at this; linarith
    by_cases hcond : d.dp < 0 ∨ (d.dp = 0 ∧ rd d.d 0 < 53)
    · have hvhalf : val d < 1 / 2 := by
        rcases hcond with h | ⟨h1, h2⟩
        · have : (10 : ℚ) ^ d.dp ≤ 10 ^ (-1 : ℤ) := zpow_le_zpow_right₀ (by norm_num) (by omega)
          have h10 : (10 : ℚ) ^ (-1 : ℤ) < 1 / 2 := by norm_num
          exact lt_trans (lt_of_lt_of_le hhi this) h10
        · exact (half_iff d hinv.wf hinv.pos h1).1 h2
      have hyhalf : x * 2 ^ s < 1 / 2 := by
        have := inv_lt_pow x hx hxlo d s hinv (-1) (by rw [zpow_neg, zpow_one]; linarith)
        rw [zpow_neg, zpow_one] at this; linarith
      -- the shift
      have hn : ∃ n : ℕ, (if -d.dp ≥ 9 then some 27 else powTab (-d.dp)) = some n ∧ 1 ≤ n ∧
          (n = 27 ∨ (n ≤ 26 ∧ (10 : ℚ) ^ (-9 : ℤ) ≤ val d)) ∧ val d * 2 ^ n < 1 := by
        by_cases h9 : -d.dp ≥ 9
        · refine ⟨27, by rw [if_pos h9], by omega, Or.inl rfl, ?_⟩
          have : (10 : ℚ) ^ d.dp ≤ 10 ^ (-9 : ℤ) := zpow_le_zpow_right₀ (by norm_num) (by omega)
          have h2 : (10 : ℚ) ^ (-9 : ℤ) * 2 ^ 27 < 1 := by norm_num
          calc val d * 2 ^ 27 < 10 ^ d.dp * 2 ^ 27 := mul_lt_mul_of_pos_right hhi (by positivity)
            _ ≤ 10 ^ (-9 : ℤ) * 2 ^ 27 := mul_le_mul_of_nonneg_right this (by positivity)
            _ < 1 := h2
        · have hlo9 : (10 : ℚ) ^ (-9 : ℤ) ≤ val d :=
            le_trans (zpow_le_zpow_right₀ (by norm_num) (by omega)) hlead
          by_cases hz : d.dp = 0
          · refine ⟨1, by rw [if_neg h9, hz]; exact powTab_zero, by omega, Or.inr ⟨by omega, hlo9⟩, ?_⟩
            linarith
          · obtain ⟨n, hn1, hn2, hn3, hn4⟩ := powTab_small (-d.dp) (by omega) (by omega)
            refine ⟨n, by rw [if_neg h9, hn1], by omega, Or.inr ⟨hn3, hlo9⟩, ?_⟩
            have h10 : (10 : ℚ) ^ d.dp * 10 ^ (-d.dp) = 1 := by
              rw [← zpow_add₀ ten_ne]; simp
            have hpos10 : (0 : ℚ) < 10 ^ d.dp := by positivity
            calc val d * 2 ^ n < 10 ^ d.dp * 2 ^ n := mul_lt_mul_of_pos_right hhi (by positivity)
              _ ≤ 10 ^ d.dp * 10 ^ (-d.dp) := mul_le_mul_of_nonneg_left hn4 hpos10.le
              _ = 1 := h10
      obtain ⟨n, hnsome, hn1, hncase, hsmall⟩ := hn
      have hn27 : n ≤ 27 := by rcases hncase with h | ⟨h, _⟩ <;> omega
      obtain ⟨hinv', hneg', _, _, hstep⟩ := inv_leftShift x hx d s n hinv hn1 (by omega) (by
        have : (1 : ℚ) ≤ 2 ^ (53 : ℕ) := one_le_pow₀ (by norm_num)
        linarith)
      have hshift : decimalShift d (n : ℤ) = leftShift d n :=
        decimalShift_left d n (nd_pos_of_dnat d hinv.pos) hn1 (by omega)
      have hpot' : Pot f (x * 2 ^ (s + n)) := by
        have := pot_step f (x * 2 ^ s) n (by positivity) hpot hyhalf hn1 (by
          rcases hncase with h | ⟨h1, h2⟩
          · exact Or.inl h
          · exact Or.inr ⟨h1, le_trans h2 hinv.le⟩)
        rw [zpow_add₀ two_ne, zpow_natCast, ← mul_assoc]; exact this
      obtain ⟨d2, s2, hrec, hinv2, h2a, h2b, hneg2, hs2⟩ := ih (leftShift d n) (s + n) hinv' hpot'
        (lt_of_le_of_lt hstep.1 hsmall)
      refine ⟨d2, s2, ?_, hinv2, h2a, h2b, by rw [hneg2, hneg'], by omega⟩
      rw [scaleUp, if_pos hcond, hnsome]
      simp only
      rw [hshift, show -s - (n : ℤ) = -(s + n) by ring]
      exact hrec
    · refine ⟨d, s, ?_, hinv, ?_, hv1, rfl, le_refl _⟩
      · rw [scaleUp, if_neg hcond]
      · have hz : d.dp = 0 := by
          by_contra h; exact hcond (Or.inl (by omega))
        have h53 : ¬ rd d.d 0 < 53 := fun h => hcond (Or.inr ⟨hz, h⟩)
        by_contra hlt
        exact h53 ((half_iff d hinv.wf hinv.pos hz).2 (not_le.1 hlt))

end Sonic.Proofs.Dec
