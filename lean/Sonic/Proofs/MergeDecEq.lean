import Sonic.Spec.JsonTypes

/-!
# Decidable equality of `JVal` (the `deriving` handler does not cover nested inductives)

Used by the `decide`d examples and the counterexample of `Props/C19.lean`, `Props/C20.lean`.
-/
namespace Sonic.Proofs.MergeDecEq
open Sonic.Spec

mutual
def beq : JVal → JVal → Bool
  | .null, .null => true
  | .bool a, .bool b => a == b
  | .num a, .num b => a == b
  | .str a, .str b => a == b
  | .arr a, .arr b => beqList a b
  | .obj a, .obj b => beqMembers a b
  | _, _ => false
def beqList : List JVal → List JVal → Bool
  | [], [] => true
  | x :: xs, y :: ys => beq x y && beqList xs ys
  | _, _ => false
def beqMembers : List (List Nat × JVal) → List (List Nat × JVal) → Bool
  | [], [] => true
  | (k, x) :: xs, (l, y) :: ys => k == l && beq x y && beqMembers xs ys
  | _, _ => false
end

mutual
theorem beq_eq : ∀ (a b : JVal), beq a b = true → a = b
  | .null, b => by cases b <;> simp [beq]
  | .bool a, b => by cases b <;> simp [beq]
  | .num a, b => by cases b <;> simp [beq]
  | .str a, b => by cases b <;> simp [beq]
  | .arr a, b => by
    cases b <;> simp [beq]
    exact beqList_eq a _
  | .obj a, b => by
    cases b <;> simp [beq]
    exact beqMembers_eq a _
theorem beqList_eq : ∀ (a b : List JVal), beqList a b = true → a = b
  | [], b => by cases b <;> simp [beqList]
  | x :: xs, b => by
    cases b with
    | nil => simp [beqList]
    | cons y ys =>
      simp only [beqList, Bool.and_eq_true, List.cons.injEq]
      exact fun h => ⟨beq_eq x y h.1, beqList_eq xs ys h.2⟩
theorem beqMembers_eq : ∀ (a b : List (List Nat × JVal)), beqMembers a b = true → a = b
  | [], b => by cases b <;> simp [beqMembers]
  | (k, x) :: xs, b => by
    cases b with
    | nil => simp [beqMembers]
    | cons y ys =>
      obtain ⟨l, y⟩ := y
      simp only [beqMembers, Bool.and_eq_true, beq_iff_eq, List.cons.injEq, Prod.mk.injEq]
      exact fun h => ⟨⟨h.1.1, beq_eq x y h.1.2⟩, beqMembers_eq xs ys h.2⟩
end

mutual
theorem beq_refl : ∀ (a : JVal), beq a a = true
  | .null => by simp [beq]
  | .bool a => by simp [beq]
  | .num a => by simp [beq]
  | .str a => by simp [beq]
  | .arr a => by simp only [beq]; exact beqList_refl a
  | .obj a => by simp only [beq]; exact beqMembers_refl a
theorem beqList_refl : ∀ (a : List JVal), beqList a a = true
  | [] => by simp [beqList]
  | x :: xs => by simp only [beqList, Bool.and_eq_true]; exact ⟨beq_refl x, beqList_refl xs⟩
theorem beqMembers_refl : ∀ (a : List (List Nat × JVal)), beqMembers a a = true
  | [] => by simp [beqMembers]
  | (k, x) :: xs => by
    simp only [beqMembers, Bool.and_eq_true, beq_self_eq_true, true_and]
    exact ⟨beq_refl x, beqMembers_refl xs⟩
end

instance instDecEqJVal : DecidableEq JVal := fun a b =>
  if h : beq a b = true then isTrue (beq_eq a b h)
  else isFalse (fun e => h (e ▸ beq_refl a))

/-- decidable equality of results (core has none for `Except`); used by the `decide`d examples -/
instance instDecEqExcept {ε α : Type} [DecidableEq ε] [DecidableEq α] : DecidableEq (Except ε α)
  | .ok a, .ok b => if h : a = b then isTrue (by rw [h]) else isFalse (fun e => h (by injection e))
  | .error a, .error b => if h : a = b then isTrue (by rw [h]) else isFalse (fun e => h (by injection e))
  | .ok _, .error _ => isFalse (fun e => by cases e)
  | .error _, .ok _ => isFalse (fun e => by cases e)

end Sonic.Proofs.MergeDecEq
