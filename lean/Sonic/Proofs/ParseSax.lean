import Sonic.Model.Sax

/-!
# The node stack of `SAXHandler` as a stack of frames

`StackNodes sax ns`: the slots `st[0 .. np)` are exactly the constructed nodes `ns` (nothing else is claimed about
the slots above `np`: they hold raw memory or stale copies).  `Frame`/`nodesOf`/`parentOf`: the layout of the open
containers — for each open container its placeholder (holding the index of the enclosing placeholder) followed by
the finished children.  The lemmas give, for each handler callback, the exact result on this abstraction together
with the absence of faults.
-/
namespace Sonic.Proofs.Parse
open Sonic.Model.Parse

structure Frame where
  isArr : Bool
  items : List Node

def lenOf : List Frame → Nat
  | [] => 0
  | f :: rest => lenOf rest + 1 + f.items.length

/-- index of the placeholder of the innermost open container (`parent_`) -/
def parentOf : List Frame → Nat
  | [] => 0
  | _ :: rest => lenOf rest

/-- innermost frame first -/
def nodesOf : List Frame → List Node
  | [] => []
  | f :: rest => nodesOf rest ++ Node.hole (parentOf rest) :: f.items

theorem length_nodesOf : ∀ F, (nodesOf F).length = lenOf F
  | [] => rfl
  | f :: rest => by
    simp only [nodesOf, lenOf, List.length_append, List.length_cons, length_nodesOf rest]; omega

/-- add a finished child to the innermost frame -/
def pushItem (n : Node) : List Frame → List Frame
  | [] => []
  | f :: rest => { f with items := f.items ++ [n] } :: rest

theorem nodesOf_pushItem (n : Node) (f : Frame) (rest : List Frame) :
    nodesOf (pushItem n (f :: rest)) = nodesOf (f :: rest) ++ [n] := by
  simp [pushItem, nodesOf]

theorem parentOf_pushItem (n : Node) (F : List Frame) : parentOf (pushItem n F) = parentOf F := by
  cases F <;> rfl

structure StackNodes (sax : Sax) (ns : List Node) : Prop where
  len : sax.st.length = sax.cap
  np : sax.np = ns.length
  le : sax.np ≤ sax.cap
  pre : sax.st.take sax.np = ns.map some

def StackOK (sax : Sax) (F : List Frame) : Prop := StackNodes sax (nodesOf F) ∧ sax.parent = parentOf F

theorem StackNodes.getElem? {sax : Sax} {ns : List Node} (h : StackNodes sax ns) {i : Nat} {n : Node}
    (hn : ns[i]? = some n) : sax.st[i]? = some (some n) := by
  have hi : i < ns.length := (List.getElem?_eq_some_iff.mp hn).1
  have : (sax.st.take sax.np)[i]? = some (some n) := by rw [h.pre, List.getElem?_map, hn]; rfl
  rwa [List.getElem?_take_of_lt (by rw [h.np]; exact hi)] at this

theorem StackNodes.get {sax : Sax} {ns : List Node} (h : StackNodes sax ns) {i : Nat} {n : Node}
    (hn : ns[i]? = some n) : sax.get i = .ok n := by
  unfold Sax.get; rw [h.getElem? hn]

/-- pushing one node: the common part of all `SONIC_ADD_NODE` callbacks -/
theorem StackNodes.push {sax : Sax} {ns : List Node} (h : StackNodes sax ns) (hlt : sax.np < sax.cap) (n : Node) :
    StackNodes { sax with np := sax.np + 1, st := sax.st.set sax.np (some n) } (ns ++ [n]) := by
  refine ⟨by simp [h.len], by simp [h.np], by simp only; omega, ?_⟩
  simp only
  have hl : sax.np < sax.st.length := by rw [h.len]; exact hlt
  rw [List.take_add_one, List.getElem?_set_self hl, List.take_set_of_le (Nat.le_refl _), h.pre]
  simp

theorem scalar_ok {sax : Sax} {ns : List Node} (h : StackNodes sax ns) (hlt : sax.np < sax.cap) (n : Node) :
    sax.scalar n = .ok ({ sax with np := sax.np + 1, st := sax.st.set sax.np (some n) }, true) := by
  unfold Sax.scalar Sax.node
  rw [if_pos hlt]
  simp only [Sax.put, Nat.add_sub_cancel]
  rw [if_pos (by rw [h.len]; exact hlt)]

theorem scalar_full {sax : Sax} (hge : ¬ sax.np < sax.cap) (n : Node) : sax.scalar n = .ok (sax, false) := by
  unfold Sax.scalar Sax.node
  rw [if_neg hge]

theorem start_ok {sax : Sax} {ns : List Node} (h : StackNodes sax ns) (hlt : sax.np < sax.cap) :
    sax.start = .ok ({ sax with np := sax.np + 1, st := sax.st.set sax.np (some (.hole sax.parent)),
                                 parent := sax.np }, true) := by
  unfold Sax.start Sax.node
  rw [if_pos hlt]
  simp only [Sax.put, Nat.add_sub_cancel]
  rw [if_pos (by rw [h.len]; exact hlt)]
  simp only [Nat.add_sub_cancel]

theorem start_full {sax : Sax} (hge : ¬ sax.np < sax.cap) : sax.start = .ok (sax, false) := by
  unfold Sax.start Sax.node
  rw [if_neg hge]

theorem StackOK.push {sax : Sax} {f : Frame} {rest : List Frame} (h : StackOK sax (f :: rest))
    (hlt : sax.np < sax.cap) (n : Node) :
    StackOK { sax with np := sax.np + 1, st := sax.st.set sax.np (some n) } (pushItem n (f :: rest)) := by
  refine ⟨?_, ?_⟩
  · rw [nodesOf_pushItem]; exact h.1.push hlt n
  · rw [parentOf_pushItem]; exact h.2

theorem StackOK.start {sax : Sax} {F : List Frame} (h : StackOK sax F) (hlt : sax.np < sax.cap) (isArr : Bool) :
    StackOK { sax with np := sax.np + 1, st := sax.st.set sax.np (some (.hole sax.parent)), parent := sax.np }
      (⟨isArr, []⟩ :: F) := by
  refine ⟨?_, ?_⟩
  · have := h.1.push hlt (.hole sax.parent)
    simp only [nodesOf]
    rw [← h.2]
    exact ⟨this.len, this.np, this.le, this.pre⟩
  · simp only [parentOf, ← length_nodesOf, ← h.1.np]

theorem readNodes_ok (sax : Sax) : ∀ (b : List Node) (i : Nat),
    (∀ j n, b[j]? = some n → sax.st[i + j]? = some (some n)) → sax.readNodes i b.length = .ok b := by
  intro b
  induction b with
  | nil => intro i _; rfl
  | cons x xs ih =>
    intro i h
    simp only [List.length_cons, Sax.readNodes]
    have h0 := h 0 x (by simp)
    rw [Nat.add_zero] at h0
    simp only [Sax.get, h0]
    rw [ih (i + 1) (fun j n hj => by
      have := h (j + 1) n (by simpa using hj)
      rwa [show i + (j + 1) = i + 1 + j by omega] at this)]

theorem release_spec (sax : Sax) : ∀ (k i : Nat),
    (sax.release i k).st.length = sax.st.length ∧ (sax.release i k).st.take i = sax.st.take i ∧
    (sax.release i k).np = sax.np ∧ (sax.release i k).cap = sax.cap ∧ (sax.release i k).parent = sax.parent ∧
    (sax.release i k).mallocs = sax.mallocs := by
  intro k
  induction k generalizing sax with
  | zero => intro i; simp [Sax.release]
  | succ k ih =>
    intro i
    simp only [Sax.release]
    obtain ⟨h1, h2, h3, h4, h5, h6⟩ := ih { sax with st := sax.st.set i none } (i + 1)
    refine ⟨by rw [h1]; simp, ?_, h3, h4, h5, h6⟩
    have := congrArg (List.take i) h2
    rw [List.take_take, List.take_take, Nat.min_eq_left (by omega)] at this
    rw [this]
    simp only
    rw [List.take_set_of_le (Nat.le_refl _)]

/-- `EndObject` / `EndArray` on a well-formed stack whose innermost frame holds exactly `nodes` children -/
theorem endContainer_ok {sax : Sax} {f : Frame} {rest : List Frame} (h : StackOK sax (f :: rest))
    (mk : List Node → Node) :
    ∃ sax', sax.endContainer f.items.length mk = .ok sax' ∧
      StackNodes sax' (nodesOf rest ++ [mk f.items]) ∧ sax'.parent = parentOf rest ∧ sax'.cap = sax.cap ∧
      sax'.mallocs = sax.mallocs + (if f.items.length = 0 then 0 else 1) := by
  obtain ⟨hs, hp⟩ := h
  have hpar : sax.parent = (nodesOf rest).length := by rw [hp, parentOf, length_nodesOf]
  have hhole : (nodesOf (f :: rest))[sax.parent]? = some (.hole (parentOf rest)) := by
    rw [hpar]; simp [nodesOf]
  have hnp : sax.np = (nodesOf rest).length + 1 + f.items.length := by
    rw [hs.np]; simp [nodesOf]; omega
  unfold Sax.endContainer
  rw [hs.get hhole]
  simp only
  have hread : sax.readNodes (sax.parent + 1) f.items.length = .ok f.items := by
    apply readNodes_ok
    intro j n hj
    apply hs.getElem?
    rw [hpar]
    simp only [nodesOf]
    rw [List.getElem?_append_right (by omega)]
    rw [show (nodesOf rest).length + 1 + j - (nodesOf rest).length = j + 1 by omega]
    simpa using hj
  rw [hread]
  simp only
  obtain ⟨r1, r2, r3, r4, r5, r6⟩ := release_spec sax f.items.length (sax.parent + 1)
  have hlt : sax.parent < sax.st.length := by rw [hs.len]; have := hs.le; omega
  simp only [Sax.put, r5, r1]
  rw [if_pos hlt]
  refine ⟨_, rfl, ⟨?_, ?_, ?_, ?_⟩, rfl, by simp only [r4], by simp only [r6]⟩
  · simp only [List.length_set, r1, r4]; exact hs.len
  · simp only [List.length_append, List.length_cons, List.length_nil]; omega
  · simp only [r4]; have := hs.le; omega
  · simp only
    rw [List.take_add_one, List.getElem?_set_self (by rw [r1]; exact hlt),
      List.take_set_of_le (Nat.le_refl _)]
    have h2 := congrArg (List.take sax.parent) r2
    rw [List.take_take, List.take_take, Nat.min_eq_left (by omega)] at h2
    rw [h2]
    have h3 := congrArg (List.take sax.parent) hs.pre
    rw [List.take_take, Nat.min_eq_left (by omega)] at h3
    rw [h3, hpar]
    simp [nodesOf]

theorem tearDownFrom_ok (sax : Sax) : ∀ (b : List Node) (i : Nat),
    (∀ j n, b[j]? = some n → sax.st[i + j]? = some (some n)) → sax.tearDownFrom i b.length = .ok (allocsList b) := by
  intro b
  induction b with
  | nil => intro i _; rfl
  | cons x xs ih =>
    intro i h
    simp only [List.length_cons, Sax.tearDownFrom]
    have h0 := h 0 x (by simp)
    rw [Nat.add_zero] at h0
    simp only [Sax.get, h0]
    rw [ih (i + 1) (fun j n hj => by
      have := h (j + 1) n (by simpa using hj)
      rwa [show i + (j + 1) = i + 1 + j by omega] at this)]
    simp [allocsList]

/-- `TearDown` destroys exactly the constructed nodes -/
theorem tearDown_ok {sax : Sax} {ns : List Node} (h : StackNodes sax ns) : sax.tearDown = .ok (allocsList ns) := by
  unfold Sax.tearDown
  rw [h.np]
  apply tearDownFrom_ok
  intro j n hj
  rw [Nat.zero_add]
  exact h.getElem? hj

theorem allocsList_append : ∀ (a b : List Node), allocsList (a ++ b) = allocsList a + allocsList b
  | [], b => by simp [allocsList]
  | x :: a, b => by simp [allocsList, allocsList_append a b]; omega

end Sonic.Proofs.Parse
