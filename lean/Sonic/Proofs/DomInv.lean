import Sonic.Proofs.DomMap

/-!
# DOM model: the representation invariant `DomInv` and its preservation by every node operation

`LocalInv` (one node): `len ≤ cap`; when an object has a map, its entries are exactly `{(key_i, i) | i < len}`
(each once) and it is sorted by key.  `Good = All LocalInv` (the node and all its descendants).
`LocalAsc` (one node): the map order among equal keys is the vector order (`MapAsc`); `AscAll = All LocalAsc`.
`Good` is preserved by every operation.  `AscAll` is preserved by everything except a `RemoveMember` on an object
that has a map AND duplicate keys.
-/
namespace Sonic.Proofs.Dom
open Sonic.Spec Sonic.Model.Dom
open Sonic.Spec.Containers (Key Step Path PStep Val NodeOp Res)

def LocalInv : Node → Prop
  | .arr cap es => es.length ≤ arrCap cap
  | .obj mt ms => ms.length ≤ objCap mt ∧ ∀ mp, objMap mt = some mp → MapExact (ms.map mkey) mp ∧ MapSorted mp
  | _ => True

def LocalAsc : Node → Prop
  | .obj mt _ => ∀ mp, objMap mt = some mp → MapAsc mp
  | _ => True

abbrev Good (n : Node) : Prop := All LocalInv n
abbrev AscAll (n : Node) : Prop := All LocalAsc n

theorem stable_LocalInv : Stable LocalInv where
  arr := fun c es es' h hp => by simp only [LocalInv] at hp ⊢; omega
  obj := fun m ms ms' h hp => by
    simp only [LocalInv] at hp ⊢
    have hl : ms'.length = ms.length := by simpa using congrArg List.length h
    rw [h, hl]; exact hp

theorem stable_LocalAsc : Stable LocalAsc where
  arr := fun _ _ _ _ hp => by simp only [LocalAsc] at hp ⊢
  obj := fun _ _ _ _ hp => by simp only [LocalAsc] at hp ⊢; exact hp

theorem Good_arr {c : Option Nat} {es : List Node} :
    Good (.arr c es) ↔ es.length ≤ arrCap c ∧ ∀ x ∈ es, Good x := by
  simp only [Good, All_arr, LocalInv]

theorem Good_obj {mt : Option ObjMeta} {ms : List Member} :
    Good (.obj mt ms) ↔ (ms.length ≤ objCap mt ∧
      ∀ mp, objMap mt = some mp → MapExact (ms.map mkey) mp ∧ MapSorted mp) ∧ ∀ x ∈ ms, Good (mval x) := by
  simp only [Good, All_obj, LocalInv]

theorem Asc_arr {c : Option Nat} {es : List Node} : AscAll (.arr c es) ↔ ∀ x ∈ es, AscAll x := by
  simp only [AscAll, All_arr, LocalAsc, true_and]

theorem Asc_obj {mt : Option ObjMeta} {ms : List Member} :
    AscAll (.obj mt ms) ↔ (∀ mp, objMap mt = some mp → MapAsc mp) ∧ ∀ x ∈ ms, AscAll (mval x) := by
  simp only [AscAll, All_obj, LocalAsc]

@[simp] theorem Good_null : Good .null := by simp [Good, All, LocalInv]
@[simp] theorem Good_bool (b : Bool) : Good (.bool b) := by simp [Good, All, LocalInv]
@[simp] theorem Good_num (n : JNum) : Good (.num n) := by simp [Good, All, LocalInv]
@[simp] theorem Good_str (o : Own) (s : List Nat) : Good (.str o s) := by simp [Good, All, LocalInv]
@[simp] theorem Asc_null : AscAll .null := by simp [AscAll, All, LocalAsc]
@[simp] theorem Asc_bool (b : Bool) : AscAll (.bool b) := by simp [AscAll, All, LocalAsc]
@[simp] theorem Asc_num (n : JNum) : AscAll (.num n) := by simp [AscAll, All, LocalAsc]
@[simp] theorem Asc_str (o : Own) (s : List Nat) : AscAll (.str o s) := by simp [AscAll, All, LocalAsc]
@[simp] theorem Good_arr_nil : Good (.arr none []) := by simp [Good_arr, arrCap]
@[simp] theorem Good_obj_nil : Good (.obj none []) := by simp [Good_obj, objCap, objMap]
@[simp] theorem Asc_arr_nil (c : Option Nat) : AscAll (.arr c []) := by simp [Asc_arr]
@[simp] theorem Asc_obj_nil : AscAll (.obj none []) := by simp [Asc_obj, objMap]

/-! ## constructors -/

theorem ofVal_good (v : Val) : Good (ofVal v) := by
  cases v <;> simp [ofVal]
  split <;> simp

theorem ofVal_asc (v : Val) : AscAll (ofVal v) := by
  cases v <;> simp [ofVal]
  split <;> simp

theorem ofVal_abs (v : Val) : (ofVal v).abs = v.toJVal := by
  cases v <;> simp [ofVal, Val.toJVal]
  split <;> simp

mutual
theorem ofJVal_props : ∀ v : JVal, Good (ofJVal v) ∧ AscAll (ofJVal v) ∧ (ofJVal v).abs = v
  | .null => by simp [ofJVal]
  | .bool b => by simp [ofJVal]
  | .num n => by simp [ofJVal]
  | .str s => by simp [ofJVal]
  | .arr xs => by
    obtain ⟨h1, h2⟩ := ofJList_props xs
    have hl : (ofJList xs).length = xs.length := by simpa using congrArg List.length h2
    simp only [ofJVal, Good_arr, Asc_arr, abs_arr, h2, hl, and_true]
    refine ⟨⟨?_, fun x hx => (h1 x hx).1⟩, fun x hx => (h1 x hx).2⟩
    cases xs <;> simp [arrCap]
  | .obj kvs => by
    obtain ⟨h1, h2⟩ := ofJMems_props kvs
    have hl : (ofJMems kvs).length = kvs.length := by simpa using congrArg List.length h2
    simp only [ofJVal, Good_obj, Asc_obj, abs_obj, h2, hl, and_true]
    refine ⟨⟨⟨?_, ?_⟩, fun x hx => (h1 x hx).1⟩, ?_, fun x hx => (h1 x hx).2⟩
    · cases kvs <;> simp [objCap]
    · cases kvs <;> simp [objMap]
    · cases kvs <;> simp [objMap]
theorem ofJList_props : ∀ xs : List JVal,
    (∀ x ∈ ofJList xs, Good x ∧ AscAll x) ∧ (ofJList xs).map Node.abs = xs
  | [] => by simp [ofJList]
  | x :: xs => by
    obtain ⟨a, b, c⟩ := ofJVal_props x
    obtain ⟨h1, h2⟩ := ofJList_props xs
    simp only [ofJList, List.mem_cons, forall_eq_or_imp, List.map_cons, c, h2, and_true]
    exact ⟨⟨a, b⟩, h1⟩
theorem ofJMems_props : ∀ kvs : List (Key × JVal),
    (∀ m ∈ ofJMems kvs, Good (mval m) ∧ AscAll (mval m)) ∧ (ofJMems kvs).map absMem = kvs
  | [] => by simp [ofJMems]
  | (k, v) :: kvs => by
    obtain ⟨a, b, c⟩ := ofJVal_props v
    obtain ⟨h1, h2⟩ := ofJMems_props kvs
    simp only [ofJMems, List.mem_cons, forall_eq_or_imp, List.map_cons, h2]
    exact ⟨⟨⟨a, b⟩, h1⟩, by simp [absMem, mkey, mval, c]⟩
end

mutual
theorem copyOf_props (cs : Bool) : ∀ n : Node,
    Good (copyOf cs n) ∧ AscAll (copyOf cs n) ∧ (copyOf cs n).abs = n.abs
  | .null => by simp [copyOf]
  | .bool b => by simp [copyOf]
  | .num n => by simp [copyOf]
  | .str o s => by simp [copyOf]
  | .arr c es => by
    obtain ⟨h1, h2⟩ := copyList_props cs es
    have hl : (copyList cs es).length = es.length := by simpa using congrArg List.length h2
    simp only [copyOf, Good_arr, Asc_arr, abs_arr, h2, hl, and_true]
    refine ⟨⟨?_, fun x hx => (h1 x hx).1⟩, fun x hx => (h1 x hx).2⟩
    cases es <;> simp [arrCap]
  | .obj mt ms => by
    obtain ⟨h1, h2⟩ := copyMems_props cs ms
    have hl : (copyMems cs ms).length = ms.length := by simpa using congrArg List.length h2
    simp only [copyOf, Good_obj, Asc_obj, abs_obj, h2, hl, and_true]
    refine ⟨⟨⟨?_, ?_⟩, fun x hx => (h1 x hx).1⟩, ?_, fun x hx => (h1 x hx).2⟩
    · cases ms <;> simp [objCap]
    · cases ms <;> simp [objMap]
    · cases ms <;> simp [objMap]
theorem copyList_props (cs : Bool) : ∀ es : List Node,
    (∀ x ∈ copyList cs es, Good x ∧ AscAll x) ∧ (copyList cs es).map Node.abs = es.map Node.abs
  | [] => by simp [copyList]
  | x :: xs => by
    obtain ⟨a, b, c⟩ := copyOf_props cs x
    obtain ⟨h1, h2⟩ := copyList_props cs xs
    simp only [copyList, List.mem_cons, forall_eq_or_imp, List.map_cons, c, h2, and_true]
    exact ⟨⟨a, b⟩, h1⟩
theorem copyMems_props (cs : Bool) : ∀ ms : List (Own × Key × Node),
    (∀ m ∈ copyMems cs ms, Good (mval m) ∧ AscAll (mval m)) ∧ (copyMems cs ms).map absMem = ms.map absMem
  | [] => by simp [copyMems]
  | (o, k, v) :: ms => by
    obtain ⟨a, b, c⟩ := copyOf_props cs v
    obtain ⟨h1, h2⟩ := copyMems_props cs ms
    simp only [copyMems, List.mem_cons, forall_eq_or_imp, List.map_cons, h2]
    exact ⟨⟨⟨a, b⟩, h1⟩, by simp [absMem, mkey, mval, c]⟩
end

/-! ## objects -/

theorem MapExact.lt_length {ks : List Key} {mp : MapT} (hex : MapExact ks mp) {x : Key × Nat} (hx : x ∈ mp) :
    x.2 < ks.length := (List.getElem?_eq_some_iff.1 ((hex.2 x).1 hx)).1

theorem MapExact.push {ks : List Key} {mp : MapT} (hex : MapExact ks mp) (k : Key) :
    MapExact (ks ++ [k]) (mapInsert (k, ks.length) mp) := by
  refine ⟨nodup_mapInsert.2 ⟨fun hin => ?_, hex.1⟩, fun x => ?_⟩
  · have := hex.lt_length hin
    simp at this
  · rw [mem_mapInsert, hex.2 x, List.getElem?_append]
    constructor
    · rintro (rfl | h)
      · simp
      · have hlt := (List.getElem?_eq_some_iff.1 h).1
        rw [if_pos hlt]; exact h
    · intro h
      split at h
      · exact .inr h
      · rename_i hge
        left
        have h' := h
        rw [List.getElem?_eq_some_iff] at h'
        obtain ⟨hlt, hk⟩ := h'
        simp at hlt
        have hi : x.2 = ks.length := by omega
        apply Prod.ext
        · simp only [hi, Nat.sub_self, List.getElem?_cons_zero, Option.some.injEq] at h
          exact h.symm
        · exact hi

theorem addGrowMeta_cap {count : Nat} {mt : Option ObjMeta} (h : count ≤ objCap mt) :
    count + 1 ≤ (addGrowMeta count mt).cap := by
  cases mt with
  | none => simp [objCap] at h; simp [addGrowMeta, h]
  | some m =>
    simp only [objCap] at h
    simp only [addGrowMeta]
    split
    · split
      · simp; omega
      · simp [grow]; omega
    · omega

theorem addGrowMeta_map (count : Nat) (mt : Option ObjMeta) :
    (addGrowMeta count mt).map = none ∨ (addGrowMeta count mt).map = objMap mt := by
  cases mt with
  | none => simp [addGrowMeta]
  | some m =>
    simp only [addGrowMeta, objMap]
    split
    · split <;> simp
    · simp

theorem addMemberImpl_inv {key : Key} {value : Node} {ck : Bool} {x x' : Node} {i : Nat}
    (h : addMemberImpl key value ck x = some (x', i)) :
    (Good x → Good value → Good x') ∧ (Good x → AscAll x → AscAll value → AscAll x') := by
  cases x <;> simp only [addMemberImpl, reduceCtorEq] at h
  rename_i mt ms
  simp only [Option.some.injEq, Prod.mk.injEq] at h
  obtain ⟨rfl, _⟩ := h
  have hkeys : (ms ++ [((if ck then Own.free else Own.const), key, value)]).map mkey = ms.map mkey ++ [key] := by
    simp [mkey]
  constructor
  · intro hx hv
    rw [Good_obj] at hx ⊢
    obtain ⟨⟨hlen, hmap⟩, hch⟩ := hx
    refine ⟨⟨?_, fun mp hmp => ?_⟩, fun y hy => ?_⟩
    · simpa [objCap] using addGrowMeta_cap hlen
    · simp only [objMap] at hmp
      rcases addGrowMeta_map ms.length mt with h0 | h0
      · rw [h0] at hmp; simp at hmp
      · rw [h0] at hmp
        cases hm : objMap mt with
        | none => rw [hm] at hmp; simp at hmp
        | some mp0 =>
          rw [hm] at hmp
          simp only [Option.map_some, Option.some.injEq] at hmp
          subst hmp
          obtain ⟨hex, hs⟩ := hmap mp0 hm
          rw [hkeys]
          have := hex.push key
          simp only [List.length_map] at this
          exact ⟨this, sorted_mapInsert _ hs⟩
    · rcases List.mem_append.1 hy with hy | hy
      · exact hch y hy
      · simp only [List.mem_singleton] at hy; subst hy; exact hv
  · intro hx hax hva
    rw [Good_obj] at hx
    rw [Asc_obj] at hax ⊢
    refine ⟨fun mp hmp => ?_, fun y hy => ?_⟩
    · simp only [objMap] at hmp
      rcases addGrowMeta_map ms.length mt with h0 | h0
      · rw [h0] at hmp; simp at hmp
      · rw [h0] at hmp
        cases hm : objMap mt with
        | none => rw [hm] at hmp; simp at hmp
        | some mp0 =>
          rw [hm] at hmp
          simp only [Option.map_some, Option.some.injEq] at hmp
          subst hmp
          refine asc_mapInsert _ (hax.1 mp0 hm) (fun y hy _ => ?_)
          have := (hx.1.2 mp0 hm).1.lt_length hy
          simpa using this
    · rcases List.mem_append.1 hy with hy | hy
      · exact hax.2 y hy
      · simp only [List.mem_singleton] at hy; subst hy; exact hva

theorem destroyMapMeta_cap (mt : Option ObjMeta) : objCap (destroyMapMeta mt) = objCap mt := by
  cases mt <;> simp [destroyMapMeta, objCap]

theorem destroyMapMeta_map (mt : Option ObjMeta) : objMap (destroyMapMeta mt) = none := by
  cases mt <;> simp [destroyMapMeta, objMap]

theorem memberReserveMeta_cap (n : Nat) (mt : Option ObjMeta) : objCap mt ≤ objCap (memberReserveMeta n mt) := by
  unfold memberReserveMeta
  split
  · rename_i h
    show objCap mt ≤ n
    omega
  · exact Nat.le_refl _

theorem memberReserveMeta_map (n : Nat) (mt : Option ObjMeta) :
    objMap (memberReserveMeta n mt) = none ∨ objMap (memberReserveMeta n mt) = objMap mt := by
  unfold memberReserveMeta
  split
  · simp only [objMap]; split <;> simp
  · exact .inr rfl

/-- an object whose members (keys, count) are unchanged, whose capacity did not shrink and whose map is kept or dropped -/
theorem obj_meta_change {mt mt' : Option ObjMeta} {ms : List Member} (hcap : objCap mt ≤ objCap mt')
    (hmap : objMap mt' = none ∨ objMap mt' = objMap mt) :
    (Good (.obj mt ms) → Good (.obj mt' ms)) ∧ (AscAll (.obj mt ms) → AscAll (.obj mt' ms)) := by
  constructor
  · intro h
    rw [Good_obj] at h ⊢
    refine ⟨⟨Nat.le_trans h.1.1 hcap, fun mp hmp => ?_⟩, h.2⟩
    rcases hmap with h0 | h0
    · rw [h0] at hmp; simp at hmp
    · rw [h0] at hmp; exact h.1.2 mp hmp
  · intro h
    rw [Asc_obj] at h ⊢
    refine ⟨fun mp hmp => ?_, h.2⟩
    rcases hmap with h0 | h0
    · rw [h0] at hmp; simp at hmp
    · rw [h0] at hmp; exact h.1 mp hmp

theorem createMapImpl_inv {x x' : Node} (h : createMapImpl x = some x') :
    (Good x → Good x') ∧ (Good x → AscAll x → AscAll x') := by
  cases x <;> simp only [createMapImpl, reduceCtorEq] at h
  rename_i mt ms
  cases mt with
  | none =>
    have : memberReserveMeta 16 none = some ⟨16, none⟩ := rfl
    simp only [this, Option.some.injEq] at h
    subst h
    constructor
    · intro hx
      rw [Good_obj] at hx ⊢
      have hl : ms.length = 0 := by simpa [objCap] using hx.1.1
      refine ⟨⟨by simp [objCap, hl], fun mp hmp => ?_⟩, hx.2⟩
      simp only [objMap, Option.some.injEq] at hmp
      subst hmp
      exact ⟨buildMap_exact ms, (buildMap_asc ms).sorted⟩
    · intro _ hax
      rw [Asc_obj] at hax ⊢
      refine ⟨fun mp hmp => ?_, hax.2⟩
      simp only [objMap, Option.some.injEq] at hmp
      subst hmp
      exact buildMap_asc ms
  | some m =>
    simp only at h
    cases hm : m.map with
    | some mp0 =>
      simp only [hm, Option.some.injEq] at h
      subst h
      exact ⟨id, fun _ => id⟩
    | none =>
      simp only [hm, Option.some.injEq] at h
      subst h
      constructor
      · intro hx
        rw [Good_obj] at hx ⊢
        refine ⟨⟨by simpa [objCap] using hx.1.1, fun mp hmp => ?_⟩, hx.2⟩
        simp only [objMap, Option.some.injEq] at hmp
        subst hmp
        exact ⟨buildMap_exact ms, (buildMap_asc ms).sorted⟩
      · intro _ hax
        rw [Asc_obj] at hax ⊢
        refine ⟨fun mp hmp => ?_, hax.2⟩
        simp only [objMap, Option.some.injEq] at hmp
        subst hmp
        exact buildMap_asc ms

theorem eraseMemberImpl_inv {f l : Nat} {x x' : Node} {r : Nat} (h : eraseMemberImpl f l x = some (x', r)) :
    (Good x → Good x') ∧ (AscAll x → AscAll x') := by
  cases x <;> simp only [eraseMemberImpl, reduceCtorEq] at h
  rename_i mt ms
  split at h
  · split at h
    · simp only [Option.some.injEq, Prod.mk.injEq] at h
      obtain ⟨rfl, _⟩ := h
      exact ⟨fun _ => Good_obj_nil, fun _ => Asc_obj_nil⟩
    · simp only [Option.some.injEq, Prod.mk.injEq] at h
      obtain ⟨rfl, _⟩ := h
      have hsub : ∀ y, y ∈ ms.take f ++ ms.drop l → y ∈ ms := fun y hy => by
        rcases List.mem_append.1 hy with hy | hy
        · exact List.mem_of_mem_take hy
        · exact List.mem_of_mem_drop hy
      constructor
      · intro hx
        rw [Good_obj] at hx ⊢
        refine ⟨⟨?_, fun mp hmp => ?_⟩, fun y hy => hx.2 y (hsub y hy)⟩
        · rw [destroyMapMeta_cap]
          have := hx.1.1
          simp only [List.length_append, List.length_take, List.length_drop]
          omega
        · rw [destroyMapMeta_map] at hmp; simp at hmp
      · intro hax
        rw [Asc_obj] at hax ⊢
        refine ⟨fun mp hmp => ?_, fun y hy => hax.2 y (hsub y hy)⟩
        rw [destroyMapMeta_map] at hmp; simp at hmp
  · simp at h

/-! ### `RemoveMember` -/

theorem keys_removeAt (ms : List Member) (pos : Nat) (tail : Member) :
    ((ms.set pos tail).dropLast).map mkey = ((ms.map mkey).set pos (mkey tail)).dropLast := by
  rw [List.map_dropLast, List.map_set]

theorem mem_removeAt {ms : List Member} {pos : Nat} {tail y : Member} (ht : tail ∈ ms)
    (hy : y ∈ (ms.set pos tail).dropLast) : y ∈ ms := by
  have := (List.dropLast_sublist _).subset hy
  rcases List.mem_or_eq_of_mem_set this with h | h
  · exact h
  · exact h ▸ ht

/-- what `removeAt` needs from the map it is given: nothing, or the object's map with the found entry erased -/
def RemoveMapOK (ms : List Member) (pos : Nat) (mpo : Option MapT) : Prop :=
  mpo = none ∨ ∃ mp e, mpo = some (mp.erase e) ∧ MapExact (ms.map mkey) mp ∧ MapSorted mp ∧ e ∈ mp ∧ e.2 = pos

theorem removeAt_good {m : ObjMeta} {mpo : Option MapT} {ms : List Member} {pos : Nat} {x' : Node}
    (hlen : ms.length ≤ m.cap) (hch : ∀ y ∈ ms, Good (mval y)) (hmap : RemoveMapOK ms pos mpo)
    (h : removeAt m mpo ms pos = some x') : Good x' := by
  unfold removeAt at h
  cases hp : ms[pos]? with
  | none => simp [hp] at h
  | some mpos =>
    cases ht : ms[ms.length - 1]? with
    | none => simp [hp, ht] at h
    | some tail =>
      simp only [hp, ht] at h
      have htm : tail ∈ ms := List.mem_of_getElem? ht
      have hkt : (ms.map mkey)[(ms.map mkey).length - 1]? = some (mkey tail) := by
        simp [ht]
      split at h
      · rename_i hne
        simp only [Option.some.injEq] at h
        subst h
        rw [Good_obj]
        refine ⟨⟨?_, fun mp hmp => ?_⟩, fun y hy => hch y (mem_removeAt htm hy)⟩
        · simp only [objCap, List.length_dropLast, List.length_set]; omega
        · simp only [objMap] at hmp
          rcases hmap with rfl | ⟨mp0, e, rfl, hex, hs, he, hepos⟩
          · simp at hmp
          · simp only [Option.map_some, Option.some.injEq] at hmp
            subst hmp hepos
            rw [keys_removeAt]
            have := hex.move_tail he hkt (by simpa using hne)
            simp only [List.length_map] at this
            exact ⟨this, sorted_mapInsert _ ((hs.erase _).erase _)⟩
      · rename_i heq
        simp only [Decidable.not_not] at heq
        simp only [Option.some.injEq] at h
        subst h
        rw [Good_obj]
        refine ⟨⟨?_, fun mp hmp => ?_⟩, fun y hy => hch y ((List.dropLast_sublist _).subset hy)⟩
        · simp only [objCap, List.length_dropLast]; omega
        · simp only [objMap] at hmp
          rcases hmap with rfl | ⟨mp0, e, rfl, hex, hs, he, hepos⟩
          · simp at hmp
          · simp only [Option.some.injEq] at hmp
            subst hmp
            rw [List.map_dropLast]
            exact ⟨hex.erase_last he (by simp [hepos, heq]), hs.erase _⟩

theorem removeAt_asc {m : ObjMeta} {mpo : Option MapT} {ms : List Member} {pos : Nat} {x' : Node}
    (hch : ∀ y ∈ ms, AscAll (mval y))
    (hmap : mpo = none ∨ ∃ mp e, mpo = some (mp.erase e) ∧ MapExact (ms.map mkey) mp ∧ MapAsc mp ∧ e ∈ mp ∧ e.2 = pos)
    (hnd : mpo = none ∨ (ms.map mkey).Nodup)
    (h : removeAt m mpo ms pos = some x') : AscAll x' := by
  unfold removeAt at h
  cases hp : ms[pos]? with
  | none => simp [hp] at h
  | some mpos =>
    cases ht : ms[ms.length - 1]? with
    | none => simp [hp, ht] at h
    | some tail =>
      simp only [hp, ht] at h
      have htm : tail ∈ ms := List.mem_of_getElem? ht
      split at h
      · rename_i hne
        simp only [Option.some.injEq] at h
        subst h
        rw [Asc_obj]
        refine ⟨fun mp hmp => ?_, fun y hy => hch y (mem_removeAt htm hy)⟩
        simp only [objMap] at hmp
        rcases hmap with rfl | ⟨mp0, e, rfl, hex, hasc, he, hepos⟩
        · simp at hmp
        · simp only [Option.map_some, Option.some.injEq] at hmp
          subst hmp
          have hnd' : (ms.map mkey).Nodup := by
            rcases hnd with h0 | h0
            · simp at h0
            · exact h0
          refine asc_mapInsert _ ((hasc.erase _).erase _) (fun y hy hk => ?_)
          exfalso
          have hy1 : y ∈ mp0.erase e := List.mem_of_mem_erase hy
          have hy2 : y ∈ mp0 := List.mem_of_mem_erase hy1
          have hky := (hex.2 y).1 hy2
          have hlt := hex.lt_length hy2
          simp only at hk
          have hkt : (ms.map mkey)[ms.length - 1]? = some (mkey tail) := by simp [ht]
          rw [hk, ← hkt] at hky
          have hidx := (List.getElem?_inj hlt hnd').1 hky
          have : y = (mkey tail, ms.length - 1) := Prod.ext hk hidx
          rw [this] at hy
          exact (hex.1.erase e).not_mem_erase hy
      · simp only [Option.some.injEq] at h
        subst h
        rw [Asc_obj]
        refine ⟨fun mp hmp => ?_, fun y hy => hch y ((List.dropLast_sublist _).subset hy)⟩
        simp only [objMap] at hmp
        rcases hmap with rfl | ⟨mp0, e, rfl, hex, hasc, he, hepos⟩
        · simp at hmp
        · simp only [Option.some.injEq] at hmp
          subst hmp
          exact hasc.erase _

/-- `RemoveMember` keeps the vector order in the map unless the object has a map AND duplicate keys -/
def SafeRemove : Node → Prop
  | .obj mt ms => objMap mt = none ∨ (ms.map mkey).Nodup
  | _ => True

instance (x : Node) : Decidable (SafeRemove x) := by
  cases x <;> simp only [SafeRemove] <;> infer_instance

theorem removeMemberImpl_inv {key : Key} {x x' : Node} {r : Bool} (h : removeMemberImpl key x = some (x', r)) :
    (Good x → Good x') ∧ (Good x → AscAll x → SafeRemove x → AscAll x') := by
  cases x <;> simp only [removeMemberImpl, reduceCtorEq] at h
  rename_i mt ms
  cases mt with
  | none =>
    simp only [Option.some.injEq, Prod.mk.injEq] at h
    obtain ⟨rfl, _⟩ := h
    exact ⟨id, fun _ h _ => h⟩
  | some m =>
    simp only at h
    cases hm : m.map with
    | some mp =>
      simp only [hm] at h
      cases hf : mapFind key mp with
      | none =>
        simp only [hf, Option.some.injEq, Prod.mk.injEq] at h
        obtain ⟨rfl, _⟩ := h
        exact ⟨id, fun _ h _ => h⟩
      | some e =>
        simp only [hf, Option.map_eq_some_iff, Prod.mk.injEq] at h
        obtain ⟨n, hn, rfl, _⟩ := h
        have herase : mp.eraseP (fun x => x.1 == key) = mp.erase e :=
          eraseP_eq_erase_of_find _ (by unfold mapFind at hf; exact hf)
        rw [herase] at hn
        have hemem := (mapFind_some hf).1
        constructor
        · intro hx
          rw [Good_obj] at hx
          obtain ⟨hex, hs⟩ := hx.1.2 mp (by simp [objMap, hm])
          exact removeAt_good (by simpa [objCap] using hx.1.1) hx.2
            (.inr ⟨mp, e, rfl, hex, hs, hemem, rfl⟩) hn
        · intro hx hax hsafe
          rw [Good_obj] at hx
          rw [Asc_obj] at hax
          obtain ⟨hex, _⟩ := hx.1.2 mp (by simp [objMap, hm])
          refine removeAt_asc hax.2 (.inr ⟨mp, e, rfl, hex, hax.1 mp (by simp [objMap, hm]), hemem, rfl⟩) ?_ hn
          rcases hsafe with h0 | h0
          · simp [objMap, hm] at h0
          · exact .inr h0
    | none =>
      simp only [hm] at h
      cases hf : ms.findIdx? (fun x => mkey x == key) with
      | none =>
        simp only [hf, Option.some.injEq, Prod.mk.injEq] at h
        obtain ⟨rfl, _⟩ := h
        exact ⟨id, fun _ h _ => h⟩
      | some pos =>
        simp only [hf, Option.map_eq_some_iff, Prod.mk.injEq] at h
        obtain ⟨n, hn, rfl, _⟩ := h
        constructor
        · intro hx
          rw [Good_obj] at hx
          exact removeAt_good (by simpa [objCap] using hx.1.1) hx.2 (.inl rfl) hn
        · intro _ hax _
          rw [Asc_obj] at hax
          exact removeAt_asc hax.2 (.inl rfl) (.inl rfl) hn

/-! ## arrays -/

theorem pushBackImpl_inv {v x x' : Node} (h : pushBackImpl v x = some x') :
    (Good x → Good v → Good x') ∧ (AscAll x → AscAll v → AscAll x') := by
  cases x <;> simp only [pushBackImpl, reduceCtorEq, Option.some.injEq] at h
  rename_i cap es
  subst h
  have hmem : ∀ y, y ∈ es ++ [v] → y ∈ es ∨ y = v := fun y hy => by
    simpa using hy
  constructor
  · intro hx hv
    rw [Good_arr] at hx ⊢
    refine ⟨?_, fun y hy => ?_⟩
    · have h1 := hx.1
      show (es ++ [v]).length ≤
        (if es.length ≥ arrCap cap then (if arrCap cap ≠ 0 then grow (arrCap cap) else 16) else arrCap cap)
      generalize arrCap cap = c at h1 ⊢
      simp only [List.length_append, List.length_singleton, grow]
      split
      · split <;> omega
      · omega
    · rcases hmem y hy with h | rfl
      · exact hx.2 y h
      · exact hv
  · intro hx hv
    rw [Asc_arr] at hx ⊢
    intro y hy
    rcases hmem y hy with h | rfl
    · exact hx y h
    · exact hv

theorem arr_shrink {c c' : Option Nat} {es es' : List Node} (hcap : arrCap c ≤ arrCap c')
    (hlen : es'.length ≤ es.length) (hsub : ∀ y ∈ es', y ∈ es) :
    (Good (.arr c es) → Good (.arr c' es')) ∧ (AscAll (.arr c es) → AscAll (.arr c' es')) := by
  constructor
  · intro hx
    rw [Good_arr] at hx ⊢
    exact ⟨by omega, fun y hy => hx.2 y (hsub y hy)⟩
  · intro hx
    rw [Asc_arr] at hx ⊢
    exact fun y hy => hx y (hsub y hy)

end Sonic.Proofs.Dom
