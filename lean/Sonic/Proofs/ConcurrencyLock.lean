import Sonic.Model.Lock

/-!
# C17 helper lemmas: mutual exclusion of the `SpinLock` interleaving model (`Model/Lock.lean`, part (a))
-/

namespace Sonic.Proofs.Concurrency
open Sonic.Model.Lock

/-- the invariant: the flag is set whenever somebody is inside, and at most one thread is inside -/
structure SpinInv (s : SpinState) : Prop where
  free : s.flag = false → s.holders = 0
  one : s.holders ≤ 1

theorem spinInv_init (n : Nat) : SpinInv (SpinState.init n) := by
  have h : (SpinState.init n).holders = 0 := by
    simp [SpinState.init, SpinState.holders, List.countP_replicate]
  exact ⟨fun _ => h, by omega⟩

theorem holders_set (s : SpinState) (t : Nat) (pc pc' : SpinPc) (f : Bool) (h : s.pcs[t]? = some pc) :
    (SpinState.mk f (s.pcs.set t pc')).holders =
      s.holders - (if pc = .held then 1 else 0) + (if pc' = .held then 1 else 0) := by
  obtain ⟨hlt, e⟩ := List.getElem?_eq_some_iff.mp h
  simp only [SpinState.holders]
  rw [List.countP_set hlt, e]
  simp only [beq_iff_eq]

/-- a thread at `held` is counted -/
theorem holders_pos (s : SpinState) (t : Nat) (h : s.pcs[t]? = some .held) : 1 ≤ s.holders := by
  obtain ⟨hlt, e⟩ := List.getElem?_eq_some_iff.mp h
  simp only [SpinState.holders]
  apply List.countP_pos_iff.mpr
  exact ⟨s.pcs[t], List.getElem_mem hlt, by rw [e]; rfl⟩

theorem spinInv_step {s : SpinState} (h : SpinInv s) (t : Nat) (leave : Bool) : SpinInv (s.step t leave) := by
  unfold SpinState.step
  rcases hpc : s.pcs[t]? with _ | pc
  · exact h
  · simp only
    have hs := holders_set s t pc
    cases pc with
    | idle =>
      have := hs .xchg s.flag hpc
      simp only [spinStep]
      constructor
      · intro hf; simp only at hf; rw [this]; have := h.free hf; simp; omega
      · rw [this]; have := h.one; simp; omega
    | xchg =>
      simp only [spinStep]
      cases hf : s.flag with
      | true =>
        have := hs .spin true hpc
        simp only [if_true]
        constructor
        · intro hc; simp at hc
        · rw [this]; have := h.one; simp; omega
      | false =>
        have := hs .held true hpc
        have h0 := h.free hf
        constructor
        · intro hc; simp at hc
        · simp only [Bool.false_eq_true, if_false]; rw [this]; simp; omega
    | spin =>
      simp only [spinStep]
      cases hf : s.flag with
      | true =>
        have := hs .spin true hpc
        constructor
        · intro hc; simp at hc
        · simp only [if_true]; rw [this]; have := h.one; simp; omega
      | false =>
        have := hs .xchg false hpc
        have h0 := h.free hf
        simp only [Bool.false_eq_true, if_false]
        constructor
        · intro _; rw [this]; simp; omega
        · rw [this]; simp; omega
    | held =>
      have hp := holders_pos s t hpc
      have h1 := h.one
      simp only [spinStep]
      cases leave with
      | true =>
        have := hs .idle false hpc
        simp only [if_true]
        constructor
        · intro _; rw [this]; simp; omega
        · rw [this]; simp; omega
      | false =>
        have := hs .held s.flag hpc
        simp only [Bool.false_eq_true, if_false]
        constructor
        · intro hf; simp only at hf; have := h.free hf; omega
        · rw [this]; simp; omega

theorem spinInv_run {s : SpinState} (h : SpinInv s) (sched : List (Nat × Bool)) : SpinInv (s.run sched) := by
  unfold SpinState.run
  induction sched generalizing s with
  | nil => exact h
  | cons e es ih => exact ih (spinInv_step h e.1 e.2)

/-- two distinct threads are never both inside -/
theorem spin_two {s : SpinState} (h : SpinInv s) {i j : Nat} (hi : s.pcs[i]? = some .held)
    (hj : s.pcs[j]? = some .held) : i = j := by
  apply Decidable.byContradiction; intro hne
  have h1 := h.one
  -- remove thread i: the count drops by one but j is still counted
  have hs := holders_set s i .held .idle s.flag hi
  have hj' : (SpinState.mk s.flag (s.pcs.set i .idle)).pcs[j]? = some .held := by
    simp only; rw [List.getElem?_set_ne hne]; exact hj
  have hp := holders_pos _ j hj'
  have hpi := holders_pos s i hi
  simp at hs
  omega

end Sonic.Proofs.Concurrency
