import Sonic.Proofs.DecPlug

/-!
# A number token only depends on its own bytes: `scanToken` on a truncated text
-/
namespace Sonic.Proofs.Dec

open Sonic.Spec.Number
open Sonic.Proofs.Number (isD scanToken_eq)

theorem takeWhile_take (p : Nat → Bool) (s : List Nat) : ∀ m, (s.takeWhile p).length ≤ m →
    (s.take m).takeWhile p = s.takeWhile p := by
  induction s with
  | nil => intro m _; simp
  | cons c r ih =>
    intro m hm
    by_cases h : p c = true
    · rw [List.takeWhile_cons, if_pos h, List.length_cons] at hm
      obtain ⟨m', rfl⟩ : ∃ m', m = m' + 1 := ⟨m - 1, by omega⟩
      rw [List.take_succ_cons, List.takeWhile_cons, if_pos h, List.takeWhile_cons, if_pos h, ih m' (by omega)]
    · cases m with
      | zero => simp [h]
      | succ m' => simp [List.takeWhile_cons, h]

theorem takeDigits_take (s : List Nat) (m : Nat) (h : (takeDigits s).length ≤ m) :
    takeDigits (s.take m) = takeDigits s := takeWhile_take isDigit s m h

theorem scanInt_take (s1 ids : List Nat) (m : Nat) (h : scanInt s1 = some ids) (hm : ids.length ≤ m) :
    scanInt (s1.take m) = some ids := by
  cases s1 with
  | nil => simp [scanInt] at h
  | cons c r =>
    have hidpos : 0 < ids.length := by
      unfold scanInt at h
      simp only at h
      by_cases h48 : c = 48
      · rw [if_pos h48] at h; cases h; simp
      · rw [if_neg h48] at h
        by_cases hd : isDigit c = true
        · rw [if_pos hd] at h; cases h; simp [takeDigits, List.takeWhile_cons, hd]
        · rw [if_neg hd] at h; cases h
    obtain ⟨m', rfl⟩ : ∃ m', m = m' + 1 := ⟨m - 1, by omega⟩
    rw [List.take_succ_cons]
    unfold scanInt at h ⊢
    simp only at h ⊢
    by_cases h48 : c = 48
    · rw [if_pos h48] at h ⊢; exact h
    · rw [if_neg h48] at h ⊢
      by_cases hd : isDigit c = true
      · rw [if_pos hd] at h ⊢
        simp only [Option.some.injEq] at h ⊢
        rw [← h, ← List.take_succ_cons, takeDigits_take (c :: r) (m' + 1) (by rw [h]; exact hm)]
      · rw [if_neg hd] at h; cases h

theorem scanFrac_take (s2 : List Nat) (fr : Option (List Nat)) (m : Nat) (h : scanFrac s2 = some fr)
    (hm : fracBytes fr ≤ m) : scanFrac (s2.take m) = some fr := by
  unfold scanFrac at h
  split at h
  · rename_i r
    by_cases hnil : takeDigits r = []
    · rw [if_pos hnil] at h; cases h
    · rw [if_neg hnil] at h
      simp only [Option.some.injEq] at h
      subst h
      simp only [fracBytes] at hm
      obtain ⟨m', rfl⟩ : ∃ m', m = m' + 1 := ⟨m - 1, by omega⟩
      rw [List.take_succ_cons]
      unfold scanFrac
      simp only
      rw [takeDigits_take r m' (by omega), if_neg hnil]
  · rename_i hne
    simp only [Option.some.injEq] at h
    subst h
    unfold scanFrac
    split
    · rename_i r heq
      exfalso
      cases s2 with
      | nil => cases m <;> simp at heq
      | cons c r0 =>
        cases m with
        | zero => simp at heq
        | succ m' =>
          rw [List.take_succ_cons] at heq
          simp only [List.cons.injEq] at heq
          exact hne r0 (by rw [heq.1])
    · rfl

theorem expSign_take (r : List Nat) (m : Nat) (hm : 1 ≤ m) : expSign (r.take m) = expSign r := by
  obtain ⟨m', rfl⟩ : ∃ m', m = m' + 1 := ⟨m - 1, by omega⟩
  cases r with
  | nil => rfl
  | cons c r0 =>
    rw [List.take_succ_cons]
    unfold expSign
    split
    · rename_i heq; simp only [List.cons.injEq] at heq; rw [heq.1]; rfl
    · rename_i heq; simp only [List.cons.injEq] at heq; rw [heq.1]; rfl
    · rename_i h1 h2
      split
      · rename_i heq; simp only [List.cons.injEq] at heq; exact absurd (by rw [heq.1]) (h1 (r0.take m'))
      · rename_i heq; simp only [List.cons.injEq] at heq; exact absurd (by rw [heq.1]) (h2 (r0.take m'))
      · rfl

theorem scanExp_take (s3 : List Nat) (ex : Option (Int × Nat)) (m : Nat) (h : scanExp s3 = some ex)
    (hm : expLen ex ≤ m) : scanExp (s3.take m) = some ex := by
  cases s3 with
  | nil => simpa using h
  | cons c r =>
    unfold scanExp at h
    simp only at h
    by_cases hce : c = 101 ∨ c = 69
    · rw [if_pos hce] at h
      by_cases hnil : takeDigits (r.drop (expSign r).2) = []
      · rw [if_pos hnil] at h; cases h
      · rw [if_neg hnil] at h
        simp only [Option.some.injEq] at h
        subst h
        simp only [expLen] at hm
        have hpos : 0 < (takeDigits (r.drop (expSign r).2)).length := List.length_pos_of_ne_nil hnil
        obtain ⟨m', rfl⟩ : ∃ m', m = m' + 1 := ⟨m - 1, by omega⟩
        rw [List.take_succ_cons]
        unfold scanExp
        simp only
        rw [if_pos hce, expSign_take r m' (by omega), List.drop_take,
          takeDigits_take _ (m' - (expSign r).2) (by omega), if_neg hnil]
    · rw [if_neg hce] at h
      simp only [Option.some.injEq] at h
      subst h
      cases m with
      | zero => rfl
      | succ m' =>
        rw [List.take_succ_cons]
        unfold scanExp
        simp only
        rw [if_neg hce]

theorem signLen_take (s : List Nat) (n : Nat) (hn : 1 ≤ n) : signLen (s.take n) = signLen s := by
  obtain ⟨n', rfl⟩ : ∃ n', n = n' + 1 := ⟨n - 1, by omega⟩
  cases s with
  | nil => rfl
  | cons c r =>
    rw [List.take_succ_cons]
    unfold signLen
    split
    · rename_i heq; simp only [List.cons.injEq] at heq; rw [heq.1]; rfl
    · rename_i h1
      split
      · rename_i heq; simp only [List.cons.injEq] at heq; exact absurd (by rw [heq.1]) (h1 (r.take n'))
      · rfl

/-- **A token only depends on its own bytes**: truncating the text anywhere at or after the end of the token does
    not change what `scanToken` finds. -/
theorem scanToken_take (s : List Nat) (t : Token) (n : Nat) (h : scanToken s = some t) (hn : t.len ≤ n) :
    scanToken (s.take n) = some t := by
  rw [scanToken_eq] at h ⊢
  cases hsi : scanInt (s.drop (signLen s)) with
  | none => rw [hsi] at h; cases h
  | some ids =>
    rw [hsi] at h
    simp only at h
    cases hsf : scanFrac ((s.drop (signLen s)).drop ids.length) with
    | none => rw [hsf] at h; cases h
    | some fr =>
      rw [hsf] at h
      simp only at h
      cases hse : scanExp (((s.drop (signLen s)).drop ids.length).drop (fracBytes fr)) with
      | none => rw [hse] at h; cases h
      | some ex =>
        rw [hse] at h
        simp only [Option.some.injEq] at h
        subst h
        have hlen : signLen s + ids.length + fracBytes fr + expLen ex ≤ n := by
          have : (if (signLen s == 1) = true then 1 else 0) = signLen s := by
            unfold signLen; split <;> rfl
          simp only [Token.len] at hn
          omega
        have hidpos : 0 < ids.length := by
          have := (scanInt_struct _ ids hsi).2.2
          exact List.length_pos_of_ne_nil this
        rw [signLen_take s n (by omega), List.drop_take,
          scanInt_take _ ids (n - signLen s) hsi (by omega)]
        simp only
        rw [List.drop_take, scanFrac_take _ fr (n - signLen s - ids.length) hsf (by omega)]
        simp only
        rw [List.drop_take, scanExp_take _ ex (n - signLen s - ids.length - fracBytes fr) hse (by omega)]

theorem nativeGuard_take (t : Token) (rest : List Nat) (k : Nat) (h : nativeGuard t rest = true) :
    nativeGuard t (rest.take k) = true := by
  cases rest with
  | nil => simpa using h
  | cons c r =>
    cases k with
    | zero => rfl
    | succ k' => rw [List.take_succ_cons]; exact h

open Sonic.Model.Number in
/-- `native_path_agrees` with the hypotheses on the buffer only: the token ends at or before `len_`, and the byte
    after it satisfies `nativeGuard` -/
theorem native_path_agrees' (buf : List Nat) (len start : Nat) (t : Token)
    (ht : scanToken (buf.drop start) = some t) (hlen : start + t.len ≤ len)
    (hg : nativeGuard t ((buf.drop start).drop t.len) = true)
    (hexp : (expVal t.exp).natAbs < 10000000000000000 ∨ t.len < 2 ^ 32) :
    (∀ v n, parseNumber buf len start = .ok v n .native → scanNumber buf start = .ok v n) ∧
    (∀ p, parseNumber buf len start = .err errInfinity p → scanNumber buf start = .infinity p) := by
  apply native_path_agrees buf len start t ht (scanToken_take _ t (len - start) ht (by omega)) _ hexp
  rw [List.drop_take]
  exact nativeGuard_take t _ _ hg

end Sonic.Proofs.Dec
