import Sonic.Proofs.NumberNormalFastEq
import Sonic.Proofs.NumberRound
import Sonic.Proofs.NumberTables

/-!
# Helper lemmas for C04: correctness of `ParseFloatingNormalFast` (yyjson's fast path)

`normalfast_correct`: whenever the model of `ParseFloatingNormalFast(d_raw, exp10, man, sgn)` returns true for
`0 < man < 2^64`, `-307 < exp10 < 288` (what `Parser::parseNumber` guarantees), `d_raw` is the correctly rounded binary64
of `±man·10^exp10` (`Spec.Rne.round`).

Structure: `roundRat_of_sandwich` (characterisation of the reference rounding for a normal result with a non-zero
sticky part: if `Q < x·2^(53-E) < Q+1` strictly with a 54-bit `Q`, the result is `(E+1022)·2^52 + ⌈Q/2⌉`);
`nfSel_spec` (the chosen high word `hi` brackets the exact product: `⌊hi/2^9⌋·2^137 < sig1·v` and
`sig1·v + sig1 ≤ (⌊hi/2^9⌋+1)·2^137`, where `v` is the 128-bit table entry and the exact scaled value lies in
`[sig1·v, sig1·v + sig1)`); `nfTail_spec` (normalise, round at bit 10, carry, pack); `transfer` (powers of two).
-/
namespace Sonic.Proofs.NormalFast
open Sonic.Model.EiselLemire Sonic.Model.NormalFast
open Sonic.Spec.Rne Sonic.Proofs.Rne
open Sonic.Proofs.NumberTables

theorem roundQ_sticky (Q : Nat) : roundQ Q true = (Q + 1) / 2 := by
  unfold roundQ
  by_cases h : Q % 2 = 1
  · simp [h]; omega
  · simp [h]; omega

theorem ulpOf_normal (E : Int) (h : -1022 ≤ E) : ulpOf E = E - 52 := by
  unfold ulpOf; split <;> omega

/-- characterisation of `roundRat` for a normal result with non-zero sticky part -/
theorem roundRat_of_sandwich (num den : Nat) (hn : 0 < num) (hd : 0 < den) (E : Int) (Q : Nat)
    (hE1 : -1022 ≤ E) (hE2 : E ≤ 1022) (hQ1 : 2 ^ 53 ≤ Q) (hQ2 : Q < 2 ^ 54)
    (hlo : Q * (den * pR (53 - E)) < num * pL (53 - E))
    (hhi : num * pL (53 - E) < (Q + 1) * (den * pR (53 - E))) :
    roundRat num den = some ((E + 1022).toNat * 2 ^ 52 + (Q + 1) / 2) := by
  have hB : 0 < den * pR (53 - E) := Nat.mul_pos hd (pR_pos _)
  have h1 : le2 E num den := by
    rw [le2_shift E (53 - E) 53 (by omega)]
    exact Nat.le_trans (Nat.mul_le_mul_right _ hQ1) (Nat.le_of_lt hlo)
  have h2 : lt2 (E + 1) num den := by
    rw [lt2_shift (E + 1) (53 - E) 54 (by omega)]
    exact Nat.lt_of_lt_of_le hhi (Nat.mul_le_mul_right _ (by omega))
  obtain ⟨h1', h2'⟩ := floorLog2Rat_spec num den hn hd
  have hE : floorLog2Rat num den = E := exp_unique h1' h2' h1 h2
  obtain ⟨hc, _⟩ := roundRat_closed num den hn hd
  rw [hE, ulpOf_normal E hE1] at hc
  have e1 : (1 : Int) - (E - 52) = 53 - E := by omega
  have e2 : E - 52 + 1074 = E + 1022 := by omega
  rw [e1, e2] at hc
  have hdiv : num * pL (53 - E) / (den * pR (53 - E)) = Q :=
    Nat.div_eq_of_lt_le (Nat.le_of_lt hlo) hhi
  have hmod : (num * pL (53 - E) % (den * pR (53 - E)) != 0) = true := by
    apply bne_iff_ne.2
    intro h0
    have := Nat.div_add_mod (num * pL (53 - E)) (den * pR (53 - E))
    rw [h0, hdiv, Nat.add_zero, Nat.mul_comm] at this
    omega
  rw [hdiv, hmod, roundQ_sticky] at hc
  rw [hc, if_neg]
  have : (E + 1022).toNat ≤ 2044 := by omega
  omega



theorem or_low (a r : Nat) (h : r < 2 ^ 52) : a * 2 ^ 52 ||| r = a * 2 ^ 52 + r := by
  rw [← Nat.shiftLeft_eq, Nat.shiftLeft_add_eq_or_of_lt h]

theorem or_sign (d : Nat) (h : d < 2 ^ 63) : d ||| 2 ^ 63 = d + 2 ^ 63 := by
  have := Nat.shiftLeft_add_eq_or_of_lt h 1
  rw [Nat.shiftLeft_eq, Nat.one_mul] at this
  rw [Nat.or_comm, ← this, Nat.add_comm]

theorem toU64_small (x : Int) (h0 : 0 ≤ x) (h1 : x < 2 ^ 64) : toU64 x = x.toNat := by
  unfold toU64
  rw [Int.emod_eq_of_lt h0 h1]

/-- packing: biased exponent `B ∈ [1, 2046]` and a 53-bit significand `s ∈ [2^52, 2^53)` -/
theorem pack (B : Int) (s : Nat) (neg : Bool) (hB1 : 1 ≤ B) (hB2 : B ≤ 2046) (hs1 : 2 ^ 52 ≤ s) (hs2 : s < 2 ^ 53) :
    (if neg = true then (toU64 B * 2 ^ 52 % 2 ^ 64 ||| s % 2 ^ 52) ||| 2 ^ 63 else (toU64 B * 2 ^ 52 % 2 ^ 64 ||| s % 2 ^ 52))
      = (B - 1).toNat * 2 ^ 52 + s + (if neg = true then 2 ^ 63 else 0) := by
  rw [toU64_small B (by omega) (by omega)]
  have hB : B.toNat * 2 ^ 52 % 2 ^ 64 = B.toNat * 2 ^ 52 := Nat.mod_eq_of_lt (by omega)
  rw [hB, or_low _ _ (Nat.mod_lt _ (by decide))]
  have hval : B.toNat * 2 ^ 52 + s % 2 ^ 52 = (B - 1).toNat * 2 ^ 52 + s := by omega
  rw [hval]
  cases neg
  · simp
  · simp only [if_true]
    exact or_sign _ (by omega)


theorem nfTail_spec (hi : Nat) (exp2 : Int) (neg : Bool) (h1 : 2 ^ 62 ≤ hi) (h2 : hi < 2 ^ 64)
    (hlo : -1148 ≤ exp2) (hhi : exp2 ≤ 895) :
    nfTail hi exp2 neg =
      (exp2 + (if hi < 2 ^ 63 then 1148 else 1149)).toNat * 2 ^ 52
        + ((if hi < 2 ^ 63 then hi / 2 ^ 9 else hi / 2 ^ 10) + 1) / 2
        + (if neg = true then 2 ^ 63 else 0) := by
  unfold nfTail
  simp only []
  by_cases h63 : hi < 2 ^ 63
  · simp only [h63, if_true]
    have hH : hi * 2 ^ 1 % 2 ^ 64 = 2 * hi := by omega
    rw [hH]
    by_cases hr : 2 * hi / 2 ^ 10 % 2 = 1
    · simp only [hr, if_true]
      by_cases hc : (2 * hi + 2 ^ 10) % 2 ^ 64 < 2 ^ 10
      · simp only [hc, if_true]
        rw [pack _ _ neg (by omega) (by omega) (by omega) (by omega)]
        omega
      · simp only [hc, if_false]
        rw [pack _ _ neg (by omega) (by omega) (by omega) (by omega)]
        omega
    · simp only [hr, if_false]
      have hc : ¬ (2 * hi < 2 ^ 10) := by omega
      simp only [hc, if_false]
      rw [pack _ _ neg (by omega) (by omega) (by omega) (by omega)]
      omega
  · simp only [h63, if_false]
    have hH : hi * 2 ^ 0 % 2 ^ 64 = hi := by omega
    rw [hH]
    by_cases hr : hi / 2 ^ 10 % 2 = 1
    · simp only [hr, if_true]
      by_cases hc : (hi + 2 ^ 10) % 2 ^ 64 < 2 ^ 10
      · simp only [hc, if_true]
        rw [pack _ _ neg (by omega) (by omega) (by omega) (by omega)]
        omega
      · simp only [hc, if_false]
        rw [pack _ _ neg (by omega) (by omega) (by omega) (by omega)]
        omega
    · simp only [hr, if_false]
      have hc : ¬ (hi < 2 ^ 10) := by omega
      simp only [hc, if_false]
      rw [pack _ _ neg (by omega) (by omega) (by omega) (by omega)]
      omega


/-- pure arithmetic core of `nfSel`, on the two products `P = sig1*sig2`, `P' = sig1*sig2Ext` -/
theorem sel_arith (s1 P P' hi : Nat) (ex : Bool)
    (h1 : 2 ^ 63 ≤ s1) (h1' : s1 < 2 ^ 64) (hP1 : 2 ^ 126 ≤ P) (hP2 : P ≤ (2 ^ 64 - 1) * (2 ^ 64 - 1))
    (hP' : P' ≤ (2 ^ 64 - 1) * (2 ^ 64 - 1))
    (hsel : (if (P / 2 ^ 64 % 2 ^ 64 % 512 + (2 ^ 64 - 1)) % 2 ^ 64 < 510 then (P / 2 ^ 64 % 2 ^ 64, true)
      else if ((P % 2 ^ 64 + P' / 2 ^ 64 % 2 ^ 64) % 2 ^ 64 + 1) % 2 ^ 64 > 1 then
        ((P / 2 ^ 64 % 2 ^ 64 + (if (P % 2 ^ 64 + P' / 2 ^ 64 % 2 ^ 64) % 2 ^ 64 < P % 2 ^ 64 ∨
            (P % 2 ^ 64 + P' / 2 ^ 64 % 2 ^ 64) % 2 ^ 64 < P' / 2 ^ 64 % 2 ^ 64 then 1 else 0)) % 2 ^ 64, true)
      else (P / 2 ^ 64 % 2 ^ 64, false)) = (hi, ex))
    (hex : ex = true) :
    2 ^ 62 ≤ hi ∧ hi < 2 ^ 64 ∧ hi / 2 ^ 9 * 2 ^ 137 < P * 2 ^ 64 + P' ∧
      P * 2 ^ 64 + P' + s1 ≤ (hi / 2 ^ 9 + 1) * 2 ^ 137 := by
  subst hex
  simp only [Nat.reducePow, Nat.reduceSub, Nat.reduceMul] at *
  split at hsel
  · simp only [Prod.mk.injEq, and_true] at hsel
    omega
  · split at hsel
    · simp only [Prod.mk.injEq, and_true] at hsel
      split at hsel <;> omega
    · simp at hsel


theorem clz_spec (m : Nat) (hm : 0 < m) (hm' : m < 2 ^ 64) :
    clz64 m ≤ 63 ∧ 2 ^ 63 ≤ m * 2 ^ clz64 m ∧ m * 2 ^ clz64 m < 2 ^ 64 := by
  unfold clz64
  rw [if_neg (by omega)]
  have hl : Nat.log2 m < 64 := (Nat.log2_lt (by omega)).2 hm'
  have h1 : 2 ^ Nat.log2 m ≤ m := Nat.log2_self_le (by omega)
  have h2 : m < 2 ^ (Nat.log2 m + 1) := Nat.lt_log2_self
  generalize Nat.log2 m = l at *
  refine ⟨by omega, ?_, ?_⟩
  · calc 2 ^ 63 = 2 ^ l * 2 ^ (63 - l) := by rw [← Nat.pow_add]; congr 1; omega
      _ ≤ m * 2 ^ (63 - l) := Nat.mul_le_mul_right _ h1
  · calc m * 2 ^ (63 - l) < 2 ^ (l + 1) * 2 ^ (63 - l) := Nat.mul_lt_mul_of_pos_right h2 (Nat.pow_pos (by omega))
      _ = 2 ^ 64 := by rw [← Nat.pow_add]; congr 1; omega

/-- `2^a · 2^k = 2^lz · 2^s` on fractions -/
theorem pow2_id (a s : Int) (k lz : Nat) (h : a + k = s + lz) :
    pL a * (pR s * 2 ^ k) = pR a * (2 ^ lz * pL s) := by
  unfold pL pR
  rw [← Nat.pow_add, ← Nat.pow_add, ← Nat.pow_add, ← Nat.pow_add]
  congr 1
  omega

theorem transfer (m lz k : Nat) (s a : Int) (tp tn Q : Nat) (ha : a + k = s + lz)
    (hlo : Q * 2 ^ k * (tn * pR s) < m * 2 ^ lz * (tp * pL s))
    (hhi : m * 2 ^ lz * (tp * pL s) < (Q + 1) * 2 ^ k * (tn * pR s)) :
    Q * (tn * pR a) < m * tp * pL a ∧ m * tp * pL a < (Q + 1) * (tn * pR a) := by
  have hid := pow2_id a s k lz ha
  have hc : 0 < pR s * 2 ^ k := Nat.mul_pos (pR_pos _) (Nat.pow_pos (by omega))
  have hW : m * 2 ^ lz * (tp * pL s) * pR a = m * tp * pL a * (pR s * 2 ^ k) := by
    calc m * 2 ^ lz * (tp * pL s) * pR a = m * tp * (pR a * (2 ^ lz * pL s)) := by ac_rfl
      _ = m * tp * (pL a * (pR s * 2 ^ k)) := by rw [hid]
      _ = m * tp * pL a * (pR s * 2 ^ k) := by ac_rfl
  have hQ : ∀ q : Nat, q * 2 ^ k * (tn * pR s) * pR a = q * (tn * pR a) * (pR s * 2 ^ k) := by
    intro q; ac_rfl
  constructor
  · have := Nat.mul_lt_mul_of_pos_right hlo (pR_pos a)
    rw [hW, hQ] at this
    exact Nat.lt_of_mul_lt_mul_right this
  · have := Nat.mul_lt_mul_of_pos_right hhi (pR_pos a)
    rw [hW, hQ] at this
    exact Nat.lt_of_mul_lt_mul_right this



theorem nfSel_spec (s1 s2 s2e : Nat) (h1 : 2 ^ 63 ≤ s1) (h1' : s1 < 2 ^ 64) (h2 : 2 ^ 63 ≤ s2) (h2' : s2 < 2 ^ 64)
    (h3 : s2e < 2 ^ 64) (hex : (nfSel s1 s2 s2e).2 = true) :
    2 ^ 62 ≤ (nfSel s1 s2 s2e).1 ∧ (nfSel s1 s2 s2e).1 < 2 ^ 64 ∧
      (nfSel s1 s2 s2e).1 / 2 ^ 9 * 2 ^ 137 < s1 * (s2 * 2 ^ 64 + s2e) ∧
      s1 * (s2 * 2 ^ 64 + s2e) + s1 ≤ ((nfSel s1 s2 s2e).1 / 2 ^ 9 + 1) * 2 ^ 137 := by
  have hP1 : 2 ^ 126 ≤ s1 * s2 := by
    calc 2 ^ 126 = 2 ^ 63 * 2 ^ 63 := by decide
      _ ≤ s1 * s2 := Nat.mul_le_mul h1 h2
  have hP2 : s1 * s2 ≤ (2 ^ 64 - 1) * (2 ^ 64 - 1) := Nat.mul_le_mul (by omega) (by omega)
  have hP' : s1 * s2e ≤ (2 ^ 64 - 1) * (2 ^ 64 - 1) := Nat.mul_le_mul (by omega) (by omega)
  have hV : s1 * (s2 * 2 ^ 64 + s2e) = s1 * s2 * 2 ^ 64 + s1 * s2e := by
    rw [Nat.mul_add, Nat.mul_assoc]
  rw [hV]
  generalize hp : nfSel s1 s2 s2e = p at *
  unfold nfSel mulU64 at hp
  simp only [] at hp
  obtain ⟨hi, ex⟩ := p
  exact sel_arith s1 (s1 * s2) (s1 * s2e) hi ex h1 h1' hP1 hP2 hP' hp hex

theorem round_of_sandwich (neg : Bool) (m : Nat) (e : Int) (hm : 0 < m) (hm' : m < 2 ^ 64) (he : -307 < e)
    (he' : e < 288) (a : Int) (Q : Nat) (ha1 : -969 ≤ a) (ha2 : a ≤ 1075) (hQ1 : 2 ^ 53 ≤ Q) (hQ2 : Q < 2 ^ 54)
    (hlo : Q * (10 ^ (-e).toNat * pR a) < m * 10 ^ e.toNat * pL a)
    (hhi : m * 10 ^ e.toNat * pL a < (Q + 1) * (10 ^ (-e).toNat * pR a)) :
    round neg m e = some ((1075 - a).toNat * 2 ^ 52 + (Q + 1) / 2 + (if neg = true then 2 ^ 63 else 0)) := by
  rw [round_eq neg m e (by omega)]
  have hd1 := dl_pos m
  have hd2 : dl m ≤ 20 := (dl_le_iff m 20 (by omega)).2 (Nat.lt_trans hm' (by decide))
  rw [if_neg (by omega), if_neg (by omega)]
  have h53 : (53 : Int) - (53 - a) = a := by omega
  have hr := roundRat_of_sandwich (m * 10 ^ e.toNat) (10 ^ (-e).toNat)
    (Nat.mul_pos hm (Nat.pow_pos (by omega))) (Nat.pow_pos (by omega)) (53 - a) Q (by omega) (by omega) hQ1 hQ2
    (by rw [h53]; exact hlo) (by rw [h53]; exact hhi)
  rw [hr]
  have : (53 - a + 1022) = 1075 - a := by omega
  rw [this]
  rfl



theorem sandwich_mul (x y V U W D : Nat) (hD : 0 < D) (hx : x < V) (hy : U ≤ y) (h1 : V * D ≤ W) (h2 : W < U * D) :
    x * D < W ∧ W < y * D :=
  ⟨Nat.lt_of_lt_of_le (Nat.mul_lt_mul_of_pos_right hx hD) h1,
   Nat.lt_of_lt_of_le h2 (Nat.mul_le_mul_right _ hy)⟩

theorem shift_lo (hi V : Nat) (h : hi / 2 ^ 9 * 2 ^ 137 < V) : hi / 2 ^ 10 * 2 ^ 138 < V := by
  have h2 : hi / 2 ^ 10 * 2 ≤ hi / 2 ^ 9 := by omega
  calc hi / 2 ^ 10 * 2 ^ 138 = hi / 2 ^ 10 * 2 * 2 ^ 137 := by rw [Nat.mul_assoc]
    _ ≤ hi / 2 ^ 9 * 2 ^ 137 := Nat.mul_le_mul_right _ h2
    _ < V := h

theorem shift_hi (hi U : Nat) (h : U ≤ (hi / 2 ^ 9 + 1) * 2 ^ 137) : U ≤ (hi / 2 ^ 10 + 1) * 2 ^ 138 := by
  have h2 : hi / 2 ^ 9 + 1 ≤ (hi / 2 ^ 10 + 1) * 2 := by omega
  calc U ≤ (hi / 2 ^ 9 + 1) * 2 ^ 137 := h
    _ ≤ (hi / 2 ^ 10 + 1) * 2 * 2 ^ 137 := Nat.mul_le_mul_right _ h2
    _ = (hi / 2 ^ 10 + 1) * 2 ^ 138 := by rw [Nat.mul_assoc]

theorem normalfast_correct
    (htab : ∀ i, i < 696 →
      RowSpec i (Sonic.Gen.kPow10M128Tab.getD i (0, 0)).1 (Sonic.Gen.kPow10M128Tab.getD i (0, 0)).2)
    (m : Nat) (e : Int) (neg : Bool) (b : Nat) (hm : 0 < m) (hm' : m < 2 ^ 64) (he : -307 < e) (he' : e < 288)
    (h : parseFloatingNormalFast e m neg = some b) : round neg m e = some b := by
  rw [nf_eq] at h
  obtain ⟨hlz, hs1, hs1'⟩ := clz_spec m hm hm'
  rw [Nat.mod_eq_of_lt hs1'] at h
  generalize clz64 m = lz at *
  have hi : (e + 348).toNat < 696 := by omega
  have hrow := htab _ hi
  unfold pow10M128 at h
  generalize Sonic.Gen.kPow10M128Tab.getD (e + 348).toNat (0, 0) = row at *
  unfold RowSpec at hrow
  simp only [] at hrow
  have hie : ((e + 348).toNat : Int) - 348 = e := by omega
  rw [hie] at hrow
  obtain ⟨hr1, hr2, hr3, hr4, hr5⟩ := hrow
  have hexp : (217706 * e - 4128768) >>> 16 = log2Pow10 e - 63 := by
    unfold log2Pow10
    rw [Int.shiftRight_eq_div_pow, Int.shiftRight_eq_div_pow]
    omega
  rw [hexp] at h
  have hLb : -1017 ≤ log2Pow10 e ∧ log2Pow10 e ≤ 953 := by
    unfold log2Pow10
    rw [Int.shiftRight_eq_div_pow]
    omega
  generalize log2Pow10 e = L at *
  unfold nfClean at h
  by_cases hex : (nfSel (m * 2 ^ lz) row.2 row.1).2 = true
  · rw [if_pos hex] at h
    have hb := Option.some.inj h
    obtain ⟨hh1, hh2, hh3, hh4⟩ := nfSel_spec (m * 2 ^ lz) row.2 row.1 hs1 hs1' hr2 hr3 hr1 hex
    generalize (nfSel (m * 2 ^ lz) row.2 row.1).1 = hi at *
    have hts := nfTail_spec hi (L - 63 - ↑lz) neg hh1 hh2 (by omega) (by omega)
    rw [hts] at hb
    clear hts
    have hpL : 2 ^ (127 - L).toNat = pL (127 - L) := rfl
    have hpR : 2 ^ (-(127 - L)).toNat = pR (127 - L) := rfl
    rw [hpL, hpR] at hr4 hr5
    obtain ⟨v, hv⟩ : ∃ v, v = row.2 * 2 ^ 64 + row.1 := ⟨_, rfl⟩
    rw [← hv] at hr4 hr5 hh3 hh4
    clear hv
    have hD : 0 < 10 ^ (-e).toNat * pR (127 - L) := Nat.mul_pos (Nat.pow_pos (by omega)) (pR_pos _)
    have hS0 : 0 < m * 2 ^ lz := by omega
    have hVW : m * 2 ^ lz * v * (10 ^ (-e).toNat * pR (127 - L)) ≤ m * 2 ^ lz * (10 ^ e.toNat * pL (127 - L)) := by
      rw [Nat.mul_assoc]; exact Nat.mul_le_mul_left _ hr4
    have hWU : m * 2 ^ lz * (10 ^ e.toNat * pL (127 - L)) <
        (m * 2 ^ lz * v + m * 2 ^ lz) * (10 ^ (-e).toNat * pR (127 - L)) := by
      have := Nat.mul_lt_mul_of_pos_left hr5 hS0
      calc _ < m * 2 ^ lz * ((v + 1) * (10 ^ (-e).toNat * pR (127 - L))) := this
        _ = (m * 2 ^ lz * v + m * 2 ^ lz) * (10 ^ (-e).toNat * pR (127 - L)) := by
          rw [← Nat.mul_assoc, Nat.mul_add, Nat.mul_one]
    obtain ⟨V, hV⟩ : ∃ V, V = m * 2 ^ lz * v := ⟨_, rfl⟩
    rw [← hV] at hh3 hh4 hVW hWU
    clear hV
    by_cases h63 : hi < 2 ^ 63
    · obtain ⟨hlo, hhi⟩ := sandwich_mul (hi / 2 ^ 9 * 2 ^ 137) ((hi / 2 ^ 9 + 1) * 2 ^ 137) _ _ _ _ hD hh3 hh4 hVW hWU
      obtain ⟨t1, t2⟩ := transfer m lz 137 (127 - L) (127 - L + lz - 137) (10 ^ e.toNat) (10 ^ (-e).toNat)
        (hi / 2 ^ 9) (by omega) hlo hhi
      rw [round_of_sandwich neg m e hm hm' he he' _ (hi / 2 ^ 9) (by omega) (by omega) (by omega) (by omega) t1 t2]
      rw [← hb]
      simp only [h63, if_true]
      have hE : (1075 - (127 - L + ↑lz - 137) : Int) = L - 63 - ↑lz + 1148 := by omega
      rw [hE]
    · obtain ⟨hlo, hhi⟩ := sandwich_mul (hi / 2 ^ 10 * 2 ^ 138) ((hi / 2 ^ 10 + 1) * 2 ^ 138) _ _ _ _ hD
        (shift_lo _ _ hh3) (shift_hi _ _ hh4) hVW hWU
      obtain ⟨t1, t2⟩ := transfer m lz 138 (127 - L) (127 - L + lz - 138) (10 ^ e.toNat) (10 ^ (-e).toNat)
        (hi / 2 ^ 10) (by omega) hlo hhi
      rw [round_of_sandwich neg m e hm hm' he he' _ (hi / 2 ^ 10) (by omega) (by omega) (by omega) (by omega) t1 t2]
      rw [← hb]
      simp only [h63, if_false]
      have hE : (1075 - (127 - L + ↑lz - 138) : Int) = L - 63 - ↑lz + 1149 := by omega
      rw [hE]
  · rw [if_neg hex] at h
    cases h



end Sonic.Proofs.NormalFast
