import Sonic.Model.OnDemand
import Sonic.Proofs.OnDemandBits
import Sonic.Proofs.OnDemandBounds
import Sonic.Proofs.OnDemandString

/-!
# `SkipContainer` against the sequential depth counter (C10 component)

`contScan left right s l` is the byte-at-a-time reference: the state is (`ins` = inside a string, `esc` = the
current byte is escaped, `depth` = number of unmatched `left` braces seen outside strings).  An unescaped quote
toggles `ins`; outside strings `left` increments the depth and `right` decrements it, and a `right` at depth 0
closes the container: the result `.inl k` is its index in `l`; `.inr s'` = the bytes end first, in state `s'`.
-/
namespace Sonic.Proofs.OnDemand
open Sonic.Model.OnDemand Sonic.Gen

structure SeqSt where
  ins : Bool
  esc : Bool
  depth : Nat
  deriving Repr, DecidableEq

def contStep (left right : Nat) (s : SeqSt) (c : Nat) : Option SeqSt :=
  if (c == 0x22) && !s.esc then some ⟨!s.ins, (c == 0x5C) && !s.esc, s.depth⟩
  else if s.ins then some ⟨true, (c == 0x5C) && !s.esc, s.depth⟩
  else if c == right then (if s.depth = 0 then none else some ⟨false, (c == 0x5C) && !s.esc, s.depth - 1⟩)
  else if c == left then some ⟨false, (c == 0x5C) && !s.esc, s.depth + 1⟩
  else some ⟨false, (c == 0x5C) && !s.esc, s.depth⟩

def shiftR (n : Nat) : Nat ⊕ SeqSt → Nat ⊕ SeqSt
  | .inl k => .inl (k + n)
  | .inr s => .inr s

def contScan (left right : Nat) : SeqSt → List Nat → Nat ⊕ SeqSt
  | s, [] => .inr s
  | s, c :: r =>
    match contStep left right s c with
    | none => .inl 0
    | some s' => shiftR 1 (contScan left right s' r)

theorem shiftR_shiftR (a b : Nat) (x : Nat ⊕ SeqSt) : shiftR a (shiftR b x) = shiftR (b + a) x := by
  cases x <;> simp [shiftR, Nat.add_assoc]

theorem shiftR_zero (x : Nat ⊕ SeqSt) : shiftR 0 x = x := by cases x <;> simp [shiftR]

theorem contScan_append (left right : Nat) (a b : List Nat) : ∀ (s : SeqSt),
    contScan left right s (a ++ b) = match contScan left right s a with
      | .inl k => .inl k
      | .inr s' => shiftR a.length (contScan left right s' b) := by
  induction a with
  | nil => intro s; simp [contScan, shiftR_zero]
  | cons c r ih =>
    intro s
    simp only [List.cons_append, contScan]
    cases contStep left right s c with
    | none => rfl
    | some s' =>
      simp only
      rw [ih s']
      cases contScan left right s' r with
      | inl k => rfl
      | inr s'' =>
        show shiftR 1 (shiftR r.length _) = shiftR (r.length + 1) _
        rw [shiftR_shiftR]

/-! ## the `while (rbrace > 0)` loop is lane-recursive -/

/-- lane-recursive form of the loop: `(lane at which it closed, rbrace_num)` -/
def braceSeq : Nat → Nat → Mask → Mask → Option Nat × Nat
  | _, rnum, [], _ => (none, rnum)
  | _, rnum, _ :: _, [] => (none, rnum)
  | last, rnum, r :: R, l :: L =>
    if r then
      if last < rnum + 1 then (some 0, rnum + 1)
      else ((braceSeq last (rnum + 1) R L).1.map (· + 1), (braceSeq last (rnum + 1) R L).2)
    else ((braceSeq (last + l.toNat) rnum R L).1.map (· + 1), (braceSeq (last + l.toNat) rnum R L).2)

/-- forget the (unused) `lbrace_num` component of the loop's result -/
def dropL (r : M (Option Nat × Nat × Nat)) : M (Option Nat × Nat) :=
  match r with
  | .error e => .error e
  | .ok (a, b, _) => .ok (a, b)

def shiftO (r : M (Option Nat × Nat)) : M (Option Nat × Nat) :=
  match r with
  | .error e => .error e
  | .ok (a, b) => .ok (a.map (· + 1), b)

/-- a leading clear lane of `rbrace` only shifts the result and adds the lane of `lbrace` to the base count -/
theorem rbraceLoop_false (l : Bool) (L R : Mask) : ∀ (f last rnum lnum lnum' : Nat),
    dropL (rbraceLoop (l :: L) last f (false :: R) rnum lnum) =
      shiftO (dropL (rbraceLoop L (last + l.toNat) f R rnum lnum')) := by
  intro f
  induction f generalizing R with
  | zero => intro _ _ _ _; rfl
  | succ f ih =>
    intro last rnum lnum lnum'
    unfold rbraceLoop
    rw [nonzero_cons]
    simp only [Bool.false_or]
    by_cases hn : nonzero R = true
    · rw [if_pos hn, if_pos hn]
      have e1 : popcount (mand (decr (false :: R)) (l :: L)) = l.toNat + popcount (mand (decr R) L) := by
        cases l <;> simp [decr, mand, popcount]; omega
      have e2 : mand (false :: R) (decr (false :: R)) = false :: mand R (decr R) := by
        simp [decr, mand]
      simp only [e1, e2, tz_cons_false, ← Nat.add_assoc]
      split
      · rfl
      · exact ih (mand R (decr R)) last (rnum + 1) _ _
    · rw [if_neg hn, if_neg hn]; rfl

theorem mand_disjoint_zero : ∀ (R L : Mask), (∀ i : Nat, R[i]? = some true → L[i]? ≠ some true) →
    popcount (mand R L) = 0
  | [], _, _ => by simp [mand, popcount]
  | _ :: _, [], _ => by simp [mand, popcount]
  | r :: R, l :: L, h => by
    have h0 := h 0
    have ih := mand_disjoint_zero R L (fun i hi => by have := h (i + 1); simpa using this hi)
    simp only [mand, List.zipWith_cons_cons, popcount] at ih ⊢
    cases r <;> cases l <;> simp_all

theorem rbraceLoop_seq : ∀ (R L : Mask) (f last rnum lnum : Nat), popcount R < f →
    (∀ i : Nat, R[i]? = some true → L[i]? ≠ some true) → R.length = L.length →
    dropL (rbraceLoop L last f R rnum lnum) = .ok (braceSeq last rnum R L) := by
  intro R
  induction R with
  | nil =>
    intro L f last rnum lnum hf _ _
    obtain ⟨f, rfl⟩ : ∃ f', f = f' + 1 := ⟨f - 1, by omega⟩
    unfold rbraceLoop
    simp [nonzero, dropL, braceSeq, pure, Except.pure]
  | cons r R ih =>
    intro L f last rnum lnum hf hdis hlen
    cases L with
    | nil => simp at hlen
    | cons l L =>
      have hdis' : ∀ i : Nat, R[i]? = some true → L[i]? ≠ some true := fun i hi => by
        have := hdis (i + 1); simpa using this hi
      have hlen' : R.length = L.length := by simpa using hlen
      cases r with
      | false =>
        rw [rbraceLoop_false l L R f last rnum lnum lnum, ih L f (last + l.toNat) rnum lnum
          (by simpa [popcount, List.count_cons] using hf) hdis' hlen']
        simp [shiftO, braceSeq]
      | true =>
        have hl : l = false := by
          have := hdis 0 (by simp)
          cases l with
          | false => rfl
          | true => simp at this
        subst hl
        obtain ⟨f, rfl⟩ : ∃ f', f = f' + 1 := ⟨f - 1, by omega⟩
        unfold rbraceLoop
        rw [nonzero_cons]
        have hz : popcount (mand (decr (true :: R)) (false :: L)) = 0 := by
          have := mand_disjoint_zero R L hdis'
          simpa [decr, mand, popcount, List.count_cons] using this
        have hR : mand (true :: R) (decr (true :: R)) = false :: R := by
          simp only [decr, mand, List.zipWith_cons_cons, Bool.and_false]
          have := mand_self R; unfold mand at this; rw [this]
        simp only [Bool.true_or, if_true, braceSeq, Bool.toNat_false, Nat.add_zero, hz, hR, tz_cons_true]
        by_cases hc : last < rnum + 1
        · rw [if_pos hc, if_pos hc]; rfl
        · rw [if_neg hc, if_neg hc]
          rw [rbraceLoop_false false L R f last (rnum + 1) last last,
            ih L f (last + false.toNat) (rnum + 1) last
              (by simp only [popcount, List.count_cons] at hf; simp only [popcount]; simpa using hf) hdis' hlen']
          simp [shiftO]

/-! ## one 64-byte block -/

/-- last lane (or the default for the empty mask) -/
def lastD : Mask → Bool → Bool
  | [], d => d
  | x :: r, _ => lastD r x

theorem lastD_get : ∀ (m : Mask) (d : Bool) (n : Nat), m.length = n + 1 → m[n]?.getD false = lastD m d := by
  intro m
  induction m with
  | nil => intro d n h; simp at h
  | cons x r ih =>
    intro d n h
    cases n with
    | zero =>
      have : r = [] := by simpa using h
      subst this; simp [lastD]
    | succ n =>
      simp only [List.getElem?_cons_succ, lastD]
      exact ih x n (by simpa using h)

theorem getEscapedFrom_nobs : ∀ (bs : Mask) (pe : Bool), nonzero bs = false → bs ≠ [] →
    getEscapedFrom pe bs = ((List.replicate bs.length false).set 0 pe, false) := by
  intro bs
  induction bs with
  | nil => intro _ _ h; exact absurd rfl h
  | cons b r ih =>
    intro pe hn _
    rw [nonzero_cons] at hn
    simp only [Bool.or_eq_false_iff] at hn
    obtain ⟨hb, hr⟩ := hn
    subst hb
    simp only [getEscapedFrom, Bool.false_and, List.length_cons, List.replicate_succ, List.set_cons_zero]
    cases r with
    | nil => simp [getEscapedFrom]
    | cons b2 r2 =>
      rw [ih false hr (by simp)]
      simp [List.replicate_succ]

theorem mxor_prefixXor : ∀ (q : Mask) (a pi : Bool),
    mxor (prefixXorFrom a q) (List.replicate q.length pi) = prefixXorFrom (a ^^ pi) q := by
  intro q
  induction q with
  | nil => intro _ _; rfl
  | cons b r ih =>
    intro a pi
    simp only [prefixXorFrom, List.length_cons, List.replicate_succ, mxor, List.zipWith_cons_cons]
    have := ih (a ^^ b) pi
    simp only [mxor] at this
    rw [this]
    have e : ((a ^^ b) ^^ pi) = ((a ^^ pi) ^^ b) := by cases a <;> cases b <;> cases pi <;> rfl
    rw [e]

/-- `GetStringBits` in lane-recursive form (both branches of `if (bs_bits)`) -/
theorem getStringBits_eq (v : List Nat) (pi pe : Bool) (hv : v ≠ []) :
    getStringBits v pi pe =
      (prefixXorFrom pi (mandn (eqMask v 0x22) (getEscapedFrom pe (eqMask v 0x5C)).1),
       (prefixXorFrom pi (mandn (eqMask v 0x22) (getEscapedFrom pe (eqMask v 0x5C)).1))[63]?.getD false,
       (getEscapedFrom pe (eqMask v 0x5C)).2) := by
  unfold getStringBits
  have hE : (if nonzero (eqMask v 0x5C) = true then getEscaped pe (eqMask v 0x5C)
      else ((List.replicate v.length false).set 0 pe, false)) = getEscapedFrom pe (eqMask v 0x5C) := by
    split
    · rfl
    · rename_i hn
      rw [getEscapedFrom_nobs _ pe (by simpa using hn) (by simpa [eqMask] using hv), eqMask_length]
  simp only [hE]
  have hx : mxor (prefixXor (mandn (eqMask v 0x22) (getEscapedFrom pe (eqMask v 0x5C)).1))
      (List.replicate v.length pi) =
      prefixXorFrom pi (mandn (eqMask v 0x22) (getEscapedFrom pe (eqMask v 0x5C)).1) := by
    have hl : (mandn (eqMask v 0x22) (getEscapedFrom pe (eqMask v 0x5C)).1).length = v.length := by simp
    have := mxor_prefixXor (mandn (eqMask v 0x22) (getEscapedFrom pe (eqMask v 0x5C)).1) false pi
    rw [hl] at this
    simpa [prefixXor] using this
  rw [hx]

/-- the lane masks of a block against the sequential scan -/
theorem block_cont (left right : Nat) (hlr : left ≠ right) (hrq : right ≠ 0x22) (hlq : left ≠ 0x22) :
    ∀ (v : List Nat) (pi pe : Bool) (last rnum : Nat), rnum ≤ last →
    let E := getEscapedFrom pe (eqMask v 0x5C)
    let ins := prefixXorFrom pi (mandn (eqMask v 0x22) E.1)
    let R := mandn (eqMask v right) ins
    let L := mandn (eqMask v left) ins
    match contScan left right ⟨pi, pe, last - rnum⟩ v with
    | .inl k => (braceSeq last rnum R L).1 = some k
    | .inr s' => (braceSeq last rnum R L).1 = none ∧ s'.ins = lastD ins pi ∧ s'.esc = E.2 ∧
        (braceSeq last rnum R L).2 ≤ last + popcount L ∧
        s'.depth = last + popcount L - (braceSeq last rnum R L).2 := by
  intro v
  induction v with
  | nil =>
    intro pi pe last rnum h
    simp [contScan, eqMask, getEscapedFrom, mandn, prefixXorFrom, braceSeq, lastD, popcount]
    omega
  | cons c r ih =>
    intro pi pe last rnum hle
    simp only [eqMask, List.map_cons, getEscapedFrom, mandn, List.zipWith_cons_cons, prefixXorFrom, contScan,
      contStep]
    by_cases hq : ((c == 0x22) && !pe) = true
    · -- an unescaped quote
      have hc : c = 0x22 := by
        simp only [Bool.and_eq_true, beq_iff_eq] at hq; exact hq.1
      have hcr : (c == right) = false := by rw [hc]; simpa using fun h => hrq h.symm
      have hcl : (c == left) = false := by rw [hc]; simpa using fun h => hlq h.symm
      rw [if_pos hq, hq, hcr, hcl]
      simp only [Bool.false_and, braceSeq, Bool.false_eq_true, if_false, Bool.toNat_false, Nat.add_zero,
        Bool.xor_true, lastD]
      have := ih (!pi) ((c == 0x5C) && !pe) last rnum hle
      simp only [eqMask, mandn] at this
      revert this
      cases contScan left right ⟨!pi, (c == 0x5C) && !pe, last - rnum⟩ r with
      | inl k => intro h; simp only [shiftR]; rw [h]; rfl
      | inr s' =>
        intro h; simp only [shiftR]
        obtain ⟨h1, h2, h3, h4, h5⟩ := h
        refine ⟨by rw [h1]; rfl, h2, h3, ?_, ?_⟩
        · simpa [popcount, List.count_cons] using h4
        · simpa [popcount, List.count_cons] using h5
    · rw [if_neg hq]
      have hq' : ((c == 0x22) && !pe) = false := by simpa using hq
      rw [hq']
      simp only [Bool.xor_false, lastD]
      cases pi with
      | true =>
        simp only [if_true, Bool.not_true, Bool.and_false, braceSeq, Bool.false_eq_true, if_false,
          Bool.toNat_false, Nat.add_zero]
        have := ih true ((c == 0x5C) && !pe) last rnum hle
        simp only [eqMask, mandn] at this
        revert this
        cases contScan left right ⟨true, (c == 0x5C) && !pe, last - rnum⟩ r with
        | inl k => intro h; simp only [shiftR]; rw [h]; rfl
        | inr s' =>
          intro h; simp only [shiftR]
          obtain ⟨h1, h2, h3, h4, h5⟩ := h
          refine ⟨by rw [h1]; rfl, h2, h3, ?_, ?_⟩
          · simpa [popcount, List.count_cons] using h4
          · simpa [popcount, List.count_cons] using h5
      | false =>
        simp only [Bool.false_eq_true, if_false, Bool.not_false, Bool.and_true]
        by_cases hr : (c == right) = true
        · have hcl : (c == left) = false := by
            simp only [beq_iff_eq] at hr; rw [hr]; simpa using fun h => hlr h.symm
          rw [if_pos hr, hr, hcl]
          simp only [braceSeq, if_true]
          by_cases hd : last - rnum = 0
          · rw [if_pos hd, if_pos (by omega)]
          · simp only [if_neg hd, if_neg (show ¬ last < rnum + 1 by omega)]
            have := ih false ((c == 0x5C) && !pe) last (rnum + 1) (by omega)
            simp only [eqMask, mandn] at this
            rw [show last - (rnum + 1) = last - rnum - 1 by omega] at this
            revert this
            cases contScan left right ⟨false, (c == 0x5C) && !pe, last - rnum - 1⟩ r with
            | inl k => intro h; simp only [shiftR]; rw [h]; rfl
            | inr s' =>
              intro h; simp only [shiftR]
              obtain ⟨h1, h2, h3, h4, h5⟩ := h
              refine ⟨by rw [h1]; rfl, h2, h3, ?_, ?_⟩
              · simpa [popcount, List.count_cons] using h4
              · simpa [popcount, List.count_cons] using h5
        · rw [if_neg hr]
          have hr' : (c == right) = false := by simpa using hr
          rw [hr']
          by_cases hl : (c == left) = true
          · rw [if_pos hl, hl]
            simp only [braceSeq, Bool.false_eq_true, if_false, Bool.toNat_true]
            have := ih false ((c == 0x5C) && !pe) (last + 1) rnum (by omega)
            simp only [eqMask, mandn] at this
            rw [show last + 1 - rnum = last - rnum + 1 by omega] at this
            revert this
            cases contScan left right ⟨false, (c == 0x5C) && !pe, last - rnum + 1⟩ r with
            | inl k => intro h; simp only [shiftR]; rw [h]; rfl
            | inr s' =>
              intro h; simp only [shiftR]
              obtain ⟨h1, h2, h3, h4, h5⟩ := h
              refine ⟨by rw [h1]; rfl, h2, h3, ?_, ?_⟩
              · simp only [popcount, List.count_cons] at h4 ⊢; simp at h4 ⊢; omega
              · simp only [popcount, List.count_cons] at h5 ⊢; simp at h5 ⊢; omega
          · rw [if_neg hl]
            have hl' : (c == left) = false := by simpa using hl
            rw [hl']
            simp only [braceSeq, Bool.false_eq_true, if_false, Bool.toNat_false, Nat.add_zero]
            have := ih false ((c == 0x5C) && !pe) last rnum hle
            simp only [eqMask, mandn] at this
            revert this
            cases contScan left right ⟨false, (c == 0x5C) && !pe, last - rnum⟩ r with
            | inl k => intro h; simp only [shiftR]; rw [h]; rfl
            | inr s' =>
              intro h; simp only [shiftR]
              obtain ⟨h1, h2, h3, h4, h5⟩ := h
              refine ⟨by rw [h1]; rfl, h2, h3, ?_, ?_⟩
              · simpa [popcount, List.count_cons] using h4
              · simpa [popcount, List.count_cons] using h5

theorem lastD_length64 (m : Mask) (d : Bool) (h : m.length = 64) : m[63]?.getD false = lastD m d :=
  lastD_get m d 63 h

/-- `SKIP_LOOP()` on a 64-byte block against the sequential scan over the same bytes -/
theorem skipLoop_seq (left right : Nat) (hlr : left ≠ right) (hrq : right ≠ 0x22) (hlq : left ≠ 0x22)
    (v : List Nat) (hv : v.length = 64) (st : CState) (hst : st.rbraceNum ≤ st.lbraceNum) :
    match contScan left right ⟨st.prevInstring, st.prevEscaped, st.lbraceNum - st.rbraceNum⟩ v with
    | .inl k => skipLoop v st left right = .ok (.inl k)
    | .inr s' => ∃ st', skipLoop v st left right = .ok (.inr st') ∧ st'.prevInstring = s'.ins ∧
        st'.prevEscaped = s'.esc ∧ st'.rbraceNum ≤ st'.lbraceNum ∧ st'.lbraceNum - st'.rbraceNum = s'.depth := by
  have hne : v ≠ [] := by intro h; rw [h] at hv; simp at hv
  unfold skipLoop
  rw [getStringBits_eq v _ _ hne]
  simp only
  generalize hE : getEscapedFrom st.prevEscaped (eqMask v 0x5C) = E
  generalize hins : prefixXorFrom st.prevInstring (mandn (eqMask v 0x22) E.1) = ins
  have hil : ins.length = 64 := by rw [← hins, ← hE]; simp [hv]
  have hdis : ∀ i : Nat, (mandn (eqMask v right) ins)[i]? = some true → (mandn (eqMask v left) ins)[i]? ≠ some true := by
    intro i h1 h2
    have a := eqMask_get (mandn_get h1).1
    have b := eqMask_get (mandn_get h2).1
    rw [a] at b; injection b with b; exact hlr b.symm
  have hseq := rbraceLoop_seq (mandn (eqMask v right) ins) (mandn (eqMask v left) ins) (v.length + 1)
    st.lbraceNum st.rbraceNum st.lbraceNum
    (by have := popcount_le_length (mandn (eqMask v right) ins); simp at this; omega) hdis (by simp)
  have hblk := block_cont left right hlr hrq hlq v st.prevInstring st.prevEscaped st.lbraceNum st.rbraceNum hst
  simp only at hblk
  rw [hE, hins] at hblk
  cases hr : rbraceLoop (mandn (eqMask v left) ins) st.lbraceNum (v.length + 1) (mandn (eqMask v right) ins)
      st.rbraceNum st.lbraceNum with
  | error e => rw [hr] at hseq; cases hseq
  | ok x =>
    obtain ⟨a, b, c⟩ := x
    rw [hr] at hseq
    simp only [dropL, Except.ok.injEq] at hseq
    cases hcs : contScan left right ⟨st.prevInstring, st.prevEscaped, st.lbraceNum - st.rbraceNum⟩ v with
    | inl k =>
      rw [hcs] at hblk
      simp only at hblk
      rw [← hseq] at hblk
      simp only at hblk
      subst hblk
      rfl
    | inr s' =>
      rw [hcs] at hblk
      simp only at hblk
      rw [← hseq] at hblk
      obtain ⟨h1, h2, h3, h4, h5⟩ := hblk
      simp only at h1 h4 h5
      subst h1
      refine ⟨_, rfl, ?_, ?_, h4, h5.symm⟩
      · simp only; rw [h2]; exact lastD_length64 ins _ hil
      · simp only; rw [h3]

theorem contScan_zeros (left right : Nat) (hr0 : right ≠ 0) : ∀ (n : Nat) (s : SeqSt),
    ∃ s', contScan left right s (List.replicate n 0) = .inr s' := by
  intro n
  induction n with
  | zero => intro s; exact ⟨s, rfl⟩
  | succ n ih =>
    intro s
    have h1 : ((0 : Nat) == 0x22) = false := by decide
    have h2 : ((0 : Nat) == right) = false := by simpa using fun h => hr0 h.symm
    have hstep : ∃ s2, contStep left right s 0 = some s2 := by
      unfold contStep
      simp only [h1, h2, Bool.false_and, Bool.false_eq_true, if_false]
      split
      · exact ⟨_, rfl⟩
      · split <;> exact ⟨_, rfl⟩
    obtain ⟨s2, e2⟩ := hstep
    obtain ⟨s', e⟩ := ih s2
    simp only [List.replicate_succ, contScan, e2, e]
    exact ⟨s', rfl⟩

theorem skipContainerLoop_seq (d : List Nat) (left right : Nat) (hlr : left ≠ right) (hrq : right ≠ 0x22)
    (hlq : left ≠ 0x22) (hr0 : right ≠ 0) :
    ∀ (f : Nat) (st : CState) (pos : Nat), pos ≤ d.length → d.length - pos < f → st.rbraceNum ≤ st.lbraceNum →
    match contScan left right ⟨st.prevInstring, st.prevEscaped, st.lbraceNum - st.rbraceNum⟩ (d.drop pos) with
    | .inl k => skipContainerLoop d left right f st pos = .ok (true, pos + k + 1)
    | .inr _ => ∃ p', skipContainerLoop d left right f st pos = .ok (false, p') := by
  intro f
  induction f with
  | zero => intro _ pos _ h; omega
  | succ f ih =>
    intro st pos hle hf hst
    unfold skipContainerLoop
    by_cases hp : pos + 64 ≤ d.length
    · rw [if_pos hp, rdVec_ok hp]
      simp only [bind, Except.bind, pure, Except.pure]
      have hsplit : d.drop pos = (d.drop pos).take 64 ++ d.drop (pos + 64) := by
        rw [← List.drop_drop, List.take_append_drop]
      have hvl := vec_length hp
      generalize hv : (d.drop pos).take 64 = v at hsplit hvl
      rw [hsplit, contScan_append]
      have hblk := skipLoop_seq left right hlr hrq hlq v hvl st hst
      cases hcs : contScan left right ⟨st.prevInstring, st.prevEscaped, st.lbraceNum - st.rbraceNum⟩ v with
      | inl k =>
        rw [hcs] at hblk
        simp only at hblk ⊢
        rw [hblk]
      | inr s' =>
        rw [hcs] at hblk
        obtain ⟨st', e, h1, h2, h3, h4⟩ := hblk
        simp only
        rw [e]
        simp only
        have := ih st' (pos + 64) hp (by omega) h3
        rw [h1, h2, h4] at this
        rw [hvl]
        revert this
        cases contScan left right ⟨s'.ins, s'.esc, s'.depth⟩ (d.drop (pos + 64)) with
        | inl k => intro h; simp only [shiftR]; rw [h]; congr 2; omega
        | inr s2 => intro h; simp only [shiftR]; exact h
    · rw [if_neg hp]
      have hv : pos + (d.length - pos) ≤ d.length := by omega
      simp only [bind, Except.bind, pure, Except.pure, throw, throwThe, MonadExceptOf.throw]
      rw [if_neg (by omega), rdVec_ok hv]
      simp only
      have htake : (d.drop pos).take (d.length - pos) = d.drop pos := by
        rw [List.take_of_length_le]; simp
      rw [htake]
      have hbl : (d.drop pos ++ List.replicate (64 - (d.drop pos).length) 0).length = 64 := by
        simp; omega
      have hblk := skipLoop_seq left right hlr hrq hlq _ hbl st hst
      rw [contScan_append] at hblk
      cases hcs : contScan left right ⟨st.prevInstring, st.prevEscaped, st.lbraceNum - st.rbraceNum⟩ (d.drop pos) with
      | inl k =>
        rw [hcs] at hblk
        simp only at hblk ⊢
        rw [hblk]
      | inr s' =>
        rw [hcs] at hblk
        simp only at hblk ⊢
        obtain ⟨s2, e2⟩ := contScan_zeros left right hr0 (64 - (d.drop pos).length) s'
        rw [e2] at hblk
        simp only [shiftR] at hblk
        obtain ⟨st', e, _⟩ := hblk
        rw [e]
        exact ⟨_, rfl⟩

/-- **`SkipContainer` = the sequential depth counter.**  Started just after the opening brace: it returns `true`
    exactly when the sequential scan finds the closing brace (at index `k` of the remaining bytes), and `pos` is then
    just after it; otherwise it returns `false`. -/
theorem skipContainer_seq (d : List Nat) (left right : Nat) (hlr : left ≠ right) (hrq : right ≠ 0x22)
    (hlq : left ≠ 0x22) (hr0 : right ≠ 0) (pos : Nat) (hle : pos ≤ d.length) :
    match contScan left right ⟨false, false, 0⟩ (d.drop pos) with
    | .inl k => skipContainer d left right pos = .ok (true, pos + k + 1)
    | .inr _ => ∃ p', skipContainer d left right pos = .ok (false, p') :=
  skipContainerLoop_seq d left right hlr hrq hlq hr0 _ ⟨false, false, 0, 0⟩ pos hle (by omega) (Nat.le_refl _)

end Sonic.Proofs.OnDemand
