import Sonic.Spec.Merge
import Sonic.Proofs.MergeSchema

/-!
# Helper lemmas for C20: the spec `Spec.Merge.update`
-/
namespace Sonic.Proofs.MergeUpdate
open Sonic.Spec Sonic.Spec.Merge Sonic.Proofs.MergeSchema

theorem keys_append (a b : Members) : keys (a ++ b) = keys a ++ keys b := by simp [keys]

theorem hasKey_iff_mem (k : List Nat) (kvs : Members) : hasKey k kvs = true ↔ k ∈ keys kvs := by
  simp [hasKey]

theorem update_of_not_obj_left {t : JVal} (s : JVal) (h : isNonEmptyObj t = false) : update t s = s := by
  cases t with
  | obj kvs => cases kvs with
    | nil => simp [update]
    | cons m ms => simp [isNonEmptyObj] at h
  | _ => simp [update]

theorem update_of_not_obj_right (t : JVal) {s : JVal} (h : ∀ kvs, s ≠ .obj kvs) : update t s = s :=
  update.eq_2 t s (fun _ _ skvs _ hs => h skvs hs)

/-- one step of `updateMembers` -/
def stepMembers (tkvs : Members) (k : List Nat) (v : JVal) : Members :=
  if hasKey k tkvs then modifyFirst k (fun tv => update tv v) tkvs else tkvs ++ [(k, v)]

theorem updateMembers_cons (tkvs : Members) (k : List Nat) (v : JVal) (rest : Members) :
    updateMembers tkvs ((k, v) :: rest) = updateMembers (stepMembers tkvs k v) rest := by
  rw [updateMembers]; rfl

/-- the target's keys stay, in order, as a prefix; every source key is present afterwards -/
theorem keys_updateMembers : ∀ (skvs tkvs : Members),
    ∃ extra, keys (updateMembers tkvs skvs) = keys tkvs ++ extra ∧
      ∀ k, k ∈ keys skvs → k ∈ keys tkvs ++ extra
  | [], tkvs => ⟨[], by simp [updateMembers], by simp [keys]⟩
  | (k, v) :: rest, tkvs => by
    rw [updateMembers_cons]
    obtain ⟨extra, h1, h2⟩ := keys_updateMembers rest (stepMembers tkvs k v)
    unfold stepMembers at h1 h2
    by_cases hk : hasKey k tkvs = true
    · simp only [hk, if_true, keys_modifyFirst] at h1 h2
      refine ⟨extra, by simpa [stepMembers, hk] using h1, ?_⟩
      intro k' hk'
      rcases List.mem_cons.mp hk' with e | hk''
      · subst e; exact List.mem_append_left _ ((hasKey_iff_mem _ _).mp hk)
      · exact h2 k' hk''
    · simp only [hk, if_false, keys_append, Bool.false_eq_true] at h1 h2
      refine ⟨keys [(k, v)] ++ extra, by simpa [stepMembers, hk, List.append_assoc] using h1, ?_⟩
      intro k' hk'
      rcases List.mem_cons.mp hk' with e | hk''
      · subst e; simp [keys]
      · simpa [List.append_assoc] using h2 k' hk''

theorem getElem?_modifyFirst_ne {k k' : List Nat} (f : JVal → JVal) (v : JVal) (h : k ≠ k') :
    ∀ (kvs : Members) (i : Nat), kvs[i]? = some (k, v) → (modifyFirst k' f kvs)[i]? = some (k, v)
  | [], i, hi => by simp at hi
  | (k₀, v₀) :: rest, i, hi => by
    by_cases e : k₀ = k'
    · simp only [modifyFirst, e, if_true]
      cases i with
      | zero =>
        simp only [List.getElem?_cons_zero, Option.some.injEq, Prod.mk.injEq] at hi
        exact absurd (hi.1.symm.trans e) h
      | succ j => simpa using hi
    · simp only [modifyFirst, e, if_false]
      cases i with
      | zero => simpa using hi
      | succ j =>
        simp only [List.getElem?_cons_succ] at hi ⊢
        exact getElem?_modifyFirst_ne f v h rest j hi

/-- a target member whose key the source does not mention keeps its position and value -/
theorem updateMembers_untouched {k : List Nat} {v : JVal} : ∀ (skvs tkvs : Members) (i : Nat),
    tkvs[i]? = some (k, v) → hasKey k skvs = false → (updateMembers tkvs skvs)[i]? = some (k, v)
  | [], tkvs, i, hi, _ => by simpa [updateMembers] using hi
  | (k', v') :: rest, tkvs, i, hi, hk => by
    rw [hasKey_cons] at hk
    simp only [Bool.or_eq_false_iff, beq_eq_false_iff_ne, ne_eq] at hk
    rw [updateMembers_cons]
    apply updateMembers_untouched rest _ i _ hk.2
    unfold stepMembers
    split
    · exact getElem?_modifyFirst_ne _ v hk.1 tkvs i hi
    · have : i < tkvs.length := by
        rcases Nat.lt_or_ge i tkvs.length with h | h
        · exact h
        · simp [List.getElem?_eq_none h] at hi
      rw [List.getElem?_append_left this]; exact hi

theorem noDupMembers_append (a b : Members) :
    noDupMembers (a ++ b) = (noDupMembers a && noDupMembers b) := by
  induction a with
  | nil => simp [noDupMembers]
  | cons m ms ih =>
    obtain ⟨k, v⟩ := m
    simp only [List.cons_append, noDupMembers, ih, Bool.and_assoc]

theorem noDupMembers_modifyFirst (k : List Nat) (f : JVal → JVal)
    (hf : ∀ v, noDupKeys v = true → noDupKeys (f v) = true) :
    ∀ kvs : Members, noDupMembers kvs = true → noDupMembers (modifyFirst k f kvs) = true
  | [], _ => rfl
  | (k', v) :: rest, h => by
    simp only [noDupMembers, Bool.and_eq_true] at h
    by_cases e : k' = k
    · simp only [modifyFirst, e, if_true, noDupMembers, Bool.and_eq_true]
      exact ⟨hf v h.1, h.2⟩
    · simp only [modifyFirst, e, if_false, noDupMembers, Bool.and_eq_true]
      exact ⟨h.1, noDupMembers_modifyFirst k f hf rest h.2⟩

theorem distinct_append_single (ks : List (List Nat)) (k : List Nat) (hd : distinct ks = true)
    (hk : ks.contains k = false) : distinct (ks ++ [k]) = true := by
  induction ks with
  | nil => simp [distinct]
  | cons a as ih =>
    rw [distinct_cons] at hd
    simp only [Bool.and_eq_true, Bool.not_eq_true', List.contains_eq_mem, decide_eq_false_iff_not] at hd
    simp only [List.contains_cons, Bool.or_eq_false_iff, beq_eq_false_iff_ne, ne_eq] at hk
    simp only [List.cons_append, distinct_cons, Bool.and_eq_true, Bool.not_eq_true', List.contains_eq_mem,
      decide_eq_false_iff_not, List.mem_append, List.mem_singleton, not_or]
    exact ⟨⟨hd.1, fun e => hk.1 e.symm⟩, ih hd.2 hk.2⟩

mutual
/-- merging duplicate-free values gives a duplicate-free value -/
theorem noDup_update : ∀ (s t : JVal), noDupKeys t = true → noDupKeys s = true → noDupKeys (update t s) = true
  | .null, t, _, hs => by rw [update_of_not_obj_right t (by intro kvs; simp)]; exact hs
  | .bool _, t, _, hs => by rw [update_of_not_obj_right t (by intro kvs; simp)]; exact hs
  | .num _, t, _, hs => by rw [update_of_not_obj_right t (by intro kvs; simp)]; exact hs
  | .str _, t, _, hs => by rw [update_of_not_obj_right t (by intro kvs; simp)]; exact hs
  | .arr _, t, _, hs => by rw [update_of_not_obj_right t (by intro kvs; simp)]; exact hs
  | .obj skvs, t, ht, hs => by
    by_cases hn : isNonEmptyObj t = true
    · cases t with
      | obj tkvs =>
        cases tkvs with
        | nil => simp [isNonEmptyObj] at hn
        | cons m ms =>
          simp only [noDupKeys, Bool.and_eq_true] at ht hs
          rw [update]
          simp only [noDupKeys, Bool.and_eq_true]
          exact noDup_updateMembers skvs (m :: ms) ht.1 ht.2 hs.2
      | _ => simp [isNonEmptyObj] at hn
    · have hn' : isNonEmptyObj t = false := by simpa using hn
      rw [update_of_not_obj_left _ hn']; exact hs
theorem noDup_updateMembers : ∀ (skvs tkvs : Members), distinct (keys tkvs) = true →
    noDupMembers tkvs = true → noDupMembers skvs = true →
    distinct (keys (updateMembers tkvs skvs)) = true ∧ noDupMembers (updateMembers tkvs skvs) = true
  | [], tkvs, hd, hm, _ => by simpa [updateMembers] using ⟨hd, hm⟩
  | (k, v) :: rest, tkvs, hd, hm, hs => by
    simp only [noDupMembers, Bool.and_eq_true] at hs
    rw [updateMembers_cons]
    unfold stepMembers
    by_cases hk : hasKey k tkvs = true
    · simp only [hk, if_true]
      exact noDup_updateMembers rest _ (by rw [keys_modifyFirst]; exact hd)
        (noDupMembers_modifyFirst k _ (fun tv htv => noDup_update v tv htv hs.1) tkvs hm) hs.2
    · have hk' : hasKey k tkvs = false := by simpa using hk
      simp only [hk', Bool.false_eq_true, if_false]
      refine noDup_updateMembers rest _ ?_ ?_ hs.2
      · rw [keys_append]; exact distinct_append_single _ k hd hk'
      · rw [noDupMembers_append, hm]; simp [noDupMembers, hs.1]
end

end Sonic.Proofs.MergeUpdate
