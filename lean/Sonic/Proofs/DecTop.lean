import Sonic.Proofs.DecMain

/-!
# `AtofNative` returns the correctly rounded double
-/
namespace Sonic.Proofs.Dec

open Sonic.Model.BigDecimal
open Sonic.Spec.Number
open Sonic.Proofs.Number (allDigits fracLen)
open Sonic.Spec.Rne (roundRat floorLog2Rat)
open Sonic.Proofs.Rne (dl round_eq)

theorem zero_case (d0 : Decimal) (t : Token) (h : SetOutB d0 t) (hM : t.mantissa = 0) :
    decimalToF64 d0 = (specBits t.neg (Sonic.Spec.Rne.round t.neg t.mantissa t.exponent), false) := by
  have hS : (strip (allDigits t)).length = 0 := by
    by_contra hne
    have := h.mlo (Nat.pos_of_ne_zero hne)
    rw [hM] at this
    have := Nat.pow_pos (n := (strip (allDigits t)).length - 1) (show 0 < 10 by omega)
    omega
  have hnd : d0.nd = 0 := by rw [h.nd, hS]; rfl
  unfold decimalToF64
  rw [if_pos hnd, hM, h.wf.nofault, assemble_eq d0 0 (-1023) 0 (by omega) (by norm_num), h.neg]
  unfold Sonic.Spec.Rne.round specBits sgnBit
  simp

theorem nonzero_case (d0 : Decimal) (t : Token) (h : SetOut d0 t) (hM : 0 < t.mantissa) :
    decimalToF64 d0 = (specBits t.neg (Sonic.Spec.Rne.round t.neg t.mantissa t.exponent), false) := by
  obtain ⟨hpos, hstep⟩ := setout_step d0 t h hM
  obtain ⟨p1, p2, p3, p4⟩ := pow_facts
  -- the exact value as a fraction
  generalize hnumdef : t.mantissa * 10 ^ t.exponent.toNat = num
  generalize hdendef : 10 ^ (-t.exponent).toNat = den
  have hnum : 0 < num := by rw [← hnumdef]; exact Nat.mul_pos hM (Nat.pow_pos (by omega))
  have hden : 0 < den := by rw [← hdendef]; exact Nat.pow_pos (by omega)
  have hxdef : tokVal t = (num : ℚ) / den := by rw [tokVal_frac, hnumdef, hdendef]
  generalize tokVal t = x at *
  have hnumq : (0 : ℚ) < num := by exact_mod_cast hnum
  have hdenq : (0 : ℚ) < den := by exact_mod_cast hden
  have hx : 0 < x := by rw [hxdef]; positivity
  -- the reference
  have hSpos : 0 < (strip (allDigits t)).length := by
    rcases Nat.eq_zero_or_pos (strip (allDigits t)).length with h0 | h0
    · have := h.mhi; rw [h0] at this; simp at this; omega
    · exact h0
  have hdl : dl t.mantissa = (strip (allDigits t)).length := dl_eq _ _ hSpos (h.mlo hSpos) h.mhi
  have hdpe : t.exponent + (dl t.mantissa : ℤ) = d0.dp := by
    rw [hdl, h.dp, Sonic.Proofs.Number.exponent_eq]; ring
  have hround := round_eq t.neg t.mantissa t.exponent (by omega)
  rw [hdpe, hnumdef, hdendef] at hround
  obtain ⟨hlead, hhi, N, hN⟩ := val_bounds d0 h.wf hpos
  have hndne := nd_pos_of_dnat d0 hpos
  have hfault := h.wf.nofault
  by_cases hbig : d0.dp > 310
  · -- overflow by the position of the decimal point
    have hx1024 : (2 : ℚ) ^ (1024 : ℕ) ≤ (num : ℚ) / den := by
      rw [← hxdef]
      have : (10 : ℚ) ^ (309 : ℤ) ≤ 10 ^ (d0.dp - 1) := zpow_le_zpow_right₀ (by norm_num) (by omega)
      exact p1.trans (this.trans (hlead.trans hstep.1))
    have hnone := roundRat_huge num den hnum hden hx1024
    have hr : Sonic.Spec.Rne.round t.neg t.mantissa t.exponent = none := by
      rw [hround]
      split
      · rfl
      · rw [if_neg (by omega), hnone]; rfl
    rw [hr]
    unfold decimalToF64
    rw [if_neg hndne, if_pos hbig]
    simp only
    rw [overflow_bits, hfault, h.neg]; rfl
  · by_cases hsmall : d0.dp < -330
    · -- underflow by the position of the decimal point
      have hxlt : x < 10 ^ d0.dp := by
        have hu : (0 : ℚ) < 10 ^ (d0.dp - 800) := by positivity
        generalize hPdef : (10 : ℕ) ^ 800 = P
        have hPq : ((P : ℕ) : ℚ) = (10 : ℚ) ^ (800 : ℤ) := by
          rw [← hPdef, Nat.cast_pow, Nat.cast_ofNat]; exact (zpow_natCast (10 : ℚ) 800).symm
        have e : (10 : ℚ) ^ d0.dp = (P : ℚ) * 10 ^ (d0.dp - 800) := by
          rw [hPq, ← zpow_add₀ ten_ne, show (800 : ℤ) + (d0.dp - 800) = d0.dp by ring]
        have hNlt : (N : ℚ) < (P : ℚ) := by
          rw [hN, e] at hhi
          exact lt_of_mul_lt_mul_right hhi hu.le
        have hN1 : N + 1 ≤ P := by exact_mod_cast hNlt
        have hN1q : (N : ℚ) + 1 ≤ (P : ℚ) := by exact_mod_cast hN1
        have h3 := hstep.2.1
        rw [hN] at h3
        rw [e]
        have h4 : ((N : ℚ) + 1) * 10 ^ (d0.dp - 800) ≤ (P : ℚ) * 10 ^ (d0.dp - 800) :=
          mul_le_mul_of_nonneg_right hN1q hu.le
        linarith
      have hxt : (num : ℚ) / den ≤ (2 : ℚ) ^ (-1075 : ℤ) := by
        rw [← hxdef]
        have : (10 : ℚ) ^ d0.dp ≤ 10 ^ (-331 : ℤ) := zpow_le_zpow_right₀ (by norm_num) (by omega)
        exact le_trans (le_of_lt hxlt) (this.trans p2)
      have hz := roundRat_tiny num den hnum hden hxt
      have hr : Sonic.Spec.Rne.round t.neg t.mantissa t.exponent = some (if t.neg then 2 ^ 63 else 0) := by
        rw [hround, if_neg (by omega)]
        split
        · rfl
        · rw [hz]; simp
      rw [hr]
      unfold decimalToF64
      rw [if_neg hndne, if_neg hbig, if_pos hsmall, hfault,
        assemble_eq d0 0 (-1023) 0 (by omega) (by norm_num), h.neg]
      unfold specBits sgnBit
      simp
    · -- the main path
      have hr : Sonic.Spec.Rne.round t.neg t.mantissa t.exponent
          = (roundRat num den).map (· + (if t.neg then 2 ^ 63 else 0)) := by
        rw [hround, if_neg (by omega), if_neg (by omega)]
      rw [hr, specBits_map]
      have hinv0 := inv_init x d0 h.wf hpos hstep (by omega)
      have hxlo : (2 : ℚ) ^ (-1110 : ℤ) ≤ x := by
        have : (10 : ℚ) ^ (-331 : ℤ) ≤ 10 ^ (d0.dp - 1) := zpow_le_zpow_right₀ (by norm_num) (by omega)
        exact p3.trans (this.trans (hlead.trans hstep.1))
      -- scale down
      obtain ⟨d1, s1, hsd, hinv1, hdp1, hneg1, hs1, hsame1⟩ := scaleDown_spec x hx 400 d0 0 hinv0 (by omega)
        (by
          have : (10 : ℚ) ^ d0.dp ≤ 10 ^ (310 : ℤ) := zpow_le_zpow_right₀ (by norm_num) (by omega)
          exact lt_of_lt_of_le hhi (this.trans p4))
        (le_refl _)
      rw [neg_zero] at hsd
      obtain ⟨hlead1, hhi1, _⟩ := val_bounds d1 hinv1.wf hinv1.pos
      have hv1 : val d1 < 1 := by
        have : (10 : ℚ) ^ d1.dp ≤ 10 ^ (0 : ℤ) := zpow_le_zpow_right₀ (by norm_num) hdp1
        rw [zpow_zero] at this; linarith
      have hy1 : (10 : ℚ) ^ (-331 : ℤ) ≤ x * 2 ^ s1 := by
        have hdlo : -330 ≤ d1.dp := by
          by_cases hs0 : s1 = 0
          · rw [hsame1 hs0]; omega
          · rcases hinv1.rng with hr | hr <;> omega
        have : (10 : ℚ) ^ (-331 : ℤ) ≤ 10 ^ (d1.dp - 1) := zpow_le_zpow_right₀ (by norm_num) (by omega)
        exact this.trans (hlead1.trans hinv1.le)
      -- scale up
      obtain ⟨d2, s2, hsu, hinv2, hlo2, hhi2, hneg2, _⟩ := scaleUp_spec x hx hxlo 400 d1 s1 hinv1 (pot_init _ hy1) hv1
      -- the binary exponent of x
      have hy2lo : (1 : ℚ) / 2 ≤ x * 2 ^ s2 := le_trans hlo2 hinv2.le
      have hy2hi : x * 2 ^ s2 < 1 := by
        have := inv_lt_pow x hx hxlo d2 s2 hinv2 0 (by simpa using hhi2)
        simpa using this
      have h2s : (0 : ℚ) < 2 ^ s2 := by positivity
      have hE1 : (2 : ℚ) ^ (-s2 - 1) ≤ x := by
        rw [show -s2 - 1 = -1 + -s2 by ring, zpow_add₀ two_ne, zpow_neg, zpow_neg, zpow_one, ← div_eq_mul_inv,
          div_le_iff₀ h2s]
        linarith
      have hE2 : x < (2 : ℚ) ^ (-s2 - 1 + 1) := by
        rw [show -s2 - 1 + 1 = -s2 by ring, zpow_neg, ← one_div, lt_div_iff₀ h2s]
        exact hy2hi
      have hE : floorLog2Rat num den = -s2 - 1 := by
        rw [hxdef] at hE1 hE2
        exact floorLog2_of_rat num den hnum hden _ hE1 hE2
      have hElo : -1111 ≤ -s2 - 1 := by
        by_contra hcon
        have : (2 : ℚ) ^ (-s2 - 1 + 1) ≤ 2 ^ (-1110 : ℤ) := zpow_le_zpow_right₀ (by norm_num) (by omega)
        linarith
      rw [decimalToF64_unfold d0 hndne hbig hsmall d1 d2 (-s1) (-s2) hsd hsu]
      by_cases hsub : -s2 - 1 < -1022
      · -- subnormal: one more right shift
        obtain ⟨nn, hnn⟩ : ∃ nn : ℕ, -1022 - (-s2 - 1) = (nn : ℤ) := ⟨(-1022 - (-s2 - 1)).toNat, by omega⟩
        obtain ⟨hinv3, hneg3, hv3⟩ := subnormal_shift x hx d2 s2 hinv2 hhi2 nn (by omega) (by omega) (by omega)
        simp only [hsub, if_true, hnn]
        have hX : -s2 - 1 + (nn : ℤ) = -1022 := by omega
        rw [hX, if_neg (by norm_num)]
        rw [mantissa_step x num den hnum hden hxdef hxlo _ (s2 - nn) (-1022) (-s2 - 1) hinv3 hv3 (by omega)
          (by rw [max_eq_right (by omega)]) (by omega) hE, hneg3, hneg2, hneg1, h.neg]
      · simp only [hsub, if_false]
        by_cases hov : -s2 - 1 + 1023 ≥ 0x7FF
        · rw [if_pos hov, overflow_bits, hinv2.wf.nofault, hneg2, hneg1, h.neg]
          have hx1024 : (2 : ℚ) ^ (1024 : ℕ) ≤ (num : ℚ) / den := by
            rw [← hxdef]
            have : (2 : ℚ) ^ ((1024 : ℕ) : ℤ) ≤ 2 ^ (-s2 - 1) := zpow_le_zpow_right₀ (by norm_num) (by omega)
            rw [zpow_natCast] at this
            exact this.trans hE1
          rw [roundRat_huge num den hnum hden hx1024]
        · rw [if_neg hov]
          rw [mantissa_step x num den hnum hden hxdef hxlo d2 s2 (-s2 - 1) (-s2 - 1) hinv2 hhi2 (by ring)
            (by rw [max_eq_left (by omega)]) (by omega) hE, hneg2, hneg1, h.neg]

/-- the decimal point was clamped (true position beyond `±10^6`): `±inf` resp. `±0`, as the reference says -/
theorem clamped_case (d0 : Decimal) (t : Token) (h : SetOutB d0 t) (hM : 0 < t.mantissa)
    (hc : (dpTrue t > 1000000 ∧ d0.dp = 1000000) ∨ (dpTrue t < -1000000 ∧ d0.dp = -1000000)) :
    decimalToF64 d0 = (specBits t.neg (Sonic.Spec.Rne.round t.neg t.mantissa t.exponent), false) := by
  have hSpos : 0 < (strip (allDigits t)).length := by
    rcases Nat.eq_zero_or_pos (strip (allDigits t)).length with h0 | h0
    · have := h.mhi; rw [h0] at this; simp at this; omega
    · exact h0
  have hdl : dl t.mantissa = (strip (allDigits t)).length := dl_eq _ _ hSpos (h.mlo hSpos) h.mhi
  have hdpe : t.exponent + (dl t.mantissa : ℤ) = dpTrue t := by
    rw [hdl, dpTrue, Sonic.Proofs.Number.exponent_eq]; ring
  have hround := round_eq t.neg t.mantissa t.exponent (by omega)
  rw [hdpe] at hround
  have hndne : d0.nd ≠ 0 := by rw [h.nd]; omega
  have hfault := h.wf.nofault
  rcases hc with ⟨h1, h2⟩ | ⟨h1, h2⟩
  · rw [hround, if_pos (by omega)]
    unfold decimalToF64
    rw [if_neg hndne, if_pos (by omega)]
    simp only
    rw [overflow_bits, hfault, h.neg]; rfl
  · rw [hround, if_neg (by omega), if_pos (by omega)]
    unfold decimalToF64
    rw [if_neg hndne, if_neg (by omega), if_pos (by omega), hfault,
      assemble_eq d0 0 (-1023) 0 (by omega) (by norm_num), h.neg]
    unfold specBits sgnBit
    simp

/-- **`AtofNative` is correct**: on a text that starts with the number token `t` (and whose continuation satisfies
    `nativeGuard`) the big-decimal fallback returns the bit pattern of the correctly rounded binary64 (`±inf` when the
    reference says the value rounds to infinity), and the model never faults (no out-of-range access to the 800-digit
    buffer, no loop runs out of its bound).  No bound on the written exponent: it is accumulated in 64 bits up to
    `10^15`, and the decimal point is clamped to `±10^6`; only for a written exponent of `10^16` and more the token
    has to be shorter than `2^32` bytes (so that the digit count cannot compensate the saturated exponent). -/
theorem atofNative_correct (txt : List Nat) (t : Token) (ht : scanToken txt = some t)
    (hg : nativeGuard t (txt.drop t.len) = true)
    (hlen : (expVal t.exp).natAbs < 10000000000000000 ∨ t.len < 2 ^ 32) :
    atofNative txt = (specBits t.neg (Sonic.Spec.Rne.round t.neg t.mantissa t.exponent), false) := by
  obtain ⟨hset, hdp⟩ := setDecimal_token txt t ht hg hlen
  unfold atofNative
  rcases Nat.eq_zero_or_pos t.mantissa with h0 | h0
  · exact zero_case _ t hset h0
  · rcases hdp with hex | hcl
    · exact nonzero_case _ t (hset.toSetOut hex) h0
    · exact clamped_case _ t hset h0 hcl

end Sonic.Proofs.Dec
