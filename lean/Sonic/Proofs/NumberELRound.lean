import Sonic.Proofs.NumberRne

/-!
# Helper lemmas for C04 (Eisel-Lemire): `Spec.Rne.roundRat` from a known 54-bit quotient
-/
namespace Sonic.Proofs.EL

open Sonic.Spec.Rne Sonic.Proofs.Rne

/-- `roundRat` when the 54-bit scaled quotient at the grid `2^g` is known (normal range) -/
theorem roundRat_at (num den : Nat) (g : Int) (hn : 0 < num) (hd : 0 < den) (hg : -1074 ≤ g)
    (h1 : 2 ^ 53 ≤ num * pL (1 - g) / (den * pR (1 - g))) (h2 : num * pL (1 - g) / (den * pR (1 - g)) < 2 ^ 54) :
    roundRat num den =
      (if (g + 1074).toNat * 2 ^ 52 + roundQ (num * pL (1 - g) / (den * pR (1 - g))) (num * pL (1 - g) % (den * pR (1 - g)) != 0)
            ≥ 2047 * 2 ^ 52 then none
       else some ((g + 1074).toNat * 2 ^ 52 +
          roundQ (num * pL (1 - g) / (den * pR (1 - g))) (num * pL (1 - g) % (den * pR (1 - g)) != 0))) := by
  have hB : 0 < den * pR (1 - g) := Nat.mul_pos hd (pR_pos _)
  have hle : le2 (g + 52) num den :=
    (le2_shift (g + 52) (1 - g) 53 (by omega) num den).2 ((Nat.le_div_iff_mul_le hB).1 h1)
  have hlt : lt2 (g + 52 + 1) num den :=
    (lt2_shift (g + 52 + 1) (1 - g) 54 (by omega) num den).2 ((Nat.div_lt_iff_lt_mul hB).1 h2)
  obtain ⟨f1, f2⟩ := floorLog2Rat_spec num den hn hd
  have he : floorLog2Rat num den = g + 52 := exp_unique f1 f2 hle hlt
  have hu : ulpOf (floorLog2Rat num den) = g := by
    rw [he]; unfold ulpOf; split <;> omega
  have := (roundRat_closed num den hn hd).1
  simp only [hu] at this
  exact this

theorem pL_natCast (k : Nat) : pL ((k : Nat) : Int) = 2 ^ k := pL_ofNat k

/-- the edge case: the quotient at the grid `2^-1075` is `2^54 - 1`, which rounds up to the smallest normal number -/
theorem roundRat_edge (num den : Nat) (t : Int) (ht : t = 1076) (hn : 0 < num) (hd : 0 < den)
    (h1 : (2 ^ 54 - 1) * den ≤ num * pL t) (h2 : num * pL t < 2 ^ 54 * den) :
    roundRat num den = some (2 ^ 52) := by
  subst ht
  have hR : ∀ k : Nat, pR ((k : Nat) : Int) = 1 := pR_ofNat
  have hle : le2 (-1023) num den := by
    apply (le2_shift (-1023) 1076 53 (by omega) num den).2
    rw [show (1076 : Int) = ((1076 : Nat) : Int) by rfl, hR, Nat.mul_one]
    have : 2 ^ 53 * den ≤ (2 ^ 54 - 1) * den := Nat.mul_le_mul_right _ (by decide)
    exact Nat.le_trans this h1
  have hlt : lt2 (-1023 + 1) num den := by
    apply (lt2_shift (-1023 + 1) 1076 54 (by omega) num den).2
    rw [show (1076 : Int) = ((1076 : Nat) : Int) by rfl, hR, Nat.mul_one]
    exact h2
  obtain ⟨f1, f2⟩ := floorLog2Rat_spec num den hn hd
  have he : floorLog2Rat num den = -1023 := exp_unique f1 f2 hle hlt
  have hu : ulpOf (floorLog2Rat num den) = -1074 := by
    rw [he]; unfold ulpOf; split <;> omega
  have hc := (roundRat_closed num den hn hd).1
  simp only [hu] at hc
  rw [hc]
  have e1 : (1 : Int) - -1074 = ((1075 : Nat) : Int) := by omega
  rw [e1, hR, Nat.mul_one]
  have e76 : pL 1076 = pL ((1075 : Nat) : Int) * 2 := by
    have hk : ∀ k : Nat, pL ((k + 1 : Nat) : Int) = pL (k : Int) * 2 := fun k => by
      rw [pL_ofNat, pL_ofNat, Nat.pow_succ]
    exact hk 1075
  rw [e76, ← Nat.mul_assoc] at h1 h2
  generalize num * pL ((1075 : Nat) : Int) = A at h1 h2 ⊢
  have hq : A / den = 2 ^ 53 - 1 := by
    have a1 : (2 ^ 53 - 1) * den ≤ A := by
      have : (2 ^ 53 - 1) * den * 2 ≤ (2 ^ 54 - 1) * den := by
        rw [Nat.mul_right_comm]; exact Nat.mul_le_mul_right _ (by decide)
      omega
    have a2 : A < (2 ^ 53 - 1 + 1) * den := by
      have : (2 ^ 53 - 1 + 1) * den * 2 = 2 ^ 54 * den := by
        rw [Nat.mul_right_comm]
      omega
    exact Nat.div_eq_of_lt_le ((Nat.mul_comm _ _) ▸ a1) ((Nat.mul_comm _ _) ▸ a2)
  have hr : A % den ≠ 0 := by
    intro h0
    have := Nat.div_add_mod A den
    rw [hq, h0, Nat.add_zero] at this
    -- A = den * (2^53 - 1), but 2A ≥ (2^54 - 1) den
    have e : den * (2 ^ 53 - 1) * 2 = (2 ^ 54 - 2) * den := by
      rw [Nat.mul_assoc, Nat.mul_comm]
    rw [← this, e] at h1
    have : (2 ^ 54 - 1) * den = (2 ^ 54 - 2) * den + den := by
      rw [show (2 : Nat) ^ 54 - 1 = (2 ^ 54 - 2) + 1 by decide, Nat.add_mul, Nat.one_mul]
    omega
  have hs : (A % den != 0) = true := bne_iff_ne.2 hr
  rw [hq, hs]
  decide


/-- the quotient and the "inexact" flag of `A / B` read off an equal fraction `V / K` that is bracketed by `q` -/
theorem div_of_cross (A B K V q : Nat) (hB : 0 < B) (hK : 0 < K) (hid : A * K = B * V)
    (h1 : q * K ≤ V) (h2 : V < (q + 1) * K) : A / B = q ∧ (q * K < V → A % B ≠ 0) := by
  have a1 : B * q ≤ A := by
    apply Nat.le_of_mul_le_mul_right _ hK
    calc B * q * K = B * (q * K) := Nat.mul_assoc _ _ _
      _ ≤ B * V := Nat.mul_le_mul_left _ h1
      _ = A * K := hid.symm
  have a2 : A < B * (q + 1) := by
    apply Nat.lt_of_mul_lt_mul_right (a := K)
    calc A * K = B * V := hid
      _ < B * ((q + 1) * K) := Nat.mul_lt_mul_of_pos_left h2 hB
      _ = B * (q + 1) * K := (Nat.mul_assoc _ _ _).symm
  have hq : A / B = q := Nat.div_eq_of_lt_le (by rw [Nat.mul_comm]; exact a1) (by rw [Nat.mul_comm]; exact a2)
  refine ⟨hq, fun hs h0 => ?_⟩
  have hA := Nat.div_add_mod A B
  rw [hq, h0, Nat.add_zero] at hA
  rw [← hA, Nat.mul_assoc] at hid
  have := Nat.eq_of_mul_eq_mul_left hB hid
  omega

/-- the code's "add the low bit, shift" is the reference's rounding step once ties-to-even-down are excluded -/
theorem roundQ_eq (rm : Nat) (st : Bool) (h : rm % 4 = 1 → st = true) : roundQ rm st = (rm + rm % 2) / 2 := by
  unfold roundQ
  by_cases h2 : rm % 2 = 1
  · have hst : (st || rm / 2 % 2 == 1) = true := by
      by_cases h4 : rm % 4 = 1
      · rw [h h4]; rfl
      · have : rm / 2 % 2 = 1 := by omega
        rw [this]; simp
    rw [h2, hst]
    simp only [beq_self_eq_true, Bool.and_self, if_true]
    omega
  · have h0 : rm % 2 = 0 := by omega
    rw [h0]
    simp only [Nat.add_zero]
    rfl

/-- `2^t·2^a = 2^b` on fractions -/
theorem pow2_id (t : Int) (a b : Nat) (h : t + a = b) : pL t * 2 ^ a = pR t * 2 ^ b := by
  unfold pL pR
  rw [← Nat.pow_add, ← Nat.pow_add]
  congr 1
  omega

end Sonic.Proofs.EL
