import Sonic.Model.Parse
import Sonic.Proofs.ParseSkip
import Sonic.Proofs.ParseSax
import Sonic.Proofs.ParseStr

/-!
# Invariants of the parser state and the effect of each primitive

`BInv`: the string buffer has `len + 64` bytes, everything from `pos_` on is still the original padded input
(in-place decoding has only written below `pos_`), and the whitespace cache tells the truth from `pos_` on.
Then, for each primitive of `parseImpl` (`SkipSpace`, the literals, `parseStringHelper`, `parseNumber`), a lemma that
gives its exact result under `BInv` — in particular that no checked access faults.
-/
namespace Sonic.Proofs.Parse
open Sonic.Gen Sonic.Spec Sonic.Model.Parse
open Sonic.Proofs.StringDec (get_of_drop drop_mono)

/-- assumptions on the vector width, the input and the uninitialised padding -/
structure Ctx (W : Nat) (bs pad : List Nat) : Prop where
  hW : 0 < W
  hW' : W ≤ 63
  hbs : ∀ x ∈ bs, x < 256
  hpad : ∀ x ∈ pad, x < 256
  hlen : pad.length = 61
  hL : bs.length + 4 < 2 ^ 32

/-! ## the padded buffer -/

theorem B0_length {bs pad : List Nat} (hlen : pad.length = 61) : (paddedBuf bs pad).length = bs.length + 64 := by
  simp [paddedBuf, hlen]

theorem B0_lt {bs pad : List Nat} {i : Nat} (hi : i < bs.length) : (paddedBuf bs pad)[i]? = bs[i]? := by
  unfold paddedBuf
  rw [List.append_assoc, List.getElem?_append_left hi]

theorem B0_sent {bs pad : List Nat} (j : Nat) :
    (paddedBuf bs pad)[bs.length + j]? = ([0x78, 0x22, 0x78] ++ pad)[j]? := by
  unfold paddedBuf
  rw [List.append_assoc, List.getElem?_append_right (by omega)]
  congr 1; omega

theorem B0_L {bs pad : List Nat} : (paddedBuf bs pad)[bs.length]? = some 0x78 := by
  have := B0_sent (bs := bs) (pad := pad) 0; simpa using this
theorem B0_L1 {bs pad : List Nat} : (paddedBuf bs pad)[bs.length + 1]? = some 0x22 := by
  have := B0_sent (bs := bs) (pad := pad) 1; simpa using this
theorem B0_L2 {bs pad : List Nat} : (paddedBuf bs pad)[bs.length + 2]? = some 0x78 := by
  have := B0_sent (bs := bs) (pad := pad) 2; simpa using this

/-! ## whitespace -/

theorem isWs_eq (c : Nat) : Json.isWs c = isSpace c := by
  unfold Json.isWs isSpace
  cases (c == 0x20) <;> cases (c == 0x09) <;> cases (c == 0x0A) <;> cases (c == 0x0D) <;> rfl

theorem skipWs_spec (bs : List Nat) : ∀ (fuel pos : Nat), bs.length - pos ≤ fuel → pos ≤ bs.length →
    pos ≤ Json.skipWs bs fuel pos ∧ Json.skipWs bs fuel pos ≤ bs.length ∧
    (∀ j, pos ≤ j → j < Json.skipWs bs fuel pos → ∃ d, bs[j]? = some d ∧ isSpace d = true) ∧
    (∀ d, bs[Json.skipWs bs fuel pos]? = some d → isSpace d = false) := by
  intro fuel
  induction fuel with
  | zero =>
    intro pos hf hp
    have : pos = bs.length := by omega
    subst this
    simp only [Json.skipWs]
    exact ⟨Nat.le_refl _, Nat.le_refl _, fun j h1 h2 => by omega, fun d hd => by simp at hd⟩
  | succ fuel ih =>
    intro pos hf hp
    unfold Json.skipWs
    cases hc : bs[pos]? with
    | none =>
      simp only
      refine ⟨Nat.le_refl _, hp, fun j h1 h2 => by omega, fun d hd => by rw [hc] at hd; cases hd⟩
    | some c =>
      simp only
      have hlt : pos < bs.length := (List.getElem?_eq_some_iff.mp hc).1
      by_cases hw : Json.isWs c = true
      · rw [if_pos hw]
        obtain ⟨h1, h2, h3, h4⟩ := ih (pos + 1) (by omega) (by omega)
        refine ⟨by omega, h2, ?_, h4⟩
        intro j hj hjq
        by_cases hjp : j = pos
        · subst hjp; exact ⟨c, hc, by rw [← isWs_eq]; exact hw⟩
        · exact h3 j (by omega) hjq
      · rw [if_neg hw]
        refine ⟨Nat.le_refl _, hp, fun j h1 h2 => by omega, ?_⟩
        intro d hd
        rw [hc] at hd; injection hd with hd; subst hd
        rw [← isWs_eq]; simpa using hw

/-- a byte that is not whitespace stops `skipWs` at once -/
theorem skipWs_fix {bs : List Nat} {p d : Nat} (hd : bs[p]? = some d) (hs : isSpace d = false) (fuel : Nat) :
    Json.skipWs bs fuel p = p := by
  cases fuel with
  | zero => rfl
  | succ fuel =>
    unfold Json.skipWs
    rw [hd]
    simp only [isWs_eq, hs, Bool.false_eq_true, if_false]

theorem isSpace_x : isSpace 0x78 = false := by decide

/-- the first non-space byte of the padded buffer from `pos ≤ len` on is the spec's `skipWs` position; it is the
    sentinel `x` exactly when the input holds only whitespace from `pos` on -/
theorem firstNS_B0 (bs pad : List Nat) {pos : Nat} (hp : pos ≤ bs.length) :
    ∃ c, FirstNS (paddedBuf bs pad) pos (Json.skipWs bs bs.length pos) c ∧
      (Json.skipWs bs bs.length pos < bs.length → bs[Json.skipWs bs bs.length pos]? = some c) ∧
      (Json.skipWs bs bs.length pos = bs.length → c = 0x78) := by
  obtain ⟨h1, h2, h3, h4⟩ := skipWs_spec bs bs.length pos (by omega) hp
  have hsp : ∀ j, pos ≤ j → j < Json.skipWs bs bs.length pos →
      ∃ d, (paddedBuf bs pad)[j]? = some d ∧ isSpace d = true := by
    intro j hj hjq
    obtain ⟨d, hd, hs⟩ := h3 j hj hjq
    exact ⟨d, by rw [B0_lt (by omega)]; exact hd, hs⟩
  by_cases hq : Json.skipWs bs bs.length pos < bs.length
  · obtain ⟨c, hc⟩ : ∃ c, bs[Json.skipWs bs bs.length pos]? = some c :=
      ⟨bs[Json.skipWs bs bs.length pos], List.getElem?_eq_getElem hq⟩
    exact ⟨c, ⟨h1, hsp, by rw [B0_lt hq]; exact hc, h4 c hc⟩, fun _ => hc, fun h => by omega⟩
  · have hq' : Json.skipWs bs bs.length pos = bs.length := by omega
    refine ⟨0x78, ⟨h1, hsp, by rw [hq']; exact B0_L, isSpace_x⟩, fun h => by omega, fun _ => rfl⟩

theorem FirstNS.congr {B B' : Buf} {pos p c : Nat} (h : FirstNS B' pos p c)
    (hw : ∀ i, pos ≤ i → B[i]? = B'[i]?) : FirstNS B pos p c :=
  ⟨h.le, fun j hj hjp => by rw [hw j hj]; exact h.sp j hj hjp, by rw [hw p h.le]; exact h.at_, h.ns⟩

/-! ## the buffer invariant -/

structure BInv (bs pad : List Nat) (s : PState) : Prop where
  blen : s.buf.length = bs.length + 64
  len : s.len = bs.length
  suffix : s.buf.drop s.pos = (paddedBuf bs pad).drop s.pos
  cache : CacheInv s.buf s.pos s.cache

theorem BInv.get {bs pad : List Nat} {s : PState} (h : BInv bs pad s) {i : Nat} (hi : s.pos ≤ i) :
    s.buf[i]? = (paddedBuf bs pad)[i]? := get_of_drop h.suffix hi

/-- `c = scan.SkipSpace(json_buf_, pos_)` at a position inside the input (or at the sentinel `x`): the token is
    the byte at the spec's `skipWs` position `q ≤ len`, `pos_ = q + 1`, nothing else changes -/
theorem skip_ok {bs pad : List Nat} {s : PState} (hb : BInv bs pad s)
    (hpos : s.pos ≤ bs.length) :
    ∃ c k', skip s = .ok (c, { s with pos := Json.skipWs bs bs.length s.pos + 1, cache := k' }) ∧
      BInv bs pad { s with pos := Json.skipWs bs bs.length s.pos + 1, cache := k' } ∧
      s.buf.drop (Json.skipWs bs bs.length s.pos) = (paddedBuf bs pad).drop (Json.skipWs bs bs.length s.pos) ∧
      (paddedBuf bs pad)[Json.skipWs bs bs.length s.pos]? = some c ∧
      (Json.skipWs bs bs.length s.pos < bs.length → bs[Json.skipWs bs bs.length s.pos]? = some c) ∧
      (Json.skipWs bs bs.length s.pos = bs.length → c = 0x78) ∧
      s.pos ≤ Json.skipWs bs bs.length s.pos ∧ Json.skipWs bs bs.length s.pos ≤ bs.length := by
  obtain ⟨c, hf, hin, hx⟩ := firstNS_B0 bs pad hpos
  obtain ⟨h1, h2, _, _⟩ := skipWs_spec bs bs.length s.pos (by omega) hpos
  have hf' : FirstNS s.buf s.pos (Json.skipWs bs bs.length s.pos) c := hf.congr (fun i hi => hb.get hi)
  obtain ⟨k', hk, hci⟩ := skipSpace_spec hf' (Or.inr (by rw [hb.blen]; omega)) hb.cache
  refine ⟨c, k', ?_, ⟨hb.blen, hb.len, drop_mono hb.suffix (by simp only; omega), hci⟩,
    drop_mono hb.suffix h1, hf.at_, hin, hx, h1, h2⟩
  unfold skip
  rw [hk]

/-- `SkipSpace` right after a string that was closed by the sentinel quote: the token is the second `x` -/
theorem skip_sentinel {bs pad : List Nat} {s : PState} (hb : BInv bs pad s) (hpos : s.pos = bs.length + 2) :
    ∃ k', skip s = .ok (0x78, { s with pos := bs.length + 3, cache := k' }) ∧
      BInv bs pad { s with pos := bs.length + 3, cache := k' } := by
  have hf : FirstNS s.buf s.pos s.pos 0x78 :=
    ⟨Nat.le_refl _, fun j h1 h2 => by omega, by rw [hb.get (Nat.le_refl _), hpos]; exact B0_L2, isSpace_x⟩
  obtain ⟨k', hk, hci⟩ := skipSpace_spec hf (Or.inl (by omega)) hb.cache
  refine ⟨k', ?_, ⟨hb.blen, hb.len, drop_mono hb.suffix (by simp only; omega), by rw [hpos] at hci; exact hci⟩⟩
  unfold skip
  rw [hk, hpos]

theorem BInv.congr {bs pad : List Nat} {s s' : PState} (h : BInv bs pad s) (h1 : s'.buf = s.buf)
    (h2 : s'.len = s.len) (h3 : s'.cache = s.cache) (h4 : s.pos ≤ s'.pos) : BInv bs pad s' :=
  ⟨by rw [h1]; exact h.blen, by rw [h2]; exact h.len, by rw [h1]; exact drop_mono h.suffix h4,
    by rw [h1, h3]; exact h.cache.mono h4⟩

theorem take_of_take {α} {a b : List α} {n m : Nat} (h : a.take n = b.take n) (hm : m ≤ n) :
    a.take m = b.take m := by
  have := congrArg (List.take m) h
  rwa [List.take_take, List.take_take, Nat.min_eq_left hm] at this

/-! ## literals -/

theorem eqBytes4_ok {B : Buf} {i : Nat} (lit : List Nat) (h : i + 4 ≤ B.length) :
    eqBytes4 B i lit = .ok ((B.drop i).take 4 == lit) := by
  have e : ∀ k, k < 4 → ∃ x, B[i + k]? = some x := fun k hk => ⟨B[i + k], List.getElem?_eq_getElem (by omega)⟩
  obtain ⟨x0, h0⟩ := e 0 (by omega)
  obtain ⟨x1, h1⟩ := e 1 (by omega)
  obtain ⟨x2, h2⟩ := e 2 (by omega)
  obtain ⟨x3, h3⟩ := e 3 (by omega)
  have hd : (B.drop i).take 4 = [x0, x1, x2, x3] := by
    apply List.ext_getElem?
    intro k
    by_cases hk : k < 4
    · rw [List.getElem?_take_of_lt hk, List.getElem?_drop]
      have : k = 0 ∨ k = 1 ∨ k = 2 ∨ k = 3 := by omega
      rcases this with rfl | rfl | rfl | rfl
      · simpa using h0
      · simpa using h1
      · simpa using h2
      · simpa using h3
    · rw [List.getElem?_eq_none (by rw [List.length_take]; omega), List.getElem?_eq_none (by simp; omega)]
  unfold eqBytes4
  rw [Nat.add_zero] at h0
  rw [rd_ok h0, rd_ok h1, rd_ok h2, rd_ok h3, hd]

theorem take4_eq_iff {B : Buf} {i : Nat} {a b c d : Nat} :
    ((B.drop i).take 4 == [a, b, c, d]) = true ↔
      B[i]? = some a ∧ B[i + 1]? = some b ∧ B[i + 2]? = some c ∧ B[i + 3]? = some d := by
  rw [beq_iff_eq]
  constructor
  · intro h
    have g : ∀ k, k < 4 → B[i + k]? = [a, b, c, d][k]? := by
      intro k hk
      rw [← h, List.getElem?_take_of_lt hk, List.getElem?_drop]
    exact ⟨by simpa using g 0 (by omega), by simpa using g 1 (by omega), by simpa using g 2 (by omega),
      by simpa using g 3 (by omega)⟩
  · intro ⟨h0, h1, h2, h3⟩
    apply List.ext_getElem?
    intro k
    by_cases hk : k < 4
    · rw [List.getElem?_take_of_lt hk, List.getElem?_drop]
      have : k = 0 ∨ k = 1 ∨ k = 2 ∨ k = 3 := by omega
      rcases this with rfl | rfl | rfl | rfl
      · simpa using h0
      · simpa using h1
      · simpa using h2
      · simpa using h3
    · rw [List.getElem?_eq_none (by rw [List.length_take]; omega), List.getElem?_eq_none (by simp; omega)]

/-- a byte of the padded buffer that is not `x`, at an index reached from inside the input by consecutive
    non-`x` bytes, lies inside the input -/
theorem B0_run_in {bs pad : List Nat} {i n : Nat} (hi : i ≤ bs.length)
    (h : ∀ k, k < n → ∃ x, (paddedBuf bs pad)[i + k]? = some x ∧ x ≠ 0x78) : i + n ≤ bs.length := by
  apply Decidable.byContradiction
  intro hcon
  obtain ⟨x, hx, hne⟩ := h (bs.length - i) (by omega)
  rw [show i + (bs.length - i) = bs.length by omega, B0_L] at hx
  injection hx with hx
  exact hne hx.symm

theorem matchLit_iff (buf : List Nat) (p : Nat) (lit : List Nat) :
    Json.matchLit buf p lit = true ↔ ∀ k, k < lit.length → buf[p + k]? = lit[k]? := by
  unfold Json.matchLit
  rw [List.all_eq_true]
  constructor
  · intro h k hk
    have := h k (List.mem_range.mpr hk)
    simpa using this
  · intro h k hk
    have := h k (List.mem_range.mp hk)
    simpa using this

/-- the machine's 4-byte compare at `i ≤ len` against a literal without `x` agrees with the spec's `matchLit` on the
    bare input -/
theorem lit4_agree {bs pad : List Nat} {B : Buf} {i : Nat} {a b c d : Nat} (hi : i ≤ bs.length)
    (hB : ∀ j, i ≤ j → B[j]? = (paddedBuf bs pad)[j]?)
    (ha : a ≠ 0x78) (hb : b ≠ 0x78) (hc : c ≠ 0x78) (hd : d ≠ 0x78) :
    ((B.drop i).take 4 == [a, b, c, d]) = true ↔ Json.matchLit bs i [a, b, c, d] = true := by
  rw [take4_eq_iff, matchLit_iff]
  constructor
  · intro ⟨h0, h1, h2, h3⟩
    rw [hB i (by omega)] at h0
    rw [hB (i + 1) (by omega)] at h1
    rw [hB (i + 2) (by omega)] at h2
    rw [hB (i + 3) (by omega)] at h3
    have hin : i + 4 ≤ bs.length := by
      apply B0_run_in (pad := pad) hi
      intro k hk
      have : k = 0 ∨ k = 1 ∨ k = 2 ∨ k = 3 := by omega
      rcases this with rfl | rfl | rfl | rfl
      · exact ⟨a, h0, ha⟩
      · exact ⟨b, h1, hb⟩
      · exact ⟨c, h2, hc⟩
      · exact ⟨d, h3, hd⟩
    intro k hk
    simp only [List.length_cons, List.length_nil] at hk
    have : k = 0 ∨ k = 1 ∨ k = 2 ∨ k = 3 := by omega
    rcases this with rfl | rfl | rfl | rfl
    · rw [← B0_lt (pad := pad) (by omega)]; simpa using h0
    · rw [← B0_lt (pad := pad) (by omega)]; simpa using h1
    · rw [← B0_lt (pad := pad) (by omega)]; simpa using h2
    · rw [← B0_lt (pad := pad) (by omega)]; simpa using h3
  · intro h
    have g : ∀ k, k < 4 → B[i + k]? = [a, b, c, d][k]? := by
      intro k hk
      have hk' := h k (by simpa using hk)
      have hlt : i + k < bs.length := by
        apply Decidable.byContradiction
        intro hcon
        rw [List.getElem?_eq_none (by omega)] at hk'
        have : k = 0 ∨ k = 1 ∨ k = 2 ∨ k = 3 := by omega
        rcases this with rfl | rfl | rfl | rfl <;> simp at hk'
      rw [hB (i + k) (by omega), B0_lt hlt]; exact hk'
    exact ⟨by simpa using g 0 (by omega), by simpa using g 1 (by omega), by simpa using g 2 (by omega),
      by simpa using g 3 (by omega)⟩

theorem parseLit_eq {s : PState} {at_ adv : Nat} {lit : List Nat} {n : Node} (h : at_ + 4 ≤ s.buf.length) :
    parseLit s at_ adv lit n =
      if ((s.buf.drop at_).take 4 == lit) = true then
        match s.sax.scalar n with
        | .error e => .error e
        | .ok (sax, r) => .ok ({ s with pos := s.pos + adv, sax := sax }, r)
      else .ok ({ s with err := kParseErrorInvalidChar }, false) := by
  unfold parseLit
  rw [eqBytes4_ok lit h]
  cases ((s.buf.drop at_).take 4 == lit)
  · simp
  · simp only [if_true]
    cases s.sax.scalar n with
    | error e => rfl
    | ok x => cases x; rfl

/-! ## strings -/

open Sonic.Model.StringDec (run) in
open Sonic.Props.C05 in
/-- `parseStringInplace` at a position inside the input, on the current (prefix-mutated) buffer -/
theorem str_cases {W : Nat} {bs pad : List Nat} {s : PState} (ctx : Ctx W bs pad) (hb : BInv bs pad s)
    (hpos : s.pos ≤ bs.length) :
    (∃ n next b' out, run W s.buf s.pos = .ok (.ok n next b') ∧ decodeLit s.buf s.pos = some (out, next) ∧
        (b'.drop s.pos).take n = out ∧ b'.length = s.buf.length ∧ b'.take s.pos = s.buf.take s.pos ∧
        b'.drop next = s.buf.drop next ∧ s.pos + n < next ∧ next ≤ bs.length + 2) ∨
    (∃ code p, run W s.buf s.pos = .ok (.err code) ∧ strErrPos W s.buf s.pos = .ok p ∧
        decodeLit s.buf s.pos = none ∧
        (code = kParseErrorUnEscaped ∨ code = kParseErrorEscapedFormat ∨ code = kParseErrorEscapedUnicode)) := by
  have hbuf : s.buf = padded (s.buf.take s.pos) (bs.drop s.pos) pad := by
    unfold padded
    have h1 : s.buf = s.buf.take s.pos ++ s.buf.drop s.pos := (List.take_append_drop _ _).symm
    have h2 : (paddedBuf bs pad).drop s.pos = bs.drop s.pos ++ [0x78, 0x22, 0x78] ++ pad := by
      unfold paddedBuf
      rw [List.append_assoc, List.drop_append_of_le_length hpos, List.append_assoc]
    rw [hb.suffix, h2] at h1
    rw [List.append_assoc, List.append_assoc]
    rw [List.append_assoc] at h1
    exact h1
  have hpl : (s.buf.take s.pos).length = s.pos := by rw [List.length_take, hb.blen]; omega
  have hrest : ∀ x ∈ bs.drop s.pos, x < 256 := fun x hx => ctx.hbs x (List.mem_of_mem_drop hx)
  obtain ⟨r, hr, ha⟩ := C05_decode_at W ctx.hW ctx.hW' (s.buf.take s.pos) (bs.drop s.pos) pad hrest ctx.hpad ctx.hlen
  rw [← hbuf, hpl] at hr ha
  cases r with
  | ok n next b' =>
    have hp := C05_prefix_preserved W ctx.hW ctx.hW' (s.buf.take s.pos) (bs.drop s.pos) pad hrest ctx.hpad ctx.hlen
      n next b' (by rw [← hbuf, hpl]; exact hr)
    rw [← hbuf, hpl] at hp
    obtain ⟨p1, p2, p3, p4, p5⟩ := hp
    unfold Agrees at ha
    cases hd : decodeLit s.buf s.pos with
    | none => rw [hd] at ha; exact absurd ha (by simp)
    | some x =>
      obtain ⟨out, nx⟩ := x
      rw [hd] at ha
      simp only at ha
      obtain ⟨a1, a2, a3, a4⟩ := ha
      subst a2
      refine Or.inl ⟨n, next, b', out, hr, rfl, a1, a3, p2, p3, p4, ?_⟩
      rw [List.length_drop] at p5; omega
  | err code =>
    unfold Agrees at ha
    cases hd : decodeLit s.buf s.pos with
    | some x => rw [hd] at ha; exact absurd ha (by simp)
    | none =>
      rw [hd] at ha
      obtain ⟨p, hp⟩ := strErrPos_ok hr
      exact Or.inr ⟨code, p, hr, hp, rfl, ha⟩

/-- the spec's decoder on the bare input against the decoder on the current buffer -/
theorem decodeLit_bs_iff {bs pad : List Nat} {s : PState} (hb : BInv bs pad s) (out : List Nat) (next : Nat) :
    decodeLit bs s.pos = some (out, next) ↔ decodeLit s.buf s.pos = some (out, next) ∧ next ≤ bs.length := by
  constructor
  · intro h
    have hle : next ≤ bs.length := decodeFrom_le _ _ _ _ h
    refine ⟨decodeLit_window h (fun i h1 h2 => by rw [hb.get h1, B0_lt (by omega)]) (by rw [hb.blen]; omega), hle⟩
  · intro ⟨h, hle⟩
    exact decodeLit_window h (fun i h1 h2 => by rw [hb.get h1, B0_lt (by omega)]) hle

/-! ## numbers: the assumed contract of `Sonic.Model.Number.parseNumber` -/

/-- `buf` is a `len + 64` byte buffer that agrees with the padded input from `start` on (below `start`, earlier
    string literals may have been decoded in place) -/
def BufAt (bs pad buf : List Nat) (start : Nat) : Prop :=
  buf.length = bs.length + 64 ∧ buf.drop start = (paddedBuf bs pad).drop start

/-- what `parseNumber` hands to the parser, without the name of the internal path -/
inductive NumOut where
  | ok (v : JNum) (next : Nat)
  | err (code pos : Nat)

def numOut : Sonic.Model.Number.PResult → NumOut
  | .ok v next _ => .ok v next
  | .err c p => .err c p

/-- agreement of the model's outcome with the reference scanner `Spec.Number.scanNumber` -/
def NumAgrees (start len : Nat) : NumResult → NumOut → Prop
  | .ok v next, .ok v' next' => v = v' ∧ next = next' ∧ start < next ∧ next ≤ len
  | .infinity _, .err code _ => code = Sonic.Model.Number.errInfinity
  | .malformed, .err code _ => code = Sonic.Model.Number.errInvalidChar
  | _, _ => False

/-- **Assumed (property C04), per input `bs`**: at every position of `bs` that starts with `-` or a digit, the number
    model returns what the reference scanner returns — same kind and value and end index; `infinity` ↔ error
    `kParseErrorInfinity`; malformed ↔ error `kParseErrorInvalidChar` — and this outcome depends neither on the
    padding bytes nor on the buffer contents below the number. -/
def NumberCorrectOn (bs : List Nat) : Prop :=
  ∀ start c, start < bs.length → bs[start]? = some c → isNumStart c = true →
    ∃ r, NumAgrees start bs.length (Number.scanNumber bs start) r ∧
      ∀ pad buf, pad.length = 61 → (∀ x ∈ pad, x < 256) → BufAt bs pad buf start →
        numOut (Sonic.Model.Number.parseNumber buf bs.length start) = r

/-! ## numbers: the contract that is true of every text (`NumberOK`)

`NumberCorrectOn` asks for agreement with the reference scanner at *every* position that holds `-` or a digit — also
inside string literals — and is therefore false for valid documents such as `["1.5.3"]`: `AtofNative` is handed the
rest of the buffer and `SetDecimal` swallows a second `.` (`Props/C04.lean`: `C04_native_guard_needed`), so at the
position of `1.5` in `1.5.3` the model's *value* differs from the reference's.  Such a position is **doomed**: the
byte right after the number token is `.` or a digit, which can follow no JSON value, so if a value starts there both
the reference reader and the parser reject the text (the parser at the next token).  `NumberOK` allows, at a doomed
position, any value (ending at the end of the token) or a parse error code — but still independent of the padding. -/

/-- the byte at index `next` is `.` or a digit: it can follow no JSON value -/
def Doomed (bs : List Nat) (next : Nat) : Prop :=
  ∃ d, bs[next]? = some d ∧ (d = 0x2E ∨ Number.isDigit d = true)

/-- what `parseNumber` may answer at a doomed position whose token has `tlen` bytes: some value ending at the end of
    the token, or one of the two parse error codes of `parseNumber` -/
def NumDoomedOut (start tlen : Nat) : NumOut → Prop
  | .ok _ next => next = start + tlen
  | .err code _ => code = Sonic.Model.Number.errInfinity ∨ code = Sonic.Model.Number.errInvalidChar

/-- **The contract of `parseNumber` that the parser proofs need** (follows from `NumberCorrectOn`, and — unlike it —
    from the facts proved about the number model for every text whose written exponents are below 100000:
    `Proofs/ParseNumberOK.lean`): at every position that holds `-` or a digit there is an outcome `r`, the same for
    all paddings and all contents of the buffer below the position, which either agrees with the reference scanner
    or belongs to a doomed position. -/
def NumberOK (bs : List Nat) : Prop :=
  ∀ start c, start < bs.length → bs[start]? = some c → isNumStart c = true →
    ∃ r, (NumAgrees start bs.length (Number.scanNumber bs start) r ∨
          ∃ t, Number.scanToken (bs.drop start) = some t ∧ 0 < t.len ∧ Doomed bs (start + t.len) ∧
            NumDoomedOut start t.len r) ∧
      ∀ pad buf, pad.length = 61 → (∀ x ∈ pad, x < 256) → BufAt bs pad buf start →
        numOut (Sonic.Model.Number.parseNumber buf bs.length start) = r

theorem numberOK_of_correct {bs : List Nat} (h : NumberCorrectOn bs) : NumberOK bs := by
  intro start c h1 h2 h3
  obtain ⟨r, hagr, hr⟩ := h start c h1 h2 h3
  exact ⟨r, Or.inl hagr, hr⟩

theorem Doomed.lt {bs : List Nat} {next : Nat} (h : Doomed bs next) : next < bs.length := by
  obtain ⟨d, hd, _⟩ := h
  exact (List.getElem?_eq_some_iff.mp hd).1

theorem Doomed.notWs {bs : List Nat} {next : Nat} (h : Doomed bs next) :
    ∃ d, bs[next]? = some d ∧ isSpace d = false ∧ d ≠ 0x2C ∧ d ≠ 0x5D ∧ d ≠ 0x7D ∧ d ≠ 0x78 := by
  obtain ⟨d, hd, hc⟩ := h
  refine ⟨d, hd, ?_⟩
  rcases hc with rfl | hc
  · decide
  · unfold Number.isDigit at hc
    simp only [Bool.and_eq_true, decide_eq_true_eq] at hc
    refine ⟨?_, by omega, by omega, by omega, by omega⟩
    unfold isSpace
    simp only [Bool.or_eq_false_iff, beq_eq_false_iff_ne, ne_eq]
    omega

/-- what the parser proofs use of an outcome: where an accepted number ends, which codes an error has -/
def NumShape (start len : Nat) : NumOut → Prop
  | .ok _ next => start < next ∧ next ≤ len
  | .err code _ => code = 3 ∨ code = 2

theorem NumberOK.shape {bs : List Nat} (h : NumberOK bs) {start c : Nat} (h1 : start < bs.length)
    (h2 : bs[start]? = some c) (h3 : isNumStart c = true) :
    ∃ r, NumShape start bs.length r ∧
      ∀ pad buf, pad.length = 61 → (∀ x ∈ pad, x < 256) → BufAt bs pad buf start →
        numOut (Sonic.Model.Number.parseNumber buf bs.length start) = r := by
  obtain ⟨r, hcase, hr⟩ := h start c h1 h2 h3
  refine ⟨r, ?_, hr⟩
  rcases hcase with hagr | ⟨t, ht, hpos, hd, hout⟩
  · cases r with
    | ok v next =>
      cases hs : Number.scanNumber bs start with
      | ok v' n' => rw [hs] at hagr; obtain ⟨_, e2, e3, e4⟩ := hagr; subst e2; exact ⟨e3, e4⟩
      | infinity _ => rw [hs] at hagr; exact hagr.elim
      | malformed => rw [hs] at hagr; exact hagr.elim
    | err code pos =>
      cases hs : Number.scanNumber bs start with
      | ok v' n' => rw [hs] at hagr; exact hagr.elim
      | infinity _ => rw [hs] at hagr; exact Or.inl hagr
      | malformed => rw [hs] at hagr; exact Or.inr hagr
  · have := hd.lt
    cases r with
    | ok v next =>
      have hn : next = start + t.len := hout
      exact ⟨by omega, by omega⟩
    | err code pos => exact hout

end Sonic.Proofs.Parse
