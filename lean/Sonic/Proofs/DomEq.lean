import Sonic.Proofs.DomRun
import Sonic.Proofs.DomEqSpec

/-!
# The model's `operator==` computes `Spec.Equal.eqv` of the abstractions (helper lemmas for C18)
-/
namespace Sonic.Proofs.DomEq
open Sonic.Spec Sonic.Model.Dom Sonic.Proofs.Dom
open Sonic.Spec.Containers (Key)

/-! ## induction over `Node` -/

section induct
set_option linter.unusedSectionVars false
variable {P : Node → Prop}
  (hnull : P .null) (hbool : ∀ b, P (.bool b)) (hnum : ∀ n, P (.num n)) (hstr : ∀ o s, P (.str o s))
  (harr : ∀ c (es : List Node), (∀ x ∈ es, P x) → P (.arr c es))
  (hobj : ∀ mt (ms : List Member), (∀ m ∈ ms, P (mval m)) → P (.obj mt ms))
include hnull hbool hnum hstr harr hobj

mutual
theorem nodeInduct : ∀ v : Node, P v
  | .null => hnull
  | .bool b => hbool b
  | .num n => hnum n
  | .str o s => hstr o s
  | .arr c es => harr c es (nodeInductList es)
  | .obj mt ms => hobj mt ms (nodeInductMems ms)
theorem nodeInductList : ∀ xs : List Node, ∀ x ∈ xs, P x
  | [] => fun _ h => absurd h List.not_mem_nil
  | y :: ys => fun x h =>
    (List.mem_cons.1 h).elim (fun e => e ▸ nodeInduct y) (fun h' => nodeInductList ys x h')
theorem nodeInductMems : ∀ ms : List (Own × Key × Node), ∀ m ∈ ms, P (mval m)
  | [] => fun _ h => absurd h List.not_mem_nil
  | (_, _, v) :: r => fun m h =>
    (List.mem_cons.1 h).elim (fun e => e ▸ nodeInduct v) (fun h' => nodeInductMems r m h')
end
end induct

/-! ## lookups -/

theorem lookup_abs (k : Key) : ∀ ms : List Member,
    Equal.lookup k (ms.map absMem) =
      match ms.findIdx? (fun m => mkey m == k) with
      | some i => (ms[i]?).map (fun m => (mval m).abs)
      | none => none
  | [] => by simp [Equal.lookup]
  | m :: r => by
    simp only [List.map_cons, absMem, Equal.lookup, List.findIdx?_cons]
    by_cases h : mkey m = k
    · simp [h]
    · simp only [beq_iff_eq, h, ↓reduceIte]
      have ih := lookup_abs k r
      rw [ih]
      cases r.findIdx? (fun m => mkey m == k) <;> simp

/-! ## the comparison -/

theorem eqvList_model_spec : ∀ (xs ys : List Node),
    (∀ x ∈ xs, ∀ y ∈ ys, x.eqv y = Equal.eqv x.abs y.abs) →
    (xs.length == ys.length && Sonic.Model.Dom.eqvList xs ys) = Equal.eqvList (xs.map Node.abs) (ys.map Node.abs)
  | [], ys, _ => by cases ys <;> simp [Sonic.Model.Dom.eqvList, Equal.eqvList]
  | x :: xs, [], _ => by simp [Sonic.Model.Dom.eqvList, Equal.eqvList]
  | x :: xs, y :: ys, h => by
    have ih := eqvList_model_spec xs ys
      (fun a ha b hb => h a (List.mem_cons_of_mem _ ha) b (List.mem_cons_of_mem _ hb))
    simp only [List.length_cons, Sonic.Model.Dom.eqvList, List.map_cons, eqvList_cons_cons,
      h x List.mem_cons_self y List.mem_cons_self, ← ih]
    cases Equal.eqv x.abs y.abs <;> simp

theorem eqvMems_model_spec (mt2 : Option ObjMeta) (ms2 : List Member) (hi : LocalInv (.obj mt2 ms2))
    (ha : LocalAsc (.obj mt2 ms2)) : ∀ (ms : List Member),
    (∀ m ∈ ms, ∀ m2 ∈ ms2, (mval m).eqv (mval m2) = Equal.eqv (mval m).abs (mval m2).abs) →
    eqvMems ms mt2 ms2 = Equal.subMap (ms.map absMem) (ms2.map absMem)
  | [], _ => by simp [eqvMems, Equal.subMap]
  | (o, k, v) :: r, h => by
    have ih := eqvMems_model_spec mt2 ms2 hi ha r (fun m hm => h m (List.mem_cons_of_mem _ hm))
    simp only [eqvMems, List.map_cons, absMem, Equal.subMap, mkey, mval]
    have hl := lookup_abs k ms2
    rw [hl, findMemberSV_eq hi ha k, ← ih]
    cases hf : ms2.findIdx? (fun m => mkey m == k) with
    | none => simp
    | some i =>
      simp only
      cases hm : ms2[i]? with
      | none => simp
      | some m2 =>
        have := h (o, k, v) List.mem_cons_self m2 (List.mem_of_getElem? hm)
        simp only [mval] at this
        simp [this, mval]

/-- the model's `operator==` is `Spec.Equal.eqv` on the abstractions as soon as the RIGHT operand's maps list equal
    keys in vector order (in particular: no map, or distinct keys) -/
theorem eqv_model_spec : ∀ a : Node, ∀ b, Good b → AscAll b → a.eqv b = Equal.eqv a.abs b.abs := by
  apply nodeInduct
  · intro b _ _; cases b <;> simp [Node.eqv, Equal.eqv]
  · intro x b _ _; cases b <;> simp [Node.eqv, Equal.eqv]
  · intro x b _ _; cases b <;> simp [Node.eqv, Equal.eqv]
  · intro o x b _ _; cases b <;> simp [Node.eqv, Equal.eqv]
  · intro c xs ih b hg ha
    cases b with
    | arr c' ys =>
      simp only [Node.eqv, Equal.eqv, abs_arr]
      exact eqvList_model_spec xs ys
        (fun x hx y hy => ih x hx y ((Good_arr.1 hg).2 y hy) ((Asc_arr.1 ha) y hy))
    | _ => simp [Node.eqv, Equal.eqv]
  · intro mt ms ih b hg ha
    cases b with
    | obj mt2 ms2 =>
      simp only [Node.eqv, Equal.eqv, abs_obj, List.length_map]
      rw [eqvMems_model_spec mt2 ms2 (All_root hg) (All_root ha) ms
        (fun m hm m2 hm2 => ih m hm (mval m2) ((Good_obj.1 hg).2 m2 hm2) ((Asc_obj.1 ha).2 m2 hm2))]
    | _ => simp [Node.eqv, Equal.eqv]

/-! ## distinct keys everywhere imply the map order condition -/

theorem noDup_abs_arr {c : Option Nat} {es : List Node} :
    Equal.noDupKeys (Node.arr c es).abs = true ↔ ∀ x ∈ es, Equal.noDupKeys x.abs = true := by
  rw [abs_arr, noDup_arr]
  simp

theorem noDup_abs_obj {mt : Option ObjMeta} {ms : List Member} :
    Equal.noDupKeys (Node.obj mt ms).abs = true ↔
      (ms.map mkey).Nodup ∧ ∀ m ∈ ms, Equal.noDupKeys (mval m).abs = true := by
  rw [abs_obj, noDup_obj]
  have : (ms.map absMem).map (·.1) = ms.map mkey := by simp [Function.comp_def]
  rw [this]
  constructor
  · rintro ⟨h1, h2⟩
    exact ⟨h1, fun m hm => h2 (absMem m) (List.mem_map.2 ⟨m, hm, rfl⟩)⟩
  · rintro ⟨h1, h2⟩
    refine ⟨h1, fun kv hkv => ?_⟩
    obtain ⟨m, hm, rfl⟩ := List.mem_map.1 hkv
    exact h2 m hm

theorem asc_of_noDup : ∀ a : Node, Good a → Equal.noDupKeys a.abs = true → AscAll a := by
  apply nodeInduct
  · intro _ _; simp
  · intro _ _ _; simp
  · intro _ _ _; simp
  · intro _ _ _ _; simp
  · intro c es ih hg hnd
    rw [Asc_arr]
    exact fun x hx => ih x hx ((Good_arr.1 hg).2 x hx) ((noDup_abs_arr.1 hnd) x hx)
  · intro mt ms ih hg hnd
    rw [Asc_obj]
    obtain ⟨hk, hm⟩ := noDup_abs_obj.1 hnd
    exact ⟨localAsc_of_distinct (All_root hg) hk,
      fun m hmm => ih m hmm ((Good_obj.1 hg).2 m hmm) (hm m hmm)⟩

end Sonic.Proofs.DomEq
