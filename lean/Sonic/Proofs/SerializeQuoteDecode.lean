import Sonic.Spec.Quote
import Sonic.Spec.StringLit

/-!
# C06 helper lemmas: the reference string-literal decoder inverts the reference quoting

`decodeFrom_quote`: for EVERY list of numbers `s` (no byte-range assumption is needed), decoding the text
`Spec.quote s` embedded anywhere in a buffer gives back `s` and stops just after the closing quote.
-/
namespace Sonic.Proofs.Serialize
open Sonic.Spec

theorem getElem?_pre (pre l : List Nat) (j : Nat) : (pre ++ l)[pre.length + j]? = l[j]? := by
  rw [List.getElem?_append_right (Nat.le_add_right _ _), Nat.add_sub_cancel_left]

theorem getElem?_pre0 (pre l : List Nat) : (pre ++ l)[pre.length]? = l[0]? := by
  simpa using getElem?_pre pre l 0

/-- the three shapes of `escapeByte b` with what the decoder needs to know about each -/
theorem escape_cases (b : Nat) :
    (escapeByte b = [b] ∧ b ≠ 0x22 ∧ b ≠ 0x5C ∧ ¬ b < 0x20) ∨
    (∃ c, escapeByte b = [0x5C, c] ∧ c ≠ 0x75 ∧ simpleEscape c = some b) ∨
    (escapeByte b = [0x5C, 0x75, 0x30, 0x30, hexLower (b / 16), hexLower (b % 16)] ∧ b < 0x20) := by
  unfold escapeByte
  by_cases h1 : b = 0x22
  · right; left; exact ⟨0x22, by simp [h1], by decide, by subst h1; decide⟩
  by_cases h2 : b = 0x5C
  · right; left; exact ⟨0x5C, by simp [h2], by decide, by subst h2; decide⟩
  by_cases h3 : b = 0x08
  · right; left; exact ⟨0x62, by simp [h3], by decide, by subst h3; decide⟩
  by_cases h4 : b = 0x09
  · right; left; exact ⟨0x74, by simp [h4], by decide, by subst h4; decide⟩
  by_cases h5 : b = 0x0A
  · right; left; exact ⟨0x6E, by simp [h5], by decide, by subst h5; decide⟩
  by_cases h6 : b = 0x0C
  · right; left; exact ⟨0x66, by simp [h6], by decide, by subst h6; decide⟩
  by_cases h7 : b = 0x0D
  · right; left; exact ⟨0x72, by simp [h7], by decide, by subst h7; decide⟩
  by_cases h8 : b < 0x20
  · right; right; exact ⟨by simp [h1, h2, h3, h4, h5, h6, h7, h8], h8⟩
  · left; exact ⟨by simp [h1, h2, h3, h4, h5, h6, h7, h8], h1, h2, h8⟩

/-- the two hex digits written for a control byte read back as that byte -/
theorem hex_ctrl : ∀ b, b < 32 →
    hexVal 0x30 = some 0 ∧ hexVal (hexLower (b / 16)) = some (b / 16) ∧ hexVal (hexLower (b % 16)) = some (b % 16) ∧
      4096 * 0 + 256 * 0 + 16 * (b / 16) + b % 16 = b := by
  decide

theorem hex4_ctrl (pre T : List Nat) (b : Nat) (hb : b < 32) :
    hex4 (pre ++ (0x5C :: 0x75 :: 0x30 :: 0x30 :: hexLower (b / 16) :: hexLower (b % 16) :: T)) (pre.length + 1 + 1) =
      some b := by
  obtain ⟨h0, h1, h2, h3⟩ := hex_ctrl b hb
  have e0 := getElem?_pre pre (0x5C :: 0x75 :: 0x30 :: 0x30 :: hexLower (b / 16) :: hexLower (b % 16) :: T) 2
  have e1 := getElem?_pre pre (0x5C :: 0x75 :: 0x30 :: 0x30 :: hexLower (b / 16) :: hexLower (b % 16) :: T) 3
  have e2 := getElem?_pre pre (0x5C :: 0x75 :: 0x30 :: 0x30 :: hexLower (b / 16) :: hexLower (b % 16) :: T) 4
  have e3 := getElem?_pre pre (0x5C :: 0x75 :: 0x30 :: 0x30 :: hexLower (b / 16) :: hexLower (b % 16) :: T) 5
  simp only [List.getElem?_cons_succ, List.getElem?_cons_zero] at e0 e1 e2 e3
  unfold hex4
  rw [show pre.length + 1 + 1 = pre.length + 2 from rfl, show pre.length + 2 + 1 = pre.length + 3 from rfl,
    show pre.length + 2 + 2 = pre.length + 4 from rfl, show pre.length + 2 + 3 = pre.length + 5 from rfl,
    e0, e1, e2, e3]
  simp only [h0, h1, h2]
  rw [h3]

theorem escapeAt_simple (pre T : List Nat) (c b : Nat) (hc : c ≠ 0x75) (hs : simpleEscape c = some b) :
    escapeAt (pre ++ (0x5C :: c :: T)) (pre.length + 1) = some ([b], pre.length + 1 + 1) := by
  have e := getElem?_pre pre (0x5C :: c :: T) 1
  simp only [List.getElem?_cons_succ, List.getElem?_cons_zero] at e
  unfold escapeAt
  rw [e]
  simp only [hc, if_false, hs]

theorem escapeAt_ctrl (pre T : List Nat) (b : Nat) (hb : b < 32) :
    escapeAt (pre ++ (0x5C :: 0x75 :: 0x30 :: 0x30 :: hexLower (b / 16) :: hexLower (b % 16) :: T)) (pre.length + 1) =
      some ([b], pre.length + 1 + 5) := by
  have e := getElem?_pre pre (0x5C :: 0x75 :: 0x30 :: 0x30 :: hexLower (b / 16) :: hexLower (b % 16) :: T) 1
  simp only [List.getElem?_cons_succ, List.getElem?_cons_zero] at e
  have hhi : isHighSurrogate b = false := by
    simp only [isHighSurrogate, Bool.and_eq_false_iff, decide_eq_false_iff_not]; left; omega
  have hlo : isLowSurrogate b = false := by
    simp only [isLowSurrogate, Bool.and_eq_false_iff, decide_eq_false_iff_not]; left; omega
  have hu : utf8 b = [b] := by
    unfold utf8; rw [if_pos (by omega)]
  unfold escapeAt
  rw [e]
  simp only [if_true, hex4_ctrl pre T b hb, hhi, hlo, hu, Bool.false_eq_true, if_false]

/-- decoding `flatMap escapeByte s ++ '"' :: rest` placed after an arbitrary prefix -/
theorem decodeFrom_quote (rest : List Nat) : ∀ (s pre : List Nat) (fuel : Nat), s.length + 1 ≤ fuel →
    decodeFrom (pre ++ (s.flatMap escapeByte ++ 34 :: rest)) fuel pre.length =
      some (s, pre.length + (s.flatMap escapeByte).length + 1) := by
  intro s
  induction s with
  | nil =>
    intro pre fuel hf
    obtain ⟨f, rfl⟩ : ∃ f, fuel = f + 1 := ⟨fuel - 1, by omega⟩
    simp only [List.flatMap_nil, List.nil_append, decodeFrom]
    rw [getElem?_pre0]
    simp
  | cons b s ih =>
    intro pre fuel hf
    obtain ⟨f, rfl⟩ : ∃ f, fuel = f + 1 := ⟨fuel - 1, by simp at hf; omega⟩
    have hf' : s.length + 1 ≤ f := by simp at hf; omega
    simp only [List.flatMap_cons, List.append_assoc]
    rcases escape_cases b with ⟨he, h1, h2, h3⟩ | ⟨c, he, hc, hs⟩ | ⟨he, hb⟩
    · -- verbatim byte
      rw [he]
      have hih := ih (pre ++ [b]) f hf'
      simp only [List.append_assoc, List.length_append, List.length_cons, List.length_nil,
        List.cons_append, List.nil_append] at hih
      unfold decodeFrom
      rw [getElem?_pre0]
      simp only [List.cons_append, List.nil_append, List.getElem?_cons_zero, h1, h2, h3, if_false, hih]
      simp; omega
    · -- two-character escape
      rw [he]
      have hih := ih (pre ++ [0x5C, c]) f hf'
      simp only [List.append_assoc, List.length_append, List.length_cons, List.length_nil,
        List.cons_append, List.nil_append] at hih
      unfold decodeFrom
      rw [getElem?_pre0]
      simp only [List.cons_append, List.nil_append, List.getElem?_cons_zero]
      rw [escapeAt_simple pre _ c b hc hs]
      simp only [show (0x5C : Nat) ≠ 0x22 by decide, if_false, if_true]
      rw [show pre.length + 1 + 1 = pre.length + (0 + 1 + 1) by omega, hih]
      simp; omega
    · -- \u00XX
      rw [he]
      have hih := ih (pre ++ [0x5C, 0x75, 0x30, 0x30, hexLower (b / 16), hexLower (b % 16)]) f hf'
      simp only [List.append_assoc, List.length_append, List.length_cons, List.length_nil,
        List.cons_append, List.nil_append] at hih
      unfold decodeFrom
      rw [getElem?_pre0]
      simp only [List.cons_append, List.nil_append, List.getElem?_cons_zero]
      rw [escapeAt_ctrl pre _ b hb]
      simp only [show (0x5C : Nat) ≠ 0x22 by decide, if_false, if_true]
      rw [show pre.length + 1 + 5 = pre.length + (0 + 1 + 1 + 1 + 1 + 1 + 1) by omega, hih]
      simp; omega

/-- `decodeLit` on `quote s` embedded at `pre`: `start = pre.length + 1` is just after the opening quote -/
theorem decodeLit_quote (s pre rest : List Nat) :
    decodeLit (pre ++ (quote s ++ rest)) (pre.length + 1) = some (s, pre.length + (quote s).length) := by
  have h := decodeFrom_quote rest s (pre ++ [34]) (pre ++ (quote s ++ rest)).length
    (by
      have : s.length ≤ (s.flatMap escapeByte).length := by
        induction s with
        | nil => simp
        | cons b s ih =>
          have hb : 1 ≤ (escapeByte b).length := by
            rcases escape_cases b with ⟨he, _⟩ | ⟨c, he, _⟩ | ⟨he, _⟩ <;> simp [he]
          simp only [List.flatMap_cons, List.length_append, List.length_cons]; omega
      simp only [quote, List.length_cons, List.length_append, List.length_nil]; omega)
  unfold decodeLit
  have e : pre ++ (quote s ++ rest) = (pre ++ [34]) ++ (s.flatMap escapeByte ++ 34 :: rest) := by
    simp [quote]
  rw [e] at h ⊢
  simp only [List.length_append, List.length_cons, List.length_nil] at h ⊢
  rw [h]
  simp [quote]; omega

end Sonic.Proofs.Serialize
