import Sonic.Proofs.StringDec
import Sonic.Proofs.OnDemandString

/-!
# The string decoder on the private key buffer `kbuf` of `GetOnDemand` (C11: every access `< sn + 32`)

`parseStringInplace` (model `Sonic.Model.StringDec`) is proved for the parser's padded buffer in
`Sonic/Proofs/StringDec.lean` (sentinel `x"` and 63 bytes of room).  `GetOnDemand` runs it on a different buffer:
`kbuf = raw ++ junk` where `raw` = the `sn + 1` key bytes *including the closing quote* found by `SkipString`, and only
`31` more bytes follow.  What makes this safe is that the closing quote at index `S = sn` is the FIRST UNESCAPED quote
(`closeAt kbuf 0 = some S`, from `skipString_seq`): the decoder's scan position stays on the path of the sequential
scan and therefore never passes `S`; a `W ≤ 32`-byte block load at `src ≤ S` ends at `S + 32 = |kbuf|`, and a `\u`
escape starting at `src ≤ S - 2` reads at most up to `src + 11 < S + 32`.

The simulation below re-does the C05 simulation with the invariant "`closeAt o src = some S`" in place of
"`src ≤ S` and the sentinel `x` precedes `S`"; it reuses the buffer invariant `Inv`, the store / copy-loop lemmas and
`handleUnicode_spec` of `Sonic/Proofs/StringDec.lean`, and also tracks the reference decoder `dec`, so the result
is both in-bounds and functionally correct (`KFinal`).
-/
namespace Sonic.Proofs.OnDemand
open Sonic.Gen Sonic.Spec Sonic.Model.StringDec Sonic.Proofs.StringBits Sonic.Proofs.StringDec

/-! ## `closeAt` -/

theorem closeAt_none {o : List Nat} {p : Nat} (h : o.length ≤ p) : closeAt o p = none := by
  unfold closeAt; rw [List.drop_eq_nil_of_le h]; rfl

theorem closeAt_lt {o : List Nat} {p S : Nat} (h : closeAt o p = some S) : p ≤ S ∧ S < o.length := by
  unfold closeAt at h
  simp only [Option.map_eq_some_iff] at h
  obtain ⟨i, hi, rfl⟩ := h
  have := scanL_lt _ _ _ hi
  rw [List.length_drop] at this
  omega

theorem closeAt_quote {o : List Nat} {p : Nat} (h : o[p]? = some 0x22) : closeAt o p = some p := by
  have hp : p < o.length := lt_of_get h
  unfold closeAt
  rw [List.drop_eq_getElem_cons hp]
  rw [List.getElem?_eq_getElem hp] at h; injection h with h
  simp [scanL, h]

theorem closeAt_plain {o : List Nat} {p c : Nat} (h : o[p]? = some c) (hq : c ≠ 0x22) (hb : c ≠ 0x5C) :
    closeAt o p = closeAt o (p + 1) := by
  have hp : p < o.length := lt_of_get h
  unfold closeAt
  rw [List.drop_eq_getElem_cons hp]
  rw [List.getElem?_eq_getElem hp] at h; injection h with h
  simp only [scanL, h, if_neg hb, if_neg hq, Option.map_map]
  congr 1; funext x; simp only [Function.comp]; omega

theorem closeAt_bs {o : List Nat} {p S : Nat} (h : o[p]? = some 0x5C) (hc : closeAt o p = some S) :
    p + 1 < o.length ∧ closeAt o (p + 2) = some S := by
  have hp : p < o.length := lt_of_get h
  unfold closeAt at hc
  rw [List.drop_eq_getElem_cons hp] at hc
  rw [List.getElem?_eq_getElem hp] at h; injection h with h
  simp only [scanL, h, if_true] at hc
  by_cases h1 : p + 1 < o.length
  · refine ⟨h1, ?_⟩
    rw [List.drop_eq_getElem_cons h1] at hc
    simp only [scanL, Option.map_map] at hc
    unfold closeAt
    rw [← hc]
    congr 1; funext x; simp only [Function.comp]; omega
  · rw [List.drop_eq_nil_of_le (by omega)] at hc
    simp [scanL] at hc

theorem closeAt_plain_run {o : List Nat} : ∀ (k p : Nat), p + k ≤ o.length →
    (∀ j, j < k → ∀ c, o[p + j]? = some c → isQuote c = false ∧ isBs c = false) →
    closeAt o p = closeAt o (p + k) := by
  intro k
  induction k with
  | zero => intro p _ _; rfl
  | succ k ih =>
    intro p hlen hpl
    have hp : p < o.length := by omega
    have hc := List.getElem?_eq_getElem hp
    obtain ⟨h1, h2⟩ := hpl 0 (by omega) _ (by rw [Nat.add_zero]; exact hc)
    simp only [isQuote, isBs, beq_eq_false_iff_ne, ne_eq] at h1 h2
    rw [closeAt_plain hc h1 h2, ih (p + 1) (by omega), show p + 1 + k = p + (k + 1) by omega]
    intro j hj c hcj
    exact hpl (j + 1) (by omega) c (by rw [← hcj]; congr 1; omega)

/-! ## the key buffer -/

structure KCtx (o : List Nat) (S W : Nat) : Prop where
  wpos : 0 < W
  wle : W ≤ 32
  len : o.length = S + 32
  bytes : ∀ (i c : Nat), o[i]? = some c → c < 256

theorem hexVal_plain {c h : Nat} (hh : hexVal c = some h) : c ≠ 0x22 ∧ c ≠ 0x5C := by
  unfold hexVal at hh
  repeat' split at hh
  all_goals first | omega | cases hh

theorem hex4_plain {o : List Nat} {p v : Nat} (h : hex4 o p = some v) :
    p + 4 ≤ o.length ∧ ∀ j, j < 4 → ∀ c, o[p + j]? = some c → isQuote c = false ∧ isBs c = false := by
  unfold hex4 at h
  split at h
  · rename_i a b c d ha hb hc hd
    split at h
    · rename_i h0 h1 h2 h3 e0 e1 e2 e3
      have r0 := hexVal_plain e0; have r1 := hexVal_plain e1
      have r2 := hexVal_plain e2; have r3 := hexVal_plain e3
      refine ⟨by have := lt_of_get hd; omega, ?_⟩
      intro j hj x hx
      have : j = 0 ∨ j = 1 ∨ j = 2 ∨ j = 3 := by omega
      simp only [isQuote, isBs, beq_eq_false_iff_ne, ne_eq]
      rcases this with rfl | rfl | rfl | rfl
      · rw [Nat.add_zero, ha] at hx; injection hx with hx; subst hx; exact r0
      · rw [hb] at hx; injection hx with hx; subst hx; exact r1
      · rw [hc] at hx; injection hx with hx; subst hx; exact r2
      · rw [hd] at hx; injection hx with hx; subst hx; exact r3
    · cases h
  · cases h

/-- an accepted escape stays on the path of the sequential scan -/
theorem escape_close {o : List Nat} {src S : Nat} (hbs : o[src]? = some 0x5C) (hc : closeAt o src = some S) :
    src + 2 ≤ S ∧ closeAt o (src + 2) = some S ∧
      ∀ xs p', escapeAt o (src + 1) = some (xs, p') → closeAt o p' = some S := by
  obtain ⟨h1, h2⟩ := closeAt_bs hbs hc
  have h3 := closeAt_lt h2
  refine ⟨h3.1, h2, ?_⟩
  intro xs p' he
  have hc1 := List.getElem?_eq_getElem h1
  by_cases hu : o[src + 1] = 0x75
  · rw [escapeAt_u (by rw [hc1, hu])] at he
    cases hue : uEscape o (src + 1) with
    | none => rw [hue] at he; cases he
    | some x =>
      obtain ⟨cp, n⟩ := x
      rw [hue] at he
      simp only [Option.some.injEq, Prod.mk.injEq] at he
      obtain ⟨_, rfl⟩ := he
      unfold uEscape at hue
      split at hue
      · cases hue
      · rename_i hi hh
        obtain ⟨l1, p1⟩ := hex4_plain hh
        have e1 : closeAt o (src + 2) = closeAt o (src + 6) := by
          have := closeAt_plain_run 4 (src + 2) (by omega)
            (fun j hj c hcj => p1 j hj c (by rw [← hcj]))
          exact this
        split at hue
        · split at hue
          · rename_i h56
            split at hue
            · cases hue
            · rename_i lo hl
              split at hue
              · simp only [Option.some.injEq, Prod.mk.injEq] at hue
                obtain ⟨_, hn⟩ := hue
                subst hn
                obtain ⟨l2, p2⟩ := hex4_plain hl
                have h6 : o[src + 6]? = some 0x5C := by rw [← h56.1]
                have e2 := closeAt_bs h6 (by rw [← e1]; exact h2)
                have e3 := closeAt_plain_run 4 (src + 8) (by omega)
                  (fun j hj c hcj => p2 j hj c (by rw [← hcj]))
                rw [show src + 1 + 11 = src + 8 + 4 by omega, ← e3]
                exact e2.2
              · cases hue
          · cases hue
        · split at hue
          · cases hue
          · simp only [Option.some.injEq, Prod.mk.injEq] at hue
            obtain ⟨_, hn⟩ := hue
            subst hn
            rw [show src + 1 + 5 = src + 6 by omega, ← e1]; exact h2
  · rw [escapeAt_simple hc1 hu] at he
    cases hse : simpleEscape o[src + 1] with
    | none => rw [hse] at he; cases he
    | some v =>
      rw [hse] at he
      simp only [Option.some.injEq, Prod.mk.injEq] at he
      obtain ⟨_, rfl⟩ := he
      exact h2

theorem kblock_cases {o b : List Nat} {S W src : Nat} (ctx : KCtx o S W)
    (hsuf : b.drop src = o.drop src) (hlen : b.length = o.length) (hS : closeAt o src = some S) :
    rdVec b src W = .ok ((o.drop src).take W) ∧
    (let k := mkBlock ((o.drop src).take W)
     (k.hasQuoteFirst = true ∧ src + k.qi = S ∧ o[src + k.qi]? = some 0x22 ∧ (∀ j, j < k.qi → Plain o (src + j)))
     ∨ (k.hasQuoteFirst = false ∧ k.hasUnescaped = true ∧ dec o src = none)
     ∨ (k.hasQuoteFirst = false ∧ k.hasUnescaped = false ∧ k.hasBackslash = false ∧
          (∀ j, j < W → Plain o (src + j)) ∧ closeAt o (src + W) = some S)
     ∨ (k.hasQuoteFirst = false ∧ k.hasUnescaped = false ∧ k.hasBackslash = true ∧
          o[src + k.bi]? = some 0x5C ∧ (∀ j, j < k.bi → Plain o (src + j)) ∧ k.bi < W ∧
          closeAt o (src + k.bi) = some S)) := by
  have hlenS := ctx.len
  have hW := ctx.wle
  have hSl := closeAt_lt hS
  refine ⟨by unfold rdVec; rw [if_pos (by omega), hsuf], ?_⟩
  intro k
  have hvl : ((o.drop src).take W).length = W := by
    rw [List.length_take, List.length_drop]; omega
  have hqi : k.qi ≤ W := hvl ▸ List.findIdx_le_length
  have hbi : k.bi ≤ W := hvl ▸ List.findIdx_le_length
  have hui : k.ui ≤ W := hvl ▸ List.findIdx_le_length
  have Lq : ∀ j, j < k.qi → ∀ c, o[src + j]? = some c → isQuote c = false := fun j hj c hc =>
    find_lt (p := isQuote) hj (by rw [vget (by omega)]; exact hc)
  have Lb : ∀ j, j < k.bi → ∀ c, o[src + j]? = some c → isBs c = false := fun j hj c hc =>
    find_lt (p := isBs) hj (by rw [vget (by omega)]; exact hc)
  have Lu : ∀ j, j < k.ui → ∀ c, o[src + j]? = some c → isCtl c = false := fun j hj c hc =>
    find_lt (p := isCtl) hj (by rw [vget (by omega)]; exact hc)
  have Aq : k.qi < W → ∃ c, o[src + k.qi]? = some c ∧ isQuote c = true := fun h => by
    obtain ⟨c, h1, h2⟩ := find_at (p := isQuote) (v := (o.drop src).take W) (by rw [hvl]; exact h)
    exact ⟨c, by rw [← vget h]; exact h1, h2⟩
  have Ab : k.bi < W → ∃ c, o[src + k.bi]? = some c ∧ isBs c = true := fun h => by
    obtain ⟨c, h1, h2⟩ := find_at (p := isBs) (v := (o.drop src).take W) (by rw [hvl]; exact h)
    exact ⟨c, by rw [← vget h]; exact h1, h2⟩
  have Au : k.ui < W → ∃ c, o[src + k.ui]? = some c ∧ isCtl c = true := fun h => by
    obtain ⟨c, h1, h2⟩ := find_at (p := isCtl) (v := (o.drop src).take W) (by rw [hvl]; exact h)
    exact ⟨c, by rw [← vget h]; exact h1, h2⟩
  by_cases hU : k.ui < k.qi
  · right; left
    refine ⟨by simp [Block.hasQuoteFirst, Block.hasUnescaped, hU],
      by simp [Block.hasUnescaped, hU], ?_⟩
    obtain ⟨c, hc, hctl⟩ := Au (by omega)
    exact dec_ctl_none o k.ui src c hc hctl (fun j hj d hd => Lq j (by omega) d hd)
  · have u0 : k.hasUnescaped = false := by simp [Block.hasUnescaped, hU]
    by_cases hQ : k.qi < k.bi
    · left
      obtain ⟨c, hc, hq⟩ := Aq (by omega)
      have hc22 : c = 0x22 := by simpa [isQuote] using hq
      subst hc22
      refine ⟨by simp [Block.hasQuoteFirst, Block.hasUnescaped, hU, hQ], ?_, hc, ?_⟩
      · have e := closeAt_plain_run k.qi src (by omega)
          (fun j hj c hc => ⟨Lq j hj c hc, Lb j (by omega) c hc⟩)
        rw [hS, closeAt_quote hc] at e
        injection e with e; exact e.symm
      · intro j hj c hc
        exact ⟨Lq j hj c hc, Lb j (by omega) c hc, Lu j (by omega) c hc⟩
    · right; right
      have q0 : k.hasQuoteFirst = false := by simp [Block.hasQuoteFirst, hQ]
      by_cases hB : k.bi < k.qi
      · right
        obtain ⟨c, hc, hb⟩ := Ab (by omega)
        have hc5c : c = 0x5C := by simpa [isBs] using hb
        subst hc5c
        refine ⟨q0, u0, by simp [Block.hasBackslash, hB], hc, ?_, by omega, ?_⟩
        · intro j hj c hc
          exact ⟨Lq j (by omega) c hc, Lb j hj c hc, Lu j (by omega) c hc⟩
        · rw [← closeAt_plain_run k.bi src (by omega)
            (fun j hj c hc => ⟨Lq j (by omega) c hc, Lb j hj c hc⟩)]
          exact hS
      · left
        have hEq : k.qi = k.bi := by omega
        have hqW : k.qi = W := by
          apply Classical.byContradiction; intro hne
          obtain ⟨c, hc, hq⟩ := Aq (by omega)
          obtain ⟨d, hd, hb⟩ := Ab (by omega)
          rw [hEq, hd] at hc; injection hc with hc; subst hc
          simp only [isQuote, isBs, beq_iff_eq] at hq hb; omega
        refine ⟨q0, u0, by simp [Block.hasBackslash, hB], ?_, ?_⟩
        · intro j hj c hc
          exact ⟨Lq j (by omega) c hc, Lb j (by omega) c hc, Lu j (by omega) c hc⟩
        · rw [← closeAt_plain_run W src (by omega)
            (fun j hj c hc => ⟨Lq j (by omega) c hc, Lb j (by omega) c hc⟩)]
          exact hS

/-! ## simulation -/

def KInv (o : List Nat) (S : Nat) : Cfg → Prop
  | .find b src => ∃ out, Inv o 0 b src src out ∧ dec o 0 = prepend out (dec o src) ∧ closeAt o src = some S
  | .cont b src dst => ∃ out, Inv o 0 b src dst out ∧ dec o 0 = prepend out (dec o src) ∧
      closeAt o src = some S ∧ o[src]? = some 0x5C
  | .fam b src dst => ∃ out, Inv o 0 b src dst out ∧ dec o 0 = prepend out (dec o src) ∧ closeAt o src = some S

/-- exits: a success returns the reference decoding of the literal, stops just after the closing quote `S`, and has
    stored the decoded bytes followed by NUL at the start of the buffer; an error means the reference rejects -/
def KFinal (o : List Nat) (S : Nat) : Outcome → Prop
  | .ok n next b' => ∃ out, dec o 0 = some (out, next) ∧ n = out.length ∧
      Inv o 0 b' next (n + 1) (out ++ [0]) ∧ next = S + 1
  | .err c => dec o 0 = none ∧
      (c = kParseErrorUnEscaped ∨ c = kParseErrorEscapedFormat ∨ c = kParseErrorEscapedUnicode)

def KPost (o : List Nat) (S m : Nat) : Cfg ⊕ Outcome → Prop
  | .inl c' => KInv o S c' ∧ Sonic.Proofs.StringDec.measure o c' < m
  | .inr r => KFinal o S r

theorem kstepFind_ok {o b : List Nat} {S W src : Nat} (ctx : KCtx o S W)
    (h : KInv o S (.find b src)) :
    ∃ r, stepFind W 0 b src = .ok r ∧ KPost o S (Sonic.Proofs.StringDec.measure o (.find b src)) r := by
  obtain ⟨out, hI, hR, hS⟩ := h
  have hlenS := ctx.len
  have hW := ctx.wle
  have hW0 := ctx.wpos
  have hSl := closeAt_lt hS
  obtain ⟨hv, hcases⟩ := kblock_cases ctx hI.suf hI.len hS
  unfold stepFind
  rw [hv]
  simp only
  rcases hcases with ⟨hq, hle, hqq, hpl⟩ | ⟨hq, hu, hnone⟩ | ⟨hq, hu, hb, hpl, hle⟩ | ⟨hq, hu, hb, hbb, hpl, hbw, hle⟩
  · rw [if_pos hq]
    have hI2 := hI.skip _ (show src + (mkBlock ((o.drop src).take W)).qi ≤ o.length by omega)
    have hI3 := hI2.store1 (src' := src + (mkBlock ((o.drop src).take W)).qi + 1) 0
      (by rw [hI.len]; omega) (by omega) (by omega)
    unfold wr
    rw [if_pos (by rw [hI.len]; omega)]
    refine ⟨_, rfl, ?_⟩
    refine ⟨out ++ (o.drop src).take (mkBlock ((o.drop src).take W)).qi, ?_, ?_, ?_, by omega⟩
    · rw [run_rel (by omega) hpl hR, dec_quote hqq]; simp [prepend]
    · have := hI.dsteq
      rw [List.length_append, List.length_take, List.length_drop]; omega
    · have e : (src + (mkBlock ((o.drop src).take W)).qi + 1 - 0 - 1) + 1
          = src + (mkBlock ((o.drop src).take W)).qi + 1 := by omega
      rw [e]; exact hI3
  · rw [if_neg (by simp [hq]), if_pos hu]
    exact ⟨_, rfl, by rw [hR, hnone]; rfl, Or.inl rfl⟩
  · rw [if_neg (by simp [hq]), if_neg (by simp [hu]), if_pos (by simp [hb])]
    have := closeAt_lt hle
    refine ⟨_, rfl, ⟨_, hI.skip W (by omega), run_rel (by omega) hpl hR, hle⟩, ?_⟩
    simp only [Sonic.Proofs.StringDec.measure]; omega
  · rw [if_neg (by simp [hq]), if_neg (by simp [hu]), if_neg (by simp [hb])]
    have := closeAt_lt hle
    refine ⟨_, rfl, ⟨_, hI.skip _ (by omega), run_rel (by omega) hpl hR, hle, hbb⟩, ?_⟩
    simp only [Sonic.Proofs.StringDec.measure]; omega

theorem kstepFam_ok {o b : List Nat} {S W src dst : Nat} (ctx : KCtx o S W)
    (h : KInv o S (.fam b src dst)) :
    ∃ r, stepFam W 0 b src dst = .ok r ∧ KPost o S (Sonic.Proofs.StringDec.measure o (.fam b src dst)) r := by
  obtain ⟨out, hI, hR, hS⟩ := h
  have hlenS := ctx.len
  have hW := ctx.wle
  have hW0 := ctx.wpos
  have hSl := closeAt_lt hS
  obtain ⟨hv, hcases⟩ := kblock_cases ctx hI.suf hI.len hS
  have hvl : ((o.drop src).take W).length = W := by
    rw [List.length_take, List.length_drop]; omega
  unfold stepFam
  rw [hv]
  simp only
  rcases hcases with ⟨hq, hle, hqq, hpl⟩ | ⟨hq, hu, hnone⟩ | ⟨hq, hu, hb, hpl, hle⟩ | ⟨hq, hu, hb, hbb, hpl, hbw, hle⟩
  · rw [if_pos hq]
    obtain ⟨b', hc, hI2⟩ := copyUntil_spec (stop := 0x22) (mkBlock ((o.drop src).take W)).qi b.length hI
      (by rw [hI.len]; omega) (by omega) (fun j hj => (plain_ne (hpl j hj)).1) hqq
    rw [hc]
    simp only
    have hle2 := hI.le
    have hI3 := hI2.store1 (src' := src + (mkBlock ((o.drop src).take W)).qi + 1) 0
      (by rw [hI2.len]; omega) (by omega) (by omega)
    unfold wr
    rw [if_pos (by rw [hI2.len]; omega)]
    refine ⟨_, rfl, ?_⟩
    refine ⟨out ++ (o.drop src).take (mkBlock ((o.drop src).take W)).qi, ?_, ?_, ?_, by omega⟩
    · rw [run_rel (by omega) hpl hR, dec_quote hqq]; simp [prepend]
    · have := hI.dsteq
      rw [List.length_append, List.length_take, List.length_drop]; omega
    · have e : (dst + (mkBlock ((o.drop src).take W)).qi - 0) + 1
          = dst + (mkBlock ((o.drop src).take W)).qi + 1 := by omega
      rw [e]; exact hI3
  · rw [if_neg (by simp [hq]), if_pos hu]
    exact ⟨_, rfl, by rw [hR, hnone]; rfl, Or.inl rfl⟩
  · rw [if_neg (by simp [hq]), if_neg (by simp [hu]), if_pos (by simp [hb])]
    have hle2 := hI.le
    have := closeAt_lt hle
    obtain ⟨b', hw, hI2⟩ := hI.storeVec (src' := src + W) ((o.drop src).take W) (by omega) (by omega) (by omega)
    rw [hw]
    simp only
    rw [hvl] at hI2
    refine ⟨_, rfl, ⟨_, hI2, run_rel (by omega) hpl hR, hle⟩, ?_⟩
    simp only [Sonic.Proofs.StringDec.measure]; omega
  · rw [if_neg (by simp [hq]), if_neg (by simp [hu]), if_neg (by simp [hb])]
    have := closeAt_lt hle
    obtain ⟨b', hc, hI2⟩ := copyUntil_spec (stop := 0x5C) (mkBlock ((o.drop src).take W)).bi b.length hI
      (by rw [hI.len]; omega) (by omega) (fun j hj => (plain_ne (hpl j hj)).2) hbb
    rw [hc]
    simp only
    refine ⟨_, rfl, ⟨_, hI2, run_rel (by omega) hpl hR, hle, hbb⟩, ?_⟩
    simp only [Sonic.Proofs.StringDec.measure]; omega

theorem kcontTail_ok {o b out : List Nat} {S src dst m : Nat}
    (hI : Inv o 0 b src dst out) (hR : dec o 0 = prepend out (dec o src)) (hS : closeAt o src = some S)
    (hm : 3 * (o.length - src) + 1 < m) :
    ∃ r, contTail b src dst = .ok r ∧ KPost o S m r := by
  have hSl := closeAt_lt hS
  have hc := List.getElem?_eq_getElem (show src < o.length by omega)
  unfold contTail
  rw [Sonic.Proofs.StringDec.rd_ok (by rw [hI.get (Nat.le_refl _)]; exact hc)]
  simp only
  by_cases h5 : o[src] = 0x5C
  · rw [if_pos h5]
    exact ⟨_, rfl, ⟨out, hI, hR, hS, by rw [hc, h5]⟩, by simp only [Sonic.Proofs.StringDec.measure]; omega⟩
  · rw [if_neg h5]
    exact ⟨_, rfl, ⟨out, hI, hR, hS⟩, by simp only [Sonic.Proofs.StringDec.measure]; omega⟩

theorem kstepCont_ok {o b : List Nat} {S W src dst : Nat} (ctx : KCtx o S W)
    (h : KInv o S (.cont b src dst)) :
    ∃ r, stepCont b src dst = .ok r ∧ KPost o S (Sonic.Proofs.StringDec.measure o (.cont b src dst)) r := by
  obtain ⟨out, hI, hR, hS, hbs⟩ := h
  have hlenS := ctx.len
  obtain ⟨hS2, hS3, hesc⟩ := escape_close hbs hS
  have hSl := closeAt_lt hS
  have hc := List.getElem?_eq_getElem (show src + 1 < o.length by omega)
  have hdec := dec_bs hbs
  unfold stepCont
  rw [Sonic.Proofs.StringDec.rd_ok (by rw [hI.get (by omega)]; exact hc)]
  simp only
  by_cases hu : o[src + 1] = 0x75
  · rw [if_pos hu]
    have hspec := handleUnicode_spec hI (by rw [hc, hu]) (by omega)
      (fun i c _ => ctx.bytes i c)
    cases he : escapeAt o (src + 1) with
    | none =>
      rw [he] at hspec hdec
      rw [hspec]
      exact ⟨_, rfl, by rw [hR, hdec]; rfl, Or.inr (Or.inr rfl)⟩
    | some x =>
      obtain ⟨xs, p'⟩ := x
      rw [he] at hspec hdec
      obtain ⟨b', hh, hI2⟩ := hspec
      rw [hh]
      simp only
      have hn := escapeAt_next he
      have hp' := hesc xs p' he
      exact kcontTail_ok hI2 (by rw [hR, hdec, prepend_prepend]) hp'
        (by simp only [Sonic.Proofs.StringDec.measure]; omega)
  · rw [if_neg hu]
    have hb256 := ctx.bytes _ _ hc
    unfold tbl
    rw [escmap_table _ hb256]
    simp only
    have hle := hI.le
    have hd : dst < b.length := by rw [hI.len]; omega
    unfold wr
    rw [if_pos hd]
    simp only
    rw [Sonic.Proofs.StringDec.rd_ok (show (b.set dst (escVal o[src + 1]))[dst]? = some (escVal o[src + 1]) by
      rw [List.getElem?_set, if_pos rfl, if_pos hd])]
    simp only
    have hes := escapeAt_simple hc hu
    unfold escVal
    cases hse : simpleEscape o[src + 1] with
    | none =>
      rw [hse] at hes
      rw [hes] at hdec
      simp only [if_true]
      exact ⟨_, rfl, by rw [hR, hdec]; rfl, Or.inr (Or.inl rfl)⟩
    | some v =>
      rw [hse] at hes
      rw [hes] at hdec
      simp only
      rw [if_neg (simpleEscape_ne_zero hse)]
      have hI2 := hI.store1 (src' := src + 1 + 1) v hd (by omega) (by omega)
      rw [show src + 2 = src + 1 + 1 by omega]
      exact kcontTail_ok hI2 (by rw [hR, hdec, prepend_prepend]) (by rw [show src + 1 + 1 = src + 2 by omega]; exact hS3)
        (by simp only [Sonic.Proofs.StringDec.measure]; omega)

theorem kstep_ok {o : List Nat} {S W : Nat} (ctx : KCtx o S W) (c : Cfg)
    (h : KInv o S c) : ∃ r, step W 0 c = .ok r ∧ KPost o S (Sonic.Proofs.StringDec.measure o c) r := by
  cases c with
  | find b src => exact kstepFind_ok ctx h
  | cont b src dst => exact kstepCont_ok ctx h
  | fam b src dst => exact kstepFam_ok ctx h

open Sonic.Model.OnDemand in
/-- the traced run used by the on-demand model: no fault, termination within the fuel, reference result -/
theorem decRunFuel_ok {o : List Nat} {S W : Nat} (ctx : KCtx o S W) :
    ∀ (fuel : Nat) (c : Cfg), KInv o S c → Sonic.Proofs.StringDec.measure o c < fuel →
      ∃ r src, decRunFuel W fuel c = .ok (r, src) ∧ KFinal o S r := by
  intro fuel
  induction fuel with
  | zero => intro c _ h; omega
  | succ f ih =>
    intro c hc hm
    obtain ⟨r, hr, hp⟩ := kstep_ok ctx c hc
    unfold decRunFuel
    rw [hr]
    cases r with
    | inl c' => exact ih c' hp.1 (by have := hp.2; omega)
    | inr out => exact ⟨out, _, rfl, hp⟩

open Sonic.Model.OnDemand in
theorem decRun_ok {o : List Nat} {S W : Nat} (ctx : KCtx o S W) (hS : closeAt o 0 = some S) :
    ∃ r src, decRun W o = .ok (r, src) ∧ KFinal o S r := by
  have := ctx.len
  apply decRunFuel_ok ctx
  · exact ⟨[], ⟨rfl, by simp, rfl, Nat.le_refl _, by simp⟩, by simp, hS⟩
  · simp only [Sonic.Proofs.StringDec.measure]; omega

open Sonic.Model.OnDemand in
/-- the traced run is `StringDec.run` (same steps, same fuel) plus the trace -/
theorem decRunFuel_fst (W : Nat) : ∀ (fuel : Nat) (c : Cfg),
    (decRunFuel W fuel c).map Prod.fst = runFuel W 0 fuel c := by
  intro fuel
  induction fuel with
  | zero => intro c; rfl
  | succ f ih =>
    intro c
    unfold decRunFuel runFuel
    cases step W 0 c with
    | error e => rfl
    | ok r =>
      cases r with
      | inl c' => exact ih c'
      | inr o => rfl

open Sonic.Model.OnDemand in
theorem decRun_fst (W : Nat) (kbuf : List Nat) : (decRun W kbuf).map Prod.fst = run W kbuf 0 :=
  decRunFuel_fst W _ _

end Sonic.Proofs.OnDemand
