import Sonic.Model.BigDecimal

/-!
# Big-decimal fallback (`AtofNative`): basic vocabulary for the digit buffer

`dval a n` is the natural number spelled by the first `n` bytes (ASCII digits) of the 800-byte buffer.
-/
namespace Sonic.Proofs.Dec

open Sonic.Model.BigDecimal

/-- value of the first `n` digits of the buffer, most significant first -/
def dval (a : Array Nat) : Nat → Nat
  | 0 => 0
  | n + 1 => dval a n * 10 + (rd a n - 48)

/-- the first `n` bytes are ASCII digits -/
def Digits (a : Array Nat) (n : Nat) : Prop := ∀ i, i < n → 48 ≤ rd a i ∧ rd a i ≤ 57

theorem rd_set_eq (a : Array Nat) (i v : Nat) (h : i < a.size) : rd (a.setIfInBounds i v) i = v := by
  unfold rd
  simp [Array.getD, h]

theorem rd_set_ne (a : Array Nat) (i j v : Nat) (h : i ≠ j) : rd (a.setIfInBounds i v) j = rd a j := by
  unfold rd
  simp only [Array.getD_eq_getD_getElem?, Array.getElem?_setIfInBounds_ne h]

theorem size_set (a : Array Nat) (i v : Nat) : (a.setIfInBounds i v).size = a.size := by simp

theorem dval_congr (a b : Array Nat) : ∀ n, (∀ i, i < n → rd a i = rd b i) → dval a n = dval b n
  | 0, _ => rfl
  | n + 1, h => by
    unfold dval
    rw [dval_congr a b n (fun i hi => h i (by omega)), h n (by omega)]

theorem Digits.mono {a : Array Nat} {n m : Nat} (h : Digits a n) (hm : m ≤ n) : Digits a m :=
  fun i hi => h i (by omega)

theorem Digits.congr {a b : Array Nat} {n : Nat} (h : Digits a n) (hab : ∀ i, i < n → rd a i = rd b i) :
    Digits b n := fun i hi => by rw [← hab i hi]; exact h i hi

theorem dval_lt (a : Array Nat) : ∀ n, Digits a n → dval a n < 10 ^ n
  | 0, _ => by simp [dval]
  | n + 1, h => by
    have ih := dval_lt a n (h.mono (by omega))
    have := h n (by omega)
    unfold dval
    rw [Nat.pow_succ]
    omega

theorem dval_succ (a : Array Nat) (n : Nat) : dval a (n + 1) = dval a n * 10 + (rd a n - 48) := rfl

/-- a non-zero leading digit bounds the value from below -/
theorem dval_ge (a : Array Nat) (hl : rd a 0 ≠ 48) : ∀ n, Digits a (n + 1) → 10 ^ n ≤ dval a (n + 1)
  | 0, h => by
    have := h 0 (by omega)
    simp only [dval]
    omega
  | n + 1, h => by
    have ih := dval_ge a hl n (h.mono (by omega))
    rw [dval_succ, Nat.pow_succ]
    omega

/-- the well-formedness invariant of a `Decimal` -/
structure WF (d : Decimal) : Prop where
  size : d.d.size = 800
  nd_le : d.nd ≤ 800
  digits : Digits d.d d.nd
  lead : 0 < d.nd → rd d.d 0 ≠ 48
  nofault : d.fault = false

/-- the natural number spelled by the digits of `d` -/
def Dnat (d : Decimal) : Nat := dval d.d d.nd

/-- no trailing zero digit -/
def Trimmed (d : Decimal) : Prop := d.nd = 0 ∨ rd d.d (d.nd - 1) ≠ 48

theorem trimLoop_spec (a : Array Nat) : ∀ n, trimLoop a n ≤ n ∧
    (trimLoop a n = 0 ∨ rd a (trimLoop a n - 1) ≠ 48) ∧ dval a n = dval a (trimLoop a n) * 10 ^ (n - trimLoop a n)
  | 0 => by simp [trimLoop]
  | n + 1 => by
    unfold trimLoop
    by_cases h : rd a n = 48
    · rw [if_pos h]
      obtain ⟨h1, h2, h3⟩ := trimLoop_spec a n
      refine ⟨by omega, h2, ?_⟩
      rw [dval_succ, h, h3, show n + 1 - trimLoop a n = (n - trimLoop a n) + 1 by omega, Nat.pow_succ]
      simp [Nat.mul_assoc]
    · rw [if_neg h]
      exact ⟨Nat.le_refl _, Or.inr (by simpa using h), by simp⟩

/-- the result of keeping the first digits of the exact `wf`-digit number `Wf`: at most 800 of them, trailing zeros
    removed; `trunc` is raised exactly when a non-zero digit is lost -/
def Approx (Wf wf D' nd' : Nat) (tr tr' : Bool) : Prop :=
  ∃ c, nd' + c = wf ∧ D' = Wf / 10 ^ c ∧
    ((Wf % 10 ^ c = 0 ∧ tr' = tr) ∨ (Wf % 10 ^ c ≠ 0 ∧ tr' = true ∧ 800 ≤ wf ∧ Wf % 10 ^ c < 10 ^ (wf - 800)))

/-- truncate to 800 digits (raising `trunc` for a non-zero loss), then trim: an `Approx` -/
theorem approx_of_trunc_trim (Wf wf D1 z : Nat) (tr : Bool) (hD1 : D1 = Wf / 10 ^ (wf - 800))
    (hz : z ≤ min wf 800) (hdiv : D1 = D1 / 10 ^ z * 10 ^ z) :
    Approx Wf wf (D1 / 10 ^ z) (min wf 800 - z) tr (tr || decide (Wf % 10 ^ (wf - 800) ≠ 0)) := by
  refine ⟨(wf - 800) + z, by omega, ?_, ?_⟩
  · rw [hD1, Nat.pow_add, Nat.div_div_eq_div_mul]
  · have hmod : Wf % 10 ^ (wf - 800 + z) = Wf % 10 ^ (wf - 800) := by
      rw [Nat.pow_add, Nat.mod_mul, ← hD1]
      have : D1 % 10 ^ z = 0 := by
        rw [hdiv]; exact Nat.mul_mod_left _ _
      rw [this]; simp
    rw [hmod]
    by_cases h0 : Wf % 10 ^ (wf - 800) = 0
    · left; simp [h0]
    · right
      refine ⟨h0, by simp [h0], ?_, Nat.mod_lt _ (Nat.pow_pos (by omega))⟩
      apply Classical.byContradiction
      intro hlt
      have : wf - 800 = 0 := by omega
      rw [this] at h0
      simp [Nat.mod_one] at h0

theorem lead_of_ge (a : Array Nat) (n : Nat) (hd : Digits a (n + 1)) (h : 10 ^ n ≤ dval a (n + 1)) : rd a 0 ≠ 48 := by
  intro h0
  have : ∀ m, m ≤ n → dval a (m + 1) < 10 ^ m := by
    intro m
    induction m with
    | zero => intro _; simp [dval, h0]
    | succ m ih =>
      intro hm
      have := ih (by omega)
      have hdg := hd (m + 1) (by omega)
      rw [dval_succ, Nat.pow_succ]
      omega
  have := this n (Nat.le_refl _)
  omega

end Sonic.Proofs.Dec
