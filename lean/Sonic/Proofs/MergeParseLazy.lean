import Sonic.Spec.Json
import Sonic.Model.Lazy
import Sonic.Proofs.MergeLazy
import Sonic.Proofs.MergeLazyText
import Sonic.Proofs.MergeShift
import Sonic.Proofs.OnDemandAgree

/-!
# C20: one call of `ParseLazy` on a valid text yields a lazy node that denotes the text's value
-/
namespace Sonic.Proofs.MergeParseLazy
open Sonic.Gen Sonic.Spec Sonic.Spec.Merge Sonic.Spec.Json Sonic.Model.Lazy Sonic.Model.OnDemand
open Sonic.Proofs.OnDemand Sonic.Proofs.MergeLazy Sonic.Proofs.MergeLazyText Sonic.Proofs.MergeShift

/-! ## a slice of a valid text, read on its own -/

theorem seg_get {d : List Nat} {a b j : Nat} (hj : j < b - a) : (seg d a b)[j]? = d[a + j]? := by
  unfold seg
  rw [List.getElem?_take, if_pos hj, List.getElem?_drop]

/-- a value found at `p` in a text, together with trailing whitespace, is a text for the same value -/
theorem slice_parse {d : List Nat} {f p : Nat} {v : JVal} {e stop : Nat} (hv : parseValue d f p = .ok (v, e))
    (h1 : e ≤ stop) (h2 : stop ≤ d.length) (hws : WsRange d e stop) (hN : NumEnd d e)
    (hd : ∀ x ∈ d, x < 256) : rawDen (seg d p stop) = some v := by
  obtain ⟨b1, b2, _⟩ := (value_neut d f).1 _ _ _ hv
  obtain ⟨c, hc, hcs, _⟩ := value_start hv
  have hlen : (seg d p stop).length = stop - p := seg_length h2
  have hA : Agree d p (seg d p stop) 0 (e - p) := by
    intro j hj
    rw [Nat.zero_add, seg_get (by omega)]
  have hN2 : NumEnd (seg d p stop) (0 + (e - p)) := by
    intro c' hc'
    rw [Nat.zero_add] at hc'
    by_cases hlt : e < stop
    · rw [seg_get (by omega), show p + (e - p) = e by omega] at hc'
      exact hN c' hc'
    · rw [List.getElem?_eq_none (by omega)] at hc'; cases hc'
  have hpv := parseValue_shift hv hA hN hN2 (2 * (seg d p stop).length + 2) (by omega)
  rw [Nat.zero_add] at hpv
  have hhead : (seg d p stop)[0]? = some c := by rw [seg_get (by omega)]; exact hc
  have h0 : skipWs (seg d p stop) (seg d p stop).length 0 = 0 :=
    skipWs_unique ⟨Nat.le_refl _, by omega, fun j h1 h2 => by omega,
      fun c' hc' => by rw [hhead] at hc'; cases hc'; exact hcs⟩
  have hend : skipWs (seg d p stop) (seg d p stop).length (e - p) = (seg d p stop).length := by
    apply skipWs_end (by omega)
    intro j hj1 hj2 c' hc'
    rw [seg_get (by omega)] at hc'
    exact hws _ (by omega) (by omega) c' hc'
  have hp : parse (seg d p stop) = .ok v := parse_intro (by rw [h0]; exact hpv) hend
  have hall : (seg d p stop).all (· < 256) = true := by
    rw [List.all_eq_true]
    intro x hx
    have : x ∈ d := List.mem_of_mem_drop (List.mem_of_mem_take hx)
    simpa using hd x this
  unfold rawDen
  cases hs : seg d p stop with
  | nil => rw [hs] at hhead; simp at hhead
  | cons c0 t =>
    rw [hs] at hhead hp hall
    simp only [List.getElem?_cons_zero, Option.some.injEq] at hhead
    subst hhead
    simp only [isWs_eq, hcs, Bool.false_eq_true, if_false, hp, hall, if_true]

theorem numEnd_of_follow {d : List Nat} {e : Nat} (h : Follow d e) : NumEnd d e := by
  obtain ⟨q, h1, h2, h3, h4⟩ := h
  intro c hc
  by_cases he : e = q
  · subst he
    rcases h4 with h4 | ⟨c', hc', hcc⟩
    · rw [List.getElem?_eq_none (by omega)] at hc; cases hc
    · rw [hc] at hc'; cases hc'
      rcases hcc with rfl | rfl | rfl <;> rfl
  · exact isNumChar_of_space (h3 e (Nat.le_refl _) (by omega) c hc)

/-! ## the scanner primitives as used by `parseLazyImpl` -/

/-- at a non-space byte `SkipSpaceSafe` returns it at once and never looks at the cached block -/
theorem skipSpaceSafe_nonspace (d : List Nat) (cache : Cache) (q c : Nat) (hq : d[q]? = some c)
    (hc : isSpace c = false) : skipSpaceSafe d cache q = .ok (c, q + 1, cache) := by
  have hlt := Sonic.Proofs.StringDec.lt_of_get hq
  have hns : IsFirstNS d q q := ⟨Nat.le_refl _, hlt, fun j h1 h2 => by omega,
    fun c' hc' => by rw [hq] at hc'; cases hc'; exact hc⟩
  unfold skipSpaceSafe
  by_cases hp : q + 64 + 2 > d.length
  · rw [if_pos hp]
    simp only [bind, Except.bind, pure, Except.pure]
    rw [spaceTail_found d q _ q hns (by omega), hq]; rfl
  · rw [if_neg hp, rd_ok hlt]
    simp only [bind, Except.bind, pure, Except.pure]
    have : d[q] = c := by rw [List.getElem?_eq_getElem hlt] at hq; injection hq
    rw [this, hc]; rfl

/-- what the loops of `parseLazyImpl` know about the scanner cache when they call `SkipOne` at `pos` with the next
    value starting at `p`: either the usual invariant at `pos`, or `pos` is the value's first byte itself (the
    `pos--` cases) and the invariant holds just after it -/
def CacheOK (d : List Nat) (cache : Cache) (pos p : Nat) : Prop :=
  CValid d cache ∧ (CInv d cache pos ∨ (pos = p ∧ CInv d cache (p + 1)))

/-- `SkipOne` (with the cache of its `SkipSpaceSafe`) on a value of a valid text -/
theorem skipOneC_value {W : Nat} (hW : 0 < W) {d : List Nat} {f p : Nat} {v : JVal} {e : Nat}
    (hv : parseValue d f p = .ok (v, e)) (hfol : Follow d e) {cache : Cache} {pos : Nat}
    (hns : IsFirstNS d pos p) (hC : CacheOK d cache pos p) :
    ∃ stop cache', skipOneC W d cache pos = .ok (.ok p stop, cache') ∧ e ≤ stop ∧ stop ≤ d.length ∧
      WsRange d e stop ∧ CInv d cache' (p + 1) ∧ CValid d cache' := by
  obtain ⟨c, hc, hcs, _⟩ := value_start hv
  obtain ⟨hV, hI | ⟨rfl, hI⟩⟩ := hC
  · obtain ⟨stop, h1, h2, h3, h4, _⟩ := skipOne_value hW hv hfol hns hI hV
    obtain ⟨cache', h5, h6, h7⟩ := skipSpaceSafe_found d cache pos p hns hI hV
    refine ⟨stop, cache', ?_, h2, h3, h4, h6, h7⟩
    simp [skipOneC, h5, h1, bind, Except.bind, pure, Except.pure]
  · obtain ⟨stop, h1, h2, h3, h4, _⟩ := skipOne_value hW hv hfol hns (CInv.init d pos) (CValid.init d)
    have e1 := skipSpaceSafe_nonspace d cache pos c hc hcs
    have e2 := skipSpaceSafe_nonspace d Cache.init pos c hc hcs
    have e3 : skipOne W d cache pos = skipOne W d Cache.init pos := by
      unfold skipOne
      simp only [bind, Except.bind, e1, e2]
    refine ⟨stop, cache, ?_, h2, h3, h4, hI, hV⟩
    simp [skipOneC, e1, e3, h1, bind, Except.bind, pure, Except.pure]

/-- the raw node made of the slice that `SkipOne` returned denotes the value -/
theorem rawOf_value {d : List Nat} {f p : Nat} {v : JVal} {e stop : Nat} (hv : parseValue d f p = .ok (v, e))
    (hfol : Follow d e) (h1 : e ≤ stop) (h2 : stop ≤ d.length) (hws : WsRange d e stop)
    (hd : ∀ x ∈ d, x < 256) : ∃ n, rawOf d p stop = .ok n ∧ den n = some v := by
  obtain ⟨b1, b2, _⟩ := (value_neut d f).1 _ _ _ hv
  refine ⟨.raw (seg d p stop), ?_, ?_⟩
  · unfold rawOf
    rw [if_neg (by omega), rdVec_ok (by omega)]
    rfl
  · rw [den]; exact slice_parse hv h1 h2 hws (numEnd_of_follow hfol) hd

open Sonic.Proofs.StringDec in
/-- on a well-formed key, `lazyKey` returns the DECODED key (through the private copy and the literal decoder
    model when `SkipString` reported an escape) -/
theorem lazyKey_value {W : Nat} (hW : 0 < W) (hW32 : W ≤ 32) (d : List Nat) (hd : ∀ x ∈ d, x < 256)
    (junk : Nat → Nat → Nat) (hj : ∀ s i, junk s i < 256) {p afterKey r : Nat} {k : List Nat}
    (hdec : decodeLit d (p + 1) = some (k, afterKey)) (hr : skipString W d (p + 1) = .ok (r, afterKey)) :
    lazyKey W d junk r (p + 1) afterKey = .ok (.inr k) := by
  obtain ⟨h1, h2⟩ := decodeLit_closeAt hdec
  have h3 := closeAt_lt h2
  obtain ⟨r', er, hr0, hr1⟩ := skipString_value hW hdec
  rw [hr] at er; injection er with er; injection er with er _; subst er
  have hle := skipString_le2 hr
  have hsc : scanL false (d.drop (p + 1)) = some (afterKey - 1 - (p + 1)) := by
    unfold closeAt at h2
    simp only [Option.map_eq_some_iff] at h2
    obtain ⟨i, hi, hie⟩ := h2
    rw [hi]; congr 1; omega
  unfold lazyKey
  rw [if_neg (by omega)]
  simp only
  generalize hi : afterKey - 1 - (p + 1) = i at hsc ⊢
  rw [decodeLit_eq_dec] at hdec
  by_cases h2' : r = 2
  · subst h2'
    rw [if_pos (by decide), rdVec_ok (by omega)]
    simp only [bind, Except.bind, pure, Except.pure]
    obtain ⟨ctx, hc⟩ := kbuf_ctx hW hW32 d hd (junk (p + 1)) (hj (p + 1)) (p + 1) i hsc
    obtain ⟨res, src, e, hf⟩ := decRun_ok ctx hc
    have hrun : Sonic.Model.StringDec.run W (mkKbuf ((d.drop (p + 1)).take (i + 1)) (junk (p + 1))) 0 = .ok res := by
      rw [← decRun_fst, e]; rfl
    rw [hrun]
    have hkd : dec (mkKbuf ((d.drop (p + 1)).take (i + 1)) (junk (p + 1))) 0 = some (k, 0 + (afterKey - (p + 1))) := by
      apply dec_shift d _ _ (p + 1) 0 k afterKey (Nat.le_refl _) hdec
      intro j hj
      unfold mkKbuf
      rw [Nat.zero_add, List.getElem?_append_left (by rw [List.length_take, List.length_drop]; omega),
        List.getElem?_take, if_pos (by omega), List.getElem?_drop]
    cases res with
    | err code => rw [hf.1] at hkd; cases hkd
    | ok n next b =>
      obtain ⟨out, ho, hn, hI, hnext⟩ := hf
      rw [ho] at hkd
      simp only [Option.some.injEq, Prod.mk.injEq] at hkd
      obtain ⟨rfl, _⟩ := hkd
      have hpre := hI.pre
      have hlen := hI.len
      have hle' := hI.le
      have hcl := ctx.len
      simp only
      rw [if_pos (by omega)]
      have : b.take n = out := by
        have := congrArg (List.take n) hpre
        rw [List.take_take, Nat.min_eq_left (by omega)] at this
        rw [this]; simp [hn]
      rw [this]
  · have hr1' : r = 1 := by omega
    subst hr1'
    have hnb := hr1 rfl
    have hk : k = (d.drop (p + 1)).take i := by
      have := dec_nobs d _ (p + 1) k afterKey (Nat.le_refl _) hdec hnb
      rw [this, hi]
    rw [if_neg (by decide), rdVec_ok (by omega)]
    simp only [bind, Except.bind, pure, Except.pure]
    rw [hk]

/-! ## the loops of `parseLazyImpl` -/

/-- after a value that ends at `next` and is followed (after whitespace) by the non-space byte at
    `q = skipWs next`, the scanner restarted at `stop` (only whitespace in `[next, stop)`) finds that byte -/
theorem firstNS_after {d : List Nat} {next stop c : Nat} (hq : d[skipWs d d.length next]? = some c)
    (hc : isSpace c = false) (h1 : next ≤ stop) (hws : WsRange d next stop) :
    IsFirstNS d stop (skipWs d d.length next) := by
  have hf := skipWs_first hq hc
  apply hf.shrink h1
  rcases Nat.lt_or_ge (skipWs d d.length next) stop with hlt | hge
  · have := hws _ hf.1 hlt c hq
    rw [hc] at this; cases this
  · exact hge

theorem denList_append_single : ∀ (a : List LNode) (va : List JVal) (n : LNode) (v : JVal),
    denList a = some va → den n = some v → denList (a ++ [n]) = some (va ++ [v])
  | [], va, n, v, h, hv => by
    simp only [denList, Option.some.injEq] at h; subst h
    simp [denList, hv]
  | x :: a, va, n, v, h, hv => by
    rw [denList] at h
    cases hx : den x with
    | none => simp [hx] at h
    | some vx =>
      cases ha : denList a with
      | none => simp [hx, ha] at h
      | some va' =>
        simp only [hx, ha, Option.some.injEq] at h; subst h
        simp [denList, hx, denList_append_single a va' n v ha hv]

theorem lazyElems_ok {W : Nat} (hW : 0 < W) (d : List Nat) (hd : ∀ x ∈ d, x < 256) : ∀ (f p : Nat) (xs : List JVal) (e fuel : Nat)
    (cache : Cache) (pos : Nat) (acc : List LNode),
    parseElems d f p = .ok (xs, e) → IsFirstNS d pos p → CacheOK d cache pos p → d.length - p < fuel →
    ∃ ns, lazyElems W d fuel cache pos acc = .ok (.ok (.arr (acc.reverse ++ ns))) ∧ denList ns = some xs := by
  intro f
  induction f with
  | zero => intro p xs e fuel cache pos acc h; simp [parseElems] at h
  | succ f ih =>
    intro p xs e fuel cache pos acc h hns hC hfuel
    obtain ⟨fuel', rfl⟩ : ∃ g, fuel = g + 1 := ⟨fuel - 1, by omega⟩
    obtain ⟨v, next, hv, hcase⟩ := parseElems_inv h
    obtain ⟨v1, v2, _⟩ := (value_neut d f).1 _ _ _ hv
    have hqc : ∃ c, d[skipWs d d.length next]? = some c ∧ (c = 0x2C ∨ c = 0x5D ∨ c = 0x7D) := by
      rcases hcase with ⟨hq, _, _⟩ | ⟨hq, _, _, _⟩
      · exact ⟨_, hq, Or.inr (Or.inl rfl)⟩
      · exact ⟨_, hq, Or.inl rfl⟩
    obtain ⟨cq, hcq, hcq'⟩ := hqc
    have hcqs : isSpace cq = false := by rcases hcq' with rfl | rfl | rfl <;> rfl
    have hfol : Follow d next := follow_of_skipWs hcq hcq'
    obtain ⟨stop, cache', hso, s1, s2, s3, s4, s5⟩ := skipOneC_value hW hv hfol hns hC
    obtain ⟨n, hn1, hn2⟩ := rawOf_value hv hfol s1 s2 s3 hd
    have hns2 := firstNS_after hcq hcqs s1 s3
    obtain ⟨cache'', hsp, c1, c2⟩ := skipSpaceSafe_found d cache' stop _ hns2 (s4.mono (by omega)) s5
    rw [hcq] at hsp
    simp only [Option.getD_some] at hsp
    rw [lazyElems]
    simp only [bind, Except.bind, pure, Except.pure, hso, hn1, hsp]
    rcases hcase with ⟨hq, hxs, _⟩ | ⟨hq, vs, hr, hxs⟩
    · rw [hcq] at hq; cases hq
      subst hxs
      refine ⟨[n], by simp, by simp [denList, hn2]⟩
    · rw [hcq] at hq; cases hq
      subst hxs
      simp only [BEq.rfl, if_true]
      obtain ⟨f', rfl⟩ : ∃ g, f = g + 1 := by
        cases f with
        | zero => simp [parseElems] at hr
        | succ g => exact ⟨g, rfl⟩
      obtain ⟨v', next', hv', _⟩ := parseElems_inv hr
      obtain ⟨c', hc', hcs', _⟩ := value_start hv'
      have hns3 := skipWs_first hc' hcs'
      have hge := (skipWs_spec d d.length next).1
      obtain ⟨ns, hl, hd⟩ := ih _ vs e fuel' cache'' _ (n :: acc) hr hns3 ⟨c2, Or.inl c1⟩
        (by have := hns3.1; omega)
      refine ⟨n :: ns, by rw [hl]; simp, by simp [denList, hn2, hd]⟩

theorem lazyMembers_ok {W : Nat} (hW : 0 < W) (hW32 : W ≤ 32) (d : List Nat) (hd : ∀ x ∈ d, x < 256)
    (junk : Nat → Nat → Nat) (hj : ∀ s i, junk s i < 256) : ∀ (f p : Nat) (kvs : Members) (e fuel : Nat)
    (cache : Cache) (acc : LMembers),
    parseMembers d f p = .ok (kvs, e) → CInv d cache (p + 1) → CValid d cache → d.length - p < fuel →
    ∃ ns, lazyMembers W d junk fuel cache 0x22 (p + 1) acc = .ok (.ok (.obj (acc.reverse ++ ns))) ∧
      denMembers ns = some kvs := by
  intro f
  induction f with
  | zero => intro p kvs e fuel cache acc h; simp [parseMembers] at h
  | succ f ih =>
    intro p kvs e fuel cache acc h hI hV hfuel
    obtain ⟨fuel', rfl⟩ : ∃ g, fuel = g + 1 := ⟨fuel - 1, by omega⟩
    obtain ⟨h0, k, ak, hk, hcol, v, next, hv, hcase⟩ := parseMembers_inv h
    obtain ⟨k1, _⟩ := decodeLit_closeAt hk
    obtain ⟨v1, v2, _⟩ := (value_neut d f).1 _ _ _ hv
    obtain ⟨r, hss, hr0, _⟩ := skipString_value hW hk
    have hkey := lazyKey_value hW hW32 d hd junk hj hk hss
    -- the colon
    have hnsc := skipWs_first hcol (by rfl : isSpace 0x3A = false)
    obtain ⟨cache1, hsp1, a1, a2⟩ := skipSpaceSafe_found d cache ak _ hnsc (hI.mono (by omega)) hV
    rw [hcol] at hsp1
    simp only [Option.getD_some] at hsp1
    -- the value
    obtain ⟨cv, hcv, hcvs, _⟩ := value_start hv
    have hnsv := skipWs_first hcv hcvs
    have hqc : ∃ c, d[skipWs d d.length next]? = some c ∧ (c = 0x2C ∨ c = 0x5D ∨ c = 0x7D) := by
      rcases hcase with ⟨hq, _, _⟩ | ⟨hq, _, _, _⟩
      · exact ⟨_, hq, Or.inr (Or.inr rfl)⟩
      · exact ⟨_, hq, Or.inl rfl⟩
    obtain ⟨cq, hcq, hcq'⟩ := hqc
    have hcqs : isSpace cq = false := by rcases hcq' with rfl | rfl | rfl <;> rfl
    have hfol : Follow d next := follow_of_skipWs hcq hcq'
    obtain ⟨stop, cache2, hso, s1, s2, s3, s4, s5⟩ := skipOneC_value hW hv hfol hnsv ⟨a2, Or.inl a1⟩
    obtain ⟨n, hn1, hn2⟩ := rawOf_value hv hfol s1 s2 s3 hd
    have hns2 := firstNS_after hcq hcqs s1 s3
    have hgv := hnsv.1
    obtain ⟨cache3, hsp3, c1, c2⟩ := skipSpaceSafe_found d cache2 stop _ hns2 (s4.mono (by omega)) s5
    rw [hcq] at hsp3
    simp only [Option.getD_some] at hsp3
    rw [lazyMembers]
    have hr0' : (r == 0) = false := by simpa using hr0
    simp only [bind, Except.bind, pure, Except.pure, bne_self_eq_false, Bool.false_eq_true, if_false, hss, hr0',
      hkey, hsp1, hso, hn1, hsp3]
    rcases hcase with ⟨hq, hxs, _⟩ | ⟨hq, rest, hr, hxs⟩
    · rw [hcq] at hq; cases hq
      subst hxs
      refine ⟨[(k, n)], by simp, by simp [denMembers, hn2]⟩
    · rw [hcq] at hq; cases hq
      subst hxs
      simp only [BEq.rfl, if_true]
      obtain ⟨f', rfl⟩ : ∃ g, f = g + 1 := by
        cases f with
        | zero => simp [parseMembers] at hr
        | succ g => exact ⟨g, rfl⟩
      obtain ⟨h0', _⟩ := parseMembers_inv hr
      have hns3 := skipWs_first h0' (by rfl : isSpace 0x22 = false)
      obtain ⟨cache4, hsp4, g1, g2⟩ := skipSpaceSafe_found d cache3 _ _ hns3 c1 c2
      rw [h0'] at hsp4
      simp only [Option.getD_some] at hsp4
      simp only [hsp4]
      have hge := (skipWs_spec d d.length next).1
      have hga := (skipWs_spec d d.length ak).1
      obtain ⟨ns, hl, hdn⟩ := ih _ rest e fuel' cache4 ((k, n) :: acc) hr g1 g2
        (by have := hns3.1; have := hns3.2.1; omega)
      refine ⟨(k, n) :: ns, by rw [hl]; simp, by simp [denMembers, hn2, hdn]⟩

/-! ## `ParseLazy` on a valid text -/

theorem follow_end {d : List Nat} {e : Nat} (he : e ≤ d.length) (h : skipWs d d.length e = d.length) : Follow d e :=
  ⟨d.length, he, Nat.le_refl _, by have := skipWs_range d d.length e; rwa [h] at this, Or.inl rfl⟩

/-- **one-level correctness of `ParseLazy`** on a valid text of bytes -/
theorem parseLazyOK {W : Nat} (hW : 0 < W) (hW32 : W ≤ 32) (junk : Nat → Nat → Nat) (hj : ∀ s i, junk s i < 256) :
    ParseLazyOK W junk := by
  intro d v hd hp
  obtain ⟨e, hv, hend⟩ := parse_inv hp
  obtain ⟨b1, b2, _⟩ := (value_neut d _).1 _ _ _ hv
  obtain ⟨c, hc, hcs, _, _, _, hobj, harr⟩ := value_start hv
  have hns0 := skipWs_first hc hcs
  obtain ⟨cache1, hsp1, a1, a2⟩ := skipSpaceSafe_found d Cache.init 0 _ hns0 (CInv.init d 0) (CValid.init d)
  rw [hc] at hsp1
  simp only [Option.getD_some] at hsp1
  have hfol : Follow d e := follow_end b2 hend
  have hhead : d.head? = some 0x7B → c = 0x7B := by
    intro hh
    have h0 : d[0]? = some 0x7B := by rw [← List.head?_eq_getElem?]; exact hh
    have : skipWs d d.length 0 = 0 := skipWs_unique ⟨Nat.le_refl _, Sonic.Proofs.StringDec.lt_of_get h0,
      fun j h1 h2 => by omega, fun c' hc' => by rw [h0] at hc'; cases hc'; rfl⟩
    rw [this, h0] at hc; cases hc; rfl
  obtain ⟨g, hg⟩ : ∃ g, 2 * d.length + 2 = g + 1 := ⟨2 * d.length + 1, by omega⟩
  rw [hg] at hv
  obtain ⟨c', hc', sh⟩ := parseValue_inv hv
  rw [hc] at hc'; cases hc'
  unfold parseLazy
  simp only [bind, Except.bind, pure, Except.pure, hsp1]
  by_cases h5B : c = 0x5B
  · subst h5B
    simp only [BEq.rfl, if_true]
    cases sh with
    | arrEmpty hq hvv he =>
      have hnsq := skipWs_first hq (by rfl : isSpace 0x5D = false)
      obtain ⟨cache2, hsp2, _, _⟩ := skipSpaceSafe_found d cache1 _ _ hnsq a1 a2
      rw [hq] at hsp2
      simp only [Option.getD_some] at hsp2
      simp only [hsp2, BEq.rfl, if_true]
      subst hvv
      exact ⟨.arr [], rfl, by simp [den, denList], fun hh => by have := hhead hh; omega⟩
    | arr xs hq hel hvv =>
      subst hvv
      obtain ⟨f', rfl⟩ : ∃ f', g = f' + 1 := by
        cases g with
        | zero => simp [parseElems] at hel
        | succ f' => exact ⟨f', rfl⟩
      obtain ⟨v', next', hv', _⟩ := parseElems_inv hel
      obtain ⟨cq, hcq, hcqs, hcq5, _⟩ := value_start hv'
      have hnsq := skipWs_first hcq hcqs
      obtain ⟨cache2, hsp2, i1, i2⟩ := skipSpaceSafe_found d cache1 _ _ hnsq a1 a2
      rw [hcq] at hsp2
      simp only [Option.getD_some] at hsp2
      have hne : (cq == 0x5D) = false := by simpa using hcq5
      simp only [hsp2, hne, Bool.false_eq_true, if_false]
      have hdp : decPos (skipWs d d.length (skipWs d d.length 0 + 1) + 1) =
          skipWs d d.length (skipWs d d.length 0 + 1) := by simp [decPos]
      rw [hdp]
      obtain ⟨ns, hl, hdn⟩ := lazyElems_ok hW d hd _ _ xs e (d.length + 2) cache2 _ [] hel
        ⟨Nat.le_refl _, hnsq.2.1, fun j h1 h2 => by omega, hnsq.2.2.2⟩ ⟨i2, Or.inr ⟨rfl, i1⟩⟩ (by omega)
      rw [hl]
      exact ⟨.arr ns, by simp, by simp [den, hdn], fun hh => by have := hhead hh; omega⟩
    | num c' hcc n hn hvv => omega
  · have h5B' : (c == 0x5B) = false := by simpa using h5B
    simp only [h5B', Bool.false_eq_true, if_false]
    by_cases h7B : c = 0x7B
    · subst h7B
      simp only [BEq.rfl, if_true]
      cases sh with
      | objEmpty hq hvv he =>
        have hnsq := skipWs_first hq (by rfl : isSpace 0x7D = false)
        obtain ⟨cache2, hsp2, _, _⟩ := skipSpaceSafe_found d cache1 _ _ hnsq a1 a2
        rw [hq] at hsp2
        simp only [Option.getD_some] at hsp2
        simp only [hsp2, BEq.rfl, if_true]
        subst hvv
        exact ⟨.obj [], rfl, by simp [den, denMembers], fun _ => ⟨[], rfl⟩⟩
      | obj kvs hq hm hvv =>
        subst hvv
        obtain ⟨f', rfl⟩ : ∃ f', g = f' + 1 := by
          cases g with
          | zero => simp [parseMembers] at hm
          | succ f' => exact ⟨f', rfl⟩
        obtain ⟨h0', _⟩ := parseMembers_inv hm
        have hnsq := skipWs_first h0' (by rfl : isSpace 0x22 = false)
        obtain ⟨cache2, hsp2, i1, i2⟩ := skipSpaceSafe_found d cache1 _ _ hnsq a1 a2
        rw [h0'] at hsp2
        simp only [Option.getD_some] at hsp2
        have hne : ((0x22 : Nat) == 0x7D) = false := by decide
        simp only [hsp2, hne, Bool.false_eq_true, if_false]
        obtain ⟨ns, hl, hdn⟩ := lazyMembers_ok hW hW32 d hd junk hj _ _ kvs e (d.length + 2) cache2 [] hm i1 i2
          (by omega)
        rw [hl]
        exact ⟨.obj ns, by simp, by simp [den, hdn], fun _ => ⟨ns, by simp⟩⟩
      | num c' hcc n hn hvv => omega
    · have h7B' : (c == 0x7B) = false := by simpa using h7B
      simp only [h7B', Bool.false_eq_true, if_false]
      have hdp : decPos (skipWs d d.length 0 + 1) = skipWs d d.length 0 := by simp [decPos]
      rw [hdp]
      rw [← hg] at hv
      obtain ⟨stop, cache', hso, s1, s2, s3, _, _⟩ := skipOneC_value hW hv hfol
        ⟨Nat.le_refl _, hns0.2.1, fun j h1 h2 => by omega, hns0.2.2.2⟩ ⟨a2, Or.inr ⟨rfl, a1⟩⟩
      obtain ⟨n, hn1, hn2⟩ := rawOf_value hv hfol s1 s2 s3 hd
      simp only [hso, hn1]
      exact ⟨n, rfl, hn2, fun hh => absurd (hhead hh) h7B⟩

end Sonic.Proofs.MergeParseLazy
