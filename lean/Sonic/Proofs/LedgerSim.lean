import Sonic.Proofs.LedgerErase

/-!
# Ledger model: the command interpreter erases to `Model.Dom.step` (helper lemmas for C13)
-/
namespace Sonic.Proofs.Ledger
open Sonic.Spec Sonic.Model.Dom Sonic.Model.Ledger
open Sonic.Spec.Containers (Key Step Path PStep Val NodeOp Res Op Out AllocKind)
open Sonic.Proofs.Dom (bind_refine map_refine)

theorem erase_docs_get (s : LSession) (d : Nat) : s.erase.docs[d]? = (s.docs[d]?).map LDoc.erase := by
  simp [LSession.erase]

theorem erase_docs_set (s : LSession) (d : Nat) (x : LDoc) (L : Ledger) :
    ({ s with docs := s.docs.set d x, ledger := L } : LSession).erase =
      { s.erase with docs := s.erase.docs.set d x.erase } := by
  simp [LSession.erase, List.map_set]

theorem erase_docs_set2 (s : LSession) (d d2 : Nat) (x y : LDoc) (L : Ledger) :
    ({ s with docs := (s.docs.set d x).set d2 y, ledger := L } : LSession).erase =
      { s.erase with docs := (s.erase.docs.set d x.erase).set d2 y.erase } := by
  simp [LSession.erase, List.map_set]

theorem erase_fresh (a : AllocKind) (L : Ledger) (live : Bool) :
    (⟨live, a, freshDocs, L⟩ : LSession).erase = { Session.fresh a with live := live } := by
  simp [LSession.erase, freshDocs, LDoc.fresh, LDoc.erase, Session.fresh]

/-- the ledger interpreter, where it accepts a command, does what `Model.Dom.stepLive` does -/
theorem stepLive_erase (env : Containers.Env) {s s' : LSession} {op : Op} (h : lstepLive env s op = some s') :
    (stepLive env s.erase op).map (·.1) = some s'.erase := by
  cases op with
  | reset a =>
    simp only [lstepLive] at h
    split at h
    · simp at h
    · simp only [Option.some.injEq] at h
      subst h
      simp [stepLive, erase_fresh, Session.fresh]
  | fin =>
    simp only [lstepLive, Option.some.injEq] at h
    subst h
    have : s.erase.alloc = s.alloc := rfl
    simp [stepLive, erase_fresh, this]
  | parse d text =>
    simp only [lstepLive, Option.map_eq_some_iff] at h
    obtain ⟨doc, hdoc, rfl⟩ := h
    have hd : d < s.erase.docs.length := by
      have := (List.getElem?_eq_some_iff.1 hdoc).1
      simpa [LSession.erase] using this
    simp only [stepLive, hd, ↓reduceIte]
    cases env.parse text with
    | none => simp [erase_docs_set, LDoc.erase]
    | some v => simp [erase_docs_set, LDoc.erase, erase_lofJVal]
  | node d p nop =>
    simp only [lstepLive, Option.bind_eq_some_iff, Option.map_eq_some_iff] at h
    obtain ⟨doc, hdoc, e, he, rfl⟩ := h
    have hm := erase_modifyAt (g := Node.apply env nop) (fun x => erase_apply env nop x s.ledger.next) doc.root p
    rw [he] at hm
    simp only [Option.map_some] at hm
    simp only [stepLive, erase_docs_get, hdoc, Option.map_some, Option.bind_some]
    have : doc.erase = doc.root.erase := rfl
    rw [this]
    cases hr : doc.root.erase.modifyAt (Node.apply env nop) p with
    | none => rw [hr] at hm; simp at hm
    | some r =>
      rw [hr] at hm
      simp only [Option.map_some, Option.some.injEq] at hm
      simp [erase_docs_set, LDoc.erase, hm]
  | move d p d2 p2 =>
    simp only [lstepLive] at h
    simp only [stepLive]
    split at h
    · rename_i hdd
      subst hdd
      simp only [Option.bind_eq_some_iff, Option.map_eq_some_iff] at h
      obtain ⟨doc, hdoc, r, hm, rfl⟩ := h
      have he := erase_lmoveNode doc.root p p2
      rw [hm] at he
      simp only [Option.map_some] at he
      have : doc.erase = doc.root.erase := rfl
      simp [erase_docs_get, hdoc, ← he, erase_docs_set, LDoc.erase]
    · rename_i hdd
      split at h
      · simp at h
      · rename_i hpool
        simp only [Option.bind_eq_some_iff] at h
        obtain ⟨D, hD, S, hS, r, hm, v, hv, h⟩ := h
        split at h
        · simp only [Option.some.injEq] at h
          subst h
          have he := erase_lmoveNode2 D.root p S.root p2
          rw [hm] at he
          simp only [Option.map_some] at he
          have h1 : D.erase = D.root.erase := rfl
          have h2 : S.erase = S.root.erase := rfl
          have h3 : s.erase.alloc = s.alloc := rfl
          simp [hdd, h3, hpool, erase_docs_get, hD, hS, ← he, erase_docs_set2, LDoc.erase]
        · simp at h
  | copy d p d2 p2 cs =>
    simp only [lstepLive] at h
    simp only [stepLive]
    split at h
    · rename_i hdd
      subst hdd
      simp only [Option.bind_eq_some_iff, Option.map_eq_some_iff] at h
      obtain ⟨doc, hdoc, e, hm, rfl⟩ := h
      have he := erase_lcopyNode cs doc.root p p2 s.ledger.next
      rw [hm] at he
      simp only [Option.map_some] at he
      have : doc.erase = doc.root.erase := rfl
      simp [erase_docs_get, hdoc, ← he, erase_docs_set, LDoc.erase]
    · rename_i hdd
      simp only [Option.bind_eq_some_iff, Option.map_eq_some_iff] at h
      obtain ⟨D, hD, S, hS, e, hm, rfl⟩ := h
      have he := erase_lcopyNode2 cs D.root p S.root p2 s.ledger.next
      rw [hm] at he
      simp only [Option.map_some] at he
      have h1 : D.erase = D.root.erase := rfl
      have h2 : S.erase = S.root.erase := rfl
      simp [hdd, erase_docs_get, hD, hS, ← he, erase_docs_set, LDoc.erase]
  | swap d p d2 p2 =>
    simp only [lstepLive] at h
    simp only [stepLive]
    split at h
    · rename_i hdd
      subst hdd
      simp only [Option.bind_eq_some_iff, Option.map_eq_some_iff] at h
      obtain ⟨doc, hdoc, r, hm, rfl⟩ := h
      have he := erase_lswapNodes doc.root p p2
      rw [hm] at he
      simp only [Option.map_some] at he
      have : doc.erase = doc.root.erase := rfl
      have hset := erase_docs_set s d { doc with root := r } s.ledger
      simp only at hset
      simp [erase_docs_get, hdoc, ← he, hset, LDoc.erase]
    · rename_i hdd
      split at h
      · simp at h
      · rename_i hpool
        simp only [Option.bind_eq_some_iff] at h
        obtain ⟨D, hD, S, hS, r, hm, h⟩ := h
        split at h
        · simp only [Option.some.injEq] at h
          subst h
          have he := erase_lswapNodes2 D.root p S.root p2
          rw [hm] at he
          simp only [Option.map_some] at he
          have h1 : D.erase = D.root.erase := rfl
          have h2 : S.erase = S.root.erase := rfl
          have h3 : s.erase.alloc = s.alloc := rfl
          have hset := erase_docs_set2 s d d2 { D with root := r.1 } { S with root := r.2.1 } s.ledger
          simp only at hset
          simp [hdd, h3, hpool, erase_docs_get, hD, hS, ← he, hset, LDoc.erase]
        · simp at h
  | docMove d d2 =>
    simp only [lstepLive] at h
    simp only [stepLive]
    split at h
    · simp at h
    · rename_i hdd
      simp only [Option.bind_eq_some_iff, Option.map_eq_some_iff] at h
      obtain ⟨D, hD, S, hS, rfl⟩ := h
      simp [hdd, erase_docs_get, hD, hS, erase_docs_set2, LDoc.erase, LDoc.fresh]
  | docSwap d d2 =>
    simp only [lstepLive, Option.bind_eq_some_iff, Option.map_eq_some_iff] at h
    obtain ⟨D, hD, S, hS, rfl⟩ := h
    have hset := erase_docs_set2 s d d2 S D s.ledger
    simp only at hset
    simp [stepLive, erase_docs_get, hD, hS, hset]

theorem step_erase (env : Containers.Env) {s s' : LSession} {op : Op} (h : lstep env s op = some s') :
    (step env s.erase op).map (·.1) = some s'.erase := by
  have hlive : s.erase.live = s.live := rfl
  cases op with
  | reset a =>
    simp only [lstep] at h
    split at h
    · simp at h
    · simp only [Option.some.injEq] at h
      subst h
      simp [step, erase_fresh, Session.fresh]
  | fin | parse _ _ | node _ _ _ | move _ _ _ _ | copy _ _ _ _ _ | swap _ _ _ _ | docMove _ _ | docSwap _ _ =>
    simp only [lstep] at h
    split at h
    · rename_i hl
      simp only [step, hlive, hl, ↓reduceIte]
      exact stepLive_erase env h
    · simp at h

/-- the ledger interpreter and `Model.Dom` reject the same commands along the run (no `dom-reset pool`, no
    cross-document move/swap of a subtree holding a parse-buffer view) -/
def Agree (env : Containers.Env) : LSession → List Op → Prop
  | _, [] => True
  | s, op :: ops =>
    match lstep env s op with
    | some s' => Agree env s' ops
    | none => step env s.erase op = none ∧ Agree env s ops

theorem run_erase (env : Containers.Env) : ∀ (ops : List Op) (s : LSession), Agree env s ops →
    (lrun env s ops).erase = (run env s.erase ops).1
  | [], _, _ => rfl
  | op :: ops, s, h => by
    simp only [Agree] at h
    simp only [lrun, run]
    cases hst : lstep env s op with
    | some s' =>
      rw [hst] at h
      have he := step_erase env hst
      cases hd : step env s.erase op with
      | none => rw [hd] at he; simp at he
      | some r =>
        rw [hd] at he
        simp only [Option.map_some, Option.some.injEq] at he
        obtain ⟨r1, o⟩ := r
        simp only at he
        subst he
        exact run_erase env ops s' h
    | none =>
      rw [hst] at h
      rw [h.1]
      exact run_erase env ops s h.2

/-- executable form of `Agree` -/
def agreeB (env : Containers.Env) : LSession → List Op → Bool
  | _, [] => true
  | s, op :: ops =>
    match lstep env s op with
    | some s' => agreeB env s' ops
    | none => (step env s.erase op).isNone && agreeB env s ops

theorem agree_of_agreeB (env : Containers.Env) : ∀ (ops : List Op) (s : LSession), agreeB env s ops = true →
    Agree env s ops
  | [], _, _ => trivial
  | op :: ops, s, h => by
    simp only [agreeB] at h
    simp only [Agree]
    cases hst : lstep env s op with
    | some s' =>
      rw [hst] at h
      exact agree_of_agreeB env ops s' h
    | none =>
      rw [hst] at h
      simp only [Bool.and_eq_true, Option.isNone_iff_eq_none] at h
      exact ⟨h.1, agree_of_agreeB env ops s h.2⟩

end Sonic.Proofs.Ledger

namespace Sonic.Proofs.Ledger
open Sonic.Spec Sonic.Model.Dom Sonic.Model.Ledger
open Sonic.Spec.Containers (Key Step Path PStep Val NodeOp Res Op Out AllocKind)
open Sonic.Proofs.Dom (bind_refine map_refine)

/-! ## completeness: the ledger interpreter rejects nothing else -/

/-- the only commands accepted by `Model.Dom` that the ledger interpreter rejects: `dom-reset pool`, and a
    cross-document move / swap of a subtree holding a view into a parse buffer -/
def LifetimePre (s : LSession) : Op → Prop
  | .reset a => a ≠ .pool
  | .move _ _ d2 p2 => ∀ S v, s.docs[d2]? = some S → S.root.get p2 = some v → v.refs = []
  | .swap d p d2 p2 => ∀ D S x y, s.docs[d]? = some D → s.docs[d2]? = some S → D.root.get p = some x →
      S.root.get p2 = some y → x.refs = [] ∧ y.refs = []
  | _ => True

theorem map_via {α β γ δ : Type} {o : Option α} {o' : Option β} {ka : α → γ} {kb : β → γ}
    (h : o.map ka = o'.map kb) (F : γ → δ) {f : α → δ} {g : β → δ} (hf : ∀ a, f a = F (ka a))
    (hg : ∀ b, g b = F (kb b)) : o.map f = o'.map g := by
  have h1 : o.map f = (o.map ka).map F := by rw [Option.map_map]; congr 1; funext a; exact hf a
  have h2 : o'.map g = (o'.map kb).map F := by rw [Option.map_map]; congr 1; funext b; exact hg b
  rw [h1, h2, h]

theorem map_via2 {α β γ δ ε ζ : Type} {o : Option α} {o' : Option β} {ka : α → γ} {kb : β → γ}
    (h : o.map ka = o'.map kb) (F : γ → δ) {f : α → ε} {e1 : ε → δ} {g : β → ζ} {e2 : ζ → δ}
    (hf : ∀ a, e1 (f a) = F (ka a)) (hg : ∀ b, e2 (g b) = F (kb b)) :
    (o.map f).map e1 = (o'.map g).map e2 := by
  rw [Option.map_map, Option.map_map]
  exact map_via h F hf hg

theorem map_via2' {α γ δ ε ζ : Type} {o : Option α} {o' : Option γ} {ka : α → γ}
    (h : o.map ka = o') (F : γ → δ) {f : α → ε} {e1 : ε → δ} {g : γ → ζ} {e2 : ζ → δ}
    (hf : ∀ a, e1 (f a) = F (ka a)) (hg : ∀ b, e2 (g b) = F b) :
    (o.map f).map e1 = (o'.map g).map e2 :=
  map_via2 (kb := id) (by simpa using h) F hf hg

theorem docs_bind_map_eq (s : LSession) (d : Nat) {α β γ : Type} (f : LDoc → Option α) (g : Node → Option β)
    (ka : α → γ) (kb : β → γ) (h : ∀ doc, s.docs[d]? = some doc → (f doc).map ka = (g doc.erase).map kb) :
    ((s.docs[d]?).bind f).map ka = ((s.erase.docs[d]?).bind g).map kb := by
  rw [erase_docs_get]
  cases hd : s.docs[d]? with
  | none => rfl
  | some doc => simpa using h doc hd

theorem stepLive_erase_eq (env : Containers.Env) (s : LSession) (op : Op) (hpre : LifetimePre s op) :
    (lstepLive env s op).map LSession.erase = (stepLive env s.erase op).map (·.1) := by
  have halloc : s.erase.alloc = s.alloc := rfl
  cases op with
  | reset a =>
    have : ¬ a = .pool := hpre
    simp [lstepLive, stepLive, this, erase_fresh, Session.fresh]
  | fin => simp [lstepLive, stepLive, erase_fresh, halloc]
  | parse d text =>
    simp only [lstepLive, stepLive]
    have hlen : s.erase.docs.length = s.docs.length := by simp [LSession.erase]
    cases hdoc : s.docs[d]? with
    | none =>
      have : ¬ d < s.erase.docs.length := by
        rw [hlen]; intro h; rw [List.getElem?_eq_getElem h] at hdoc; simp at hdoc
      simp [this]
    | some doc =>
      have : d < s.erase.docs.length := by rw [hlen]; exact (List.getElem?_eq_some_iff.1 hdoc).1
      simp only [this, ↓reduceIte, Option.map_some]
      cases env.parse text with
      | none => simp [erase_docs_set, LDoc.erase]
      | some v => simp [erase_docs_set, LDoc.erase, erase_lofJVal]
  | node d p nop =>
    simp only [lstepLive, stepLive]
    refine docs_bind_map_eq s d _ _ _ _ fun doc _ => ?_
    have hm := erase_modifyAt (g := Node.apply env nop) (fun x => erase_apply env nop x s.ledger.next) doc.root p
    refine map_via2 hm (fun x => ({ s.erase with docs := s.erase.docs.set d x } : Session)) (fun e => ?_)
      (fun r => rfl)
    simp [erase_docs_set, LDoc.erase]
  | move d p d2 p2 =>
    simp only [lstepLive, stepLive, halloc]
    split
    · rename_i hdd
      subst hdd
      refine docs_bind_map_eq s d _ _ _ _ fun doc _ => ?_
      refine map_via2' (show _ = moveNode doc.erase p p2 from erase_lmoveNode doc.root p p2)
        (fun x => ({ s.erase with docs := s.erase.docs.set d x } : Session)) (fun e => ?_) (fun r => rfl)
      simp [erase_docs_set, LDoc.erase]
    · split
      · rfl
      · refine docs_bind_map_eq s d _ _ _ _ fun D _ => ?_
        refine docs_bind_map_eq s d2 _ _ _ _ fun S hS => ?_
        have he := erase_lmoveNode2 D.root p S.root p2
        cases hm : lmoveNode2 D.root p S.root p2 with
        | none =>
          rw [hm] at he
          simp only [Option.map_none] at he
          have h1 : D.erase = D.root.erase := rfl
          have h2 : S.erase = S.root.erase := rfl
          simp [h1, h2, ← he]
        | some r =>
          rw [hm] at he
          simp only [Option.map_some] at he
          have h1 : D.erase = D.root.erase := rfl
          have h2 : S.erase = S.root.erase := rfl
          simp only [Option.bind_some, h1, h2, ← he, Option.map_some]
          -- the source resolves (it was moved) and holds no parse-buffer view
          unfold lmoveNode2 at hm
          simp only [Option.bind_eq_some_iff] at hm
          obtain ⟨v, hv, _⟩ := hm
          have hnr := hpre S v hS hv
          simp [hv, hnr, erase_docs_set2, LDoc.erase, halloc]
  | copy d p d2 p2 cs =>
    simp only [lstepLive, stepLive]
    split
    · rename_i hdd
      subst hdd
      refine docs_bind_map_eq s d _ _ _ _ fun doc _ => ?_
      refine map_via2' (show _ = copyNode cs doc.erase p p2 from erase_lcopyNode cs doc.root p p2 s.ledger.next)
        (fun x => ({ s.erase with docs := s.erase.docs.set d x } : Session)) (fun e => ?_) (fun r => rfl)
      simp [erase_docs_set, LDoc.erase]
    · refine docs_bind_map_eq s d _ _ _ _ fun D _ => ?_
      refine docs_bind_map_eq s d2 _ _ _ _ fun S _ => ?_
      refine map_via2' (show _ = copyNode2 cs D.erase p S.erase p2 from erase_lcopyNode2 cs D.root p S.root p2 s.ledger.next)
        (fun x => ({ s.erase with docs := s.erase.docs.set d x } : Session)) (fun e => ?_) (fun r => rfl)
      simp [erase_docs_set, LDoc.erase]
  | swap d p d2 p2 =>
    simp only [lstepLive, stepLive, halloc]
    split
    · rename_i hdd
      subst hdd
      refine docs_bind_map_eq s d _ _ _ _ fun doc _ => ?_
      refine map_via2' (show _ = swapNodes doc.erase p p2 from erase_lswapNodes doc.root p p2)
        (fun x => ({ s.erase with docs := s.erase.docs.set d x } : Session)) (fun e => ?_) (fun r => rfl)
      have hset := erase_docs_set s d { doc with root := e } s.ledger
      simp only at hset
      simp [hset, LDoc.erase]
    · split
      · rfl
      · refine docs_bind_map_eq s d _ _ _ _ fun D hD => ?_
        refine docs_bind_map_eq s d2 _ _ _ _ fun S hS => ?_
        have he := erase_lswapNodes2 D.root p S.root p2
        have h1 : D.erase = D.root.erase := rfl
        have h2 : S.erase = S.root.erase := rfl
        cases hm : lswapNodes2 D.root p S.root p2 with
        | none =>
          rw [hm] at he
          simp only [Option.map_none] at he
          simp [h1, h2, ← he]
        | some r =>
          rw [hm] at he
          simp only [Option.map_some] at he
          simp only [Option.bind_some, h1, h2, ← he, Option.map_some]
          have hm' := hm
          unfold lswapNodes2 at hm'
          simp only [Option.bind_eq_some_iff, Option.map_eq_some_iff] at hm'
          obtain ⟨x, hx, y, hy, D', _, S', _, hr⟩ := hm'
          have hnr := hpre D S x y hD hS hx hy
          subst hr
          have hset := erase_docs_set2 s d d2 { D with root := D' } { S with root := S' } s.ledger
          simp only at hset
          simp [hnr.1, hnr.2, hset, LDoc.erase, halloc]
  | docMove d d2 =>
    simp only [lstepLive, stepLive]
    split
    · rfl
    · refine docs_bind_map_eq s d _ _ _ _ fun D _ => ?_
      refine map_via2' (erase_docs_get s d2).symm
        (fun x => ({ s.erase with docs := (s.erase.docs.set d x).set d2 .null } : Session)) (fun S => ?_)
        (fun r => rfl)
      simp [erase_docs_set2, LDoc.erase, LDoc.fresh]
  | docSwap d d2 =>
    simp only [lstepLive, stepLive]
    refine docs_bind_map_eq s d _ _ _ _ fun D _ => ?_
    refine map_via2' (erase_docs_get s d2).symm
      (fun x => ({ s.erase with docs := (s.erase.docs.set d x).set d2 D.erase } : Session)) (fun S => ?_)
      (fun r => rfl)
    have hset := erase_docs_set2 s d d2 S D s.ledger
    simp only at hset
    simp [hset]

theorem step_erase_eq (env : Containers.Env) (s : LSession) (op : Op) (hpre : LifetimePre s op) :
    (lstep env s op).map LSession.erase = (step env s.erase op).map (·.1) := by
  have hlive : s.erase.live = s.live := rfl
  cases op with
  | reset a =>
    have : ¬ a = .pool := hpre
    simp [lstep, step, this, erase_fresh, Session.fresh]
  | fin | parse _ _ | node _ _ _ | move _ _ _ _ | copy _ _ _ _ _ | swap _ _ _ _ | docMove _ _ | docSwap _ _ =>
    simp only [lstep, step, hlive]
    split
    · exact stepLive_erase_eq env s _ hpre
    · rfl

end Sonic.Proofs.Ledger
