import Sonic.Model.EiselLemire
import Sonic.Proofs.NumberFast

/-!
# Helper lemmas for C04: the Eisel-Lemire model cut into steps, and what each step computes

`atofEiselLemire64` = normalisation, then `refine` (the 64x64 product with the table's high word and, when the low 9
bits are all ones and the low word may carry, the product with the table's low word), then `finish` (shift to 54
bits, half-way test, round to 53 bits, exponent range test, assembly of the bits).
-/
namespace Sonic.Proofs.EL

open Sonic.Model.EiselLemire
open Sonic.Spec.Rne Sonic.Proofs.Rne

/-- `omega` on the negated goal (works around a recursion-depth problem of `omega` on some `≤`/`=` goals) -/
macro "omega_nat" : tactic => `(tactic| (apply Classical.byContradiction; intro _hneg; omega))

/-! ## the model in three steps -/

/-- the products and the "wider approximation" step: `(xHi, xLo, ambiguous)` -/
def refine (mant hi lo : Nat) : Nat × Nat × Bool :=
  let (xHi, xLo) := mulU64 mant hi
  if xHi % 512 = 511 ∧ (xLo + mant) % 2 ^ 64 < mant then
    let (yHi, yLo) := mulU64 mant lo
    let mergedHi := xHi
    let mergedLo := (xLo + yHi) % 2 ^ 64
    let mergedHi := if mergedLo < xLo then (mergedHi + 1) % 2 ^ 64 else mergedHi
    if mergedHi % 512 = 511 ∧ (mergedLo + 1) % 2 ^ 64 = 0 ∧ (yLo + mant) % 2 ^ 64 < mant then
      (mergedHi, mergedLo, true)
    else (mergedHi, mergedLo, false)
  else (xHi, xLo, false)

/-- the tail: from `(xHi, xLo)` and the exponent to the bits -/
def finish (xHi xLo retExp2 : Nat) (neg : Bool) : Option Nat :=
  let msb := xHi / 2 ^ 63
  let retMan := xHi / 2 ^ (msb + 9)
  let retExp2 := (retExp2 + (2 ^ 64 - (1 ^^^ msb))) % 2 ^ 64
  if xLo = 0 ∧ xHi % 512 = 0 ∧ retMan % 4 = 1 then none
  else
    let retMan := (retMan + retMan % 2) % 2 ^ 64
    let retMan := retMan / 2
    let (retMan, retExp2) :=
      if retMan / 2 ^ 53 > 0 then (retMan / 2, (retExp2 + 1) % 2 ^ 64) else (retMan, retExp2)
    if (retExp2 + (2 ^ 64 - 1)) % 2 ^ 64 ≥ 0x7FF - 1 then none
    else
      let bits := (retExp2 * 2 ^ 52 % 2 ^ 64) ||| (retMan % 2 ^ 52)
      some (if neg then bits ||| 2 ^ 63 else bits)

def body (mant retExp2 hi lo : Nat) (neg : Bool) : Option Nat :=
  let (xHi, xLo, ambiguous) := refine mant hi lo
  if ambiguous then none else finish xHi xLo retExp2 neg

theorem el_eq (m : Nat) (e : Int) (neg : Bool) :
    atofEiselLemire64 m e neg =
      if e < -348 ∨ e > 347 then none
      else
        body (m * 2 ^ clz64 m % 2 ^ 64) ((toU64 ((217706 * e) >>> 16) + 64 + 1023 + (2 ^ 64 - clz64 m)) % 2 ^ 64)
          (pow10M128 (e + 348).toNat).2 (pow10M128 (e + 348).toNat).1 neg := by
  unfold atofEiselLemire64 
  by_cases he : e < -348 ∨ e > 347
  · rw [if_pos he, if_pos he]
  · rw [if_neg he, if_neg he]
    rfl
  
/-! ## the product step -/

/-- the same on the split words -/
def refineW (w xHi xLo yHi yLo : Nat) : Nat × Nat × Bool :=
  if xHi % 512 = 511 ∧ (xLo + w) % 2 ^ 64 < w then
    let mergedHi := xHi
    let mergedLo := (xLo + yHi) % 2 ^ 64
    let mergedHi := if mergedLo < xLo then (mergedHi + 1) % 2 ^ 64 else mergedHi
    if mergedHi % 512 = 511 ∧ (mergedLo + 1) % 2 ^ 64 = 0 ∧ (yLo + w) % 2 ^ 64 < w then
      (mergedHi, mergedLo, true)
    else (mergedHi, mergedLo, false)
  else (xHi, xLo, false)

theorem refine_eq (w hi lo : Nat) :
    refine w hi lo = refineW w (w * hi / 2 ^ 64 % 2 ^ 64) (w * hi % 2 ^ 64) (w * lo / 2 ^ 64 % 2 ^ 64) (w * lo % 2 ^ 64) := rfl

theorem add_mod_lt (a w : Nat) (ha : a < 2 ^ 64) (hw : w < 2 ^ 64) : (a + w) % 2 ^ 64 < w ↔ 2 ^ 64 ≤ a + w := by
  simp only [Nat.reducePow] at *; omega

theorem refineW_spec (w xHi xLo yHi yLo X L : Nat) (hw : w < 2 ^ 64) (h1 : xHi < 2 ^ 64 - 1) (h2 : xLo < 2 ^ 64)
    (h3 : yHi < 2 ^ 64) (h4 : yLo < 2 ^ 64)
    (h5 : yHi * 2 ^ 64 + yLo + w ≤ w * 2 ^ 64) (h : refineW w xHi xLo yHi yLo = (X, L, false)) :
    X < 2 ^ 64 ∧ L < 2 ^ 64 ∧ xHi ≤ X ∧
    X * 2 ^ 64 + L ≤ xHi * 2 ^ 64 + xLo + yHi ∧
    ∃ c, yLo + w ≤ c * 2 ^ 64 ∧ xHi * 2 ^ 64 + xLo + yHi + c ≤ (X / 512 + 1) * 512 * 2 ^ 64 := by
  unfold refineW at h
  simp only [add_mod_lt xLo w h2 hw, add_mod_lt yLo w h4 hw] at h
  simp only [Nat.reducePow, Nat.reduceSub] at *
  have h6 : yHi ≤ w ∧ yLo + w ≤ (w - yHi) * 18446744073709551616 := by
    have : yHi ≤ w := by omega
    have e : (w - yHi) * 18446744073709551616 = w * 18446744073709551616 - yHi * 18446744073709551616 := Nat.sub_mul _ _ _
    omega
  clear h5
  by_cases hc1 : xHi % 512 = 511 ∧ 18446744073709551616 ≤ xLo + w
  · rw [if_pos hc1] at h
    by_cases hlt : (xLo + yHi) % 18446744073709551616 < xLo
    · simp only [if_pos hlt] at h
      have hm : (xLo + yHi) % 18446744073709551616 = xLo + yHi - 18446744073709551616 := by omega
      have hge : 18446744073709551616 ≤ xLo + yHi := by omega
      have hx : (xHi + 1) % 18446744073709551616 = xHi + 1 := by omega
      rw [hm, hx] at h
      split at h
      · simp at h
      · rename_i hc2
        simp only [Prod.mk.injEq, and_true] at h
        obtain ⟨hX, hL⟩ := h
        subst hL; subst hX
        refine ⟨by omega, by omega, by omega, by omega, ?_⟩
        by_cases hy : 18446744073709551616 ≤ yLo + w
        · refine ⟨2, by omega, ?_⟩
          by_cases hml : xLo + yHi - 18446744073709551616 = 18446744073709551615
          · have : (xLo + yHi - 18446744073709551616 + 1) % 18446744073709551616 = 0 := by omega
            have : (xHi + 1) % 512 ≠ 511 := fun hh => hc2 ⟨hh, this, hy⟩
            omega
          · omega
        · exact ⟨1, by omega, by omega⟩
    · simp only [if_neg hlt] at h
      have hm : (xLo + yHi) % 18446744073709551616 = xLo + yHi := by omega
      rw [hm] at h
      split at h
      · simp at h
      · rename_i hc2
        simp only [Prod.mk.injEq, and_true] at h
        obtain ⟨hX, hL⟩ := h
        subst hL; subst hX
        refine ⟨by omega, by omega, by omega, by omega, ?_⟩
        by_cases hy : 18446744073709551616 ≤ yLo + w
        · refine ⟨2, by omega, ?_⟩
          by_cases hml : xLo + yHi = 18446744073709551615
          · have : (xLo + yHi + 1) % 18446744073709551616 = 0 := by omega
            exact absurd ⟨hc1.1, this, hy⟩ hc2
          · omega
        · exact ⟨1, by omega, by omega⟩
  · rw [if_neg hc1] at h
    simp only [Prod.mk.injEq, and_true] at h
    obtain ⟨hX, hL⟩ := h
    subst hX; subst hL
    refine ⟨by omega, by omega, by omega, by omega, w - yHi, ?_, ?_⟩
    · exact h6.2
    · by_cases hy : 18446744073709551616 ≤ xLo + w
      · have : xHi % 512 ≠ 511 := fun hh => hc1 ⟨hh, hy⟩
        omega
      · omega

theorem bracket_arith (B w T N D a yHi yLo P c Q : Nat) (hw0 : 0 < w) (hWT : w * T = (a + yHi) * B + yLo)
    (hT1 : T * D ≤ N) (hT2 : N < (T + 1) * D) (hP : P ≤ a + yHi) (hc : yLo + w ≤ c * B) (hQ : a + yHi + c ≤ Q) :
    P * (B * D) ≤ w * N ∧ w * N < Q * (B * D) := by
  constructor
  · calc P * (B * D) ≤ (a + yHi) * (B * D) := Nat.mul_le_mul_right _ hP
      _ = ((a + yHi) * B) * D := by rw [Nat.mul_assoc]
      _ ≤ (w * T) * D := Nat.mul_le_mul_right _ (by omega)
      _ = w * (T * D) := by rw [Nat.mul_assoc]
      _ ≤ w * N := Nat.mul_le_mul_left _ hT1
  · calc w * N < w * ((T + 1) * D) := Nat.mul_lt_mul_of_pos_left hT2 hw0
      _ = ((a + yHi) * B + (yLo + w)) * D := by rw [← Nat.mul_assoc, Nat.mul_add, Nat.mul_one, hWT, Nat.add_assoc]
      _ ≤ ((a + yHi) * B + c * B) * D := Nat.mul_le_mul_right _ (by omega)
      _ = (a + yHi + c) * (B * D) := by rw [← Nat.add_mul, Nat.mul_assoc]
      _ ≤ Q * (B * D) := Nat.mul_le_mul_right _ hQ

/-- a product of two 64-bit words: the high word is below `2^64 - 1` -/
theorem mul_hi_lt (w hi : Nat) (hw : w < 2 ^ 64) (hhi : hi < 2 ^ 64) : w * hi / 2 ^ 64 < 2 ^ 64 - 1 := by
  have h1 : w * hi ≤ (2 ^ 64 - 1) * (2 ^ 64 - 1) := Nat.mul_le_mul (by omega) (by omega)
  have h2 : (2 ^ 64 - 1) * (2 ^ 64 - 1) < (2 ^ 64 - 1) * 2 ^ 64 := by decide
  exact (Nat.div_lt_iff_lt_mul (by decide)).2 (Nat.lt_of_le_of_lt h1 h2)

theorem refine_bracket (w hi lo N D X L : Nat) (hw0 : 0 < w) (hw : w < 2 ^ 64) (hhi : hi < 2 ^ 64) (hlo : lo < 2 ^ 64)
    (hT1 : (hi * 2 ^ 64 + lo) * D ≤ N) (hT2 : N < (hi * 2 ^ 64 + lo + 1) * D)
    (h : refine w hi lo = (X, L, false)) :
    X < 2 ^ 64 ∧ L < 2 ^ 64 ∧ w * hi / 2 ^ 64 ≤ X ∧
    (X * 2 ^ 64 + L) * (2 ^ 64 * D) ≤ w * N ∧ w * N < (X / 512 + 1) * 512 * 2 ^ 64 * (2 ^ 64 * D) := by
  rw [refine_eq] at h
  have hx := mul_hi_lt w hi hw hhi
  have hy := mul_hi_lt w lo hw hlo
  have hxm : w * hi / 2 ^ 64 % 2 ^ 64 = w * hi / 2 ^ 64 := Nat.mod_eq_of_lt (by omega)
  have hym : w * lo / 2 ^ 64 % 2 ^ 64 = w * lo / 2 ^ 64 := Nat.mod_eq_of_lt (by omega)
  rw [hxm, hym] at h
  have hb : w * lo ≤ w * (2 ^ 64 - 1) := Nat.mul_le_mul_left _ (by omega)
  have hb2 : w * (2 ^ 64 - 1) + w = w * 2 ^ 64 := by
    rw [← Nat.mul_succ]
  have hdb := Nat.div_add_mod (w * lo) (2 ^ 64)
  have hda := Nat.div_add_mod (w * hi) (2 ^ 64)
  have h5 : w * lo / 2 ^ 64 * 2 ^ 64 + w * lo % 2 ^ 64 + w ≤ w * 2 ^ 64 := by
    rw [Nat.mul_comm (w * lo / 2 ^ 64), hdb]; omega
  obtain ⟨s1, s2, s3, s4, c, s5, s6⟩ := refineW_spec w _ _ _ _ X L hw hx (Nat.mod_lt _ (by decide))
    (by omega) (Nat.mod_lt _ (by decide)) h5 h
  refine ⟨s1, s2, s3, ?_⟩
  have hae : w * hi / 2 ^ 64 * 2 ^ 64 + w * hi % 2 ^ 64 = w * hi := by rw [Nat.mul_comm, hda]
  rw [hae] at s4 s6
  have hWT : w * (hi * 2 ^ 64 + lo) = (w * hi + w * lo / 2 ^ 64) * 2 ^ 64 + w * lo % 2 ^ 64 := by
    rw [Nat.mul_add, Nat.add_mul, ← Nat.mul_assoc, Nat.add_assoc, Nat.mul_comm (w * lo / 2 ^ 64), hdb]
  exact bracket_arith (2 ^ 64) w _ N D _ _ _ _ c _ hw0 hWT hT1 hT2 s4 s5 s6

/-! ## the rounding / assembly step -/

theorem mul_or (a b : Nat) (hb : b < 2 ^ 52) : a * 2 ^ 52 ||| b = a * 2 ^ 52 + b := by
  rw [← Nat.shiftLeft_eq, Nat.shiftLeft_add_eq_or_of_lt hb]

/-- the bits assembled by the code: `e·2^52 | frac`, with the sign -/
theorem bits_eq (ex frac : Nat) (neg : Bool) (he : ex ≤ 2046) (hf : frac < 2 ^ 52) :
    (if neg then ((ex * 2 ^ 52 % 2 ^ 64) ||| frac) ||| 2 ^ 63 else ((ex * 2 ^ 52 % 2 ^ 64) ||| frac))
      = ex * 2 ^ 52 + frac + (if neg then 2 ^ 63 else 0) := by
  have h1 : ex * 2 ^ 52 % 2 ^ 64 = ex * 2 ^ 52 := Nat.mod_eq_of_lt (by omega)
  rw [h1, mul_or ex frac hf]
  cases neg
  · simp
  · simp only [if_true]
    exact or_two63 _ (by omega)

def finishTail (retMan retExp2 : Nat) (neg : Bool) : Option Nat :=
  let retMan := (retMan + retMan % 2) % 2 ^ 64
  let retMan := retMan / 2
  let (retMan, retExp2) :=
    if retMan / 2 ^ 53 > 0 then (retMan / 2, (retExp2 + 1) % 2 ^ 64) else (retMan, retExp2)
  if (retExp2 + (2 ^ 64 - 1)) % 2 ^ 64 ≥ 0x7FF - 1 then none
  else
    let bits := (retExp2 * 2 ^ 52 % 2 ^ 64) ||| (retMan % 2 ^ 52)
    some (if neg then bits ||| 2 ^ 63 else bits)

theorem finish_eq (X L r0 : Nat) (neg : Bool) :
    finish X L r0 neg =
      if L = 0 ∧ X % 512 = 0 ∧ X / 2 ^ (X / 2 ^ 63 + 9) % 4 = 1 then none
      else finishTail (X / 2 ^ (X / 2 ^ 63 + 9)) ((r0 + (2 ^ 64 - (1 ^^^ (X / 2 ^ 63)))) % 2 ^ 64) neg := rfl

theorem finishTail_spec (rm r1 : Nat) (neg : Bool) (bits : Nat) (h1 : 2 ^ 53 ≤ rm) (h2 : rm < 2 ^ 54)
    (hr : r1 < 2 ^ 64) (h : finishTail rm r1 neg = some bits) :
    ((1 ≤ r1 ∧ (r1 - 1) * 2 ^ 52 + (rm + rm % 2) / 2 < 2047 * 2 ^ 52 ∧
        bits = (r1 - 1) * 2 ^ 52 + (rm + rm % 2) / 2 + (if neg then 2 ^ 63 else 0)) ∨
     (r1 = 0 ∧ (rm + rm % 2) / 2 = 2 ^ 53 ∧ bits = 2 ^ 52 + (if neg then 2 ^ 63 else 0))) := by
  unfold finishTail at h
  have hm : (rm + rm % 2) % 2 ^ 64 = rm + rm % 2 := Nat.mod_eq_of_lt (by simp only [Nat.reducePow] at *; omega)
  simp only [hm] at h
  generalize hq : (rm + rm % 2) / 2 = q at h ⊢
  have hq1 : 2 ^ 52 ≤ q ∧ q ≤ 2 ^ 53 := by simp only [Nat.reducePow] at *; omega
  by_cases hc : q / 2 ^ 53 > 0
  · simp only [if_pos hc] at h
    have hq2 : q = 2 ^ 53 := by
      have : 2 ^ 53 ≤ q := by
        apply Classical.byContradiction; intro hn
        have : q / 2 ^ 53 = 0 := Nat.div_eq_of_lt (by omega)
        omega
      omega
    subst hq2
    by_cases ht : ((r1 + 1) % 2 ^ 64 + (2 ^ 64 - 1)) % 2 ^ 64 ≥ 0x7FF - 1
    · rw [if_pos ht] at h; cases h
    · rw [if_neg ht] at h
      have hr1 : r1 ≤ 2045 := by simp only [Nat.reducePow] at *; omega
      have hr2 : (r1 + 1) % 2 ^ 64 = r1 + 1 := Nat.mod_eq_of_lt (by simp only [Nat.reducePow] at *; omega)
      rw [hr2] at h
      have hb := bits_eq (r1 + 1) (2 ^ 53 / 2 % 2 ^ 52) neg (by omega) (Nat.mod_lt _ (by decide))
      simp only [Option.some.injEq] at h
      rw [hb] at h
      have hz : 2 ^ 53 / 2 % 2 ^ 52 = 0 := by decide
      rw [hz, Nat.add_zero] at h
      by_cases h0 : r1 = 0
      · right
        subst h0
        exact ⟨rfl, rfl, by rw [← h]⟩
      · left
        refine ⟨by omega, by simp only [Nat.reducePow] at *; omega, ?_⟩
        rw [← h]
        have : (r1 + 1) * 2 ^ 52 = (r1 - 1) * 2 ^ 52 + 2 ^ 53 := by
          simp only [Nat.reducePow]; omega_nat
        rw [this]
  · simp only [if_neg hc] at h
    have hq2 : q < 2 ^ 53 := by
      apply Classical.byContradiction; intro hn
      have : 1 ≤ q / 2 ^ 53 := (Nat.le_div_iff_mul_le (by decide)).2 (by omega)
      omega
    by_cases ht : (r1 + (2 ^ 64 - 1)) % 2 ^ 64 ≥ 0x7FF - 1
    · rw [if_pos ht] at h; cases h
    · rw [if_neg ht] at h
      have hr1 : 1 ≤ r1 ∧ r1 ≤ 2046 := by simp only [Nat.reducePow] at *; omega
      have hb := bits_eq r1 (q % 2 ^ 52) neg (by omega) (Nat.mod_lt _ (by decide))
      simp only [Option.some.injEq] at h
      rw [hb] at h
      left
      refine ⟨hr1.1, by simp only [Nat.reducePow] at *; omega, ?_⟩
      rw [← h]
      have : r1 * 2 ^ 52 + q % 2 ^ 52 = (r1 - 1) * 2 ^ 52 + q := by
        simp only [Nat.reducePow] at *; omega_nat
      rw [this]

/-- what `finish` computes, in arithmetic terms: `rm` is the 54-bit quotient, `(rm + rm % 2) / 2` the rounded
    significand (`2^53` on carry), `r1` the biased exponent before the carry -/
theorem finish_spec (X L r0 : Nat) (neg : Bool) (bits : Nat) (hX1 : 2 ^ 62 ≤ X) (hX2 : X < 2 ^ 64)
    (h : finish X L r0 neg = some bits) :
    ∃ msb rm r1, msb = X / 2 ^ 63 ∧ rm = X / 2 ^ (msb + 9) ∧ r1 = (r0 + (2 ^ 64 - (1 - msb))) % 2 ^ 64 ∧
    msb ≤ 1 ∧ 2 ^ 53 ≤ rm ∧ rm < 2 ^ 54 ∧ ¬ (L = 0 ∧ X % 512 = 0 ∧ rm % 4 = 1) ∧
    ((1 ≤ r1 ∧ (r1 - 1) * 2 ^ 52 + (rm + rm % 2) / 2 < 2047 * 2 ^ 52 ∧
        bits = (r1 - 1) * 2 ^ 52 + (rm + rm % 2) / 2 + (if neg then 2 ^ 63 else 0)) ∨
     (r1 = 0 ∧ (rm + rm % 2) / 2 = 2 ^ 53 ∧ bits = 2 ^ 52 + (if neg then 2 ^ 63 else 0))) := by
  have hmsb : X / 2 ^ 63 ≤ 1 := by simp only [Nat.reducePow] at *; omega
  have hxor : 1 ^^^ (X / 2 ^ 63) = 1 - X / 2 ^ 63 := by
    have : X / 2 ^ 63 = 0 ∨ X / 2 ^ 63 = 1 := by omega
    rcases this with h0 | h0 <;> rw [h0] <;> rfl
  have hrm : 2 ^ 53 ≤ X / 2 ^ (X / 2 ^ 63 + 9) ∧ X / 2 ^ (X / 2 ^ 63 + 9) < 2 ^ 54 := by
    have : X / 2 ^ 63 = 0 ∨ X / 2 ^ 63 = 1 := by omega
    rcases this with h0 | h0 <;> rw [h0] <;> simp only [Nat.reducePow, Nat.reduceAdd] at * <;> omega
  rw [finish_eq, hxor] at h
  by_cases hamb : L = 0 ∧ X % 512 = 0 ∧ X / 2 ^ (X / 2 ^ 63 + 9) % 4 = 1
  · rw [if_pos hamb] at h; cases h
  · rw [if_neg hamb] at h
    exact ⟨_, _, _, rfl, rfl, rfl, hmsb, hrm.1, hrm.2, hamb,
      finishTail_spec _ _ neg bits hrm.1 hrm.2 (Nat.mod_lt _ (by decide)) h⟩

/-- from the bracket of the 128-bit product to the bracket of the 54-bit quotient `rm` -/
theorem rm_bracket (X L U V msb rm : Nat) (hmsb : msb = X / 2 ^ 63) (hrm : rm = X / 2 ^ (msb + 9))
    (hX1 : 2 ^ 62 ≤ X) (hX2 : X < 2 ^ 64) (hU : 0 < U)
    (h1 : (X * 2 ^ 64 + L) * U ≤ V) (h2 : V < (X / 512 + 1) * 512 * 2 ^ 64 * U) :
    rm * (2 ^ (msb + 9) * 2 ^ 64 * U) ≤ V ∧ V < (rm + 1) * (2 ^ (msb + 9) * 2 ^ 64 * U) ∧
    (¬ (L = 0 ∧ X % 512 = 0) → rm * (2 ^ (msb + 9) * 2 ^ 64 * U) < V) := by
  have hm : msb = 0 ∨ msb = 1 := by simp only [Nat.reducePow] at *; omega
  have f1 : rm * 2 ^ (msb + 9) ≤ X ∧ (X / 512 + 1) * 512 ≤ (rm + 1) * 2 ^ (msb + 9) ∧
      (X % 512 ≠ 0 → rm * 2 ^ (msb + 9) < X) := by
    rcases hm with h0 | h0 <;> subst h0 <;> simp only [Nat.reducePow, Nat.reduceAdd] at * <;> subst hrm <;>
      refine ⟨?_, ?_, ?_⟩ <;> omega
  obtain ⟨f1, f2, f3⟩ := f1
  generalize 2 ^ (msb + 9) = S at *
  refine ⟨?_, ?_, ?_⟩
  · calc rm * (S * 2 ^ 64 * U) = (rm * S * 2 ^ 64) * U := by simp only [Nat.mul_assoc]
      _ ≤ (X * 2 ^ 64 + L) * U := Nat.mul_le_mul_right _ (by
          have := Nat.mul_le_mul_right (2 ^ 64) f1; omega_nat)
      _ ≤ V := h1
  · calc V < (X / 512 + 1) * 512 * 2 ^ 64 * U := h2
      _ ≤ (rm + 1) * S * 2 ^ 64 * U := Nat.mul_le_mul_right _ (Nat.mul_le_mul_right _ f2)
      _ = (rm + 1) * (S * 2 ^ 64 * U) := by simp only [Nat.mul_assoc]
  · intro hs
    calc rm * (S * 2 ^ 64 * U) = (rm * S * 2 ^ 64) * U := by simp only [Nat.mul_assoc]
      _ < (X * 2 ^ 64 + L) * U := Nat.mul_lt_mul_of_pos_right (by
          by_cases hx : X % 512 = 0
          · have : L ≠ 0 := fun h => hs ⟨h, hx⟩
            have := Nat.mul_le_mul_right (2 ^ 64) f1; omega
          · have := Nat.mul_lt_mul_of_pos_right (f3 hx) (show 0 < 2 ^ 64 by decide); omega_nat) hU
      _ ≤ V := h1

end Sonic.Proofs.EL
