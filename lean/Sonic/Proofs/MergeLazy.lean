import Sonic.Spec.Merge
import Sonic.Spec.Json
import Sonic.Model.Lazy
import Sonic.Proofs.MergeSchema
import Sonic.Proofs.MergeUpdate

/-!
# Helper lemmas for C20: what a lazy tree denotes, and `UpdateNodeLazy` on lazy trees against `Spec.Merge.update`
-/
namespace Sonic.Proofs.MergeLazy
open Sonic.Spec Sonic.Spec.Merge Sonic.Spec.Json Sonic.Model.Lazy Sonic.Model.OnDemand
open Sonic.Proofs.MergeSchema Sonic.Proofs.MergeUpdate

/-! ## denotation of a lazy tree -/

/-- a raw slice as a value: a string of bytes that is a JSON text (by the spec reader) and starts at the value's
    first byte -/
def rawDen (bs : List Nat) : Option JVal :=
  match bs with
  | [] => none
  | c :: _ =>
    if isWs c then none else
    if bs.all (· < 256) then
      match parse bs with
      | .ok v => some v
      | .error _ => none
    else none

mutual
def den : LNode → Option JVal
  | .raw bs => rawDen bs
  | .arr xs =>
    match denList xs with
    | some vs => some (.arr vs)
    | none => none
  | .obj kvs =>
    match denMembers kvs with
    | some m => some (.obj m)
    | none => none
def denList : List LNode → Option (List JVal)
  | [] => some []
  | x :: xs =>
    match den x, denList xs with
    | some v, some vs => some (v :: vs)
    | _, _ => none
def denMembers : LMembers → Option Members
  | [] => some []
  | (k, x) :: rest =>
    match den x, denMembers rest with
    | some v, some m => some ((k, v) :: m)
    | _, _ => none
end

mutual
/-- nesting depth of objects (the recursion of `UpdateNodeLazy` only descends into member values of objects) -/
def objDepth : JVal → Nat
  | .obj kvs => depthMembers kvs + 1
  | _ => 0
def depthMembers : Members → Nat
  | [] => 0
  | (_, v) :: rest => max (objDepth v) (depthMembers rest)
end

/-- one-level correctness of `ParseLazy` on a slice that spells an object (proved from the skipping primitives'
    specifications in `Props/C20.lean`'s last section / assumed there as a named hypothesis) -/
def ReparseOK (W : Nat) (junk : Nat → Nat → Nat) : Prop :=
  ∀ (bs : List Nat) (v : JVal), (∀ x ∈ bs, x < 256) → parse bs = .ok v → bs.head? = some 0x7B →
    ∃ kvs, parseLazy W junk bs = .ok (.ok (.obj kvs)) ∧ den (.obj kvs) = some v

/-! ## a text whose first byte is not `{` (and not whitespace) does not spell an object -/

theorem parseValue_not_obj (buf : List Nat) (fuel p c : Nat) (v : JVal) (next : Nat)
    (hc : buf[p]? = some c) (hne : c ≠ 0x7B) (h : parseValue buf fuel p = .ok (v, next)) : ∀ kvs, v ≠ .obj kvs := by
  intro kvs hv
  subst hv
  cases fuel with
  | zero => simp [parseValue] at h
  | succ f =>
    rw [parseValue] at h
    simp only [hc] at h
    split at h
    · split at h <;> simp at h
    · split at h
      · split at h
        · simp at h
        · split at h <;> simp at h
      · split at h
        · rename_i h7 ; simp at h7; exact hne h7
        · repeat' split at h
          all_goals simp at h

theorem parse_not_obj (c : Nat) (rest : List Nat) (v : JVal)
    (hw : isWs c = false) (hne : c ≠ 0x7B) (h : parse (c :: rest) = .ok v) : ∀ kvs, v ≠ .obj kvs := by
  unfold parse at h
  have hp : skipWs (c :: rest) (c :: rest).length 0 = 0 := by
    simp [skipWs, hw]
  rw [hp] at h
  simp only at h
  split at h
  · simp at h
  · rename_i v' next hpv
    split at h
    · simp only [Except.ok.injEq] at h
      subst h
      exact parseValue_not_obj _ _ 0 c v' next (by simp) hne hpv
    · simp at h

/-! ## basic facts about `den` -/

theorem den_obj {kvs : LMembers} {v : JVal} (h : den (.obj kvs) = some v) :
    ∃ m, denMembers kvs = some m ∧ v = .obj m := by
  rw [den] at h
  cases hm : denMembers kvs with
  | none => simp [hm] at h
  | some m => simp only [hm, Option.some.injEq] at h; exact ⟨m, rfl, h.symm⟩

theorem den_arr_not_obj {xs : List LNode} {v : JVal} (h : den (.arr xs) = some v) : ∀ kvs, v ≠ .obj kvs := by
  rw [den] at h
  cases hm : denList xs with
  | none => simp [hm] at h
  | some m => simp only [hm, Option.some.injEq] at h; subst h; intro kvs; simp

theorem denMembers_cons {k : List Nat} {x : LNode} {rest : LMembers} {m : Members}
    (h : denMembers ((k, x) :: rest) = some m) :
    ∃ v m', den x = some v ∧ denMembers rest = some m' ∧ m = (k, v) :: m' := by
  rw [denMembers] at h
  cases hx : den x with
  | none => simp [hx] at h
  | some v =>
    cases hr : denMembers rest with
    | none => simp [hx, hr] at h
    | some m' => simp only [hx, hr, Option.some.injEq] at h; exact ⟨v, m', rfl, rfl, h.symm⟩

theorem denMembers_cons_intro {k : List Nat} {x : LNode} {rest : LMembers} {v : JVal} {m' : Members}
    (hx : den x = some v) (hr : denMembers rest = some m') :
    denMembers ((k, x) :: rest) = some ((k, v) :: m') := by
  rw [denMembers, hx, hr]

theorem denMembers_nil_inv {m : Members} (h : denMembers [] = some m) : m = [] := by
  simpa [denMembers] using h.symm

theorem denMembers_append_single : ∀ (lt : LMembers) (tkvs : Members) (k : List Nat) (lv : LNode) (v : JVal),
    denMembers lt = some tkvs → den lv = some v → denMembers (lt ++ [(k, lv)]) = some (tkvs ++ [(k, v)])
  | [], tkvs, k, lv, v, h, hv => by
    rw [denMembers_nil_inv h]
    exact denMembers_cons_intro hv rfl
  | (k₀, x) :: rest, tkvs, k, lv, v, h, hv => by
    obtain ⟨v₀, m', hx, hr, rfl⟩ := denMembers_cons h
    exact denMembers_cons_intro hx (denMembers_append_single rest m' k lv v hr hv)

/-- `FindMember` on the lazy object against the spec's first-match operations on the denoted members -/
theorem find_cases (k : List Nat) : ∀ (lt : LMembers) (tkvs : Members), denMembers lt = some tkvs →
    (Sonic.Model.Lazy.findIdx k lt = none ∧ hasKey k tkvs = false) ∨
    (∃ i k' ltv tv, Sonic.Model.Lazy.findIdx k lt = some i ∧ lt[i]? = some (k', ltv) ∧ den ltv = some tv ∧
      hasKey k tkvs = true ∧
      ∀ (g : JVal → JVal) (n' : LNode), den n' = some (g tv) →
        denMembers (lt.set i (k', n')) = some (modifyFirst k g tkvs))
  | [], tkvs, h => by
    rw [denMembers_nil_inv h]
    exact .inl ⟨rfl, rfl⟩
  | (k₀, x) :: rest, tkvs, h => by
    obtain ⟨v₀, m', hx, hr, rfl⟩ := denMembers_cons h
    by_cases e : k₀ = k
    · refine .inr ⟨0, k₀, x, v₀, by simp [Sonic.Model.Lazy.findIdx, e], by simp, hx, by simp [hasKey_cons, e], ?_⟩
      intro g n' hn'
      simp only [List.set_cons_zero, modifyFirst, e, if_true]
      exact e ▸ denMembers_cons_intro hn' hr
    · rcases find_cases k rest m' hr with ⟨h1, h2⟩ | ⟨i, k', ltv, tv, h1, h2, h3, h4, h5⟩
      · refine .inl ⟨by simp [Sonic.Model.Lazy.findIdx, e, h1], ?_⟩
        rw [hasKey_cons, h2]
        simpa using fun h : k = k₀ => e h.symm
      · refine .inr ⟨i + 1, k', ltv, tv, by simp [Sonic.Model.Lazy.findIdx, e, h1], by simpa using h2, h3,
          by simp [hasKey_cons, h4], ?_⟩
        intro g n' hn'
        simp only [List.set_cons_succ, modifyFirst, e, if_false]
        exact denMembers_cons_intro hx (h5 g n' hn')

/-! ## `UpdateNodeLazy` on lazy trees -/

theorem rawDen_inv {bs : List Nat} {v : JVal} (h : rawDen bs = some v) :
    ∃ c rest, bs = c :: rest ∧ isWs c = false ∧ parse bs = .ok v ∧ ∀ x ∈ bs, x < 256 := by
  unfold rawDen at h
  cases bs with
  | nil => simp at h
  | cons c rest =>
    simp only at h
    by_cases hw : isWs c = true
    · simp [hw] at h
    · have hw' : isWs c = false := by simpa using hw
      simp only [hw', Bool.false_eq_true, if_false] at h
      by_cases hb : (c :: rest).all (· < 256) = true
      · rw [if_pos hb] at h
        cases hp : parse (c :: rest) with
        | error e => simp [hp] at h
        | ok v' =>
          simp only [hp, Option.some.injEq] at h
          refine ⟨c, rest, rfl, hw', h ▸ rfl, ?_⟩
          intro x hx
          have := List.all_eq_true.mp hb x hx
          simpa using this
      · rw [if_neg hb] at h; cases h

/-- the re-parse step: same denotation, and afterwards the node is an object node exactly when it denotes an
    object -/
theorem reparse_den {W : Nat} {junk : Nat → Nat → Nat} (hR : ReparseOK W junk) (n : LNode) (v : JVal)
    (hd : den n = some v) :
    ∃ n', reparse W junk n 0 = .ok (n', 0) ∧ den n' = some v ∧ (∀ kvs, v = .obj kvs → ∃ lk, n' = .obj lk) := by
  cases n with
  | raw bs =>
    rw [den] at hd
    obtain ⟨c, rest, rfl, hw, hp, hb⟩ := rawDen_inv hd
    by_cases hc : c = 0x7B
    · subst hc
      obtain ⟨kvs, h1, h2⟩ := hR _ v hb hp rfl
      refine ⟨.obj kvs, ?_, h2, fun _ _ => ⟨kvs, rfl⟩⟩
      simp [reparse, h1, bind, Except.bind, pure, Except.pure]
    · refine ⟨.raw (c :: rest), ?_, by rw [den]; exact hd, ?_⟩
      · have : (c == 0x7B) = false := by simpa using hc
        simp [reparse, this, pure, Except.pure]
      · intro kvs hv
        exact absurd hv (parse_not_obj c rest v hw hc hp kvs)
  | arr xs =>
    exact ⟨.arr xs, rfl, hd, fun kvs hv => absurd hv (den_arr_not_obj hd kvs)⟩
  | obj kvs => exact ⟨.obj kvs, rfl, hd, fun _ _ => ⟨kvs, rfl⟩⟩

theorem updateNode_unfold_obj (W : Nat) (junk : Nat → Nat → Nat) (f : Nat) (nt ns : LNode)
    (m : List Nat × LNode) (ms skvs : LMembers)
    (ht : reparse W junk nt 0 = .ok (.obj (m :: ms), 0)) (hs : reparse W junk ns 0 = .ok (.obj skvs, 0)) :
    updateNode W junk (f + 1) nt ns =
      (match mergeMembers (updateNode W junk f) (m :: ms) skvs with
       | .error e => .error e
       | .ok (.inl err) => .ok (.inl err)
       | .ok (.inr kvs) => .ok (.inr (.obj kvs))) := by
  rw [updateNode]
  simp only [bind, Except.bind, ht, hs, bne_self_eq_false, Bool.false_eq_true, if_false, pure, Except.pure]
  cases mergeMembers (updateNode W junk f) (m :: ms) skvs with
  | error e => rfl
  | ok r => cases r <;> rfl

theorem updateNode_unfold_other (W : Nat) (junk : Nat → Nat → Nat) (f : Nat) (nt ns nt' ns' : LNode)
    (ht : reparse W junk nt 0 = .ok (nt', 0)) (hs : reparse W junk ns 0 = .ok (ns', 0))
    (hno : ∀ m ms skvs, nt' = .obj (m :: ms) → ns' = .obj skvs → False) :
    updateNode W junk (f + 1) nt ns = .ok (.inr ns') := by
  rw [updateNode]
  simp only [bind, Except.bind, ht, hs, bne_self_eq_false, Bool.false_eq_true, if_false, pure, Except.pure]

/-- a source that does not denote an object replaces the target -/
theorem updateNode_nonobj {W : Nat} {junk : Nat → Nat → Nat} (hR : ReparseOK W junk) (f : Nat) (nt ns : LNode)
    (t s : JVal) (hs : den ns = some s) (ht : den nt = some t) (hno : ∀ kvs, s ≠ .obj kvs) :
    ∃ n', updateNode W junk (f + 1) nt ns = .ok (.inr n') ∧ den n' = some (update t s) := by
  obtain ⟨nt', hrt, hdt, hnt⟩ := reparse_den hR nt t ht
  obtain ⟨ns', hrs, hds, hns⟩ := reparse_den hR ns s hs
  rw [update_of_not_obj_right t hno]
  refine ⟨ns', ?_, hds⟩
  apply updateNode_unfold_other W junk f nt ns nt' ns' hrt hrs
  intro m ms skvs _ h2
  subst h2
  obtain ⟨m', _, hm⟩ := den_obj hds
  exact hno m' hm

mutual
/-- `UpdateNodeLazy` on lazy trees computes `Spec.Merge.update` on the denoted values -/
theorem updateNode_den {W : Nat} {junk : Nat → Nat → Nat} (hR : ReparseOK W junk) :
    ∀ (s : JVal) (f : Nat) (nt ns : LNode) (t : JVal), den ns = some s → den nt = some t → objDepth s < f →
      ∃ n', updateNode W junk f nt ns = .ok (.inr n') ∧ den n' = some (update t s)
  | s, 0, _, _, _, _, _, hf => by omega
  | .obj skvs, f + 1, nt, ns, t, hs, ht, hf => by
    obtain ⟨nt', hrt, hdt, hnt⟩ := reparse_den hR nt t ht
    obtain ⟨ns', hrs, hds, hns⟩ := reparse_den hR ns (.obj skvs) hs
    obtain ⟨ls, rfl⟩ := hns skvs rfl
    obtain ⟨sm, hsm, hsm'⟩ := den_obj hds
    cases hsm'
    by_cases hn : isNonEmptyObj t = true
    · cases t with
      | obj tkvs =>
        cases tkvs with
        | nil => simp [isNonEmptyObj] at hn
        | cons tm tms =>
          obtain ⟨lt, rfl⟩ := hnt _ rfl
          obtain ⟨tm', htm, htm'⟩ := den_obj hdt
          cases htm'
          cases lt with
          | nil => simp [denMembers] at htm
          | cons lm lms =>
            rw [objDepth] at hf
            obtain ⟨r, hr1, hr2⟩ := mergeMembers_den hR skvs f (lm :: lms) ls (tm :: tms) hsm htm (by omega)
            refine ⟨.obj r, ?_, ?_⟩
            · rw [updateNode_unfold_obj W junk f nt ns lm lms ls hrt hrs, hr1]
            · rw [den, hr2, update]
      | _ => simp [isNonEmptyObj] at hn
    · have hn' : isNonEmptyObj t = false := by simpa using hn
      rw [update_of_not_obj_left _ hn']
      refine ⟨.obj ls, ?_, hds⟩
      apply updateNode_unfold_other W junk f nt ns nt' (.obj ls) hrt hrs
      intro lm lms _ h1 _
      subst h1
      obtain ⟨tm', htm, htm'⟩ := den_obj hdt
      subst htm'
      obtain ⟨v, m', _, _, rfl⟩ := denMembers_cons (k := lm.1) (x := lm.2) htm
      simp [isNonEmptyObj] at hn'
  | .null, f + 1, nt, ns, t, hs, ht, _ => updateNode_nonobj hR f nt ns t .null hs ht (by intro kvs; simp)
  | .bool _, f + 1, nt, ns, t, hs, ht, _ => updateNode_nonobj hR f nt ns t _ hs ht (by intro kvs; simp)
  | .num _, f + 1, nt, ns, t, hs, ht, _ => updateNode_nonobj hR f nt ns t _ hs ht (by intro kvs; simp)
  | .str _, f + 1, nt, ns, t, hs, ht, _ => updateNode_nonobj hR f nt ns t _ hs ht (by intro kvs; simp)
  | .arr _, f + 1, nt, ns, t, hs, ht, _ => updateNode_nonobj hR f nt ns t _ hs ht (by intro kvs; simp)
theorem mergeMembers_den {W : Nat} {junk : Nat → Nat → Nat} (hR : ReparseOK W junk) :
    ∀ (skvs : Members) (f : Nat) (lt ls : LMembers) (tkvs : Members),
      denMembers ls = some skvs → denMembers lt = some tkvs → depthMembers skvs < f →
      ∃ r, mergeMembers (updateNode W junk f) lt ls = .ok (.inr r) ∧
        denMembers r = some (updateMembers tkvs skvs)
  | [], f, lt, ls, tkvs, hs, ht, _ => by
    cases ls with
    | nil => exact ⟨lt, rfl, by rw [updateMembers]; exact ht⟩
    | cons l ls' =>
      obtain ⟨v, m', _, _, h⟩ := denMembers_cons (k := l.1) (x := l.2) hs
      cases h
  | (k, v) :: rest, f, lt, ls, tkvs, hs, ht, hf => by
    cases ls with
    | nil => simp [denMembers] at hs
    | cons l ls' =>
      obtain ⟨kl, lv⟩ := l
      obtain ⟨v', m', hlv, hls', h⟩ := denMembers_cons hs
      cases h
      rw [depthMembers] at hf
      rw [updateMembers_cons]
      unfold stepMembers
      rcases find_cases k lt tkvs ht with ⟨h1, h2⟩ | ⟨i, k', ltv, tv, h1, h2, h3, h4, h5⟩
      · rw [mergeMembers]
        simp only [h1, h2, Bool.false_eq_true, if_false]
        exact mergeMembers_den hR rest f _ ls' _ hls' (denMembers_append_single lt tkvs k lv v ht hlv) (by omega)
      · obtain ⟨n', hn1, hn2⟩ := updateNode_den hR v f ltv lv tv hlv h3 (by omega)
        rw [mergeMembers]
        simp only [h1, h2, h4, if_true, hn1, bind, Except.bind]
        exact mergeMembers_den hR rest f _ ls' _ hls' (h5 (fun tv => update tv v) n' hn2) (by omega)
end

end Sonic.Proofs.MergeLazy
