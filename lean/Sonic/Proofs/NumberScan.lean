import Sonic.Model.Number
import Sonic.Spec.Number

/-!
# Helper lemmas for C04: the digit loops of `parseNumber` in closed form

Every loop of the scanning phase is shown to consume exactly the leading digit run (`takeWhile isDigit`) and to
compute the decimal value of (a prefix of) it.
-/
namespace Sonic.Proofs.Number

open Sonic.Spec.Number (takeDigits digitsVal)
open Sonic.Model.Number

/-- spec and model use the same digit test -/
theorem isDigit_eq (c : Nat) : Sonic.Model.Number.isDigit c = Sonic.Spec.Number.isDigit c := rfl

/-- `carry_one` tests `uint8_t(c - '0') > 9`; for a byte this is "not an ASCII digit" -/
theorem carry_one_test : ∀ c, c < 256 → (decide ((c + 256 - 48) % 256 > 9) = !Sonic.Model.Number.isDigit c) := by
  decide +kernel

abbrev isD := Sonic.Spec.Number.isDigit

theorem isD_iff (c : Nat) : isD c = true ↔ 48 ≤ c ∧ c ≤ 57 := by
  simp [isD, Sonic.Spec.Number.isDigit]

theorem isD_zero : isD 0 = false := by decide

/-! ## lists -/

theorem drop_takeWhile_length {α} (p : α → Bool) (s : List α) :
    s.drop (s.takeWhile p).length = s.dropWhile p := by
  induction s with
  | nil => rfl
  | cons c r ih =>
    simp only [List.takeWhile_cons, List.dropWhile_cons]
    split <;> simp_all

theorem hd_dropWhile (p : Nat → Bool) (h0 : p 0 = false) (s : List Nat) : p (hd (s.dropWhile p)) = false := by
  induction s with
  | nil => simpa [hd] using h0
  | cons c r ih =>
    simp only [List.dropWhile_cons]
    split
    · exact ih
    · simp_all [hd]

theorem takeDigits_cons (c : Nat) (r : List Nat) :
    takeDigits (c :: r) = if isD c then c :: takeDigits r else [] := by
  simp [takeDigits, List.takeWhile_cons]

theorem takeDigits_nil : takeDigits [] = [] := rfl

theorem takeDigits_all (s : List Nat) : ∀ c ∈ takeDigits s, isD c = true := by
  intro c hc
  induction s with
  | nil => simp [takeDigits] at hc
  | cons a r ih =>
    rw [takeDigits_cons] at hc
    split at hc
    · cases hc with
      | head => assumption
      | tail _ h => exact ih h
    · cases hc

/-- the digits run of `s` is empty iff the byte at `s` is not a digit -/
theorem takeDigits_eq_nil (s : List Nat) : takeDigits s = [] ↔ isD (hd s) = false := by
  cases s with
  | nil => simp [takeDigits, hd, isD_zero]
  | cons c r => rw [takeDigits_cons]; by_cases h : isD c <;> simp [h, hd]

/-! ## decimal values -/

/-- accumulate digits on top of `a` -/
def accDigits (a : Nat) (ds : List Nat) : Nat := ds.foldl (fun a c => a * 10 + (c - 48)) a

theorem digitsVal_eq (ds : List Nat) : digitsVal ds = accDigits 0 ds := rfl

theorem accDigits_cons (a c : Nat) (ds : List Nat) : accDigits a (c :: ds) = accDigits (a * 10 + (c - 48)) ds := by
  simp only [accDigits, List.foldl_cons]

theorem accDigits_nil (a : Nat) : accDigits a [] = a := rfl

theorem accDigits_append (a : Nat) (xs ys : List Nat) : accDigits a (xs ++ ys) = accDigits (accDigits a xs) ys := by
  simp [accDigits, List.foldl_append]

theorem accDigits_eq (a : Nat) (ds : List Nat) : accDigits a ds = a * 10 ^ ds.length + accDigits 0 ds := by
  induction ds generalizing a with
  | nil => simp [accDigits]
  | cons c r ih =>
    rw [accDigits_cons, ih, accDigits_cons, ih (0 * 10 + (c - 48))]
    simp only [List.length_cons, Nat.pow_succ, Nat.zero_mul, Nat.zero_add]
    rw [Nat.add_mul, Nat.add_assoc, Nat.mul_assoc, Nat.mul_comm 10]

theorem accDigits_zero_lt (ds : List Nat) (h : ∀ c ∈ ds, isD c = true) : accDigits 0 ds < 10 ^ ds.length := by
  induction ds with
  | nil => simp [accDigits]
  | cons c r ih =>
    have hc : isD c = true := h c (by simp)
    have hr := ih (fun x hx => h x (by simp [hx]))
    rw [accDigits_cons, accDigits_eq]
    simp only [List.length_cons, Nat.pow_succ, Nat.zero_mul, Nat.zero_add]
    rw [isD_iff] at hc
    have : (c - 48) * 10 ^ r.length ≤ 9 * 10 ^ r.length := Nat.mul_le_mul_right _ (by omega)
    omega

theorem digitsVal_lt (ds : List Nat) (h : ∀ c ∈ ds, isD c = true) : digitsVal ds < 10 ^ ds.length :=
  accDigits_zero_lt ds h

theorem digitsVal_append (xs ys : List Nat) : digitsVal (xs ++ ys) = digitsVal xs * 10 ^ ys.length + digitsVal ys := by
  rw [digitsVal_eq, accDigits_append, accDigits_eq]; rfl


/-! ## the simple loops -/

theorem skipDigits_eq (s : List Nat) (i : Nat) :
    skipDigits s i = (s.dropWhile isD, i + (takeDigits s).length) := by
  induction s generalizing i with
  | nil => simp [skipDigits, takeDigits]
  | cons c r ih =>
    simp only [skipDigits, isDigit_eq, takeDigits_cons, List.dropWhile_cons]
    by_cases h : isD c = true
    · simp only [h, if_true, ih, List.length_cons]; congr 1; omega
    · simp [h]

theorem truncLoop_eq (s : List Nat) (t : Bool) (i : Nat) :
    truncLoop s t i = (t || !(takeDigits s).isEmpty, s.dropWhile isD, i + (takeDigits s).length) := by
  induction s generalizing t i with
  | nil => simp [truncLoop, takeDigits]
  | cons c r ih =>
    simp only [truncLoop, isDigit_eq, takeDigits_cons, List.dropWhile_cons]
    by_cases h : isD c = true
    · simp only [h, if_true, ih, List.length_cons]; simp; omega
    · simp [h]

theorem skipZeros_eq (s : List Nat) (i : Nat) :
    skipZeros s i = (s.dropWhile (· == 48), i + (s.takeWhile (· == 48)).length) := by
  induction s generalizing i with
  | nil => simp [skipZeros]
  | cons c r ih =>
    simp only [skipZeros, List.dropWhile_cons, List.takeWhile_cons]
    by_cases h : c = 48
    · simp only [h, if_true, ih, beq_self_eq_true, List.length_cons]; congr 1; omega
    · simp [h]

/-- leading zeros are part of the digit run -/
theorem takeDigits_zeros (s : List Nat) :
    takeDigits s = s.takeWhile (· == 48) ++ takeDigits (s.dropWhile (· == 48)) := by
  induction s with
  | nil => rfl
  | cons c r ih =>
    by_cases h : c = 48
    · subst h
      rw [takeDigits_cons]
      simp only [List.takeWhile_cons, List.dropWhile_cons, beq_self_eq_true, if_true, List.cons_append]
      rw [← ih]; rfl
    · simp [h]

theorem dropWhile_zeros (s : List Nat) :
    (s.dropWhile (· == 48)).dropWhile isD = s.dropWhile isD := by
  induction s with
  | nil => rfl
  | cons c r ih =>
    by_cases h : c = 48
    · subst h
      simp only [List.dropWhile_cons, beq_self_eq_true, if_true, ih]
      rfl
    · simp [List.dropWhile_cons, h]

theorem digitsVal_zeros (zs : List Nat) (h : ∀ c ∈ zs, c = 48) (ds : List Nat) :
    digitsVal (zs ++ ds) = digitsVal ds := by
  induction zs with
  | nil => rfl
  | cons z r ih =>
    have hz : z = 48 := h z (by simp)
    subst hz
    have := ih (fun c hc => h c (by simp [hc]))
    rw [digitsVal_eq] at *
    simpa [accDigits_cons] using this

theorem takeWhile_zeros_all (s : List Nat) : ∀ c ∈ s.takeWhile (· == 48), c = 48 := by
  intro c hc
  induction s with
  | nil => simp at hc
  | cons a r ih =>
    rw [List.takeWhile_cons] at hc
    split at hc
    · cases hc with
      | head => simp_all
      | tail _ h => exact ih h
    · cases hc

/-! ## `str2int` -/

/-- digit accumulation with 64-bit wrap-around -/
def wrapAcc (a : Nat) (ds : List Nat) : Nat := ds.foldl (fun a c => (a * 10 + (c - 48)) % 2 ^ 64) a

theorem str2int_eq (s : List Nat) (sum i : Nat) :
    str2int s sum i = (wrapAcc sum (takeDigits s), s.dropWhile isD, i + (takeDigits s).length) := by
  induction s generalizing sum i with
  | nil => simp [str2int, takeDigits, wrapAcc]
  | cons c r ih =>
    simp only [str2int, isDigit_eq, takeDigits_cons, List.dropWhile_cons]
    by_cases h : isD c = true
    · simp only [h, if_true, ih, List.length_cons, wrapAcc, List.foldl_cons]; congr 2; omega
    · simp [h, wrapAcc]

theorem pow10_le_19 {n : Nat} (h : n ≤ 19) : 10 ^ n ≤ 10 ^ 19 := Nat.pow_le_pow_right (by omega) h

/-- no wrap-around while at most 19 digits have been accumulated -/
theorem wrapAcc_eq (ds : List Nat) (hd : ∀ c ∈ ds, isD c = true) (a n : Nat) (ha : a < 10 ^ n)
    (hn : n + ds.length ≤ 19) : wrapAcc a ds = accDigits a ds := by
  induction ds generalizing a n with
  | nil => rfl
  | cons c r ih =>
    have hc : isD c = true := hd c (by simp)
    rw [isD_iff] at hc
    simp only [List.length_cons] at hn
    have h1 : a * 10 + (c - 48) < 10 ^ (n + 1) := by rw [Nat.pow_succ]; omega
    have h2 : 10 ^ (n + 1) ≤ 10 ^ 19 := pow10_le_19 (by omega)
    have h3 : (a * 10 + (c - 48)) % 2 ^ 64 = a * 10 + (c - 48) := Nat.mod_eq_of_lt (by omega)
    simp only [wrapAcc, List.foldl_cons, h3, accDigits_cons]
    exact ih (fun x hx => hd x (by simp [hx])) _ (n + 1) h1 (by omega)

/-! ## the slow loop (more than 19 integer digits) -/

def slowAcc (m : Mant) (ds : List Nat) : Mant :=
  ds.foldl (fun m c => if m.manNd < 19 then { m with man := (m.man * 10 + (c - 48)) % 2 ^ 64, manNd := m.manNd + 1 }
                       else { m with exp10 := m.exp10 + 1, trunc := true }) m

theorem slowLoop_eq (s : List Nat) (m : Mant) (i : Nat) :
    slowLoop s m i = (slowAcc m (takeDigits s), s.dropWhile isD, i + (takeDigits s).length) := by
  induction s generalizing m i with
  | nil => simp [slowLoop, takeDigits, slowAcc]
  | cons c r ih =>
    simp only [slowLoop, isDigit_eq, takeDigits_cons, List.dropWhile_cons]
    by_cases h : isD c = true
    · by_cases h2 : m.manNd < 19
      · simp only [h, h2, if_true, ih, List.length_cons, slowAcc, List.foldl_cons]; congr 2; omega
      · simp only [h, h2, if_true, if_false, ih, List.length_cons, slowAcc, List.foldl_cons]; congr 2; omega
    · simp [h, slowAcc]

/-- closed form of the slow loop: the first `19 - n` digits go into `man`, the others are counted in `exp10` -/
theorem slowAcc_eq (ds : List Nat) (hd : ∀ c ∈ ds, isD c = true) (a n : Nat) (e : Int) (t : Bool)
    (ha : a < 10 ^ n) (hn : n ≤ 19) :
    slowAcc { man := a, manNd := n, exp10 := e, trunc := t } ds =
      { man := accDigits a (ds.take (19 - n)), manNd := ((n + min ds.length (19 - n) : Nat) : Int),
        exp10 := e + ((ds.length - (19 - n) : Nat) : Int), trunc := t || decide (19 - n < ds.length) } := by
  induction ds generalizing a n e t with
  | nil => simp [slowAcc, accDigits]
  | cons c r ih =>
    have hc : isD c = true := hd c (by simp)
    have hr : ∀ x ∈ r, isD x = true := fun x hx => hd x (by simp [hx])
    rw [isD_iff] at hc
    by_cases h19 : n < 19
    · have h1 : a * 10 + (c - 48) < 10 ^ (n + 1) := by rw [Nat.pow_succ]; omega
      have h2 : 10 ^ (n + 1) ≤ 10 ^ 19 := pow10_le_19 (by omega)
      have h3 : (a * 10 + (c - 48)) % 2 ^ 64 = a * 10 + (c - 48) := Nat.mod_eq_of_lt (by omega)
      have hlt : ((n : Nat) : Int) < 19 := by omega
      have step : slowAcc { man := a, manNd := n, exp10 := e, trunc := t } (c :: r) =
          slowAcc { man := a * 10 + (c - 48), manNd := ((n + 1 : Nat) : Int), exp10 := e, trunc := t } r := by
        simp only [slowAcc, List.foldl_cons, hlt, if_true, h3]; rfl
      rw [step, ih hr _ (n + 1) e t h1 (by omega)]
      have e1 : 19 - n = (19 - (n + 1)) + 1 := by omega
      rw [e1, List.take_succ_cons, accDigits_cons]
      simp only [List.length_cons]
      congr 1
      · congr 1; omega
      · congr 1; omega
      · congr 1; simp
    · have hn19 : n = 19 := by omega
      subst hn19
      have hlt : ¬ (((19 : Nat) : Int) < 19) := by omega
      have step : slowAcc { man := a, manNd := ((19 : Nat) : Int), exp10 := e, trunc := t } (c :: r) =
          slowAcc { man := a, manNd := ((19 : Nat) : Int), exp10 := e + 1, trunc := true } r := by
        simp only [slowAcc, List.foldl_cons, hlt, if_false]
      rw [step, ih hr a 19 (e + 1) true ha (by omega)]
      simp only [Nat.sub_self, List.take_zero, List.length_cons, Nat.sub_zero, Nat.min_zero, Nat.add_zero]
      congr 1
      · omega
      · simp


/-! ## the exponent loop with its `exp < 10^15` cap -/

def capAcc (e : Int) (ds : List Nat) : Int :=
  ds.foldl (fun (e : Int) (c : Nat) => if e < 1000000000000000 then e * 10 + ((c : Int) - 48) else e) e

theorem expLoop_eq (s : List Nat) (e : Int) (i : Nat) :
    expLoop s e i = (capAcc e (takeDigits s), s.dropWhile isD, i + (takeDigits s).length) := by
  induction s generalizing e i with
  | nil => simp [expLoop, takeDigits, capAcc]
  | cons c r ih =>
    simp only [expLoop, isDigit_eq, takeDigits_cons, List.dropWhile_cons]
    by_cases h : isD c = true
    · simp only [h, if_true, ih, List.length_cons, capAcc, List.foldl_cons]; congr 2; omega
    · simp [h, capAcc]

theorem le_accDigits (a : Nat) (ds : List Nat) : a ≤ accDigits a ds := by
  rw [accDigits_eq]
  have : 1 ≤ 10 ^ ds.length := Nat.pow_pos (by omega)
  have := Nat.mul_le_mul_left a this
  omega

/-- below the cap the exponent loop computes the written exponent -/
theorem capAcc_eq (ds : List Nat) (hd : ∀ c ∈ ds, isD c = true) (a : Nat)
    (h : accDigits a ds < 10000000000000000) :
    capAcc (a : Int) ds = ((accDigits a ds : Nat) : Int) := by
  induction ds generalizing a with
  | nil => rfl
  | cons c r ih =>
    have hc : isD c = true := hd c (by simp)
    rw [isD_iff] at hc
    rw [accDigits_cons] at h
    have h1 := le_accDigits (a * 10 + (c - 48)) r
    have ha : (a : Int) < 1000000000000000 := by omega
    have e1 : (a : Int) * 10 + ((c : Int) - 48) = ((a * 10 + (c - 48) : Nat) : Int) := by omega
    simp only [capAcc, List.foldl_cons, ha, if_true, e1]
    exact ih (fun x hx => hd x (by simp [hx])) _ h

/-- in any case the loop result stays below 10^16 (so that `exp * esm` cannot overflow an `int64_t`) -/
theorem capAcc_bound (ds : List Nat) (hd : ∀ c ∈ ds, isD c = true) (e : Int) (h0 : 0 ≤ e)
    (h1 : e < 10000000000000000) :
    0 ≤ capAcc e ds ∧ capAcc e ds < 10000000000000000 := by
  induction ds generalizing e with
  | nil => exact ⟨h0, h1⟩
  | cons c r ih =>
    have hc : isD c = true := hd c (by simp)
    rw [isD_iff] at hc
    simp only [capAcc, List.foldl_cons]
    by_cases h : e < 1000000000000000
    · simp only [h, if_true]
      exact ih (fun x hx => hd x (by simp [hx])) _ (by omega) (by omega)
    · simp only [h, if_false]
      exact ih (fun x hx => hd x (by simp [hx])) _ h0 h1

/-! ## the fraction digits: `simd_str2int`, then the scalar loop up to 17 digits -/

theorem takeWhile_take_length (p : Nat → Bool) (s : List Nat) (k : Nat) :
    ((s.take k).takeWhile p).length = min k (s.takeWhile p).length := by
  induction s generalizing k with
  | nil => simp
  | cons c r ih =>
    cases k with
    | zero => simp
    | succ k =>
      simp only [List.take_succ_cons, List.takeWhile_cons]
      by_cases h : p c = true
      · simp only [h, if_true, List.length_cons, ih]; omega
      · simp [h]

theorem take_takeWhile (p : Nat → Bool) (s : List Nat) (k : Nat) (hk : k ≤ (s.takeWhile p).length) :
    s.take k = (s.takeWhile p).take k := by
  induction s generalizing k with
  | nil => simp
  | cons c r ih =>
    cases k with
    | zero => simp
    | succ k =>
      rw [List.takeWhile_cons] at hk ⊢
      by_cases h : p c = true
      · simp only [h, if_true, List.length_cons] at hk ⊢
        simp only [List.take_succ_cons]
        rw [ih k (by omega)]
      · simp [h] at hk

theorem takeDigits_drop (s : List Nat) (k : Nat) (hk : k ≤ (takeDigits s).length) :
    takeDigits (s.drop k) = (takeDigits s).drop k ∧ (s.drop k).dropWhile isD = s.dropWhile isD := by
  induction s generalizing k with
  | nil => simp [takeDigits]
  | cons c r ih =>
    cases k with
    | zero => simp
    | succ k =>
      rw [takeDigits_cons] at hk ⊢
      by_cases h : isD c = true
      · simp only [h, if_true, List.length_cons] at hk ⊢
        simp only [List.drop_succ_cons, List.dropWhile_cons, h, if_true]
        exact ih k (by omega)
      · simp [h] at hk

theorem simdStr2int_eq (s : List Nat) (n : Nat) (hn : 0 < n) :
    simdStr2int s (n : Int) =
      (digitsVal ((takeDigits s).take (min n (min 16 (takeDigits s).length))),
        ((min n (min 16 (takeDigits s).length) : Nat) : Int)) := by
  have hlen : ((s.take 16).takeWhile Sonic.Model.Number.isDigit).length = min 16 (takeDigits s).length :=
    takeWhile_take_length _ s 16
  unfold simdStr2int
  simp only [hlen]
  generalize hL : (takeDigits s).length = L
  have hL' : (s.takeWhile isD).length = L := hL
  by_cases h1 : (n : Int) < ((min 16 L : Nat) : Int)
  · have e1 : min n (min 16 L) = n := by omega
    simp only [h1, if_true, e1]
    have : ¬ ((n : Int) ≤ 0) := by omega
    simp only [this, if_false, Int.toNat_natCast]
    rw [take_takeWhile isD s n (by omega)]; rfl
  · have e1 : min n (min 16 L) = min 16 L := by omega
    simp only [h1, if_false, e1]
    by_cases h2 : ((min 16 L : Nat) : Int) ≤ 0
    · have : min 16 L = 0 := by omega
      simp [this, digitsVal]
    · simp only [h2, if_false, Int.toNat_natCast]
      rw [take_takeWhile isD s (min 16 L) (by omega)]; rfl

/-- closed form of the scalar fraction loop: it takes `min (length of the run) (17 - nd)` digits -/
theorem fractLoop_eq (s : List Nat) (man nd i : Nat) (hman : man < 10 ^ nd) (hnd : nd ≤ 17) :
    fractLoop s man (nd : Int) i =
      (accDigits man ((takeDigits s).take (17 - nd)),
        ((nd + min (takeDigits s).length (17 - nd) : Nat) : Int),
        s.drop (min (takeDigits s).length (17 - nd)),
        i + min (takeDigits s).length (17 - nd)) := by
  induction s generalizing man nd i with
  | nil => simp [fractLoop, takeDigits, accDigits]
  | cons c r ih =>
    rw [takeDigits_cons]
    by_cases h : isD c = true
    · by_cases h17 : nd < 17
      · have hc := (isD_iff c).1 h
        have h1 : man * 10 + (c - 48) < 10 ^ (nd + 1) := by rw [Nat.pow_succ]; omega
        have h2 : 10 ^ (nd + 1) ≤ 10 ^ 19 := pow10_le_19 (by omega)
        have h3 : (man * 10 + (c - 48)) % 2 ^ 64 = man * 10 + (c - 48) := Nat.mod_eq_of_lt (by omega)
        have hlt : (nd : Int) < 17 := by omega
        have step : fractLoop (c :: r) man (nd : Int) i = fractLoop r (man * 10 + (c - 48)) ((nd + 1 : Nat) : Int) (i + 1) := by
          simp only [fractLoop, isDigit_eq, h, hlt, and_self, if_true, h3]; rfl
        rw [step, ih _ (nd + 1) (i + 1) h1 (by omega)]
        have e1 : 17 - nd = (17 - (nd + 1)) + 1 := by omega
        simp only [h, if_true, List.length_cons]
        rw [e1, List.take_succ_cons, accDigits_cons]
        have e2 : min ((takeDigits r).length + 1) (17 - (nd + 1) + 1) = min (takeDigits r).length (17 - (nd + 1)) + 1 := by omega
        rw [e2, List.drop_succ_cons]
        refine Prod.ext rfl (Prod.ext ?_ (Prod.ext rfl ?_)) <;> simp <;> omega
      · have : nd = 17 := by omega
        subst this
        have hlt : ¬ (((17 : Nat) : Int) < 17) := by omega
        simp [fractLoop, accDigits]
    · simp [fractLoop, isDigit_eq, h, accDigits]


theorem accDigits_lt (a n : Nat) (ha : a < 10 ^ n) (ds : List Nat) (hd : ∀ c ∈ ds, isD c = true) :
    accDigits a ds < 10 ^ (n + ds.length) := by
  rw [accDigits_eq, Nat.pow_add]
  have h1 := accDigits_zero_lt ds hd
  have h2 : (a + 1) * 10 ^ ds.length ≤ 10 ^ n * 10 ^ ds.length := Nat.mul_le_mul_right _ ha
  rw [Nat.add_mul] at h2
  omega

theorem not_isEmpty_eq {α} (l : List α) : (!l.isEmpty) = decide (0 < l.length) := by
  cases l <;> simp

theorem mem_take_of {α} {l : List α} {k : Nat} {x : α} (h : x ∈ l.take k) : x ∈ l := List.mem_of_mem_take h

/-- closed form of the block `double_fract` … `double_fast`/`double_exp`: with `n` mantissa digits so far, the next
    `k = min (run length) (17 - n)` digits go into `man`, the rest of the run only sets `trunc` -/
theorem doubleFract_eq (neg : Bool) (s : List Nat) (i : Nat) (m : Mant) (exp10S n : Nat)
    (hnd : m.manNd = (n : Int)) (hn : n ≤ 19) (hman : m.man < 10 ^ n) :
    doubleFract neg s i m exp10S =
      (if !isE (hd (s.dropWhile isD)) then
        Acc.float { neg := neg, man := accDigits m.man ((takeDigits s).take (min (takeDigits s).length (17 - n))),
                    exp10 := m.exp10 - (((i + min (takeDigits s).length (17 - n) : Nat) : Int) - exp10S),
                    trunc := m.trunc || decide (min (takeDigits s).length (17 - n) < (takeDigits s).length),
                    next := i + (takeDigits s).length }
      else doubleExp neg (s.dropWhile isD) (i + (takeDigits s).length)
            (accDigits m.man ((takeDigits s).take (min (takeDigits s).length (17 - n))))
            (m.exp10 - (((i + min (takeDigits s).length (17 - n) : Nat) : Int) - exp10S))
            (m.trunc || decide (min (takeDigits s).length (17 - n) < (takeDigits s).length))) := by
  have hall := takeDigits_all s
  generalize hds : takeDigits s = ds at *
  generalize hL : ds.length = L at *
  unfold doubleFract
  by_cases h17 : n < 17
  · -- the SIMD block and the scalar loop
    have hfl : (17 : Int) - m.manNd = ((17 - n : Nat) : Int) := by omega
    have hpos : ((17 - n : Nat) : Int) > 0 := by omega
    simp only [hfl, hpos, if_true]
    rw [simdStr2int_eq s (17 - n) (by omega)]
    simp only [hds, hL, Int.toNat_natCast]
    generalize hn1 : min (17 - n) (min 16 L) = n1
    have hn1L : n1 ≤ L := by omega
    have hlen1 : (ds.take n1).length = n1 := by rw [List.length_take]; omega
    have hall1 : ∀ c ∈ ds.take n1, isD c = true := fun c hc => hall c (mem_take_of hc)
    have hacc : m.man * 10 ^ n1 + digitsVal (ds.take n1) = accDigits m.man (ds.take n1) := by
      rw [accDigits_eq m.man, hlen1]; rfl
    have hlt := accDigits_lt m.man n hman (ds.take n1) hall1
    rw [hlen1] at hlt
    have hle : 10 ^ (n + n1) ≤ 10 ^ 19 := pow10_le_19 (by omega)
    have hmod : (m.man * 10 ^ n1 + digitsVal (ds.take n1)) % 2 ^ 64 = accDigits m.man (ds.take n1) := by
      rw [hacc]; exact Nat.mod_eq_of_lt (by omega)
    have hnd2 : m.manNd + ((n1 : Nat) : Int) = ((n + n1 : Nat) : Int) := by omega
    have htd := takeDigits_drop s n1 (by rw [hds]; omega)
    rw [hds] at htd
    rw [hmod, hnd2, fractLoop_eq (s.drop n1) _ (n + n1) (i + n1) hlt (by omega)]
    simp only [htd.1, List.length_drop, hL]
    generalize hk2 : min (L - n1) (17 - (n + n1)) = k2
    have hk : min L (17 - n) = n1 + k2 := by omega
    have hacc2 : accDigits (accDigits m.man (ds.take n1)) ((ds.drop n1).take (17 - (n + n1)))
        = accDigits m.man (ds.take (n1 + k2)) := by
      rw [← accDigits_append]
      congr 1
      rw [List.take_add]
      congr 1
      apply List.take_eq_take_iff.2
      rw [List.length_drop, hL]; omega
    rw [hacc2, List.drop_drop, truncLoop_eq]
    have htd2 := takeDigits_drop s (n1 + k2) (by rw [hds]; omega)
    rw [hds] at htd2
    simp only [htd2.1, htd2.2, List.length_drop, hL, hk]
    have hemp : (!(ds.drop (n1 + k2)).isEmpty) = decide (n1 + k2 < L) := by
      rw [not_isEmpty_eq, List.length_drop, hL]
      by_cases hh : n1 + k2 < L <;> simp [hh] <;> omega
    have hi : i + (n1 + k2) + (L - (n1 + k2)) = i + L := by omega
    have hi2 : i + n1 + k2 = i + (n1 + k2) := by omega
    simp only [hemp, hi2, hi]
  · have hfl : ¬ ((17 : Int) - m.manNd > 0) := by omega
    have hk : min L (17 - n) = 0 := by omega
    simp only [hfl, if_false, truncLoop_eq, hds, hL, hk, List.take_zero, accDigits_nil, Nat.add_zero]
    have hemp : (!ds.isEmpty) = decide (0 < L) := by
      rw [not_isEmpty_eq, hL]
    simp only [hemp]

end Sonic.Proofs.Number
