import Sonic.Proofs.ConcurrencyMain
import Sonic.Proofs.ConcurrencyAccess

/-!
# C17 helper lemmas: consequences of the invariant of the locked-pool semantics
-/

namespace Sonic.Proofs.Concurrency
open Sonic.Model.Pool Sonic.Proofs.Pool Sonic.Model.Lock Sonic.Model.Access

/-! ### full sequential invariant when nobody is between an allocation and its fill -/

/-- no thread has bytes left to write -/
def Settled (c : CState) : Prop :=
  ∀ (t : Nat) (th : PThread), c.threads[t]? = some th → ∀ id i, pending th.phase id i = false

theorem poolInv_of_settled {c : CState} (h : CInv c) (hs : Settled c) : PoolInv c.sh :=
  h.shared.poolInv (fun b hb i hi => h.cont b hb i hi (fun u thu hu => hs u thu hu _ _))

/-- all threads idle (e.g. after they ran to completion) -/
theorem settled_of_idle {c : CState} (hi : ∀ (t : Nat) (th : PThread), c.threads[t]? = some th → th.phase = .idle) :
    Settled c := by
  intro t th ht id i; rw [hi t th ht]; rfl

/-! ### mutual exclusion of the guarded regions -/

theorem lock_unique {c : CState} (h : CInv c) {i j : Nat} {thi thj : PThread}
    (hi : c.threads[i]? = some thi) (hj : c.threads[j]? = some thj)
    (hhi : thi.phase.holdsLock = true) (hhj : thj.phase.holdsLock = true) : i = j := by
  apply Decidable.byContradiction; intro hne
  have hl := h.lock
  have hset := lockCount_set c hi ⟨.idle, []⟩ c.flag c.sh c.owner
  rw [hhi] at hset
  have hj' : (c.threads.set i ⟨.idle, []⟩)[j]? = some thj := by
    rw [List.getElem?_set_ne hne]; exact hj
  obtain ⟨hlt, e⟩ := List.getElem?_eq_some_iff.mp hj'
  have hpos : 1 ≤ lockCount ⟨c.flag, c.sh, c.owner, c.threads.set i ⟨.idle, []⟩⟩ := by
    apply List.countP_pos_iff.mpr
    exact ⟨_, List.getElem_mem hlt, by rw [e]; exact hhj⟩
  simp [Phase.holdsLock] at hset
  split at hl <;> omega

/-- a thread inside a guarded region sees the flag set -/
theorem holds_flag' {c : CState} (h : CInv c) {t : Nat} {th : PThread} (ht : c.threads[t]? = some th)
    (hh : th.phase.holdsLock = true) : c.flag = true := holds_flag h ht hh

/-! ### blocks: aligned, pairwise disjoint -/

theorem blocks_disjoint {c : CState} (h : CInv c) {a b : Block} (ha : a ∈ c.sh.blocks) (hb : b ∈ c.sh.blocks)
    (hne : a.id ≠ b.id) : Disjoint a b := disj_of_mem h.shared.block.disj ha hb hne

theorem blocks_unique {c : CState} (h : CInv c) {a b : Block} (ha : a ∈ c.sh.blocks) (hb : b ∈ c.sh.blocks)
    (e : a.id = b.id) : a = b := eq_of_id_eq h.shared.block.disj ha hb e

theorem block_facts {c : CState} (h : CInv c) {b : Block} (hb : b ∈ c.sh.blocks) :
    b.off % 8 = 0 ∧ b.asz % 8 = 0 ∧ b.asz = alignUp b.req ∧ 0 < b.req ∧ b.req ≤ b.asz ∧
      (∃ t, c.owner[b.id]? = some t) ∧
      ∀ i, i < b.asz → (c.sh.mem.read b.reg (b.off + i)).isSome := by
  obtain ⟨b1, b2, b3, b4, _⟩ := h.shared.block.block_ok b hb
  refine ⟨b2, by rw [b3]; exact alignUp_mod _, b3, b4, by rw [b3]; exact le_alignUp _, ?_,
    fun i hi => block_readable h.shared.chunk h.shared.block hb i hi⟩
  have : b.id < c.owner.length := by rw [h.owner_len]; exact b1
  exact ⟨c.owner[b.id], by simp [this]⟩

/-! ### a step of thread `t` only changes bytes inside blocks owned by `t` -/

/-- if a defined byte changes in a step of `t`, it lies in the aligned extent of a block owned by `t` -/
theorem step_writes_own {c : CState} (h : CInv c) (t : Nat) {r o v : Nat} (hv : c.sh.mem.read r o = some v)
    (hchg : (pstep c t).sh.mem.read r o ≠ some v) :
    ∃ b ∈ c.sh.blocks, c.owner[b.id]? = some t ∧ r = b.reg ∧ b.off ≤ o ∧ o < b.off + b.asz := by
  rcases (step_ok h t).mem with hm | ⟨b, hb, hown, o0, len, f, hle, e⟩
  · exact absurd (hm r o v hv) hchg
  · refine ⟨b, hb, hown, ?_⟩
    apply Decidable.byContradiction; intro hout
    apply hchg
    rw [e, read_fill_of_outside _ _ _ _ _ _ _ (by intro e'; omega)]
    exact hv

/-- the blocks of the other threads: record kept, every byte of the aligned extent unchanged -/
theorem step_other_block {c : CState} (h : CInv c) (t : Nat) {b : Block} (hb : b ∈ c.sh.blocks)
    (hown : c.owner[b.id]? ≠ some t) :
    b ∈ (pstep c t).sh.blocks ∧
      ∀ i, i < b.asz → (pstep c t).sh.mem.read b.reg (b.off + i) = c.sh.mem.read b.reg (b.off + i) := by
  refine ⟨(step_ok h t).frame b hb hown, ?_⟩
  intro i hi
  have hr := block_readable h.shared.chunk h.shared.block hb i hi
  rcases hv : c.sh.mem.read b.reg (b.off + i) with _ | v
  · rw [hv] at hr; cases hr
  · apply Decidable.byContradiction; intro hchg
    obtain ⟨b0, hb0, hown0, e1, e2, e3⟩ := step_writes_own h t hv hchg
    have hne : b.id ≠ b0.id := fun e => hown (by rw [e]; exact hown0)
    rcases blocks_disjoint h hb hb0 hne with d | d | d
    · exact d e1
    · omega
    · omega

/-! ### the private `memcpy` of `Realloc` -/

theorem copy_step {c : CState} (h : CInv c) {t src dst : Nat} {rq : List Req}
    (ht : c.threads[t]? = some ⟨.priv (.copy src dst), rq⟩) :
    ∃ bs ∈ c.sh.blocks, ∃ bd ∈ c.sh.blocks, bs.id = src ∧ bd.id = dst ∧
      c.owner[src]? = some t ∧ c.owner[dst]? = some t ∧ Disjoint bs bd ∧
      alignUp bs.req = bs.asz ∧ alignUp bs.req ≤ bd.asz ∧
      (pstep c t).sh.mem = c.sh.mem.copy bd.reg bd.off bs.reg bs.off (alignUp bs.req) ∧
      (∀ i, i < bs.req → (pstep c t).sh.mem.read bd.reg (bd.off + i) = some (pat bs.id i)) ∧
      (∀ r o, ¬ (r = bd.reg ∧ bd.off ≤ o ∧ o < bd.off + alignUp bs.req) →
        (pstep c t).sh.mem.read r o = c.sh.mem.read r o) := by
  obtain ⟨hne, ho1, ho2, bs, hbs, e1, bd, hbd, e2, hle⟩ := h.phase_ok t _ ht
  subst e1; subst e2
  have hmem : (pstep c t).sh.mem = c.sh.mem.copy bd.reg bd.off bs.reg bs.off (alignUp bs.req) := by
    unfold pstep
    simp only [ht]
    unfold privStep
    simp only [findBlock_of_mem h.shared hbs, findBlock_of_mem h.shared hbd]
  have hasz := (h.shared.block.block_ok bs hbs).2.2.1
  refine ⟨bs, hbs, bd, hbd, rfl, rfl, ho1, ho2, blocks_disjoint h hbs hbd hne, hasz.symm, hle, hmem, ?_, ?_⟩
  · intro i hi
    have hra := le_alignUp bs.req
    have hsrc : c.sh.mem.read bs.reg (bs.off + i) = some (pat bs.id i) := by
      refine h.cont bs hbs i hi ?_
      intro u thu hu
      cases hp : pending thu.phase bs.id i with
      | false => rfl
      | true =>
        have := pending_owner (h.phase_ok u thu hu) hp
        rw [ho1] at this; cases this
        rw [ht] at hu; cases hu
        simp [pending, pendingPriv] at hp
        exact absurd hp hne
    rw [hmem]
    unfold Mem.copy
    rw [read_fill, if_pos ⟨rfl, by omega, by omega,
      block_readable h.shared.chunk h.shared.block hbd i (by omega)⟩]
    rw [show bd.off + i - bd.off = i by omega, hsrc]; rfl
  · intro r o hout
    rw [hmem]
    unfold Mem.copy
    exact read_fill_of_outside _ _ _ _ _ _ _ (by intro e; omega)

/-! ### ownership is stable; classification of the accesses of a run -/

theorem prun_owner_mono {c : CState} (h : CInv c) {id u : Nat} (ho : c.owner[id]? = some u) :
    ∀ sched, (prun c sched).owner[id]? = some u := by
  intro sched
  unfold prun
  induction sched generalizing c with
  | nil => exact ho
  | cons t ts ih => exact ih (cinv_step h t) ((step_ok h t).mono id u ho)

/-- what an event of thread `tid` can be -/
def EventOk (owner : List Nat) (e : PEvent) : Prop :=
  e.acc.loc = .threadLocal e.tid ∨ (e.acc.loc = .poolState 0 ∧ e.locked = true) ∨
    ∃ id, e.acc.loc = .block 0 id ∧ owner[id]? = some e.tid

theorem stepEvents_ok {c : CState} (h : CInv c) (t : Nat) : ∀ e ∈ stepEvents c t, EventOk c.owner e := by
  intro e he
  unfold stepEvents at he
  rcases ht : c.threads[t]? with _ | th
  · rw [ht] at he; cases he
  rw [ht] at he
  simp only [List.mem_map] at he
  obtain ⟨a, ha, rfl⟩ := he
  have hok := h.phase_ok t th ht
  obtain ⟨ph, rq⟩ := th
  cases ph with
  | idle => simp [phaseAccesses] at ha; subst ha; exact Or.inl rfl
  | acq g sp => simp [phaseAccesses] at ha
  | rel k => simp [phaseAccesses] at ha
  | crit g =>
    simp only [phaseAccesses, List.mem_cons, List.not_mem_nil, or_false] at ha
    rcases ha with rfl | rfl | rfl
    · exact Or.inr (Or.inl ⟨rfl, rfl⟩)
    · exact Or.inr (Or.inl ⟨rfl, rfl⟩)
    · exact Or.inl rfl
  | priv k =>
    cases k with
    | none => simp [phaseAccesses] at ha; subst ha; exact Or.inl rfl
    | retry _ _ => simp [phaseAccesses] at ha; subst ha; exact Or.inl rfl
    | fillNew id =>
      simp [phaseAccesses] at ha; subst ha
      exact Or.inr (Or.inr ⟨id, rfl, hok.1⟩)
    | fillTail id old =>
      simp [phaseAccesses] at ha; subst ha
      exact Or.inr (Or.inr ⟨id, rfl, hok.1⟩)
    | copy src dst =>
      simp only [phaseAccesses, List.mem_cons, List.not_mem_nil, or_false] at ha
      rcases ha with rfl | rfl
      · exact Or.inr (Or.inr ⟨src, rfl, hok.2.1⟩)
      · exact Or.inr (Or.inr ⟨dst, rfl, hok.2.2.1⟩)

theorem EventOk.mono {owner owner' : List Nat} {e : PEvent} (h : EventOk owner e)
    (hm : ∀ (id u : Nat), owner[id]? = some u → owner'[id]? = some u) : EventOk owner' e := by
  rcases h with h | h | ⟨id, h1, h2⟩
  · exact Or.inl h
  · exact Or.inr (Or.inl h)
  · exact Or.inr (Or.inr ⟨id, h1, hm _ _ h2⟩)

theorem ptrace_ok : ∀ (sched : List Nat) {c : CState}, CInv c →
    ∀ e ∈ ptrace c sched, EventOk (prun c sched).owner e
  | [], _, _ => by intro e he; simp [ptrace] at he
  | t :: ts, c, h => by
    intro e he
    simp only [ptrace, List.mem_append] at he
    rcases he with he | he
    · refine (stepEvents_ok h t e he).mono ?_
      intro id u ho
      exact prun_owner_mono (cinv_step h t) ((step_ok h t).mono id u ho) ts
    · exact ptrace_ok ts (cinv_step h t) e he

/-- two classified events of different threads that conflict are both guarded accesses to the pool state -/
theorem eventOk_conflict {owner : List Nat} {e1 e2 : PEvent} (h1 : EventOk owner e1) (h2 : EventOk owner e2)
    (hne : e1.tid ≠ e2.tid) (hc : Conflict e1.acc e2.acc) :
    (e1.acc.loc = .poolState 0 ∧ e1.locked = true) ∧ (e2.acc.loc = .poolState 0 ∧ e2.locked = true) := by
  obtain ⟨hov, _⟩ := hc
  rcases h1 with h1 | h1 | ⟨id1, h1, o1⟩
  · rw [h1] at hov
    have := overlaps_threadLocal _ _ hov
    rcases h2 with h2 | h2 | ⟨id2, h2, _⟩
    · rw [h2] at this; exact absurd (Loc.threadLocal.inj this).symm hne
    · rw [h2.1] at this; cases this
    · rw [h2] at this; cases this
  · rcases h2 with h2 | h2 | ⟨id2, h2, _⟩
    · rw [h1.1, h2] at hov; simp [Loc.overlaps, Loc.coarse] at hov
    · exact ⟨h1, h2⟩
    · rw [h1.1, h2] at hov; simp [Loc.overlaps, Loc.coarse] at hov
  · rcases h2 with h2 | h2 | ⟨id2, h2, o2⟩
    · rw [h1, h2] at hov; simp [Loc.overlaps, Loc.coarse] at hov
    · rw [h1, h2.1] at hov; simp [Loc.overlaps, Loc.coarse] at hov
    · rw [h1, h2] at hov
      simp [Loc.overlaps, Loc.coarse] at hov
      subst hov
      rw [o1] at o2
      exact absurd (Option.some.inj o2) hne

end Sonic.Proofs.Concurrency
