import Sonic.Proofs.DecBasic
import Mathlib.Tactic.Ring
import Mathlib.Tactic.Linarith

/-!
# `RightShift(d, k)`: exact long division of the digit string by `2^k`
-/
namespace Sonic.Proofs.Dec

open Sonic.Model.BigDecimal

/-- value of the first `r` digits, continued with zeros beyond `nd` -/
def pval (a : Array Nat) (nd r : Nat) : Nat := dval a (min r nd) * 10 ^ (r - nd)

theorem pval_le (a : Array Nat) (nd r : Nat) (h : r ≤ nd) : pval a nd r = dval a r := by
  unfold pval
  rw [Nat.min_eq_left h, Nat.sub_eq_zero_of_le h]; simp

theorem pval_ge (a : Array Nat) (nd r : Nat) (h : nd ≤ r) : pval a nd r = dval a nd * 10 ^ (r - nd) := by
  unfold pval
  rw [Nat.min_eq_right h]

theorem pval_succ_lt (a : Array Nat) (nd r : Nat) (h : r < nd) :
    pval a nd (r + 1) = pval a nd r * 10 + (rd a r - 48) := by
  rw [pval_le a nd (r + 1) h, pval_le a nd r (by omega)]; rfl

theorem pval_succ_ge (a : Array Nat) (nd r : Nat) (h : nd ≤ r) : pval a nd (r + 1) = pval a nd r * 10 := by
  rw [pval_ge a nd (r + 1) (by omega), pval_ge a nd r h, show r + 1 - nd = (r - nd) + 1 by omega, Nat.pow_succ]
  ring

theorem u64_digit (n c : Nat) (hc : 48 ≤ c) (h : n * 10 + (c - 48) < 2 ^ 64) :
    u64 ((n : Int) * 10 + (c : Int) - 48) = n * 10 + (c - 48) := by
  unfold u64
  have e : (n : Int) * 10 + (c : Int) - 48 = ((n * 10 + (c - 48) : Nat) : Int) := by omega
  rw [e]
  have : ((n * 10 + (c - 48) : Nat) : Int) % (2 ^ 64 : Int) = ((n * 10 + (c - 48)) % 2 ^ 64 : Nat) := by
    norm_cast
  rw [this, Int.toNat_natCast, Nat.mod_eq_of_lt h]

theorem pow_le_60 {k : Nat} (hk : k ≤ 60) : 2 ^ k ≤ 2 ^ 60 := Nat.pow_le_pow_right (by omega) hk

theorem div_ne_zero_iff (n k : Nat) : n / 2 ^ k ≠ 0 ↔ 2 ^ k ≤ n := by
  rw [Ne, Nat.div_eq_zero_iff_lt (Nat.pow_pos (by omega))]; omega

/-! ## the pick-up phase -/

theorem rsPad_spec (k : Nat) (hk : k ≤ 60) : ∀ f n r, 0 < n → n < 10 * 2 ^ k → 2 ^ k ≤ n * 10 ^ f →
    ∃ j, rsPad k (f + 1) n r = some (n * 10 ^ j, r + j) ∧ 2 ^ k ≤ n * 10 ^ j ∧ n * 10 ^ j < 10 * 2 ^ k := by
  intro f
  induction f with
  | zero =>
    intro n r hn hlt hle
    refine ⟨0, ?_, by simpa using hle, by simpa using hlt⟩
    unfold rsPad
    have : ¬ (n / 2 ^ k = 0) := (div_ne_zero_iff n k).2 (by simpa using hle)
    simp [this]
  | succ f ih =>
    intro n r hn hlt hle
    by_cases hge : 2 ^ k ≤ n
    · refine ⟨0, ?_, by simpa using hge, by simpa using hlt⟩
      unfold rsPad
      have : ¬ (n / 2 ^ k = 0) := (div_ne_zero_iff n k).2 hge
      simp [this]
    · have hlt' : n < 2 ^ k := by omega
      have h60 := pow_le_60 hk
      have hmod : n * 10 % 2 ^ 64 = n * 10 := Nat.mod_eq_of_lt (by omega)
      obtain ⟨j, hj, h1, h2⟩ := ih (n * 10) (r + 1) (by omega) (by omega) (by
        rw [Nat.pow_succ] at hle; linarith)
      refine ⟨j + 1, ?_, ?_, ?_⟩
      · rw [rsPad]
        have : n / 2 ^ k = 0 := (Nat.div_eq_zero_iff_lt (Nat.pow_pos (by omega))).2 hlt'
        rw [if_pos this, hmod, hj]
        simp only [Option.some.injEq, Prod.mk.injEq]
        constructor
        · rw [Nat.pow_succ]; ring
        · omega
      · rw [Nat.pow_succ]; linarith
      · rw [Nat.pow_succ]; linarith

theorem rsPick_spec (a : Array Nat) (nd k : Nat) (hk : k ≤ 60) (hd : Digits a nd) (hpos : 0 < dval a nd) :
    ∀ f r n, f + r = nd + 1 → r ≤ nd → n = dval a r → n < 10 * 2 ^ k →
    ∃ n' r', rsPick a nd k f n r = .go n' r' ∧ n' = pval a nd r' ∧ 2 ^ k ≤ n' ∧ n' < 10 * 2 ^ k ∧ r ≤ r' ∧
      (n < 2 ^ k → r < r') := by
  intro f
  induction f with
  | zero => intro r n h1 h2; omega
  | succ f ih =>
    intro r n hfr hr hn hlt
    by_cases hge : 2 ^ k ≤ n
    · refine ⟨n, r, ?_, by rw [pval_le a nd r hr, hn], hge, hlt, Nat.le_refl _, by omega⟩
      rw [rsPick, if_pos ((div_ne_zero_iff n k).2 hge)]
    · have hlt' : n < 2 ^ k := by omega
      have hdz : ¬ (n / 2 ^ k ≠ 0) := by rw [div_ne_zero_iff]; omega
      have h60 := pow_le_60 hk
      by_cases hrn : r ≥ nd
      · have hrnd : r = nd := by omega
        subst hrnd
        have hn0 : n ≠ 0 := by omega
        obtain ⟨j, hj, h1, h2⟩ := rsPad_spec k hk 63 n r (by omega) (by omega) (by
          have : (2:Nat) ^ 60 ≤ 10 ^ 63 := by decide
          have : 1 * 10 ^ 63 ≤ n * 10 ^ 63 := Nat.mul_le_mul_right _ (by omega)
          omega)
        refine ⟨n * 10 ^ j, r + j, ?_, ?_, h1, h2, by omega, ?_⟩
        · rw [rsPick, if_neg hdz, if_pos (Nat.le_refl _), if_neg hn0, hj]
        · rw [pval_ge a r (r + j) (by omega), hn]; congr 2; omega
        · intro _
          rcases Nat.eq_zero_or_pos j with h0 | h0
          · subst h0; simp at h1; omega
          · omega
      · have hr' : r < nd := by omega
        have hdig := hd r hr'
        have hval : n * 10 + (rd a r - 48) < 2 ^ 64 := by omega
        obtain ⟨n', r', h1, h2, h3, h4, h5, _⟩ := ih (r + 1) (n * 10 + (rd a r - 48)) (by omega) (by omega)
          (by rw [dval_succ, hn]) (by omega)
        refine ⟨n', r', ?_, h2, h3, h4, by omega, fun _ => by omega⟩
        rw [rsPick, if_neg hdz, if_neg hrn, u64_digit n (rd a r) hdig.1 hval, h1]

/-! ## the main loop -/

theorem rsMain_done (nd k f : Nat) (a : Array Nat) (n r w : Nat) (h : nd ≤ r) :
    rsMain nd k f a n r w = (a, n, w) := by
  cases f with
  | zero => rfl
  | succ f => rw [rsMain, if_neg (by omega)]

theorem rsMain_spec (a₀ : Array Nat) (nd k : Nat) (hk : k ≤ 60) (hd : Digits a₀ nd) (hnd : nd ≤ 800) :
    ∀ f a n r w, a.size = 800 → w < r → r ≤ nd → nd - r ≤ f →
      (∀ i, r ≤ i → i < nd → rd a i = rd a₀ i) → Digits a w → n < 10 * 2 ^ k →
      pval a₀ nd r = dval a w * (10 * 2 ^ k) + n →
      ∃ a' n', rsMain nd k f a n r w = (a', n', w + (nd - r)) ∧ a'.size = 800 ∧ Digits a' (w + (nd - r)) ∧
        n' < 10 * 2 ^ k ∧ pval a₀ nd nd = dval a' (w + (nd - r)) * (10 * 2 ^ k) + n' := by
  intro f
  induction f with
  | zero =>
    intro a n r w hs hwr hr hf hag hdw hn hinv
    have : r = nd := by omega
    subst this
    exact ⟨a, n, by simp [rsMain], hs, by simpa using hdw, hn, by simpa using hinv⟩
  | succ f ih =>
    intro a n r w hs hwr hr hf hag hdw hn hinv
    by_cases hrn : r < nd
    · have hP : 0 < 2 ^ k := Nat.pow_pos (by omega)
      have h60 := pow_le_60 hk
      have hdig : n / 2 ^ k ≤ 9 := by
        have : n / 2 ^ k < 10 := (Nat.div_lt_iff_lt_mul hP).2 (by omega)
        omega
      have hmodlt : n % 2 ^ k < 2 ^ k := Nat.mod_lt _ hP
      have hmod256 : (n / 2 ^ k + 48) % 256 = n / 2 ^ k + 48 := Nat.mod_eq_of_lt (by omega)
      have hws : w < a.size := by omega
      have hr0 := hd r hrn
      have hra : rd (a.setIfInBounds w ((n / 2 ^ k + 48) % 256)) r = rd a₀ r := by
        rw [rd_set_ne _ _ _ _ (by omega), hag r (Nat.le_refl _) hrn]
      have hval : (n % 2 ^ k) * 10 + (rd a₀ r - 48) < 2 ^ 64 := by omega
      obtain ⟨a', n', h1, h2, h3, h4, h5⟩ := ih (a.setIfInBounds w ((n / 2 ^ k + 48) % 256))
        ((n % 2 ^ k) * 10 + (rd a₀ r - 48)) (r + 1) (w + 1) (by simpa using hs) (by omega) (by omega) (by omega)
        (fun i hi1 hi2 => by rw [rd_set_ne _ _ _ _ (by omega)]; exact hag i (by omega) hi2)
        (by
          intro i hi
          by_cases hiw : i = w
          · subst hiw
            rw [rd_set_eq _ _ _ hws, hmod256]
            exact ⟨Nat.le_add_left _ _, by omega⟩
          · rw [rd_set_ne _ _ _ _ (fun h => hiw h.symm)]; exact hdw i (by omega))
        (by omega)
        (by
          rw [pval_succ_lt a₀ nd r hrn, hinv, dval_succ, rd_set_eq _ _ _ hws, hmod256,
            dval_congr _ a w (fun i hi => rd_set_ne _ _ _ _ (by omega))]
          have hdm := Nat.div_add_mod n (2 ^ k)
          generalize 2 ^ k = P at *
          generalize n / P = q at *
          generalize n % P = m at *
          subst hdm
          simp only [Nat.add_sub_cancel]
          ring)
      refine ⟨a', n', ?_, h2, ?_, h4, ?_⟩
      · rw [rsMain, if_pos hrn]
        simp only
        rw [hra, u64_digit _ _ hr0.1 hval, h1]
        congr 2; omega
      · have : w + 1 + (nd - (r + 1)) = w + (nd - r) := by omega
        rw [← this]; exact h3
      · have : w + 1 + (nd - (r + 1)) = w + (nd - r) := by omega
        rw [← this]; exact h5
    · have : r = nd := by omega
      subst this
      refine ⟨a, n, ?_, hs, by simpa using hdw, hn, by simpa using hinv⟩
      rw [rsMain_done _ _ _ _ _ _ _ (Nat.le_refl _)]; simp

/-! ## the tail: extra digits while the remainder is non-zero -/

theorem add_mul_pow_div (W T m : Nat) (h : T < 10 ^ m) : (W * 10 ^ m + T) / 10 ^ m = W := by
  have hp : 0 < 10 ^ m := Nat.pow_pos (by omega)
  rw [Nat.add_comm, Nat.add_mul_div_right _ _ hp, Nat.div_eq_of_lt h, Nat.zero_add]

theorem add_mul_pow_mod (W T m : Nat) (h : T < 10 ^ m) : (W * 10 ^ m + T) % 10 ^ m = T := by
  rw [Nat.add_comm, Nat.add_mul_mod_self_right, Nat.mod_eq_of_lt h]

theorem rsTail_zero (k f : Nat) (a : Array Nat) (w : Nat) (tr : Bool) :
    rsTail k (f + 1) a 0 w tr = some (a, w, tr) := by
  rw [rsTail]; simp

theorem dvd_step (k j n : Nat) (h : 2 ^ j ∣ n) : 2 ^ (j + 1) ∣ n % 2 ^ k * 10 := by
  by_cases hjk : j < k
  · have h1 : 2 ^ j ∣ 2 ^ k := Nat.pow_dvd_pow 2 (by omega)
    have h2 : 2 ^ j ∣ n % 2 ^ k := (Nat.dvd_mod_iff h1).2 h
    rw [Nat.pow_succ]
    exact Nat.mul_dvd_mul h2 (by decide)
  · have h1 : 2 ^ k ∣ 2 ^ j := Nat.pow_dvd_pow 2 (by omega)
    have h2 : n % 2 ^ k = 0 := Nat.mod_eq_zero_of_dvd (Nat.dvd_trans h1 h)
    rw [h2, Nat.zero_mul]; exact Nat.dvd_zero _

theorem eq_zero_of_dvd_lt (k j n : Nat) (hn : n < 10 * 2 ^ k) (hj : 2 ^ j ∣ n) (h : k + 4 ≤ j) : n = 0 := by
  have h1 : 2 ^ (k + 4) ∣ 2 ^ j := Nat.pow_dvd_pow 2 h
  obtain ⟨c, hc⟩ := Nat.dvd_trans h1 hj
  rcases Nat.eq_zero_or_pos c with h0 | h0
  · subst h0; simpa using hc
  · exfalso
    have h16 : 2 ^ (k + 4) = 16 * 2 ^ k := by rw [Nat.pow_add]; ring
    rw [h16] at hc
    have : 16 * 2 ^ k * 1 ≤ 16 * 2 ^ k * c := Nat.mul_le_mul_left _ h0
    omega

theorem bool_or_assoc_ne (tr : Bool) (dig T1 T : Nat) (h : T ≠ 0 ↔ (dig > 0 ∨ T1 ≠ 0)) :
    ((tr || decide (dig > 0)) || decide (T1 ≠ 0)) = (tr || decide (T ≠ 0)) := by
  by_cases h1 : dig > 0 <;> by_cases h2 : T1 ≠ 0 <;> by_cases h3 : T ≠ 0 <;> simp_all

theorem rsTail_spec (k : Nat) (hk : k ≤ 60) :
    ∀ f (a : Array Nat) n w tr j, a.size = 800 → w ≤ 800 → Digits a w → n < 10 * 2 ^ k → 2 ^ j ∣ n → k + 4 ≤ f + j →
    ∃ m T a', T < 10 ^ m ∧ n * 10 ^ m = T * (10 * 2 ^ k) ∧
      rsTail k (f + 1) a n w tr = some (a', min (w + m) 800,
        tr || decide ((dval a w * 10 ^ m + T) % 10 ^ (w + m - 800) ≠ 0)) ∧
      a'.size = 800 ∧ Digits a' (min (w + m) 800) ∧
      dval a' (min (w + m) 800) = (dval a w * 10 ^ m + T) / 10 ^ (w + m - 800) := by
  intro f
  have base : ∀ (f : Nat) (a : Array Nat) (w : Nat) (tr : Bool), a.size = 800 → w ≤ 800 → Digits a w →
      ∃ m T a', T < 10 ^ m ∧ 0 * 10 ^ m = T * (10 * 2 ^ k) ∧
      rsTail k (f + 1) a 0 w tr = some (a', min (w + m) 800,
        tr || decide ((dval a w * 10 ^ m + T) % 10 ^ (w + m - 800) ≠ 0)) ∧
      a'.size = 800 ∧ Digits a' (min (w + m) 800) ∧
      dval a' (min (w + m) 800) = (dval a w * 10 ^ m + T) / 10 ^ (w + m - 800) := by
    intro f a w tr hs hw hd
    refine ⟨0, 0, a, by simp, by simp, ?_, hs, ?_, ?_⟩
    · rw [rsTail_zero]
      have : w - 800 = 0 := by omega
      simp [this, Nat.min_eq_left hw, Nat.mod_one]
    · simpa [Nat.min_eq_left hw] using hd
    · have : w - 800 = 0 := by omega
      simp [this, Nat.min_eq_left hw]
  induction f with
  | zero =>
    intro a n w tr j hs hw hd hn hj hf
    have hn0 := eq_zero_of_dvd_lt k j n hn hj (by omega)
    subst hn0
    exact base 0 a w tr hs hw hd
  | succ f ih =>
    intro a n w tr j hs hw hd hn hj hf
    rcases Nat.eq_zero_or_pos n with hn0 | hnpos
    · subst hn0; exact base (f + 1) a w tr hs hw hd
    · have hP : 0 < 2 ^ k := Nat.pow_pos (by omega)
      have h60 := pow_le_60 hk
      have hdig : n / 2 ^ k ≤ 9 := by
        have : n / 2 ^ k < 10 := (Nat.div_lt_iff_lt_mul hP).2 (by omega)
        omega
      have hmodlt : n % 2 ^ k < 2 ^ k := Nat.mod_lt _ hP
      have hmod256 : (n / 2 ^ k + 48) % 256 = n / 2 ^ k + 48 := Nat.mod_eq_of_lt (by omega)
      have hmod64 : n % 2 ^ k * 10 % 2 ^ 64 = n % 2 ^ k * 10 := Nat.mod_eq_of_lt (by omega)
      have hdm := Nat.div_add_mod n (2 ^ k)
      by_cases hw8 : w < 800
      · have hws : w < a.size := by omega
        obtain ⟨m1, T1, a', h1, h2, h3, h4, h5, h6⟩ := ih (a.setIfInBounds w ((n / 2 ^ k + 48) % 256))
          (n % 2 ^ k * 10) (w + 1) tr (j + 1) (by simpa using hs) (by omega)
          (by
            intro i hi
            by_cases hiw : i = w
            · subst hiw
              rw [rd_set_eq _ _ _ hws, hmod256]
              exact ⟨Nat.le_add_left _ _, by omega⟩
            · rw [rd_set_ne _ _ _ _ (fun h => hiw h.symm)]; exact hd i (by omega))
          (by omega) (dvd_step k j n hj) (by omega)
        have hW1 : dval (a.setIfInBounds w ((n / 2 ^ k + 48) % 256)) (w + 1) = dval a w * 10 + n / 2 ^ k := by
          rw [dval_succ, rd_set_eq _ _ _ hws, hmod256,
            dval_congr _ a w (fun i hi => rd_set_ne _ _ _ _ (by omega))]
          simp
        have hsum : dval a w * 10 ^ (m1 + 1) + (n / 2 ^ k * 10 ^ m1 + T1) =
            (dval a w * 10 + n / 2 ^ k) * 10 ^ m1 + T1 := by rw [Nat.pow_succ]; ring
        have hidx : w + (m1 + 1) = w + 1 + m1 := by omega
        refine ⟨m1 + 1, n / 2 ^ k * 10 ^ m1 + T1, a', ?_, ?_, ?_, h4, ?_, ?_⟩
        · rw [Nat.pow_succ]
          have : n / 2 ^ k * 10 ^ m1 ≤ 9 * 10 ^ m1 := Nat.mul_le_mul_right _ hdig
          omega
        · rw [Nat.pow_succ]
          have e : n * (10 ^ m1 * 10) = n / 2 ^ k * 10 ^ m1 * (10 * 2 ^ k) + n % 2 ^ k * 10 * 10 ^ m1 := by
            conv => lhs; rw [← hdm]
            ring
          rw [e, h2]; ring
        · rw [rsTail, if_pos hnpos]
          simp only
          rw [if_pos (show w < maxDnum from hw8), hmod64, h3, hW1, hsum, hidx]
        · rw [hidx]; exact h5
        · rw [hidx, h6, hW1, hsum]
      · have hw800 : w = 800 := by omega
        subst hw800
        obtain ⟨m1, T1, a', h1, h2, h3, h4, h5, h6⟩ := ih a (n % 2 ^ k * 10) 800 (tr || decide (n / 2 ^ k > 0)) (j + 1)
          hs (by omega) hd (by omega) (dvd_step k j n hj) (by omega)
        have hmin : ∀ m, min (800 + m) 800 = 800 := fun m => by omega
        have hsub : ∀ m, 800 + m - 800 = m := fun m => by omega
        have hT : n / 2 ^ k * 10 ^ m1 + T1 < 10 ^ (m1 + 1) := by
          rw [Nat.pow_succ]
          have : n / 2 ^ k * 10 ^ m1 ≤ 9 * 10 ^ m1 := Nat.mul_le_mul_right _ hdig
          omega
        refine ⟨m1 + 1, n / 2 ^ k * 10 ^ m1 + T1, a', hT, ?_, ?_, h4, ?_, ?_⟩
        · rw [Nat.pow_succ]
          have e : n * (10 ^ m1 * 10) = n / 2 ^ k * 10 ^ m1 * (10 * 2 ^ k) + n % 2 ^ k * 10 * 10 ^ m1 := by
            conv => lhs; rw [← hdm]
            ring
          rw [e, h2]; ring
        · rw [rsTail, if_pos hnpos]
          simp only
          rw [if_neg (show ¬ (800 < maxDnum) from hw8), hmod64, h3, hmin, hmin, hsub, hsub, add_mul_pow_mod _ _ _ h1, add_mul_pow_mod _ _ _ hT]
          congr 3
          apply bool_or_assoc_ne
          have hp : 0 < 10 ^ m1 := Nat.pow_pos (by omega)
          constructor
          · intro hne
            by_cases hd0 : n / 2 ^ k > 0
            · exact Or.inl hd0
            · right; intro ht; apply hne
              have : n / 2 ^ k = 0 := Nat.eq_zero_of_not_pos hd0
              rw [this, ht, Nat.zero_mul]
          · intro h
            rcases h with h | h
            · have : 0 < n / 2 ^ k * 10 ^ m1 := Nat.mul_pos h hp
              exact Nat.ne_of_gt (Nat.add_pos_left this _)
            · exact fun e => h (Nat.add_eq_zero_iff.1 e).2
        · rw [hmin]; rw [hmin] at h5; exact h5
        · rw [hmin, hsub, add_mul_pow_div _ _ _ hT]
          rw [hmin, hsub, add_mul_pow_div _ _ _ h1] at h6
          exact h6

/-! ## `RightShift` as a whole -/

theorem pval_bounds (a : Array Nat) (nd r : Nat) (hd : Digits a nd) : ∀ j,
    pval a nd r * 10 ^ j ≤ pval a nd (r + j) ∧ pval a nd (r + j) < (pval a nd r + 1) * 10 ^ j
  | 0 => by simp
  | j + 1 => by
    obtain ⟨h1, h2⟩ := pval_bounds a nd r hd j
    rw [← Nat.add_assoc, Nat.pow_succ]
    by_cases h : r + j < nd
    · rw [pval_succ_lt a nd (r + j) h, ← Nat.mul_assoc, ← Nat.mul_assoc]
      have := hd (r + j) h
      generalize pval a nd r * 10 ^ j = X at *
      generalize (pval a nd r + 1) * 10 ^ j = Y at *
      constructor <;> omega
    · rw [pval_succ_ge a nd (r + j) (by omega), ← Nat.mul_assoc, ← Nat.mul_assoc]
      generalize pval a nd r * 10 ^ j = X at *
      generalize (pval a nd r + 1) * 10 ^ j = Y at *
      constructor <;> omega

/-- **`RightShift(d, k)` is an exact division by `2^k`** of the digit string, up to the 800-digit truncation:
    there is an exact quotient `Wf` with `wf` digits (leading digit non-zero), `Wf·10·2^k = D·10^b`, whose decimal
    point is the new `dp`; the buffer holds its first `min wf 800` digits with trailing zeros removed, and `trunc`
    is raised exactly when a non-zero digit was dropped.  No fault, no out-of-range write. -/
theorem rightShift_spec (d : Decimal) (k : Nat) (hwf : WF d) (hpos : 0 < Dnat d) (hk : k ≤ 60) :
    WF (rightShift d k) ∧ (rightShift d k).neg = d.neg ∧ 0 < (rightShift d k).nd ∧ Trimmed (rightShift d k) ∧
    ∃ Wf wf b : Nat, Wf * (10 * 2 ^ k) = Dnat d * 10 ^ b ∧ 10 ^ (wf - 1) ≤ Wf ∧ Wf < 10 ^ wf ∧ 0 < wf ∧
      ((rightShift d k).dp : Int) - (wf : Int) + (b : Int) = d.dp - (d.nd : Int) + 1 ∧
      Approx Wf wf (Dnat (rightShift d k)) (rightShift d k).nd d.trunc (rightShift d k).trunc := by
  obtain ⟨hsize, hnd, hdig, hlead, hnf⟩ := hwf
  have hP : 0 < 2 ^ k := Nat.pow_pos (by omega)
  obtain ⟨n0, r0, hpick, hn0, hge, hlt, _, hr0⟩ := rsPick_spec d.d d.nd k hk hdig hpos (d.nd + 1) 0 0 (by omega)
    (by omega) rfl (by omega)
  have hr0' : 0 < r0 := hr0 hP
  -- main loop
  have hmain : ∃ a1 n1, rsMain d.nd k d.nd d.d n0 r0 0 = (a1, n1, d.nd - r0) ∧ a1.size = 800 ∧
      Digits a1 (d.nd - r0) ∧ n1 < 10 * 2 ^ k ∧
      pval d.d d.nd (max r0 d.nd) = dval a1 (d.nd - r0) * (10 * 2 ^ k) + n1 := by
    by_cases hrn : r0 ≤ d.nd
    · obtain ⟨a1, n1, h1, h2, h3, h4, h5⟩ := rsMain_spec d.d d.nd k hk hdig hnd d.nd d.d n0 r0 0 hsize hr0' hrn
        (by omega) (fun _ _ _ => rfl) (fun i hi => by omega) hlt (by simp [dval, hn0])
      refine ⟨a1, n1, by simpa using h1, h2, by simpa using h3, h4, ?_⟩
      rw [Nat.max_eq_right hrn]; simpa using h5
    · refine ⟨d.d, n0, ?_, hsize, ?_, hlt, ?_⟩
      · rw [rsMain_done _ _ _ _ _ _ _ (by omega)]
        have : d.nd - r0 = 0 := by omega
        rw [this]
      · intro i hi; omega
      · have : d.nd - r0 = 0 := by omega
        rw [this, Nat.max_eq_left (by omega)]
        simp [dval, hn0]
  obtain ⟨a1, n1, hm1, hs1, hd1, hn1, hinv1⟩ := hmain
  -- tail
  obtain ⟨m, T, a2, hT, hTeq, htail, hs2, hd2, hv2⟩ := rsTail_spec k hk 79 a1 n1 (d.nd - r0) d.trunc 0 hs1 (by omega)
    hd1 hn1 (by simp) (by omega)
  -- the exact quotient
  have hWf : (dval a1 (d.nd - r0) * 10 ^ m + T) * (10 * 2 ^ k) = pval d.d d.nd (max r0 d.nd) * 10 ^ m := by
    rw [hinv1]
    have : n1 * 10 ^ m = T * (10 * 2 ^ k) := hTeq
    nlinarith
  generalize hWfdef : dval a1 (d.nd - r0) * 10 ^ m + T = Wf at *
  have hr1 : max r0 d.nd = r0 + (max r0 d.nd - r0) := by omega
  obtain ⟨hb1, hb2⟩ := pval_bounds d.d d.nd r0 hdig (max r0 d.nd - r0)
  rw [← hr1] at hb1 hb2
  have hwfeq : d.nd - r0 + m = (max r0 d.nd - r0) + m := by omega
  -- bounds on Wf
  have hlow : 2 ^ k * 10 ^ (d.nd - r0 + m) ≤ Wf * (10 * 2 ^ k) := by
    rw [hWf, hwfeq, Nat.pow_add]
    have : 2 ^ k * 10 ^ (max r0 d.nd - r0) ≤ pval d.d d.nd (max r0 d.nd) := by
      calc 2 ^ k * 10 ^ (max r0 d.nd - r0) ≤ pval d.d d.nd r0 * 10 ^ (max r0 d.nd - r0) :=
            Nat.mul_le_mul_right _ (by omega)
        _ ≤ _ := hb1
    calc 2 ^ k * (10 ^ (max r0 d.nd - r0) * 10 ^ m) = 2 ^ k * 10 ^ (max r0 d.nd - r0) * 10 ^ m := by ring
      _ ≤ _ := Nat.mul_le_mul_right _ this
  have hhigh : Wf * (10 * 2 ^ k) < 10 * 2 ^ k * 10 ^ (d.nd - r0 + m) := by
    rw [hWf, hwfeq, Nat.pow_add]
    have : pval d.d d.nd (max r0 d.nd) < 10 * 2 ^ k * 10 ^ (max r0 d.nd - r0) := by
      calc pval d.d d.nd (max r0 d.nd) < (pval d.d d.nd r0 + 1) * 10 ^ (max r0 d.nd - r0) := hb2
        _ ≤ 10 * 2 ^ k * 10 ^ (max r0 d.nd - r0) := Nat.mul_le_mul_right _ (by omega)
    calc pval d.d d.nd (max r0 d.nd) * 10 ^ m < 10 * 2 ^ k * 10 ^ (max r0 d.nd - r0) * 10 ^ m :=
          Nat.mul_lt_mul_of_pos_right this (Nat.pow_pos (by omega))
      _ = _ := by ring
  have hWflt : Wf < 10 ^ (d.nd - r0 + m) := by
    have h10 : 0 < 10 * 2 ^ k := by omega
    have : Wf * (10 * 2 ^ k) < 10 ^ (d.nd - r0 + m) * (10 * 2 ^ k) := by rw [Nat.mul_comm (10 ^ _)]; exact hhigh
    exact Nat.lt_of_mul_lt_mul_right this
  have hwfpos : 0 < d.nd - r0 + m := by
    apply Classical.byContradiction
    intro h0
    have : d.nd - r0 + m = 0 := by omega
    rw [this] at hlow hhigh
    simp at hlow hhigh
    have : Wf = 0 := by
      rcases Nat.eq_zero_or_pos Wf with h | h
      · exact h
      · have := Nat.mul_le_mul_right (10 * 2 ^ k) h; omega
    subst this; omega
  have hWfge : 10 ^ (d.nd - r0 + m - 1) ≤ Wf := by
    have e : 10 ^ (d.nd - r0 + m) = 10 ^ (d.nd - r0 + m - 1) * 10 := by
      rw [← Nat.pow_succ]; congr 1; omega
    rw [e] at hlow
    have : 10 ^ (d.nd - r0 + m - 1) * (10 * 2 ^ k) ≤ Wf * (10 * 2 ^ k) := by
      calc 10 ^ (d.nd - r0 + m - 1) * (10 * 2 ^ k) = 2 ^ k * (10 ^ (d.nd - r0 + m - 1) * 10) := by ring
        _ ≤ _ := hlow
    exact Nat.le_of_mul_le_mul_right this (by omega)
  -- unfold the model
  have hrs : rightShift d k = trim ⟨a2, min (d.nd - r0 + m) 800, d.dp - ((r0 : Int) - 1), d.neg,
      d.trunc || decide (Wf % 10 ^ (d.nd - r0 + m - 800) ≠ 0), d.fault⟩ := by
    unfold rightShift
    rw [hpick]
    simp only
    rw [hm1]
    simp only
    rw [htail]
  obtain ⟨ht1, ht2, ht3⟩ := trimLoop_spec a2 (min (d.nd - r0 + m) 800)
  generalize hz : trimLoop a2 (min (d.nd - r0 + m) 800) = nz at *
  have hD1pos : 0 < dval a2 (min (d.nd - r0 + m) 800) := by
    rw [hv2]
    apply Nat.div_pos _ (Nat.pow_pos (by omega))
    by_cases h8 : d.nd - r0 + m ≤ 800
    · have : d.nd - r0 + m - 800 = 0 := by omega
      rw [this]; simp
      have := Nat.pow_pos (n := d.nd - r0 + m - 1) (show 0 < 10 by omega); omega
    · calc 10 ^ (d.nd - r0 + m - 800) ≤ 10 ^ (d.nd - r0 + m - 1) := Nat.pow_le_pow_right (by omega) (by omega)
        _ ≤ Wf := hWfge
  have hnzpos : 0 < nz := by
    rcases Nat.eq_zero_or_pos nz with h | h
    · rw [h] at ht3; simp [dval] at ht3; omega
    · exact h
  have hnd' : (rightShift d k).nd = nz := by rw [hrs]; simp [trim, hz]
  have hd' : (rightShift d k).d = a2 := by rw [hrs]; simp [trim]
  have hdp' : (rightShift d k).dp = d.dp - ((r0 : Int) - 1) := by
    rw [hrs]; simp only [trim, hz]; rw [if_neg (by omega)]
  have htr' : (rightShift d k).trunc = (d.trunc || decide (Wf % 10 ^ (d.nd - r0 + m - 800) ≠ 0)) := by
    rw [hrs]; simp [trim]
  have hz2 : dval a2 nz = dval a2 (min (d.nd - r0 + m) 800) / 10 ^ (min (d.nd - r0 + m) 800 - nz) := by
    rw [ht3, Nat.mul_div_cancel _ (Nat.pow_pos (by omega))]
  have happ := approx_of_trunc_trim Wf (d.nd - r0 + m) (dval a2 (min (d.nd - r0 + m) 800))
    (min (d.nd - r0 + m) 800 - nz) d.trunc hv2 (by omega) (by rw [← hz2]; exact ht3)
  rw [← hz2, show min (d.nd - r0 + m) 800 - (min (d.nd - r0 + m) 800 - nz) = nz by omega] at happ
  have hDnat' : Dnat (rightShift d k) = dval a2 nz := by unfold Dnat; rw [hd', hnd']
  -- leading digit
  have hge' : 10 ^ (nz - 1) ≤ dval a2 nz := by
    obtain ⟨c, hc1, hc2, _⟩ := happ
    rw [hc2]
    apply (Nat.le_div_iff_mul_le (Nat.pow_pos (by omega))).2
    rw [← Nat.pow_add]
    calc 10 ^ (nz - 1 + c) ≤ 10 ^ (d.nd - r0 + m - 1) := Nat.pow_le_pow_right (by omega) (by omega)
      _ ≤ Wf := hWfge
  have hdz : Digits a2 nz := hd2.mono ht1
  refine ⟨⟨by rw [hd']; exact hs2, by rw [hnd']; omega, by rw [hd', hnd']; exact hdz, ?_, ?_⟩, ?_, by rw [hnd']; exact hnzpos,
    ?_, Wf, d.nd - r0 + m, max r0 d.nd - d.nd + m, ?_, hWfge, hWflt, hwfpos, ?_, ?_⟩
  · intro _
    rw [hd']
    have : nz = (nz - 1) + 1 := by omega
    rw [this] at hdz hge'
    exact lead_of_ge a2 (nz - 1) hdz (by simpa using hge')
  · rw [hrs]; simp [trim, hnf]
  · rw [hrs]; simp [trim]
  · right; rw [hd', hnd']
    rcases ht2 with h | h
    · omega
    · exact h
  · rw [hWf, pval_ge _ _ _ (by omega), Nat.pow_add]
    unfold Dnat; ring
  · rw [hdp']; push_cast; omega
  · rw [hDnat', hnd', htr']; exact happ

end Sonic.Proofs.Dec
