import Sonic.Gen.Tables
import Sonic.Model.Itoa
import Sonic.Spec.Shortest
import Sonic.Spec.Rne

/-!
# Model of `include/sonic/internal/ftoa.h` (`F64toa` and everything it calls)

Literal transcription.  The output buffer is a function `Nat → Nat` (index → byte) as in `Model/Itoa.lean`;
every store of the C++ code (`*p = …`, `Copy2Digs`, `memset`, `memmove`, the stores inside `U64toa`) is a write
on the state `St = (buf, ext)` where `ext` is one past the highest index stored to so far.  Loads
(`*(end-1) == '0'`, `*out = *p`, the source of `memmove`) read the current buffer.

Things that would be undefined behaviour in C++ are explicit faults (`none`), never defaults:
the index into the power-of-ten table out of `[0, 617)`, a shift count outside `[0, 64)`, a negative
`size_t` count for `memset`.  `Props/C07.lean` proves that none of them happens.

`uint64_t` / `uint32_t` arithmetic is written with explicit `% 2^64` / `% 2^32`; `int32_t` quantities are `Int`
(their ranges are tiny: `|q| ≤ 1074`, `|k| ≤ 324`), the arithmetic right shift is `Int.shiftRight` (`>>>`,
floor division by a power of two).
-/

namespace Sonic.Model.Ftoa
open Sonic.Gen Sonic.Model.Itoa

/-! ## buffer state with write extent -/

structure St where
  buf : Buf
  ext : Nat
  deriving Inhabited

/-- `*(base + i) = v` -/
def St.w (s : St) (i v : Nat) : St := ⟨wr s.buf i v, max s.ext (i + 1)⟩

/-- `Copy2Digs(base + pos, kDigits + src)` -/
def St.c2 (s : St) (pos src : Nat) : St := ⟨copy2 s.buf pos src, max s.ext (pos + 2)⟩

/-- `memset(base + pos, v, n)` -/
def St.fill (s : St) (pos n v : Nat) : St :=
  if n = 0 then s
  else ⟨fun j => if pos ≤ j ∧ j < pos + n then v else s.buf j, max s.ext (pos + n)⟩

/-- `memmove(base + dst, base + src, n)` (source bytes are taken from the buffer before the call) -/
def St.move (s : St) (dst src n : Nat) : St :=
  if n = 0 then s
  else ⟨fun j => if dst ≤ j ∧ j < dst + n then s.buf (src + (j - dst)) else s.buf j, max s.ext (dst + n)⟩

/-! ## `Pow10CeilSig`, `RoundToOdd`, `Ctz10` -/

/-- `Pow10CeilSig(k)` = `g[k - KMIN]`, `KMIN = -292`; `none` = index outside the table -/
def pow10CeilSigAt (k : Int) : Option (Nat × Nat) :=
  if 0 ≤ k + 292 then pow10CeilSig[(k + 292).toNat]? else none

/-- `RoundToOdd(g, cp)` with `g = (hi, lo)`; `__uint128_t` arithmetic is `% 2^128` -/
def roundToOdd (g : Nat × Nat) (cp : Nat) : Nat :=
  let x := cp * g.2 % 2 ^ 128
  let y := (cp * g.1 + x / 2 ^ 64 % 2 ^ 64) % 2 ^ 128
  let y0 := y % 2 ^ 64
  let y1 := y / 2 ^ 64 % 2 ^ 64
  y1 ||| b2n (decide (y0 > 1))

/-- `Ctz10(v)`: the number of decimal digits of `v` (as the if-chain of the source) -/
def ctz10 (v : Nat) : Nat :=
  if v ≥ 10000000000 then
    if v < 100000000000 then 11
    else if v < 1000000000000 then 12
    else if v < 10000000000000 then 13
    else if v < 100000000000000 then 14
    else if v < 1000000000000000 then 15
    else if v < 10000000000000000 then 16
    else 17
  else if v < 10 then 1
  else if v < 100 then 2
  else if v < 1000 then 3
  else if v < 10000 then 4
  else if v < 100000 then 5
  else if v < 1000000 then 6
  else if v < 10000000 then 7
  else if v < 100000000 then 8
  else if v < 1000000000 then 9
  else 10

/-! ## `F64ToDecimal` (Schubfach) -/

structure Dec where
  sig : Nat
  exp : Int
  deriving Inhabited, Repr, DecidableEq

/-- `cb << h` on `uint64_t`; `none` if the shift count is outside `[0, 64)` -/
def shl64 (x : Nat) (h : Int) : Option Nat :=
  if 0 ≤ h ∧ h < 64 then some (x * 2 ^ h.toNat % 2 ^ 64) else none

/-- `k = (q * 1262611 - (irregular ? 524031 : 0)) >> 22` -/
def kOf (q : Int) (irregular : Bool) : Int := (q * 1262611 - (if irregular then 524031 else 0)) >>> 22

/-- `h = q + ((-k) * 1741647 >> 19) + 1` -/
def hOf (q k : Int) : Int := q + (((-k) * 1741647) >>> 19) + 1

/-- `F64ToDecimal(rsig, rexp, c, q)` -/
def f64ToDecimal (rsig rexp c : Nat) (q : Int) : Option Dec :=
  let even : Bool := c % 2 == 0
  let irregular : Bool := rsig == 0 && decide (rexp > 1)
  let cbl := (4 * c + 2 ^ 64 - 2 + b2n irregular) % 2 ^ 64
  let cb := 4 * c % 2 ^ 64
  let cbr := (4 * c + 2) % 2 ^ 64
  let k := kOf q irregular
  let h := hOf q k
  match pow10CeilSigAt (-k), shl64 cbl h, shl64 cb h, shl64 cbr h with
  | some pow10, some sl, some sm, some sr =>
    let vbl := roundToOdd pow10 sl
    let vb := roundToOdd pow10 sm
    let vbr := roundToOdd pow10 sr
    let lower := (vbl + b2n (!even)) % 2 ^ 64
    let upper := (vbr + 2 ^ 64 - b2n (!even)) % 2 ^ 64
    let s := vb / 4
    let sp := s / 10
    let upInside : Bool := decide (lower ≤ 40 * sp % 2 ^ 64)
    let wpInside : Bool := decide ((40 * sp + 40) % 2 ^ 64 ≤ upper)
    if decide (s ≥ 10) && (upInside != wpInside) then
      some ⟨(sp + b2n wpInside) % 2 ^ 64, k + 1⟩
    else
      let uInside : Bool := decide (lower ≤ 4 * s % 2 ^ 64)
      let wInside : Bool := decide ((4 * s + 4) % 2 ^ 64 ≤ upper)
      if uInside != wInside then some ⟨(s + b2n wInside) % 2 ^ 64, k⟩
      else
        let mid := (4 * s + 2) % 2 ^ 64
        let roundUp : Bool := decide (vb > mid) || (decide (vb = mid) && decide (s % 2 ≠ 0))
        some ⟨(s + b2n roundUp) % 2 ^ 64, k⟩
  | _, _, _, _ => none

/-! ## `FormatSignificand` -/

/-- the `while (sig2 >= 10000)` loop; `sig2 < 2^32` needs at most 2 rounds (fuel 3 is passed) -/
def fsLoop : Nat → St → Nat → Nat → St × Nat × Nat
  | 0, st, p, sig2 => (st, p, sig2)
  | f + 1, st, p, sig2 =>
    if sig2 ≥ 10000 then
      let c := (sig2 + 2 ^ 32 - 10000 * (sig2 / 10000) % 2 ^ 32) % 2 ^ 32
      let sig2 := sig2 / 10000
      let st := st.c2 (p - 2) ((c % 100) * 2)
      let st := st.c2 (p - 4) ((c / 100) * 2)
      fsLoop f st (p - 4) sig2
    else (st, p, sig2)

/-- first block of `FormatSignificand`: `if ((sig >> 32) != 0) { … }`; returns `(state, p, sig, ctz)` -/
def fsHead (st : St) (sig p : Nat) : St × Nat × Nat × Nat :=
  if sig / 2 ^ 32 ≠ 0 then
    let q := sig / 100000000
    let r := (sig % 2 ^ 32 + 2 ^ 32 - 100000000 * (q % 2 ^ 32) % 2 ^ 32) % 2 ^ 32
    if r ≠ 0 then
      let c := r % 10000
      let r := r / 10000
      let d := r % 10000
      let st := st.c2 (p - 2) ((c % 100) * 2)
      let st := st.c2 (p - 4) ((c / 100) * 2)
      let st := st.c2 (p - 6) ((d % 100) * 2)
      let st := st.c2 (p - 8) ((d / 100) * 2)
      (st, p - 8, q, 0)
    else (st, p - 8, q, 8)
  else (st, p, sig, 0)

/-- last block of `FormatSignificand` (after the `while` loop): the remaining 1..4 digits -/
def fsTail (st : St) (out p sig2 : Nat) : St :=
  let r3 : St × Nat × Nat :=
    if sig2 ≥ 100 then (st.c2 (p - 2) ((sig2 % 100) * 2), p - 2, sig2 / 100) else (st, p, sig2)
  if r3.2.2 ≥ 10 then r3.1.c2 (r3.2.1 - 2) (r3.2.2 * 2) else r3.1.w out ((48 + r3.2.2) % 256)

/-- `uint32_t sig2 = (uint32_t)sig; while … ; if … ; if … else …` -/
def fsLow (st : St) (out p sig : Nat) : St :=
  let r2 := fsLoop 3 st p (sig % 2 ^ 32)
  fsTail r2.1 out r2.2.1 r2.2.2

/-- `FormatSignificand(sig, out, cnt)`: returns the state and the returned pointer `out + cnt - ctz` -/
def formatSignificand (st : St) (sig out cnt : Nat) : St × Nat :=
  let r1 := fsHead st sig (out + cnt)
  (fsLow r1.1 out r1.2.1 r1.2.2.1, out + cnt - r1.2.2.2)

/-- `while (*(end - 1) == '0') end--;` (at most 17 digits were written, fuel 17 is passed) -/
def trimZeros (b : Buf) : Nat → Nat → Nat
  | 0, e => e
  | f + 1, e => if b (e - 1) = 48 then trimZeros b f (e - 1) else e

/-! ## the three output formats -/

/-- `FormatExponent`, middle block: `*out = *p; if (end - p > 1) *p = '.'; else end--;` (`p = out + 1`) -/
def fxMant (st : St) (out e : Nat) : St × Nat :=
  let p := out + 1
  let st := st.w out (st.buf p)
  if e - p > 1 then (st.w p 46, e) else (st, e - 1)

/-- `FormatExponent`, last block: `'e'`, the sign and the 1..3 exponent digits (`ex = v.exp + cnt - 1`) -/
def fxExp (st : St) (e : Nat) (ex : Int) : St × Nat :=
  let st := st.w e 101
  let e := e + 1
  let st := if ex < 0 then st.w e 45 else st.w e 43
  let ex : Nat := if ex < 0 then (-ex).toNat else ex.toNat
  let e := e + 1
  if ex ≥ 100 then
    let st := st.c2 e ((ex / 10) * 2)
    let st := st.w (e + 2) ((48 + ex % 10) % 256)
    (st, e + 3)
  else if ex ≥ 10 then (st.c2 e (ex * 2), e + 2)
  else (st.w e ((48 + ex) % 256), e + 1)

/-- `FormatExponent(v, out, cnt)` -/
def formatExponent (st : St) (v : Dec) (out cnt : Nat) : St × Nat :=
  let r := formatSignificand st v.sig (out + 1) cnt
  let e := trimZeros r.1.buf 17 r.2
  let r2 := fxMant r.1 out e
  fxExp r2.1 r2.2 (v.exp + (cnt : Int) - 1)

/-- `FormatDecimal`, first block: `if (point <= 0) { "0." and -point zeros }`; returns the new `p` -/
def fdLead (st : St) (out : Nat) (point : Int) : St × Nat :=
  if point ≤ 0 then
    let nzeros := (-point).toNat
    let st := st.w out 48
    let st := st.w (out + 1) 46
    (st.fill (out + 2) nzeros 48, out + 2 + nzeros)
  else (st, out)

/-- `FormatDecimal`, last block (`point > 0`): insert the point or add trailing zeros and `".0"` -/
def fdPoint (st : St) (p e pt : Nat) : St × Nat :=
  let digs := e - p
  if digs > pt then
    let st := st.move (p + pt + 1) (p + pt) (digs - pt)
    (st.w (p + pt) 46, e + 1)
  else
    let nzeros := pt - digs
    let st := st.fill e (nzeros + 2) 48
    (st.w (e + nzeros) 46, e + nzeros + 2)

/-- `FormatDecimal(v, out, cnt)` -/
def formatDecimal (st : St) (v : Dec) (out cnt : Nat) : St × Nat :=
  let point : Int := (cnt : Int) + v.exp
  let r0 := fdLead st out point
  let r := formatSignificand r0.1 v.sig r0.2 cnt
  let e := trimZeros r.1.buf 17 r.2
  if point ≤ 0 then (r.1, e) else fdPoint r.1 r0.2 e point.toNat

/-- `p = U64toa(p, u)` on the state -/
def stU64toa (st : St) (p u : Nat) : St × Nat :=
  let r := u64toa st.buf p u
  (⟨r.buf, max st.ext r.ext⟩, r.out)

/-- the tail of `F64toa` after `F64ToDecimal`: choose the format. `p` = pointer after the optional sign.
    `none` = negative `size_t` count in the last `memset` -/
def formatDec (st : St) (dec : Dec) (p : Nat) : Option (St × Nat) :=
  let cnt := ctz10 dec.sig
  let dot : Int := (cnt : Int) + dec.exp
  let sciExp := dot - 1
  let expFmt : Bool := decide (sciExp < -6) || decide (sciExp > 20)
  let hasDot : Bool := decide (dot < (cnt : Int))
  if expFmt then some (formatExponent st dec p cnt)
  else if hasDot then some (formatDecimal st dec p cnt)
  else
    let dp : Int := (p : Int) + dot
    let r := stU64toa st p dec.sig
    let st := r.1
    if dp < (r.2 : Int) then none
    else
      let nzeros := (dp - (r.2 : Int)).toNat
      let st := st.fill r.2 (nzeros + 2) 48
      let st := st.w dp.toNat 46
      some (st, dp.toNat + 2)

/-- which path `F64toa` took -/
inductive Path where
  | nonfinite | zero | int | dec (d : Dec)
  deriving Inhabited

structure Out where
  st : St        -- final buffer and write extent
  ret : Nat      -- index one past the text (`out + return value`)
  path : Path

/-- `F64toa(out, fp)` where `raw` is the bit pattern of `fp`; `b` is the buffer before the call.
    `none` = the model hit something undefined in C++ (never happens: `C07_no_fault`). -/
def f64toa (b : Buf) (out raw : Nat) : Option Out :=
  let st : St := ⟨b, out⟩
  let neg : Bool := raw / 2 ^ 63 ≠ 0                -- (raw >> 63) != 0
  let rsig : Nat := raw % 2 ^ 52                 -- raw & F64_SIG_MASK
  let rexp : Nat := raw / 2 ^ 52 % 2 ^ 11        -- (raw & F64_EXP_MASK) >> 52
  if rexp = 2047 then some ⟨st, out, .nonfinite⟩
  else
    let st := st.w out 45
    let p := out + b2n neg
    if raw * 2 % 2 ^ 64 = 0 then
      let st := st.w p 48
      let st := st.w (p + 1) 46
      let st := st.w (p + 2) 48
      some ⟨st, p + 3, .zero⟩
    else
      let normal : Bool := rexp ≠ 0
      let c := if normal then rsig + 2 ^ 52 else rsig          -- rsig | F64_HIDDEN_BIT
      let q : Int := if normal then (rexp : Int) - 1023 - 52 else 1 - 1023 - 52
      if normal && decide (q ≤ 0) && decide (q ≥ -52) && decide (c % 2 ^ (-q).toNat = 0) then
        let u := c / 2 ^ (-q).toNat
        let r := stU64toa st p u
        let st := r.1.w r.2 46
        let st := st.w (r.2 + 1) 48
        some ⟨st, r.2 + 2, .int⟩
      else
        match f64ToDecimal rsig rexp c q with
        | none => none
        | some dec =>
          match formatDec st dec p with
          | none => none
          | some (st, e) => some ⟨st, e, .dec dec⟩

/-- the three-way format switch on its own (what `C07_format` is about): sign, then `formatDec` -/
def format (b : Buf) (out : Nat) (neg : Bool) (sig : Nat) (exp : Int) : Option (St × Nat) :=
  formatDec ((⟨b, out⟩ : St).w out 45) ⟨sig, exp⟩ (out + b2n neg)

/-! ## driver entry (protocol/ftoa.md) -/

def hexOf (bs : List Nat) : String :=
  if bs.isEmpty then "-" else
  let hd (n : Nat) : Char := if n < 10 then Char.ofNat (48 + n) else Char.ofNat (87 + n)
  String.ofList (bs.foldr (fun b acc => hd (b / 16 % 16) :: hd (b % 16) :: acc) [])

/-- the model is run at a non-zero base index so that an index computation that would go below the start
    of the buffer is visible (it would change bytes below `base`, which are reported as a fault) -/
def base : Nat := 64

def guardByte : Nat := 0xAA

def runLine (toks : List String) : String :=
  match toks with
  | ["f64toa", n] =>
    match n.toNat? with
    | some bits =>
      if bits < 2 ^ 64 then
        match f64toa (fun _ => guardByte) base bits with
        | none => "fault"
        | some o =>
          match o.path with
          | .nonfinite => "nonfinite"
          | path =>
            if (List.range base).any (fun j => o.st.buf j != guardByte) then "fault-underflow" else
            let text := slice o.st.buf base o.ret
            let decS := match path with
              | .dec d => s!"{d.sig}e{d.exp}"
              | .int => "int"
              | .zero => "zero"
              | .nonfinite => "nonfinite"
            let cq := Sonic.Spec.Shortest.cqOfBits bits
            let (chkS, rtS) := match Sonic.Spec.Shortest.parseDecText text with
              | none => ("0", "0")
              | some (neg, sig, exp) =>
                let chk : Bool :=
                  if bits % 2 ^ 63 = 0 then sig == 0   -- ±0.0: the text must denote zero
                  else Sonic.Spec.Shortest.chk cq.1 cq.2 sig exp
                let chk := chk && (neg == decide (bits ≥ 2 ^ 63)) &&
                  Sonic.Spec.Shortest.hasFracOrExp text
                let rt : Bool := Sonic.Spec.Rne.round neg sig exp == some bits
                (toString (b2n chk), toString (b2n rt))
            s!"{hexOf text} ext={o.st.ext - base} dec={decS} chk={chkS} rt={rtS}"
      else "bad-op"
    | none => "bad-op"
  | _ => "bad-op"

end Sonic.Model.Ftoa
