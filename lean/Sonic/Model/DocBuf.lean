/-!
# Model: the text buffers of `GenericDocument` (`str_`, the `schema_str_` chain) — properties C13 / C19

`generic_document.h` with a freeing allocator (`Allocator::kNeedFree`): a document owns

* `str_`         — the padded copy of the text of the last `Parse` (`allocateStringBuffer`), and
* `schema_str_`  — the padded copy of the text of the last `ParseSchema`; every such buffer starts with a hidden link to the
  buffer of the previous `ParseSchema` call (`allocateSchemaStringBuffer`, `kSchemaLinkSize`), because string nodes written by
  earlier calls may still point into the earlier buffers; `freeSchemaBuffers` walks the links and frees every buffer.

The linked buffers are modelled as the list `chain` (newest first): the link stored in front of a buffer is the tail of the
list.  Block identities are the serial numbers of the allocator calls (`next`), `live` is the allocator's ledger and `faults`
counts frees of something that is not live (double / foreign free), exactly the bookkeeping of the harness's
`TrackingAllocator`.  Two documents `a`, `b` so that `Swap` and move assignment can be expressed.  Node storage is NOT part of
this model (that is `Sonic.Model.Ledger`); the correspondence run drives it with texts whose values own no node storage
(scalars, strings, malformed scalars), so that the allocator's live-block count is exactly `live.length`.

Operations (`docbuf` line of `/verif/protocol/merge.md`):
* `parse w`    — `Parse`: `destroyDom()` (frees `str_`, then the whole chain), then a new `str_`; the outcome of the parse does
                 not matter for the buffers (a failed parse keeps the buffer until the next `destroyDom`);
* `schema w`   — `ParseSchema`: a new buffer linked in front of the chain; nothing is freed;
* `swap`       — `a.Swap(b)`;
* `massign d`  — `d = std::move(other)`: `d`'s `str_` and chain are freed, `d` takes the other's pointers, the other is cleared
                 (the harness then replaces the moved-from object by a fresh document, whose destruction frees nothing);
* `destroy w`  — the destructor (`destroyDom()`), followed by a fresh document in that slot.
-/
namespace Sonic.Model.DocBuf

structure Doc where
  str : Option Nat := none
  chain : List Nat := []
  deriving Repr, DecidableEq, Inhabited

inductive Who
  | a
  | b
  deriving Repr, DecidableEq, Inhabited

def Who.other : Who → Who
  | .a => .b
  | .b => .a

structure State where
  a : Doc := {}
  b : Doc := {}
  next : Nat := 0
  live : List Nat := []
  faults : Nat := 0
  deriving Repr, Inhabited

inductive Op
  | parse (w : Who)
  | schema (w : Who)
  | swap
  | massign (dst : Who)
  | destroy (w : Who)
  deriving Repr, DecidableEq, Inhabited

def State.get (s : State) : Who → Doc
  | .a => s.a
  | .b => s.b

def State.set (s : State) (w : Who) (d : Doc) : State :=
  match w with
  | .a => { s with a := d }
  | .b => { s with b := d }

/-- `Allocator::Free(p)` for a non-null `p` -/
def free1 (s : State) (x : Nat) : State :=
  if x ∈ s.live then { s with live := s.live.erase x } else { s with faults := s.faults + 1 }

def freeList (s : State) (xs : List Nat) : State := xs.foldl free1 s

/-- what `destroyDom` hands to `Free`, in its order: `str_` (null is ignored), then the chain from the newest buffer on -/
def Doc.buffers (d : Doc) : List Nat := d.str.toList ++ d.chain

/-- `destroyDom()` -/
def destroyDom (s : State) (w : Who) : State :=
  (freeList s (s.get w).buffers).set w {}

/-- `alloc_->Malloc` (never fails in the model) -/
def alloc (s : State) : State × Nat :=
  ({ s with next := s.next + 1, live := s.next :: s.live }, s.next)

def step (s : State) : Op → State
  | .parse w =>
    let s1 := destroyDom s w
    let (s2, x) := alloc s1
    s2.set w { str := some x }      -- `destroyDom` has nulled `schema_str_`
  | .schema w =>
    let (s1, x) := alloc s
    s1.set w { (s1.get w) with chain := x :: (s1.get w).chain }
  | .swap => { s with a := s.b, b := s.a }
  | .massign dst =>
    let src := s.get dst.other
    let s1 := freeList s (s.get dst).buffers
    (s1.set dst src).set dst.other {}
  | .destroy w => destroyDom s w

def run (ops : List Op) : State := ops.foldl step {}

/-- everything the two documents point to -/
def State.owned (s : State) : List Nat := s.a.buffers ++ s.b.buffers

/-! ## line protocol: `docbuf <op> <op> …`, answer: the live-block count after every op, then the faults and the count after
both documents are destroyed -/

def parseOp (t : String) : Option Op :=
  match t with
  | "w" => some .swap
  | "mab" => some (.massign .a)
  | "mba" => some (.massign .b)
  | "da" => some (.destroy .a)
  | "db" => some (.destroy .b)
  | _ =>
    if t.startsWith "pa:" then some (.parse .a)
    else if t.startsWith "pb:" then some (.parse .b)
    else if t.startsWith "sa:" then some (.schema .a)
    else if t.startsWith "sb:" then some (.schema .b)
    else none

def runLine (toks : List String) : String :=
  match toks.mapM parseOp with
  | none => "bad-op"
  | some ops =>
    let (s, outs) := ops.foldl (fun (acc : State × List String) op =>
      let s' := step acc.1 op
      (s', acc.2 ++ [s!"L{s'.live.length}"])) (({} : State), [])
    let fin := step (step s (.destroy .a)) (.destroy .b)
    " ".intercalate outs ++ s!" faults={fin.faults} final={fin.live.length}"

end Sonic.Model.DocBuf
