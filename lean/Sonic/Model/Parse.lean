import Sonic.Model.Skip
import Sonic.Model.Sax
import Sonic.Model.StringDec
import Sonic.Model.Number
import Sonic.Spec.Json

/-!
# Model of `Parser::Parse` / `Parser::parseImpl` (`dom/parser.h`) and `GenericDocument::Parse`
  (`dom/generic_document.h`)

* `PState` holds the members of `Parser` (`json_buf_`, `len_`, `pos_`, `err_`, `scan`) together with the SAX handler and
  the local `depth` vector of `parseImpl` (head of the list = `depth.back()`; `uint32_t` counters, bit 31 = array).
* The labels of `parseImpl` are the constructors of `Label`; one `step` executes the code from a label up to the next
  `goto` to a label (`scope_end` is inlined where it is jumped to; every step therefore consumes at least one byte).
  `none` as next label = `return` (`doc_end`, `err_invalid_char`, `sonic_check_err`).
* Every buffer access is checked (`Fault.oob`), every node-stack access is checked (see `Model/Sax.lean`).
* `parseStringInplace` is `Sonic.Model.StringDec.run W`; the value of `src` it leaves behind on an error (it is passed
  by reference, and `parseStringHelper` stores it into `pos_`) is recomputed by `strErrPos` from the same step function.
* `parseNumber` is `Sonic.Model.Number.parseNumber`, which returns what was handed to the handler; the handler call
  itself (and the `kParseErrorInvalidChar` when it declines) is made here.  For a number that overflows to ±∞ the real
  code calls `sax.Double(±inf)` *before* returning `kParseErrorInfinity`; so does the model.
* The document wrapper: `destroyDom`, `allocateStringBuffer` (input, `x"x`, then 61 bytes that are NOT initialised:
  the parameter `pad`), `SetUp`, `Parse`, move of `st_[0]`, `~SAXHandler`.
-/
namespace Sonic.Model.Parse
open Sonic.Gen Sonic.Spec

structure PState where
  buf : Buf
  len : Nat
  pos : Nat
  err : Nat
  cache : Cache
  sax : Sax
  depth : List Nat
  deriving Repr

/-- the labels of `parseImpl` that are jumped to with a freshly read token `c` -/
inductive Label where
  | objKey (c : Nat)
  | arrVal (c : Nat)
  | objCont (c : Nat)
  | arrCont (c : Nat)
  deriving Repr, DecidableEq

abbrev StepResult := Except Fault (PState × Option Label)

def kArrMask : Nat := 2 ^ 31
def kObjMask : Nat := 0
/-- `depth.back() & kArrMask` for a `uint32_t` counter -/
def isArrFrame (d : Nat) : Bool := decide (kArrMask ≤ d % 2 ^ 32)
/-- `depth.back()++` on `uint32_t` -/
def incr (d : Nat) : Nat := (d + 1) % 2 ^ 32

/-- `c = scan.SkipSpace(json_buf_, pos_)` -/
def skip (s : PState) : Except Fault (Nat × PState) :=
  match skipSpace s.buf s.pos s.cache with
  | .error e => .error e
  | .ok (c, pos, k) => .ok (c, { s with pos := pos, cache := k })

/-- `goto err_invalid_char` -/
def errInvalidChar (s : PState) : StepResult := .ok ({ s with err := kParseErrorInvalidChar }, none)

/-! ## literals -/

/-- `EqBytes4(json_buf_ + i, lit)`: a 4-byte load compared with a constant -/
def eqBytes4 (b : Buf) (i : Nat) (lit : List Nat) : Except Fault Bool :=
  match rd b i, rd b (i + 1), rd b (i + 2), rd b (i + 3) with
  | .ok x0, .ok x1, .ok x2, .ok x3 => .ok ([x0, x1, x2, x3] == lit)
  | _, _, _, _ => .error .oob

/-- the common shape of `parseNull/parseTrue` (`at = pos_ - 1`, `adv = 3`) and `parseFalse` (`at = pos_`, `adv = 4`);
    the `Bool` is the function's return value -/
def parseLit (s : PState) (at_ adv : Nat) (lit : List Nat) (n : Node) : Except Fault (PState × Bool) :=
  match eqBytes4 s.buf at_ lit with
  | .error e => .error e
  | .ok true =>
    match s.sax.scalar n with
    | .error e => .error e
    | .ok (sax, r) => .ok ({ s with pos := s.pos + adv, sax := sax }, r)
  | .ok false => .ok ({ s with err := kParseErrorInvalidChar }, false)

def parseNull (s : PState) := parseLit s (s.pos - 1) 3 [0x6E, 0x75, 0x6C, 0x6C] .null
def parseTrue (s : PState) := parseLit s (s.pos - 1) 3 [0x74, 0x72, 0x75, 0x65] (.bool true)
def parseFalse (s : PState) := parseLit s s.pos 4 [0x61, 0x6C, 0x73, 0x65] (.bool false)

/-! ## strings -/

open Sonic.Model.StringDec (Cfg Outcome) in
/-- `src` of a program point of `parseStringInplace` -/
def cfgSrc : Cfg → Nat
  | .find _ src => src
  | .cont _ src _ => src
  | .fam _ src _ => src

open Sonic.Model.StringDec (Cfg Outcome) in
/-- the value of `src` when `parseStringInplace` returns with an error: the block start for `UnEscaped`, the
    backslash for `EscapedFormat`, six bytes further for `EscapedUnicode` (`handle_unicode_codepoint` advances
    `*src_ptr` by 6 before any of its `return false`; a failure after the second advance is impossible). -/
def strErrPosFuel (W start : Nat) : Nat → Cfg → Except Fault Nat
  | 0, _ => .error .fuel
  | fuel + 1, c =>
    match Sonic.Model.StringDec.step W start c with
    | .error _ => .error .str
    | .ok (.inr (.err code)) => .ok (cfgSrc c + (if code = kParseErrorEscapedUnicode then 6 else 0))
    | .ok (.inr (.ok _ _ _)) => .error .assert
    | .ok (.inl c') => strErrPosFuel W start fuel c'

def strErrPos (W : Nat) (buf : Buf) (start : Nat) : Except Fault Nat :=
  strErrPosFuel W start (3 * buf.length + 3) (.find buf start)

/-- `parseStringHelper()` followed by `sax.String(sv)` / `sax.Key(sv)` (both are `stringImpl`); the `Bool` is the
    handler's return value.  The handler is called even when the decoder has set `err_` (with length 0). -/
def parseStr (W : Nat) (s : PState) : Except Fault (PState × Bool) :=
  let sdst := s.pos
  match Sonic.Model.StringDec.run W s.buf s.pos with
  | .error _ => .error .str
  | .ok (.ok n next b') =>
    match s.sax.scalar (.str sdst n) with
    | .error e => .error e
    | .ok (sax, r) => .ok ({ s with buf := b', pos := next, sax := sax }, r)
  | .ok (.err code) =>
    match strErrPos W s.buf s.pos with
    | .error e => .error e
    | .ok p =>
      match s.sax.scalar (.str sdst 0) with
      | .error e => .error e
      | .ok (sax, r) => .ok ({ s with err := code, pos := p, sax := sax }, r)

/-! ## numbers -/

def numNode : JNum → Node
  | .uint n => .uint n
  | .sint n => .sint n
  | .real b => .dbl b

/-- `parseNumber(sax)` (always returns true; the outcome is in `err_`, `pos_`) -/
def parseNum (s : PState) : Except Fault PState :=
  match Sonic.Model.Number.parseNumber s.buf s.len (s.pos - 1) with
  | .ok v next _ =>
    match s.sax.scalar (numNode v) with
    | .error e => .error e
    | .ok (sax, true) => .ok { s with pos := next, sax := sax }                -- RETURN_SET_ERROR_CODE(kErrorNone)
    | .ok (sax, false) => .ok { s with pos := next, sax := sax, err := kParseErrorInvalidChar }
  | .err code p =>
    if code = Sonic.Model.Number.errInfinity then
      -- `if (!sax.Double(d)) RETURN_SET_ERROR_CODE(kParseErrorInvalidChar); RETURN_SET_ERROR_CODE(error_code);`
      match s.sax.scalar (.dbl Sonic.Model.Number.infBits) with
      | .error e => .error e
      | .ok (sax, true) => .ok { s with pos := p, sax := sax, err := code }
      | .ok (sax, false) => .ok { s with pos := p, sax := sax, err := kParseErrorInvalidChar }
    else if code = kParseErrorInvalidChar then .ok { s with pos := p, err := code }   -- CHECK_DIGIT()
    else .error .number

def isNumStart (c : Nat) : Bool := (0x30 ≤ c && c ≤ 0x39) || c == 0x2D

/-! ## `parseImpl` -/

/-- `scope_end:` -/
def scopeEnd (s : PState) : StepResult :=
  if s.err ≠ kErrorNone then .ok (s, none) else                -- sonic_check_err()
  match s.depth with
  | [] => .error .assert                                        -- depth.pop_back() on an empty vector
  | _ :: rest =>
    let s := { s with depth := rest }
    match rest with
    | [] => .ok (s, none)                                       -- goto doc_end
    | d :: _ =>
      match skip s with
      | .error e => .error e
      | .ok (c, s) => if isArrFrame d then .ok (s, some (.arrCont c)) else .ok (s, some (.objCont c))

/-- `case '[': …` (three textually identical copies in `parseImpl`) -/
def openArr (s : PState) : StepResult :=
  match s.sax.start with
  | .error e => .error e
  | .ok (sax, false) => errInvalidChar { s with sax := sax }
  | .ok (sax, true) =>
    let s := { s with sax := sax, depth := kArrMask :: s.depth }
    match skip s with
    | .error e => .error e
    | .ok (c, s) =>
      if c = 0x5D then
        match s.sax.endArray 0 with
        | .error e => .error e
        | .ok sax => scopeEnd { s with sax := sax }
      else .ok (s, some (.arrVal c))

/-- `case '{': …` -/
def openObj (s : PState) : StepResult :=
  match s.sax.start with
  | .error e => .error e
  | .ok (sax, false) => errInvalidChar { s with sax := sax }
  | .ok (sax, true) =>
    let s := { s with sax := sax, depth := kObjMask :: s.depth }
    match skip s with
    | .error e => .error e
    | .ok (c, s) =>
      if c = 0x7D then
        match s.sax.endObject 0 with
        | .error e => .error e
        | .ok sax => scopeEnd { s with sax := sax }
      else .ok (s, some (.objKey c))

/-- after a scalar value: `c = scan.SkipSpace(json_buf_, pos_);` and fall into `obj_cont` / `arr_cont` -/
def afterScalar (s : PState) (cont : Nat → Label) : StepResult :=
  match skip s with
  | .error e => .error e
  | .ok (c, s) => .ok (s, some (cont c))

/-- `if (sonic_unlikely(!parseX(sax))) goto err_invalid_char; break;` -/
def litCase (r : Except Fault (PState × Bool)) (cont : Nat → Label) : StepResult :=
  match r with
  | .error e => .error e
  | .ok (s, false) => errInvalidChar s
  | .ok (s, true) => afterScalar s cont

/-- the `switch (c)` at a value position inside a container (object member value, `arr_val`) -/
def valueSwitch (W : Nat) (s : PState) (c : Nat) (cont : Nat → Label) : StepResult :=
  if c = 0x7B then openObj s
  else if c = 0x5B then openArr s
  else if isNumStart c then
    match parseNum s with
    | .error e => .error e
    | .ok s => if s.err ≠ kErrorNone then .ok (s, none) else afterScalar s cont     -- sonic_check_err()
  else if c = 0x74 then litCase (parseTrue s) cont
  else if c = 0x66 then litCase (parseFalse s) cont
  else if c = 0x6E then litCase (parseNull s) cont
  else if c = 0x22 then
    match parseStr W s with
    | .error e => .error e
    | .ok (s, false) => errInvalidChar s
    | .ok (s, true) => if s.err ≠ kErrorNone then .ok (s, none) else afterScalar s cont
  else errInvalidChar s

/-- `depth.back()++` -/
def bumpDepth (s : PState) : Except Fault (PState × Nat) :=
  match s.depth with
  | [] => .error .assert
  | d :: rest => .ok ({ s with depth := incr d :: rest }, incr d)

def step (W : Nat) (s : PState) : Label → StepResult
  | .objKey c =>
    if c ≠ 0x22 then errInvalidChar s else
    match parseStr W s with                                     -- found = parseKeyInPlace(sax)
    | .error e => .error e
    | .ok (s, found) =>
      if s.err ≠ kErrorNone then .ok (s, none) else              -- sonic_check_err()
      if !found then errInvalidChar s else
      match skip s with
      | .error e => .error e
      | .ok (c, s) =>
        if c ≠ 0x3A then errInvalidChar s else
        match skip s with
        | .error e => .error e
        | .ok (c, s) => valueSwitch W s c .objCont
  | .arrVal c => valueSwitch W s c .arrCont
  | .objCont c =>
    match bumpDepth s with
    | .error e => .error e
    | .ok (s, d) =>
      if c = 0x2C then
        match skip s with
        | .error e => .error e
        | .ok (c, s) => .ok (s, some (.objKey c))
      else if c ≠ 0x7D then errInvalidChar s
      else
        match s.sax.endObject d with                            -- sax.EndObject(depth.back())
        | .error e => .error e
        | .ok sax => scopeEnd { s with sax := sax }
  | .arrCont c =>
    match bumpDepth s with
    | .error e => .error e
    | .ok (s, d) =>
      if c = 0x2C then
        match skip s with
        | .error e => .error e
        | .ok (c, s) => .ok (s, some (.arrVal c))
      else if c = 0x5D then
        match s.sax.endArray (d % kArrMask) with                -- sax.EndArray(depth.back() & (kArrMask - 1))
        | .error e => .error e
        | .ok sax => scopeEnd { s with sax := sax }
      else errInvalidChar s

/-- iterate `step` until `return` -/
def runSteps (W : Nat) : Nat → PState × Option Label → Except Fault PState
  | _, (s, none) => .ok s
  | 0, (_, some _) => .error .fuel
  | fuel + 1, (s, some l) =>
    match step W s l with
    | .error e => .error e
    | .ok r => runSteps W fuel r

/-- `parsePrimitives(sax)`: the return values of the handler calls are ignored here -/
def parsePrimitives (W : Nat) (s : PState) : Except Fault PState :=
  match rd s.buf (s.pos - 1) with                               -- switch (json_buf_[pos_ - 1])
  | .error e => .error e
  | .ok c =>
    if isNumStart c then parseNum s
    else if c = 0x22 then
      match parseStr W s with
      | .error e => .error e
      | .ok (s, _) => if s.pos > s.len then .ok { s with err := kParseErrorInvalidChar } else .ok s
    else if c = 0x66 then (parseFalse s).map (·.1)
    else if c = 0x74 then (parseTrue s).map (·.1)
    else if c = 0x6E then (parseNull s).map (·.1)
    else .ok { s with err := kParseErrorInvalidChar }

/-- `parseImpl<parseFlags>(sax)`; the fuel `buf.length + 1` suffices because every step consumes a byte -/
def parseImpl (W : Nat) (s : PState) : Except Fault PState :=
  match skip s with
  | .error e => .error e
  | .ok (c, s) =>
    if c = 0x5B then
      match openArr s with
      | .error e => .error e
      | .ok r => runSteps W (s.buf.length + 1) r
    else if c = 0x7B then
      match openObj s with
      | .error e => .error e
      | .ok r => runSteps W (s.buf.length + 1) r
    else parsePrimitives W s

/-- `hasTrailingChars()`: the new `pos_` and the answer -/
def hasTrailingChars (b : Buf) (len : Nat) : Nat → Nat → Except Fault (Nat × Bool)
  | 0, _ => .error .fuel
  | fuel + 1, pos =>
    if pos < len then
      match rd b pos with
      | .error e => .error e
      | .ok c => if !isSpace c then .ok (pos, true) else hasTrailingChars b len fuel (pos + 1)
    else .ok (pos, false)

/-- `Parser::Parse(data, len, sax)`: the final parser state; the `ParseResult` is `(err, pos)` -/
def parserParse (W : Nat) (buf : Buf) (len : Nat) (sax : Sax) : Except Fault PState :=
  let s : PState := { buf := buf, len := len, pos := 0, err := kErrorNone, cache := Cache.init, sax := sax, depth := [] }
  match parseImpl W s with
  | .error e => .error e
  | .ok s =>
    let r : Except Fault PState :=
      if s.err = kErrorNone then
        match hasTrailingChars s.buf s.len (s.len + 1) s.pos with
        | .error e => .error e
        | .ok (pos, true) => .ok { s with pos := pos, err := kParseErrorInvalidChar }
        | .ok (pos, false) => .ok { s with pos := pos }
      else .ok s
    match r with
    | .error e => .error e
    | .ok s => .ok (if s.pos > s.len then { s with pos := s.len } else s)     -- never report an offset beyond the input

/-! ## the document -/

/-- `GenericDocument`: the root node (`*this`), `str_`, and a ledger of the heap blocks obtained / released through the
    allocator and `realloc/free` (meaningful for the allocators with `kNeedFree`; the pool allocator never frees) -/
structure Doc where
  root : Node
  str : Option Buf
  mallocs : Nat
  frees : Nat
  deriving Repr

def Doc.fresh : Doc := { root := .null, str := none, mallocs := 0, frees := 0 }

/-- `destroyDom()` for `kNeedFree`: `~DNode()`, `Free(str_)`, `setType(kNull)` -/
def Doc.destroyDom (d : Doc) : Doc :=
  { d with root := .null, str := none, frees := d.frees + d.root.allocs + (if d.str.isSome then 1 else 0) }

/-- `allocateStringBuffer`: `len + 64` bytes: the input, `x"x`, and 61 bytes that are never written (`pad`) -/
def paddedBuf (bs pad : List Nat) : Buf := bs ++ [0x78, 0x22, 0x78] ++ pad

/-- `ParseResult` as the accessors see it -/
structure Result where
  err : Nat
  off : Nat
  doc : Doc
  deriving Repr

/-- `GenericDocument::Parse(data, len)` = `destroyDom(); parseImpl(data, len)`.
    `pad` (61 bytes) and `raw` (the `realloc`ed node stack) are the contents of uninitialised memory. -/
def parseDoc (W : Nat) (pad : List Nat) (raw : List (Option Node)) (d : Doc) (bs : List Nat) : Except Fault Result :=
  let d := d.destroyDom
  let buf := paddedBuf bs pad                                   -- allocateStringBuffer
  let d := { d with str := some buf, mallocs := d.mallocs + 1 }
  let sax := Sax.setUp bs.length raw                            -- sax.SetUp
  let d := { d with mallocs := d.mallocs + 1 }                  -- the realloc of the node stack
  match parserParse W buf bs.length sax with
  | .error e => .error e
  | .ok s =>
    if s.err ≠ kErrorNone then
      -- return *this;  then ~SAXHandler
      match s.sax.tearDown with
      | .error e => .error e
      | .ok freed =>
        .ok { err := s.err, off := s.pos,
              doc := { d with str := some s.buf, mallocs := d.mallocs + s.sax.mallocs, frees := d.frees + freed + 1 } }
    else
      -- NodeType::operator=(std::move(sax.st_[0])): rawAssign copies the node and sets the source's type to kNull
      match s.sax.get 0 with
      | .error e => .error e
      | .ok root =>
        match s.sax.put 0 (some .null) with
        | .error e => .error e
        | .ok sax =>
          match sax.tearDown with
          | .error e => .error e
          | .ok freed =>
            .ok { err := s.err, off := s.pos,
                  doc := { root := root, str := some s.buf, mallocs := d.mallocs + s.sax.mallocs,
                           frees := d.frees + freed + 1 } }

/-- a fresh document, node stack memory all indeterminate -/
def parse (W : Nat) (pad : List Nat) (bs : List Nat) : Except Fault Result :=
  parseDoc W pad (List.replicate (setUpCap bs.length) none) Doc.fresh bs

/-- the value held by a document (strings read from its `str_`) -/
def Doc.value (d : Doc) : Option JVal :=
  match d.str with
  | some buf => d.root.toJVal buf
  | none => d.root.toJVal []

/-! ## line protocol (`/verif/protocol/parse.md`) -/

private def hexDigitVal (c : Char) : Option Nat :=
  if '0' ≤ c ∧ c ≤ '9' then some (c.toNat - 48)
  else if 'a' ≤ c ∧ c ≤ 'f' then some (c.toNat - 87)
  else if 'A' ≤ c ∧ c ≤ 'F' then some (c.toNat - 55)
  else none

private def unhexGo : List Char → List Nat → Option (List Nat)
  | [], acc => some acc.reverse
  | [_], _ => none
  | a :: b :: rest, acc =>
    match hexDigitVal a, hexDigitVal b with
    | some x, some y => unhexGo rest ((x * 16 + y) :: acc)
    | _, _ => none

private def unhex (s : String) : Option (List Nat) :=
  if s == "-" then some [] else unhexGo s.toList []

def specParseStr (bs : List Nat) : String :=
  match Sonic.Spec.Json.parse bs with
  | .ok v => "spec=ok:" ++ v.show
  | .error .malformed => "spec=malformed"
  | .error .infinity => "spec=infinity"

def showResult (r : Result) : String :=
  if r.err = 0 then
    s!"ok off={r.off} tree=" ++ (match r.doc.value with | some v => v.show | none => "?tree")
  else
    let isNull := match r.doc.root with | .null => "1" | _ => "0"
    s!"err={r.err} off={r.off} null={isNull}"

/-- the 61 uninitialised bytes of the string buffer, for the executable model -/
def runPad : List Nat := List.replicate 61 0xAA

/-- all texts through one document; the per-parse outputs and the final document (`none` after a model fault) -/
def runSeq (W : Nat) : Doc → List (List Nat) → List String × Option Doc
  | d, [] => ([], some d)
  | d, bs :: rest =>
    match parseDoc W runPad (List.replicate (setUpCap bs.length) none) d bs with
    | .error _ => (["fault " ++ specParseStr bs], none)
    | .ok r =>
      let (outs, d') := runSeq W r.doc rest
      ((showResult r ++ " " ++ specParseStr bs) :: outs, d')

def runLine (W : Nat) (toks : List String) : String :=
  let go (alloc : String) (hexes : List String) : String :=
    if !(alloc == "pool" || alloc == "simple" || alloc == "track" || alloc == "guard" || alloc == "gpool" || alloc.startsWith "upool-") then "bad-op" else
    match hexes.mapM unhex with
    | none => "bad-op"
    | some texts =>
      if texts.isEmpty ∨ W = 0 ∨ 63 < W ∨ texts.any (fun t => t.any (fun b => decide (255 < b))) then "bad-op" else
      let (outs, d) := runSeq W Doc.fresh texts
      let line := " | ".intercalate outs
      if alloc == "track" then
        match d with
        | some d =>
          let d := d.destroyDom                                 -- ~GenericDocument
          if d.mallocs = d.frees then line ++ " ledger=ok" else line ++ s!" ledger=leak:{d.mallocs - d.frees}"
        | none => line ++ " ledger=fault"
      else line
  match toks with
  | ["parse", alloc, hex] => go alloc [hex]
  | "parse-seq" :: alloc :: hexes => go alloc hexes
  | _ => "bad-op"

end Sonic.Model.Parse
