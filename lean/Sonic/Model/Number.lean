import Sonic.Gen.Tables
import Sonic.Spec.Rne
import Sonic.Spec.JsonTypes
import Sonic.Spec.Number
import Sonic.Model.EiselLemire
import Sonic.Model.NormalFast
import Sonic.Model.BigDecimal

/-!
# Model: `Parser::parseNumber` (include/sonic/dom/parser.h) and its helpers

## Memory
The parser works on `json_buf_`: the input text followed by the sentinel bytes `x"x` and uninitialised padding.
A pointer `s + i` is modelled as the pair (index `i`, list of the bytes from that address on); the byte read through
it is `hd`.  Bytes beyond the modelled list read as `0`.  With the sentinel in place the parser never gets there
(every loop stops at `x`); only the 16-byte load of `simd_str2int` does, and its result does not depend on bytes
after the first non-digit.  Theorems are stated for all lists, so they cover every possible content of the padding.

## Arithmetic
`uint64_t` is `Nat` reduced `% 2^64` at each operation.  `int` (`man_nd`, `exp10`, `exp`, `fract_len`) is an
unbounded `Int`: **assumption** – the number text is shorter than `2^31 - 10^5` bytes, so that `man_nd = i -
digit_start`, `exp10 -= (i - exp10_s)` and `exp10++` do not overflow; the written exponent is accumulated in an
`int64_t` (`exp < 10^16` by the `exp < 10^15` guard), `exp10 + exp * esm` is formed in 64 bits and clamped to
`±100000` (`clampExp10`).

## Hardware (trusted)
`(double)man`, `d * p`, `d / p` are IEEE-754 binary64 operations in the default rounding mode: the exact result
rounded to nearest, ties to even.  They are *defined* here as `Spec.Rne.roundRat` of the exact rational result
(`u64ToF64`, `fmul`, `fdiv`); comparison `d > 1e15` compares exact values.  Operands are finite and non-negative in
all uses; `dbl * sgn` and `-(double)man` only set the sign bit.

## Result
`parseNumber buf len start` (`start = pos_ - 1`, `len = len_`) returns what was handed to the SAX handler together
with `pos_`, or the error code with `pos_`; plus the name of the branch that produced it.
-/
namespace Sonic.Model.Number

open Sonic.Spec
open Sonic.Model.EiselLemire (atofEiselLemire64)
open Sonic.Model.NormalFast (parseFloatingNormalFast)

def isDigit (c : Nat) : Bool := 48 ≤ c && c ≤ 57

/-- the byte at a pointer -/
def hd (s : List Nat) : Nat := s.headD 0

inductive Path where
  | int | zero | fast | normalfast | el | el2 | native | err
  deriving Repr, DecidableEq, Inhabited

def Path.name : Path → String
  | .int => "int" | .zero => "zero" | .fast => "fast" | .normalfast => "normalfast"
  | .el => "el" | .el2 => "el2" | .native => "native" | .err => "err"

inductive PResult where
  /-- `err_ = kErrorNone`, value given to the SAX handler, `pos_ = next` -/
  | ok (v : JNum) (next : Nat) (path : Path)
  /-- `err_ = code`, `pos_ = pos` -/
  | err (code : Nat) (pos : Nat)
  deriving Repr, DecidableEq, Inhabited

def errInvalidChar : Nat := Sonic.Gen.kParseErrorInvalidChar
def errInfinity : Nat := Sonic.Gen.kParseErrorInfinity

/-! ## hardware floating point (trusted, see header) -/

def infBits : Nat := 0x7FF0000000000000

/-- a finite non-negative binary64 `bits` has the value `sig · 2^exp` -/
def decodeF64 (bits : Nat) : Nat × Int :=
  let be : Nat := bits / 2 ^ 52 % 2048
  let fr : Nat := bits % 2 ^ 52
  if be = 0 then (fr, -1074) else (2 ^ 52 + fr, (be : Int) - 1075)

/-- correctly rounded `num / den · 2^e` (`den > 0`), overflow gives `+inf` -/
def roundScaled (num den : Nat) (e : Int) : Nat :=
  if num = 0 then 0
  else
    (match e with
      | .ofNat k => Rne.roundRat (num * 2 ^ k) den
      | .negSucc k => Rne.roundRat num (den * 2 ^ (k + 1))).getD infBits

/-- `(double)n` for a `uint64_t n` -/
def u64ToF64 (n : Nat) : Nat := roundScaled n 1 0

/-- `a * b` -/
def fmul (a b : Nat) : Nat :=
  let (sa, ea) := decodeF64 a
  let (sb, eb) := decodeF64 b
  roundScaled (sa * sb) 1 (ea + eb)

/-- `a / b` (`b ≠ 0`) -/
def fdiv (a b : Nat) : Nat :=
  let (sa, ea) := decodeF64 a
  let (sb, eb) := decodeF64 b
  roundScaled sa sb (ea - eb)

/-- `a > b` on exact values -/
def fgt (a b : Nat) : Bool :=
  let (sa, ea) := decodeF64 a
  let (sb, eb) := decodeF64 b
  match ea - eb with
  | .ofNat k => sa * 2 ^ k > sb
  | .negSucc k => sa > sb * 2 ^ (k + 1)

/-- `-x` / `x * -1` for a non-negative `x`; identity when `neg = false` -/
def withSign (neg : Bool) (bits : Nat) : Nat := if neg then bits ||| 2 ^ 63 else bits

/-- `0.0 * sgn` -/
def zeroBits (neg : Bool) : Nat := if neg then 2 ^ 63 else 0

def pow10Tab (i : Nat) : Nat := Sonic.Gen.kPow10Tab.getD i 0

/-- `parseFloatingFast(d, exp10, man)`: `some d` when it returns true -/
def parseFloatingFast (exp10 : Int) (man : Nat) : Option Nat :=
  let d := u64ToF64 man
  if exp10 > 0 then
    if exp10 > 22 then
      let d := fmul d (pow10Tab (exp10 - 22).toNat)
      if fgt d (pow10Tab 15) then none          -- `d > 1e15 || d < -1e15`; d ≥ 0
      else some (fmul d (pow10Tab 22))
    else some (fmul d (pow10Tab exp10.toNat))
  else some (fdiv d (pow10Tab (-exp10).toNat))

/-! ## digit loops -/

/-- `str2int`: `while (carry_one(s[i], sum)) i++`.  `carry_one` tests `uint8_t(c - '0') > 9`, which for a byte is
    `c ∉ '0'..'9'` (lemma `carry_one_test` in `Proofs/Number.lean`).  Returns `sum`, the pointer and `i`. -/
def str2int : List Nat → Nat → Nat → Nat × List Nat × Nat
  | [], sum, i => (sum, [], i)
  | c :: s, sum, i =>
    if isDigit c then str2int s ((sum * 10 + (c - 48)) % 2 ^ 64) (i + 1) else (sum, c :: s, i)

structure Mant where
  man : Nat
  manNd : Int
  exp10 : Int
  trunc : Bool
  deriving Repr, DecidableEq

/-- the slow loop for more than 19 integer digits:
    `while (is_digit(s[i])) { if (man_nd < 19) { man = man*10 + s[i]-'0'; man_nd++; } else { exp10++; trunc = 1; } i++; }` -/
def slowLoop : List Nat → Mant → Nat → Mant × List Nat × Nat
  | [], m, i => (m, [], i)
  | c :: s, m, i =>
    if isDigit c then
      if m.manNd < 19 then
        slowLoop s { m with man := (m.man * 10 + (c - 48)) % 2 ^ 64, manNd := m.manNd + 1 } (i + 1)
      else slowLoop s { m with exp10 := m.exp10 + 1, trunc := true } (i + 1)
    else (m, c :: s, i)

/-- `while (is_digit(s[i])) i++` -/
def skipDigits : List Nat → Nat → List Nat × Nat
  | [], i => ([], i)
  | c :: s, i => if isDigit c then skipDigits s (i + 1) else (c :: s, i)

/-- `while (s[i] == '0') i++` -/
def skipZeros : List Nat → Nat → List Nat × Nat
  | [], i => ([], i)
  | c :: s, i => if c = 48 then skipZeros s (i + 1) else (c :: s, i)

/-- `simd_str2int(c, man_nd)`: the 16-byte block is scanned for the first non-digit (`num_end_idx`, 16 if none),
    `man_nd = min(man_nd, num_end_idx)`, and the decimal value of the first `man_nd` digits is returned (0 when
    `man_nd ≤ 0`: the `default:` case).  The SIMD multiply-add tree computes exactly that value (`< 10^16`). -/
def simdStr2int (s : List Nat) (n : Int) : Nat × Int :=
  let numEnd := ((s.take 16).takeWhile isDigit).length
  let n' : Int := if n < numEnd then n else numEnd
  if n' ≤ 0 then (0, n') else (Sonic.Spec.Number.digitsVal (s.take n'.toNat), n')

/-- `while (man_nd < 17 && is_digit(s[i])) { man = man * 10 + s[i] - '0'; man_nd++; i++; }` -/
def fractLoop : List Nat → Nat → Int → Nat → Nat × Int × List Nat × Nat
  | [], man, nd, i => (man, nd, [], i)
  | c :: s, man, nd, i =>
    if nd < 17 ∧ isDigit c then fractLoop s ((man * 10 + (c - 48)) % 2 ^ 64) (nd + 1) (i + 1)
    else (man, nd, c :: s, i)

/-- `while (is_digit(s[i])) { trunc = 1; i++; }` -/
def truncLoop : List Nat → Bool → Nat → Bool × List Nat × Nat
  | [], t, i => (t, [], i)
  | c :: s, t, i => if isDigit c then truncLoop s true (i + 1) else (t, c :: s, i)

/-- `while (is_digit(s[i])) { if (exp < 1000000000000000) exp = exp * 10 + (s[i] - '0'); i++; }`
    (`int64_t exp`: at most `10^16 - 1`, no overflow) -/
def expLoop : List Nat → Int → Nat → Int × List Nat × Nat
  | [], e, i => (e, [], i)
  | c :: s, e, i =>
    if isDigit c then expLoop s (if e < 1000000000000000 then e * 10 + ((c : Int) - 48) else e) (i + 1)
    else (e, c :: s, i)

/-- `exp10_wide > 100000 ? 100000 : exp10_wide < -100000 ? -100000 : (int)exp10_wide` -/
def clampExp10 (x : Int) : Int := if x > 100000 then 100000 else if x < -100000 then -100000 else x

/-! ## the scanning phase: everything before the label `double_fast` -/

/-- the arguments with which control reaches `double_fast` -/
structure FloatIn where
  neg : Bool
  man : Nat
  exp10 : Int
  trunc : Bool
  next : Nat
  deriving Repr, DecidableEq

inductive Acc where
  | ret (r : PResult)        -- returned before `double_fast`
  | float (f : FloatIn)
  deriving Repr, DecidableEq

def isE (c : Nat) : Bool := c = 101 || c = 69

/-- the exponent of a literal zero (`0e…`, `0.000e…`): `i++; sign; CHECK_DIGIT(); digits; return 0.0 * sgn`.
    `s` points at the `e`. -/
def zeroExp (neg : Bool) (s : List Nat) (i : Nat) : Acc :=
  let s := s.tail
  let i := i + 1
  let (s, i) := if hd s = 45 ∨ hd s = 43 then (s.tail, i + 1) else (s, i)
  if !isDigit (hd s) then .ret (.err errInvalidChar i)
  else
    let (_, i) := skipDigits s i
    .ret (.ok (.real (zeroBits neg)) i .zero)

/-- label `double_exp`; `s` points at the `e` -/
def doubleExp (neg : Bool) (s : List Nat) (i : Nat) (man : Nat) (exp10 : Int) (trunc : Bool) : Acc :=
  let s := s.tail
  let i := i + 1
  let (esm, s, i) : Int × List Nat × Nat :=
    if hd s = 45 ∨ hd s = 43 then ((if hd s = 45 then -1 else 1), s.tail, i + 1) else (1, s, i)
  if !isDigit (hd s) then .ret (.err errInvalidChar i)
  else
    let (exp, _, i) := expLoop s 0 i
    -- `int64_t exp10_wide = exp10 + exp * esm;` clamped to `±100000`
    .float { neg := neg, man := man, exp10 := clampExp10 (exp10 + exp * esm), trunc := trunc, next := i }

/-- label `double_fract` up to `double_fast`; `s` points at the first fraction digit that has not been consumed -/
def doubleFract (neg : Bool) (s : List Nat) (i : Nat) (m : Mant) (exp10S : Nat) : Acc :=
  let fractLen : Int := 17 - m.manNd
  let (man, s, i) :=
    if fractLen > 0 then
      let (sum, fl) := simdStr2int s fractLen
      let man := (m.man * 10 ^ fl.toNat + sum) % 2 ^ 64        -- pow10[fract_len]
      let manNd := m.manNd + fl
      let (man, _, s, i) := fractLoop (s.drop fl.toNat) man manNd (i + fl.toNat)
      (man, s, i)
    else (m.man, s, i)
  let exp10 := m.exp10 - ((i : Int) - exp10S)
  let (trunc, s, i) := truncLoop s m.trunc i
  if !isE (hd s) then .float { neg := neg, man := man, exp10 := exp10, trunc := trunc, next := i }
  else doubleExp neg s i man exp10 trunc

def kUint64Max : Nat := 0xFFFFFFFFFFFFFFFF

/-- `parseNumber` from its first statement up to (not including) `double_fast` -/
def accumulate (buf : List Nat) (start : Nat) : Acc :=
  let s := buf.drop start
  let i := start
  -- check sign
  let neg := hd s = 45
  let (s, i) := if neg then (s.tail, i + 1) else (s, i)
  -- check leading zero
  if hd s = 48 then
    let s := s.tail
    let i := i + 1
    if hd s = 46 then
      let s := s.tail
      let i := i + 1
      if !isDigit (hd s) then .ret (.err errInvalidChar i)
      else
        let exp10S := i
        let (s, i) := skipZeros s i
        if isE (hd s) then zeroExp neg s i
        else doubleFract neg s i { man := 0, manNd := 0, exp10 := 0, trunc := false } exp10S
    else if isE (hd s) then zeroExp neg s i
    else .ret (.ok (.uint 0) i .int)
  else
    let digitStart := i
    let (man, s', i') := str2int s 0 i
    let manNd : Int := (i' : Int) - digitStart
    if manNd = 0 then .ret (.err errInvalidChar i')
    else
      let (m, s, i) : Mant × List Nat × Nat :=
        if manNd > 19 then slowLoop s { man := 0, manNd := 0, exp10 := 0, trunc := false } digitStart
        else ({ man := man, manNd := manNd, exp10 := 0, trunc := false }, s', i')
      if hd s = 46 then
        let s := s.tail
        let i := i + 1
        if !isDigit (hd s) then .ret (.err errInvalidChar i)
        else doubleFract neg s i m i
      else if isE (hd s) then doubleExp neg s i m.man m.exp10 m.trunc
      else
        -- Integer
        if m.exp10 = 0 then
          if neg then
            if m.man > 2 ^ 63 then .ret (.ok (.real (withSign true (u64ToF64 m.man))) i .int)
            else .ret (.ok (.sint (-(m.man : Int))) i .int)
          else .ret (.ok (.uint m.man) i .int)
        else if m.exp10 = 1 then
          let num := hd (buf.drop (i - 1)) - 48            -- unsigned num = s[i - 1] - '0'
          if m.man < kUint64Max / 10 ∨ (m.man = kUint64Max / 10 ∧ num ≤ 4294967295 % 10) then
            let man := (m.man * 10 + num) % 2 ^ 64
            if neg then .ret (.ok (.real (withSign true (u64ToF64 man))) i .int)
            else .ret (.ok (.uint man) i .int)
          else .float { neg := neg, man := m.man, exp10 := m.exp10, trunc := true, next := i }
        else .float { neg := neg, man := m.man, exp10 := m.exp10, trunc := true, next := i }

/-! ## the conversion phase: `double_fast` and below -/

/-- `parseFloatEiselLemire64(dbl, exp10, man, sgn, trunc, s)`; `native` is the text handed to `AtofNative`
    (`s + pos_ - 1`, `len_ - pos_ + 1` bytes) -/
def parseFloatEiselLemire64 (f : FloatIn) (native : List Nat) : PResult :=
  let viaEl : Option (Nat × Path) :=
    match atofEiselLemire64 f.man f.exp10 f.neg with
    | some v =>
      if !f.trunc then some (v, .el)
      else
        match atofEiselLemire64 ((f.man + 1) % 2 ^ 64) f.exp10 f.neg with
        | some up => if up = v then some (v, .el2) else none
        | none => none
    | none => none
  match viaEl with
  | some (v, p) => .ok (.real v) f.next p
  | none =>
    let (bits, fault) := Sonic.Model.BigDecimal.atofNative native
    if fault then .err 255 f.next          -- model fault (cannot happen; never a silent default)
    else if bits * 2 % 2 ^ 64 = 0xFFE0000000000000 then .err errInfinity f.next
    else .ok (.real bits) f.next .native

/-- label `double_fast` to the end of `parseNumber` -/
def convert (f : FloatIn) (native : List Nat) : PResult :=
  if f.man = 0 then .ok (.real (zeroBits f.neg)) f.next .zero
  else
    let fast : Option Nat :=
      if f.man / 2 ^ 52 = 0 ∧ f.exp10 ≤ 22 + 15 ∧ f.exp10 ≥ -22 then parseFloatingFast f.exp10 f.man else none
    match fast with
    | some d => .ok (.real (withSign f.neg d)) f.next .fast
    | none =>
      let nf : Option Nat :=
        if !f.trunc ∧ f.exp10 > -308 + 1 ∧ f.exp10 < 308 - 20 then parseFloatingNormalFast f.exp10 f.man f.neg
        else none
      match nf with
      | some raw => .ok (.real raw) f.next .normalfast
      | none => parseFloatEiselLemire64 f native

/-- `Parser::parseNumber` with `json_buf_ = buf`, `len_ = len`, `pos_ - 1 = start` -/
def parseNumber (buf : List Nat) (len : Nat) (start : Nat) : PResult :=
  match accumulate buf start with
  | .ret r => r
  | .float f => convert f ((buf.drop start).take (len - start))

/-! ## what surrounds a number: `Parser::Parse` on a root number and on a flat array of numbers -/

def isSpace (c : Nat) : Bool := c = 32 || c = 9 || c = 10 || c = 13

/-- `SkipSpace(data, pos)`: the first non-space byte at or after `pos` and the index one past it
    (the block-wise implementation is property C-skip's business; this is its contract) -/
def skipSpaceAux : List Nat → Nat → Nat × Nat
  | [], pos => (0, pos + 1)
  | c :: s, pos => if isSpace c then skipSpaceAux s (pos + 1) else (c, pos + 1)

def skipSpace (buf : List Nat) (pos : Nat) : Nat × Nat := skipSpaceAux (buf.drop pos) pos

/-- `hasTrailingChars()`: `some pos_` of the first non-space byte before `len_`, `none` if there is none -/
def trailing : List Nat → Nat → Nat → Option Nat
  | [], _, _ => none
  | c :: s, pos, len => if pos < len then (if isSpace c then trailing s (pos + 1) len else some pos) else none

inductive DocResult where
  | num (v : JNum)
  | nums (vs : List JNum)       -- a flat array
  | err (code : Nat) (off : Nat)
  | unsupported                 -- the text leaves the fragment of JSON this model covers (strings, literals, nesting)
  deriving Repr, DecidableEq

def isNumStart (c : Nat) : Bool := isDigit c || c = 45

/-- bytes that start a JSON value this model does not cover -/
def isOtherStart (c : Nat) : Bool := c = 34 || c = 116 || c = 102 || c = 110 || c = 91 || c = 123

/-- the tail of `Parser::Parse`: trailing characters and clamping of the offset -/
def finish (buf : List Nat) (len : Nat) (err pos : Nat) (okResult : DocResult) : DocResult :=
  if err ≠ 0 then .err err (min pos len)
  else match trailing (buf.drop pos) pos len with
    | some p => .err errInvalidChar (min p len)
    | none => okResult

/-- `Parse(text)` when the document is a single number -/
def parseRoot (text : List Nat) : DocResult × Path :=
  let buf := text ++ [120, 34, 120]
  let len := text.length
  let (c, pos) := skipSpace buf 0
  if isNumStart c then
    match parseNumber buf len (pos - 1) with
    | .ok v next p => (finish buf len 0 next (.num v), p)
    | .err code p => (finish buf len code p (.num (.uint 0)), .err)
  else if isOtherStart c then (.unsupported, .err)
  else (finish buf len errInvalidChar pos (.num (.uint 0)), .err)

/-- the `arr_val` / `arr_cont` loop of `parseImpl` for an array whose elements are numbers.
    `sonic_check_err()` after `parseNumber` returns with the error code `parseNumber` has set. -/
def arrLoop (buf : List Nat) (len : Nat) : Nat → Nat → Nat → List JNum → DocResult
  | 0, _, _, _ => .unsupported
  | fuel + 1, c, pos, acc =>
    if isNumStart c then
      match parseNumber buf len (pos - 1) with
      | .err code p => finish buf len code p (.nums [])
      | .ok v next _ =>
        let acc := v :: acc
        let (c, pos) := skipSpace buf next
        if c = 44 then
          let (c, pos) := skipSpace buf pos
          arrLoop buf len fuel c pos acc
        else if c = 93 then finish buf len 0 pos (.nums acc.reverse)
        else finish buf len errInvalidChar pos (.nums [])
    else if isOtherStart c then .unsupported
    else finish buf len errInvalidChar pos (.nums [])

/-- `Parse("[" ++ text ++ "]")` -/
def parseArr (text : List Nat) : DocResult :=
  let buf := [91] ++ text ++ [93] ++ [120, 34, 120]
  let len := text.length + 2
  let (_, pos) := skipSpace buf 0
  let (c, pos) := skipSpace buf pos
  if c = 93 then finish buf len 0 pos (.nums [])
  else arrLoop buf len (buf.length + 1) c pos []

/-! ## line protocol (`/verif/protocol/number.md`) -/

def hexDigit (c : Char) : Option Nat :=
  if '0' ≤ c ∧ c ≤ '9' then some (c.toNat - 48)
  else if 'a' ≤ c ∧ c ≤ 'f' then some (c.toNat - 87)
  else if 'A' ≤ c ∧ c ≤ 'F' then some (c.toNat - 55)
  else none

/-- `-` denotes the empty byte string -/
def unhex (s : String) : Option (List Nat) :=
  if s == "-" then some [] else
  let rec go : List Char → List Nat → Option (List Nat)
    | [], acc => some acc.reverse
    | [_], _ => none
    | a :: b :: rest, acc => do
        let x ← hexDigit a; let y ← hexDigit b
        go rest ((x * 16 + y) :: acc)
  go s.toList []

def showNum : JNum → String
  | .uint n => s!"u{n}"
  | .sint n => s!"i{n}"
  | .real b => s!"d{b}"

def showDoc : DocResult → String
  | .num v => showNum v
  | .nums [] => "empty"
  | .nums (v :: _) => showNum v
  | .err c o => s!"err{c}@{o}"
  | .unsupported => "na"

def showSpec (text : List Nat) : String :=
  match Sonic.Spec.Number.scanNumber (text ++ [120]) 0 with
  | .ok v next => if next = text.length then showNum v else "malformed"
  | .infinity next => if next = text.length then "inf" else "malformed"
  | .malformed => "malformed"

def parseNat? (s : String) : Option Nat := s.toNat?
def parseInt? (s : String) : Option Int := s.toInt?

def runLine (toks : List String) : String :=
  match toks with
  | ["atof", hexS] =>
    match unhex hexS with
    | some text =>
      let (r, p) := parseRoot text
      let a := parseArr text
      let path := match r with | .unsupported => "na" | _ => p.name
      s!"{showDoc r} arr={showDoc a} path={path} spec={showSpec text}"
    | none => "bad-op"
  | ["prim-el", manS, expS, negS] =>
    match parseNat? manS, parseInt? expS with
    | some man, some e =>
      if man < 2 ^ 64 ∧ (negS = "0" ∨ negS = "1") then
        match atofEiselLemire64 man e (negS = "1") with
        | some b => s!"ok {b}"
        | none => "fail"
      else "bad-op"
    | _, _ => "bad-op"
  | ["prim-nf", manS, expS, negS] =>
    match parseNat? manS, parseInt? expS with
    | some man, some e =>
      if man < 2 ^ 64 ∧ -348 ≤ e ∧ e ≤ 347 ∧ (negS = "0" ∨ negS = "1") then
        match parseFloatingNormalFast e man (negS = "1") with
        | some b => s!"ok {b}"
        | none => "fail"
      else "bad-op"
    | _, _ => "bad-op"
  | ["prim-native", hexS] =>
    match unhex hexS with
    | some text =>
      let (bits, fault) := Sonic.Model.BigDecimal.atofNative text
      if fault then "fault" else toString bits
    | none => "bad-op"
  | ["prim-str2int", nS, hexS] =>
    match parseInt? nS, unhex hexS with
    | some n, some text =>
      let (v, n') := simdStr2int (text ++ List.replicate 16 120) n
      s!"{v} {n'}"
    | _, _ => "bad-op"
  | _ => "bad-op"

end Sonic.Model.Number
