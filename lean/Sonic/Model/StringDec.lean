import Sonic.Gen.Tables
import Sonic.Spec.StringLit

/-!
# Model of `parseStringInplace` (`arch/common/x86_common/quote.inc.h`)

A literal transcription, parametric in the vector width `W` (`VEC_LEN`: 32 for AVX2, 16 for SSE), together
with `handle_unicode_codepoint`, `hex_to_u32_nocheck`, `codepoint_to_utf8` (`arch/common/unicode_common.h`)
and `StringBlock` (`arch/{avx2,sse}/unicode.h`).

* The buffer is a `List Nat` of bytes that is mutated in place: every store returns the new buffer.  Every
  load and store is checked: an index `≥ buf.length` is the fault `.oob`; a `W`-byte vector load/store at `p`
  faults unless `p + W ≤ buf.length`.  A table index outside the table is the fault `.table`.
* Pointers are indices into the buffer: `src`, `dst`, and `sdst = start` (the value of `src` on entry).
* `StringBlock`: the three bitmasks are represented by the index of their lowest set bit (`= W` if the mask is
  zero): `bi`, `qi`, `ui` for `bs_bits`, `quote_bits`, `unescaped_bits` — lane `i` of the mask is set iff byte `i`
  of the vector is `'\\'`, `'"'`, `≤ 0x1f`.  The idioms become comparisons:
  `((bs_bits - 1) & quote_bits) != 0` ⇔ `qi < bi`, `((quote_bits - 1) & bs_bits) != 0` ⇔ `bi < qi`,
  `((quote_bits - 1) & unescaped_bits) != 0` ⇔ `ui < qi`, `TrailingZeroes(m)` = the index.
  `Sonic/Proofs/StringBits.lean` proves that these are what the `uint32_t` idioms compute.
* The labels `find`, `cont`, `find_and_move` are the three constructors of `Cfg`; one `step` executes the code
  from a label up to the next `goto`/`return`.  `runFuel` iterates `step`; running out of fuel is the explicit
  fault `.fuel`, so a theorem `run … = .ok _` proves that the fuel supplied by `run` (`3 * buf.length + 3`) was
  enough, i.e. termination.  The inner `SONIC_REPEAT8` loops are plain `while` loops (`copyUntil`).
-/

namespace Sonic.Model.StringDec
open Sonic.Gen

inductive Fault where
  | oob     -- load or store at an index ≥ buffer length
  | table   -- table index outside the table
  | fuel    -- loop did not terminate within the fuel
  deriving DecidableEq, Repr, Inhabited

/-- what `parseStringInplace` returns: `ok n next buf` — returned length `n`, `src` after the call (`next`), the
    mutated buffer; `err code` — `err` was set (the return value is 0) -/
inductive Outcome where
  | ok (n next : Nat) (buf : List Nat)
  | err (code : Nat)
  deriving DecidableEq, Repr, Inhabited

/-- decidable equality of results (core has none for `Except`); used by the `decide`d examples -/
instance instDecEqExcept {α : Type} [DecidableEq α] : DecidableEq (Except Fault α)
  | .ok a, .ok b => if h : a = b then isTrue (by rw [h]) else isFalse (fun e => h (by injection e))
  | .error a, .error b => if h : a = b then isTrue (by rw [h]) else isFalse (fun e => h (by injection e))
  | .ok _, .error _ => isFalse (fun e => by cases e)
  | .error _, .ok _ => isFalse (fun e => by cases e)

abbrev Buf := List Nat

/-- one-byte load -/
def rd (b : Buf) (i : Nat) : Except Fault Nat :=
  match b[i]? with
  | some x => .ok x
  | none => .error .oob

/-- one-byte store -/
def wr (b : Buf) (i v : Nat) : Except Fault Buf :=
  if i < b.length then .ok (b.set i v) else .error .oob

/-- `W`-byte vector load at `i` -/
def rdVec (b : Buf) (i W : Nat) : Except Fault (List Nat) :=
  if i + W ≤ b.length then .ok ((b.drop i).take W) else .error .oob

/-- vector store `v.store(b + i)` -/
def wrVec (b : Buf) (i : Nat) (v : List Nat) : Except Fault Buf :=
  if i + v.length ≤ b.length then .ok (b.take i ++ v ++ b.drop (i + v.length)) else .error .oob

/-- consecutive one-byte stores `c[0] = …; c[1] = …; …` -/
def wrBytes (b : Buf) (i : Nat) : List Nat → Except Fault Buf
  | [] => .ok b
  | x :: xs =>
    match wr b i x with
    | .error e => .error e
    | .ok b' => wrBytes b' (i + 1) xs

/-- table lookup `t[i]` -/
def tbl (t : List Nat) (i : Nat) : Except Fault Nat :=
  match t[i]? with
  | some x => .ok x
  | none => .error .table

/-! ## `StringBlock` -/

def isBs (c : Nat) : Bool := c == 0x5C
def isQuote (c : Nat) : Bool := c == 0x22
/-- `v <= '\x1f'` (unsigned bytes) -/
def isCtl (c : Nat) : Bool := c ≤ 0x1F

/-- index of the lowest set lane of `bs_bits`, `quote_bits`, `unescaped_bits` (`W` if the mask is 0) -/
structure Block where
  bi : Nat
  qi : Nat
  ui : Nat
  deriving Repr

/-- `StringBlock::Find` / the `StringBlock{…}` built in `find_and_move`, from the `W` loaded bytes -/
def mkBlock (v : List Nat) : Block := ⟨v.findIdx isBs, v.findIdx isQuote, v.findIdx isCtl⟩

/-- `((quote_bits - 1) & unescaped_bits) != 0` -/
def Block.hasUnescaped (k : Block) : Bool := k.ui < k.qi
/-- `(((bs_bits - 1) & quote_bits) != 0) && !HasUnescaped()` -/
def Block.hasQuoteFirst (k : Block) : Bool := k.qi < k.bi && !k.hasUnescaped
/-- `((quote_bits - 1) & bs_bits) != 0` -/
def Block.hasBackslash (k : Block) : Bool := k.bi < k.qi

/-! ## `unicode_common.h` -/

/-- `hex_to_u32_nocheck(src)` on the four bytes `src[0..4)` -/
def hexToU32 (b0 b1 b2 b3 : Nat) : Except Fault Nat :=
  match tbl digit_to_val32 (630 + b0), tbl digit_to_val32 (420 + b1),
        tbl digit_to_val32 (210 + b2), tbl digit_to_val32 (0 + b3) with
  | .ok v1, .ok v2, .ok v3, .ok v4 => .ok (v1 ||| v2 ||| v3 ||| v4)
  | _, _, _, _ => .error .table

/-- `hex_to_u32_nocheck(b + p)` -/
def hexAt (b : Buf) (p : Nat) : Except Fault Nat :=
  match rd b p, rd b (p + 1), rd b (p + 2), rd b (p + 3) with
  | .ok b0, .ok b1, .ok b2, .ok b3 => hexToU32 b0 b1 b2 b3
  | _, _, _, _ => .error .oob

/-- `codepoint_to_utf8(cp, c)`: the bytes stored to `c[0..]`; the returned length is the length of the list
    (`[]` = returns 0).  `uint8_t(…)` is `% 256`. -/
def codepointToUtf8 (cp : Nat) : List Nat :=
  if cp ≤ 0x7F then [cp % 256]
  else if cp ≤ 0x7FF then [((cp >>> 6) + 192) % 256, ((cp &&& 63) + 128) % 256]
  else if cp ≤ 0xFFFF then
    [((cp >>> 12) + 224) % 256, (((cp >>> 6) &&& 63) + 128) % 256, ((cp &&& 63) + 128) % 256]
  else if cp ≤ 0x10FFFF then
    [((cp >>> 18) + 240) % 256, (((cp >>> 12) &&& 63) + 128) % 256,
     (((cp >>> 6) &&& 63) + 128) % 256, ((cp &&& 63) + 128) % 256]
  else []

/-- `uint32_t` wrap-around -/
def u32 (x : Nat) : Nat := x % 2 ^ 32

/-- the surrogate logic of `handle_unicode_codepoint`: `code_point` is the first `hex_to_u32_nocheck` result and
    `src` has already been advanced by 6.  `none` = `return false`; `some (code_point, src)` = fall through to
    `codepoint_to_utf8` with these values.  All arithmetic is `uint32_t`. -/
def surrogateStep (b : Buf) (src code_point : Nat) : Except Fault (Option (Nat × Nat)) :=
  if code_point ≥ 0xd800 ∧ code_point < 0xdc00 then
    match rd b src with
    | .error e => .error e
    | .ok c0 =>
      -- `||` short-circuits: `(*src_ptr)[1]` is only read if `(*src_ptr)[0] == '\\'`
      if c0 ≠ 0x5C then .ok none else
      match rd b (src + 1) with
      | .error e => .error e
      | .ok c1 =>
        if c1 ≠ 0x75 then .ok none else
        match hexAt b (src + 2) with
        | .error e => .error e
        | .ok code_point_2 =>
          let low_bit := u32 (code_point_2 + 2 ^ 32 - 0xdc00)
          if low_bit >>> 10 ≠ 0 then .ok none else
          let code_point := u32 ((u32 (u32 (code_point + 2 ^ 32 - 0xd800) <<< 10) ||| low_bit) + 0x10000)
          .ok (some (code_point, src + 6))
  else if code_point ≥ 0xdc00 ∧ code_point ≤ 0xdfff then .ok none
  else .ok (some (code_point, src))

/-- `handle_unicode_codepoint(&src, &dst)`; `src` points at the backslash of `\\uXXXX`.
    `none` = returns false; `some (buf, src, dst)` = returns true with the advanced pointers. -/
def handleUnicode (b : Buf) (src dst : Nat) : Except Fault (Option (Buf × Nat × Nat)) :=
  match hexAt b (src + 2) with
  | .error e => .error e
  | .ok code_point =>
    match surrogateStep b (src + 6) code_point with
    | .error e => .error e
    | .ok none => .ok none
    | .ok (some (code_point, src)) =>
      let out := codepointToUtf8 code_point             -- offset = out.length
      match wrBytes b dst out with
      | .error e => .error e
      | .ok b' => .ok (if out.length > 0 then some (b', src, dst + out.length) else none)

/-! ## `parseStringInplace` -/

/-- program points: the labels `find`, `cont`, `find_and_move` with the live variables -/
inductive Cfg where
  | find (b : Buf) (src : Nat)
  | cont (b : Buf) (src dst : Nat)
  | fam (b : Buf) (src dst : Nat)
  deriving Repr

/-- `while (1) { if (*src == stop) break; else *dst++ = *src++; }` -/
def copyUntil (stop : Nat) : Nat → Buf → Nat → Nat → Except Fault (Buf × Nat × Nat)
  | 0, _, _, _ => .error .fuel
  | fuel + 1, b, src, dst =>
    match rd b src with
    | .error e => .error e
    | .ok c =>
      if c = stop then .ok (b, src, dst) else
      match wr b dst c with
      | .error e => .error e
      | .ok b' => copyUntil stop fuel b' (src + 1) (dst + 1)

/-- from `find:` to the next `goto`/`return` -/
def stepFind (W start : Nat) (b : Buf) (src : Nat) : Except Fault (Cfg ⊕ Outcome) :=
  match rdVec b src W with
  | .error e => .error e
  | .ok v =>
    let block := mkBlock v
    if block.hasQuoteFirst then
      let src := src + block.qi
      match wr b src 0 with                           -- *src++ = '\0'
      | .error e => .error e
      | .ok b' => .ok (.inr (.ok (src + 1 - start - 1) (src + 1) b'))
    else if block.hasUnescaped then .ok (.inr (.err kParseErrorUnEscaped))
    else if !block.hasBackslash then .ok (.inl (.find b (src + W)))
    else
      let src := src + block.bi
      .ok (.inl (.cont b src src))                    -- dst = src

/-- the end of `cont:` — `if (*src == '\\') goto cont;` else fall through to `find_and_move` -/
def contTail (b : Buf) (src dst : Nat) : Except Fault (Cfg ⊕ Outcome) :=
  match rd b src with
  | .error e => .error e
  | .ok c => if c = 0x5C then .ok (.inl (.cont b src dst)) else .ok (.inl (.fam b src dst))

/-- from `cont:` to the next `goto`/`return` -/
def stepCont (b : Buf) (src dst : Nat) : Except Fault (Cfg ⊕ Outcome) :=
  match rd b (src + 1) with
  | .error e => .error e
  | .ok escape_char =>
    if escape_char = 0x75 then
      match handleUnicode b src dst with
      | .error e => .error e
      | .ok none => .ok (.inr (.err kParseErrorEscapedUnicode))
      | .ok (some (b', src', dst')) => contTail b' src' dst'
    else
      match tbl kEscapedMap escape_char with
      | .error e => .error e
      | .ok m =>
        match wr b dst m with                         -- *dst = kEscapedMap[escape_char]
        | .error e => .error e
        | .ok b' =>
          match rd b' dst with                        -- *dst == 0u
          | .error e => .error e
          | .ok d =>
            if d = 0 then .ok (.inr (.err kParseErrorEscapedFormat))
            else contTail b' (src + 2) (dst + 1)

/-- from `find_and_move:` to the next `goto`/`return` -/
def stepFam (W start : Nat) (b : Buf) (src dst : Nat) : Except Fault (Cfg ⊕ Outcome) :=
  match rdVec b src W with
  | .error e => .error e
  | .ok v =>
    let block := mkBlock v
    if block.hasQuoteFirst then
      match copyUntil 0x22 b.length b src dst with
      | .error e => .error e
      | .ok (b', src', dst') =>
        match wr b' dst' 0 with                       -- *dst = '\0'
        | .error e => .error e
        | .ok b'' => .ok (.inr (.ok (dst' - start) (src' + 1) b''))
    else if block.hasUnescaped then .ok (.inr (.err kParseErrorUnEscaped))
    else if !block.hasBackslash then
      match wrVec b dst v with                        -- v.store(dst)
      | .error e => .error e
      | .ok b' => .ok (.inl (.fam b' (src + W) (dst + W)))
    else
      match copyUntil 0x5C b.length b src dst with
      | .error e => .error e
      | .ok (b', src', dst') => .ok (.inl (.cont b' src' dst'))

def step (W start : Nat) : Cfg → Except Fault (Cfg ⊕ Outcome)
  | .find b src => stepFind W start b src
  | .cont b src dst => stepCont b src dst
  | .fam b src dst => stepFam W start b src dst

def runFuel (W start : Nat) : Nat → Cfg → Except Fault Outcome
  | 0, _ => .error .fuel
  | fuel + 1, c =>
    match step W start c with
    | .error e => .error e
    | .ok (.inr o) => .ok o
    | .ok (.inl c') => runFuel W start fuel c'

/-- `parseStringInplace(src = buf + start, err)` with `VEC_LEN = W` -/
def run (W : Nat) (buf : Buf) (start : Nat) : Except Fault Outcome :=
  runFuel W start (3 * buf.length + 3) (.find buf start)

/-! ## line-protocol entry (`/verif/protocol/strdec.md`) -/

private def hexDigitVal (c : Char) : Option Nat :=
  if '0' ≤ c ∧ c ≤ '9' then some (c.toNat - 48)
  else if 'a' ≤ c ∧ c ≤ 'f' then some (c.toNat - 87)
  else if 'A' ≤ c ∧ c ≤ 'F' then some (c.toNat - 55)
  else none

private def unhexGo : List Char → List Nat → Option (List Nat)
  | [], acc => some acc.reverse
  | [_], _ => none
  | a :: b :: rest, acc =>
    match hexDigitVal a, hexDigitVal b with
    | some x, some y => unhexGo rest ((x * 16 + y) :: acc)
    | _, _ => none

private def unhex (s : String) : Option (List Nat) :=
  if s == "-" then some [] else unhexGo s.toList []

private def hexChar (n : Nat) : Char := if n < 10 then Char.ofNat (48 + n) else Char.ofNat (87 + n)

private def hex (bs : List Nat) : String :=
  if bs.isEmpty then "-" else
  String.ofList (bs.foldr (fun b acc => hexChar (b / 16 % 16) :: hexChar (b % 16) :: acc) [])

/-- the parser's buffer (`allocateStringBuffer`): payload, the sentinel `x"x`, 61 more bytes -/
def paddedBuf (payload : List Nat) (pad : Nat) : List Nat :=
  payload ++ [0x78, 0x22, 0x78] ++ List.replicate 61 pad

/-- `parsestr <pad> <hex>` -/
def runLine (W : Nat) (toks : List String) : String :=
  match toks with
  | ["parsestr", padS, hexS] =>
    match padS.toNat?, unhex hexS with
    | some pad, some payload =>
      if pad < 256 ∧ 0 < W then
        let buf := paddedBuf payload pad
        let len := payload.length
        let impl := match run W buf 0 with
          | .ok (.ok n next b) => s!"ok n={n} next={next} buf={hex (b.take (len + 3))}"
          | .ok (.err code) => s!"err={code}"
          | .error _ => "fault"
        let spec := match Sonic.Spec.decodeLit buf 0 with
          | some (out, next) => s!"ok:{hex out}:{next}"
          | none => "reject"
        s!"{impl} spec={spec}"
      else "bad-op"
    | _, _ => "bad-op"
  | _ => "bad-op"

end Sonic.Model.StringDec
