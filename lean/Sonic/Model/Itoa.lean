import Sonic.Gen.Tables

/-!
# Model of `include/sonic/internal/itoa.h` and `arch/common/x86_common/itoa.h`

A literal transcription: the output buffer is a function `Nat → Nat` (index → byte), every store of the
C++ code is a `wr`, the `out -= lz` trick of `Utoa_1_8` is kept (index arithmetic `pos + 2 - lz`), the
SSE digit splitter `UtoaSSE` is modelled lane by lane with explicit `% 2^16`, `% 2^32`, `% 2^64` and the
constants come from the *generated* tables (`Sonic.Gen`).  Each routine returns the buffer, the returned
`out` pointer (as an index) and the *write extent* (one past the highest index stored to): `Utoa_8` /
`Utoa_16` store a full 16-byte vector.
-/

namespace Sonic.Model.Itoa
open Sonic.Gen

abbrev Buf := Nat → Nat

/-- one byte store -/
def wr (b : Buf) (i v : Nat) : Buf := fun j => if j = i then v else b j

/-- `kDigits[i]` -/
def dig (i : Nat) : Nat := kDigits.getD i 0

/-- `Copy2Digs(out + pos, &kDigits[src])` -/
def copy2 (b : Buf) (pos src : Nat) : Buf := wr (wr b pos (dig src)) (pos + 1) (dig (src + 1))

structure Res where
  buf : Buf
  out : Nat      -- returned pointer
  ext : Nat      -- one past the highest byte index written so far
  deriving Inhabited

def b2n (c : Bool) : Nat := if c then 1 else 0

/-- `Utoa_1_8(out, val)`, `val < 10^8` -/
def utoa_1_8 (b : Buf) (out val : Nat) : Res :=
  if val < 100 then
    let lz := b2n (val < 10)
    let b := copy2 b out (val * 2 + lz)
    ⟨b, out + 2 - lz, out + 2⟩
  else if val < 10000 then
    let hi := val / 100; let lo := val % 100
    let lz := b2n (hi < 10)
    let b := copy2 b out (hi * 2 + lz)
    let b := copy2 b (out + 2 - lz) (lo * 2)
    ⟨b, out + 4 - lz, out + 4 - lz⟩
  else if val < 1000000 then
    let hi := val / 10000; let lo := val % 10000
    let lz := b2n (hi < 10)
    let b := copy2 b out (hi * 2 + lz)
    let a := lo / 100; let bb := lo % 100
    let b := copy2 b (out + 2 - lz) (a * 2)
    let b := copy2 b (out + 4 - lz) (bb * 2)
    ⟨b, out + 6 - lz, out + 6 - lz⟩
  else
    let hi := val / 10000; let lo := val % 10000
    let a := hi / 100; let bb := hi % 100; let c := lo / 100; let d := lo % 100
    let lz := b2n (a < 10)
    let b := copy2 b out (a * 2 + lz)
    let b := copy2 b (out + 2 - lz) (bb * 2)
    let b := copy2 b (out + 4 - lz) (c * 2)
    let b := copy2 b (out + 6 - lz) (d * 2)
    ⟨b, out + 8 - lz, out + 8 - lz⟩

/-- 16-bit lanes of a 64-bit value -/
def lane16 (x i : Nat) : Nat := (x / 2 ^ (16 * i)) % 2 ^ 16

/-- `_mm_mulhi_epu16` on one lane -/
def mulhi16 (a b : Nat) : Nat := (a % 2 ^ 16) * (b % 2 ^ 16) / 2 ^ 16

/-- `UtoaSSE(num)`, first half: the 64-bit lane `v06` = `{abcd*4, efgh*4, …}` (16-bit lanes).
    Lane-level transcription; `num` is a `uint32_t`. -/
def sseV06 (num : Nat) : Nat :=
  let div10k := kVec4xDiv10k.getD 0 0
  let k10k := kVec4x10k.getD 0 0
  -- v01 = _mm_mul_epu32(v00, kVec4xDiv10k) (64-bit lane 0) ; v02 = v01 >> 45
  let v01 := (num % 2 ^ 32) * div10k % 2 ^ 64
  let v02 := v01 / 2 ^ 45
  -- v03 = _mm_mul_epu32(v02, kVec4x10k) ; v04 = _mm_sub_epi32(v00, v03) (32-bit lane 0)
  let v03 := (v02 % 2 ^ 32) * k10k % 2 ^ 64
  let v04 := (num % 2 ^ 32 + 2 ^ 32 - v03 % 2 ^ 32) % 2 ^ 32
  -- v05 = _mm_unpacklo_epi16(v02, v04): 16-bit lanes {v02.0, v04.0, v02.1, v04.1}
  let v05 := lane16 v02 0 + 2 ^ 16 * lane16 v04 0 + 2 ^ 32 * lane16 v02 1 + 2 ^ 48 * lane16 v04 1
  -- v06 = _mm_slli_epi64(v05, 2)
  v05 * 4 % 2 ^ 64

/-- lanes of `v10 = mulhi(mulhi(v08, kVecDivPowers), kVecShiftPowers)` where
    `v08 = {w0,w0,w0,w0,w1,w1,w1,w1}` (two unpacks of `v06`) -/
def sseV10 (num : Nat) : List Nat :=
  let v06 := sseV06 num
  (List.range 8).map fun i =>
    mulhi16 (mulhi16 (lane16 v06 (i / 4)) (kVecDivPowers.getD i 0)) (kVecShiftPowers.getD i 0)

/-- `UtoaSSE(num)`: the eight 16-bit lanes `{a,b,c,d,e,f,g,h}` of the result vector:
    `v11 = mullo(v10, kVec8x10)`, `v12 = _mm_slli_epi64(v11, 16)` (lane i takes lane i-1 inside each
    64-bit half), `v13 = _mm_sub_epi16(v10, v12)`. -/
def utoaSSE (num : Nat) : List Nat :=
  let v10 := sseV10 num
  (List.range 8).map fun i =>
    let v12 := if i % 4 = 0 then 0 else (v10.getD (i - 1) 0) * (kVec8x10.getD (i - 1) 0) % 2 ^ 16
    (v10.getD i 0 + 2 ^ 16 - v12) % 2 ^ 16

/-- `_mm_packus_epi16` on one lane (unsigned saturation of a signed 16-bit value) -/
def packus (x : Nat) : Nat := if x ≥ 2 ^ 15 then 0 else if x > 255 then 255 else x

/-- store a list of bytes at `pos` -/
def wrList (b : Buf) (pos : Nat) : List Nat → Buf
  | [] => b
  | x :: xs => wrList (wr b pos x) (pos + 1) xs

/-- `Utoa_8(val, out)`: 16-byte store (8 digits + 8 bytes of '0'), returns `out + 8` -/
def utoa_8 (b : Buf) (out val : Nat) : Res :=
  let v0 := utoaSSE val
  let v2 := v0.map packus ++ List.replicate 8 0
  let v3 := (List.range 16).map fun i => (v2.getD i 0 + kVec16xAsc0.getD i 0) % 256
  ⟨wrList b out v3, out + 8, out + 16⟩

/-- `Utoa_16(val, out)` -/
def utoa_16 (b : Buf) (out val : Nat) : Res :=
  let v0 := utoaSSE (val / 100000000 % 2 ^ 32)
  let v1 := utoaSSE (val % 100000000 % 2 ^ 32)
  let v2 := v0.map packus ++ v1.map packus
  let v3 := (List.range 16).map fun i => (v2.getD i 0 + kVec16xAsc0.getD i 0) % 256
  ⟨wrList b out v3, out + 16, out + 16⟩

/-- `U64toa_17_20(out, val)` -/
def u64toa_17_20 (b : Buf) (out val : Nat) : Res :=
  let lo := val % 10000000000000000
  let hi := val / 10000000000000000 % 2 ^ 32
  if hi < 100 then
    let lz := b2n (hi < 10)
    let b := copy2 b out (hi * 2 + lz)
    let r := utoa_16 b (out + 2 - lz) lo
    { r with ext := max r.ext (out + 2) }
  else if hi < 10000 then
    let aa := hi / 100; let bb := hi % 100
    let lz := b2n (aa < 10)
    let b := copy2 b out (aa * 2 + lz)
    let b := copy2 b (out + 2 - lz) (bb * 2)
    utoa_16 b (out + 4 - lz) lo
  else utoa_16 b out lo

/-- `U64toa(out, val)`, `val < 2^64` -/
def u64toa (b : Buf) (out val : Nat) : Res :=
  if val < 100000000 then utoa_1_8 b out (val % 2 ^ 32)
  else if val < 10000000000000000 then
    let hi := val / 100000000 % 2 ^ 32
    let lo := val % 100000000 % 2 ^ 32
    let r := utoa_1_8 b out hi
    let r2 := utoa_8 r.buf r.out lo
    { r2 with ext := max r.ext r2.ext }
  else u64toa_17_20 b out val

/-- `I64toa(buf, val)`; `val` is the two's-complement bit pattern (`0 ≤ val < 2^64`) -/
def i64toa (b : Buf) (out val : Nat) : Res :=
  let neg := b2n (val ≥ 2 ^ 63)
  let b := wr b out 45
  let r := u64toa b (out + neg) (if val ≥ 2 ^ 63 then (2 ^ 64 - val) % 2 ^ 64 else val)
  { r with ext := max r.ext (out + 1) }

/-- the bytes `[from, to)` of a buffer -/
def slice (b : Buf) (lo hi : Nat) : List Nat := (List.range' lo (hi - lo)).map b

def zeroBuf : Buf := fun _ => 0

/-- what the caller sees: the bytes between the pointer passed in and the pointer returned -/
def u64toaBytes (val : Nat) : List Nat := let r := u64toa zeroBuf 0 val; slice r.buf 0 r.out
def i64toaBytes (val : Nat) : List Nat := let r := i64toa zeroBuf 0 val; slice r.buf 0 r.out

end Sonic.Model.Itoa
