import Sonic.Model.OnDemand
import Sonic.Model.Parse

/-!
# Model of `GenericDocument::ParseOnDemand(json, len, path)` (`dom/generic_document.h`)

```
destroyDom();
parse_result_ = GetOnDemand(StringView(json, len), path, target);   // parseOnDemandImpl
if (HasParseError()) return *this;
return parseImpl<parseFlags>(target.data(), target.size());
```
i.e. `Sonic.Model.OnDemand.getOnDemand` followed — on success — by the full parser `Sonic.Model.Parse.parseDoc` on the
target slice `[start, stop)`, which `parseImpl` copies into its own `size + 64` byte buffer (`allocateStringBuffer`:
slice, `x"x`, 61 uninitialised bytes) and parses like any text.  (`parseDoc` begins with `destroyDom`, which is what
`ParseOnDemand` does before `GetOnDemand`; `GetOnDemand` does not touch the document.)  When `GetOnDemand` fails the
document stays destroyed (null) and reports that error and offset.

`raw n` is the content of the memory that `realloc` hands out for a node stack of `n` slots (the capacity depends on
the length of the slice, which is only known after the lookup).
-/
namespace Sonic.Model.OnDemand
open Sonic.Spec.Pointer
open Sonic.Model.Parse (Doc Result Node parseDoc setUpCap)

/-- undefined behaviour detected by the checked models of the two phases -/
inductive PodFault where
  | lookup (f : Fault)
  | parse (f : Sonic.Model.Parse.Fault)
  deriving DecidableEq, Repr

/-- the target slice `StringView(data + start, stop - start)` -/
def sliceOf (data : List Nat) (start stop : Nat) : List Nat := (data.drop start).take (stop - start)

/-- `Document::ParseOnDemand(data, len, path)` -/
def parseOnDemand (W : Nat) (junk : Nat → Nat → Nat) (pad : List Nat) (raw : Nat → List (Option Node)) (d : Doc)
    (data : List Nat) (path : List Step) : Except PodFault Result :=
  match getOnDemand W data junk path with
  | .error f => .error (.lookup f)
  | .ok (.err code off _) => .ok { err := code, off := off, doc := d.destroyDom }
  | .ok (.ok start stop _) =>
    match parseDoc W pad (raw (setUpCap (sliceOf data start stop).length)) d (sliceOf data start stop) with
    | .error f => .error (.parse f)
    | .ok r => .ok r

/-! ## line protocol (`/verif/protocol/ondemand.md`, `pod`) -/

private def hexDigitVal (c : Char) : Option Nat :=
  if '0' ≤ c ∧ c ≤ '9' then some (c.toNat - 48)
  else if 'a' ≤ c ∧ c ≤ 'f' then some (c.toNat - 87)
  else if 'A' ≤ c ∧ c ≤ 'F' then some (c.toNat - 55)
  else none

private def unhexGo : List Char → List Nat → Option (List Nat)
  | [], acc => some acc.reverse
  | [_], _ => none
  | a :: b :: rest, acc =>
    match hexDigitVal a, hexDigitVal b with
    | some x, some y => unhexGo rest ((x * 16 + y) :: acc)
    | _, _ => none

private def unhex (s : String) : Option (List Nat) :=
  if s == "-" then some [] else unhexGo s.toList []

/-- what the harness prints for `pod`: `ok tree=<tree>` | `err=<code>` -/
def podStr : Except PodFault Result → String
  | .error _ => "fault"
  | .ok r =>
    if r.err = 0 then "ok tree=" ++ (match r.doc.value with | some v => v.show | none => "?tree")
    else s!"err={r.err}"

/-- `pod <hex json> <step>…`: the composed model line, followed by `spec=` -/
def runPodLine (W : Nat) (toks : List String) : String :=
  match toks with
  | "pod" :: hexS :: steps =>
    match unhex hexS, steps.mapM parseStep with
    | some d, some path =>
      if 0 < W ∧ W ≤ 63 ∧ d.all (· < 256) then
        let r := parseOnDemand W (fun _ _ => 0) Sonic.Model.Parse.runPad (fun n => List.replicate n none)
          Doc.fresh d path
        s!"{podStr r} {specStr d path}"
      else "bad-op"
    | _, _ => "bad-op"
  | _ => "bad-op"

end Sonic.Model.OnDemand
