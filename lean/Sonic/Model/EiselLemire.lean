import Sonic.Gen.Tables

/-!
# Model: `MulU64`, `LeadingZeroes`, `AtofEiselLemire64` (include/sonic/internal/atof_native.h)

Literal transcription with explicit 64-bit arithmetic on `Nat`:
`x << k` is `x * 2^k % 2^64`, `x >> k` is `x / 2^k`, `x & (2^k-1)` is `x % 2^k`, `a + b` is `(a + b) % 2^64`.
C `int` values are `Int`; `(uint64_t)intval` is `toU64`.  The arithmetic right shift of the (possibly negative)
`int` `217706 * exp10` is `Int.shiftRight` (floor division by `2^16`), as gcc/clang implement it.
-/
namespace Sonic.Model.EiselLemire

def U64 : Nat := 2 ^ 64

/-- `(uint64_t) x` for a C integer `x` -/
def toU64 (x : Int) : Nat := (x % (2 ^ 64 : Int)).toNat

/-- `__builtin_clzll` on a non-zero 64-bit value.  For `0` the builtin is undefined (`lzcnt` answers 64, which
    is what we return; no caller passes 0: `parseNumber` returns at `man == 0` before any conversion). -/
def clz64 (x : Nat) : Nat := if x = 0 then 64 else 63 - Nat.log2 x

/-- `MulU64`: the 128-bit product as `(hi, lo)` -/
def mulU64 (x y : Nat) : Nat × Nat := ((x * y) / 2 ^ 64 % 2 ^ 64, (x * y) % 2 ^ 64)

/-- row `i` of `kPow10M128Tab` as `(lo, hi)`; callers establish `i < 696` -/
def pow10M128 (i : Nat) : Nat × Nat := Sonic.Gen.kPow10M128Tab.getD i (0, 0)

/-- `AtofEiselLemire64(mant, exp10, sgn, &val)`: `some bits` when it returns true.  `neg` is `sgn == -1`. -/
def atofEiselLemire64 (mant0 : Nat) (exp10 : Int) (neg : Bool) : Option Nat :=
  if exp10 < -348 ∨ exp10 > 347 then none
  else
    let clz := clz64 mant0
    let mant := mant0 * 2 ^ clz % 2 ^ 64
    -- ((uint64_t)((217706 * exp10) >> 16) + 64 + 1023) - ((uint64_t)clz)
    let retExp2 := (toU64 ((217706 * exp10) >>> 16) + 64 + 1023 + (2 ^ 64 - clz)) % 2 ^ 64
    let row := pow10M128 (exp10 + 348).toNat
    let (xHi, xLo) := mulU64 mant row.2
    let (xHi, xLo, ambiguous) :=
      if xHi % 512 = 511 ∧ (xLo + mant) % 2 ^ 64 < mant then
        let (yHi, yLo) := mulU64 mant row.1
        let mergedHi := xHi
        let mergedLo := (xLo + yHi) % 2 ^ 64
        let mergedHi := if mergedLo < xLo then (mergedHi + 1) % 2 ^ 64 else mergedHi
        if mergedHi % 512 = 511 ∧ (mergedLo + 1) % 2 ^ 64 = 0 ∧ (yLo + mant) % 2 ^ 64 < mant then
          (mergedHi, mergedLo, true)
        else (mergedHi, mergedLo, false)
      else (xHi, xLo, false)
    if ambiguous then none
    else
      let msb := xHi / 2 ^ 63
      let retMan := xHi / 2 ^ (msb + 9)
      -- ret_exp2 -= 1 ^ msb
      let retExp2 := (retExp2 + (2 ^ 64 - (1 ^^^ msb))) % 2 ^ 64
      if xLo = 0 ∧ xHi % 512 = 0 ∧ retMan % 4 = 1 then none
      else
        let retMan := (retMan + retMan % 2) % 2 ^ 64
        let retMan := retMan / 2
        let (retMan, retExp2) :=
          if retMan / 2 ^ 53 > 0 then (retMan / 2, (retExp2 + 1) % 2 ^ 64) else (retMan, retExp2)
        -- (ret_exp2 - 1) >= (0x7FF - 1)
        if (retExp2 + (2 ^ 64 - 1)) % 2 ^ 64 ≥ 0x7FF - 1 then none
        else
          let bits := (retExp2 * 2 ^ 52 % 2 ^ 64) ||| (retMan % 2 ^ 52)
          some (if neg then bits ||| 2 ^ 63 else bits)

end Sonic.Model.EiselLemire
