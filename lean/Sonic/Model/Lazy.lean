import Sonic.Gen.Tables
import Sonic.Model.OnDemand
import Sonic.Model.StringDec
import Sonic.Spec.Json
import Sonic.Spec.Quote
import Sonic.Spec.Merge

/-!
# Model of `UpdateLazy` (`experiment/lazy_update.h`): `Parser::parseLazyImpl` (`dom/parser.h`) with
# `LazySAXHandler` (`dom/handler.h`), `UpdateNodeLazy`, and the serialisation of the lazy tree (`dom/serialize.h`)

A literal transcription on byte strings, parametric in the vector width `W`, built on the skipping primitives of
`Sonic.Model.OnDemand` (`skipSpaceSafe`, `skipString`, `skipOne`; same fault discipline: every load is checked
against the `len` of the text being scanned, there is no padding).

* `LNode` is what a `DNode` of the lazy tree denotes: `raw bs` (`kRaw`: pointer + length into one of the two input
  texts — the texts are never written, so the bytes are copied out when the node is made; a slice that is not inside
  the text is the fault `.oob` already there), `obj` (members with *decoded* key bytes, in stored order), `arr`.
* `parseLazy` is one call of `internal::ParseLazy` (a fresh `Parser`, hence a fresh `SkipScanner` cache; the cache is
  threaded through every `SkipSpaceSafe`, including the one inside `SkipOne`: `skipOneC`).  A key for which
  `SkipString` reports an escape (`2`) is decoded by `parseStringInplace` (`Sonic.Model.StringDec.run`) on the private
  copy `Malloc(sn + 32)` whose first `sn + 1` bytes are the raw key **with its closing quote**; the other 31 bytes are
  arbitrary (`junk`, a parameter).  A fault of the decoder is the fault `.kbuf`.
* `updateNode` is `UpdateNodeLazy`: re-parse of a raw `{…` slice on either side (the second `ParseLazy` overwrites
  `ret`, literally), the test `!target.IsObject() || !source.IsObject() || target.Empty()`, then for every source
  member `FindMember` (the `std::multimap` built by `CreateMap` and maintained by `AddMember`: with libstdc++ `find`
  returns the first inserted of equal keys = the first member of that name), `AddMember` (append) or recursion.
  The recursion is fuelled (`.fuel` = not terminated); every level descends into a member value of the source.
* `serialize`: raw slices are copied verbatim, keys are re-quoted (`internal::Quote`, by C09 equal to `Spec.quote`),
  `{` `:` `,` `}` `[` `]` without whitespace.  A lazy tree holds no number, string-valued or non-string-key node, so
  `SerializeImpl` has no error exit on it (`type_err`, `inf_err`, `key_err` need such nodes).
* `updateLazy` adds the fallbacks: source unparsable → the target text (or `{}` if that is unparsable too); target
  unparsable → the source text; a merge error → `{}`.
-/
namespace Sonic.Model.Lazy
open Sonic.Gen Sonic.Model.OnDemand

inductive LNode where
  | raw (bs : List Nat)
  | arr (xs : List LNode)
  | obj (kvs : List (List Nat × LNode))
  deriving Repr, Inhabited

abbrev LMembers := List (List Nat × LNode)

/-- `ParseResult` of `ParseLazy` (the offset is not used by `UpdateLazy`) together with the node -/
inductive PR where
  | ok (n : LNode)
  | err (code : Nat)
  deriving Repr, Inhabited

/-- `SkipScanner::SkipOne`, also returning the scanner's cache after its `SkipSpaceSafe` -/
def skipOneC (W : Nat) (d : List Nat) (cache : Cache) (pos : Nat) : M (Res × Cache) := do
  let (_, _, cache') ← skipSpaceSafe d cache pos
  let r ← skipOne W d cache pos
  pure (r, cache')

/-- `sax.Raw(data + start, pos - start)` -/
def rawOf (d : List Nat) (start pos : Nat) : M LNode :=
  if pos < start then .error .ub else do
    let bs ← rdVec d start (pos - start)
    pure (.raw bs)

/-- the key at `src` (just after the opening quote), `pos` just after the closing quote, `skips` = result of
    `SkipString`: `.inl code` = `return err`, `.inr key` -/
def lazyKey (W : Nat) (d : List Nat) (junk : Nat → Nat → Nat) (skips src pos : Nat) : M (Nat ⊕ List Nat) :=
  if pos < src + 1 then .error .ub else
  let sn := pos - 1 - src
  if skips == 2 then do
    let rawk ← rdVec d src (sn + 1)                        -- `memcpy(dst, src, sn + 1)`
    match Sonic.Model.StringDec.run W (mkKbuf rawk (junk src)) 0 with
    | .error _ => .error .kbuf
    | .ok (.err code) => pure (.inl code)
    | .ok (.ok n _ b) => if n ≤ b.length then pure (.inr (b.take n)) else .error .kbuf
  else do
    let rawk ← rdVec d src sn
    pure (.inr rawk)

/-- label `obj_key` of `parseLazyImpl`; `c` = the byte just read, `acc` = members so far (reversed) -/
def lazyMembers (W : Nat) (d : List Nat) (junk : Nat → Nat → Nat) :
    Nat → Cache → Nat → Nat → LMembers → M PR
  | 0, _, _, _, _ => .error .fuel
  | f + 1, cache, c, pos, acc =>
    if c != 0x22 then pure (.err kParseErrorInvalidChar) else do
    let src := pos
    let (skips, pos) ← skipString W d pos
    if skips == 0 then pure (.err kParseErrorInvalidChar) else
    match ← lazyKey W d junk skips src pos with
    | .inl code => pure (.err code)
    | .inr key =>
      let (c, pos, cache) ← skipSpaceSafe d cache pos
      if c != 0x3A then pure (.err kParseErrorInvalidChar) else
      let (r, cache) ← skipOneC W d cache pos
      match r with
      | .err code _ => pure (.err code)
      | .ok start pos =>
        let v ← rawOf d start pos
        let acc := (key, v) :: acc
        let (c, pos, cache) ← skipSpaceSafe d cache pos
        if c == 0x2C then do
          let (c, pos, cache) ← skipSpaceSafe d cache pos
          lazyMembers W d junk f cache c pos acc
        else if c != 0x7D then pure (.err kParseErrorInvalidChar)
        else pure (.ok (.obj acc.reverse))

/-- label `arr_val` of `parseLazyImpl` -/
def lazyElems (W : Nat) (d : List Nat) : Nat → Cache → Nat → List LNode → M PR
  | 0, _, _, _ => .error .fuel
  | f + 1, cache, pos, acc => do
    let (r, cache) ← skipOneC W d cache pos
    match r with
    | .err code _ => pure (.err code)
    | .ok start pos =>
      let v ← rawOf d start pos
      let acc := v :: acc
      let (c, pos, cache) ← skipSpaceSafe d cache pos
      if c == 0x2C then lazyElems W d f cache pos acc
      else if c != 0x5D then pure (.err kParseErrorInvalidChar)
      else pure (.ok (.arr acc.reverse))

/-- `internal::ParseLazy(node, json, alloc)`: one level -/
def parseLazy (W : Nat) (junk : Nat → Nat → Nat) (d : List Nat) : M PR := do
  let (c, pos, cache) ← skipSpaceSafe d Cache.init 0
  if c == 0x5B then
    let (c, pos, cache) ← skipSpaceSafe d cache pos
    if c == 0x5D then pure (.ok (.arr []))
    else lazyElems W d (d.length + 2) cache (decPos pos) []
  else if c == 0x7B then
    let (c, pos, cache) ← skipSpaceSafe d cache pos
    if c == 0x7D then pure (.ok (.obj []))
    else lazyMembers W d junk (d.length + 2) cache c pos []
  else
    let (r, _) ← skipOneC W d cache (decPos pos)
    match r with
    | .err code _ => pure (.err code)
    | .ok start pos =>
      let v ← rawOf d start pos
      pure (.ok v)

/-- `FindMember` on the lazy object: index of the first member named `k` -/
def findIdx (k : List Nat) : LMembers → Option Nat
  | [] => none
  | (k', _) :: rest => if k' = k then some 0 else (findIdx k rest).map (· + 1)

/-- `if (n.IsRaw() && *n.GetRaw().data() == '{') ret = ParseLazy(n, n.GetRaw(), alloc);` — `(node, ret)` -/
def reparse (W : Nat) (junk : Nat → Nat → Nat) (n : LNode) (ret : Nat) : M (LNode × Nat) :=
  match n with
  | .raw bs =>
    match bs with
    | [] => .error .oob
    | c :: _ =>
      if c == 0x7B then do
        match ← parseLazy W junk bs with
        | .ok n' => pure (n', 0)
        | .err code => pure (n, code)
      else pure (n, ret)
  | _ => pure (n, ret)

/-- the loop over the source members, `upd` = the recursive `UpdateNodeLazy`: `.inl err` or the target members -/
def mergeMembers (upd : LNode → LNode → M (Nat ⊕ LNode)) : LMembers → LMembers → M (Nat ⊕ LMembers)
  | tkvs, [] => pure (.inr tkvs)
  | tkvs, (k, v) :: rest =>
    match findIdx k tkvs with
    | none => mergeMembers upd (tkvs ++ [(k, v)]) rest                    -- `AddMember`
    | some i =>
      match tkvs[i]? with
      | none => .error .oob
      | some (k', tv) => do
        match ← upd tv v with
        | .inl err => pure (.inl err)
        | .inr tv' => mergeMembers upd (tkvs.set i (k', tv')) rest

/-- `UpdateNodeLazy(target, source, alloc)`: `.inl err` or the new target -/
def updateNode (W : Nat) (junk : Nat → Nat → Nat) : Nat → LNode → LNode → M (Nat ⊕ LNode)
  | 0, _, _ => .error .fuel
  | f + 1, target, source => do
    let (target, ret) ← reparse W junk target 0
    let (source, ret) ← reparse W junk source ret
    if ret != 0 then pure (.inl ret) else
    match target, source with
    | .obj (m :: ms), .obj skvs => do
      match ← mergeMembers (updateNode W junk f) (m :: ms) skvs with
      | .inl err => pure (.inl err)
      | .inr kvs => pure (.inr (.obj kvs))
    | _, _ => pure (.inr source)                                         -- `target = std::move(source)`

mutual
/-- `Serialize` of a lazy tree -/
def serialize : LNode → List Nat
  | .raw bs => bs
  | .arr xs => 0x5B :: serElems xs ++ [0x5D]
  | .obj kvs => 0x7B :: serMembers kvs ++ [0x7D]
def serElems : List LNode → List Nat
  | [] => []
  | [x] => serialize x
  | x :: y :: xs => serialize x ++ 0x2C :: serElems (y :: xs)
def serMembers : LMembers → List Nat
  | [] => []
  | [(k, v)] => Sonic.Spec.quote k ++ 0x3A :: serialize v
  | (k, v) :: m :: ms => Sonic.Spec.quote k ++ 0x3A :: serialize v ++ 0x2C :: serMembers (m :: ms)
end

/-- `UpdateLazy(target, source)` -/
def updateLazy (W : Nat) (junk : Nat → Nat → Nat) (target source : List Nat) : M (List Nat) := do
  let r1 ← parseLazy W junk target
  let r2 ← parseLazy W junk source
  match r2, r1 with
  | .err _, .err _ => pure [0x7B, 0x7D]
  | .err _, .ok _ => pure target
  | .ok _, .err _ => pure source
  | .ok ns, .ok nt =>
    match ← updateNode W junk (2 * source.length + 3) nt ns with
    | .inl _ => pure [0x7B, 0x7D]
    | .inr n => pure (serialize n)

/-! ## line protocol (`/verif/protocol/merge.md`) -/

private def hexDigitVal (c : Char) : Option Nat :=
  if '0' ≤ c ∧ c ≤ '9' then some (c.toNat - 48)
  else if 'a' ≤ c ∧ c ≤ 'f' then some (c.toNat - 87)
  else if 'A' ≤ c ∧ c ≤ 'F' then some (c.toNat - 55)
  else none

private def unhexGo : List Char → List Nat → Option (List Nat)
  | [], acc => some acc.reverse
  | [_], _ => none
  | a :: b :: rest, acc =>
    match hexDigitVal a, hexDigitVal b with
    | some x, some y => unhexGo rest ((x * 16 + y) :: acc)
    | _, _ => none

def unhex (s : String) : Option (List Nat) :=
  if s == "-" then some [] else unhexGo s.toList []

def reparseStr (bs : List Nat) : String :=
  match Sonic.Spec.Json.parse bs with
  | .ok v => "ok:" ++ v.show
  | .error .malformed => "malformed"
  | .error .infinity => "infinity"

/-- `lazy <hex target> <hex source>` -/
def runLine (W : Nat) (toks : List String) : String :=
  match toks with
  | ["lazy", hexT, hexS] =>
    match unhex hexT, unhex hexS with
    | some tt, some st =>
      if W = 0 then "bad-op" else
      let spec := match Sonic.Spec.Json.parse tt, Sonic.Spec.Json.parse st with
        | .ok t, .ok s => (Sonic.Spec.Merge.update t s).show
        | _, _ => "invalid-input"
      match updateLazy W (fun _ _ => 0) tt st with
      | .error _ => s!"out=fault spec={spec} reparse=?"
      | .ok out => s!"out={Sonic.Spec.hexStr out} spec={spec} reparse={reparseStr out}"
    | _, _ => "bad-op"
  | _ => "bad-op"

end Sonic.Model.Lazy
