import Sonic.Model.Dom

/-!
# Footprint model for the concurrency property C17 (`/verif/protocol/threads.md`)

This file is about **footprints**: which abstract memory locations an API call reads and writes.
Lean cannot observe the accesses of the compiled code; the tables below were written by reading the
C++ (`dom/genericnode.h`, `dom/dynamicnode.h`, `dom/serialize.h`, `writebuffer.h`) and are validated
*separately* by ThreadSanitizer runs of `thr-ro` / `thr-own` / `thr-pool` (a footprint that forgets a
write shows up there as a reported race).  Everything proved from this file is a theorem about this
model.

## Locations
A document is a tree of 16-byte `DNode`s.  A node is addressed by its **slot path** from the root:
the children array of an array node has element `i` in slot `i`; the children array of an object node
has the *name* node of member `i` in slot `2i` and its *value* node in slot `2i+1` (this is the physical
layout, `MemberNode = {name, value}`).
* `docNode d p`      – the node itself (type/length word, payload or children pointer)
* `docStorage d p k` – out-of-line storage hanging off node `p`: `meta` = the `MetaNode` in front of the
  children array (capacity, map pointer), `map` = the `std::multimap` index of an object and all its tree
  nodes, `bytes` = the characters of a string node
* `docAll d`         – coarse location: the `Document` object of `d` (allocator pointer, parse result,
  string buffer) **and** every `docNode d _` / `docStorage d _ _`; used for the footprints of mutating ops
* `staticNull`       – the function-local `static DNode tmp` of `DNode::findValueImpl(StringView)`,
  one object shared by all threads and all documents of the process
* `constData`        – the library's constant tables (never written)
* `extInput i`       – a caller-owned input text
* `wbuf b`           – the `WriteBuffer` number `b` (its control block and its bytes)
* `poolState a`      – `SharedData`, chunk headers, `cp_`, `baseAllocator_` of pool allocator `a`
* `block a id`       – the bytes of block `id` handed out by pool `a`
* `poolAll a`        – coarse: `poolState a` and every `block a _`
* `threadLocal t`    – stack, registers and private heap temporaries of thread `t` (results of getters,
  iterators, the serializer's `internal::Stack`, checksums …)

Two locations *overlap* if they are equal or one is a coarse location covering the other.
Atomic objects (`SpinLock::lock_`, the guard of the function-local static) are not locations: atomic
operations never take part in a data race ([intro.races]).
-/

namespace Sonic.Model.Access
open Sonic.Spec.Containers (Key PStep)
open Sonic.Model.Dom (Node Member ObjMeta Own mkey mval findMemberSV)

abbrev ThreadId := Nat
abbrev DocId := Nat
abbrev PoolId := Nat
abbrev BufId := Nat
/-- physical slot path from the root node -/
abbrev SlotPath := List Nat

inductive Store
  | hdr | map | bytes
  deriving DecidableEq, Repr

inductive Loc
  | docNode (d : DocId) (p : SlotPath)
  | docStorage (d : DocId) (p : SlotPath) (k : Store)
  | docAll (d : DocId)
  | staticNull
  | constData
  | extInput (i : Nat)
  | wbuf (b : BufId)
  | poolState (a : PoolId)
  | block (a : PoolId) (id : Nat)
  | poolAll (a : PoolId)
  | threadLocal (t : ThreadId)
  deriving DecidableEq, Repr

/-- the coarse location covering a fine one (identity on everything else) -/
def Loc.coarse : Loc → Loc
  | .docNode d _ => .docAll d
  | .docStorage d _ _ => .docAll d
  | .poolState a => .poolAll a
  | .block a _ => .poolAll a
  | l => l

/-- same location, or one covers the other -/
def Loc.overlaps (x y : Loc) : Bool := x == y || x == y.coarse || y == x.coarse

structure Access where
  loc : Loc
  isWrite : Bool
  deriving DecidableEq, Repr

def rd (l : Loc) : Access := ⟨l, false⟩
def wr (l : Loc) : Access := ⟨l, true⟩

/-- two accesses conflict: overlapping locations, at least one of them a write -/
def Conflict (a b : Access) : Prop := a.loc.overlaps b.loc = true ∧ (a.isWrite = true ∨ b.isWrite = true)

instance (a b : Access) : Decidable (Conflict a b) := by unfold Conflict; infer_instance

/-- an access performed by a thread -/
structure Event where
  tid : ThreadId
  acc : Access
  deriving DecidableEq, Repr

/-- No two accesses of *different* threads conflict.  This is used for scenarios in which the threads do
    not synchronise with each other at all between start and join, so that every pair of accesses of
    different threads is unordered by happens-before: a conflicting pair *is* a data race, and the absence
    of conflicting pairs is race freedom.  (It does not depend on the order of the events.) -/
def RaceFree (tr : List Event) : Prop :=
  ∀ e1 ∈ tr, ∀ e2 ∈ tr, e1.tid ≠ e2.tid → ¬ Conflict e1.acc e2.acc

instance (tr : List Event) : Decidable (RaceFree tr) := by unfold RaceFree; infer_instance

/-! ## documents -/

structure Doc where
  id : DocId
  root : Node

/-- the node in slot `i` of a container (the name of an object member is a string node) -/
def slot : Node → Nat → Option Node
  | .arr _ es, i => es[i]?
  | .obj _ ms, i => (ms[i / 2]?).map fun m => if i % 2 = 0 then Node.str m.1 m.2.1 else m.2.2
  | _, _ => none

def nodeAt : Node → SlotPath → Option Node
  | n, [] => some n
  | n, i :: p => (slot n i).bind fun c => nodeAt c p

/-! ## the read-only vocabulary -/

/-- A read-only API call on the node at slot path `p` of the shared document (a reference the thread
    obtained by earlier lookups; if there is no such node the call is not made: empty footprint).
    Every call also writes its result into thread-local storage. -/
inductive ReadOp
  /-- `IsNull/IsBool/IsNumber/IsString/IsArray/IsObject/IsContainer/GetType/…` -/
  | typeTest (p : SlotPath)
  /-- `GetBool/GetInt64/GetUint64/GetDouble/GetStringView/GetString` (the caller reads the characters) -/
  | getter (p : SlotPath)
  /-- `Size/Empty` -/
  | size (p : SlotPath)
  /-- `Capacity` -/
  | capacity (p : SlotPath)
  /-- full recursive iteration (`Begin/End`, `MemberBegin/MemberEnd`) with type tests and getters on every
      node below `p` (the harness' `walk`) -/
  | iterate (p : SlotPath)
  /-- `FindMember(key)`: through the multimap when the object has one, else the linear scan -/
  | findMember (p : SlotPath) (key : Key)
  /-- `HasMember(key)` = `FindMember(key) != MemberEnd()` -/
  | hasMember (p : SlotPath) (key : Key)
  /-- `operator[](StringView key)`, key present or missing -/
  | index (p : SlotPath) (key : Key)
  /-- `operator[](size_t)` -/
  | indexNum (p : SlotPath) (i : Nat)
  /-- `AtPointer(pointer)` -/
  | atPointer (p : SlotPath) (ptr : List PStep)
  /-- `Serialize(wb)` into the calling thread's own `WriteBuffer` -/
  | serialize (p : SlotPath)
  /-- `operator==` between two nodes of the document -/
  | eq (p q : SlotPath)
  /-- `WriteBuffer::ToString()` on the calling thread's own buffer: appends a NUL (documented as not
      thread-safe; it only touches the caller's buffer) -/
  | bufToString
  deriving Repr

def fpGetter (d : DocId) (p : SlotPath) : Node → List Access
  | .str _ _ => [rd (.docNode d p), rd (.docStorage d p .bytes)]
  | _ => [rd (.docNode d p)]

/-- linear scan of `findMemberImpl`: `it->name.GetStringView() == key` for member `i, i+1, …` until a hit -/
def fpScan (d : DocId) (p : SlotPath) (key : Key) : List Member → Nat → List Access
  | [], _ => []
  | m :: ms, i =>
    rd (.docNode d (p ++ [2 * i])) :: rd (.docStorage d (p ++ [2 * i]) .bytes) ::
      (if mkey m == key then [] else fpScan d p key ms (i + 1))

/-- the characters of the names of members `0 … n-1` (upper bound of what the multimap's key comparisons
    read: its keys are `StringView`s pointing at the name characters) -/
def fpNameBytes (d : DocId) (p : SlotPath) (n : Nat) : List Access :=
  (List.range n).map fun i => rd (.docStorage d (p ++ [2 * i]) .bytes)

/-- `findMemberImpl(StringView)`: `getMap()` reads the node (`children()`), then the `MetaNode`;
    `findFromMap` reads the map; else the scan -/
def fpFind (d : DocId) (p : SlotPath) (key : Key) (mt : Option ObjMeta) (ms : List Member) : List Access :=
  rd (.docNode d p) ::
    match mt with
    | none => []
    | some m =>
      rd (.docStorage d p .hdr) ::
        match m.map with
        | some _ => rd (.docStorage d p .map) :: fpNameBytes d p ms.length
        | none => fpScan d p key ms 0

/-- the `MetaNode` / map reads of a container (only counted by the `full` walk) -/
def fpMetaObj (d : DocId) (p : SlotPath) : Option ObjMeta → List Access
  | none => []
  | some m => rd (.docStorage d p .hdr) :: (if m.map.isSome then [rd (.docStorage d p .map)] else [])

mutual
/-- every node below (and including) `p`, with the characters of every string; `full` also reads every
    `MetaNode` and every map (upper bound for `operator==`, whose right-hand lookups use `FindMember`) -/
def fpWalk (d : DocId) (full : Bool) : SlotPath → Node → List Access
  | p, .str _ _ => [rd (.docNode d p), rd (.docStorage d p .bytes)]
  | p, .arr c es =>
    rd (.docNode d p) :: ((if full && c.isSome then [rd (.docStorage d p .hdr)] else []) ++
      fpWalkList d full p 0 es)
  | p, .obj mt ms =>
    rd (.docNode d p) :: ((if full then fpMetaObj d p mt else []) ++ fpWalkMems d full p 0 ms)
  | p, _ => [rd (.docNode d p)]
def fpWalkList (d : DocId) (full : Bool) : SlotPath → Nat → List Node → List Access
  | _, _, [] => []
  | p, i, x :: xs => fpWalk d full (p ++ [i]) x ++ fpWalkList d full p (i + 1) xs
def fpWalkMems (d : DocId) (full : Bool) : SlotPath → Nat → List (Own × Key × Node) → List Access
  | _, _, [] => []
  | p, i, (_, _, v) :: ms =>
    rd (.docNode d (p ++ [2 * i])) :: rd (.docStorage d (p ++ [2 * i]) .bytes) ::
      (fpWalk d full (p ++ [2 * i + 1]) v ++ fpWalkMems d full p (i + 1) ms)
end

/-- `atPointerImpl` -/
def fpAtPointer (d : DocId) : SlotPath → Node → List PStep → List Access
  | _, _, [] => []
  | p, .obj mt ms, .key k :: rest =>
    fpFind d p k mt ms ++
      match findMemberSV k mt ms with
      | some i =>
        match ms[i]? with
        | some m => fpAtPointer d (p ++ [2 * i + 1]) (mval m) rest
        | none => []
      | none => []
  | p, .arr _ es, .num n :: rest =>
    rd (.docNode d p) ::
      (if 0 ≤ n ∧ n < es.length then
        match es[n.toNat]? with
        | some e => fpAtPointer d (p ++ [n.toNat]) e rest
        | none => []
       else [])
  | p, _, _ :: _ => [rd (.docNode d p)]

/-- the part of `operator[](key)` after `findMemberImpl` missed: `if (!tmp.IsNull()) tmp.SetNull(); return tmp;`
    (`staticIsNull` = the current state of the fallback node) -/
def fpFallback (staticIsNull : Bool) : List Access :=
  rd .staticNull :: (if staticIsNull then [] else [wr .staticNull])

/-- footprint of a read-only call by thread `t` on document `d` when the fallback node's state is
    `staticIsNull`.  The thread's own `WriteBuffer` is buffer number `t`. -/
def footprintIn (staticIsNull : Bool) (op : ReadOp) (d : Doc) (t : ThreadId) : List Access :=
  wr (.threadLocal t) ::
  match op with
  | .typeTest p => match nodeAt d.root p with | some _ => [rd (.docNode d.id p)] | none => []
  | .getter p => match nodeAt d.root p with | some n => fpGetter d.id p n | none => []
  | .size p => match nodeAt d.root p with | some _ => [rd (.docNode d.id p)] | none => []
  | .capacity p =>
    match nodeAt d.root p with
    | some (.arr (some _) _) => [rd (.docNode d.id p), rd (.docStorage d.id p .hdr)]
    | some (.obj (some _) _) => [rd (.docNode d.id p), rd (.docStorage d.id p .hdr)]
    | some _ => [rd (.docNode d.id p)]
    | none => []
  | .iterate p => match nodeAt d.root p with | some n => fpWalk d.id false p n | none => []
  | .findMember p key | .hasMember p key =>
    match nodeAt d.root p with
    | some (.obj mt ms) => fpFind d.id p key mt ms
    | some _ => [rd (.docNode d.id p)]       -- `sonic_assert(IsObject())`
    | none => []
  | .index p key =>
    match nodeAt d.root p with
    | some (.obj mt ms) =>
      fpFind d.id p key mt ms ++
        (match findMemberSV key mt ms with
         | some _ => []
         | none => fpFallback staticIsNull)
    | some _ => [rd (.docNode d.id p)]
    | none => []
  | .indexNum p _ => match nodeAt d.root p with | some _ => [rd (.docNode d.id p)] | none => []
  | .atPointer p ptr => match nodeAt d.root p with | some n => fpAtPointer d.id p n ptr | none => []
  | .serialize p =>
    match nodeAt d.root p with
    | some n => fpWalk d.id false p n ++ [rd .constData, wr (.wbuf t)]
    | none => []
  | .eq p q =>
    match nodeAt d.root p, nodeAt d.root q with
    | some n, some m => fpWalk d.id true p n ++ fpWalk d.id true q m
    | _, _ => []
  | .bufToString => [wr (.wbuf t)]

/-- state of the fallback node after the call: a missing-key `operator[]` leaves it null (it resets it if
    some earlier *mutating* caller had written to it); no read-only call does anything else to it -/
def staticAfter (staticIsNull : Bool) (op : ReadOp) (d : Doc) : Bool :=
  match op with
  | .index p key =>
    match nodeAt d.root p with
    | some (.obj mt ms) =>
      (match findMemberSV key mt ms with
       | some _ => staticIsNull
       | none => true)
    | _ => staticIsNull
  | _ => staticIsNull

/-- The footprint of a read-only call in a process in which the fallback node is null (its initial
    state, `static DNode tmp{}`; kept by every read-only call: `staticAfter true op d = true`). -/
def footprint (op : ReadOp) (d : Doc) (t : ThreadId) : List Access := footprintIn true op d t

/-! ## scenario 1: any number of threads, read-only calls on one shared document -/

structure RoState where
  staticIsNull : Bool
  /-- the calls each thread still has to make -/
  progs : List (List ReadOp)

def RoState.init (progs : List (List ReadOp)) : RoState := ⟨true, progs⟩

/-- thread `t` makes its next call (no-op if it has none left / there is no such thread) -/
def roStep (d : Doc) (s : RoState) (t : ThreadId) : RoState × List Event :=
  match s.progs[t]? with
  | some (op :: rest) =>
    (⟨staticAfter s.staticIsNull op d, s.progs.set t rest⟩,
     (footprintIn s.staticIsNull op d t).map (Event.mk t))
  | _ => (s, [])

/-- all accesses made along a schedule (a sequence of thread numbers) -/
def roTrace (d : Doc) : RoState → List ThreadId → List Event
  | _, [] => []
  | s, t :: sched => (roStep d s t).2 ++ roTrace d (roStep d s t).1 sched

/-- the state after a schedule -/
def roRun (d : Doc) (s : RoState) (sched : List ThreadId) : RoState :=
  sched.foldl (fun s t => (roStep d s t).1) s

/-! ## scenario 2: every thread works on its own document, allocator and buffer -/

/-- What a thread may do with its own resources.  Footprints are coarse ("everything in my document /
    allocator / buffer"); the only locations outside the thread's own resources are the read-only
    `constData` / `extInput` and the process-wide fallback node `staticNull`. -/
inductive OwnOp
  /-- `Parse(text)` -/
  | parse (input : Nat)
  /-- any mutating call (`AddMember`, `PushBack`, `PopBack`, `RemoveMember`, `EraseMember`, `CreateMap`,
      `DestroyMap`, `Set…`, `CopyFrom`, `Swap`, `Clear`, `Reserve`, allocator use …) -/
  | mutate
  /-- any read-only call of `ReadOp` (including `Serialize` into the own buffer, `ToString`) -/
  | read
  /-- non-const `operator[](key)` with a missing key, result only read -/
  | indexMiss
  /-- destruction of the document and its allocator -/
  | destroy
  /-- **API misuse**: writing through the reference a missing-key `operator[]` returned (it refers to the
      process-wide fallback node).  Part of the vocabulary only to show that it must be excluded. -/
  | writeFallback
  deriving DecidableEq, Repr

/-- the resources of a worker thread -/
structure Res where
  doc : DocId
  pool : PoolId
  buf : BufId
  deriving DecidableEq, Repr

def ownFootprintIn (staticIsNull : Bool) (r : Res) (t : ThreadId) : OwnOp → List Access
  | .parse i =>
    [wr (.threadLocal t), rd (.extInput i), rd .constData, wr (.docAll r.doc), wr (.poolAll r.pool)]
  | .mutate => [wr (.threadLocal t), rd .constData, wr (.docAll r.doc), wr (.poolAll r.pool)]
  | .read => wr (.threadLocal t) :: rd .constData :: rd (.docAll r.doc) :: wr (.wbuf r.buf) ::
      fpFallback staticIsNull
  | .indexMiss => wr (.threadLocal t) :: rd (.docAll r.doc) :: fpFallback staticIsNull
  | .destroy => [wr (.threadLocal t), wr (.docAll r.doc), wr (.poolAll r.pool)]
  | .writeFallback => [wr (.threadLocal t), rd (.docAll r.doc), wr .staticNull]

def ownStaticAfter (staticIsNull : Bool) : OwnOp → Bool
  | .read => staticIsNull      -- a miss resets a non-null fallback node; a hit leaves it alone
  | .indexMiss => true
  | .writeFallback => false
  | _ => staticIsNull

structure Worker where
  res : Res
  prog : List OwnOp

structure OwnState where
  staticIsNull : Bool
  workers : List Worker

def OwnState.init (ws : List Worker) : OwnState := ⟨true, ws⟩

def ownStep (s : OwnState) (t : ThreadId) : OwnState × List Event :=
  match s.workers[t]? with
  | some ⟨r, op :: rest⟩ =>
    (⟨ownStaticAfter s.staticIsNull op, s.workers.set t ⟨r, rest⟩⟩,
     (ownFootprintIn s.staticIsNull r t op).map (Event.mk t))
  | _ => (s, [])

def ownTrace : OwnState → List ThreadId → List Event
  | _, [] => []
  | s, t :: sched => (ownStep s t).2 ++ ownTrace (ownStep s t).1 sched

/-! ## line protocol (`thr-ro`, `thr-own`, `thr-pool` of `/verif/protocol/threads.md`)

The footprint model has no checksums: a well-formed command is answered `ok`, anything else `bad-op`
(same well-formedness rules as the harness: `parse_u64`, `unhex`, `build_path`). -/

/-- `parse_u64`: 1 … 20 decimal digits, value `< 2^64` -/
def parseU64 (s : String) : Option Nat :=
  let cs := s.toList
  if cs.isEmpty ∨ cs.length > 20 then none
  else if cs.all Char.isDigit then
    let v := cs.foldl (fun a c => a * 10 + (c.toNat - 48)) 0
    if v < 2 ^ 64 then some v else none
  else none

def hexVal (c : Char) : Option Nat :=
  if '0' ≤ c ∧ c ≤ '9' then some (c.toNat - 48)
  else if 'a' ≤ c ∧ c ≤ 'f' then some (c.toNat - 87)
  else if 'A' ≤ c ∧ c ≤ 'F' then some (c.toNat - 55)
  else none

def hexPairs : List Char → Option (List Nat)
  | [] => some []
  | [_] => none
  | a :: b :: rest =>
    match hexVal a, hexVal b, hexPairs rest with
    | some x, some y, some r => some ((x * 16 + y) :: r)
    | _, _, _ => none

/-- `unhex`: `-` is the empty string; otherwise an even number of hex digits (possibly none) -/
def unhex (cs : List Char) : Option (List Nat) := if cs = ['-'] then some [] else hexPairs cs

/-- `strtol(s, &e, 10)` consumed the whole (non-empty, whitespace-free) string -/
def isDecInt (cs : List Char) : Bool :=
  let ds := match cs with
    | '-' :: r => r
    | '+' :: r => r
    | r => r
  !ds.isEmpty && ds.all Char.isDigit

def splitOn (sep : Char) : List Char → List (List Char)
  | [] => [[]]
  | c :: cs =>
    match splitOn sep cs with
    | [] => [[]]            -- unreachable
    | w :: ws => if c = sep then [] :: w :: ws else (c :: w) :: ws

/-- one JSON-pointer step of `at:` (`build_path`): at least 2 characters, `k<hex>` or `n<int>` -/
def stepOk (cs : List Char) : Bool :=
  match cs with
  | 'k' :: r => !r.isEmpty && (unhex r).isSome
  | 'n' :: r => !r.isEmpty && isDecInt r
  | _ => false

/-- an op token of `thr-ro` -/
def roOpOk (s : String) : Bool :=
  let cs := s.toList
  if s == "iter" || s == "ser" || s == "eq" then true
  else if cs.take 5 == "find:".toList then (unhex (cs.drop 5)).isSome
  else if cs.take 4 == "idx:".toList then (unhex (cs.drop 4)).isSome
  else if cs.take 3 == "at:".toList then
    -- the harness splits at '/', drops empty pieces, and checks every remaining piece
    ((splitOn '/' (cs.drop 3)).filter (fun w => !w.isEmpty)).all stepOk
  else false

def countsOk (nt n : String) : Bool :=
  match parseU64 nt, parseU64 n with
  | some a, some b => decide (1 ≤ a ∧ a ≤ 32 ∧ b ≤ 100000)
  | _, _ => false

def runLine (toks : List String) : String :=
  match toks with
  | "thr-ro" :: nt :: iters :: hx :: op :: ops =>
    if countsOk nt iters && (unhex hx.toList).isSome && (op :: ops).all roOpOk then "ok" else "bad-op"
  | ["thr-own", nt, iters, hx] =>
    if countsOk nt iters && (unhex hx.toList).isSome then "ok" else "bad-op"
  | ["thr-pool", nt, nops, seed] =>
    if countsOk nt nops && (parseU64 seed).isSome then "ok" else "bad-op"
  | _ => "bad-op"

end Sonic.Model.Access
