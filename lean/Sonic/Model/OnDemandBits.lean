/-!
# Lane-wise meaning of the SIMD / bit primitives used by the on-demand scanner

A *mask* (`to_bitmask()` of a vector compare, or any `uint64_t`/`uint32_t` derived from one) is represented by its
lanes, least significant first: lane `i` of the list is bit `i` of the integer (`Mask.toNat` gives the integer).
Every C++ bit expression of `skip.inc.h` is transcribed with the lane operations below; each is the per-lane
meaning of the corresponding machine operation on `n`-bit words (`n` = number of lanes):

* `eqMask v c`       — `(v == c).to_bitmask()` / `simd8x64::eq(c)`
* `mand`, `mandn`, `mor`, `mxor` — `a & b`, `a & ~b`, `a | b`, `a ^ b`
* `nonzero m`        — `m != 0`
* `tz m`             — `TrailingZeroes(m)` (index of the lowest set lane; the number of lanes if `m = 0`, a case in
                        which the C++ result is unspecified and, in the code modelled here, never used)
* `popcount m`       — `CountOnes(m)`
* `decr m`           — `m - 1` (wrap-around: `0 - 1` = all ones)
* `clearBelow k m`   — `m & ~((1ull << k) - 1)`
* `prefixXor m`      — `PrefixXor(m)` (carry-less multiplication by all-ones): lane `i` = xor of lanes `0..i`
* `getEscaped prev bs` — `GetEscaped<N>(prev_escaped, bs)`, *sequential meaning*: lane `i` of the result is set iff
  byte `i` is escaped, i.e. preceded by an odd-length run of backslashes (a run that continues from the previous
  block when `prev` is set); the second component is the outgoing `prev_escaped`.
* `getEscapedBits N prev bs` — the *literal* `uint64_t` bit trick of `GetEscaped<N>` on `Nat` with `% 2^64`.
  `Sonic.Props.C10.C10_getEscaped` relates the two.
-/
namespace Sonic.Model.OnDemand

abbrev Mask := List Bool

namespace Mask
/-- the integer whose bit `i` is lane `i` -/
def toNat : Mask → Nat
  | [] => 0
  | b :: r => b.toNat + 2 * toNat r
end Mask

def eqMask (v : List Nat) (c : Nat) : Mask := v.map (fun b => b == c)

def mand (a b : Mask) : Mask := List.zipWith (fun x y => x && y) a b
def mandn (a b : Mask) : Mask := List.zipWith (fun x y => x && !y) a b
def mor (a b : Mask) : Mask := List.zipWith (fun x y => x || y) a b
def mxor (a b : Mask) : Mask := List.zipWith (fun x y => x ^^ y) a b

def nonzero (m : Mask) : Bool := m.any id

def tz (m : Mask) : Nat := m.findIdx id

def popcount (m : Mask) : Nat := m.count true

/-- `m - 1` on `m.length`-bit words -/
def decr : Mask → Mask
  | [] => []
  | true :: r => false :: r
  | false :: r => true :: decr r

/-- `m & ~((1 << k) - 1)` -/
def clearBelow (k : Nat) (m : Mask) : Mask := List.replicate (min k m.length) false ++ m.drop k

def prefixXorFrom (acc : Bool) : Mask → Mask
  | [] => []
  | b :: r => (acc ^^ b) :: prefixXorFrom (acc ^^ b) r

/-- `PrefixXor(m)`: lane `i` = xor of lanes `0..i` -/
def prefixXor (m : Mask) : Mask := prefixXorFrom false m

/-- `esc` = "the current byte is escaped".  A byte is escaped iff the previous byte is a backslash that is not
    itself escaped. -/
def getEscapedFrom (esc : Bool) : Mask → Mask × Bool
  | [] => ([], esc)
  | b :: r =>
    let res := getEscapedFrom (b && !esc) r
    (esc :: res.1, res.2)

/-- `GetEscaped<N>(prev_escaped, backslash)` on `N = bs.length` lanes: (escaped lanes, new `prev_escaped`) -/
def getEscaped (prev : Bool) (bs : Mask) : Mask × Bool := getEscapedFrom prev bs

/-- the literal code of `GetEscaped<N>` (`unicode_common.h`) on `uint64_t`:
    returns `(escaped_with_prev, new prev_escaped)` -/
def getEscapedBits (N prev bs : Nat) : Nat × Nat :=
  let M := 2 ^ 64
  let odd_bits := 0xAAAAAAAAAAAAAAAA
  let with_prev_backslash := bs &&& (M - 1 - prev)                         -- backslash & ~prev_escaped
  let escaped := (((((with_prev_backslash <<< 1) % M) ||| odd_bits) + M - with_prev_backslash) % M) ^^^ odd_bits
  let escaped_with_prev := escaped ^^^ (bs ||| prev)
  let prev' := ((escaped &&& bs) >>> (N - 1)) &&& 1
  (escaped_with_prev, prev')

/-- the same code on `uint64_t = BitVec 64` (wrap-around arithmetic is built in) -/
def getEscapedBV (N : Nat) (prev bs : BitVec 64) : BitVec 64 × BitVec 64 :=
  let odd_bits : BitVec 64 := 0xAAAAAAAAAAAAAAAA#64
  let with_prev_backslash := bs &&& ~~~prev
  let escaped := (((with_prev_backslash <<< 1) ||| odd_bits) - with_prev_backslash) ^^^ odd_bits
  let escaped_with_prev := escaped ^^^ (bs ||| prev)
  let prev' := ((escaped &&& bs) >>> (N - 1)) &&& 1#64
  (escaped_with_prev, prev')

end Sonic.Model.OnDemand
