/-
Model of `internal::Xmemcpy<16>` / `Xmemcpy<32>` (include/sonic/internal/arch/{avx2,sse}/base.h): the routines that copy finished
runs of element / member nodes from the SAX node stack into a container's children block (`SAXHandler::EndArray/EndObject`,
`SchemaHandler`).  Memory is a list of 16-byte cells; a cursor pair (`sp`, `dp`) walks the source and the destination exactly as
the two pointers of the C++ code do; every vector load/store is bounds-checked (`ok := false` once an access leaves either block).

  * AVX2 `Xmemcpy<32>`: `chunks/4` rounds of four 32-byte copies, then a fall-through `switch (chunks & 3)`.
  * AVX2 `Xmemcpy<16>`: `chunks/8` rounds of four 32-byte copies, `switch ((chunks/2) & 3)`, then one 16-byte copy if `chunks & 1`.
  * SSE  `Xmemcpy<16>`: one 16-byte copy per chunk;  SSE `Xmemcpy<32>(n) = Xmemcpy<16>(2n)`.
-/
namespace Sonic.Model.Xmemcpy

structure St (α : Type) where
  dst : List α
  sp : Nat
  dp : Nat
  ok : Bool

variable {α : Type}

/-- one vector load + store of `k` cells at the cursors (cursors not advanced) -/
def mov (src : List α) (k : Nat) (s : St α) : St α :=
  if s.sp + k ≤ src.length ∧ s.dp + k ≤ s.dst.length then
    { s with dst := s.dst.take s.dp ++ ((src.drop s.sp).take k ++ s.dst.drop (s.dp + k)) }
  else { s with ok := false }

def adv (k : Nat) (s : St α) : St α := { s with sp := s.sp + k, dp := s.dp + k }

/-- load, store, `src += 16k; dst += 16k` -/
def cp (src : List α) (k : Nat) (s : St α) : St α := adv k (mov src k s)

def rep : Nat → (St α → St α) → St α → St α
  | 0, _, s => s
  | n + 1, f, s => rep n f (f s)

def init (dst : List α) : St α := ⟨dst, 0, 0, true⟩

def round4 (src : List α) (s : St α) : St α := cp src 2 (cp src 2 (cp src 2 (cp src 2 s)))

def avx2_32 (src dst : List α) (chunks : Nat) : St α :=
  let s := rep (chunks / 4) (round4 src) (init dst)
  match chunks % 4 with
  | 3 => mov src 2 (cp src 2 (cp src 2 s))
  | 2 => mov src 2 (cp src 2 s)
  | 1 => mov src 2 s
  | _ => s

def avx2_16 (src dst : List α) (chunks : Nat) : St α :=
  let s := rep (chunks / 8) (round4 src) (init dst)
  let s := match (chunks / 2) % 4 with
    | 3 => cp src 2 (cp src 2 (cp src 2 s))
    | 2 => cp src 2 (cp src 2 s)
    | 1 => cp src 2 s
    | _ => s
  if chunks % 2 = 1 then mov src 1 s else s

def sse_16 (src dst : List α) (chunks : Nat) : St α := rep chunks (cp src 1) (init dst)

def sse_32 (src dst : List α) (chunks : Nat) : St α := sse_16 src dst (chunks * 2)

/-- `W` = vector width of the build (32: AVX2 kernels, 16: SSE kernels), `size` = chunk size in bytes (16 or 32). -/
def xmemcpy (W size : Nat) (src dst : List α) (chunks : Nat) : St α :=
  if W = 32 then (if size = 32 then avx2_32 src dst chunks else avx2_16 src dst chunks)
  else (if size = 32 then sse_32 src dst chunks else sse_16 src dst chunks)

/-- cells per chunk -/
def cells (size : Nat) : Nat := if size = 32 then 2 else 1

/-- index of the first cell where two lists differ -/
def firstDiff : List Nat → List Nat → Nat → Option Nat
  | [], [], _ => none
  | a :: as, b :: bs, i => if a = b then firstDiff as bs (i + 1) else some i
  | _, _, i => some i

/-- protocol line `xmemcpy <size> <chunks>`: source cells `1000+i`, destination poisoned with `i` and `8` cells longer than needed;
    `ok` iff no access left the blocks, the first `chunks*cells` destination cells equal the source and the rest is untouched. -/
def runLine (W : Nat) (toks : List String) : String :=
  match toks with
  | [_, sz, n] =>
    match sz.toNat?, n.toNat? with
    | some size, some chunks =>
      if !(size = 16 || size = 32) || chunks > 100000 then "bad-op" else
      let m := chunks * cells size
      let src := (List.range m).map (· + 1000)
      let dst := List.range (m + 8)
      let r := xmemcpy W size src dst chunks
      if !r.ok then "oob"
      else match firstDiff r.dst (src ++ dst.drop m) 0 with
        | none => "ok"
        | some i => s!"bad cell={i}"
    | _, _ => "bad-op"
  | _ => "bad-op"

end Sonic.Model.Xmemcpy
