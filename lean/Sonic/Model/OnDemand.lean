import Sonic.Gen.Tables
import Sonic.Model.OnDemandBits
import Sonic.Model.StringDec
import Sonic.Spec.Json
import Sonic.Spec.Pointer

/-!
# Model of on-demand extraction: `GetOnDemand` (`dom/parser.h`), `SkipScanner` (`internal/arch/simd_skip.h`),
# `GetStringBits`, `GetNextToken`, `SkipString`, `SkipContainer`, `skip_space_safe` (`x86_common/skip.inc.h`),
# `SkipLiteral` (`common/skip_common.h`)

A literal transcription, parametric in the vector width `W` (`VEC_LEN`: 32 for AVX2, 16 for SSE).

* The input is `data : List Nat` of exactly `len = data.length` bytes; there is **no padding**.  Every load is
  checked: `rd` (one byte at `p`) needs `p < len`; `rdVec` (an `n`-byte vector load / `memcpy` source at `p`) needs
  `p + n ≤ len`.  A violated check is the fault `.oob`.  `size_t` arithmetic that would wrap and then be used as a
  shift count / pointer offset (`1ull << bit_pos` with `bit_pos ≥ 64`, `nonspace_bits_end - 64` below 0) is the
  fault `.ub`.  Loops are fuelled; running out of fuel is the fault `.fuel`, so a theorem `… = .ok _` proves
  termination within the fuel the model supplies (`len + 2` per loop).
* Bit masks are lane lists (`Sonic/Model/OnDemandBits.lean`), each C++ bit expression is transcribed lane-wise.
* Pointers are indices; `pos` is threaded; the scanner object's cached pair
  `(nonspace_bits_end_, nonspace_bits_)` is `Cache` and is threaded through every `SkipSpaceSafe` call.
* An escaped key is decoded on the private copy `kbuf` (size `sn + 32`): its first `sn + 1` bytes are the copied raw
  key including the closing quote, the other 31 bytes are **arbitrary** (`junk sp i`, a parameter of the model:
  the vector keeps stale bytes of earlier keys); the decoder is the literal model `Sonic.Model.StringDec`
  (`step`, iterated exactly like `StringDec.run`, see `decRun_fst` in `Sonic/Proofs/OnDemandDec.lean`); any fault
  of the decoder (an access outside `kbuf`) is the fault `.kbuf`.
* `Res` is what `SkipScanner::GetOnDemand` returns (`long` start or `-err`) together with the final `pos`;
  `Out` is what the harness prints for the free function `GetOnDemand` of `parser.h`.
-/
namespace Sonic.Model.OnDemand
open Sonic.Gen Sonic.Spec.Pointer

inductive Fault where
  | oob     -- load outside `[0, len)`
  | kbuf    -- access outside the private key buffer `kbuf`
  | fuel    -- a loop did not terminate within its fuel
  | ub      -- shift count ≥ 64 / wrapped `size_t` used as an offset
  deriving DecidableEq, Repr, Inhabited

abbrev M := Except Fault

/-- one-byte load `data[p]` -/
def rd (d : List Nat) (p : Nat) : M Nat :=
  match d[p]? with
  | some x => .ok x
  | none => .error .oob

/-- `n`-byte load at `p` (vector load, `memcpy` source, `EqBytes4`) -/
def rdVec (d : List Nat) (p n : Nat) : M (List Nat) :=
  if p + n ≤ d.length then .ok ((d.drop p).take n) else .error .oob

/-- `IsSpace` (`internal/utils.h`); also the per-byte meaning of `GetNonSpaceBits` (negated) -/
def isSpace (c : Nat) : Bool := c == 0x20 || c == 0x0D || c == 0x0A || c == 0x09

/-- `pos -= 1` on `size_t` -/
def decPos (pos : Nat) : Nat := if pos = 0 then 2 ^ 64 - 1 else pos - 1

/-! ## `GetNextToken` -/

/-- `vor |= (v == tokens[i])` over all tokens, `to_bitmask()` -/
def tokMask (v : List Nat) (toks : List Nat) : Mask := v.map (fun b => toks.contains b)

/-- the scalar tail `while (pos < len) { … pos++; } return '\0';` — returns `(token or 0, pos)` -/
def nextTokenScalar (d : List Nat) (toks : List Nat) : Nat → Nat → M (Nat × Nat)
  | 0, _ => .error .fuel
  | f + 1, pos =>
    if pos < d.length then do
      let c ← rd d pos
      if toks.contains c then pure (c, pos) else nextTokenScalar d toks f (pos + 1)
    else pure (0, pos)

/-- the block loop `while (pos + VEC_LEN <= len)` followed by the scalar tail -/
def nextTokenBlock (W : Nat) (d : List Nat) (toks : List Nat) : Nat → Nat → M (Nat × Nat)
  | 0, _ => .error .fuel
  | f + 1, pos =>
    if pos + W ≤ d.length then do
      let v ← rdVec d pos W
      let next := tokMask v toks
      if nonzero next then
        let pos := pos + tz next
        let c ← rd d pos
        pure (c, pos)
      else nextTokenBlock W d toks f (pos + W)
    else nextTokenScalar d toks (d.length + 2) pos

/-- `GetNextToken(data, pos, len, tokens)`: `(returned byte, pos)`; `pos` is left AT the token (or `= len`) -/
def getNextToken (W : Nat) (d : List Nat) (toks : List Nat) (pos : Nat) : M (Nat × Nat) :=
  nextTokenBlock W d toks (d.length + 2) pos

/-! ## `SkipString` — result 0 `kUnclosed`, 1 `kNormal`, 2 `kEscaped` -/

def skipStringScalar (d : List Nat) : Nat → Bool → Nat → M (Nat × Nat)
  | 0, _, _ => .error .fuel
  | f + 1, found, pos =>
    if pos < d.length then do
      let c ← rd d pos
      if c == 0x5C then
        if pos + 1 ≥ d.length then pure (0, pos)
        else skipStringScalar d f true (pos + 2)
      else if c == 0x22 then pure (if found then 2 else 1, pos + 1)       -- `data[pos++] == '"'`
      else skipStringScalar d f found (pos + 1)
    else pure (0, pos)

def skipStringBlock (W : Nat) (d : List Nat) : Nat → Bool → Bool → Nat → M (Nat × Nat)
  | 0, _, _, _ => .error .fuel
  | f + 1, prevEsc, found, pos =>
    if pos + W ≤ d.length then do
      let v ← rdVec d pos W
      let bs := eqMask v 0x5C
      let quote := eqMask v 0x22
      -- `if (((quote_bits - 1) & bs_bits) || prev_escaped)`
      let upd : Mask × Bool × Bool :=
        if nonzero (mand (decr quote) bs) || prevEsc then
          let r := getEscaped prevEsc bs
          (mandn quote r.1, r.2, true)
        else (quote, prevEsc, found)
      let quote := upd.1
      if nonzero quote then pure (if upd.2.2 then 2 else 1, pos + tz quote + 1)
      else skipStringBlock W d f upd.2.1 upd.2.2 (pos + W)
    else
      -- `if (prev_escaped) pos++;`
      skipStringScalar d (d.length + 2) found (if prevEsc then pos + 1 else pos)

/-- `SkipString(data, pos, len)`: `(result, pos)`; `pos` on entry is just after the opening quote -/
def skipString (W : Nat) (d : List Nat) (pos : Nat) : M (Nat × Nat) :=
  skipStringBlock W d (d.length + 2) false false pos

/-! ## `GetStringBits`, `SKIP_LOOP`, `SkipContainer` -/

/-- `GetStringBits(data, prev_instring, prev_escaped)` on the 64 loaded bytes `v`:
    `(in_string, prev_instring', prev_escaped')` -/
def getStringBits (v : List Nat) (prevInstring prevEscaped : Bool) : Mask × Bool × Bool :=
  let bs := eqMask v 0x5C
  let esc : Mask × Bool :=
    if nonzero bs then getEscaped prevEscaped bs
    else ((List.replicate v.length false).set 0 prevEscaped, false)   -- `escaped = prev_escaped; prev_escaped = 0;`
  let quote := mandn (eqMask v 0x22) esc.1
  let inString := mxor (prefixXor quote) (List.replicate v.length prevInstring)
  (inString, inString[63]?.getD false, esc.2)        -- `uint64_t(int64_t(in_string) >> 63)`

/-- loop-carried variables of `SkipContainer` -/
structure CState where
  prevInstring : Bool
  prevEscaped : Bool
  rbraceNum : Nat
  lbraceNum : Nat
  deriving Repr, DecidableEq

/-- `while (rbrace > 0) { … }` of `SKIP_LOOP`: `(lane at which the container closed, rbrace_num, lbrace_num)` -/
def rbraceLoop (lbrace : Mask) (last : Nat) : Nat → Mask → Nat → Nat → M (Option Nat × Nat × Nat)
  | 0, _, _, _ => .error .fuel
  | f + 1, rbrace, rnum, lnum =>
    if nonzero rbrace then
      let rnum := rnum + 1
      let lnum := last + popcount (mand (decr rbrace) lbrace)
      if lnum < rnum then pure (some (tz rbrace), rnum, lnum)
      else rbraceLoop lbrace last f (mand rbrace (decr rbrace)) rnum lnum
    else pure (none, rnum, lnum)

/-- `SKIP_LOOP()` on the 64 bytes `v`: `.inl k` = `pos += k + 1; return true`, `.inr st` = fall through -/
def skipLoop (v : List Nat) (st : CState) (left right : Nat) : M (Nat ⊕ CState) :=
  let sb := getStringBits v st.prevInstring st.prevEscaped
  let instring := sb.1
  let last := st.lbraceNum
  let rbrace := mandn (eqMask v right) instring
  let lbrace := mandn (eqMask v left) instring
  match rbraceLoop lbrace last (v.length + 1) rbrace st.rbraceNum st.lbraceNum with
  | .error e => .error e
  | .ok (some k, _, _) => .ok (.inl k)
  | .ok (none, rnum, _) => .ok (.inr ⟨sb.2.1, sb.2.2, rnum, last + popcount lbrace⟩)

def skipContainerLoop (d : List Nat) (left right : Nat) : Nat → CState → Nat → M (Bool × Nat)
  | 0, _, _ => .error .fuel
  | f + 1, st, pos =>
    if pos + 64 ≤ d.length then do
      let v ← rdVec d pos 64
      match ← skipLoop v st left right with
      | .inl k => pure (true, pos + k + 1)
      | .inr st' => skipContainerLoop d left right f st' (pos + 64)
    else do
      -- `uint8_t buf[64] = {0}; std::memcpy(buf, data + pos, len - pos);`  (`len - pos` wraps if `pos > len`)
      if pos > d.length then throw Fault.oob
      let rest ← rdVec d pos (d.length - pos)
      let buf := rest ++ List.replicate (64 - rest.length) 0
      match ← skipLoop buf st left right with
      | .inl k => pure (true, pos + k + 1)
      | .inr _ => pure (false, pos)

/-- `SkipContainer(data, pos, len, left, right)`: `(closed, pos)`; `pos` on entry is just after the opening brace -/
def skipContainer (d : List Nat) (left right : Nat) (pos : Nat) : M (Bool × Nat) :=
  skipContainerLoop d left right (d.length + 2) ⟨false, false, 0, 0⟩ pos

/-! ## `SkipLiteral` -/

/-- `SkipLiteral(data, pos, len, token)`; `pos` is just after the first byte `token` -/
def skipLiteral (d : List Nat) (pos : Nat) (token : Nat) : M (Bool × Nat) :=
  if pos = 0 then .error .ub else
  let start := pos - 1
  if token == 0x74 then
    if start + 4 ≤ d.length then do
      let v ← rdVec d start 4
      if v == [0x74, 0x72, 0x75, 0x65] then pure (true, pos + 3) else pure (false, pos)
    else pure (false, pos)
  else if token == 0x6E then
    if start + 4 ≤ d.length then do
      let v ← rdVec d start 4
      if v == [0x6E, 0x75, 0x6C, 0x6C] then pure (true, pos + 3) else pure (false, pos)
    else pure (false, pos)
  else if token == 0x66 then
    if start + 5 ≤ d.length then do
      let v ← rdVec d (start + 1) 4
      if v == [0x61, 0x6C, 0x73, 0x65] then pure (true, pos + 4) else pure (false, pos)
    else pure (false, pos)
  else pure (false, pos)

/-! ## `skip_space_safe` with the scanner's cached block -/

/-- `(nonspace_bits_end_, nonspace_bits_)` -/
structure Cache where
  nbEnd : Nat
  nb : Mask
  deriving Repr, DecidableEq

def Cache.init : Cache := ⟨0, List.replicate 64 false⟩

/-- `return pos > 0 ? data[pos - 1] : '\0';` -/
def tailRet (d : List Nat) (pos : Nat) : M (Nat × Nat) :=
  if pos > 0 then do
    let c ← rd d (pos - 1)
    pure (c, pos)
  else pure (0, pos)

/-- `tail: while (pos < len && IsSpace(data[pos++]));` then `tailRet` -/
def spaceTail (d : List Nat) : Nat → Nat → M (Nat × Nat)
  | 0, _ => .error .fuel
  | f + 1, pos =>
    if pos < d.length then do
      let c ← rd d pos
      if isSpace c then spaceTail d f (pos + 1) else tailRet d (pos + 1)
    else tailRet d pos

/-- `found_space: while (pos + 64 <= len) { … } goto tail;` -/
def foundSpace (d : List Nat) : Nat → Cache → Nat → M (Nat × Nat × Cache)
  | 0, _, _ => .error .fuel
  | f + 1, cache, pos =>
    if pos + 64 ≤ d.length then do
      let v ← rdVec d pos 64
      let nonspace : Mask := v.map (fun b => !isSpace b)           -- `GetNonSpaceBits(data + pos)`
      if nonzero nonspace then
        let cache : Cache := ⟨pos + 64, nonspace⟩
        let pos := pos + tz nonspace
        let c ← rd d pos
        pure (c, pos + 1, cache)
      else foundSpace d f cache (pos + 64)
    else do
      let r ← spaceTail d (d.length + 2) pos
      pure (r.1, r.2, cache)

/-- `SkipScanner::SkipSpaceSafe(data, pos, len)`: `(returned byte, pos, cache)` -/
def skipSpaceSafe (d : List Nat) (cache : Cache) (pos : Nat) : M (Nat × Nat × Cache) :=
  if pos + 64 + 2 > d.length then do
    let r ← spaceTail d (d.length + 2) pos
    pure (r.1, r.2, cache)
  else do
    let c ← rd d pos
    if !isSpace c then pure (c, pos + 1, cache) else
    let c ← rd d (pos + 1)
    if !isSpace c then pure (c, pos + 2, cache) else
    let pos := pos + 2
    if pos ≥ cache.nbEnd then foundSpace d (d.length + 2) cache pos
    else
      -- current pos is in block
      if cache.nbEnd < 64 then throw Fault.ub else
      let block_start := cache.nbEnd - 64
      if pos < block_start then throw Fault.ub else
      let bit_pos := pos - block_start
      if bit_pos ≥ 64 then throw Fault.ub else
      let nonspace := clearBelow bit_pos cache.nb
      if !nonzero nonspace then foundSpace d (d.length + 2) cache cache.nbEnd
      else do
        let pos := block_start + tz nonspace
        let c ← rd d pos
        pure (c, pos + 1, cache)

/-! ## `SkipScanner`: `GetArrayElem`, `SkipOne`, `GetOnDemand` -/

/-- the three `case`s `'{'`, `'['`, `'"'` shared by `GetArrayElem` and the non-matching-key branch of
    `GetOnDemand`: `(false, pos)` = the skip function returned 0 -/
def skipCSQ (W : Nat) (d : List Nat) (c pos : Nat) : M (Bool × Nat) :=
  if c == 0x7B then skipContainer d 0x7B 0x7D pos
  else if c == 0x5B then skipContainer d 0x5B 0x5D pos
  else if c == 0x22 then do
    let r ← skipString W d pos
    pure (r.1 != 0, r.2)
  else pure (true, pos)

/-- `GetArrayElem(data, pos, len, index)` for `index ≥ 0`: `(error code, pos, cache)` -/
def getArrayElem (W : Nat) (d : List Nat) : Nat → Cache → Nat → M (Nat × Nat × Cache)
  | 0, cache, pos => pure (0, pos, cache)                           -- `index == 0 ? kErrorNone : …`
  | i + 1, cache, pos =>
    if pos < d.length then do
      let (c, pos, cache) ← skipSpaceSafe d cache pos
      if c == 0x5D then pure (kParseErrorArrIndexOutOfRange, pos, cache) else
      let (ok, pos) ← skipCSQ W d c pos
      if !ok then pure (kParseErrorInvalidChar, pos, cache) else
      let (t, pos) ← getNextToken W d [0x2C, 0x5D] pos
      if t != 0x2C then pure (kParseErrorArrIndexOutOfRange, pos, cache)
      else getArrayElem W d i cache (pos + 1)
    else pure (kParseErrorInvalidChar, pos, cache)                  -- `index != 0`

/-- return value of `SkipOne` / `SkipScanner::GetOnDemand` (`start`, or `-code`) together with the final `pos` -/
inductive Res where
  | ok (start pos : Nat)
  | err (code pos : Nat)
  deriving DecidableEq, Repr, Inhabited

def isNumStart (c : Nat) : Bool := c == 0x2D || (0x30 ≤ c && c ≤ 0x39)

/-- `SkipOne(data, pos, len)` -/
def skipOne (W : Nat) (d : List Nat) (cache : Cache) (pos : Nat) : M Res := do
  let (c, pos, _) ← skipSpaceSafe d cache pos
  let start := pos - 1
  if c == 0x22 then
    let r ← skipString W d pos
    if r.1 == 0 then pure (.err kParseErrorInvalidChar r.2) else pure (.ok start r.2)
  else if c == 0x7B then
    let r ← skipContainer d 0x7B 0x7D pos
    if !r.1 then pure (.err kParseErrorInvalidChar r.2) else pure (.ok start r.2)
  else if c == 0x5B then
    let r ← skipContainer d 0x5B 0x5D pos
    if !r.1 then pure (.err kParseErrorInvalidChar r.2) else pure (.ok start r.2)
  else if c == 0x74 || c == 0x6E || c == 0x66 then
    let r ← skipLiteral d pos c
    if !r.1 then pure (.err kParseErrorInvalidChar r.2) else pure (.ok start r.2)
  else if isNumStart c then
    let r ← getNextToken W d [0x5D, 0x7D, 0x2C] pos               -- `SkipNumber`
    pure (.ok start r.2)
  else pure (.err kParseErrorInvalidChar pos)

/-! ### the decoder on `kbuf`, keeping the value of `nsrc` at an error return -/

open Sonic.Model.StringDec in
def cfgSrc : Cfg → Nat
  | .find _ s => s
  | .cont _ s _ => s
  | .fam _ s _ => s

/-- `StringDec.runFuel` (same steps, same fuel), additionally returning `src` of the program point from which
    the final step was taken -/
def decRunFuel (W : Nat) : Nat → StringDec.Cfg → Except StringDec.Fault (StringDec.Outcome × Nat)
  | 0, _ => .error .fuel
  | f + 1, c =>
    match StringDec.step W 0 c with
    | .error e => .error e
    | .ok (.inr o) => .ok (o, cfgSrc c)
    | .ok (.inl c') => decRunFuel W f c'

/-- `parseStringInplace(nsrc = &kbuf[0], err)` -/
def decRun (W : Nat) (kbuf : List Nat) : Except StringDec.Fault (StringDec.Outcome × Nat) :=
  decRunFuel W (3 * kbuf.length + 3) (.find kbuf 0)

/-- `nsrc - &kbuf[0]` when `parseStringInplace` returns with `err` set: the error returns of `find` /
    `find_and_move` (`UnEscaped`) and of the table escape (`EscapedFormat`) leave `src` where the step started;
    `handle_unicode_codepoint` has advanced `src` by 6 on each of its `return false` paths -/
def decErrSrc (code src : Nat) : Nat := if code = kParseErrorEscapedUnicode then src + 6 else src

/-- the private copy: `kbuf.resize(sn + 32); memcpy(&kbuf[0], sp, sn + 1)` -/
def mkKbuf (raw : List Nat) (junk : Nat → Nat) : List Nat := raw ++ (List.range 31).map junk

/-- the key comparison of `obj_key`: `sp` = index of the first key byte, `sn` = number of raw key bytes (the
    closing quote is at `sp + sn`), `skips` = result of `SkipString` (1 or 2).
    `.inl (code, pos)` = `return -code` (escaped key that does not decode),
    `.inr b` = `sn == key.size() && memcmp(sp, key.data(), sn) == 0` (on the decoded copy when `skips == 2`) -/
def keyCmp (W : Nat) (d : List Nat) (junk : Nat → Nat) (key : List Nat) (sp sn skips : Nat) :
    M ((Nat × Nat) ⊕ Bool) :=
  if skips == 2 then do
    let raw ← rdVec d sp (sn + 1)                          -- `std::memcpy(nsrc, sp, sn + 1)`
    match decRun W (mkKbuf raw junk) with
    | .error _ => throw Fault.kbuf
    | .ok (.err code, src) => pure (.inl (code, sp + decErrSrc code src))
    | .ok (.ok n _ b, _) =>
      if n = key.length then
        if n ≤ b.length then pure (.inr (b.take n == key)) else throw Fault.kbuf
      else pure (.inr false)
  else
    if sn = key.length then do
      let raw ← rdVec d sp sn
      pure (.inr (raw == key))
    else pure (.inr false)

/-- label `obj_key` up to `goto query` / an error return.  `pos` is AT the opening quote of a key.
    `.inl (code, pos)` = `return -code`; `.inr (pos, cache)` = the key matched, `goto query`. -/
def objKey (W : Nat) (d : List Nat) (junk : Nat → Nat → Nat) (key : List Nat) :
    Nat → Cache → Nat → M ((Nat × Nat) ⊕ (Nat × Cache))
  | 0, _, _ => .error .fuel
  | f + 1, cache, pos => do
    let sp := pos + 1                                     -- advance quote
    let r ← skipString W d sp
    let skips := r.1
    let pos := r.2
    if skips == 0 then pure (.inl (kParseErrorInvalidChar, decPos pos)) else
    if pos < sp + 1 then throw Fault.ub else                -- `sn = data + pos - 1 - sp` is never negative here
    let sn := pos - 1 - sp
    match ← keyCmp W d (junk sp) key sp sn skips with
    | .inl e => pure (.inl e)
    | .inr isMatch =>
      let r ← skipSpaceSafe d cache pos
      if r.1 != 0x3A then pure (.inl (kParseErrorInvalidChar, decPos r.2.1)) else
      if isMatch then pure (.inr (r.2.1, r.2.2)) else
      let r ← skipSpaceSafe d r.2.2 r.2.1
      let s ← skipCSQ W d r.1 r.2.1
      if !s.1 then pure (.inl (kParseErrorInvalidChar, decPos s.2)) else
      let t ← getNextToken W d [0x22, 0x7D] s.2
      if t.1 != 0x22 then pure (.inl (kParseErrorUnknownObjKey, t.2))
      else objKey W d junk key f r.2.2 t.2

/-- label `query` of `SkipScanner::GetOnDemand`, by recursion on the remaining path -/
def query (W : Nat) (d : List Nat) (junk : Nat → Nat → Nat) : List Step → Cache → Nat → M Res
  | [], cache, pos => skipOne W d cache pos
  | s :: rest, cache, pos => do
    let (c, pos, cache) ← skipSpaceSafe d cache pos
    match s with
    | .key k =>
      if c != 0x7B then pure (.err kParseErrorMismatchType (decPos pos)) else
      let (t, pos) ← getNextToken W d [0x22, 0x7D] pos
      if t != 0x22 then pure (.err kParseErrorUnknownObjKey pos) else
      match ← objKey W d junk k (d.length + 2) cache pos with
      | .inl (code, pos) => pure (.err code pos)
      | .inr (pos, cache) => query W d junk rest cache pos
    | .idx i =>
      if c != 0x5B then pure (.err kParseErrorMismatchType (decPos pos)) else
      -- `GetArrayElem`: a negative index skips the loop and is not 0
      let (e, pos, cache) ←
        if i < 0 then (pure (kParseErrorInvalidChar, pos, cache) : M (Nat × Nat × Cache))
        else getArrayElem W d i.toNat cache pos
      if e != 0 then pure (.err e pos) else query W d junk rest cache pos

/-- what the harness prints for `GetOnDemand(StringView(data, len), path, target)` -/
inductive Out where
  | ok (start stop off : Nat)        -- `target = [start, stop)`, `result.Offset() = off`
  | err (code off tsize : Nat)
  deriving DecidableEq, Repr, Inhabited

/-- the free function `GetOnDemand` of `dom/parser.h` (fresh scanner, `pos = 0`) -/
def getOnDemand (W : Nat) (d : List Nat) (junk : Nat → Nat → Nat) (path : List Step) : M Out := do
  match ← query W d junk path Cache.init 0 with
  | .err code pos => pure (.err code pos 0)                           -- `target = ""`
  | .ok start pos => pure (.ok start (start + (pos + 2 ^ 64 - start) % 2 ^ 64) pos)  -- `StringView(data + start, pos - start)`

/-! ## line protocol (`/verif/protocol/ondemand.md`) -/

private def hexDigitVal (c : Char) : Option Nat :=
  if '0' ≤ c ∧ c ≤ '9' then some (c.toNat - 48)
  else if 'a' ≤ c ∧ c ≤ 'f' then some (c.toNat - 87)
  else if 'A' ≤ c ∧ c ≤ 'F' then some (c.toNat - 55)
  else none

private def unhexGo : List Char → List Nat → Option (List Nat)
  | [], acc => some acc.reverse
  | [_], _ => none
  | a :: b :: rest, acc =>
    match hexDigitVal a, hexDigitVal b with
    | some x, some y => unhexGo rest ((x * 16 + y) :: acc)
    | _, _ => none

private def unhex (s : String) : Option (List Nat) :=
  if s == "-" then some [] else unhexGo s.toList []

/-- `k<hex>` / `k-` / `n<int>` -/
def parseStep (s : String) : Option Step :=
  match s.toList with
  | 'k' :: rest => (unhex (String.ofList rest)).map Step.key
  | 'n' :: rest => (String.ofList rest).toInt?.map Step.idx
  | _ => none

def specStr (d : List Nat) (path : List Step) : String :=
  match Sonic.Spec.Json.parse d with
  | .error _ => "spec=invalid"
  | .ok v =>
    match Sonic.Spec.Pointer.at v path with
    | some u => "spec=found:" ++ u.show
    | none => "spec=unresolved"

def outStr : M Out → String
  | .error _ => "fault"
  | .ok (.ok start stop off) => s!"ok start={start} end={stop} off={off}"
  | .ok (.err code off tsize) => s!"err={code} off={off} tsize={tsize}"

/-- `ondemand <place> <hex json> <step>…` (MODEL line incl. `spec=`) and `pod <hex json> <step>…` (`spec=` only) -/
def runLine (W : Nat) (toks : List String) : String :=
  match toks with
  | "ondemand" :: _place :: hexS :: steps =>
    match unhex hexS, steps.mapM parseStep with
    | some d, some path =>
      if 0 < W then s!"{outStr (getOnDemand W d (fun _ _ => 0) path)} {specStr d path}" else "bad-op"
    | _, _ => "bad-op"
  | "pod" :: hexS :: steps =>
    match unhex hexS, steps.mapM parseStep with
    | some d, some path => specStr d path
    | _, _ => "bad-op"
  | _ => "bad-op"

end Sonic.Model.OnDemand
