import Sonic.Gen.Tables
import Sonic.Spec.Json
import Sonic.Spec.Merge

/-!
# Model of `GenericDocument::ParseSchema` = `Parser::parseImpl` driving `SchemaHandler<NodeType>`
# (`dom/schema_handler.h`, `dom/parser.h`, `dom/generic_document.h`)

Two layers.

## (a) `apply e t` — the functional reading of what the handler does with existing value `e` and text value `t`

When the existing side is a non-empty object and the text side is an object (**including `{}`** — this is where the
implementation departs from the statement, known finding F12), the text's members are processed in textual order:
`Key` declines every key once `found_node_count_ ≥ Size()` (the early stop), declines undeclared keys, and
otherwise (first match, `FindMember`) the member's value is updated recursively and the count incremented.  In every
other case the existing value is replaced by the text's value, built whole.

## (b) `handler cap e t` — the literal SAX state machine

* the existing document is a `JVal`; `cur_node_`, `parent_node_` and the entries of `parent_st_` are `Option Path`:
  `none` = `nullptr`, `some p` = the node reached from the root by the member indices `p` (nodes of the document are
  only ever reached through `&(m->value)` of `FindMember`, starting at the root).  A path that no longer designates a
  node is the fault `.dangling`; dereferencing `nullptr` is `.nullDeref`.
* `st` is the live part `st_[0 .. np_)` of the node stack (`np_ = st.length`); a slot holds a finished value or the
  placeholder `hole ofs` of `StartObject`/`StartArray` (`o.next.ofs = ofs`).  Reading `st_[i]` with `i ≥ np_`, a
  placeholder where a value is expected or a value where a placeholder is expected is the fault `.uninit`; a member
  name slot that is not a string node is `.badKey`.  `cap` is `cap_` (`SetUp`: `max(16, len/2 + 2)`): `node()` fails
  (the callback returns `false`) when `np_ = cap_`.
* `parent_st_` and `found_count_st_` are `std::vector`s constructed with **16 elements** (`{16}`: 16 null pointers /
  16 zeros); they are modelled as lists whose **head is `back()`**, initially 16 `none` / 16 zeros.  `back()` /
  `pop_back()` on an empty vector is the fault `.emptyStack`.
* `drive*` is `parseImpl` for a handler with `check_key_return` on the callback sequence of the text's value
  `t : JVal` (the text is valid by construction): when `Key` returns `false` the member's value is skipped by
  `SkipOne` and produces **no callbacks**; `depth.back()` is incremented at `obj_cont` only, i.e. `EndObject` receives
  the number of members whose key was accepted.  A callback that returns `false` (only `node()` can make it) is
  `kParseErrorInvalidChar` (for `Key` it means "skip the member").
* `SetString(s, alloc)` copies the bytes, create-mode strings point into `schema_str_`, which lives as long as the
  document: both are the value `.str s`.
-/
namespace Sonic.Model.Schema
open Sonic.Spec Sonic.Spec.Merge

/-! ## (a) the functional reading -/

mutual
def apply : JVal → JVal → JVal
  | .obj (m :: ms), .obj tkvs => .obj (applyMembers (m :: ms) tkvs 0)
  | _, t => t
/-- `applyMembers ekvs tkvs found`: the members `tkvs` of the text in order, `found = found_node_count_` -/
def applyMembers : Members → Members → Nat → Members
  | ekvs, [], _ => ekvs
  | ekvs, (k, tv) :: rest, found =>
    if found ≥ ekvs.length then applyMembers ekvs rest found                    -- early stop: `Key` declines
    else if hasKey k ekvs then
      applyMembers (modifyFirst k (fun ev => apply ev tv) ekvs) rest (found + 1)
    else applyMembers ekvs rest found                                           -- undeclared key
end

/-! ## (b) the literal handler -/

inductive Fault where
  | nullDeref     -- a null `NodeType*` is dereferenced
  | dangling      -- a node pointer that no longer designates a node of the document
  | uninit        -- `st_[i]` with `i ≥ np_`, or placeholder/value confusion
  | badKey        -- a member-name slot that is not a string node
  | emptyStack    -- `back()` / `pop_back()` on an empty `std::vector`
  deriving DecidableEq, Repr, Inhabited

abbrev Path := List Nat

/-- the node designated by a path of member indices -/
def getAt : JVal → Path → Option JVal
  | v, [] => some v
  | .obj kvs, i :: p =>
    match kvs[i]? with
    | some (_, v) => getAt v p
    | none => none
  | _, _ :: _ => none

/-- overwrite the node designated by a path -/
def setAt : JVal → Path → JVal → Option JVal
  | _, [], nv => some nv
  | .obj kvs, i :: p, nv =>
    match kvs[i]? with
    | some (k, v) =>
      match setAt v p nv with
      | some v' => some (.obj (kvs.set i (k, v')))
      | none => none
    | none => none
  | _, _ :: _, _ => none

/-- `FindMember` (linear, first match): index of the member -/
def findIdx (k : List Nat) : Members → Option Nat
  | [] => none
  | (k', _) :: rest => if k' = k then some 0 else (findIdx k rest).map (· + 1)

inductive SNode where
  | val (v : JVal)
  | hole (ofs : Nat)
  deriving Repr, Inhabited

structure H where
  doc : JVal
  st : List SNode                 -- `st_[0 .. np_)`
  cap : Nat                       -- `cap_`
  parent : Nat                    -- `parent_`
  parentNode : Option Path        -- `parent_node_`
  curNode : Option Path           -- `cur_node_`
  parentSt : List (Option Path)   -- `parent_st_`, head = `back()`
  foundSt : List Nat              -- `found_count_st_`, head = `back()`
  found : Nat                     -- `found_node_count_`
  deriving Repr

/-- `SchemaHandler sax(this, *alloc_)` + `SetUp` -/
def H.init (cap : Nat) (e : JVal) : H :=
  { doc := e, st := [], cap := cap, parent := 0, parentNode := some [], curNode := some [],
    parentSt := List.replicate 16 none, foundSt := List.replicate 16 0, found := 0 }

/-- `back()` + `pop_back()` -/
def pop {α : Type} : List α → Except Fault (α × List α)
  | [] => .error .emptyStack
  | x :: xs => .ok (x, xs)

/-- `SONIC_ADD_NODE(); new (&st_[np_ - 1]) …` -/
def H.push (h : H) (n : SNode) : H × Bool :=
  if h.st.length < h.cap then ({ h with st := h.st ++ [n] }, true) else (h, false)

/-- `Null / Bool / Uint / Int / Double / String` -/
def H.scalar (h : H) (v : JVal) : Except Fault (H × Bool) :=
  match h.curNode with
  | some p =>
    match setAt h.doc p v with                                 -- `cur_node_->SetX(…)`
    | some d => .ok ({ h with doc := d }, true)
    | none => .error .dangling
  | none => .ok (h.push (.val v))

/-- `Key(s)` -/
def H.key (h : H) (s : List Nat) : Except Fault (H × Bool) :=
  match h.parentNode with
  | some p =>
    match getAt h.doc p with
    | none => .error .dangling
    | some (.obj kvs) =>
      if h.found ≥ kvs.length then .ok ({ h with curNode := none }, false)
      else
        match findIdx s kvs with
        | some i => .ok ({ h with curNode := some (p ++ [i]), found := h.found + 1 }, true)
        | none => .ok ({ h with curNode := none }, false)
    | some _ => .ok (({ h with curNode := none }).push (.val (.str s)))
  | none => .ok (({ h with curNode := none }).push (.val (.str s)))

/-- the placeholder of `StartObject` / `StartArray`: `cur->o.next.ofs = parent_; parent_ = np_ - 1;` -/
def H.pushHole (h : H) : H × Bool :=
  if h.st.length < h.cap then ({ h with st := h.st ++ [.hole h.parent], parent := h.st.length }, true)
  else (h, false)

/-- `StartObject()` -/
def H.startObject (h : H) : Except Fault (H × Bool) :=
  match h.curNode with
  | some c =>
    match getAt h.doc c with
    | none => .error .dangling
    | some v =>
      if isNonEmptyObj v then
        .ok ({ h with parentSt := h.parentNode :: h.parentSt, parentNode := some c, curNode := none,
                      foundSt := h.found :: h.foundSt, found := 0 }, true)
      else
        match setAt h.doc c .null with                          -- `parent_node_->SetNull()`
        | none => .error .dangling
        | some d =>
          .ok ({ h with doc := d, parentSt := some c :: h.parentNode :: h.parentSt, parentNode := none,
                        curNode := none, foundSt := h.found :: h.foundSt, found := 0 }, true)
  | none => .ok h.pushHole

/-- `StartArray()` -/
def H.startArray (h : H) : Except Fault (H × Bool) :=
  match h.curNode with
  | some c =>
    match setAt h.doc c .null with                              -- `parent_node_->SetNull()`
    | none => .error .dangling
    | some d =>
      .ok (({ h with doc := d, parentSt := h.parentNode :: h.parentSt, parentNode := some c,
                     curNode := none }).pushHole)
  | none => .ok h.pushHole

/-- finished nodes as values; a placeholder is not a value -/
def toVals : List SNode → Except Fault (List JVal)
  | [] => .ok []
  | .val v :: rest =>
    match toVals rest with
    | .ok vs => .ok (v :: vs)
    | .error e => .error e
  | .hole _ :: _ => .error .uninit

/-- the `n` nodes `st_[from .. from + n)` as values -/
def sliceVals (st : List SNode) (frm n : Nat) : Except Fault (List JVal) :=
  if frm + n ≤ st.length then toVals ((st.drop frm).take n) else .error .uninit

/-- `name₀, value₀, name₁, value₁, …` as members -/
def pairUp : List JVal → Except Fault Members
  | [] => .ok []
  | [_] => .error .uninit
  | .str k :: v :: rest =>
    match pairUp rest with
    | .ok kvs => .ok ((k, v) :: kvs)
    | .error e => .error e
  | _ :: _ :: _ => .error .badKey

/-- `parent_node_ && parent_node_->IsObject()` -/
def H.parentIsObject (h : H) : Except Fault Bool :=
  match h.parentNode with
  | none => .ok false
  | some p =>
    match getAt h.doc p with
    | none => .error .dangling
    | some (.obj _) => .ok true
    | some _ => .ok false

/-- `EndObject`, first branch: the object was updated in place -/
def H.endObjectUpd (h : H) : Except Fault (H × Bool) :=
  match pop h.parentSt, pop h.foundSt with
  | .ok (pn, ps), .ok (f, fs) =>
    .ok ({ h with parentNode := pn, parentSt := ps, curNode := none, found := f, foundSt := fs }, true)
  | .error e, _ => .error e
  | _, .error e => .error e

/-- `EndObject`, `parent_ == 0`: the object replaces the document node saved on `parent_st_` -/
def H.endObjectTop (h : H) (pairs : Nat) : Except Fault (H × Bool) :=
  match pop h.parentSt with
  | .error e => .error e
  | .ok (objPtr, ps1) =>
    match pop ps1, pop h.foundSt with
    | .error e, _ => .error e
    | _, .error e => .error e
    | .ok (pn, ps2), .ok (f, fs) =>
      match sliceVals h.st 0 (2 * pairs) with
      | .error e => .error e
      | .ok vals =>
        match pairUp vals with
        | .error e => .error e
        | .ok kvs =>
          match objPtr with
          | none => .error .nullDeref
          | some q =>
            match setAt h.doc q (.obj kvs) with
            | none => .error .dangling
            | some d =>
              .ok ({ h with doc := d, parentSt := ps2, parentNode := pn, curNode := none, found := f,
                            foundSt := fs, st := [], parent := 0 }, true)

/-- `EndObject`, `parent_ != 0`: the object replaces its placeholder on the node stack -/
def H.endObjectNested (h : H) (pairs : Nat) : Except Fault (H × Bool) :=
  match h.st[h.parent]? with
  | some (.hole ofs) =>
    match sliceVals h.st (h.parent + 1) (2 * pairs) with
    | .error e => .error e
    | .ok vals =>
      match pairUp vals with
      | .error e => .error e
      | .ok kvs => .ok ({ h with st := h.st.take h.parent ++ [.val (.obj kvs)], parent := ofs }, true)
  | _ => .error .uninit

/-- `EndObject(pairs)` -/
def H.endObject (h : H) (pairs : Nat) : Except Fault (H × Bool) :=
  match h.parentIsObject with
  | .error e => .error e
  | .ok true => h.endObjectUpd
  | .ok false => if h.parent = 0 then h.endObjectTop pairs else h.endObjectNested pairs

/-- `EndArray`, `parent_ == 0`: the array replaces the document node `parent_node_` -/
def H.endArrayTop (h : H) (count : Nat) : Except Fault (H × Bool) :=
  match h.parentNode with
  | none => .error .nullDeref
  | some q =>
    match sliceVals h.st 1 count with
    | .error e => .error e
    | .ok vals =>
      match pop h.parentSt with
      | .error e => .error e
      | .ok (pn, ps) =>
        match setAt h.doc q (.arr vals) with
        | none => .error .dangling
        | some d =>
          .ok ({ h with doc := d, curNode := h.parentNode, parentNode := pn, parentSt := ps, st := [],
                        parent := 0 }, true)

/-- `EndArray`, `parent_ != 0` -/
def H.endArrayNested (h : H) (count : Nat) : Except Fault (H × Bool) :=
  match h.st[h.parent]? with
  | some (.hole ofs) =>
    match sliceVals h.st (h.parent + 1) count with
    | .error e => .error e
    | .ok vals => .ok ({ h with st := h.st.take h.parent ++ [.val (.arr vals)], parent := ofs }, true)
  | _ => .error .uninit

/-- `EndArray(count)` -/
def H.endArray (h : H) (count : Nat) : Except Fault (H × Bool) :=
  if h.parent = 0 then h.endArrayTop count else h.endArrayNested count

/-! ### `parseImpl` with `CheckKeyReturn` on the callback sequence of a value -/

open Sonic.Gen in
/-- result of a callback whose `false` is `goto err_invalid_char` -/
def chk (r : Except Fault (H × Bool)) (k : H → Except Fault (H × Nat)) : Except Fault (H × Nat) :=
  match r with
  | .error e => .error e
  | .ok (h, true) => k h
  | .ok (h, false) => .ok (h, kParseErrorInvalidChar)

/-- continue only while `err_ == kErrorNone` -/
def andThen (r : Except Fault (H × Nat)) (k : H → Except Fault (H × Nat)) : Except Fault (H × Nat) :=
  match r with
  | .error e => .error e
  | .ok (h, 0) => k h
  | .ok (h, c + 1) => .ok (h, c + 1)

/-- a callback whose result `parseImpl` ignores (`sax.EndObject(…)`, `sax.EndArray(…)`) -/
def ign (r : Except Fault (H × Bool)) : Except Fault (H × Nat) :=
  match r with
  | .error e => .error e
  | .ok (h, _) => .ok (h, 0)

mutual
/-- one value: `(handler, err_)` -/
def driveValue (h : H) : JVal → Except Fault (H × Nat)
  | .arr xs => chk h.startArray fun h => driveElems h xs 0
  | .obj kvs => chk h.startObject fun h => driveMembers h kvs 0
  | v => chk (h.scalar v) fun h => .ok (h, 0)
/-- label `arr_val` … `arr_cont`; `cnt = depth.back() & (kArrMask - 1)` -/
def driveElems (h : H) : List JVal → Nat → Except Fault (H × Nat)
  | [], cnt => ign (h.endArray cnt)
  | x :: xs, cnt => andThen (driveValue h x) fun h => driveElems h xs (cnt + 1)
/-- label `obj_key` … `obj_cont`; `cnt = depth.back()` -/
def driveMembers (h : H) : Members → Nat → Except Fault (H × Nat)
  | [], cnt => ign (h.endObject cnt)
  | (k, v) :: rest, cnt =>
    match h.key k with
    | .error e => .error e
    | .ok (h, false) => driveMembers h rest cnt           -- `SkipOne`, `GetNextToken`: no callbacks, no `depth.back()++`
    | .ok (h, true) => andThen (driveValue h v) fun h => driveMembers h rest (cnt + 1)
end

/-- `ParseSchema(text)` on the document `e`, `t` the value of the (valid) text: `(GetParseError(), document)` -/
def handler (cap : Nat) (e t : JVal) : Except Fault (Nat × JVal) :=
  match driveValue (H.init cap e) t with
  | .error f => .error f
  | .ok (h, code) => .ok (code, h.doc)

/-- `SetUp(json)`: `cap_ = max(16, len/2 + 2)` node slots for a text of `len` bytes -/
def setUpCap (len : Nat) : Nat := if len / 2 + 2 < 16 then 16 else len / 2 + 2

/-! ## line protocol (`/verif/protocol/merge.md`) -/

private def hexDigitVal (c : Char) : Option Nat :=
  if '0' ≤ c ∧ c ≤ '9' then some (c.toNat - 48)
  else if 'a' ≤ c ∧ c ≤ 'f' then some (c.toNat - 87)
  else if 'A' ≤ c ∧ c ≤ 'F' then some (c.toNat - 55)
  else none

private def unhexGo : List Char → List Nat → Option (List Nat)
  | [], acc => some acc.reverse
  | [_], _ => none
  | a :: b :: rest, acc =>
    match hexDigitVal a, hexDigitVal b with
    | some x, some y => unhexGo rest ((x * 16 + y) :: acc)
    | _, _ => none

def unhex (s : String) : Option (List Nat) :=
  if s == "-" then some [] else unhexGo s.toList []

/-- the texts in order; `cur` = the literal model's document, `sp` = the spec's document (`none` after a text
    on which the model has nothing to say: an invalid text, or a fault) -/
def runTexts : Option JVal → Option JVal → List (List Nat) → List String
  | _, _, [] => []
  | cur, sp, text :: rest =>
    match Sonic.Spec.Json.parse text with
    | .error _ => "err=? tree=? spec=invalid-input" :: runTexts none none rest
    | .ok t =>
      let sp' := sp.map fun e => schema e t
      let spS := match sp' with
        | some v => v.show
        | none => "?"
      match cur with
      | none => s!"err=? tree=? spec={spS}" :: runTexts none sp' rest
      | some e =>
        match handler (setUpCap text.length) e t with
        | .error _ => s!"err=fault tree=? spec={spS}" :: runTexts none sp' rest
        | .ok (code, d) => s!"err={code} tree={d.show} spec={spS}" :: runTexts (some d) sp' rest

/-- `schema <alloc> <hex existing> <hex text> …` -/
def runLine (toks : List String) : String :=
  match toks with
  | "schema" :: alloc :: hexE :: hexTs =>
    if hexTs.isEmpty || !(alloc == "pool" || alloc == "simple" || alloc == "track") then "bad-op" else
    match unhex hexE, hexTs.mapM unhex with
    | some ex, some texts =>
      match Sonic.Spec.Json.parse ex with
      | .error _ => "bad-input"
      | .ok e =>
        " | ".intercalate (runTexts (some e) (some e) texts) ++ (if alloc == "track" then " ledger=ok" else "")
    | _, _ => "bad-op"
  | _ => "bad-op"

end Sonic.Model.Schema
