import Sonic.Model.EiselLemire

/-!
# Model: `ParseFloatingNormalFast` (include/sonic/internal/parse_number_normal_fast.h)

Literal transcription (same arithmetic conventions as `Model/EiselLemire.lean`).  `exp2` is an `int32_t`; it stays
far inside the 32-bit range for the arguments the caller passes (`man ≠ 0`, `-307 < exp10 < 288`), so it is
modelled as an unbounded `Int`; the final `(uint64_t)exp2 << 52` is `toU64 exp2 * 2^52 % 2^64`.
-/
namespace Sonic.Model.NormalFast

open Sonic.Model.EiselLemire

/-- `ParseFloatingNormalFast(d_raw, exp10, man, sgn)`: `some d_raw` when it returns true.  `neg` is `sgn == -1`. -/
def parseFloatingNormalFast (exp10 : Int) (man : Nat) (neg : Bool) : Option Nat :=
  let row := pow10M128 (exp10 + 348).toNat
  let sig2Ext := row.1
  let sig2 := row.2
  let lz := clz64 man
  let sig1 := man * 2 ^ lz % 2 ^ 64
  let exp2 : Int := ((217706 * exp10 - 4128768) >>> 16) - (lz : Int)
  let (hi, lo) := mulU64 sig1 sig2
  let bits := hi % 512
  -- bits - 1 < 510   (unsigned)
  let (hi, exact) :=
    if (bits + (2 ^ 64 - 1)) % 2 ^ 64 < 510 then (hi, true)
    else
      let (hi2, _lo2) := mulU64 sig1 sig2Ext
      let add := (lo + hi2) % 2 ^ 64
      -- add + 1 > 1   (unsigned)
      if (add + 1) % 2 ^ 64 > 1 then
        let carry : Nat := if add < lo ∨ add < hi2 then 1 else 0
        ((hi + carry) % 2 ^ 64, true)
      else (hi, false)
  if exact then
    let lz : Nat := if hi < 2 ^ 63 then 1 else 0
    let hi := hi * 2 ^ lz % 2 ^ 64
    let exp2 := exp2 - (lz : Int)
    let exp2 := exp2 + 64
    let roundUp := hi / 2 ^ 10 % 2 = 1
    let hi := if roundUp then (hi + 2 ^ 10) % 2 ^ 64 else hi
    let (hi, exp2) := if hi < 2 ^ 10 then (2 ^ 63, exp2 + 1) else (hi, exp2)
    let hi := hi / 2 ^ 11
    let exp2 := exp2 + (64 - 53 + 52)
    let exp2 := exp2 + 1023
    let raw := (toU64 exp2 * 2 ^ 52 % 2 ^ 64) ||| (hi % 2 ^ 52)
    -- d_raw |= ((uint64_t)(sgn) >> 63) << 63
    some (if neg then raw ||| 2 ^ 63 else raw)
  else none

end Sonic.Model.NormalFast
