import Sonic.Gen.Tables

/-!
# Model: `AtofNative` — the big-decimal fallback (include/sonic/internal/atof_native.h)

`Decimal` keeps the 800-byte digit array literally (stale bytes above `nd` included), `nd`, `dp`, `neg`, `trunc`.
`d[i]` holds ASCII codes, as in the C struct.  `uint64_t` arithmetic is reduced `% 2^64` at every step, C `int`s are
`Int` (`nd`, which never goes negative, is a `Nat`).

Loops of the C code whose termination depends on arithmetic facts run on fuel; running out of fuel, a negative
write index, or a table index out of range sets `fault` (the driver then prints `fault`).  None of these can
happen in the real code; they are kept explicit so that no default value can hide a modelling error.

Trusted reading of the source: `SetDecimal` reads `s[i]` once right after an `e`/`E` even when `i == len`
(`if (s[i] == '+')`).  Whatever that byte is, the following digit loop is guarded by `i < len`, so the result
does not depend on it; the model reads a non-sign byte there.
-/
namespace Sonic.Model.BigDecimal

def maxDnum : Nat := 800
def maxShift : Nat := 60

structure Decimal where
  d : Array Nat
  nd : Nat
  dp : Int
  neg : Bool
  trunc : Bool
  fault : Bool
  deriving Repr

def initDecimal : Decimal :=
  { d := Array.replicate maxDnum 0, nd := 0, dp := 0, neg := false, trunc := false, fault := false }

def isDigit (c : Nat) : Bool := 48 ≤ c && c ≤ 57

/-- `d->d[i]` (always `i < 800` in the real code) -/
def rd (a : Array Nat) (i : Nat) : Nat := a.getD i 0

/-- `(uint64_t)(x)` of `a + c - '0'`-style expressions: everything is reduced mod 2^64 -/
def u64 (x : Int) : Nat := (x % (2 ^ 64 : Int)).toNat

/-! ## SetDecimal -/

/-- the main `for (; i < len; i++)` loop over the bytes `s[i..len)`; returns the state and the unread rest
    (the rest starts at the byte that caused `break`, or is empty when `i == len`) -/
def setLoop : List Nat → Decimal → Bool → Int → Decimal × Bool × Int × List Nat
  | [], d, sawDot, dropped => (d, sawDot, dropped, [])
  | c :: r, d, sawDot, dropped =>
    if isDigit c then
      if c = 48 ∧ d.nd = 0 then setLoop r { d with dp := d.dp - 1 } sawDot dropped
      else if d.nd < maxDnum then
        setLoop r { d with d := d.d.setIfInBounds d.nd c, nd := d.nd + 1 } sawDot dropped
      else
        setLoop r { d with trunc := d.trunc || c != 48 } sawDot (if sawDot then dropped else dropped + 1)
    else if c = 46 then setLoop r { d with dp := (d.nd : Int) + dropped } true dropped
    else (d, sawDot, dropped, c :: r)

/-- `for (; i < len && digit; i++) { if (exp < 1000000000000000) exp = exp * 10 + (s[i] - '0'); }` (`int64_t exp`) -/
def expLoop : List Nat → Int → Int
  | [], e => e
  | c :: r, e =>
    if isDigit c then expLoop r (if e < 1000000000000000 then e * 10 + ((c : Int) - 48) else e) else e

/-- `dp_wide > 1000000 ? 1000000 : dp_wide < -1000000 ? -1000000 : (int)dp_wide` -/
def clampDp (x : Int) : Int := if x > 1000000 then 1000000 else if x < -1000000 then -1000000 else x

/-- `SetDecimal(d, s, len)` where `txt` is `s[0..len)` -/
def setDecimal (txt : List Nat) : Decimal :=
  let d := initDecimal
  let (d, txt) := match txt with
    | 45 :: r => ({ d with neg := true }, r)
    | _ => (d, txt)
  let (d, sawDot, dropped, rest) := setLoop txt d false 0
  let d := if sawDot then d else { d with dp := (d.nd : Int) + dropped }
  match rest with
  | c :: r =>
    if c = 101 ∨ c = 69 then
      let (esgn, r) : Int × List Nat := match r with
        | 43 :: r' => (1, r')
        | 45 :: r' => (-1, r')
        | _ => (1, r)
      let exp := expLoop r 0
      { d with dp := clampDp (d.dp + exp * esgn) }
    else d
  | [] => d

/-! ## Trim -/

def trimLoop (a : Array Nat) : Nat → Nat
  | 0 => 0
  | n + 1 => if rd a n = 48 then trimLoop a n else n + 1

def trim (d : Decimal) : Decimal :=
  let nd := trimLoop d.d d.nd
  { d with nd := nd, dp := if nd = 0 then 0 else d.dp }

/-! ## RightShift -/

/-- `while (n >> k == 0) { n *= 10; r++; }` -/
def rsPad (k : Nat) : Nat → Nat → Nat → Option (Nat × Nat)
  | 0, _, _ => none
  | f + 1, n, r => if n / 2 ^ k = 0 then rsPad k f (n * 10 % 2 ^ 64) (r + 1) else some (n, r)

inductive Pick where
  | zero                      -- `d->nd = 0; return;`
  | go (n r : Nat)
  | fault

/-- `for (; n >> k == 0; r++) { if (r >= nd) {…; break;} n = n * 10 + d[r] - '0'; }` -/
def rsPick (a : Array Nat) (nd k : Nat) : Nat → Nat → Nat → Pick
  | 0, _, _ => .fault
  | f + 1, n, r =>
    if n / 2 ^ k ≠ 0 then .go n r
    else if r ≥ nd then
      if n = 0 then .zero
      else match rsPad k 64 n r with
        | some (n, r) => .go n r
        | none => .fault
    else rsPick a nd k f (u64 ((n : Int) * 10 + rd a r - 48)) (r + 1)

/-- `for (; r < nd; r++) { dig = n >> k; n &= mask; d[w++] = dig + '0'; n = n * 10 + d[r] - '0'; }` -/
def rsMain (nd k : Nat) : Nat → Array Nat → Nat → Nat → Nat → Array Nat × Nat × Nat
  | 0, a, n, _, w => (a, n, w)
  | f + 1, a, n, r, w =>
    if r < nd then
      let dig := n / 2 ^ k
      let n := n % 2 ^ k
      let a := a.setIfInBounds w ((dig + 48) % 256)
      let n := u64 ((n : Int) * 10 + rd a r - 48)
      rsMain nd k f a n (r + 1) (w + 1)
    else (a, n, w)

/-- `while (n > 0) { dig = n >> k; n &= mask; if (w < 800) { d[w] = dig + '0'; w++; } else if (dig > 0) trunc = 1; n *= 10; }` -/
def rsTail (k : Nat) : Nat → Array Nat → Nat → Nat → Bool → Option (Array Nat × Nat × Bool)
  | 0, _, _, _, _ => none
  | f + 1, a, n, w, tr =>
    if n > 0 then
      let dig := n / 2 ^ k
      let n := n % 2 ^ k
      if w < maxDnum then rsTail k f (a.setIfInBounds w ((dig + 48) % 256)) (n * 10 % 2 ^ 64) (w + 1) tr
      else rsTail k f a (n * 10 % 2 ^ 64) w (tr || dig > 0)
    else some (a, w, tr)

def rightShift (d : Decimal) (k : Nat) : Decimal :=
  match rsPick d.d d.nd k (d.nd + 1) 0 0 with
  | .fault => { d with fault := true }
  | .zero => { d with nd := 0 }
  | .go n r =>
    let dp := d.dp - ((r : Int) - 1)
    let (a, n, w) := rsMain d.nd k d.nd d.d n r 0
    match rsTail k 80 a n w d.trunc with
    | none => { d with fault := true }
    | some (a, w, tr) => trim { d with d := a, nd := w, dp := dp, trunc := tr }

/-! ## LeftShift -/

/-- `PrefixIsLess(b, s, bn)`; `cut` is the NUL-terminated cutoff string as digit values `0..9`, `i` the loop index -/
def prefixIsLess (b : Array Nat) (bn : Nat) : Nat → List Nat → Bool
  | _, [] => false                 -- `s[i] == '\0'`: false inside the loop, and `s[i] != '\0'` is false after it
  | i, c :: cs =>
    if i < bn then
      if rd b i ≠ c + 48 then rd b i < c + 48 else prefixIsLess b bn (i + 1) cs
    else true                      -- loop finished with `s[i] != '\0'`

/-- one "put down a digit" step shared by both loops of `LeftShift`:
    `quo = n / 10; rem = n - 10 * quo; w--; if (w < 800) d[w] = rem + '0'; else if (rem != 0) trunc = 1; n = quo;`
    (`fault` when the write index would be negative) -/
def lsPut (a : Array Nat) (n : Nat) (w : Int) (tr fl : Bool) : Array Nat × Nat × Int × Bool × Bool :=
  let quo := n / 10
  let rem := n - 10 * quo
  let w := w - 1
  if w < 0 then (a, quo, w, tr, true)
  else if w < maxDnum then (a.setIfInBounds w.toNat ((rem + 48) % 256), quo, w, tr, fl)
  else (a, quo, w, tr || rem ≠ 0, fl)

/-- `for (r--; r >= 0; r--) { n += (uint64_t)(d[r] - '0') << k; … }` ; the argument counts `r + 1` -/
def lsMain (k : Nat) : Nat → Array Nat → Nat → Int → Bool → Bool → Array Nat × Nat × Int × Bool × Bool
  | 0, a, n, w, tr, fl => (a, n, w, tr, fl)
  | r + 1, a, n, w, tr, fl =>
    let n := (n + u64 ((rd a r : Int) - 48) * 2 ^ k % 2 ^ 64) % 2 ^ 64
    let (a, n, w, tr, fl) := lsPut a n w tr fl
    lsMain k r a n w tr fl

/-- `while (n > 0) { … }` -/
def lsTail : Nat → Array Nat → Nat → Int → Bool → Bool → Array Nat × Int × Bool × Bool
  | 0, a, _, w, tr, _ => (a, w, tr, true)
  | f + 1, a, n, w, tr, fl =>
    if n > 0 then
      let (a, n, w, tr, fl) := lsPut a n w tr fl
      lsTail f a n w tr fl
    else (a, w, tr, fl)

def leftShift (d : Decimal) (k : Nat) : Decimal :=
  match Sonic.Gen.lshiftTab[k]? with
  | none => { d with fault := true }
  | some (delta0, cutoff) =>
    let delta : Int := if prefixIsLess d.d d.nd 0 cutoff then (delta0 : Int) - 1 else delta0
    let w : Int := (d.nd : Int) + delta
    let (a, n, w, tr, fl) := lsMain k d.nd d.d 0 w d.trunc d.fault
    let (a, _w, tr, fl) := lsTail 32 a n w tr fl
    let nd : Int := (d.nd : Int) + delta
    let nd : Int := if nd ≥ maxDnum then maxDnum else nd
    trim { d with d := a, nd := nd.toNat, dp := d.dp + delta, trunc := tr, fault := fl || nd < 0 }

/-! ## DecimalShift -/

/-- `while (k > 60) { LeftShift(d, 60); k -= 60; } if (k) LeftShift(d, k);` -/
def shiftLeftBy : Nat → Decimal → Nat → Decimal
  | 0, d, _ => { d with fault := true }
  | f + 1, d, k =>
    if k > maxShift then shiftLeftBy f (leftShift d maxShift) (k - maxShift)
    else if k ≠ 0 then leftShift d k else d

def shiftRightBy : Nat → Decimal → Nat → Decimal
  | 0, d, _ => { d with fault := true }
  | f + 1, d, k =>
    if k > maxShift then shiftRightBy f (rightShift d maxShift) (k - maxShift)
    else if k ≠ 0 then rightShift d k else d

def decimalShift (d : Decimal) (k : Int) : Decimal :=
  if d.nd = 0 ∨ k = 0 then d
  else if k > 0 then shiftLeftBy (k.toNat + 1) d k.toNat
  else shiftRightBy ((-k).toNat + 1) d (-k).toNat

/-! ## rounding -/

def shouldRoundup (d : Decimal) (nd : Int) : Bool :=
  if nd < 0 ∨ nd ≥ d.nd then false
  else
    let i := nd.toNat
    if rd d.d i = 53 ∧ i + 1 = d.nd then
      if d.trunc then true
      else i > 0 ∧ (rd d.d (i - 1) - 48) % 2 ≠ 0
    else rd d.d i ≥ 53

/-- first loop of `RoundedInteger`: `for (i = 0; i < dp && i < nd; i++) n = n * 10 + (d[i] - '0')` -/
def riDigits (a : Array Nat) (i : Nat) : Nat → Nat → Nat
  | 0, n => n
  | c + 1, n => riDigits a (i + 1) c (u64 ((n : Int) * 10 + (rd a i - 48)))

/-- second loop: `for (; i < dp; i++) n *= 10` -/
def riPad : Nat → Nat → Nat
  | 0, n => n
  | c + 1, n => riPad c (n * 10 % 2 ^ 64)

def roundedInteger (d : Decimal) : Nat :=
  if d.dp > 20 then 0xFFFFFFFFFFFFFFFF
  else
    let dp := d.dp.toNat                   -- `i < dp` never holds for a negative dp
    let c1 := min dp d.nd
    let n := riDigits d.d 0 c1 0
    let n := riPad (dp - c1) n
    if shouldRoundup d d.dp then (n + 1) % 2 ^ 64 else n

/-! ## DecimalToF64 -/

def powTab (i : Int) : Option Nat := if i < 0 then none else Sonic.Gen.kPowTab[i.toNat]?

/-- `while (d->dp > 0) { n = dp >= 9 ? 27 : kPowTab[dp]; DecimalShift(d, -n); exp2 += n; }` -/
def scaleDown : Nat → Decimal → Int → Decimal × Int
  | 0, d, e => ({ d with fault := true }, e)
  | f + 1, d, e =>
    if d.dp > 0 then
      match (if d.dp ≥ 9 then some 27 else powTab d.dp) with
      | none => ({ d with fault := true }, e)
      | some n => scaleDown f (decimalShift d (-(n : Int))) (e + n)
    else (d, e)

/-- `while (dp < 0 || (dp == 0 && d[0] < '5')) { n = -dp >= 9 ? 27 : kPowTab[-dp]; DecimalShift(d, n); exp2 -= n; }` -/
def scaleUp : Nat → Decimal → Int → Decimal × Int
  | 0, d, e => ({ d with fault := true }, e)
  | f + 1, d, e =>
    if d.dp < 0 ∨ (d.dp = 0 ∧ rd d.d 0 < 53) then
      match (if -d.dp ≥ 9 then some 27 else powTab (-d.dp)) with
      | none => ({ d with fault := true }, e)
      | some n => scaleUp f (decimalShift d n) (e - n)
    else (d, e)

def assemble (d : Decimal) (mant : Nat) (exp2 : Int) : Nat :=
  let bits := mant % 2 ^ 52
  let bits := bits ||| (((exp2 + 1023) % 2048).toNat * 2 ^ 52 % 2 ^ 64)
  if d.neg then bits ||| 2 ^ 63 else bits

/-- `DecimalToF64`: the bit pattern written to `*val`, and the fault flag -/
def decimalToF64 (d : Decimal) : Nat × Bool :=
  let overflow (d : Decimal) : Nat × Bool := (assemble d 0 (0x7FF - 1023), d.fault)
  if d.nd = 0 then (assemble d 0 (-1023), d.fault)
  else if d.dp > 310 then overflow d
  else if d.dp < -330 then (assemble d 0 (-1023), d.fault)
  else
    let (d, exp2) := scaleDown 400 d 0
    let (d, exp2) := scaleUp 400 d exp2
    let exp2 := exp2 - 1
    let (d, exp2) :=
      if exp2 < -1022 then
        let n := -1022 - exp2
        (decimalShift d (-n), exp2 + n)
      else (d, exp2)
    if exp2 + 1023 ≥ 0x7FF then overflow d
    else
      let d := decimalShift d 53
      let mant := roundedInteger d
      let step : Option (Nat × Int) :=
        if mant = 2 * 2 ^ 52 then
          if exp2 + 1 + 1023 ≥ 0x7FF then none else some (mant / 2, exp2 + 1)
        else some (mant, exp2)
      match step with
      | none => overflow d
      | some (mant, exp2) =>
        let exp2 := if mant / 2 ^ 52 % 2 = 0 then -1023 else exp2
        (assemble d mant exp2, d.fault)

/-- `AtofNative(buf, len)` with `txt = buf[0..len)`: the bits of the returned double and the fault flag -/
def atofNative (txt : List Nat) : Nat × Bool := decimalToF64 (setDecimal txt)

end Sonic.Model.BigDecimal
