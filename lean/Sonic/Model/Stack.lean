/-!
# Model of `include/sonic/internal/stack.h` (`internal::Stack`) and `WriteBuffer` (a thin wrapper around it)

State of a `Stack`:
* `buf`   — the live bytes `[buf_, top_)`; `Size() = buf.length`;
* `cap`   — the field `cap_` (what `Capacity()` returns and what `Grow` compares against);
* `alloc` — the number of bytes of the block that the last `realloc` returned, i.e. `SONIC_ALIGN(new_cap)` of the
            last `Reserve` that did reallocate (0 before the first one).  This is what a write must stay inside of.

`cap_` and the allocation are different numbers: `Reserve(new_cap)` reallocates to `SONIC_ALIGN(new_cap)` bytes
(`(x + 7) & ~7`) and then sets `cap_ = new_cap`, so `cap ≤ alloc < cap + 8` (`StackInv`).

Unchecked operations of the C++ class (`PushUnsafe`, `PushSizeUnsafe`, `Push5_8`'s 8-byte `memcpy`, the callee
writing at `End()`, `Pop`, `Top`) are CHECKED here and answer `none` when they would leave the allocation
(`size + k ≤ limit`) or move `top_` below `buf_`.  The limit is `alloc` (a genuine out-of-bounds write), or — with
`strict := true` — the smaller `cap` (the bound the code itself reasons with).  `Props/C06.lean` proves the absence
of faults for BOTH choices, i.e. every write of the serializer stays below `cap_ ≤ allocation`.

`size_t` arithmetic is modelled in `Nat`: all quantities are assumed far below `2^64` (no wrap-around in
`x + 7`, `cap_ * 2`, `top_ + cnt`).  `realloc` is assumed to succeed (the code only `sonic_assert`s it).
-/
namespace Sonic.Model.Stack

/-- `SONIC_ALIGN(x) = (x + 7) & ~7` -/
def align8 (n : Nat) : Nat := (n + 7) / 8 * 8

structure Stk where
  buf : List Nat
  cap : Nat
  alloc : Nat
  deriving Repr, Inhabited, DecidableEq

namespace Stk

def size (s : Stk) : Nat := s.buf.length

/-- `Reserve(new_cap)`: `if (new_cap < Capacity()) return;` then `realloc(buf_, SONIC_ALIGN(new_cap))`,
    `cap_ = new_cap`.  The live bytes are kept (they fit: see `StackInv`). -/
def reserve (s : Stk) (newCap : Nat) : Stk :=
  if newCap < s.cap then s else { s with cap := newCap, alloc := align8 newCap }

/-- `Stack(size_t cap) : cap_(cap) { Reserve(cap); }` (`buf_ = top_ = nullptr` initially) -/
def new (cap0 : Nat) : Stk := (Stk.mk [] cap0 0).reserve cap0

/-- `Stack()` / `WriteBuffer()`: `defaultCapcity() = 256` -/
def dflt : Stk := new 256

/-- `Clear()`: `top_ = buf_` -/
def clear (s : Stk) : Stk := { s with buf := [] }

/-- `Grow(cnt)`:
```
if (top_ + cnt >= buf_ + cap_) {
  if (top_ + cnt > buf_ + 2 * cap_) { cap_ = top_ - buf_ + cnt; Reserve(cap_ + cap_ / 2); }
  else Reserve(cap_ * 2);
}
```
(`cap_` is overwritten BEFORE `Reserve` in the first case; `Reserve` then compares against the new `cap_`.) -/
def grow (s : Stk) (cnt : Nat) : Stk :=
  if s.size + cnt ≥ s.cap then
    if s.size + cnt > 2 * s.cap then
      let s1 := { s with cap := s.size + cnt }
      s1.reserve (s1.cap + s1.cap / 2)
    else s.reserve (s.cap * 2)
  else s

/-- the bound a write is checked against -/
def limit (s : Stk) (strict : Bool) : Nat := if strict then s.cap else s.alloc

/-- may `k` bytes be stored at `top_`? -/
def fits (s : Stk) (strict : Bool) (k : Nat) : Bool := s.size + k ≤ s.limit strict

/-- a callee (or a wide `memcpy`) stores up to `k` bytes at `top_` without moving `top_` -/
def scratch (s : Stk) (strict : Bool) (k : Nat) : Option Stk := if s.fits strict k then some s else none

/-- `PushUnsafe(bytes)` / `PushSizeUnsafe(n)` after the `n` bytes were stored: the bytes become live -/
def pushUnsafe (s : Stk) (strict : Bool) (bs : List Nat) : Option Stk :=
  if s.fits strict bs.length then some { s with buf := s.buf ++ bs } else none

/-- `Push5_8(bytes8, n)`: `Grow(8); memcpy(top_, bytes8, 8); top_ += n` -/
def push5_8 (s : Stk) (strict : Bool) (bytes8 : List Nat) (n : Nat) : Option Stk :=
  let s := s.grow 8
  if s.fits strict 8 && bytes8.length == 8 && n ≤ 8 then some { s with buf := s.buf ++ bytes8.take n } else none

/-- `Push<T>(v)` with `sizeof(T) = bs.length`: `Grow(sizeof(T)); *top_ = v; top_ += sizeof(T)` -/
def push (s : Stk) (strict : Bool) (bs : List Nat) : Option Stk := (s.grow bs.length).pushUnsafe strict bs

/-- `Pop<char>(n)`: `top_ -= n` (`none` if that would move `top_` below `buf_`) -/
def pop (s : Stk) (n : Nat) : Option Stk :=
  if n ≤ s.size then some { s with buf := s.buf.take (s.size - n) } else none

/-- `WriteBuffer::ToString()`: `Grow(1); *End() = '\0'` — the returned C string is the live bytes followed by NUL -/
def toString (s : Stk) (strict : Bool) : Option Stk := (s.grow 1).scratch strict 1

end Stk

/-- representation invariant: the live bytes fit into `cap_`, and `cap_` bytes were really allocated -/
structure StackInv (s : Stk) : Prop where
  size_le : s.size ≤ s.cap
  cap_le : s.cap ≤ s.alloc

end Sonic.Model.Stack
