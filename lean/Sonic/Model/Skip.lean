import Sonic.Gen.Tables

/-!
# Model of `skip_space` (`internal/arch/common/x86_common/skip.inc.h`) and `SkipScanner::SkipSpace`

A literal transcription of the *unchecked* variant used by `Parser::parseImpl` (not `skip_space_safe`):
two scalar probes, then the cached 64-byte block `(nonspace_bits_end_, nonspace_bits_)`, then the `found_space`
loop over 64-byte `GetNonSpaceBits` blocks.

* The buffer is a `List Nat`; every load is checked against the buffer length: a byte load at an index
  `≥ buf.length` and a 64-byte block load at `p` with `p + 64 > buf.length` are the fault `.oob`.
* The 64-bit mask `nonspace_bits` is kept as its 64 lanes (`List Bool`, lane `i` = bit `i`); `GetNonSpaceBits`
  has its per-byte meaning "byte ∉ {0x20, 0x09, 0x0A, 0x0D}" (`arch/avx2/unicode.h`: `~space`).  The mask idioms
  are given their per-lane meaning: `nonspace == 0` ⇔ no lane set; `nonspace_bits & ~((1 << bit_pos) - 1)` ⇔ lanes
  below `bit_pos` cleared; `TrailingZeroes(m)` = index of the lowest set lane.
* `sonic_assert(pos >= block_start)`: `pos - block_start` would wrap around in `size_t` and the shift would be
  undefined, so a violation is the explicit fault `.assert` (proved unreachable).
-/
namespace Sonic.Model.Parse

/-- everything that the checked model treats as undefined behaviour of the real code -/
inductive Fault where
  | oob        -- load/store outside the `len + 64` byte string buffer
  | stackOob   -- node-stack index ≥ capacity
  | uninit     -- a node-stack slot that holds raw (`realloc`) memory is read or destroyed
  | badNode    -- `o.next.ofs` read from a node that is not a `Start*` placeholder
  | assert     -- a `sonic_assert` / an implicit precondition (`depth.back()` on an empty vector) is violated
  | fuel       -- a loop did not terminate within the fuel of the model
  | str        -- fault inside `parseStringInplace` (model `Sonic.Model.StringDec`)
  | number     -- fault inside `parseNumber` (model `Sonic.Model.Number`)
  deriving DecidableEq, Repr, Inhabited

abbrev Buf := List Nat

/-- `internal::IsSpace` (`internal/utils.h`) -/
def isSpace (c : Nat) : Bool := c == 0x20 || c == 0x0D || c == 0x0A || c == 0x09

/-- one-byte load -/
def rd (b : Buf) (i : Nat) : Except Fault Nat :=
  match b[i]? with
  | some x => .ok x
  | none => .error .oob

/-- 64-byte block load `simd8x64<uint8_t> v(data + i)` -/
def rdVec64 (b : Buf) (i : Nat) : Except Fault (List Nat) :=
  if i + 64 ≤ b.length then .ok ((b.drop i).take 64) else .error .oob

/-- `GetNonSpaceBits(data)`: lane `i` set iff byte `i` is not one of space, tab, LF, CR -/
def nonSpaceBits (v : List Nat) : List Bool := v.map fun c => !isSpace c

/-- the members `nonspace_bits_end_{0}`, `nonspace_bits_{0}` of `SkipScanner` -/
structure Cache where
  nbEnd : Nat
  nb : List Bool
  deriving Repr, DecidableEq

def Cache.init : Cache := ⟨0, List.replicate 64 false⟩

/-- the `found_space:` loop.  Result: the returned byte, the new `pos`, the new cache. -/
def foundSpace (b : Buf) : Nat → Nat → Except Fault (Nat × Nat × Cache)
  | 0, _ => .error .fuel
  | fuel + 1, pos =>
    match rdVec64 b pos with
    | .error e => .error e
    | .ok v =>
      let nonspace := nonSpaceBits v
      if nonspace.any id then                                   -- if (nonspace)
        let p := pos + nonspace.findIdx id                      -- pos += TrailingZeroes(nonspace)
        match rd b p with                                       -- return data[pos++]
        | .error e => .error e
        | .ok c => .ok (c, p + 1, ⟨pos + 64, nonspace⟩)
      else foundSpace b fuel (pos + 64)

/-- `skip_space(data, pos, nonspace_bits_end, nonspace_bits)` -/
def skipSpace (b : Buf) (pos : Nat) (k : Cache) : Except Fault (Nat × Nat × Cache) :=
  match rd b pos with                                           -- if (!IsSpace(data[pos++])) return data[pos - 1];
  | .error e => .error e
  | .ok c0 =>
    if !isSpace c0 then .ok (c0, pos + 1, k) else
    match rd b (pos + 1) with                                   -- second probe
    | .error e => .error e
    | .ok c1 =>
      if !isSpace c1 then .ok (c1, pos + 2, k) else
      let pos := pos + 2
      if pos ≥ k.nbEnd then foundSpace b b.length pos           -- current pos is out of block
      else if k.nbEnd < 64 ∨ pos < k.nbEnd - 64 then .error .assert
      else
        let blockStart := k.nbEnd - 64
        let bitPos := pos - blockStart
        -- nonspace = nonspace_bits & ~((1ull << bit_pos) - 1)
        let nonspace := k.nb.mapIdx fun i x => x && decide (bitPos ≤ i)
        if !nonspace.any id then foundSpace b b.length k.nbEnd  -- pos = nonspace_bits_end; goto found_space
        else
          let p := blockStart + nonspace.findIdx id             -- pos = block_start + TrailingZeroes(nonspace)
          match rd b p with                                     -- return data[pos++]
          | .error e => .error e
          | .ok c => .ok (c, p + 1, k)

end Sonic.Model.Parse
