import Sonic.Model.Skip
import Sonic.Spec.JsonTypes

/-!
# Model of `SAXHandler<NodeType>` (`dom/handler.h`): the node stack on which `Parser::parseImpl` builds the DOM

* `Node` is what a 16-byte `DNode` denotes.  A string node (`kStringCopy`) is a pointer into the document's string
  buffer and a length — the bytes are read from the *final* buffer, so that in-place decoding that clobbered an
  earlier string would be visible.  A container node owns its children (the `containerMalloc`ed block): for an
  array the `count` nodes, for an object the `2 * pairs` nodes `key₀, value₀, key₁, value₁, …` exactly as the
  `Xmemcpy` lays them out.  `hole ofs` is the placeholder built by `StartObject`/`StartArray`: type `kNull` and
  `o.next.ofs = parent_`.
* the stack `st` is a list of `cap` slots; `none` = raw memory from `realloc` (or a slot whose node has been moved
  into a container by `End*`, which leaves only a stale bit copy behind).  Every access is checked: index `≥` the
  allocation ⇒ `.stackOob`; reading or destroying a `none` slot ⇒ `.uninit`; reading `o.next.ofs` of a node that
  is not a placeholder ⇒ `.badNode`.
* `mallocs` counts the `containerMalloc` calls (one per non-empty container); `Node.allocs` counts the heap blocks
  a tree owns, so `TearDown`/`destroy` report how many blocks they free (ledger for the freeing allocators).
-/
namespace Sonic.Model.Parse
open Sonic.Spec

inductive Node where
  | null
  | bool (b : Bool)
  | uint (n : Nat)
  | sint (n : Int)
  | dbl (bits : Nat)
  | str (p n : Nat)               -- kStringCopy: `sv.p` (index into the string buffer), length
  | arr (xs : List Node)
  | obj (xs : List Node)          -- key₀, value₀, key₁, value₁, …
  | hole (ofs : Nat)              -- `Start*` placeholder: type kNull, `o.next.ofs`
  deriving Repr, Inhabited

mutual
/-- number of heap blocks owned by a node (`destroy()` frees exactly these) -/
def Node.allocs : Node → Nat
  | .arr xs => (if xs.isEmpty then 0 else 1) + allocsList xs
  | .obj xs => (if xs.isEmpty then 0 else 1) + allocsList xs
  | _ => 0
def allocsList : List Node → Nat
  | [] => 0
  | x :: xs => x.allocs + allocsList xs
end

mutual
/-- the JSON value a finished node denotes, strings read from `buf`; `none` for a tree that contains a placeholder
    or an object whose layout is not `string, value, string, value, …` -/
def Node.toJVal (buf : Buf) : Node → Option JVal
  | .null => some .null
  | .bool b => some (.bool b)
  | .uint n => some (.num (.uint n))
  | .sint n => some (.num (.sint n))
  | .dbl bits => some (.num (.real bits))
  | .str p n => some (.str ((buf.drop p).take n))
  | .arr xs => match toJVals buf xs with
    | some vs => some (.arr vs)
    | none => none
  | .obj xs => match toMembers buf xs none with
    | some kvs => some (.obj kvs)
    | none => none
  | .hole _ => none
def toJVals (buf : Buf) : List Node → Option (List JVal)
  | [] => some []
  | x :: xs =>
    match x.toJVal buf, toJVals buf xs with
    | some v, some vs => some (v :: vs)
    | _, _ => none
/-- `pending` = the key read just before (`some`) or none yet -/
def toMembers (buf : Buf) : List Node → Option (List Nat) → Option (List (List Nat × JVal))
  | [], none => some []
  | [], some _ => none
  | x :: xs, none =>
    match x with
    | .str p n => toMembers buf xs (some ((buf.drop p).take n))
    | _ => none
  | x :: xs, some k =>
    match x.toJVal buf, toMembers buf xs none with
    | some v, some kvs => some ((k, v) :: kvs)
    | _, _ => none
end

structure Sax where
  st : List (Option Node)      -- `st_[0 .. cap_)`
  np : Nat
  cap : Nat
  parent : Nat
  mallocs : Nat                -- ledger: `containerMalloc` calls so far
  deriving Repr

/-- `SetUp(json)` on a fresh handler (`st_ == nullptr`): `cap = max(16, len/2 + 2)`; `raw` is the content of the
    memory `realloc(nullptr, …)` hands out (arbitrary; `none` = indeterminate) -/
def setUpCap (len : Nat) : Nat := if len / 2 + 2 < 16 then 16 else len / 2 + 2

def Sax.setUp (len : Nat) (raw : List (Option Node)) : Sax :=
  { st := raw, np := 0, cap := setUpCap len, parent := 0, mallocs := 0 }

/-- `node()` -/
def Sax.node (s : Sax) : Option Sax :=
  if s.np < s.cap then some { s with np := s.np + 1 } else none

/-- store into `st_[i]` -/
def Sax.put (s : Sax) (i : Nat) (n : Option Node) : Except Fault Sax :=
  if i < s.st.length then .ok { s with st := s.st.set i n } else .error .stackOob

/-- load `st_[i]` -/
def Sax.get (s : Sax) (i : Nat) : Except Fault Node :=
  match s.st[i]? with
  | none => .error .stackOob
  | some none => .error .uninit
  | some (some n) => .ok n

/-- `Null/Bool/Uint/Int/Double/stringImpl`: `SONIC_ADD_NODE(); new (&st_[np_ - 1]) NodeType(…); return true;` -/
def Sax.scalar (s : Sax) (n : Node) : Except Fault (Sax × Bool) :=
  match s.node with
  | none => .ok (s, false)
  | some s' =>
    match s'.put (s'.np - 1) (some n) with
    | .error e => .error e
    | .ok s'' => .ok (s'', true)

/-- `StartObject` / `StartArray` (identical bodies) -/
def Sax.start (s : Sax) : Except Fault (Sax × Bool) :=
  match s.node with
  | none => .ok (s, false)
  | some s' =>
    match s'.put (s'.np - 1) (some (.hole s'.parent)) with     -- setType(kNull); o.next.ofs = parent_
    | .error e => .error e
    | .ok s'' => .ok ({ s'' with parent := s''.np - 1 }, true)    -- parent_ = np_ - 1

/-- the `count` nodes `st_[from .. from + count)` read by `Xmemcpy` -/
def Sax.readNodes (s : Sax) : Nat → Nat → Except Fault (List Node)
  | _, 0 => .ok []
  | i, k + 1 =>
    match s.get i with
    | .error e => .error e
    | .ok n =>
      match s.readNodes (i + 1) k with
      | .error e => .error e
      | .ok ns => .ok (n :: ns)

/-- after the `Xmemcpy` the source slots hold stale bit copies of nodes that now live in the container: raw memory -/
def Sax.release (s : Sax) : Nat → Nat → Sax
  | _, 0 => s
  | i, k + 1 => ({ s with st := s.st.set i none }).release (i + 1) k

/-- common part of `EndObject(pairs)` (`nodes = 2 * pairs`) and `EndArray(count)` (`nodes = count`) -/
def Sax.endContainer (s : Sax) (nodes : Nat) (mk : List Node → Node) : Except Fault Sax :=
  match s.get s.parent with                                     -- NodeType &obj = st_[parent_]
  | .error e => .error e
  | .ok (.hole old) =>                                          -- size_t old = obj.o.next.ofs
    match s.readNodes (s.parent + 1) nodes with                 -- Xmemcpy(children, &obj + 1, n)
    | .error e => .error e
    | .ok children =>
      let s := s.release (s.parent + 1) nodes
      match s.put s.parent (some (mk children)) with            -- setLength(n, kind); setChildren(mem)
      | .error e => .error e
      | .ok s =>
        .ok { s with np := s.parent + 1, parent := old,          -- np_ = parent_ + 1; parent_ = old
                      mallocs := s.mallocs + (if nodes = 0 then 0 else 1) }
  | .ok _ => .error .badNode

/-- `EndObject(pairs)`: `sizeof(MemberType) = 2 * sizeof(NodeType)` -/
def Sax.endObject (s : Sax) (pairs : Nat) : Except Fault Sax := s.endContainer (2 * pairs) .obj
/-- `EndArray(count)` -/
def Sax.endArray (s : Sax) (count : Nat) : Except Fault Sax := s.endContainer count .arr

/-- `TearDown()` (run by `~SAXHandler`): destroys `st_[0 .. np_)`; result = number of heap blocks freed by the
    node destructors (the `std::free(st_)` of the stack itself is accounted for by the caller) -/
def Sax.tearDownFrom (s : Sax) : Nat → Nat → Except Fault Nat
  | _, 0 => .ok 0
  | i, k + 1 =>
    match s.get i with
    | .error e => .error e
    | .ok n =>
      match s.tearDownFrom (i + 1) k with
      | .error e => .error e
      | .ok f => .ok (n.allocs + f)

def Sax.tearDown (s : Sax) : Except Fault Nat := s.tearDownFrom 0 s.np

end Sonic.Model.Parse
