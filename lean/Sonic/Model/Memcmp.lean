/-!
# Model of the key comparison kernels (property C14)

Sources transcribed (sonic-cpp):
* `include/sonic/internal/arch/avx2/base.h`: `in_page_32`, `cmp_lt_32`, `is_eq_lt_32_cross_page`,
  `is_eq_lt_32`, `InlinedMemcmpEq`, `InlinedMemcmp`;
* `include/sonic/internal/arch/sse/base.h`: both kernels are `std::memcmp` (`memcmpRef` below);
* `include/sonic/dom/dynamicnode.h`: functor `Less` and `findMemberImpl(const char*, size_t)`.

Memory model: `Mem = Nat → Option Nat` (address → byte, `none` = unmapped).  A `W`-byte vector load at
address `p` reads the bytes `p … p+W-1` and is a `Fault` if one of them is unmapped; every load of the
C++ code is a `load`/`rd` here and faults propagate through `Except Fault` (a load whose value ends up
unused still faults).  Pointers are addresses, `size_t` is `Nat` (the theorems hold for unbounded `s`).

SIMD primitives, per lane: `cmpeq` = `_mm256_cmpeq_epi8`/`_mm_cmpeq_epi8` (vector of lane flags),
`vand` = `_mm256_and_si256`/`_mm_and_si128` on such flag vectors, `movemask` = bit `i` set iff lane `i`
is set, `mask32 v = (movemask v + 1) mod 2^32` (the `int`/`uint32_t` wrap-around of `movemask + 1`),
`bzhi` = the BMI2 instruction (index taken from the low 8 bits; an index ≥ 32 copies the source), `ctz32` =
`__builtin_ctz` (index of the lowest set bit; 32 for input 0, which the code never uses).

`san = true` is a sanitizer build (`SONIC_USE_SANITIZE`): `in_page_32` returns `false`.
-/

namespace Sonic.Model.Memcmp

/-- address → byte; `none` = unmapped -/
abbrev Mem := Nat → Option Nat

/-- access to an unmapped address -/
structure Fault where
  addr : Nat
  deriving DecidableEq, Repr

/-- one byte read `*p` -/
def rd (mem : Mem) (p : Nat) : Except Fault Nat :=
  match mem p with
  | some v => .ok v
  | none => .error ⟨p⟩

/-- `w`-byte (vector) load at `p`: reads `p … p+w-1`, faults if any of them is unmapped -/
def load (mem : Mem) (p : Nat) : Nat → Except Fault (List Nat)
  | 0 => .ok []
  | w + 1 =>
    match mem p with
    | none => .error ⟨p⟩
    | some v =>
      match load mem (p + 1) w with
      | .ok vs => .ok (v :: vs)
      | .error e => .error e

/-- `_mm*_cmpeq_epi8`: lane `i` set iff byte `i` of the two vectors are equal -/
def cmpeq : List Nat → List Nat → List Bool
  | x :: xs, y :: ys => decide (x = y) :: cmpeq xs ys
  | _, _ => []

/-- `_mm*_and_si*` on two lane-flag vectors -/
def vand : List Bool → List Bool → List Bool
  | x :: xs, y :: ys => (x && y) :: vand xs ys
  | _, _ => []

/-- `_mm*_movemask_epi8`: bit `i` = lane `i` -/
def movemask : List Bool → Nat
  | [] => 0
  | b :: bs => (if b then 1 else 0) + 2 * movemask bs

/-- `movemask + 1` in 32-bit arithmetic -/
def mask32 (v : List Bool) : Nat := (movemask v + 1) % 2 ^ 32

/-- `bzhil idx, src`: keep the low `idx[7:0]` bits of `src`; an index ≥ 32 keeps everything -/
def bzhi (m s : Nat) : Nat :=
  let n := s % 256
  if n < 32 then m % 2 ^ n else m

def ctzAux : Nat → Nat → Nat
  | 0, _ => 0
  | f + 1, n => if n % 2 = 1 then 0 else 1 + ctzAux f (n / 2)

/-- `__builtin_ctz` on a 32-bit value (index of the lowest set bit) -/
def ctz32 (n : Nat) : Nat := ctzAux 32 n

/-- `in_page_32(a, b)`: `((a | b) & (PageSize-1)) <= PageSize - VecLen`; `false` under sanitizers -/
def in_page_32 (san : Bool) (a b : Nat) : Bool :=
  if san then false else decide ((a ||| b) % 4096 ≤ 4096 - 32)

/-- `std::memcmp(a, b, s)`: byte-wise; reads exactly the bytes of `[a,a+s)`, `[b,b+s)` up to and
    including the first difference.  (The C standard only fixes the sign of the result; the model returns
    the byte difference, as glibc's generic implementation does.  The protocol compares signs only.) -/
def memcmpRef (mem : Mem) (a b : Nat) : Nat → Except Fault Int
  | 0 => .ok 0
  | s + 1 => do
    let x ← rd mem a
    let y ← rd mem b
    if x ≠ y then pure ((x : Int) - (y : Int)) else memcmpRef mem (a + 1) (b + 1) s

/-- `cmp_lt_32(_l, _r, s)` (called with `0 < s < 32`) -/
def cmp_lt_32 (san : Bool) (mem : Mem) (l r s : Nat) : Except Fault Int :=
  if in_page_32 san l r then do
    let vec_l ← load mem r 32          -- sic: the C++ loads `rhs` into `vec_l`
    let vec_r ← load mem l 32
    let mask := bzhi (mask32 (cmpeq vec_l vec_r)) s
    if mask ≠ 0 then
      let ne_idx := ctz32 mask
      let x ← rd mem (l + ne_idx)
      let y ← rd mem (r + ne_idx)
      pure ((x : Int) - (y : Int))
    else pure 0
  else memcmpRef mem l r s

/-- `__builtin_memcmp(a, b, k) == 0` as a `k`-byte load compare -/
def memEqK (mem : Mem) (a b k : Nat) : Except Fault Bool := do
  let x ← load mem a k
  let y ← load mem b k
  pure (decide (x = y))

/-- `is_eq_lt_32_cross_page(_a, _b, s)` (called with `0 < s < 32`) -/
def is_eq_lt_32_cross_page (mem : Mem) (a b s : Nat) : Except Fault Bool :=
  if s ≥ 16 then do
    let vec_a ← load mem a 16
    let vec_b ← load mem b 16
    let ans1 := cmpeq vec_a vec_b
    let vec_a ← load mem (a + s - 16) 16
    let vec_b ← load mem (b + s - 16) 16
    let ans2 := cmpeq vec_a vec_b
    let ans := vand ans1 ans2
    pure (decide (movemask ans = 0xFFFF))
  else if s ≥ 8 then do
    if ← memEqK mem a b 8 then memEqK mem (a + s - 8) (b + s - 8) 8 else pure false
  else if s ≥ 4 then do
    if ← memEqK mem a b 4 then memEqK mem (a + s - 4) (b + s - 4) 4 else pure false
  else if s ≥ 2 then do
    if ← memEqK mem a b 2 then memEqK mem (a + s - 2) (b + s - 2) 2 else pure false
  else do
    let x ← rd mem a
    let y ← rd mem b
    pure (decide (x = y))

/-- `is_eq_lt_32(_a, _b, s)` (called with `0 < s < 32`) -/
def is_eq_lt_32 (san : Bool) (mem : Mem) (a b s : Nat) : Except Fault Bool :=
  if in_page_32 san a b then do
    let vec_a ← load mem a 32
    let vec_b ← load mem b 32
    let mask := bzhi (mask32 (cmpeq vec_a vec_b)) s
    pure (decide (mask = 0))
  else is_eq_lt_32_cross_page mem a b s

/-- the middle loop of `InlinedMemcmpEq`: `for (i = 32; i < avx2_end; i += 32) { … if (mask) return false; }`,
    as `n` iterations starting at offset `i`; `false` = the early `return false` was taken -/
def eqLoop (mem : Mem) (a b : Nat) : Nat → Nat → Except Fault Bool
  | _, 0 => pure true
  | i, n + 1 => do
    let vec_a ← load mem (a + i) 32
    let vec_b ← load mem (b + i) 32
    let mask := mask32 (cmpeq vec_a vec_b)
    if mask ≠ 0 then pure false else eqLoop mem a b (i + 32) n

/-- `InlinedMemcmpEq(_a, _b, s)`.  `avx2_end = s & ~31 = 32 * (s / 32)`; the loop runs for
    `i = 32, 64, … < avx2_end`, i.e. `s / 32 - 1` times. -/
def InlinedMemcmpEq (san : Bool) (mem : Mem) (a b s : Nat) : Except Fault Bool :=
  if s = 0 then pure true
  else if s < 32 then is_eq_lt_32 san mem a b s
  else do
    let avx2_end := s / 32 * 32
    let vec_a ← load mem a 32
    let vec_b ← load mem b 32
    let ans_1 := cmpeq vec_a vec_b
    if !(← eqLoop mem a b 32 (avx2_end / 32 - 1)) then pure false
    else
      let vec_a ← load mem (a + s - 32) 32
      let vec_b ← load mem (b + s - 32) 32
      let ans := vand (cmpeq vec_a vec_b) ans_1
      let mask := mask32 ans
      if mask ≠ 0 then pure false else pure true

/-- the middle loop of `InlinedMemcmp`; `some r` = the early `return lhs[i+ne_idx] - rhs[i+ne_idx]` -/
def cmpLoop (mem : Mem) (l r : Nat) : Nat → Nat → Except Fault (Option Int)
  | _, 0 => pure none
  | i, n + 1 => do
    let vec_l ← load mem (l + i) 32
    let vec_r ← load mem (r + i) 32
    let mask := mask32 (cmpeq vec_l vec_r)
    if mask ≠ 0 then
      let ne_idx := ctz32 mask
      let x ← rd mem (l + (i + ne_idx))
      let y ← rd mem (r + (i + ne_idx))
      pure (some ((x : Int) - (y : Int)))
    else cmpLoop mem l r (i + 32) n

/-- `InlinedMemcmp(_l, _r, s)` -/
def InlinedMemcmp (san : Bool) (mem : Mem) (l r s : Nat) : Except Fault Int :=
  if s = 0 then pure 0
  else if s < 32 then cmp_lt_32 san mem l r s
  else do
    let avx2_end := s / 32 * 32
    let vec_l ← load mem l 32
    let vec_r ← load mem r 32
    let mask := mask32 (cmpeq vec_l vec_r)
    if mask ≠ 0 then
      let ne_idx := ctz32 mask
      let x ← rd mem (l + ne_idx)
      let y ← rd mem (r + ne_idx)
      pure ((x : Int) - (y : Int))
    else
      match ← cmpLoop mem l r 32 (avx2_end / 32 - 1) with
      | some d => pure d
      | none =>
        let offset := s - 32
        let vec_l ← load mem (l + offset) 32
        let vec_r ← load mem (r + offset) 32
        let mask := mask32 (cmpeq vec_l vec_r)
        if mask ≠ 0 then
          let ne_idx := ctz32 mask
          let x ← rd mem (l + (offset + ne_idx))
          let y ← rd mem (r + (offset + ne_idx))
          pure ((x : Int) - (y : Int))
        else pure 0

/-- `Less::operator()(s1, s2)` on two string views `(data, size)` -/
def lessAt (san : Bool) (mem : Mem) (p1 n1 p2 n2 : Nat) : Except Fault Bool := do
  let len := min n1 n2
  let cmp ← InlinedMemcmp san mem p1 p2 len
  pure (decide (cmp < 0) || (decide (cmp = 0) && decide (n1 < n2)))

/-- linear `findMemberImpl(const char* key, size_t len)` over the member names `(data, size)`:
    index of the first member with `name.size() == len && InlinedMemcmpEq(name.data(), key, len)`
    (`none` = `MemberEnd()`); `&&` short-circuits, so the kernel runs only on equal sizes -/
def findMemberAt (san : Bool) (mem : Mem) : List (Nat × Nat) → Nat → Nat → Except Fault (Option Nat)
  | [], _, _ => pure none
  | (p, n) :: rest, key, len => do
    let hit ← if n = len then InlinedMemcmpEq san mem p key len else pure false
    if hit then pure (some 0)
    else
      let r ← findMemberAt san mem rest key len
      pure (r.map (· + 1))

/-! ## Placing byte strings in memory -/

/-- a mapped region `[base, base+size)` holding `xs` at `[start, start + xs.length)` and the byte `g`
    everywhere else; unmapped outside -/
def arena (base size start : Nat) (xs : List Nat) (g : Nat) : Mem := fun p =>
  if base ≤ p ∧ p < base + size then
    if start ≤ p ∧ p < start + xs.length then xs[p - start]? else some g
  else none

/-- union of two memories (first one wins) -/
def union (m1 m2 : Mem) : Mem := fun p =>
  match m1 p with
  | some v => some v
  | none => m2 p

/-- whole pages needed for `n` bytes (at least one) -/
def regionSize (n : Nat) : Nat := 4096 * (n / 4096 + 1)

/-- start address of the first operand in `place2`: it *ends on the last mapped byte* of its region -/
def addr1 (xs : List Nat) : Nat := regionSize xs.length - xs.length

def base2 (xs : List Nat) : Nat := regionSize xs.length + 4096

def addr2 (xs ys : List Nat) : Nat := base2 xs + regionSize ys.length - ys.length

/-- canonical adversarial placement of two byte strings: each in its own page-aligned region, ending on
    the last mapped byte of the region, followed by an unmapped page; garbage byte `g` before them -/
def place2 (xs ys : List Nat) (g : Nat) : Mem :=
  union (arena 0 (regionSize xs.length) (addr1 xs) xs g)
        (arena (base2 xs) (regionSize ys.length) (addr2 xs ys) ys g)

/-- `Less` on byte lists (placed by `place2`, production path).  A fault would yield `false`;
    `Sonic.Props.C14.C14_less` shows that no fault occurs. -/
def less (s1 s2 : List Nat) : Bool :=
  match lessAt false (place2 s1 s2 170) (addr1 s1) s1.length (addr2 s1 s2) s2.length with
  | .ok b => b
  | .error _ => false

/-- `name.size() == len && InlinedMemcmpEq(name.data(), key, len)` on byte lists (placed by `place2`) -/
def nameEq (name key : List Nat) : Bool :=
  if name.length = key.length then
    match InlinedMemcmpEq false (place2 name key 170) (addr1 name) (addr2 name key) key.length with
    | .ok b => b
    | .error _ => false
  else false

/-- linear `findMemberImpl` on byte lists: first index whose name has the same length and compares equal
    (each comparison in its own `place2` memory; `findMemberAt` is the version on one arbitrary memory and
    `Sonic.Props.C14.C14_find_at` relates the two) -/
def findMember : List (List Nat) → List Nat → Option Nat
  | [], _ => none
  | n :: rest, key => if nameEq n key then some 0 else (findMember rest key).map (· + 1)

/-! ## Driver: the `memcmp` command of `/verif/protocol/memcmp.md` -/

private def hexDigit (c : Char) : Option Nat :=
  if '0' ≤ c ∧ c ≤ '9' then some (c.toNat - 48)
  else if 'a' ≤ c ∧ c ≤ 'f' then some (c.toNat - 87)
  else if 'A' ≤ c ∧ c ≤ 'F' then some (c.toNat - 55)
  else none

private def parseHexAux : List Char → List Nat → Option (List Nat)
  | [], acc => some acc.reverse
  | [_], _ => none
  | a :: b :: rest, acc =>
    match hexDigit a, hexDigit b with
    | some x, some y => parseHexAux rest ((x * 16 + y) :: acc)
    | _, _ => none

/-- bytes as pairs of hex digits; `-` is the empty string -/
private def parseHex (s : String) : Option (List Nat) :=
  if s == "-" then some [] else parseHexAux s.toList []

def arenaBaseA : Nat := 0x100000
def arenaBaseB : Nat := 0x200000

/-- the harness memory: two arenas of 2 mapped pages, each followed by unmapped space -/
def harnessMem (offA offB g : Nat) (xa xb : List Nat) : Mem :=
  union (arena arenaBaseA 8192 (arenaBaseA + 8192 - offA - xa.length) xa g)
        (arena arenaBaseB 8192 (arenaBaseB + 8192 - offB - xb.length) xb g)

private def showBool : Except Fault Bool → String
  | .ok true => "1"
  | .ok false => "0"
  | .error _ => "fault"

private def showSign : Except Fault Int → String
  | .ok r => if r < 0 then "-1" else if r = 0 then "0" else "1"
  | .error _ => "fault"

def runLine (toks : List String) : String :=
  match toks with
  | ["memcmp", offA, offB, garbage, hexA, hexB] =>
    match offA.toNat?, offB.toNat?, garbage.toNat?, parseHex hexA, parseHex hexB with
    | some oa, some ob, some g, some xa, some xb =>
      if xa.length = xb.length ∧ oa ≤ 4096 ∧ ob ≤ 4096 ∧ g < 256 ∧
          oa + xa.length ≤ 8192 ∧ ob + xb.length ≤ 8192 then
        let len := xa.length
        let mem := harnessMem oa ob g xa xb
        let a := arenaBaseA + 8192 - oa - len
        let b := arenaBaseB + 8192 - ob - len
        s!"eq={showBool (InlinedMemcmpEq false mem a b len)} cmp={showSign (InlinedMemcmp false mem a b len)} san_eq={showBool (InlinedMemcmpEq true mem a b len)} san_cmp={showSign (InlinedMemcmp true mem a b len)}"
      else "bad-op"
    | _, _, _, _, _ => "bad-op"
  | _ => "bad-op"

end Sonic.Model.Memcmp
