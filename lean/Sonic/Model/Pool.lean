import Sonic.Gen.Tables

/-!
# Model of `MemoryPoolAllocator<LoggingBase, ChunkPolicy>` (`include/sonic/allocator.h`)

A literal, executable transcription of `SimpleChunkPolicy`, `AdaptiveChunkPolicy` and
`MemoryPoolAllocator` (constructors, copy/move construction and assignment, destructor, `Clear`,
`Capacity`, `Size`, `Shared`, `Malloc`, `Realloc`, `AddChunk`, `AlignBuffer`), together with the
bookkeeping the C++ harness performs on top of it (block numbers, pattern fill, content checks), and the
line protocol of `/verif/protocol/pool.md`.

## Trusted-base assumptions (about the *base* allocator, i.e. `malloc`/`free`)
* Every base `Malloc` succeeds and returns a **fresh region**, identified by its serial number
  `0,1,2,…` (the order of the base `Malloc` calls; the user buffer of `pool-newbuf` takes a serial too).
  **Regions with different serials are pairwise disjoint** byte ranges, and a region is at least
  8-byte aligned (`malloc` gives 16).  Hence `SIZEOF_SHARED_DATA`(32) / `SIZEOF_CHUNK_HEADER`(24) keep
  chunk buffers 8-byte aligned, and "offset % 8 = 0" is real 8-byte alignment.
* A pointer is `(region serial, offset from the start of that chunk's *buffer*)` or null.  Because
  regions are disjoint and a block handed out lies inside its chunk buffer, the C++ pointer comparison
  `originalPtr == GetChunkBuffer(shared_) + head->size - originalSize` of `Realloc` is modelled by
  `region = head.region ∧ offset + originalSize = head.size`.
* All sizes are `< 2^32` (checked by `Op.pre`), so none of the `size_t` computations wraps; the model
  computes in `Nat`.
* The harness always passes a base allocator (`&base`), so `ownBaseAllocator = 0` and the
  `new BaseAllocator()` / `delete a` paths are dead; they are not modelled.

## Memory
`Mem` holds one byte array per region serial, covering exactly the chunk *buffer* of that region
(`capacity` bytes; the header bytes in front of it are not addressable through pool pointers).
Never-written bytes hold `poison` (= 256, not a byte value).  `free` shrinks the region to 0 bytes, so
that any later read of it fails (`none`).  Reads out of bounds are `none`; writes out of bounds are
dropped, which a later read of the block detects (the property theorems prove neither happens).
-/

namespace Sonic.Model.Pool
open Sonic.Gen

/-! ## memory -/

abbrev Mem := Array (Array Nat)

/-- marker for a byte never written (not a byte value, so it can match no pattern byte) -/
def poison : Nat := 256

namespace Mem

def read (m : Mem) (r o : Nat) : Option Nat :=
  match m[r]? with
  | some a => a[o]?
  | none => none

/-- base `Malloc(bytes)` of which the first `hdr` bytes are header(s): the new region gets serial
    `m.size`; only the `bytes - hdr` buffer bytes are addressable -/
def baseMalloc (m : Mem) (bytes hdr : Nat) : Mem := m.push (Array.replicate (bytes - hdr) poison)

/-- base `Free` of region `r` -/
def free (m : Mem) (r : Nat) : Mem := m.setIfInBounds r #[]

def freeAll (m : Mem) : List Nat → Mem
  | [] => m
  | r :: rs => freeAll (m.free r) rs

/-- `a[o+j] := f j` for `j = i, i+1, …, i+n-1` -/
def fillFrom (f : Nat → Nat) (o : Nat) : Nat → Nat → Array Nat → Array Nat
  | _, 0, a => a
  | i, n + 1, a => fillFrom f o (i + 1) n (a.setIfInBounds (o + i) (f i))

/-- store `f 0 … f (len-1)` at `(r, o) …` -/
def fill (m : Mem) (r o len : Nat) (f : Nat → Nat) : Mem := m.modify r (fillFrom f o 0 len)

/-- `memcpy((dr,dof), (sr,sof), len)` (source and destination never overlap when the pool calls it) -/
def copy (m : Mem) (dr dof sr sof len : Nat) : Mem :=
  m.fill dr dof len (fun j => (m.read sr (sof + j)).getD poison)

end Mem

/-! ## chunk policies -/

/-- `SONIC_ALIGN(x) = (x + 7) & ~7` -/
def alignUp (x : Nat) : Nat := (x + 7) / 8 * 8

inductive PolicyKind
  | simple | adaptive
  deriving DecidableEq, Repr

/-- `cp_`: the policy object (its only data member is `min_chunk_size_`) -/
structure Policy where
  kind : PolicyKind
  minChunk : Nat
  deriving DecidableEq, Repr

/-- `ChunkPolicy::ChunkSize(need)`; returns the (possibly updated) policy object and the chunk size.
    `1ULL << (64 - __builtin_clzll(need))` is `2 ^ (log2 need + 1)` for `0 < need < 2^63`. -/
def Policy.chunkSize (cp : Policy) (need : Nat) : Policy × Nat :=
  match cp.kind with
  | .simple => (cp, if cp.minChunk > need then cp.minChunk else need)
  | .adaptive =>
    let cp' : Policy :=
      if cp.minChunk < need ∧ cp.minChunk < SONIC_MAX_CHUNK_CAPACITY then
        let p := 2 ^ (Nat.log2 need + 1)
        { cp with minChunk := if p < SONIC_MAX_CHUNK_CAPACITY then p else SONIC_MAX_CHUNK_CAPACITY }
      else cp
    (cp', if cp'.minChunk > need then cp'.minChunk else need)

/-! ## pool state -/

/-- `ChunkHeader` (+ the serial of the base region the chunk lives in) -/
structure Chunk where
  reg : Nat
  cap : Nat
  size : Nat
  deriving DecidableEq, Repr

/-- `SharedData` with its chunk list (`head :: rest`, `chunkHead` first; never empty) -/
structure Pool where
  head : Chunk
  rest : List Chunk
  refcount : Nat
  ownBuffer : Bool
  /-- serial of the region holding `SharedData` (= the region of the first/user chunk) -/
  sreg : Nat
  deriving DecidableEq, Repr

def Pool.chunks (p : Pool) : List Chunk := p.head :: p.rest

/-- `Capacity()` -/
def Pool.capacity (p : Pool) : Nat := (p.chunks.map (·.cap)).sum
/-- `Size()` -/
def Pool.size (p : Pool) : Nat := (p.chunks.map (·.size)).sum
/-- `Shared()` -/
def Pool.shared (p : Pool) : Bool := p.refcount > 1

/-- the chunk `Clear` keeps: the last one of the list (the first/user chunk) -/
def lastChunk : Chunk → List Chunk → Chunk
  | h, [] => h
  | _, c :: t => lastChunk c t

/-- regions `Clear` frees, in order (every chunk that has a `next`) -/
def freedByClear : Chunk → List Chunk → List Nat
  | _, [] => []
  | h, c :: t => h.reg :: freedByClear c t

/-- `Clear()` on the shared data: new shared data and the regions passed to base `Free` -/
def Pool.clear (p : Pool) : Pool × List Nat :=
  ({ p with head := { lastChunk p.head p.rest with size := 0 }, rest := [] }, freedByClear p.head p.rest)

abbrev Ptr := Option (Nat × Nat)

structure MallocRes where
  pool : Pool
  cp : Policy
  mem : Mem
  ptr : Ptr

/-- `Malloc(size)` (with `AddChunk` inlined) -/
def poolMalloc (p : Pool) (cp : Policy) (mem : Mem) (size : Nat) : MallocRes :=
  if size = 0 then ⟨p, cp, mem, none⟩ else
  let size := alignUp size
  if p.head.size + size > p.head.cap then
    -- AddChunk(cp_.ChunkSize(size))
    let (cp', capacity) := cp.chunkSize size
    let reg := mem.size
    let mem' := mem.baseMalloc (SIZEOF_CHUNK_HEADER + capacity) SIZEOF_CHUNK_HEADER
    -- buffer = GetChunkBuffer + 0 ; head.size += size
    ⟨{ p with head := ⟨reg, capacity, size⟩, rest := p.head :: p.rest }, cp', mem', some (reg, 0)⟩
  else
    ⟨{ p with head := { p.head with size := p.head.size + size } }, cp, mem,
      some (p.head.reg, p.head.size)⟩

/-- `Realloc(originalPtr, originalSize, newSize)` -/
def poolRealloc (p : Pool) (cp : Policy) (mem : Mem) (orig : Ptr) (originalSize newSize : Nat) :
    MallocRes :=
  match orig with
  | none => poolMalloc p cp mem newSize
  | some (r, o) =>
    if newSize = 0 then ⟨p, cp, mem, none⟩ else
    let originalSize := alignUp originalSize
    let newSize := alignUp newSize
    if originalSize ≥ newSize then ⟨p, cp, mem, some (r, o)⟩ else
    if r = p.head.reg ∧ o + originalSize = p.head.size ∧
        p.head.size + (newSize - originalSize) ≤ p.head.cap then
      ⟨{ p with head := { p.head with size := p.head.size + (newSize - originalSize) } }, cp, mem,
        some (r, o)⟩
    else
      let m := poolMalloc p cp mem newSize
      match m.ptr with
      | some (r', o') =>
        { m with mem := if originalSize ≠ 0 then m.mem.copy r' o' r o originalSize else m.mem }
      | none => m

/-! ## handles, blocks, global state -/

/-- a slot of the harness: no object, a moved-from object (`shared_ == 0`), or a live handle -/
inductive Handle
  | empty
  | moved (cp : Policy)
  | live (pool : Nat) (cp : Policy)
  deriving DecidableEq, Repr

def Handle.refers (pid : Nat) : Handle → Bool
  | .live q _ => q == pid
  | _ => false

/-- ghost record of a block handed out (and not yet dropped by `Clear`/destruction of its pool) -/
structure Block where
  id : Nat
  pool : Nat
  reg : Nat
  off : Nat
  /-- size last requested for it -/
  req : Nat
  /-- the aligned size the allocator accounts for it -/
  asz : Nat
  deriving DecidableEq, Repr

structure State where
  /-- shared states in creation order; `none` once the last handle was destroyed -/
  pools : List (Option Pool)
  /-- slots 0..7 -/
  slots : List Handle
  mem : Mem
  /-- blocks handed out since their pool's last `Clear`, newest first -/
  blocks : List Block
  nextBlock : Nat
  /-- total number of base `Free` calls -/
  frees : Nat
  /-- ghost: serials passed to base `Free`, oldest first -/
  freed : List Nat
  /-- ghost: serials of user-supplied buffers -/
  userRegs : List Nat

def State.init : State :=
  { pools := [], slots := List.replicate 8 .empty, mem := #[], blocks := [], nextBlock := 0,
    frees := 0, freed := [], userRegs := [] }

/-- the live shared state number `pid`, if any -/
def poolAt (pools : List (Option Pool)) (pid : Nat) : Option Pool :=
  match pools[pid]? with
  | some (some p) => some p
  | _ => none

abbrev State.pool? (s : State) (pid : Nat) : Option Pool := poolAt s.pools pid

def State.findBlock (s : State) (bid : Nat) : Option Block := s.blocks.find? (fun b => b.id == bid)

/-- `pat(n,i)` of pool.md -/
def pat (n i : Nat) : Nat := (n * 31 + i * 7 + 1) % 251

/-! ## operations -/

inductive Op
  | new (slot : Nat) (kind : PolicyKind) (chunkcap : Nat)
  | newbuf (slot : Nat) (kind : PolicyKind) (chunkcap bufsize misalign : Nat)
  | copy (dst src : Nat)
  | move (dst src : Nat)
  | assign (dst src : Nat)
  | massign (dst src : Nat)
  | destroy (slot : Nat)
  | malloc (slot size : Nat)
  | realloc (slot : Nat) (blk : Option Nat) (oldsize newsize : Nat)
  | clear (slot : Nat)
  | stat (slot : Nat)
  deriving DecidableEq, Repr

inductive Out
  | skipped
  | ok
  | created (size cap : Nat)
  | destroyed (freed : Nat)
  | cleared (freed size cap : Nat)
  | ptr (p : Ptr) (size cap : Nat) (same : Bool) (copyOk : Option Bool)
  | stat (size cap : Nat) (shared : Bool)
  deriving DecidableEq, Repr

def maxSize : Nat := 2 ^ 32

def isLive (s : State) (k : Nat) : Bool :=
  match s.slots[k]? with
  | some (.live _ _) => true
  | _ => false

def isEmpty (s : State) (k : Nat) : Bool :=
  match s.slots[k]? with
  | some .empty => true
  | _ => false

/-- the `ChunkPolicy` template argument of the object in slot `k` (`none` for an empty slot): part of
    its C++ *type*, so copy/move construction preserve it and assignment requires it to agree -/
def slotKind (s : State) (k : Nat) : Option PolicyKind :=
  match s.slots[k]? with
  | some (.live _ cp) => some cp.kind
  | some (.moved cp) => some cp.kind
  | _ => none

/-- bytes lost by `AlignBuffer` for a buffer whose address is `≡ misalign (mod 8)` -/
def alignLoss (misalign : Nat) : Nat := if misalign % 8 ≠ 0 then 8 - misalign % 8 else 0

/-- The documented preconditions (pool.md).  An op violating them is *skipped*: `step` leaves the
    state unchanged and answers `Out.skipped` (`bad-op`). -/
def Op.pre (s : State) : Op → Bool
  | .new slot _ cap => isEmpty s slot && decide (cap < maxSize)
  | .newbuf slot _ cap bufsize misalign =>
      isEmpty s slot && decide (cap < maxSize) && decide (bufsize < maxSize) && decide (misalign < 8) &&
      decide (alignLoss misalign + (SIZEOF_SHARED_DATA + SIZEOF_CHUNK_HEADER) ≤ bufsize)
  | .copy dst src => isEmpty s dst && isLive s src
  | .move dst src => isEmpty s dst && isLive s src
  | .assign dst src => !isEmpty s dst && decide (dst < 8) && isLive s src &&
      decide (slotKind s dst = slotKind s src)
  | .massign dst src => !isEmpty s dst && decide (dst < 8) && isLive s src && decide (dst ≠ src) &&
      decide (slotKind s dst = slotKind s src)
  | .destroy slot => !isEmpty s slot && decide (slot < 8)
  | .malloc slot size => isLive s slot && decide (size < maxSize)
  | .realloc slot blk oldsize newsize =>
      isLive s slot && decide (oldsize < maxSize) && decide (newsize < maxSize) &&
      (match blk with
       | none => true
       | some bid =>
         match s.findBlock bid with
         | some b => decide (b.req = oldsize)
         | none => false)
  | .clear slot => isLive s slot
  | .stat slot => isLive s slot

/-- default constructor `MemoryPoolAllocator(chunkSize, &base)` -/
def execNew (s : State) (slot : Nat) (kind : PolicyKind) (chunkcap : Nat) : State × Out :=
  let sreg := s.mem.size
  let mem := s.mem.baseMalloc (SIZEOF_SHARED_DATA + SIZEOF_CHUNK_HEADER)
    (SIZEOF_SHARED_DATA + SIZEOF_CHUNK_HEADER)
  let p : Pool := { head := ⟨sreg, 0, 0⟩, rest := [], refcount := 1, ownBuffer := true, sreg := sreg }
  ({ s with pools := s.pools ++ [some p], slots := s.slots.set slot (.live s.pools.length ⟨kind, chunkcap⟩),
            mem := mem },
   .created p.size p.capacity)

/-- user-buffer constructor `MemoryPoolAllocator(buffer, size, chunkSize, &base)`; the buffer region
    (serial `mem.size`) is addressed from the start of the first chunk's buffer, i.e. after
    `AlignBuffer` + `SIZEOF_SHARED_DATA + SIZEOF_CHUNK_HEADER` -/
def execNewbuf (s : State) (slot : Nat) (kind : PolicyKind) (chunkcap bufsize misalign : Nat) :
    State × Out :=
  let sreg := s.mem.size
  let size := bufsize - alignLoss misalign        -- AlignBuffer: size -= abuf - ubuf
  let capacity := size - SIZEOF_SHARED_DATA - SIZEOF_CHUNK_HEADER
  let mem := s.mem.baseMalloc size (SIZEOF_SHARED_DATA + SIZEOF_CHUNK_HEADER)
  let p : Pool := { head := ⟨sreg, capacity, 0⟩, rest := [], refcount := 1, ownBuffer := false,
                    sreg := sreg }
  ({ s with pools := s.pools ++ [some p], slots := s.slots.set slot (.live s.pools.length ⟨kind, chunkcap⟩),
            mem := mem, userRegs := sreg :: s.userRegs },
   .created p.size p.capacity)

/-- regions the destructor of the *last* handle passes to base `Free`: `Clear()`, then
    `Free(shared_)` iff `ownBuffer` -/
def Pool.dtorFrees (p : Pool) : List Nat := p.clear.2 ++ (if p.ownBuffer then [p.sreg] else [])

/-- `~MemoryPoolAllocator()` of a handle; returns the number of base `Free` calls -/
def dtor (s : State) : Handle → State × Nat
  | .live pid _ =>
    match s.pool? pid with
    | some p =>
      if p.refcount > 1 then
        ({ s with pools := s.pools.set pid (some { p with refcount := p.refcount - 1 }) }, 0)
      else
        let regs := p.dtorFrees
        ({ s with pools := s.pools.set pid none, mem := s.mem.freeAll regs,
                  blocks := s.blocks.filter (fun b => b.pool != pid),
                  frees := s.frees + regs.length, freed := s.freed ++ regs }, regs.length)
    | none => (s, 0)
  | _ => (s, 0)       -- moved-from: `if (!shared_) return;`

/-- `++shared_->refcount` -/
def incRef (s : State) (pid : Nat) : State :=
  match s.pool? pid with
  | some p => { s with pools := s.pools.set pid (some { p with refcount := p.refcount + 1 }) }
  | none => s

def execCopy (s : State) (dst src : Nat) : State × Out :=
  match s.slots[src]? with
  | some (.live pid cp) =>
    let s1 := incRef s pid
    ({ s1 with slots := s1.slots.set dst (.live pid cp) }, .ok)
  | _ => (s, .skipped)

def execMove (s : State) (dst src : Nat) : State × Out :=
  match s.slots[src]? with
  | some (.live pid cp) =>
    ({ s with slots := (s.slots.set dst (.live pid cp)).set src (.moved cp) }, .ok)
  | _ => (s, .skipped)

def execAssign (s : State) (dst src : Nat) : State × Out :=
  match s.slots[src]?, s.slots[dst]? with
  | some (.live pid cp), some hd =>
    let s1 := incRef s pid                 -- ++rhs.shared_->refcount
    let s2 := (dtor s1 hd).1               -- this->~MemoryPoolAllocator()
    ({ s2 with slots := s2.slots.set dst (.live pid cp) }, .ok)
  | _, _ => (s, .skipped)

def execMassign (s : State) (dst src : Nat) : State × Out :=
  match s.slots[src]?, s.slots[dst]? with
  | some (.live pid cp), some hd =>
    let s2 := (dtor s hd).1                -- this->~MemoryPoolAllocator()
    ({ s2 with slots := (s2.slots.set dst (.live pid cp)).set src (.moved cp) }, .ok)
  | _, _ => (s, .skipped)

def execDestroy (s : State) (slot : Nat) : State × Out :=
  match s.slots[slot]? with
  | some h =>
    let (s1, n) := dtor s h
    ({ s1 with slots := s1.slots.set slot .empty }, .destroyed n)
  | none => (s, .skipped)

def execClear (s : State) (slot : Nat) : State × Out :=
  match s.slots[slot]? with
  | some (.live pid _) =>
    match s.pool? pid with
    | some p =>
      let (p', regs) := p.clear
      ({ s with pools := s.pools.set pid (some p'), mem := s.mem.freeAll regs,
                blocks := s.blocks.filter (fun b => b.pool != pid),
                frees := s.frees + regs.length, freed := s.freed ++ regs },
       .cleared regs.length p'.size p'.capacity)
    | none => (s, .skipped)
  | _ => (s, .skipped)

def execStat (s : State) (slot : Nat) : State × Out :=
  match s.slots[slot]? with
  | some (.live pid _) =>
    match s.pool? pid with
    | some p => (s, .stat p.size p.capacity p.shared)
    | none => (s, .skipped)
  | _ => (s, .skipped)

/-- the allocator part of `pool-malloc` / `pool-realloc`: run `Realloc(orig, oldsize, newsize)`
    (`Malloc(newsize)` when `orig` is null) through the handle in `slot` and write back the shared
    data, the handle's policy object and memory.  No harness bookkeeping yet. -/
def allocCore (s : State) (slot : Nat) (orig : Ptr) (oldsize newsize : Nat) :
    Option (State × Nat × MallocRes) :=
  match s.slots[slot]? with
  | some (.live pid cp) =>
    match s.pool? pid with
    | some p =>
      let r := poolRealloc p cp s.mem orig oldsize newsize
      some ({ s with pools := s.pools.set pid (some r.pool), slots := s.slots.set slot (.live pid r.cp),
                     mem := r.mem }, pid, r)
    | none => none
  | _ => none

/-- harness: a new block `n` of `size` requested bytes at `(reg, off)` in pool `pid`: record it and
    fill it with its pattern -/
def recordNew (s : State) (pid reg off size : Nat) : State :=
  { s with mem := s.mem.fill reg off size (pat s.nextBlock),
           blocks := ⟨s.nextBlock, pid, reg, off, size, alignUp size⟩ :: s.blocks,
           nextBlock := s.nextBlock + 1 }

/-- harness: block `bid` was returned unchanged in address by a realloc from `oldsize` to
    `newsize > oldsize`: fill the new tail and record the new sizes -/
def recordGrow (s : State) (b : Block) (oldsize newsize : Nat) : State :=
  { s with mem := s.mem.fill b.reg (b.off + oldsize) (newsize - oldsize) (fun j => pat b.id (oldsize + j)),
           blocks := s.blocks.map (fun x => if x.id = b.id then { x with req := newsize, asz := alignUp newsize } else x) }

def bytesEq (m1 : Mem) (r1 o1 : Nat) (m2 : Mem) (r2 o2 : Nat) : Nat → Nat → Bool
  | _, 0 => true
  | i, n + 1 =>
    match m1.read r1 (o1 + i), m2.read r2 (o2 + i) with
    | some x, some y => if x = y then bytesEq m1 r1 o1 m2 r2 o2 (i + 1) n else false
    | _, _ => false

def execMalloc (s : State) (slot size : Nat) : State × Out :=
  match allocCore s slot none 0 size with
  | some (s1, pid, r) =>
    match r.ptr with
    | none => (s1, .ptr none r.pool.size r.pool.capacity false none)
    | some (reg, off) =>
      (recordNew s1 pid reg off size, .ptr (some (reg, off)) r.pool.size r.pool.capacity false none)
  | none => (s, .skipped)

def execRealloc (s : State) (slot : Nat) (blk : Option Nat) (oldsize newsize : Nat) : State × Out :=
  match blk with
  | none =>
    -- null original pointer: Realloc = Malloc(newsize)
    match allocCore s slot none oldsize newsize with
    | some (s1, pid, r) =>
      match r.ptr with
      | none => (s1, .ptr none r.pool.size r.pool.capacity false none)
      | some (reg, off) =>
        (recordNew s1 pid reg off newsize, .ptr (some (reg, off)) r.pool.size r.pool.capacity false none)
    | none => (s, .skipped)
  | some bid =>
    match s.findBlock bid with
    | some b =>
      match allocCore s slot (some (b.reg, b.off)) oldsize newsize with
      | some (s1, pid, r) =>
        match r.ptr with
        | none => (s1, .ptr none r.pool.size r.pool.capacity false none)
        | some (reg, off) =>
          if reg = b.reg ∧ off = b.off then
            ((if newsize > oldsize then recordGrow s1 b oldsize newsize else s1),
             .ptr (some (reg, off)) r.pool.size r.pool.capacity true none)
          else
            let ok := bytesEq s1.mem reg off s.mem b.reg b.off 0 (min oldsize newsize)
            (recordNew s1 pid reg off newsize,
             .ptr (some (reg, off)) r.pool.size r.pool.capacity false (some ok))
      | none => (s, .skipped)
    | none => (s, .skipped)

def exec (s : State) : Op → State × Out
  | .new slot kind cap => execNew s slot kind cap
  | .newbuf slot kind cap bufsize misalign => execNewbuf s slot kind cap bufsize misalign
  | .copy dst src => execCopy s dst src
  | .move dst src => execMove s dst src
  | .assign dst src => execAssign s dst src
  | .massign dst src => execMassign s dst src
  | .destroy slot => execDestroy s slot
  | .malloc slot size => execMalloc s slot size
  | .realloc slot blk o n => execRealloc s slot blk o n
  | .clear slot => execClear s slot
  | .stat slot => execStat s slot

/-- one protocol op; ops outside the documented preconditions are skipped (state unchanged) -/
def step (s : State) (op : Op) : State × Out :=
  if op.pre s then exec s op else (s, .skipped)

def run (ops : List Op) : State := ops.foldl (fun s op => (step s op).1) State.init

/-! ## content check (`mem=`) -/

/-- bytes `o+i … o+i+n-1` of `a` equal `pat id i …` -/
def checkPat (a : Array Nat) (o id : Nat) : Nat → Nat → Bool
  | _, 0 => true
  | i, n + 1 =>
    if h : o + i < a.size then
      if a[o + i] = pat id i then checkPat a o id (i + 1) n else false
    else false

/-- block `b` holds its pattern over its requested size -/
def blockOk (m : Mem) (b : Block) : Bool :=
  match m[b.reg]? with
  | some a => checkPat a b.off b.id 0 b.req
  | none => false

/-- lowest-numbered live block whose contents differ from its pattern -/
def memCheck (s : State) : Option Nat :=
  (s.blocks.reverse.find? (fun b => !blockOk s.mem b)).map (·.id)

/-! ## line protocol (`/verif/protocol/pool.md`) -/

structure Session where
  st : State

def Session.init : Session := ⟨State.init⟩

def parseKind : String → Option PolicyKind
  | "simple" => some .simple
  | "adaptive" => some .adaptive
  | _ => none

def parseOp : List String → Option Op
  | ["pool-new", a, k, c] => do some (.new (← a.toNat?) (← parseKind k) (← c.toNat?))
  | ["pool-newbuf", a, k, c, b, m] => do
      some (.newbuf (← a.toNat?) (← parseKind k) (← c.toNat?) (← b.toNat?) (← m.toNat?))
  | ["pool-copy", d, a] => do some (.copy (← d.toNat?) (← a.toNat?))
  | ["pool-move", d, a] => do some (.move (← d.toNat?) (← a.toNat?))
  | ["pool-assign", d, a] => do some (.assign (← d.toNat?) (← a.toNat?))
  | ["pool-massign", d, a] => do some (.massign (← d.toNat?) (← a.toNat?))
  | ["pool-destroy", a] => do some (.destroy (← a.toNat?))
  | ["pool-malloc", a, n] => do some (.malloc (← a.toNat?) (← n.toNat?))
  | ["pool-realloc", a, b, o, n] => do
      let blk ← if b == "null" then some none else b.toNat?.map some
      some (.realloc (← a.toNat?) blk (← o.toNat?) (← n.toNat?))
  | ["pool-clear", a] => do some (.clear (← a.toNat?))
  | ["pool-stat", a] => do some (.stat (← a.toNat?))
  | _ => none

def showPtr : Ptr → String
  | none => "null"
  | some (r, o) => s!"c{r}+{o}"

def showOut : Out → Option String
  | .skipped => none
  | .ok => some "ok"
  | .created sz cap => some s!"ok size={sz} cap={cap}"
  | .destroyed n => some s!"ok freed={n}"
  | .cleared n sz cap => some s!"ok freed={n} size={sz} cap={cap}"
  | .ptr p sz cap same copyOk =>
    some (s!"{showPtr p} size={sz} cap={cap}" ++ (if same then " same" else "") ++
      (match copyOk with
       | none => ""
       | some true => " copy=ok"
       | some false => " copy=bad"))
  | .stat sz cap sh => some s!"size={sz} cap={cap} shared={if sh then 1 else 0}"

def showMem : Option Nat → String
  | none => " mem=ok"
  | some b => s!" mem=corrupt:{b}"

def runLine (s : Session) (toks : List String) : Session × String :=
  match toks with
  | ["pool-reset"] => (Session.init, "ok")
  | _ =>
    match parseOp toks with
    | none => (s, "bad-op")
    | some op =>
      let (st, out) := step s.st op
      match showOut out with
      | none => (⟨st⟩, "bad-op")      -- `st` is the unchanged state (skipped op)
      | some line => (⟨st⟩, line ++ showMem (memCheck st))

end Sonic.Model.Pool
