import Sonic.Spec.Containers
import Sonic.Spec.Json

/-!
# Model: `DNode` / `GenericDocument` mutation and lookup API (`dom/dynamicnode.h`, `dom/genericnode.h`,
# `dom/generic_document.h`), line protocol `/verif/protocol/dom.md`

A node keeps what the implementation keeps:
* scalars: `null`, `bool`, `num` (kind + payload, `JNum`), `str` with its ownership tag
  (`kStringCopy` = points into the document's parse buffer, `kStringFree` = allocated by the allocator,
  `kStringConst` = caller's bytes);
* containers: `children == nullptr` is `none`; otherwise the `MetaNode` in front of the slots
  (`cap`, and for objects the optional `std::multimap<StringView,size_t>`), followed by the `len` live slots.
  Only live slots are modelled (`len ≤ cap` is part of `DomInv`); with `children == nullptr` there are no slots.

The multimap is the list of its entries in iteration order: sorted by key (`Less` = lexicographic on bytes,
shorter prefix first = `<` on `List Nat`, theorem `C14_less`), insertion order among equal keys.
`find` = first entry with an equal key, `emplace` = insert after the last entry whose key is not greater
(upper bound), `erase(it)` = remove that entry, `equal_range` = the run of equal keys.

Operations are transcribed from the `…Impl` functions; comments quote the C++.  A command whose precondition
(the `sonic_assert`s of the API, listed in dom.md) fails gives `none` (`bad-op`).  States that violate `DomInv`
(e.g. a map entry pointing outside the object) also give `none`: such a fault is never reported as a value.
-/
namespace Sonic.Model.Dom
open Sonic.Spec Sonic.Spec.Containers

abbrev Env := Sonic.Spec.Containers.Env

/-- string ownership: `kStringCopy` / `kStringFree` / `kStringConst` -/
inductive Own where
  | copy | free | const
  deriving Repr, DecidableEq, Inhabited

/-- entries of the `std::multimap<StringView, size_t, Less>` in iteration order -/
abbrev MapT := List (Key × Nat)

/-- `MetaNode` of an object: `cap`, `map` -/
structure ObjMeta where
  cap : Nat
  map : Option MapT
  deriving Repr, Inhabited

inductive Node where
  | null
  | bool (b : Bool)
  | num (n : JNum)
  | str (own : Own) (s : List Nat)
  /-- `cap = none` ⇔ `children == nullptr` (capacity 0); a `MetaNode` of an array only carries `cap` -/
  | arr (cap : Option Nat) (elems : List Node)
  /-- `mt = none` ⇔ `children == nullptr`; a member is (ownership of the name string, name bytes, value) -/
  | obj (mt : Option ObjMeta) (mems : List (Own × Key × Node))
  deriving Repr, Inhabited

abbrev Member := Own × Key × Node

def mkey (m : Member) : Key := m.2.1
def mval (m : Member) : Node := m.2.2

/-! ## abstraction to the spec value -/

mutual
def Node.abs : Node → JVal
  | .null => .null
  | .bool b => .bool b
  | .num n => .num n
  | .str _ s => .str s
  | .arr _ es => .arr (absList es)
  | .obj _ ms => .obj (absMems ms)
def absList : List Node → List JVal
  | [] => []
  | x :: xs => x.abs :: absList xs
def absMems : List (Own × Key × Node) → List (Key × JVal)
  | [] => []
  | (_, k, v) :: ms => (k, v.abs) :: absMems ms
end

/-! ## construction -/

/-- the temporary `NodeType(val…)` / the result of `SetX` for a value literal of dom.md -/
def ofVal : Val → Node
  | .null => .null
  | .bool b => .bool b
  | .uint n => .num (.uint n)
  | .int i => if i < 0 then .num (.sint i) else .num (.uint i.toNat)   -- GenericNode(int64_t): i >= 0 → kUint
  | .real b => .num (.real b)
  | .str s => .str .free s      -- StringCopy: kStringFree
  | .cstr s => .str .const s    -- kStringConst
  | .arr => .arr none []        -- setType(kArray), children = nullptr
  | .obj => .obj none []

mutual
/-- the tree built by `Parse` (`SAXHandler::EndObject/EndArray`): `containerMalloc(count)` (capacity = count, no
    map) for non-empty containers, `children = nullptr` for empty ones; strings are `kStringCopy` -/
def ofJVal : JVal → Node
  | .null => .null
  | .bool b => .bool b
  | .num n => .num n
  | .str s => .str .copy s
  | .arr xs => .arr (if xs.isEmpty then none else some xs.length) (ofJList xs)
  | .obj kvs => .obj (if kvs.isEmpty then none else some ⟨kvs.length, none⟩) (ofJMems kvs)
def ofJList : List JVal → List Node
  | [] => []
  | x :: xs => ofJVal x :: ofJList xs
def ofJMems : List (Key × JVal) → List (Own × Key × Node)
  | [] => []
  | (k, v) :: kvs => (.copy, k, ofJVal v) :: ofJMems kvs
end

/-- copy constructor, string case: `rhs.GetType() != kStringConst || copyString` → `StringCopy` (kStringFree) -/
def copyOwn (copyString : Bool) : Own → Own
  | .const => if copyString then .free else .const
  | _ => .free

mutual
/-- `DNode(const DNode& rhs, Allocator&, bool copyString)` -/
def copyOf (cs : Bool) : Node → Node
  | .null => .null
  | .bool b => .bool b
  | .num n => .num n
  | .str o s => .str (copyOwn cs o) s
  | .arr _ es => .arr (if es.isEmpty then none else some es.length) (copyList cs es)   -- setCapacity(a_size)
  | .obj _ ms => .obj (if ms.isEmpty then none else some ⟨ms.length, none⟩) (copyMems cs ms)  -- containerMalloc(count)
def copyList (cs : Bool) : List Node → List Node
  | [] => []
  | x :: xs => copyOf cs x :: copyList cs xs
def copyMems (cs : Bool) : List (Own × Key × Node) → List (Own × Key × Node)
  | [] => []
  | (o, k, v) :: ms => (copyOwn cs o, k, copyOf cs v) :: copyMems cs ms
end

/-! ## the multimap -/

/-- `map->emplace(key, idx)`: inserted at the upper bound (before the first entry with a greater key) -/
def mapInsert (e : Key × Nat) : MapT → MapT
  | [] => [e]
  | x :: xs => if e.1 < x.1 then e :: x :: xs else x :: mapInsert e xs

/-- `map->find(key)`: first entry with an equal key -/
def mapFind (key : Key) (mp : MapT) : Option (Key × Nat) := mp.find? (fun e => e.1 == key)

/-- `CreateMap` loop: `for i in 0..Size(): map->emplace(name_i, i)` -/
def buildMap (ms : List Member) : MapT :=
  ((ms.map mkey).zipIdx).foldl (fun mp e => mapInsert e mp) []

/-! ## capacity helpers -/

def arrCap : Option Nat → Nat
  | none => 0
  | some c => c

/-- `capacityImpl`: `children() != nullptr ? meta()->cap : 0` -/
def objCap : Option ObjMeta → Nat
  | none => 0
  | some m => m.cap

/-- `getMap()`: `nullptr` when `children() == nullptr` -/
def objMap : Option ObjMeta → Option MapT
  | none => none
  | some m => m.map

/-- growth step `cap += (cap + 1) / 2` -/
def grow (cap : Nat) : Nat := cap + (cap + 1) / 2

/-- `memberReserveImpl(new_cap)`: realloc if larger; `if (old_cap == 0) setMap(nullptr)` -/
def memberReserveMeta (n : Nat) (mt : Option ObjMeta) : Option ObjMeta :=
  if n > objCap mt then
    some { cap := n, map := if objCap mt = 0 then none else objMap mt }
  else mt

/-- `DestroyMap()` -/
def destroyMapMeta : Option ObjMeta → Option ObjMeta
  | none => none
  | some m => some { m with map := none }

/-! ## lookups -/

/-- `findFromMap` -/
def findFromMap (key : Key) (mp : MapT) : Option Nat := (mapFind key mp).map (·.2)

/-- `findMemberImpl(StringView key)` as a position: via the map when there is one, else the linear scan -/
def findMemberSV (key : Key) (mt : Option ObjMeta) (ms : List Member) : Option Nat :=
  match objMap mt with
  | some mp => findFromMap key mp
  | none => ms.findIdx? (fun m => mkey m == key)

/-- `findMemberImpl(const char*, size_t)` (static dispatch): same, the scan compares length then bytes
    (`InlinedMemcmpEq`, property C14) -/
def findMemberPL (key : Key) (mt : Option ObjMeta) (ms : List Member) : Option Nat :=
  match objMap mt with
  | some mp => findFromMap key mp
  | none => ms.findIdx? (fun m => (mkey m).length == key.length && mkey m == key)

/-- one step of `atPointerImpl` -/
def Node.atStep : Node → PStep → Option Node
  | .obj mt ms, .key k =>
    match findMemberSV k mt ms with
    | some i => (ms[i]?).map mval
    | none => none
  | .arr _ es, .num n => if 0 ≤ n ∧ n < es.length then es[n.toNat]? else none   -- idx >= 0 && idx < (int)Size()
  | _, _ => none

def Node.atPointer (v : Node) : List PStep → Option Node
  | [] => some v
  | s :: ps => (v.atStep s).bind fun c => c.atPointer ps

mutual
/-- `operator==` (lookups of the right-hand side's members go through `FindMember`, hence its map) -/
def Node.eqv : Node → Node → Bool
  | .null, r => match r with | .null => true | _ => false
  | .bool a, r => match r with | .bool b => a == b | _ => false
  | .num a, r => match r with | .num b => a == b | _ => false     -- same GetType() and memcmp of the node
  | .str _ a, r => match r with | .str _ b => a == b | _ => false -- GetStringView() ==
  | .arr _ xs, r => match r with | .arr _ ys => xs.length == ys.length && eqvList xs ys | _ => false
  | .obj _ ms, r => match r with | .obj meta2 ms2 => ms.length == ms2.length && eqvMems ms meta2 ms2 | _ => false
def eqvList : List Node → List Node → Bool
  | [], _ => true
  | x :: xs, ys => match ys with
    | y :: ys' => x.eqv y && eqvList xs ys'
    | [] => false   -- unreachable: sizes are equal
def eqvMems : List (Own × Key × Node) → Option ObjMeta → List Member → Bool
  | [], _, _ => true
  | (_, k, v) :: ms, meta2, ms2 =>
    match findMemberSV k meta2 ms2 with
    | none => false
    | some i =>
      match ms2[i]? with
      | some m2 => v.eqv (mval m2) && eqvMems ms meta2 ms2
      | none => false
end

/-! ## positional paths -/

def Node.child : Node → Step → Option Node
  | .arr _ es, .idx n => es[n]?
  | .obj _ ms, .mem n => (ms[n]?).map mval
  | _, _ => none

def Node.setChild : Node → Step → Node → Option Node
  | .arr c es, .idx n, x => if n < es.length then some (.arr c (es.set n x)) else none
  | .obj m ms, .mem n, x => (ms[n]?).map fun mem => .obj m (ms.set n (mem.1, mem.2.1, x))
  | _, _, _ => none

def Node.get : Node → Path → Option Node
  | v, [] => some v
  | v, s :: p => (v.child s).bind fun c => c.get p

def Node.set : Node → Path → Node → Option Node
  | _, [], x => some x
  | v, s :: p, x => (v.child s).bind fun c => (c.set p x).bind fun c' => v.setChild s c'

def Node.modifyAt {ρ : Type} (f : Node → Option (Node × ρ)) : Node → Path → Option (Node × ρ)
  | v, [] => f v
  | v, s :: p => (v.child s).bind fun c => (c.modifyAt f p).bind fun cr =>
      (v.setChild s cr.1).map fun v' => (v', cr.2)

/-! ## mutating node operations -/

/-- the capacity check at the head of `addMemberImpl`:
    `if (count >= Capacity()) { Capacity() == 0 ? containerMalloc(16) [MetaNode(16): map = nullptr]
                                                 : containerRealloc(cap + (cap+1)/2) [MetaNode kept, cap updated] }` -/
def addGrowMeta (count : Nat) : Option ObjMeta → ObjMeta
  | none => { cap := 16, map := none }
  | some m =>
    if count ≥ m.cap then
      (if m.cap = 0 then { cap := 16, map := none } else { cap := grow m.cap, map := m.map })
    else m

/-- `addMemberImpl(key, value, alloc, copyKey)` -/
def addMemberImpl (key : Key) (value : Node) (copyKey : Bool) : Node → Option (Node × Nat)
  | .obj mt ms =>
    let count := ms.length
    let m1 := addGrowMeta count mt
    -- name.SetString(key, alloc) / name.SetString(key); last->rawAssign(name); (last+1)->rawAssign(value)
    let name : Member := (if copyKey then Own.free else Own.const, key, value)
    -- if (nullptr != getMap()) getMap()->emplace(key, count)
    let m2 : ObjMeta := { m1 with map := m1.map.map (mapInsert (key, count)) }
    some (.obj (some m2) (ms ++ [name]), count)
  | _ => none

/-- the `find:` block of `removeMemberImpl`: `pos` = index of the member to remove, `mp` = the map after `erase(it)` -/
def removeAt (m : ObjMeta) (mp : Option MapT) (ms : List Member) (pos : Nat) : Option Node :=
  let last := ms.length - 1
  match ms[pos]?, ms[last]? with
  | some _, some tail =>
    if pos ≠ last then
      -- *m_name = std::move(*tail_name); m->value = std::move(m_tail->value);
      let ms' := (ms.set pos tail).dropLast
      -- map: erase the entry of equal_range(tail key) whose index is Size()-1; emplace(tail key, pos)
      let mp' := mp.map fun es => mapInsert (mkey tail, pos) (es.erase (mkey tail, last))
      some (.obj (some { m with map := mp' }) ms')
    else
      some (.obj (some { m with map := mp }) ms.dropLast)
  | _, _ => none

/-- `removeMemberImpl(key)` -/
def removeMemberImpl (key : Key) : Node → Option (Node × Bool)
  | .obj mt ms =>
    match mt with
    | none => some (.obj mt ms, false)                     -- nullptr == children(): not_find
    | some m =>
      match m.map with
      | some mp =>
        match mapFind key mp with                              -- getMapUnsfe()->find(key)
        | some e =>
          -- m = begin + it->second; erase(it)
          (removeAt m (some (mp.eraseP (fun x => x.1 == key))) ms e.2).map fun n => (n, true)
        | none => some (.obj mt ms, false)
      | none =>
        match ms.findIdx? (fun x => mkey x == key) with        -- linear scan
        | some pos => (removeAt m none ms pos).map fun n => (n, true)
        | none => some (.obj mt ms, false)
  | _ => none

/-- `eraseMemberImpl(begin+first, begin+last)`; returns the result iterator as a position -/
def eraseMemberImpl (first last : Nat) : Node → Option (Node × Nat)
  | .obj mt ms =>
    if first ≤ last ∧ last ≤ ms.length then
      -- DestroyMap();
      let meta1 := destroyMapMeta mt
      -- if (size_t(last - first) >= size) { destroy(); setChildren(nullptr); subLength(size); return MemberEnd(); }
      if last - first ≥ ms.length then some (.obj none [], 0)
      else some (.obj meta1 (ms.take first ++ ms.drop last), first)
    else none
  | _ => none

/-- `CreateMap(alloc)` -/
def createMapImpl : Node → Option Node
  | .obj mt ms =>
    -- if (nullptr == children()) memberReserveImpl(16, alloc);
    let meta1 := match mt with
      | none => memberReserveMeta 16 mt
      | some _ => mt
    match meta1 with
    | some m =>
      match m.map with
      | some _ => some (.obj (some m) ms)                       -- if (getMapUnsfe()) return true;
      | none => some (.obj (some { m with map := some (buildMap ms) }) ms)
    | none => none   -- unreachable: memberReserveMeta 16 none is `some`
  | _ => none

def destroyMapImpl : Node → Option Node
  | .obj mt ms => some (.obj (destroyMapMeta mt) ms)
  | _ => none

def memberReserveImpl (n : Nat) : Node → Option Node
  | .obj mt ms => some (.obj (memberReserveMeta n mt) ms)
  | _ => none

/-- `pushBackImpl` -/
def pushBackImpl (value : Node) : Node → Option Node
  | .arr cap es =>
    let c := arrCap cap
    -- if (Size() >= cap) new_cap = cap ? cap + (cap+1)/2 : 16
    let c1 := if es.length ≥ c then (if c ≠ 0 then grow c else 16) else c
    some (.arr (some c1) (es ++ [value]))
  | _ => none

def popBackImpl : Node → Option Node
  | .arr cap es => if es.isEmpty then none else some (.arr cap es.dropLast)
  | _ => none

/-- `eraseImpl(Begin()+first, Begin()+last)` -/
def eraseImpl (first last : Nat) : Node → Option (Node × Nat)
  | .arr cap es =>
    if first ≤ last ∧ last ≤ es.length then some (.arr cap (es.take first ++ es.drop last), first) else none
  | _ => none

/-- `reserveImpl` -/
def reserveImpl (n : Nat) : Node → Option Node
  | .arr cap es => some (.arr (if n > arrCap cap then some n else cap) es)
  | _ => none

/-- `clearImpl`: `destroy(); setLength(0); setChildren(nullptr)` -/
def clearImpl : Node → Option Node
  | .arr _ _ => some (.arr none [])
  | .obj _ _ => some (.obj none [])
  | _ => none

/-! ## read-only node operations -/

/-- `dom-find`: both `FindMember` overloads, `HasMember`, `operator[]` (a null node when missing) -/
def findImpl (key : Key) : Node → Option Res
  | .obj mt ms =>
    let sv := findMemberSV key mt ms
    let pl := findMemberPL key mt ms
    match sv with
    | some i => (ms[i]?).map fun m => .found sv pl true (mval m).abs
    | none => some (.found sv pl false .null)
  | _ => none

def infoImpl : Node → Res
  | .arr cap es => .infoC es.length es.isEmpty (arrCap cap) false ((es.getLast?).map Node.abs)
  | .obj mt ms => .infoC ms.length ms.isEmpty (objCap mt) (objMap mt).isSome none
  | .str _ s => .infoS s.length s.isEmpty
  | _ => .scalar

def withUnit (r : Option Node) : Option (Node × Res) := r.map fun v => (v, .unit)

/-- a one-node command on the node itself -/
def Node.apply (env : Env) : NodeOp → Node → Option (Node × Res)
  | .set v, _ => some (ofVal v, .unit)               -- destroy(); new (this) BaseNode(...)
  | .add k v ck, x => (addMemberImpl k (ofVal v) ck x).map fun r => (r.1, .idx r.2)
  | .remove k, x => (removeMemberImpl k x).map fun r => (r.1, .removed r.2)
  | .eraseMem f l, x => (eraseMemberImpl f l x).map fun r => (r.1, .ret r.2)
  | .mreserve n, x => withUnit (memberReserveImpl n x)
  | .createMap, x => withUnit (createMapImpl x)
  | .destroyMap, x => withUnit (destroyMapImpl x)
  | .push v, x => withUnit (pushBackImpl (ofVal v) x)
  | .pop, x => withUnit (popBackImpl x)
  | .erase f l, x => (eraseImpl f l x).map fun r => (r.1, .ret r.2)
  | .reserve n, x => withUnit (reserveImpl n x)
  | .clear, x => withUnit (clearImpl x)
  | .find k, x => (findImpl k x).map fun r => (x, r)
  | .atPtr ps, x => some (x, .atPtr ((x.atPointer ps).map Node.abs))
  | .info, x => some (x, infoImpl x)
  | .dump c r, x => some (x, .dump (env.dump x.abs c r))

/-! ## two-node operations -/

/-- `dst = std::move(src)`, same document: `temp.rawAssign(src)` (src := null), `dst.destroy()`, `dst.rawAssign(temp)` -/
def moveNode (doc : Node) (dst src : Path) : Option Node :=
  if dst = src then (doc.get dst).map fun _ => doc     -- this == &rhs: nothing happens
  else if src.isPrefixOf dst then none
  else (doc.get src).bind fun v => (doc.set src .null).bind fun d1 => d1.set dst v

def moveNode2 (D : Node) (dst : Path) (S : Node) (src : Path) : Option (Node × Node) :=
  (S.get src).bind fun v => (S.set src .null).bind fun S' => (D.set dst v).map fun D' => (D', S')

/-- `dst.CopyFrom(src, alloc, copyString)`: `this->destroy(); new (this) DNode(rhs, alloc, copyString)`.
    Inside one document neither node may be an ancestor-or-self of the other: the constructor writes the
    destination's type/length word before it traverses `rhs` (with `dst` inside `src` it would meet a container
    with a length and no children). -/
def copyNode (cs : Bool) (doc : Node) (dst src : Path) : Option Node :=
  if dst.isPrefixOf src || src.isPrefixOf dst then none
  else (doc.get src).bind fun v => doc.set dst (copyOf cs v)

def copyNode2 (cs : Bool) (D : Node) (dst : Path) (S : Node) (src : Path) : Option Node :=
  (S.get src).bind fun v => D.set dst (copyOf cs v)

/-- `a.Swap(b)`: three `rawAssign`s through a temporary -/
def swapNodes (doc : Node) (a b : Path) : Option Node :=
  if a = b then (doc.get a).map fun _ => doc
  else if a.isPrefixOf b || b.isPrefixOf a then none
  else (doc.get a).bind fun x => (doc.get b).bind fun y => (doc.set a y).bind fun d1 => d1.set b x

def swapNodes2 (D : Node) (a : Path) (S : Node) (b : Path) : Option (Node × Node) :=
  (D.get a).bind fun x => (S.get b).bind fun y => (D.set a y).bind fun D' => (S.set b x).map fun S' => (D', S')

/-! ## sessions -/

/-- four documents and the allocator kind.  EXTENSION POINT (C13): the ownership ledger is added by a later task;
    until then `dom-reset track` prints `ledger=ok`. -/
structure Session where
  /-- a case is open (between `dom-reset` and `dom-end`) -/
  live : Bool
  alloc : AllocKind
  docs : List Node
  deriving Repr

/-- before the first `dom-reset`: no case is open -/
def Session.init : Session := ⟨false, .pool, [.null, .null, .null, .null]⟩

/-- after `dom-reset a`: four null documents -/
def Session.fresh (a : AllocKind) : Session := ⟨true, a, [.null, .null, .null, .null]⟩

def Session.abs (s : Session) : State := ⟨s.live, s.alloc, s.docs.map Node.abs⟩

/-- commands inside an open case -/
def stepLive (env : Env) (s : Session) : Op → Option (Session × Out)
  | .reset a => some (Session.fresh a, .reset)
  -- dom-end: everything is destroyed; EXTENSION POINT (C13): the ledger verdict is computed here
  | .fin => some ({ Session.fresh s.alloc with live := false }, .fin (s.alloc == .track))
  | .parse d text =>
    if d < s.docs.length then
      -- Parse: destroyDom() (the document becomes null), then parseImpl; on success the root is move-assigned
      match env.parse text with
      | some v => some ({ s with docs := s.docs.set d (ofJVal v) }, .parse true (ofJVal v).abs)
      | none => some ({ s with docs := s.docs.set d .null }, .parse false .null)
    else none
  | .node d p op =>
    (s.docs[d]?).bind fun doc => (doc.modifyAt (Node.apply env op) p).map fun r =>
      ({ s with docs := s.docs.set d r.1 }, .node r.2 r.1.abs)
  | .move d p d2 p2 =>
    if d = d2 then
      (s.docs[d]?).bind fun doc => (moveNode doc p p2).map fun doc' =>
        ({ s with docs := s.docs.set d doc' }, .two doc'.abs doc'.abs)
    else if s.alloc = .pool then none
    else (s.docs[d]?).bind fun D => (s.docs[d2]?).bind fun S => (moveNode2 D p S p2).map fun r =>
      ({ s with docs := (s.docs.set d r.1).set d2 r.2 }, .two r.1.abs r.2.abs)
  | .copy d p d2 p2 cs =>
    if d = d2 then
      (s.docs[d]?).bind fun doc => (copyNode cs doc p p2).map fun doc' =>
        ({ s with docs := s.docs.set d doc' }, .two doc'.abs doc'.abs)
    else (s.docs[d]?).bind fun D => (s.docs[d2]?).bind fun S => (copyNode2 cs D p S p2).map fun D' =>
      ({ s with docs := s.docs.set d D' }, .two D'.abs S.abs)
  | .swap d p d2 p2 =>
    if d = d2 then
      (s.docs[d]?).bind fun doc => (swapNodes doc p p2).map fun doc' =>
        ({ s with docs := s.docs.set d doc' }, .two doc'.abs doc'.abs)
    else if s.alloc = .pool then none
    else (s.docs[d]?).bind fun D => (s.docs[d2]?).bind fun S => (swapNodes2 D p S p2).map fun r =>
      ({ s with docs := (s.docs.set d r.1).set d2 r.2 }, .two r.1.abs r.2.abs)
  | .docMove d d2 =>
    -- D[d] = std::move(D[d2]): node move assignment, allocator and buffers follow; D[d2] re-initialised
    if d = d2 then none
    else (s.docs[d]?).bind fun _ => (s.docs[d2]?).map fun S =>
      ({ s with docs := (s.docs.set d S).set d2 .null }, .two S.abs .null)
  | .docSwap d d2 =>
    (s.docs[d]?).bind fun D => (s.docs[d2]?).map fun S =>
      ({ s with docs := (s.docs.set d S).set d2 D }, .two S.abs D.abs)

/-- the command interpreter of the model; `none` = `bad-op` -/
def step (env : Env) (s : Session) (op : Op) : Option (Session × Out) :=
  match op with
  | .reset a => some (Session.fresh a, .reset)
  | op => if s.live then stepLive env s op else none

/-- run a list of commands; a rejected command leaves the state unchanged and yields `none` (`bad-op`) -/
def run (env : Env) : Session → List Op → Session × List (Option Out)
  | s, [] => (s, [])
  | s, op :: ops =>
    match step env s op with
    | some (s', o) => let r := run env s' ops; (r.1, some o :: r.2)
    | none => let r := run env s ops; (r.1, none :: r.2)

/-! ## line protocol -/

def showB (b : Bool) : String := if b then "1" else "0"

def showOptNat : Option Nat → String
  | some i => toString i
  | none => "none"

def renderRes (r : Res) (doc : JVal) : String :=
  match r with
  | .unit => "ok doc=" ++ doc.show
  | .idx i => s!"ok idx={i} doc=" ++ doc.show
  | .removed b => s!"r={showB b} doc=" ++ doc.show
  | .ret i => s!"ok ret={i} doc=" ++ doc.show
  | .found sv pl has a => s!"sv={showOptNat sv} pl={showOptNat pl} has={showB has} at=" ++ a.show
  | .atPtr (some v) => "at=" ++ v.show
  | .atPtr none => "at=none"
  | .infoC sz e c m b =>
    s!"size={sz} empty={showB e} cap={c} map={showB m}" ++
      (match b with | some v => " back=" ++ v.show | none => "")
  | .infoS sz e => s!"size={sz} empty={showB e}"
  | .scalar => "scalar"
  | .dump text => text

def render : Out → String
  | .reset => "ok"
  | .fin track => if track then "ok ledger=ok" else "ok"
  | .parse true doc => "ok doc=" ++ doc.show
  | .parse false _ => "err=2 doc=n"
  | .node r doc => renderRes r doc
  | .two a b => "ok doc=" ++ a.show ++ " doc2=" ++ b.show

def natOfChars (cs : List Char) : Option Nat :=
  if cs.isEmpty then none
  else cs.foldl (fun acc c => acc.bind fun a => if c.isDigit then some (a * 10 + (c.toNat - 48)) else none) (some 0)

def intOfChars : List Char → Option Int
  | '-' :: cs => (natOfChars cs).map fun n => -(n : Int)
  | cs => (natOfChars cs).map fun n => (n : Int)

def hexDigit (c : Char) : Option Nat :=
  if '0' ≤ c ∧ c ≤ '9' then some (c.toNat - 48)
  else if 'a' ≤ c ∧ c ≤ 'f' then some (c.toNat - 87)
  else if 'A' ≤ c ∧ c ≤ 'F' then some (c.toNat - 55)
  else none

def hexPairs : List Char → Option (List Nat)
  | [] => some []
  | [_] => none
  | a :: b :: rest =>
    match hexDigit a, hexDigit b, hexPairs rest with
    | some x, some y, some r => some ((x * 16 + y) :: r)
    | _, _, _ => none

/-- `-` denotes the empty byte string -/
def hexBytes (cs : List Char) : Option (List Nat) :=
  if cs = ['-'] then some [] else if cs.isEmpty then none else hexPairs cs

def splitSlash : List Char → List (List Char)
  | [] => [[]]
  | c :: cs =>
    match splitSlash cs with
    | [] => [[]]            -- unreachable
    | w :: ws => if c = '/' then [] :: w :: ws else (c :: w) :: ws

def parseStep : List Char → Option Step
  | 'i' :: ds => (natOfChars ds).map .idx
  | 'm' :: ds => (natOfChars ds).map .mem
  | _ => none

/-- `/` = root, else `/i<n>` / `/m<n>` steps -/
def parsePath (s : String) : Option Path :=
  match s.toList with
  | ['/'] => some []
  | '/' :: rest => (splitSlash rest).mapM parseStep
  | _ => none

def parseVal (s : String) : Option Val :=
  if s = "null" then some .null
  else if s = "true" then some (.bool true)
  else if s = "false" then some (.bool false)
  else if s = "arr" then some .arr
  else if s = "obj" then some .obj
  else match s.toList with
    | 'u' :: ds => (natOfChars ds).bind fun n => if n < 2 ^ 64 then some (.uint n) else none
    | 'i' :: ds => (intOfChars ds).bind fun i => if -(2 ^ 63 : Int) ≤ i ∧ i < 2 ^ 63 then some (.int i) else none
    | 'd' :: ds => (natOfChars ds).bind fun n => if n < 2 ^ 64 then some (.real n) else none
    | 's' :: hs => (hexBytes hs).map .str
    | 'c' :: hs => (hexBytes hs).map .cstr
    | _ => none

def parsePStep (s : String) : Option PStep :=
  match s.toList with
  | 'k' :: hs => (hexBytes hs).map .key
  | 'n' :: ds => (intOfChars ds).bind fun i => if -(2 ^ 31 : Int) ≤ i ∧ i < 2 ^ 31 then some (.num i) else none
  | _ => none

def parseBool (s : String) : Option Bool :=
  if s = "0" then some false else if s = "1" then some true else none

def parseAlloc (s : String) : Option AllocKind :=
  if s = "pool" then some .pool else if s = "simple" then some .simple else if s = "track" then some .track else none

def parseNat (s : String) : Option Nat := natOfChars s.toList
def parseNatLe (bound : Nat) (s : String) : Option Nat :=
  (natOfChars s.toList).bind fun n => if n ≤ bound then some n else none
def parseHexS (s : String) : Option (List Nat) := hexBytes s.toList

def parseOp : List String → Option Op
  | ["dom-reset", a] => (parseAlloc a).map .reset
  | ["dom-end"] => some .fin
  | ["dom-parse", d, hx] => do some (.parse (← parseNat d) (← parseHexS hx))
  | ["dom-set", d, p, v] => do some (.node (← parseNat d) (← parsePath p) (.set (← parseVal v)))
  | ["dom-add", d, p, k, v, ck] => do
      some (.node (← parseNat d) (← parsePath p) (.add (← parseHexS k) (← parseVal v) (← parseBool ck)))
  | ["dom-remove", d, p, k] => do some (.node (← parseNat d) (← parsePath p) (.remove (← parseHexS k)))
  | ["dom-erasemem", d, p, f, l] => do
      some (.node (← parseNat d) (← parsePath p) (.eraseMem (← parseNat f) (← parseNat l)))
  | ["dom-mreserve", d, p, n] => do some (.node (← parseNat d) (← parsePath p) (.mreserve (← parseNatLe 100000 n)))
  | ["dom-createmap", d, p] => do some (.node (← parseNat d) (← parsePath p) .createMap)
  | ["dom-destroymap", d, p] => do some (.node (← parseNat d) (← parsePath p) .destroyMap)
  | ["dom-push", d, p, v] => do some (.node (← parseNat d) (← parsePath p) (.push (← parseVal v)))
  | ["dom-pop", d, p] => do some (.node (← parseNat d) (← parsePath p) .pop)
  | ["dom-erase", d, p, f, l] => do
      some (.node (← parseNat d) (← parsePath p) (.erase (← parseNat f) (← parseNat l)))
  | ["dom-reserve", d, p, n] => do some (.node (← parseNat d) (← parsePath p) (.reserve (← parseNatLe 100000 n)))
  | ["dom-clear", d, p] => do some (.node (← parseNat d) (← parsePath p) .clear)
  | ["dom-move", d, p, d2, p2] => do
      some (.move (← parseNat d) (← parsePath p) (← parseNat d2) (← parsePath p2))
  | ["dom-copy", d, p, d2, p2, cs] => do
      some (.copy (← parseNat d) (← parsePath p) (← parseNat d2) (← parsePath p2) (← parseBool cs))
  | ["dom-swap", d, p, d2, p2] => do
      some (.swap (← parseNat d) (← parsePath p) (← parseNat d2) (← parsePath p2))
  | ["dom-docmove", d, d2] => do some (.docMove (← parseNat d) (← parseNat d2))
  | ["dom-docswap", d, d2] => do some (.docSwap (← parseNat d) (← parseNat d2))
  | ["dom-find", d, p, k] => do some (.node (← parseNat d) (← parsePath p) (.find (← parseHexS k)))
  | "dom-at" :: d :: p :: steps => do
      some (.node (← parseNat d) (← parsePath p) (.atPtr (← steps.mapM parsePStep)))
  | ["dom-info", d, p] => do some (.node (← parseNat d) (← parsePath p) .info)
  | ["dom-dump", d, p] => do some (.node (← parseNat d) (← parsePath p) (.dump 256 0))
  | ["dom-dumpwb", d, p, c, r] => do
      some (.node (← parseNat d) (← parsePath p) (.dump (← parseNatLe (2 ^ 20) c) (← parseNatLe 8 r)))
  | _ => none

/-- `dom-eq`: `a == b`, `a != b`, `b == a`, `a == a` -/
def runEq (s : Session) (d : Nat) (p : Path) (d2 : Nat) (p2 : Path) : Option String :=
  if !s.live then none else
  (s.docs[d]?).bind fun D => (s.docs[d2]?).bind fun S => (D.get p).bind fun a => (S.get p2).map fun b =>
    s!"eq={showB (a.eqv b)} ne={showB (!(a.eqv b))} eqr={showB (b.eqv a)} refl={showB (a.eqv a)}"

/-- one protocol line (already split into tokens) -/
def runLine (env : Env) (s : Session) (toks : List String) : Session × String :=
  match toks with
  | ["dom-eq", d, p, d2, p2] =>
    match parseNat d, parsePath p, parseNat d2, parsePath p2 with
    | some d, some p, some d2, some p2 =>
      match runEq s d p d2 p2 with
      | some o => (s, o)
      | none => (s, "bad-op")
    | _, _, _, _ => (s, "bad-op")
  | _ =>
    match parseOp toks with
    | none => (s, "bad-op")
    | some op =>
      match step env s op with
      | some (s', o) => (s', render o)
      | none => (s, "bad-op")

end Sonic.Model.Dom
