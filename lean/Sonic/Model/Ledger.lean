import Sonic.Model.Dom

/-!
# Model: ownership of allocator blocks in the DOM (`DNode`, `GenericDocument`) — property C13

`Sonic.Model.Dom` with block identities added, for an allocator that really frees (`SimpleAllocator`, the tracking
allocator; NOT the memory pool, whose `Free` is a no-op).  Every OWNING payload carries the id of the block it owns:

* container storage (`children`: `MetaNode` + slots)          — `blk` of `arr` / `obj`;
* an owned string (`kStringFree`)                              — `LOwn.free blk`;
* the lookup map: ONE id stands for the `map_type` object and all its tree nodes (they are created and destroyed
  together by `CreateMap` / `DestroyMap` / `~MetaNode`; `emplace` / `erase` only change the node set)  — `map.2`;
* a document's parse buffer `str_`                             — `LDoc.str`.

`kStringCopy` strings (produced by `Parse`) own nothing but POINT INTO the `str_` block of the document that parsed
them: `LOwn.copy buf` records that non-owning reference.  `kStringConst` strings point to caller memory.

Ownership is linear: `rawAssign` moves the 16 bytes and nulls the source, so every block id occurs at exactly one place
of the forest.  Each operation is the `Model.Dom` operation of the same name on the tree, and additionally reports
* the ids it obtained from the allocator: always the consecutive fresh ids `n, n+1, …, n'-1` (`n` = next unused id);
  a `Realloc` that grows a block is modelled as "new block obtained, old block freed";
* the ids it returned to the allocator (`freed`): the blocks of every subtree it destroys (`destroy()` frees, by
  kind, the children recursively, the `MetaNode`'s map, the storage, an owned string).
The session applies them to the ledger (`Ledger.alloc`, `Ledger.freeAll`); freeing an id that is not live (foreign or
double free) is counted in `faults`.  The order of the events inside one operation is abstracted (fresh ids never
coincide with old ones); the tree-level order (detach the source of a move before destroying the destination, destroy
the destination of a copy before reading the source, …) is the one of `Model.Dom`.

`erase` forgets the ids; `Sonic.Proofs.LedgerErase` proves that every ledger operation erases to the `Model.Dom`
operation, so this file does not change the behaviour of the tested model.
-/
namespace Sonic.Model.Ledger
open Sonic.Spec Sonic.Spec.Containers Sonic.Model.Dom

/-- string ownership with identities -/
inductive LOwn where
  /-- `kStringCopy`: points into the parse buffer `buf` of a document (non-owning) -/
  | copy (buf : Nat)
  /-- `kStringFree`: owns block `blk` -/
  | free (blk : Nat)
  /-- `kStringConst`: caller's bytes -/
  | const
  deriving Repr, DecidableEq, Inhabited

/-- `MetaNode` of an object plus the id of the storage block; the map carries the id of the `map_type` block -/
structure LMeta where
  cap : Nat
  blk : Nat
  map : Option (MapT × Nat)
  deriving Repr, Inhabited

inductive LNode where
  | null
  | bool (b : Bool)
  | num (n : JNum)
  | str (own : LOwn) (s : List Nat)
  /-- `st = some (cap, blk)` -/
  | arr (st : Option (Nat × Nat)) (elems : List LNode)
  | obj (st : Option LMeta) (mems : List (LOwn × Key × LNode))
  deriving Repr, Inhabited

abbrev LMember := LOwn × Key × LNode

def lkey (m : LMember) : Key := m.2.1
def lval (m : LMember) : LNode := m.2.2

/-! ## forgetting the identities -/

def LOwn.erase : LOwn → Own
  | .copy _ => .copy
  | .free _ => .free
  | .const => .const

def LMeta.erase (m : LMeta) : ObjMeta := { cap := m.cap, map := m.map.map (·.1) }

mutual
def LNode.erase : LNode → Node
  | .null => .null
  | .bool b => .bool b
  | .num n => .num n
  | .str o s => .str o.erase s
  | .arr st es => .arr (st.map (·.1)) (eraseList es)
  | .obj st ms => .obj (st.map LMeta.erase) (eraseMems ms)
def eraseList : List LNode → List Node
  | [] => []
  | x :: xs => x.erase :: eraseList xs
def eraseMems : List (LOwn × Key × LNode) → List (Own × Key × Node)
  | [] => []
  | (o, k, v) :: ms => (o.erase, k, v.erase) :: eraseMems ms
end

/-! ## the blocks a tree owns, and the parse buffers it points into -/

def LOwn.blocks : LOwn → List Nat
  | .free b => [b]
  | _ => []

def LOwn.refs : LOwn → List Nat
  | .copy b => [b]
  | _ => []

def arrBlocks : Option (Nat × Nat) → List Nat
  | some (_, b) => [b]
  | none => []

def mapBlocks : Option (MapT × Nat) → List Nat
  | some (_, b) => [b]
  | none => []

def metaBlocks : Option LMeta → List Nat
  | some m => m.blk :: mapBlocks m.map
  | none => []

mutual
/-- what `destroy()` frees -/
def LNode.blocks : LNode → List Nat
  | .null => []
  | .bool _ => []
  | .num _ => []
  | .str o _ => o.blocks
  | .arr st es => arrBlocks st ++ blocksList es
  | .obj st ms => metaBlocks st ++ blocksMems ms
def blocksList : List LNode → List Nat
  | [] => []
  | x :: xs => x.blocks ++ blocksList xs
def blocksMems : List (LOwn × Key × LNode) → List Nat
  | [] => []
  | (o, _, v) :: ms => (o.blocks ++ v.blocks) ++ blocksMems ms
end

mutual
/-- parse buffers pointed into by `kStringCopy` strings (names and values) -/
def LNode.refs : LNode → List Nat
  | .null => []
  | .bool _ => []
  | .num _ => []
  | .str o _ => o.refs
  | .arr _ es => refsList es
  | .obj _ ms => refsMems ms
def refsList : List LNode → List Nat
  | [] => []
  | x :: xs => x.refs ++ refsList xs
def refsMems : List (LOwn × Key × LNode) → List Nat
  | [] => []
  | (o, _, v) :: ms => (o.refs ++ v.refs) ++ refsMems ms
end

/-! ## construction (fresh ids from `n` upwards; the new next-id is returned) -/

/-- `NodeType(val…)` / `SetX`: only `SetString(s, len, alloc)` allocates -/
def lofVal : Val → Nat → LNode × Nat
  | .null, n => (.null, n)
  | .bool b, n => (.bool b, n)
  | .uint k, n => (.num (.uint k), n)
  | .int i, n => (if i < 0 then .num (.sint i) else .num (.uint i.toNat), n)
  | .real b, n => (.num (.real b), n)
  | .str s, n => (.str (.free n) s, n + 1)
  | .cstr s, n => (.str .const s, n)
  | .arr, n => (.arr none [], n)
  | .obj, n => (.obj none [], n)

mutual
/-- the tree built by `Parse` in a document whose `str_` block is `buf`: one `containerMalloc` per non-empty
    container (ids are handed out in pre-order here; the real order is post-order, which is immaterial), strings are
    `kStringCopy` views into `buf` -/
def lofJVal (buf : Nat) : JVal → Nat → LNode × Nat
  | .null, n => (.null, n)
  | .bool b, n => (.bool b, n)
  | .num k, n => (.num k, n)
  | .str s, n => (.str (.copy buf) s, n)
  | .arr xs, n =>
    if xs.isEmpty then (.arr none [], n)
    else let r := lofJList buf xs (n + 1); (.arr (some (xs.length, n)) r.1, r.2)
  | .obj kvs, n =>
    if kvs.isEmpty then (.obj none [], n)
    else let r := lofJMems buf kvs (n + 1); (.obj (some ⟨kvs.length, n, none⟩) r.1, r.2)
def lofJList (buf : Nat) : List JVal → Nat → List LNode × Nat
  | [], n => ([], n)
  | x :: xs, n => let a := lofJVal buf x n; let r := lofJList buf xs a.2; (a.1 :: r.1, r.2)
def lofJMems (buf : Nat) : List (Key × JVal) → Nat → List (LOwn × Key × LNode) × Nat
  | [], n => ([], n)
  | (k, v) :: kvs, n => let a := lofJVal buf v n; let r := lofJMems buf kvs a.2; ((.copy buf, k, a.1) :: r.1, r.2)
end

/-- copy constructor, string case: a fresh block unless the source is `kStringConst` and `!copyString` -/
def lcopyOwn (cs : Bool) : LOwn → Nat → LOwn × Nat
  | .const, n => if cs then (.free n, n + 1) else (.const, n)
  | _, n => (.free n, n + 1)

mutual
/-- `DNode(const DNode& rhs, Allocator&, bool copyString)`: fresh blocks for everything owned
    (`containerMalloc` first, then names and values in order) -/
def lcopy (cs : Bool) : LNode → Nat → LNode × Nat
  | .null, n => (.null, n)
  | .bool b, n => (.bool b, n)
  | .num k, n => (.num k, n)
  | .str o s, n => let a := lcopyOwn cs o n; (.str a.1 s, a.2)
  | .arr _ es, n =>
    if es.isEmpty then (.arr none [], n)
    else let r := lcopyList cs es (n + 1); (.arr (some (es.length, n)) r.1, r.2)
  | .obj _ ms, n =>
    if ms.isEmpty then (.obj none [], n)
    else let r := lcopyMems cs ms (n + 1); (.obj (some ⟨ms.length, n, none⟩) r.1, r.2)
def lcopyList (cs : Bool) : List LNode → Nat → List LNode × Nat
  | [], n => ([], n)
  | x :: xs, n => let a := lcopy cs x n; let r := lcopyList cs xs a.2; (a.1 :: r.1, r.2)
def lcopyMems (cs : Bool) : List (LOwn × Key × LNode) → Nat → List (LOwn × Key × LNode) × Nat
  | [], n => ([], n)
  | (o, k, v) :: ms, n =>
    let a := lcopyOwn cs o n; let b := lcopy cs v a.2; let r := lcopyMems cs ms b.2
    ((a.1, k, b.1) :: r.1, r.2)
end

/-! ## positional paths -/

def LNode.child : LNode → Step → Option LNode
  | .arr _ es, .idx n => es[n]?
  | .obj _ ms, .mem n => (ms[n]?).map lval
  | _, _ => none

def LNode.setChild : LNode → Step → LNode → Option LNode
  | .arr c es, .idx n, x => if n < es.length then some (.arr c (es.set n x)) else none
  | .obj m ms, .mem n, x => (ms[n]?).map fun mem => .obj m (ms.set n (mem.1, mem.2.1, x))
  | _, _, _ => none

def LNode.get : LNode → Path → Option LNode
  | v, [] => some v
  | v, s :: p => (v.child s).bind fun c => c.get p

def LNode.set : LNode → Path → LNode → Option LNode
  | _, [], x => some x
  | v, s :: p, x => (v.child s).bind fun c => (c.set p x).bind fun c' => v.setChild s c'

/-! ## node operations: `(new node, new next-id, freed ids)` -/

/-- result of a node operation -/
structure Eff where
  node : LNode
  next : Nat
  freed : List Nat
  deriving Repr

def lcap : Option LMeta → Nat
  | none => 0
  | some m => m.cap

/-- `DestroyMap()`; returns the freed map block -/
def ldestroyMapMeta : Option LMeta → Option LMeta
  | none => none
  | some m => some { m with map := none }

def metaMapBlocks : Option LMeta → List Nat
  | some m => mapBlocks m.map
  | none => []

/-- the capacity check at the head of `addMemberImpl`: `containerMalloc(16)` / `containerRealloc` (new block, old
    one freed).  (The branch "storage with capacity 0" cannot be reached; the C++ would drop the old block there.) -/
def laddGrowMeta (count n : Nat) : Option LMeta → LMeta × Nat × List Nat
  | none => ({ cap := 16, blk := n, map := none }, n + 1, [])
  | some m =>
    if count ≥ m.cap then
      (if m.cap = 0 then ({ cap := 16, blk := n, map := none }, n + 1, m.blk :: mapBlocks m.map)
       else ({ cap := grow m.cap, blk := n, map := m.map }, n + 1, [m.blk]))
    else (m, n, [])

/-- `addMemberImpl(key, value, alloc, copyKey)`; `value` is moved in -/
def laddMember (key : Key) (value : LNode) (copyKey : Bool) : LNode → Nat → Option Eff
  | .obj st ms, n =>
    let count := ms.length
    let g := laddGrowMeta count n st
    let m1 := g.1
    let n1 := g.2.1
    -- name.SetString(key, alloc): a fresh block / name.SetString(key): none
    let own : LOwn := if copyKey then .free n1 else .const
    let n2 := if copyKey then n1 + 1 else n1
    let m2 : LMeta := { m1 with map := m1.map.map fun mb => (mapInsert (key, count) mb.1, mb.2) }
    some ⟨.obj (some m2) (ms ++ [(own, key, value)]), n2, g.2.2⟩
  | _, _ => none

/-- the `find:` block of `removeMemberImpl`: member `pos` is destroyed (name and value) -/
def lremoveAt (m : LMeta) (mpo : Option (MapT × Nat)) (ms : List LMember) (pos : Nat) : Option (LNode × List Nat) :=
  let last := ms.length - 1
  match ms[pos]?, ms[last]? with
  | some victim, some tail =>
    let freed := victim.1.blocks ++ (lval victim).blocks
    if pos ≠ last then
      let ms' := (ms.set pos tail).dropLast
      let mp' := mpo.map fun mb => (mapInsert (lkey tail, pos) (mb.1.erase (lkey tail, last)), mb.2)
      some (.obj (some { m with map := mp' }) ms', freed)
    else
      some (.obj (some { m with map := mpo }) ms.dropLast, freed)
  | _, _ => none

/-- `removeMemberImpl(key)` -/
def lremoveMember (key : Key) : LNode → Nat → Option Eff
  | .obj st ms, n =>
    match st with
    | none => some ⟨.obj st ms, n, []⟩
    | some m =>
      match m.map with
      | some mb =>
        match mapFind key mb.1 with
        | some e => (lremoveAt m (some (mb.1.eraseP (fun x => x.1 == key), mb.2)) ms e.2).map fun r => ⟨r.1, n, r.2⟩
        | none => some ⟨.obj st ms, n, []⟩
      | none =>
        match ms.findIdx? (fun x => lkey x == key) with
        | some pos => (lremoveAt m none ms pos).map fun r => ⟨r.1, n, r.2⟩
        | none => some ⟨.obj st ms, n, []⟩
  | _, _ => none

/-- `eraseMemberImpl`: `DestroyMap()` first; the full range destroys the whole node's storage -/
def leraseMember (first last : Nat) : LNode → Nat → Option Eff
  | .obj st ms, n =>
    if first ≤ last ∧ last ≤ ms.length then
      if last - first ≥ ms.length then some ⟨.obj none [], n, (LNode.obj st ms).blocks⟩
      else
        some ⟨.obj (ldestroyMapMeta st) (ms.take first ++ ms.drop last), n,
          metaMapBlocks st ++ blocksMems ((ms.drop first).take (last - first))⟩
    else none
  | _, _ => none

/-- entries of the map built by `CreateMap` -/
def lbuildMap (ms : List LMember) : MapT :=
  ((ms.map lkey).zipIdx).foldl (fun mp e => mapInsert e mp) []

/-- `CreateMap(alloc)`: `memberReserveImpl(16)` on an object without storage, then the map block -/
def lcreateMap : LNode → Nat → Option Eff
  | .obj st ms, n =>
    let a : LMeta × Nat := match st with
      | none => (⟨16, n, none⟩, n + 1)
      | some m => (m, n)
    match a.1.map with
    | some _ => some ⟨.obj (some a.1) ms, a.2, []⟩
    | none => some ⟨.obj (some { a.1 with map := some (lbuildMap ms, a.2) }) ms, a.2 + 1, []⟩
  | _, _ => none

def ldestroyMap : LNode → Nat → Option Eff
  | .obj st ms, n => some ⟨.obj (ldestroyMapMeta st) ms, n, metaMapBlocks st⟩
  | _, _ => none

/-- `memberReserveImpl`: a larger block is obtained and the old one freed (`Realloc(nullptr)` = malloc).
    (Storage with capacity 0 cannot be reached; its map pointer would be overwritten.) -/
def lmemberReserve (k : Nat) : LNode → Nat → Option Eff
  | .obj st ms, n =>
    if k > lcap st then
      match st with
      | none => some ⟨.obj (some ⟨k, n, none⟩) ms, n + 1, []⟩
      | some m =>
        if m.cap = 0 then some ⟨.obj (some ⟨k, n, none⟩) ms, n + 1, m.blk :: mapBlocks m.map⟩
        else some ⟨.obj (some { m with cap := k, blk := n }) ms, n + 1, [m.blk]⟩
    else some ⟨.obj st ms, n, []⟩
  | _, _ => none

def larrCap : Option (Nat × Nat) → Nat
  | none => 0
  | some c => c.1

/-- `pushBackImpl`; `value` is moved in -/
def lpushBack (value : LNode) : LNode → Nat → Option Eff
  | .arr st es, n =>
    let c := larrCap st
    if es.length ≥ c then
      some ⟨.arr (some (if c ≠ 0 then grow c else 16, n)) (es ++ [value]), n + 1, arrBlocks st⟩
    else some ⟨.arr st (es ++ [value]), n, []⟩
  | _, _ => none

/-- `popBackImpl`: the last element is destroyed -/
def lpopBack : LNode → Nat → Option Eff
  | .arr st es, n =>
    match es.getLast? with
    | some l => some ⟨.arr st es.dropLast, n, l.blocks⟩
    | none => none
  | _, _ => none

/-- `eraseImpl`: the elements of the range are destroyed -/
def lerase (first last : Nat) : LNode → Nat → Option Eff
  | .arr st es, n =>
    if first ≤ last ∧ last ≤ es.length then
      some ⟨.arr st (es.take first ++ es.drop last), n, blocksList ((es.drop first).take (last - first))⟩
    else none
  | _, _ => none

def lreserve (k : Nat) : LNode → Nat → Option Eff
  | .arr st es, n =>
    if k > larrCap st then some ⟨.arr (some (k, n)) es, n + 1, arrBlocks st⟩
    else some ⟨.arr st es, n, []⟩
  | _, _ => none

/-- `clearImpl`: `destroy()` of the whole container -/
def lclear : LNode → Nat → Option Eff
  | .arr st es, n => some ⟨.arr none [], n, (LNode.arr st es).blocks⟩
  | .obj st ms, n => some ⟨.obj none [], n, (LNode.obj st ms).blocks⟩
  | _, _ => none

/-- a one-node command.  Read-only commands change nothing; their precondition is the one of `Model.Dom`. -/
def LNode.apply (env : Containers.Env) : NodeOp → LNode → Nat → Option Eff
  | .set v, x, n => let a := lofVal v n; some ⟨a.1, a.2, x.blocks⟩          -- destroy(); new (this) …
  | .add k v ck, x, n => let a := lofVal v n; laddMember k a.1 ck x a.2
  | .remove k, x, n => lremoveMember k x n
  | .eraseMem f l, x, n => leraseMember f l x n
  | .mreserve k, x, n => lmemberReserve k x n
  | .createMap, x, n => lcreateMap x n
  | .destroyMap, x, n => ldestroyMap x n
  | .push v, x, n => let a := lofVal v n; lpushBack a.1 x a.2
  | .pop, x, n => lpopBack x n
  | .erase f l, x, n => lerase f l x n
  | .reserve k, x, n => lreserve k x n
  | .clear, x, n => lclear x n
  | .find k, x, n => if (Node.apply env (.find k) x.erase).isSome then some ⟨x, n, []⟩ else none
  | .atPtr _, x, n => some ⟨x, n, []⟩
  | .info, x, n => some ⟨x, n, []⟩
  | .dump _ _, x, n => some ⟨x, n, []⟩

/-- apply a node operation at a path -/
def LNode.modifyAt (f : LNode → Nat → Option Eff) (doc : LNode) (p : Path) (n : Nat) : Option Eff :=
  (doc.get p).bind fun x => (f x n).bind fun r => (doc.set p r.node).map fun doc' => ⟨doc', r.next, r.freed⟩

/-! ## two-node operations -/

/-- `dst = std::move(src)`: `temp.rawAssign(src)`; `dst.destroy()`; `dst.rawAssign(temp)` -/
def lmoveNode (doc : LNode) (dst src : Path) : Option (LNode × List Nat) :=
  if dst = src then (doc.get dst).map fun _ => (doc, [])
  else if src.isPrefixOf dst then none
  else (doc.get src).bind fun v => (doc.set src .null).bind fun d1 =>
    (d1.get dst).bind fun old => (d1.set dst v).map fun d2 => (d2, old.blocks)

def lmoveNode2 (D : LNode) (dst : Path) (S : LNode) (src : Path) : Option (LNode × LNode × List Nat) :=
  (S.get src).bind fun v => (S.set src .null).bind fun S' =>
    (D.get dst).bind fun old => (D.set dst v).map fun D' => (D', S', old.blocks)

/-- `dst.CopyFrom(src)`: `destroy()` of the destination, then a copy made of fresh blocks -/
def lcopyNode (cs : Bool) (doc : LNode) (dst src : Path) (n : Nat) : Option Eff :=
  if dst.isPrefixOf src || src.isPrefixOf dst then none
  else (doc.get src).bind fun v => (doc.get dst).bind fun old =>
    let c := lcopy cs v n
    (doc.set dst c.1).map fun d => ⟨d, c.2, old.blocks⟩

def lcopyNode2 (cs : Bool) (D : LNode) (dst : Path) (S : LNode) (src : Path) (n : Nat) : Option Eff :=
  (S.get src).bind fun v => (D.get dst).bind fun old =>
    let c := lcopy cs v n
    (D.set dst c.1).map fun d => ⟨d, c.2, old.blocks⟩

/-- `a.Swap(b)`: three `rawAssign`s, nothing is allocated or freed -/
def lswapNodes (doc : LNode) (a b : Path) : Option LNode :=
  if a = b then (doc.get a).map fun _ => doc
  else if a.isPrefixOf b || b.isPrefixOf a then none
  else (doc.get a).bind fun x => (doc.get b).bind fun y => (doc.set a y).bind fun d1 => d1.set b x

def lswapNodes2 (D : LNode) (a : Path) (S : LNode) (b : Path) : Option (LNode × LNode × LNode × LNode) :=
  (D.get a).bind fun x => (S.get b).bind fun y => (D.set a y).bind fun D' => (S.set b x).map fun S' => (D', S', x, y)

/-! ## the ledger -/

structure Ledger where
  /-- next unused id -/
  next : Nat
  /-- ids obtained and not yet returned -/
  live : List Nat
  /-- number of `Free` calls on an id that was not live (foreign free, double free) -/
  faults : Nat
  deriving Repr

def Ledger.empty : Ledger := ⟨0, [], 0⟩

/-- the ids `next … n'-1` are obtained -/
def Ledger.alloc (L : Ledger) (n' : Nat) : Ledger :=
  { L with next := n', live := L.live ++ List.range' L.next (n' - L.next) }

def Ledger.free (L : Ledger) (id : Nat) : Ledger :=
  if id ∈ L.live then { L with live := L.live.erase id } else { L with faults := L.faults + 1 }

def Ledger.freeAll (L : Ledger) (ids : List Nat) : Ledger := ids.foldl Ledger.free L

/-- a document: root node and `str_` -/
structure LDoc where
  root : LNode
  str : Option Nat
  deriving Repr, Inhabited

def LDoc.fresh : LDoc := ⟨.null, none⟩

/-- everything `~GenericDocument` / `destroyDom` frees -/
def LDoc.blocks (d : LDoc) : List Nat := d.root.blocks ++ d.str.toList

def docsBlocks : List LDoc → List Nat
  | [] => []
  | d :: ds => d.blocks ++ docsBlocks ds

structure LSession where
  live : Bool
  alloc : AllocKind
  docs : List LDoc
  ledger : Ledger
  deriving Repr

/-- before the first `dom-reset` (matches `Session.init`) -/
def LSession.init : LSession := ⟨false, .pool, [.fresh, .fresh, .fresh, .fresh], .empty⟩

def freshDocs : List LDoc := [.fresh, .fresh, .fresh, .fresh]

def LDoc.erase (d : LDoc) : Node := d.root.erase

def LSession.erase (s : LSession) : Session := ⟨s.live, s.alloc, s.docs.map LDoc.erase⟩

/-- record the events of one operation -/
def Ledger.commit (L : Ledger) (next : Nat) (freed : List Nat) : Ledger := (L.alloc next).freeAll freed

/-- commands inside an open case (freeing allocators only) -/
def lstepLive (env : Containers.Env) (s : LSession) : Op → Option LSession
  -- dom-reset: the previous session is deleted (all documents destroyed), then four fresh documents
  | .reset a =>
    if a = .pool then none
    else some ⟨true, a, freshDocs, s.ledger.commit s.ledger.next (docsBlocks s.docs)⟩
  -- dom-end: all four documents destroyed (`~GenericDocument`: `destroyDom()`)
  | .fin => some ⟨false, s.alloc, freshDocs, s.ledger.commit s.ledger.next (docsBlocks s.docs)⟩
  | .parse d text =>
    (s.docs[d]?).map fun doc =>
      -- destroyDom(): root destroyed, str_ freed; allocateStringBuffer: a new str_ (kept on failure too)
      let buf := s.ledger.next
      match env.parse text with
      | some v =>
        let t := lofJVal buf v (buf + 1)
        { s with docs := s.docs.set d ⟨t.1, some buf⟩, ledger := s.ledger.commit t.2 doc.blocks }
      | none =>
        -- the containers the SAX handler had built are destroyed again by `TearDown` (net effect: none)
        { s with docs := s.docs.set d ⟨.null, some buf⟩, ledger := s.ledger.commit (buf + 1) doc.blocks }
  | .node d p op =>
    (s.docs[d]?).bind fun doc => (doc.root.modifyAt (LNode.apply env op) p s.ledger.next).map fun r =>
      { s with docs := s.docs.set d { doc with root := r.node }, ledger := s.ledger.commit r.next r.freed }
  | .move d p d2 p2 =>
    if d = d2 then
      (s.docs[d]?).bind fun doc => (lmoveNode doc.root p p2).map fun r =>
        { s with docs := s.docs.set d { doc with root := r.1 }, ledger := s.ledger.commit s.ledger.next r.2 }
    else if s.alloc = .pool then none
    else
      (s.docs[d]?).bind fun D => (s.docs[d2]?).bind fun S => (lmoveNode2 D.root p S.root p2).bind fun r =>
        -- PRECONDITION (not checked by the API): the moved subtree holds no view into S's parse buffer
        (S.root.get p2).bind fun v =>
          if v.refs = [] then
            some { s with docs := (s.docs.set d { D with root := r.1 }).set d2 { S with root := r.2.1 },
                          ledger := s.ledger.commit s.ledger.next r.2.2 }
          else none
  | .copy d p d2 p2 cs =>
    if d = d2 then
      (s.docs[d]?).bind fun doc => (lcopyNode cs doc.root p p2 s.ledger.next).map fun r =>
        { s with docs := s.docs.set d { doc with root := r.node }, ledger := s.ledger.commit r.next r.freed }
    else
      (s.docs[d]?).bind fun D => (s.docs[d2]?).bind fun S =>
        (lcopyNode2 cs D.root p S.root p2 s.ledger.next).map fun r =>
          { s with docs := s.docs.set d { D with root := r.node }, ledger := s.ledger.commit r.next r.freed }
  | .swap d p d2 p2 =>
    if d = d2 then
      (s.docs[d]?).bind fun doc => (lswapNodes doc.root p p2).map fun r =>
        { s with docs := s.docs.set d { doc with root := r } }
    else if s.alloc = .pool then none
    else
      (s.docs[d]?).bind fun D => (s.docs[d2]?).bind fun S => (lswapNodes2 D.root p S.root p2).bind fun r =>
        -- PRECONDITION (not checked by the API): neither subtree holds a view into its document's parse buffer
        if r.2.2.1.refs = [] ∧ r.2.2.2.refs = [] then
          some { s with docs := (s.docs.set d { D with root := r.1 }).set d2 { S with root := r.2.1 } }
        else none
  | .docMove d d2 =>
    -- node move assignment (old root destroyed), `Free(str_)`, then root, allocator and `str_` of the source taken over
    if d = d2 then none
    else (s.docs[d]?).bind fun D => (s.docs[d2]?).map fun S =>
      { s with docs := (s.docs.set d S).set d2 .fresh, ledger := s.ledger.commit s.ledger.next D.blocks }
  | .docSwap d d2 =>
    (s.docs[d]?).bind fun D => (s.docs[d2]?).map fun S =>
      { s with docs := (s.docs.set d S).set d2 D }

/-- the command interpreter with ledger; `none` = rejected (`bad-op` of `Model.Dom`, `dom-reset pool`, or one of the
    two aliasing preconditions on cross-document node moves) -/
def lstep (env : Containers.Env) (s : LSession) (op : Op) : Option LSession :=
  match op with
  | .reset a =>
    if a = .pool then none
    else some ⟨true, a, freshDocs, s.ledger.commit s.ledger.next (docsBlocks s.docs)⟩
  | op => if s.live then lstepLive env s op else none

/-- a rejected command leaves the state unchanged -/
def lrun (env : Containers.Env) : LSession → List Op → LSession
  | s, [] => s
  | s, op :: ops =>
    match lstep env s op with
    | some s' => lrun env s' ops
    | none => lrun env s ops

end Sonic.Model.Ledger
