import Sonic.Gen.Tables
import Sonic.Spec.Json
import Sonic.Spec.Render
import Sonic.Model.Stack
import Sonic.Model.Quote
import Sonic.Model.Itoa
import Sonic.Model.Ftoa

/-!
# Model of `SerializeImpl` (`include/sonic/dom/serialize.h`) driving the `Stack` model of the `WriteBuffer`

A literal transcription of the goto-style routine as a two-label state machine (`val_begin`, `scope_end`) with
fuel; `doc_end`, `type_err`, `inf_err`, `key_err` are the terminal outcomes.

* The document is a `Spec.JVal`.  The pointer `node` together with the `next()` chain that follows it is the list
  `St.node` (`node` = its head, `node->next()` = its tail); the children of an array are its elements, the children
  of an object are `key₁, value₁, key₂, value₂, …` with the keys as string nodes (`flat`) — exactly the node layout the
  C++ walks.  Running off the end of that list (`node->next()` of the last child being dereferenced) is the explicit
  fault `.nodeEnd`.
* The routine's variables are kept as they are: `is_obj`, `val_cnt` (remaining nodes of the current container,
  `Size() << is_obj`), `member_cnt` (remaining members), `is_single`, `is_key = is_obj & ~val_cnt`, the explicit
  `ParentCtx` stack with the packed `len = val_cnt << 1 | is_obj` (`St.ctx` holds the decoded entries, `St.stk` is the
  `(size, cap)` model of the `internal::Stack stk` that stores them, 16 bytes each).
* `val_cnt`, `member_cnt`, `val_cnt_nxt` are `uint32_t` in C.  They are `Nat` here: the model is faithful under
  `SizesFit` (every array has `< 2^31` elements and every object `< 2^30` members, so that `Size() << is_obj`,
  `member_cnt << 1` and `val_cnt << 1` do not wrap).  The two decrements that would wrap below zero in C
  (`val_cnt--`, `member_cnt -= is_key`, `val_cnt - 1`) are the explicit fault `.wrap` (proved unreachable).
* Every store into the write buffer is checked by the `Stack` model against the capacity established by the
  preceding `Grow`: `Quote` runs the proved model `Model.Quote.run` on a destination whose capacity is what is left
  of the buffer (`limit - size`; a store beyond it is `.quote`), `U64toa`/`I64toa`/`F64toa` are checked with their
  write extents, `Push5_8` with its 8-byte `memcpy`, every `PushUnsafe<char>` with 1 byte.
* `kRaw` nodes and unknown type tags do not exist in `JVal`, so the `kRaw` case and `type_err` (11) are not
  reachable in this model (they are outside property C06: parsed / API-built documents contain neither).
-/
namespace Sonic.Model.Serialize
open Sonic.Spec Sonic.Model.Stack Sonic.Model

/-! ## the double printer as seen by the serializer -/

/-- what `F64toa(wb.End(), d)` did: the bytes `[End, End + rn)` and its write extent relative to `End` -/
structure FtoaOut where
  text : List Nat
  ext : Nat
  deriving Repr, DecidableEq, Inhabited

/-- `none` = the `F64toa` model hit something undefined in C++ (excluded by C07) -/
abbrev FtoaFn := Nat → Option FtoaOut

/-- the literal model of `F64toa` (`Model/Ftoa.lean`) -/
def ftoaModel : FtoaFn := fun bits =>
  match Ftoa.f64toa Itoa.zeroBuf 0 bits with
  | none => none
  | some o => some ⟨Itoa.slice o.st.buf 0 o.ret, o.st.ext⟩

/-- the printer handed to `Spec.Render.render`: the text, `none` when `F64toa` returns 0 (non-finite) -/
def ftoaText (F : FtoaFn) : Nat → Option (List Nat) := fun bits =>
  match F bits with
  | some o => if o.text.length = 0 then none else some o.text
  | none => none

structure Cfg where
  /-- vector width of `Quote` (32 = AVX2, 16 = SSE) -/
  W : Nat := 32
  /-- sanitizer variant of `Quote`'s tail -/
  san : Bool := false
  /-- check writes against `cap_` (true) or against the allocated size (false) -/
  strict : Bool := false
  ftoa : FtoaFn := ftoaModel

/-! ## nodes -/

/-- children of an object as the node sequence `key, value, key, value, …` -/
def flat : List (List Nat × JVal) → List JVal
  | [] => []
  | (k, v) :: kvs => .str k :: v :: flat kvs

def isContainer : JVal → Bool
  | .arr _ => true
  | .obj _ => true
  | _ => false

def isObject : JVal → Bool
  | .obj _ => true
  | _ => false

/-- `node->Size()`: element / member count of a container, byte length of a string -/
def nodeSize : JVal → Nat
  | .arr xs => xs.length
  | .obj kvs => kvs.length
  | .str s => s.length
  | _ => 0

/-- `getArrChildrenFirstUnsafe()` / `getObjChildrenFirstUnsafe()` and the `next()` chain behind it -/
def children : JVal → List JVal
  | .arr xs => xs
  | .obj kvs => flat kvs
  | _ => []

mutual
/-- number of nodes (keys included) -/
def nodes : JVal → Nat
  | .arr xs => 1 + nodesList xs
  | .obj kvs => 1 + nodesMems kvs
  | _ => 1
def nodesList : List JVal → Nat
  | [] => 0
  | x :: xs => nodes x + nodesList xs
def nodesMems : List (List Nat × JVal) → Nat
  | [] => 0
  | (_, v) :: kvs => 1 + nodes v + nodesMems kvs
end

mutual
/-- the hypothesis under which the `Nat` counters of this model coincide with the `uint32_t` counters of the code -/
def SizesFit : JVal → Bool
  | .arr xs => decide (xs.length < 2 ^ 31) && sizesFitList xs
  | .obj kvs => decide (kvs.length < 2 ^ 30) && sizesFitMems kvs
  | _ => true
def sizesFitList : List JVal → Bool
  | [] => true
  | x :: xs => SizesFit x && sizesFitList xs
def sizesFitMems : List (List Nat × JVal) → Bool
  | [] => true
  | (_, v) :: kvs => SizesFit v && sizesFitMems kvs
end

/-! ## machine -/

inductive Fault where
  | wbWrite    -- store past the limit of the write buffer
  | wbPop      -- `wb.Pop` below `buf_`
  | stkWrite   -- store past the limit of the parent-context stack
  | stkPop     -- `stk.Top` / `stk.Pop` below `buf_`
  | quote      -- `Quote` faulted (store past what is left of the write buffer, or any fault of its own)
  | ftoaUB     -- the `F64toa` model hit undefined behaviour
  | nodeEnd    -- `node` dereferenced past the last sibling
  | wrap       -- a `uint32_t` counter would wrap below zero
  deriving Repr, DecidableEq, Inhabited

inductive Outcome where
  /-- `return err` with the write buffer and the context stack as they are at that point -/
  | done (err : Nat) (wb : Stk) (stk : Stk)
  | fault (f : Fault)
  | fuel
  deriving Repr, DecidableEq, Inhabited

/-- `ParentCtx{len, ptr}`; `rest` = `ptr->next()` and the chain behind it -/
structure Ctx where
  len : Nat
  rest : List JVal

structure St where
  wb : Stk
  stk : Stk
  ctx : List Ctx
  isObj : Bool
  valCnt : Nat
  memberCnt : Nat
  node : List JVal

inductive Lbl where
  | valBegin
  | scopeEnd
  deriving Repr, DecidableEq

inductive Step where
  | goto (l : Lbl) (s : St)
  | stop (o : Outcome)

def b2n (b : Bool) : Nat := if b then 1 else 0

/-- `'[' | (uint8_t)(is_obj) << 5` -/
def openCh (isObj : Bool) : Nat := 0x5B ||| (b2n isObj <<< 5)
/-- `']' | (uint8_t)(is_obj) << 5` -/
def closeCh (isObj : Bool) : Nat := 0x5D ||| (b2n isObj <<< 5)

/-- `"false,  "` / `"true,   "` / `"null,   "` -/
def lit8False : List Nat := [0x66, 0x61, 0x6C, 0x73, 0x65, 0x2C, 0x20, 0x20]
def lit8True : List Nat := [0x74, 0x72, 0x75, 0x65, 0x2C, 0x20, 0x20, 0x20]
def lit8Null : List Nat := [0x6E, 0x75, 0x6C, 0x6C, 0x2C, 0x20, 0x20, 0x20]

/-- the memory `Quote` reads the string from: the string at address 0, every page mapped (C09 proves the result
    does not depend on what surrounds the string, nor on which of the surrounding pages are mapped) -/
def strMem (s : List Nat) : Quote.Mem := fun p => some (s.getD p 0)

/-- the 16 bytes of a `ParentCtx` as stored on `stk` (their values are kept decoded in `St.ctx`) -/
def ctxBytes : List Nat := List.replicate 16 0

def kExpectMinifyRatio : Nat := 18
def kNumberSize : Nat := 33

/-- two's-complement bit pattern of an `int64_t` -/
def i64Bits (n : Int) : Nat := (n % 2 ^ 64).toNat

/-- the code after the `switch`: `val_cnt--; if (val_cnt != 0) { node = node->next(); goto val_begin; }`
    and otherwise fall through to `scope_end` -/
def afterValue (s : St) (rest : List JVal) : Step :=
  if s.valCnt = 0 then .stop (.fault .wrap)
  else
    let vc := s.valCnt - 1
    if vc ≠ 0 then .goto .valBegin { s with valCnt := vc, node := rest }
    else .goto .scopeEnd { s with valCnt := vc, node := rest }

/-- `wb.PushSizeUnsafe<char>(rn); wb.PushUnsafe<char>(term)` then the common tail -/
def commit (cfg : Cfg) (s : St) (wb : Stk) (bytes : List Nat) (term : Nat) (rest : List JVal) : Step :=
  match wb.pushUnsafe cfg.strict bytes with
  | none => .stop (.fault .wbWrite)
  | some wb =>
    match wb.pushUnsafe cfg.strict [term] with
    | none => .stop (.fault .wbWrite)
    | some wb => afterValue { s with wb := wb } rest

/-- `case kObject: case kArray:` of `val_begin` (`c` = the node, `rest` = its `next()` chain) -/
def valContainer (cfg : Cfg) (s : St) (c : JVal) (rest : List JVal) : Step :=
  let wb := s.wb.grow 3
  let isObjNxt := isObject c
  let valCntNxt := nodeSize c
  if valCntNxt = 0 then
    match wb.pushUnsafe cfg.strict [openCh isObjNxt] with
    | none => .stop (.fault .wbWrite)
    | some wb =>
      match wb.pushUnsafe cfg.strict [closeCh isObjNxt] with
      | none => .stop (.fault .wbWrite)
      | some wb =>
        match wb.pushUnsafe cfg.strict [0x2C] with
        | none => .stop (.fault .wbWrite)
        | some wb => afterValue { s with wb := wb } rest
  else
    if s.isObj && ((s.memberCnt <<< 1) + 1 != s.valCnt) then .stop (.done Gen.kSerErrorInvalidObjKey wb s.stk)
    else
      -- stk.Push(ParentCtx{val_cnt << 1 | is_obj, node});
      match s.stk.push cfg.strict ctxBytes with
      | none => .stop (.fault .stkWrite)
      | some stk =>
        let ctx : Ctx := ⟨(s.valCnt <<< 1) ||| b2n s.isObj, rest⟩
        match wb.pushUnsafe cfg.strict [openCh isObjNxt] with
        | none => .stop (.fault .wbWrite)
        | some wb =>
          .goto .valBegin
            { wb := wb, stk := stk, ctx := ctx :: s.ctx, isObj := isObjNxt,
              valCnt := valCntNxt <<< b2n isObjNxt, memberCnt := valCntNxt, node := children c }

/-- label `val_begin` -/
def valBegin (cfg : Cfg) (s : St) : Step :=
  match s.node with
  | [] => .stop (.fault .nodeEnd)
  | n :: rest =>
    match n with
    | .str str =>
      -- is_key = ((size_t)(is_obj) & (~val_cnt)) : bit 0 of `~val_cnt`, i.e. `val_cnt` even
      let isKey : Bool := s.isObj && (s.valCnt % 2 == 0)
      let strLen := str.length
      let wb := s.wb.grow (strLen * 6 + 32 + 3)
      match Quote.run cfg.W cfg.san 0 (strMem str) strLen (wb.limit cfg.strict - wb.size) (fun _ => 0) (fun _ => 0) with
      | .error _ => .stop (.fault .quote)
      | .ok (bytes, _) =>
        if isKey && s.memberCnt == 0 then .stop (.fault .wrap)
        else commit cfg { s with memberCnt := s.memberCnt - b2n isKey } wb bytes (if isKey then 0x3A else 0x2C) rest
    | .num (.sint i) =>
      let wb := s.wb.grow kNumberSize
      let r := Itoa.i64toa Itoa.zeroBuf 0 (i64Bits i)
      match wb.scratch cfg.strict r.ext with
      | none => .stop (.fault .wbWrite)
      | some wb => commit cfg s wb (Itoa.slice r.buf 0 r.out) 0x2C rest
    | .num (.uint u) =>
      let wb := s.wb.grow kNumberSize
      let r := Itoa.u64toa Itoa.zeroBuf 0 u
      match wb.scratch cfg.strict r.ext with
      | none => .stop (.fault .wbWrite)
      | some wb => commit cfg s wb (Itoa.slice r.buf 0 r.out) 0x2C rest
    | .num (.real bits) =>
      let wb := s.wb.grow kNumberSize
      match cfg.ftoa bits with
      | none => .stop (.fault .ftoaUB)
      | some o =>
        match wb.scratch cfg.strict o.ext with
        | none => .stop (.fault .wbWrite)
        | some wb =>
          -- if (rn <= 0) goto inf_err;
          if o.text.length = 0 then .stop (.done Gen.kSerErrorInfinity wb s.stk)
          else commit cfg s wb o.text 0x2C rest
    | .bool b =>
      match s.wb.push5_8 cfg.strict (if b then lit8True else lit8False) (5 + b2n (!b)) with
      | none => .stop (.fault .wbWrite)
      | some wb => afterValue { s with wb := wb } rest
    | .null =>
      match s.wb.push5_8 cfg.strict lit8Null 5 with
      | none => .stop (.fault .wbWrite)
      | some wb => afterValue { s with wb := wb } rest
    | .arr xs => valContainer cfg s (.arr xs) rest
    | .obj kvs => valContainer cfg s (.obj kvs) rest

/-- label `scope_end` (and `doc_end`) -/
def scopeEnd (cfg : Cfg) (isSingle : Bool) (s : St) : Step :=
  match s.wb.pop 1 with
  | none => .stop (.fault .wbPop)
  | some wb =>
    if s.memberCnt ≠ 0 && s.isObj then .stop (.done Gen.kSerErrorInvalidObjKey wb s.stk)
    else
      let wb := wb.grow 2
      match wb.pushUnsafe cfg.strict [closeCh s.isObj] with
      | none => .stop (.fault .wbWrite)
      | some wb =>
        match wb.pushUnsafe cfg.strict [0x2C] with
        | none => .stop (.fault .wbWrite)
        | some wb =>
          if s.stk.size = 0 then
            -- doc_end: wb.Pop<char>(1 + is_single); return kErrorNone;
            match wb.pop (1 + b2n isSingle) with
            | none => .stop (.fault .wbPop)
            | some wb => .stop (.done Gen.kErrorNone wb s.stk)
          else
            -- parent = stk.Top<ParentCtx>();
            match s.ctx with
            | [] => .stop (.fault .stkPop)
            | parent :: ctx =>
              match s.stk.pop 16 with
              | none => .stop (.fault .stkPop)
              | some stk =>
                let valCnt := parent.len >>> 1
                let isObj : Bool := parent.len &&& 1 != 0
                if valCnt = 0 then .stop (.fault .wrap)
                else
                  let memberCnt := (valCnt - 1) >>> 1
                  let valCnt := valCnt - 1
                  let s' : St := { wb := wb, stk := stk, ctx := ctx, isObj := isObj, valCnt := valCnt,
                                   memberCnt := memberCnt, node := parent.rest }
                  if valCnt > 0 then .goto .valBegin s' else .goto .scopeEnd s'

def step (cfg : Cfg) (isSingle : Bool) : Lbl → St → Step
  | .valBegin, s => valBegin cfg s
  | .scopeEnd, s => scopeEnd cfg isSingle s

def run (cfg : Cfg) (isSingle : Bool) : Nat → Lbl → St → Outcome
  | 0, _, _ => .fuel
  | fuel + 1, l, s =>
    match step cfg isSingle l s with
    | .goto l' s' => run cfg isSingle fuel l' s'
    | .stop o => o

/-- `is_single = (!node->IsContainer()) || node->Empty()` -/
def isSingle (v : JVal) : Bool := !isContainer v || nodeSize v == 0

/-- the code before `val_begin` -/
def start (cfg : Cfg) (v : JVal) (wb : Stk) : Step :=
  let nodeNums := if isContainer v then nodeSize v else 1
  let estimate := nodeNums * kExpectMinifyRatio + 64
  let isObj := isObject v
  let stk := Stk.dflt                 -- internal::Stack stk;
  let wb := wb.clear.reserve estimate
  if isSingle v then
    .goto .valBegin { wb := wb, stk := stk, ctx := [], isObj := isObj, valCnt := 1, memberCnt := 0, node := [v] }
  else
    match wb.pushUnsafe cfg.strict [openCh isObj] with
    | none => .stop (.fault .wbWrite)
    | some wb =>
      .goto .valBegin { wb := wb, stk := stk, ctx := [], isObj := isObj, valCnt := nodeSize v <<< b2n isObj,
                        memberCnt := nodeSize v, node := children v }

/-- fuel that is always enough: every node costs one `val_begin`, every non-empty container one `scope_end`,
    plus the `scope_end` of a single root -/
def fuelOf (v : JVal) : Nat := 2 * nodes v + 2

/-- `SerializeImpl(&v, wb)` -/
def serialize (cfg : Cfg) (v : JVal) (wb : Stk) : Outcome :=
  match start cfg v wb with
  | .stop o => o
  | .goto l s => run cfg (isSingle v) (fuelOf v) l s

/-- `n + 1` calls of `Serialize` on the same `WriteBuffer` object; the last one is reported -/
def serializeN (cfg : Cfg) (v : JVal) : Nat → Stk → Outcome
  | 0, wb => serialize cfg v wb
  | n + 1, wb =>
    match serialize cfg v wb with
    | .done _ wb' _ => serializeN cfg v n wb'
    | o => o

/-- `Dump()`: `WriteBuffer wb; err = Serialize(wb); return err == kErrorNone ? wb.ToString() : "";`
    (`none` = fault).  `ToString` NUL-terminates at `End()`; `std::string(const char*)` stops at the first NUL, and
    the text contains none (every byte below 0x20 is escaped), so the string is the whole text. -/
def dump (cfg : Cfg) (v : JVal) : Option (List Nat) :=
  match serialize cfg v Stk.dflt with
  | .done err wb _ =>
    if err = Gen.kErrorNone then
      match wb.toString cfg.strict with
      | some wb => some wb.buf
      | none => none
    else some []
  | _ => none

/-! ## line protocol (`/verif/protocol/serialize.md`) -/

def faultName : Fault → String
  | .wbWrite => "wbWrite" | .wbPop => "wbPop" | .stkWrite => "stkWrite" | .stkPop => "stkPop"
  | .quote => "quote" | .ftoaUB => "ftoaUB" | .nodeEnd => "nodeEnd" | .wrap => "wrap"

def showOutcome : Outcome → String
  | .done err wb _ =>
    if err = 0 then s!"err=0 dump={hexStr wb.buf} size={wb.size} cap={wb.cap}"
    else s!"err={err} dump=- size={wb.size} cap={wb.cap}"
  | .fault f => s!"fault:{faultName f}"
  | .fuel => "fault:fuel"

/-- the `err=… dump=… size=… cap=…` part for `v` serialized `nreuse + 1` times into `WriteBuffer wb(cap0)`;
    an overrun (or any other fault of the checked model) prints `fault:<which>` instead -/
def dumpVal (W : Nat) (v : JVal) (cap0 nreuse : Nat) : String :=
  showOutcome (serializeN { W := W } v nreuse (Stk.new cap0))

private def hexVal (c : Char) : Option Nat :=
  if '0' ≤ c ∧ c ≤ '9' then some (c.toNat - 48)
  else if 'a' ≤ c ∧ c ≤ 'f' then some (c.toNat - 87)
  else if 'A' ≤ c ∧ c ≤ 'F' then some (c.toNat - 55)
  else none

private def unhexGo : List Char → List Nat → Option (List Nat)
  | [], acc => some acc.reverse
  | [_], _ => none
  | a :: b :: rest, acc =>
    match hexVal a, hexVal b with
    | some x, some y => unhexGo rest ((x * 16 + y) :: acc)
    | _, _ => none

private def unhex (s : String) : Option (List Nat) :=
  if s == "-" then some [] else unhexGo s.toList []

def showReparse (bs : List Nat) : String :=
  match Json.parse bs with
  | .ok v => "ok:" ++ v.show
  | .error .malformed => "malformed"
  | .error .infinity => "infinity"

/-- `ser <cap0> <nreuse> <hex json>` -/
def runLine (W : Nat) (toks : List String) : String :=
  match toks with
  | ["ser", capS, reuseS, hexS] =>
    match capS.toNat?, reuseS.toNat?, unhex hexS with
    | some cap0, some nreuse, some text =>
      match Json.parse text with
      | .error _ => "bad-input"
      | .ok v =>
        let o := serializeN { W := W } v nreuse (Stk.new cap0)
        let rendered := match Render.render (ftoaText ftoaModel) v with
          | some bs => hexStr bs
          | none => "none"
        let reparse := match o with
          | .done 0 wb _ => showReparse wb.buf
          | _ => "none"
        s!"{showOutcome o} render={rendered} reparse={reparse} tree={v.show}"
    | _, _, _ => "bad-op"
  | _ => "bad-op"

end Sonic.Model.Serialize
