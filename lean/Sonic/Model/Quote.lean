import Sonic.Gen.Tables
import Sonic.Spec.Quote

/-!
# Model of `Quote` (`arch/common/x86_common/quote.inc.h`) and `DoEscape` (`arch/common/quote_common.h`)

A literal transcription, parametric in the vector width `W` (`VEC_LEN`: 32 for AVX2, 16 for SSE).

* Source memory is `Mem := Nat → Option Nat` (address ↦ byte, `none` = unmapped).  Every load checks every
  byte it touches: a `W`-byte vector load at `p` faults as soon as one byte of `[p, p+W)` is unmapped.
  The local array `tmp_src[2*W]` of the tail is a `Mem` of its own (indices `0 … 2W-1`; the bytes not
  overwritten by the `memcpy` are the arbitrary `junk`), so the tail loop and `DoEscape` are written once
  for "a readable memory and a pointer into it", exactly like the C++ (`src_r`).
* The destination is a function `Nat → Nat` with a declared capacity `cap`; every store checks its whole
  range against `cap` and records the write extent (one past the highest index stored to).
* SIMD: `CopyAndGetEscapMask` loads `W` bytes, stores all `W` bytes, and returns the mask as the list of
  its `W` lanes (lane `i` = bit `i`); `mm != 0` is `mm.any id`, `__builtin_ctz(mm)` is `ctz mm`,
  `mm & (VEC_FULL_MASK >> (VEC_LEN - nb))` (`0 < nb < VEC_LEN`) is `mm.take nb`.
* Loops use fuel; running out of fuel is the explicit fault `.fuel`, so a theorem `… = .ok _` proves
  that the fuel supplied by `quote` (`nb + 1`) was enough, i.e. termination.
* `size_t` underflow (`nb--` with `nb = 0`) is the explicit fault `.underflow`; an index outside a
  256-entry table is `.tableIndex`; `memcpy` from a null `kQuoteTab[ch].s` is `.nullTable`.
-/

namespace Sonic.Model.Quote
open Sonic.Gen

inductive Fault where
  | load        -- load touching an unmapped byte (SIGSEGV)
  | store       -- store at an index ≥ capacity of the destination
  | nullTable   -- `memcpy(dst, kQuoteTab[ch].s, 8)` with a null `.s`
  | tableIndex  -- table index ≥ 256
  | underflow   -- `nb--` with `nb = 0`
  | fuel        -- loop did not terminate within the fuel
  deriving DecidableEq, Repr, Inhabited

abbrev Mem := Nat → Option Nat

def pageSize : Nat := 4096

/-- one-byte load -/
def loadByte (m : Mem) (p : Nat) : Except Fault Nat :=
  match m p with
  | some b => .ok b
  | none => .error .load

/-- `w`-byte load at `p` (vector load, or `memcpy` source): faults if any byte is unmapped -/
def loadVec (m : Mem) (p : Nat) : Nat → Except Fault (List Nat)
  | 0 => .ok []
  | w + 1 =>
    match loadByte m p with
    | .error e => .error e
    | .ok b =>
      match loadVec m (p + 1) w with
      | .error e => .error e
      | .ok r => .ok (b :: r)

/-- destination buffer: contents, capacity, write extent -/
structure Dst where
  buf : Nat → Nat
  cap : Nat
  ext : Nat

/-- store the bytes `bs` at indices `[i, i + bs.length)` -/
def store (d : Dst) (i : Nat) (bs : List Nat) : Except Fault Dst :=
  if i + bs.length ≤ d.cap then
    .ok { d with
          buf := fun j => if j < i then d.buf j else
                   match bs[j - i]? with
                   | some x => x
                   | none => d.buf j
          ext := max d.ext (i + bs.length) }
  else .error .store

/-- a byte that must be escaped: `(v < '\x20') | (v == '\\') | (v == '"')` -/
def needEsc (b : Nat) : Bool := b < 0x20 || b == 0x5C || b == 0x22

/-- `__builtin_ctz` of a mask given as its list of lanes (only used when some lane is set) -/
def ctz : List Bool → Nat
  | [] => 0
  | true :: _ => 0
  | false :: r => ctz r + 1

/-- `CopyAndGetEscapMask(src, dst)`: `W`-byte load, `W`-byte store, lane mask -/
def copyAndGetEscapMask (W : Nat) (m : Mem) (src : Nat) (d : Dst) (dst : Nat) :
    Except Fault (Dst × List Bool) :=
  match loadVec m src W with
  | .error e => .error e
  | .ok v =>
    match store d dst v with
    | .error e => .error e
    | .ok d => .ok (d, v.map needEsc)

/-- `DoEscape(src, dst, nb)`; recursion on `nb`.  Result: destination, `src`, `dst`, `nb`. -/
def doEscape (m : Mem) : Nat → Dst → Nat → Nat → Except Fault (Dst × Nat × Nat × Nat)
  | 0, _, _, _ => .error .underflow            -- `nb--` would wrap
  | nb + 1, d, src, dst =>
    match loadByte m src with                   -- ch = *(uint8_t*)src
    | .error e => .error e
    | .ok ch =>
      match kQuoteTabS[ch]? with                -- kQuoteTab[ch].s
      | none => .error .tableIndex
      | some row =>
        if row.isEmpty then .error .nullTable else
        match kQuoteTabN[ch]? with              -- nc = kQuoteTab[ch].n
        | none => .error .tableIndex
        | some nc =>
          match store d dst row with            -- memcpy(dst, kQuoteTab[ch].s, 8)
          | .error e => .error e
          | .ok d =>
            -- src++; nb--; dst += nc
            if nb = 0 then .ok (d, src + 1, dst + nc, 0) else
            match loadByte m (src + 1) with
            | .error e => .error e
            | .ok c2 =>
              match kNeedEscaped[c2]? with
              | none => .error .tableIndex
              | some f =>
                if f = 0 then .ok (d, src + 1, dst + nc, nb)
                else doEscape m nb d (src + 1) (dst + nc)

/-- the `while (nb >= VEC_LEN)` loop.  Result: destination, `src`, `dst`, `nb` at loop exit. -/
def mainLoop (W : Nat) (m : Mem) : Nat → Dst → Nat → Nat → Nat → Except Fault (Dst × Nat × Nat × Nat)
  | 0, _, _, _, _ => .error .fuel
  | fuel + 1, d, src, dst, nb =>
    if W ≤ nb then
      match copyAndGetEscapMask W m src d dst with
      | .error e => .error e
      | .ok (d, mm) =>
        if mm.any id then
          let cn := ctz mm                      -- cn < W ≤ nb
          match doEscape m (nb - cn) d (src + cn) (dst + cn) with   -- MOVE_N_CHARS(src, cn); DoEscape
          | .error e => .error e
          | .ok (d, src, dst, nb) => mainLoop W m fuel d src dst nb
        else mainLoop W m fuel d (src + W) (dst + W) (nb - W)        -- MOVE_N_CHARS(src, VEC_LEN)
    else .ok (d, src, dst, nb)

/-- the `while (nb > 0)` tail loop reading through `src_r` (a pointer into `m`).  Result: destination, `dst`. -/
def tailLoop (W : Nat) (m : Mem) : Nat → Dst → Nat → Nat → Nat → Except Fault (Dst × Nat)
  | 0, _, _, _, _ => .error .fuel
  | fuel + 1, d, src, dst, nb =>
    if 0 < nb then
      match copyAndGetEscapMask W m src d dst with
      | .error e => .error e
      | .ok (d, mm0) =>
        let mm := mm0.take nb                   -- & (VEC_FULL_MASK >> (VEC_LEN - nb)): first nb lanes
        if mm.any id then
          let cn := ctz mm                      -- cn < nb
          match doEscape m (nb - cn) d (src + cn) (dst + cn) with
          | .error e => .error e
          | .ok (d, src, dst, nb) => tailLoop W m fuel d src dst nb
        else tailLoop W m fuel d src (dst + nb) 0                    -- dst += nb; nb = 0
    else .ok (d, dst)

/-- `char tmp_src[2*W]` after `memcpy(tmp_src, src, nb)`: the copied bytes, then arbitrary `junk` -/
def tmpMem (W : Nat) (bytes : List Nat) (junk : Nat → Nat) : Mem :=
  fun i => if i < 2 * W then
             (match bytes[i]? with
              | some b => some b
              | none => some (junk i))
           else none

/-- the `if (nb > 0) { … }` part of `Quote` after the main loop: choice of `src_r`, then the tail loop.
`san = true` is the `SONIC_USE_SANITIZE` build (`if (0)`: always copy). -/
def tailPart (W : Nat) (san : Bool) (m : Mem) (junk : Nat → Nat) (d : Dst) (src dst nb : Nat) :
    Except Fault (Dst × Nat) :=
  if 0 < nb then
    if !san && src % pageSize ≤ pageSize - 2 * W then
      tailLoop W m (nb + 1) d src dst nb        -- src_r = src
    else
      match loadVec m src nb with               -- memcpy(tmp_src, src, nb)  (nb < W ≤ 2W)
      | .error e => .error e
      | .ok bytes => tailLoop W (tmpMem W bytes junk) (nb + 1) d 0 dst nb   -- src_r = tmp_src
  else .ok (d, dst)

/-- `Quote(src, nb, dst)` with `dst` = index 0 of `d`.  Result: destination and the returned pointer
(as an index). -/
def quote (W : Nat) (san : Bool) (m : Mem) (junk : Nat → Nat) (src nb : Nat) (d : Dst) :
    Except Fault (Dst × Nat) :=
  match store d 0 [34] with                     -- *dst++ = '"'
  | .error e => .error e
  | .ok d =>
    match mainLoop W m (nb + 1) d src 1 nb with
    | .error e => .error e
    | .ok (d, src, dst, nb) =>
      match tailPart W san m junk d src dst nb with
      | .error e => .error e
      | .ok (d, dst) =>
        match store d dst [34] with             -- *dst++ = '"'
        | .error e => .error e
        | .ok d => .ok (d, dst + 1)

/-- Run `Quote` on the `n` bytes at `addr` of `mem` into a fresh destination of capacity `cap` whose
initial contents are `fill`; returns the bytes `[dst, returned pointer)` and the write extent. -/
def run (W : Nat) (san : Bool) (addr : Nat) (mem : Mem) (n cap : Nat) (junk fill : Nat → Nat) :
    Except Fault (List Nat × Nat) :=
  match quote W san mem junk addr n ⟨fill, cap, 0⟩ with
  | .error e => .error e
  | .ok (d, e) => .ok ((List.range e).map d.buf, d.ext)

/-! ## line-protocol entry (`/verif/protocol/quote.md`) -/

private def hexVal (c : Char) : Option Nat :=
  if '0' ≤ c ∧ c ≤ '9' then some (c.toNat - 48)
  else if 'a' ≤ c ∧ c ≤ 'f' then some (c.toNat - 87)
  else if 'A' ≤ c ∧ c ≤ 'F' then some (c.toNat - 55)
  else none

private def unhexGo : List Char → List Nat → Option (List Nat)
  | [], acc => some acc.reverse
  | [_], _ => none
  | a :: b :: rest, acc =>
    match hexVal a, hexVal b with
    | some x, some y => unhexGo rest ((x * 16 + y) :: acc)
    | _, _ => none

private def unhex (s : String) : Option (List Nat) :=
  if s == "-" then some [] else unhexGo s.toList []

private def hexChar (n : Nat) : Char := if n < 10 then Char.ofNat (48 + n) else Char.ofNat (87 + n)

private def hex (bs : List Nat) : String :=
  if bs.isEmpty then "-" else
  String.ofList (bs.foldr (fun b acc => hexChar (b / 16 % 16) :: hexChar (b % 16) :: acc) [])

def arenaBase : Nat := 0x100000

/-- the harness memory: two mapped pages at `arenaBase`, the string ending `off` bytes before their end,
every other mapped byte = `garbage`, everything else unmapped -/
def arenaMem (off garbage : Nat) (s : Array Nat) : Mem :=
  let a := arenaBase + 2 * pageSize - off - s.size
  fun p =>
    if arenaBase ≤ p ∧ p < arenaBase + 2 * pageSize then
      if a ≤ p then
        match s[p - a]? with
        | some b => some b
        | none => some garbage
      else some garbage
    else none

/-- `quote <off> <garbage> <hex>` -/
def runLine (W : Nat) (toks : List String) : String :=
  match toks with
  | ["quote", offS, gS, hexS] =>
    match offS.toNat?, gS.toNat?, unhex hexS with
    | some off, some g, some s =>
      let n := s.length
      if off ≤ pageSize ∧ g < 256 ∧ n + off ≤ 2 * pageSize ∧ 0 < W then
        let mem := arenaMem off g s.toArray
        let addr := arenaBase + 2 * pageSize - off - n
        let cap := 6 * n + 32 + 3
        let prod := match run W false addr mem n cap (fun _ => g) (fun _ => g) with
          | .ok (out, ext) => s!"{hex out} ext={ext}"
          | .error _ => "fault"
        let san := match run W true addr mem n cap (fun _ => g) (fun _ => g) with
          | .ok (out, ext) => s!"san={hex out} san_ext={ext}"
          | .error _ => "san=fault san_ext=0"
        s!"{prod} {san} spec={hex (Sonic.Spec.quote s)}"
      else "bad-op"
    | _, _, _ => "bad-op"
  | _ => "bad-op"

end Sonic.Model.Quote
