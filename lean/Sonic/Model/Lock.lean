import Sonic.Model.Pool
import Sonic.Model.Access

/-!
# Interleaving models for C17: `SpinLock` and the locked `MemoryPoolAllocator` (`include/sonic/allocator.h`)

Small-step semantics: a state, a step function "thread `t` performs its next atomic step", and a
**schedule** = an arbitrary finite sequence of thread numbers (an arbitrary scheduler; a scheduled thread
that does not exist or has nothing to do leaves the state unchanged).  The interleaving is sequentially
consistent at the granularity of the atomic steps below.

Runtime facts that are *assumed*, not modelled:
* the C++ memory model: `exchange(true, acquire)` that reads the value written by `store(false, release)`
  synchronises with it, so everything sequenced before an `unlock()` happens-before everything after the next
  successful `lock()`; hence two guarded regions of the same lock are ordered by happens-before and their
  plain accesses cannot race;
* thread-private steps (plain accesses to memory no other thread accesses) commute with every step of
  another thread, so modelling a `memset`/`memcpy` of a private block as one step loses no behaviour.

## (a) `SpinLock`
```
void lock() { for (;;) { if (!lock_.exchange(true, acquire)) break;
                         while (lock_.load(relaxed)) { pause } } }
void unlock() { lock_.store(false, release); }
```
Program counters: `idle` (outside), `xchg` (inside `lock()`, about to `exchange`), `spin` (in the inner
`while`, about to `load`), `held` (between the successful `exchange` and the `store(false)`).

## (b) locked pool (`-DSONIC_LOCKED_ALLOCATOR`: `LOCK_GUARD` = `std::lock_guard<SpinLock> guard(lock_)`)
One `MemoryPoolAllocator` object (slot 0 / pool 0 of `Model/Pool`'s state) is used **by reference** by all
threads (NB: `lock_` is a member of the allocator *object*, not of the `SharedData`; two *copies* of an
allocator share chunks but not the lock.  The locked option therefore only protects threads that use the
same object, which is the scenario of `thr-pool` and of this model).

`Malloc(n)`:    `[n == 0 → NULL]`  lock · **guarded region = `Model.Pool.poolMalloc`** · unlock.
`Realloc(p, old, new)`: `[new == 0 → NULL] [align(old) ≥ align(new) → p]` (no lock taken);
  lock · **in-place attempt** (`growInPlace`) · unlock; if it failed: — unguarded window — `Malloc(new)` (lock ·
  `poolMalloc` · unlock), then an unguarded `memcpy(newBlock, p, align(old))`.
(The only shared data touched outside the guarded regions is `shared_->refcount`, read by the
`sonic_assert`s at the top of `Malloc`/`Realloc`; neither function writes it.)
`poolRealloc_split` (Proofs/ConcurrencyPool) shows that `Model.Pool.poolRealloc` is exactly this composition
when nothing happens in between.

The caller (as the harness of `pool.md`/`thr-pool`) then fills the bytes it asked for with the block's
pattern `pat id`, outside the lock.  Ghost state (no run-time counterpart): the table of blocks handed out
(`State.blocks`, the same records as in the sequential model) and `owner[id]` = the thread block `id` was
handed to.
-/

namespace Sonic.Model.Lock
open Sonic.Model.Pool Sonic.Model.Access

/-! ## (a) SpinLock -/

inductive SpinPc
  | idle | xchg | spin | held
  deriving DecidableEq, Repr

structure SpinState where
  /-- `lock_` -/
  flag : Bool
  pcs : List SpinPc
  deriving Repr

/-- one atomic step of a thread at `pc` when the flag is `flag`; returns the new flag and pc.
    `leave`: what a thread at `held` does (`false`: some work inside the critical section, `true`: `unlock()`) -/
def spinStep (flag leave : Bool) : SpinPc → Bool × SpinPc
  | .idle => (flag, .xchg)                                   -- calls lock()
  | .xchg => (true, if flag then .spin else .held)           -- old = lock_.exchange(true, acquire)
  | .spin => (flag, if flag then .spin else .xchg)           -- lock_.load(relaxed)
  | .held => if leave then (false, .idle) else (flag, .held) -- lock_.store(false, release)

def SpinState.step (s : SpinState) (t : Nat) (leave : Bool) : SpinState :=
  match s.pcs[t]? with
  | some pc => ⟨(spinStep s.flag leave pc).1, s.pcs.set t (spinStep s.flag leave pc).2⟩
  | none => s

def SpinState.init (nthreads : Nat) : SpinState := ⟨false, List.replicate nthreads .idle⟩

/-- a schedule: which thread moves next (and whether it leaves the critical section if it is inside) -/
def SpinState.run (s : SpinState) (sched : List (Nat × Bool)) : SpinState :=
  sched.foldl (fun s e => s.step e.1 e.2) s

/-- number of threads between a successful `exchange` and their `store(false)` -/
def SpinState.holders (s : SpinState) : Nat := s.pcs.countP (fun pc => pc == .held)

/-! ## (b) locked pool -/

inductive Req
  | malloc (n : Nat)
  /-- `Realloc(address of block blk, old, new)` -/
  | realloc (blk old new : Nat)
  deriving DecidableEq, Repr

/-- a region under `LOCK_GUARD` -/
inductive Guarded
  /-- the body of `Malloc(n)` -/
  | malloc (n : Nat)
  /-- the braces block of `Realloc` (in-place attempt) for block `blk`, new size `new` -/
  | grow (blk new : Nat)
  /-- the body of the `Malloc(newSize)` that `Realloc` calls after the attempt failed -/
  | fallback (blk new : Nat)
  deriving DecidableEq, Repr

/-- what a thread does after leaving a guarded region, without the lock -/
inductive Priv
  | none
  /-- fill the new block `id` with its pattern (`memset` of the harness) -/
  | fillNew (id : Nat)
  /-- fill bytes `old …` of the grown block `id` -/
  | fillTail (id old : Nat)
  /-- the unguarded window of `Realloc` between the failed attempt and the call of `Malloc` -/
  | retry (blk new : Nat)
  /-- `memcpy(block dst, block src, align(src.req))` of `Realloc` -/
  | copy (src dst : Nat)
  deriving DecidableEq, Repr

inductive Phase
  | idle
  /-- inside `lock()`: about to `exchange` (`spinning = false`) or in the relaxed-load loop -/
  | acq (g : Guarded) (spinning : Bool)
  /-- lock held, guarded region not executed yet -/
  | crit (g : Guarded)
  /-- lock held, guarded region done, about to `store(false)` -/
  | rel (k : Priv)
  /-- lock released -/
  | priv (k : Priv)
  deriving DecidableEq, Repr

def Phase.holdsLock : Phase → Bool
  | .crit _ => true
  | .rel _ => true
  | _ => false

structure PThread where
  phase : Phase
  /-- the requests still to be issued -/
  reqs : List Req
  deriving Repr

structure CState where
  /-- `lock_` of the shared allocator object -/
  flag : Bool
  /-- the sequential model's state: pool 0 with its chunks, the handle in slot 0 (with `cp_`), chunk memory,
      ghost block table -/
  sh : State
  /-- ghost: `owner[id]` = the thread block `id` was handed to -/
  owner : List Nat
  threads : List PThread

/-- ghost: record the block just handed out at `(reg, off)`; `req` = the bytes the caller asked for -/
def ghostNew (s : State) (pid reg off req : Nat) : State :=
  { s with blocks := ⟨s.nextBlock, pid, reg, off, req, alignUp req⟩ :: s.blocks,
           nextBlock := s.nextBlock + 1 }

/-- ghost: block `bid` now has requested size `newreq` (same address) -/
def ghostResize (s : State) (bid newreq : Nat) : State :=
  { s with
    blocks := s.blocks.map (fun x => if x.id = bid then { x with req := newreq, asz := alignUp newreq } else x) }

/-- guarded region of `Malloc(n)` through the handle in slot 0: `allocCore` with a null original pointer
    is `poolMalloc` on the shared pool, the handle's `cp_` and the chunk memory; the block is recorded with
    `req` requested bytes.  Returns the new state and the block number; `none` if there is no live handle or
    `Malloc` returned NULL (neither happens in a reachable state). -/
def guardedMalloc (s : State) (n req : Nat) : Option (State × Nat) :=
  match allocCore s 0 none 0 n with
  | some (s1, pid, r) =>
    match r.ptr with
    | some (reg, off) => some (ghostNew s1 pid reg off req, s1.nextBlock)
    | none => none
  | none => none

/-- `Realloc`'s guarded block: `if (originalPtr == GetChunkBuffer + head->size - originalSize)
    { increment = newSize - originalSize; if (head->size + increment <= head->capacity) { head->size += increment; return originalPtr; } }`
    with aligned sizes `aold < anew`; `none` = fall through -/
def growInPlace (p : Pool) (r o aold anew : Nat) : Option Pool :=
  if r = p.head.reg ∧ o + aold = p.head.size ∧ p.head.size + (anew - aold) ≤ p.head.cap then
    some { p with head := { p.head with size := p.head.size + (anew - aold) } }
  else none

/-- the in-place attempt for block `b` through the handle in slot 0; `none` = attempt failed (nothing changed) -/
def guardedGrow (s : State) (b : Block) (new : Nat) : Option State :=
  match s.slots[(0 : Nat)]? with
  | some (Handle.live pid _) =>
    match s.pool? pid with
    | some p =>
      match growInPlace p b.reg b.off (alignUp b.req) (alignUp new) with
      | some p' => some (ghostResize { s with pools := s.pools.set pid (some p') } b.id new)
      | none => none
    | none => none
  | _ => none

def CState.setThread (c : CState) (t : Nat) (th : PThread) : CState :=
  { c with threads := c.threads.set t th }

/-- thread `t` (idle) issues request `r`; the unguarded prefix of `Malloc` / `Realloc` is executed here.
    A request outside the preconditions (block not owned by the caller, wrong old size, sizes `≥ 2^32`) is
    dropped. -/
def startReq (c : CState) (t : Nat) (rest : List Req) : Req → CState
  | .malloc n =>
    if n = 0 ∨ maxSize ≤ n then c.setThread t ⟨.idle, rest⟩          -- `if (!size) return NULL;`
    else c.setThread t ⟨.acq (.malloc n) false, rest⟩
  | .realloc blk old new =>
    match c.sh.findBlock blk with
    | some b =>
      if c.owner[blk]? = some t ∧ b.req = old ∧ new < maxSize ∧ new ≠ 0 then
        if alignUp new ≤ alignUp old then
          -- `if (originalSize >= newSize) return originalPtr;` – the caller may now use `new` bytes
          if old < new then
            { c with sh := ghostResize c.sh blk new,
                     threads := c.threads.set t ⟨.priv (.fillTail blk old), rest⟩ }
          else c.setThread t ⟨.idle, rest⟩
        else c.setThread t ⟨.acq (.grow blk new) false, rest⟩
      else c.setThread t ⟨.idle, rest⟩
    | none => c.setThread t ⟨.idle, rest⟩

/-- thread `t` executes the guarded region `g` (it holds the lock) -/
def guardedStep (c : CState) (t : Nat) (th : PThread) : Guarded → CState
  | .malloc n =>
    match guardedMalloc c.sh n n with
    | some (s', id) =>
      { c with sh := s', owner := c.owner ++ [t], threads := c.threads.set t { th with phase := .rel (.fillNew id) } }
    | none => c
  | .grow blk new =>
    match c.sh.findBlock blk with
    | some b =>
      match guardedGrow c.sh b new with
      | some s' => { c with sh := s', threads := c.threads.set t { th with phase := .rel (.fillTail blk b.req) } }
      | none => c.setThread t { th with phase := .rel (.retry blk new) }
    | none => c
  | .fallback blk new =>
    -- `Malloc(newSize)` with the already aligned `newSize`
    match guardedMalloc c.sh (alignUp new) new with
    | some (s', id) =>
      { c with sh := s', owner := c.owner ++ [t], threads := c.threads.set t { th with phase := .rel (.copy blk id) } }
    | none => c

/-- thread `t` executes the unguarded continuation `k` -/
def privStep (c : CState) (t : Nat) (th : PThread) : Priv → CState
  | .none => c.setThread t { th with phase := .idle }
  | .fillNew id =>
    match c.sh.findBlock id with
    | some b =>
      { c with sh := { c.sh with mem := c.sh.mem.fill b.reg b.off b.req (pat id) },
               threads := c.threads.set t { th with phase := .idle } }
    | none => c
  | .fillTail id old =>
    match c.sh.findBlock id with
    | some b =>
      { c with sh := { c.sh with mem := c.sh.mem.fill b.reg (b.off + old) (b.req - old) (fun j => pat id (old + j)) },
               threads := c.threads.set t { th with phase := .idle } }
    | none => c
  | .retry blk new => c.setThread t { th with phase := .acq (.fallback blk new) false }
  | .copy src dst =>
    match c.sh.findBlock src, c.sh.findBlock dst with
    | some bs, some bd =>
      { c with sh := { c.sh with mem := c.sh.mem.copy bd.reg bd.off bs.reg bs.off (alignUp bs.req) },
               threads := c.threads.set t { th with phase := .priv (.fillNew dst) } }
    | _, _ => c

def afterRel : Priv → Phase
  | .none => .idle
  | k => .priv k

/-- one atomic step of thread `t` -/
def pstep (c : CState) (t : Nat) : CState :=
  match c.threads[t]? with
  | none => c
  | some th =>
    match th.phase with
    | .idle =>
      match th.reqs with
      | [] => c
      | r :: rest => startReq c t rest r
    | .acq g false =>
      -- `lock_.exchange(true, acquire)`
      if c.flag then c.setThread t { th with phase := .acq g true }
      else { c with flag := true, threads := c.threads.set t { th with phase := .crit g } }
    | .acq g true =>
      -- `lock_.load(relaxed)`
      if c.flag then c else c.setThread t { th with phase := .acq g false }
    | .crit g => guardedStep c t th g
    | .rel k =>
      -- `lock_.store(false, release)` (destructor of the `lock_guard`)
      { c with flag := false, threads := c.threads.set t { th with phase := afterRel k } }
    | .priv k => privStep c t th k

def prun (c : CState) (sched : List Nat) : CState := sched.foldl pstep c

/-- a default-constructed pool (`MemoryPoolAllocator(chunkcap, &base)`) in slot 0, `progs.length` threads -/
def CState.init (kind : PolicyKind) (chunkcap : Nat) (progs : List (List Req)) : CState :=
  { flag := false, sh := (execNew State.init 0 kind chunkcap).1, owner := [],
    threads := progs.map fun rs => ⟨.idle, rs⟩ }

/-! ### the accesses of a step (footprint of the locked-pool semantics)

Plain (non-atomic) accesses only; `lock()`/`unlock()` steps touch only the atomic `lock_`.
A guarded region reads and writes the pool state (`SharedData`, chunk headers, `cp_`, the base allocator);
it never touches the bytes of a block.  `locked` records whether the thread holds the lock. -/

structure PEvent where
  tid : Nat
  acc : Access
  locked : Bool
  deriving DecidableEq, Repr

def phaseAccesses (t : Nat) : Phase → List Access
  | .idle => [wr (.threadLocal t)]
  | .acq _ _ => []
  | .crit _ => [rd (.poolState 0), wr (.poolState 0), wr (.threadLocal t)]
  | .rel _ => []
  | .priv (.fillNew id) => [wr (.block 0 id)]
  | .priv (.fillTail id _) => [wr (.block 0 id)]
  | .priv (.copy src dst) => [rd (.block 0 src), wr (.block 0 dst)]
  | .priv _ => [wr (.threadLocal t)]

def stepEvents (c : CState) (t : Nat) : List PEvent :=
  match c.threads[t]? with
  | some th => (phaseAccesses t th.phase).map fun a => ⟨t, a, th.phase.holdsLock⟩
  | none => []

def ptrace : CState → List Nat → List PEvent
  | _, [] => []
  | c, t :: sched => stepEvents c t ++ ptrace (pstep c t) sched

end Sonic.Model.Lock
