import Sonic.Model.Memcmp
import Sonic.Proofs.Memcmp

/-!
# C14 — Member lookup compares keys by exact bytes for every length and address

Model: `Sonic.Model.Memcmp` (literal transcription of `avx2/base.h` `InlinedMemcmpEq` / `InlinedMemcmp` with
their helpers, `sse/base.h` = `memcmpRef`, and `dynamicnode.h` `Less` / linear `findMemberImpl`).

Vocabulary (defined in `Sonic.Proofs.Memcmp`, repeated here for the reader):
* `Mapped mem a s := ∀ i < s, ∀ q, q / 4096 = (a + i) / 4096 → (mem q).isSome` — every page that contains a
  byte of `[a, a+s)` is fully mapped.  Nothing is assumed about any other page (they may be unmapped).
* `bytes mem a s : List (Option Nat)` — the memory cells `a … a+s-1`.
* `load mem a s = .ok xs` — the model's own `s`-byte read; under `Mapped` it succeeds and pins `xs`
  (`C14_operand_loads`).
* lists of bytes are ordered by the core lexicographic order `List.lt` on `Nat` (a proper prefix is smaller), which
  on equal lengths is `memcmp`'s order on unsigned bytes.

All theorems are for every memory, every pair of addresses (so every offset modulo 32 and modulo 4096 of both
operands), every length `s : Nat` (unbounded) and both `san = false` (production, `in_page_32` active) and
`san = true` (sanitizer builds).  The byte values need not be `< 256` for any statement except `C14_cmp_range`.
-/

namespace Sonic.Props.C14
open Sonic.Model.Memcmp Sonic.Proofs.Memcmp

/-- under the hypothesis, the operands can be read: `load` succeeds (so the `load … = .ok xs` hypotheses
    below are satisfiable exactly by the operand contents) -/
theorem C14_operand_loads (mem : Mem) (a s : Nat) (hA : Mapped mem a s) :
    ∃ xs, load mem a s = .ok xs ∧ xs.length = s ∧ bytes mem a s = xs.map some :=
  ⟨vec mem a s, load_ok s a (hA.pre (Nat.le_refl s)), length_vec mem s a,
    bytes_eq_map_vec s a (hA.pre (Nat.le_refl s))⟩

/-- `InlinedMemcmpEq`: no fault and the exact answer, for all lengths and addresses -/
theorem C14_eq (mem : Mem) (a b s : Nat) (san : Bool) (hA : Mapped mem a s) (hB : Mapped mem b s) :
    InlinedMemcmpEq san mem a b s = .ok (decide (bytes mem a s = bytes mem b s)) := by
  obtain ⟨c, hc, hiff⟩ := InlinedMemcmpEq_ok (san := san) hA hB
  rw [hc]
  congr 1
  rw [Bool.eq_iff_iff, hiff, decide_eq_true_iff,
    bytes_eq_iff s a b (hA.pre (Nat.le_refl s)) (hB.pre (Nat.le_refl s))]

/-- the same on the loaded byte lists -/
theorem C14_eq_lists (mem : Mem) (a b s : Nat) (san : Bool) (xs ys : List Nat)
    (hA : Mapped mem a s) (hB : Mapped mem b s) (hx : load mem a s = .ok xs) (hy : load mem b s = .ok ys) :
    InlinedMemcmpEq san mem a b s = .ok (decide (xs = ys)) := by
  obtain ⟨c, hc, hiff⟩ := InlinedMemcmpEq_ok (san := san) hA hB
  rw [hc, load_eq_vec hA hx, load_eq_vec hB hy]
  congr 1
  rw [Bool.eq_iff_iff, hiff, decide_eq_true_iff, vec_eq_iff]

/-- `InlinedMemcmp`: no fault; the result is `lhs[d] - rhs[d]` at the first difference `d` (0 if none), hence
    has the sign of `memcmp`, i.e. of the lexicographic comparison of the unsigned byte strings -/
theorem C14_cmp (mem : Mem) (a b s : Nat) (san : Bool) (xs ys : List Nat)
    (hA : Mapped mem a s) (hB : Mapped mem b s) (hx : load mem a s = .ok xs) (hy : load mem b s = .ok ys) :
    ∃ r : Int, InlinedMemcmp san mem a b s = .ok r ∧
      (r < 0 ↔ xs < ys) ∧ (r = 0 ↔ xs = ys) ∧ (0 < r ↔ ys < xs) ∧
      (∀ d x y : Nat, xs[d]? = some x → ys[d]? = some y → x ≠ y → (∀ j : Nat, j < d → xs[j]? = ys[j]?) →
        r = (x : Int) - (y : Int)) := by
  obtain ⟨r, hr, hspec⟩ := InlinedMemcmp_ok (san := san) hA hB
  have hxs := load_eq_vec hA hx
  have hys := load_eq_vec hB hy
  have hlen : xs.length = ys.length := by rw [hxs, hys, length_vec, length_vec]
  have hr' : r = lexDiff xs ys := by rw [hxs, hys]; exact hspec.eq_lexDiff
  refine ⟨r, hr, ?_, ?_, ?_, ?_⟩
  · have := lt_iff_lexDiff xs ys
    rw [hlen] at this
    rw [this, hr']; omega
  · rw [hr']; exact lexDiff_eq_zero_iff xs ys hlen
  · have := lt_iff_lexDiff ys xs
    rw [hlen, lexDiff_swap xs ys] at this
    rw [this, hr']; omega
  · intro d x y h1 h2 h3 h4
    rw [hr']; exact lexDiff_first xs ys d x y h1 h2 h3 h4

/-- with byte-valued memory the result is in `[-255, 255]` (it fits the C `int`) -/
theorem C14_cmp_range (mem : Mem) (a b s : Nat) (san : Bool) (hA : Mapped mem a s) (hB : Mapped mem b s)
    (h256 : ∀ p v, mem p = some v → v < 256) :
    ∃ r : Int, InlinedMemcmp san mem a b s = .ok r ∧ -255 ≤ r ∧ r ≤ 255 := by
  obtain ⟨r, hr, hspec⟩ := InlinedMemcmp_ok (san := san) hA hB
  have ha := load_ok s a (hA.pre (Nat.le_refl s))
  have hb := load_ok s b (hB.pre (Nat.le_refl s))
  have := lexDiff_range (vec mem a s) (vec mem b s)
    (fun x hx => by obtain ⟨q, hq⟩ := load_mem s a _ ha x hx; exact h256 q x hq)
    (fun y hy => by obtain ⟨q, hq⟩ := load_mem s b _ hb y hy; exact h256 q y hq)
  rw [← hspec.eq_lexDiff] at this
  exact ⟨r, hr, this⟩

/-- `q` lies on a page that contains a byte of one of the operands -/
def OperandPage (a b s q : Nat) : Prop :=
  ∃ i, i < s ∧ (q / 4096 = (a + i) / 4096 ∨ q / 4096 = (b + i) / 4096)

instance (a b s q : Nat) : Decidable (OperandPage a b s q) := by unfold OperandPage; infer_instance

/-- the memory that maps *only* the pages containing an operand byte (everything else unmapped, so
    that any load touching another page is a `Fault`) -/
def onlyOperandPages (mem : Mem) (a b s : Nat) : Mem := fun q => if OperandPage a b s q then mem q else none

/-- (1) Every load of both kernels stays on pages that contain an operand byte: on the memory where
    all other pages are unmapped the kernels still do not fault (a load — used or not — that touched
    another page would make the `Except` result a `Fault`), and return what they return on `mem`.
    (2) The results depend on the operand bytes only: any other memory that has the operand pages mapped
    and agrees with `mem` on `[a,a+s)` and `[b,b+s)` — whatever it holds in the bytes after or before the
    operands — gives the same results. -/
theorem C14_reads (mem : Mem) (a b s : Nat) (san : Bool) (hA : Mapped mem a s) (hB : Mapped mem b s) :
    ((∃ c, InlinedMemcmpEq san (onlyOperandPages mem a b s) a b s = .ok c ∧
           InlinedMemcmpEq san mem a b s = .ok c) ∧
     (∃ r, InlinedMemcmp san (onlyOperandPages mem a b s) a b s = .ok r ∧
           InlinedMemcmp san mem a b s = .ok r)) ∧
    (∀ mem' : Mem, Mapped mem' a s → Mapped mem' b s →
      (∀ i, i < s → mem' (a + i) = mem (a + i) ∧ mem' (b + i) = mem (b + i)) →
      InlinedMemcmpEq san mem' a b s = InlinedMemcmpEq san mem a b s ∧
      InlinedMemcmp san mem' a b s = InlinedMemcmp san mem a b s) := by
  constructor
  · have hA' : Mapped (onlyOperandPages mem a b s) a s := fun i hi q hq => by
      unfold onlyOperandPages; rw [if_pos ⟨i, hi, Or.inl hq⟩]; exact hA i hi q hq
    have hB' : Mapped (onlyOperandPages mem a b s) b s := fun i hi q hq => by
      unfold onlyOperandPages; rw [if_pos ⟨i, hi, Or.inr hq⟩]; exact hB i hi q hq
    have hag : ∀ i, i < s → onlyOperandPages mem a b s (a + i) = mem (a + i) ∧
        onlyOperandPages mem a b s (b + i) = mem (b + i) := fun i hi => by
      unfold onlyOperandPages
      rw [if_pos ⟨i, hi, Or.inl rfl⟩, if_pos ⟨i, hi, Or.inr rfl⟩]; exact ⟨rfl, rfl⟩
    obtain ⟨h1, h2⟩ := kernels_congr (san := san) (san' := san) hA hB hA' hB' hag
    obtain ⟨c, hc, _⟩ := InlinedMemcmpEq_ok (san := san) hA hB
    obtain ⟨r, hr, _⟩ := InlinedMemcmp_ok (san := san) hA hB
    exact ⟨⟨c, by rw [h1, hc], hc⟩, ⟨r, by rw [h2, hr], hr⟩⟩
  · intro mem' hA' hB' hag
    exact kernels_congr hA hB hA' hB' hag

/-- production (`in_page_32` active) and sanitizer (`in_page_32 = false`) builds return the same values -/
theorem C14_san_agree (mem : Mem) (a b s : Nat) (hA : Mapped mem a s) (hB : Mapped mem b s) :
    InlinedMemcmpEq true mem a b s = InlinedMemcmpEq false mem a b s ∧
    InlinedMemcmp true mem a b s = InlinedMemcmp false mem a b s :=
  kernels_congr hA hB hA hB (fun _ _ => ⟨rfl, rfl⟩)

/-- the SSE build (`std::memcmp`, byte-wise reference reading only `[a,a+s)`, `[b,b+s)`; here only the operand
    *bytes* need to be mapped) agrees with the AVX2 kernels: same value of the three-way compare in the model
    (only its sign is specified for the real `memcmp`), and `== 0` is the equality kernel -/
theorem C14_sse_agree (mem : Mem) (a b s : Nat) (san : Bool) (hA : Mapped mem a s) (hB : Mapped mem b s) :
    InlinedMemcmp san mem a b s = memcmpRef mem a b s ∧
    ∃ r, memcmpRef mem a b s = .ok r ∧ InlinedMemcmpEq san mem a b s = .ok (decide (r = 0)) := by
  obtain ⟨r, hr, hspec⟩ := InlinedMemcmp_ok (san := san) hA hB
  obtain ⟨r', hr', hspec'⟩ := memcmpRef_ok s a b (hA.pre (Nat.le_refl s)) (hB.pre (Nat.le_refl s))
  obtain ⟨c, hc, hiff⟩ := InlinedMemcmpEq_ok (san := san) hA hB
  have e : r = r' := hspec.unique hspec'
  subst e
  refine ⟨by rw [hr, hr'], r, hr', ?_⟩
  rw [hc]
  congr 1
  rw [Bool.eq_iff_iff, hiff, decide_eq_true_iff, hspec.eq_lexDiff,
    lexDiff_eq_zero_iff _ _ (by rw [length_vec, length_vec]), vec_eq_iff]

/-- `Less` on string views anywhere in memory: no fault, and it is the lexicographic order on the bytes -/
theorem C14_less_at (mem : Mem) (p1 n1 p2 n2 : Nat) (san : Bool) (s1 s2 : List Nat)
    (h1 : Mapped mem p1 n1) (h2 : Mapped mem p2 n2)
    (hs1 : load mem p1 n1 = .ok s1) (hs2 : load mem p2 n2 = .ok s2) :
    lessAt san mem p1 n1 p2 n2 = .ok (decide (s1 < s2)) := by
  rw [lessAt_ok h1 h2, load_eq_vec h1 hs1, load_eq_vec h2 hs2]

/-- `Less` is the lexicographic order on byte lists (unsigned bytes, a proper prefix first); hence a strict
    total order whose induced equivalence (`!less a b && !less b a`, what `std::multimap::find` uses) is
    equality of the byte strings — so the map-based lookup finds exactly the keys the linear lookup finds -/
theorem C14_less :
    (∀ s1 s2 : List Nat, less s1 s2 = true ↔ s1 < s2) ∧
    (∀ a : List Nat, less a a = false) ∧
    (∀ a b c : List Nat, less a b = true → less b c = true → less a c = true) ∧
    (∀ a b : List Nat, (less a b = false ∧ less b a = false) ↔ a = b) := by
  have h : ∀ s1 s2 : List Nat, less s1 s2 = true ↔ s1 < s2 := fun s1 s2 => by
    rw [less_eq, decide_eq_true_iff]
  have hf : ∀ s1 s2 : List Nat, less s1 s2 = false ↔ ¬ s1 < s2 := fun s1 s2 => by
    rw [← h, Bool.not_eq_true]
  refine ⟨h, fun a => (hf a a).mpr (List.lt_irrefl a), fun a b c hab hbc => ?_, fun a b => ?_⟩
  · exact (h a c).mpr (List.lt_trans ((h a b).mp hab) ((h b c).mp hbc))
  · rw [hf, hf]; exact list_not_lt_both a b

/-- map-style lookup (first member equivalent to the key under `Less`) = linear lookup -/
theorem C14_map_linear_agree (names : List (List Nat)) (key : List Nat) :
    names.findIdx? (fun n => !less n key && !less key n) = findMember names key := by
  rw [findMember_eq]
  congr 1
  funext n
  rw [Bool.eq_iff_iff]
  simp only [Bool.and_eq_true, Bool.not_eq_eq_eq_not, Bool.not_true, decide_eq_true_eq]
  exact C14_less.2.2.2 n key

/-- linear `findMemberImpl(const char*, size_t)`: finds the least index whose name equals the key (same length
    and same bytes); `none` (= `MemberEnd()`) iff no name equals the key -/
theorem C14_find (names : List (List Nat)) (key : List Nat) :
    (∀ i, findMember names key = some i ↔
      (names[i]? = some key ∧ ∀ j, j < i → names[j]? ≠ some key)) ∧
    (findMember names key = none ↔ ∀ n, n ∈ names → n ≠ key) := by
  rw [findMember_eq]
  constructor
  · intro i
    rw [List.findIdx?_eq_some_iff_getElem]
    constructor
    · rintro ⟨h, h1, h2⟩
      refine ⟨by rw [List.getElem?_eq_getElem h]; simpa using h1, fun j hj => ?_⟩
      have := h2 j hj
      rw [List.getElem?_eq_getElem (by omega)]
      simpa using this
    · rintro ⟨h1, h2⟩
      obtain ⟨h, e⟩ := List.getElem?_eq_some_iff.mp h1
      refine ⟨h, by simpa using e, fun j hj => ?_⟩
      have := h2 j hj
      rw [List.getElem?_eq_getElem (by omega)] at this
      simpa using this
  · rw [List.findIdx?_eq_none_iff]
    simp

/-- the same lookup on one arbitrary memory (any addresses, `san` or not): if the member names and the key
    are readable (their pages mapped) with contents `names` / `keyBytes`, `findMemberAt` does not fault and
    returns `findMember names keyBytes` (characterised by `C14_find`) -/
theorem C14_find_at (mem : Mem) (san : Bool) (members : List (Nat × Nat)) (names : List (List Nat))
    (key len : Nat) (keyBytes : List Nat)
    (hlen : members.length = names.length)
    (hM : ∀ (i : Nat) (m : Nat × Nat) (nm : List Nat), members[i]? = some m → names[i]? = some nm →
      Mapped mem m.1 m.2 ∧ load mem m.1 m.2 = .ok nm)
    (hK : Mapped mem key len) (hk : load mem key len = .ok keyBytes) :
    findMemberAt san mem members key len = .ok (findMember names keyBytes) :=
  findMemberAt_lists hK hk members names hlen hM

/-! ## Non-vacuity: operands that end on the last mapped byte of a page, next page unmapped -/

section Examples

deriving instance DecidableEq for Except

/-- 5-byte operands differing in the last byte; 45-byte operands differing at index 40 (in the overlapping
    final block only) -/
def x5 : List Nat := [1, 2, 3, 4, 5]
def y5 : List Nat := [1, 2, 3, 4, 6]
def x45 : List Nat := List.range 45
def y45 : List Nat := (List.range 45).map (fun i => if i = 40 then 200 else i)

/-- hypotheses hold although the byte right after each operand is unmapped -/
example : Mapped (place2 x5 y5 170) (addr1 x5) 5 ∧ Mapped (place2 x5 y5 170) (addr2 x5 y5) 5 ∧
    place2 x5 y5 170 (addr1 x5 + 5) = none ∧ place2 x5 y5 170 (addr2 x5 y5 + 5) = none ∧
    (addr1 x5 + 5) % 4096 = 0 ∧ (addr2 x5 y5 + 5) % 4096 = 0 :=
  ⟨place2_mapped1 x5 y5 170, place2_mapped2 x5 y5 170, place2_end1 x5 y5 170, place2_end2 x5 y5 170,
    by decide, by decide⟩

example : Mapped (place2 x45 y45 170) (addr1 x45) 45 ∧ Mapped (place2 x45 y45 170) (addr2 x45 y45) 45 ∧
    place2 x45 y45 170 (addr1 x45 + 45) = none ∧ place2 x45 y45 170 (addr2 x45 y45 + 45) = none :=
  ⟨place2_mapped1 x45 y45 170, place2_mapped2 x45 y45 170, place2_end1 x45 y45 170, place2_end2 x45 y45 170⟩

-- C14_eq / C14_cmp / C14_san_agree instances, evaluated (s = 5: `in_page_32` is false here, cross-page path)
example : InlinedMemcmpEq false (place2 x5 y5 170) (addr1 x5) (addr2 x5 y5) 5 = .ok false := by decide +kernel
example : InlinedMemcmpEq false (place2 x5 x5 170) (addr1 x5) (addr2 x5 x5) 5 = .ok true := by decide +kernel
example : InlinedMemcmp false (place2 x5 y5 170) (addr1 x5) (addr2 x5 y5) 5 = .ok (-1) := by decide +kernel
example : InlinedMemcmp true (place2 x5 y5 170) (addr1 x5) (addr2 x5 y5) 5 = .ok (-1) := by decide +kernel
-- s = 5 on the in-page fast path (operands at the start of their arenas, garbage after them differs)
example : InlinedMemcmpEq false (harnessMem 4096 4000 7 x5 x5) (arenaBaseA + 8192 - 4096 - 5)
    (arenaBaseB + 8192 - 4000 - 5) 5 = .ok true := by decide +kernel
-- s = 45
example : InlinedMemcmpEq false (place2 x45 y45 170) (addr1 x45) (addr2 x45 y45) 45 = .ok false := by
  decide +kernel
example : InlinedMemcmpEq true (place2 x45 x45 170) (addr1 x45) (addr2 x45 x45) 45 = .ok true := by
  decide +kernel
example : InlinedMemcmp false (place2 x45 y45 170) (addr1 x45) (addr2 x45 y45) 45 = .ok (40 - 200) := by
  decide +kernel
-- C14_reads: still no fault when only the operand pages are mapped
example : InlinedMemcmp false (onlyOperandPages (place2 x45 y45 170) (addr1 x45) (addr2 x45 y45) 45)
    (addr1 x45) (addr2 x45 y45) 45 = .ok (40 - 200) :=
  (C14_reads _ _ _ 45 false (place2_mapped1 x45 y45 170) (place2_mapped2 x45 y45 170)).1.2.elim
    (fun r ⟨h1, h2⟩ => by
      have e : InlinedMemcmp false (place2 x45 y45 170) (addr1 x45) (addr2 x45 y45) 45 = .ok (40 - 200) := by
        decide +kernel
      rw [h1, ← h2, e])
-- the model does fault when a load leaves the mapped pages: a 32-byte load at the operand start
example : load (place2 x5 y5 170) (addr1 x5) 32 = .error ⟨4096⟩ := by decide +kernel
-- C14_less / C14_find instances
example : less [1, 2] [1, 2, 0] = true ∧ less [1, 2, 0] [1, 2] = false ∧ less [1, 255] [2] = true := by
  decide +kernel
example : findMember [[1], [1, 2], [1, 2, 3], [1, 2]] [1, 2] = some 1 ∧
    findMember [[1], [1, 2]] [1, 3] = none ∧ findMember [[1], []] [] = some 1 := by decide +kernel

end Examples

end Sonic.Props.C14
