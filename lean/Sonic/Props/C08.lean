import Sonic.Model.Itoa
import Sonic.Spec.Decimal
import Sonic.Proofs.Itoa

/-!
# C08 — 64-bit integers print as their exact decimal representation

Property theorems (statements fixed here; helper lemmas live in `Sonic/Proofs/Itoa.lean`).
The model (`Sonic.Model.Itoa`) is a literal transcription of `U64toa` / `I64toa` and the SSE digit
splitter over the *generated* tables; the spec (`Sonic.Spec.decimal`) is the schoolbook definition.
-/

namespace Sonic.Props.C08
open Sonic.Model.Itoa Sonic.Spec Sonic.Proofs.Itoa

/-- every `uint64_t`: the bytes between the pointer passed in and the pointer returned are exactly the
    canonical decimal spelling — for any start index and any prior buffer contents -/
theorem C08_u64_general (b : Buf) (out v : Nat) (h : v < 2 ^ 64) :
    slice (u64toa b out v).buf out (u64toa b out v).out = decimal v :=
  u64toa_spec b out v h

theorem C08_u64 (v : Nat) (h : v < 2 ^ 64) : u64toaBytes v = decimal v := by
  simpa [u64toaBytes] using u64toa_spec zeroBuf 0 v h

/-- every `int64_t` (given by its two's-complement bit pattern, `INT64_MIN` included) -/
theorem C08_i64_general (b : Buf) (out bits : Nat) (h : bits < 2 ^ 64) :
    slice (i64toa b out bits).buf out (i64toa b out bits).out = decimalI64 bits :=
  i64toa_spec b out bits h

theorem C08_i64 (bits : Nat) (h : bits < 2 ^ 64) : i64toaBytes bits = decimalI64 bits := by
  simpa [i64toaBytes] using i64toa_spec zeroBuf 0 bits h

/-- nothing below the pointer passed in is written, and nothing at or beyond `out + 32`
    (the serializer reserves 33 bytes before calling) -/
theorem C08_extent_u64 (b : Buf) (out v : Nat) (h : v < 2 ^ 64) :
    (u64toa b out v).ext ≤ out + 24 ∧ (u64toa b out v).out ≤ (u64toa b out v).ext ∧
    (∀ j, j < out ∨ (u64toa b out v).ext ≤ j → (u64toa b out v).buf j = b j) :=
  u64toa_extent b out v h

theorem C08_extent_i64 (b : Buf) (out bits : Nat) (h : bits < 2 ^ 64) :
    (i64toa b out bits).ext ≤ out + 25 ∧ (i64toa b out bits).out ≤ (i64toa b out bits).ext ∧
    (∀ j, j < out ∨ (i64toa b out bits).ext ≤ j → (i64toa b out bits).buf j = b j) :=
  i64toa_extent b out bits h

/-- the spec is the canonical spelling: digits only, no leading zero, right value, ≤ 20 digits,
    and it coincides with Lean's own `Nat.toDigits 10` -/
theorem C08_decimal_canonical (n : Nat) : canonical (decimal n) = true := decimal_canonical n
theorem C08_decimal_value (n : Nat) : decValue (decimal n) = n := decValue_decimal n
theorem C08_decimal_length (n : Nat) (h : n < 2 ^ 64) : (decimal n).length ≤ 20 := decimal_length_le n h
theorem C08_decimal_toDigits (n : Nat) : decimal n = (Nat.toDigits 10 n).map Char.toNat :=
  decimal_eq_toDigits n

/-- distinct integers have distinct spellings (so the text reads back as the same integer) -/
theorem C08_decimal_injective (m n : Nat) (h : decimal m = decimal n) : m = n := by
  have := congrArg decValue h
  simpa [decValue_decimal] using this

theorem C08_i64_injective (a b : Nat) (ha : a < 2 ^ 64) (hb : b < 2 ^ 64)
    (h : decimalI64 a = decimalI64 b) : a = b := decimalI64_injective a b ha hb h

-- non-vacuity: concrete values at the range boundaries really go through the three code paths
example : u64toaBytes 99999999 = [57, 57, 57, 57, 57, 57, 57, 57] := by decide
example : u64toaBytes 18446744073709551615 = decimal 18446744073709551615 :=
  C08_u64 _ (by decide)
example : i64toaBytes (2 ^ 63) = 45 :: decimal (2 ^ 63) := by
  have := C08_i64 (2 ^ 63) (by decide); simpa [decimalI64] using this

end Sonic.Props.C08
