import Sonic.Proofs.ParseTop
import Sonic.Proofs.ParsePadTop
import Sonic.Proofs.ParseNumberOK

/-!
# C01 — Parse accepts exactly the RFC 8259 language and reports failure coherently

Model: `Sonic.Model.Parse` (`Model/Skip.lean`, `Model/Sax.lean`, `Model/Parse.lean`): literal transcription of
`GenericDocument::Parse` → `Parser::Parse` → `parseImpl` (explicit `depth` stack, `SkipSpace` with its cached 64-byte
block, literals by 4-byte compares, `parseStringInplace` = `Model.StringDec.run W`, `parseNumber` =
`Model.Number.parseNumber`, `SAXHandler` node stack, offset clamp) with every buffer / node-stack access checked.
Spec: `Sonic.Spec.Json.parse` (`accepts`), written from RFC 8259.

Standing hypotheses of the whole-parser theorems (all explicit in every statement):
* `0 < W ≤ 63` (vector width; the code has 16 and 32), input bytes and padding bytes `< 256`, `pad.length = 61`
  (the uninitialised tail of the `len + 64` buffer: **arbitrary**), `raw.length = setUpCap bs.length` (the `realloc`ed
  node stack: **arbitrary contents**);
* `bs.length + 4 < 2^32`: the `depth` counters are `uint32_t` with bit 31 as array flag; a container with `2^31`
  children (an input of ≥ 4 GiB) would wrap the counter.  Not a hidden assumption: see `incr`/`isArrFrame` in the
  model and `topOK_bump` in `Proofs/ParseMach.lean`.
* numbers: NO hypothesis is left.  Known finding F6 (the `int exp` accumulators of `parseNumber` / `SetDecimal`
  saturating at 100000) is FIXED in the code: the accumulators are 64 bits wide (cap `10^15`) and the sums with the
  digit counts are clamped; a saturated exponent cannot be compensated by fewer than `2^32` digits, and
  `bs.length + 4 < 2^32` is a standing hypothesis anyway (`Proofs/ParseNumberOK.lean`: `numberOK_all`,
  `Props/C04.lean`: `C04_parseNumber_correct`).  The former guard `ExpSmall bs` (written exponents below 100000 or
  tokens of at most 9600 bytes) is no longer needed.
  The former hypothesis `NumberCorrectOn bs` (agreement with the reference at *every* position holding `-` or a digit) has
  been discharged — and was in fact FALSE for valid documents such as `["1.5.3"]`: `AtofNative` is handed the rest of
  the buffer and `SetDecimal` swallows a second `.` (`Props/C04.lean`: `C04_native_guard_needed`), so at the `1.5` of
  `1.5.3` the model's *value* is not the reference's.  The parser proofs rest on the weaker contract `NumberOK bs`
  (`Proofs/ParseInv.lean`), which holds for every text shorter than `2^32` bytes (`Proofs/ParseNumberOK.lean`: `numberOK_all`, from
  `NumberFacts` = (a) `C04_parseNumber_correct`, (b) `accumulate_spec`, (c) `C04_parseNumber_shape` +
  `C04_native_never_faults`, (d) `NumberPad.parseNumber_sim`: the scan stops at the sentinel `x`, so the outcome is
  independent of the padding): a position where `nativeGuard` fails is *doomed* — the byte after the token is `.` or a
  digit, which can follow no JSON value — so if a value starts there the reference rejects the text and the parser
  rejects it at the next token (`InvalidChar`), whatever value it has pushed.

The proof (`Proofs/Parse*.lean`) is a simulation of the reference recursive-descent reader by the label machine
(`sim_all`: `ValueSim`/`ElemsSim`/`MembersSim` by induction on the reader's fuel), with the token-level lemmas
`skipSpace_spec`, `lit4_agree`, `parseStr_cases` (from C05), the frame abstraction of the node stack
(`StackOK`, `endContainer_ok`) and a step count that shows that the fuel of `runSteps` suffices.

The independence of the uninitialised memory and of the vector width *including error code and offset*
(`C01_pad_irrelevant`, `C01_width_irrelevant`) is proved by a relational ("two-run") argument: two runs on the same
`bs` stay in lock-step — same label, same token index, same open containers with the same nodes
(`Proofs/ParsePad*.lean`: `CfgRel`, `step_rel`, `runSteps_rel`, `parseDoc_rel`) — on top of a lock-step of the string
decoder on two buffers that agree up to the sentinel quote (`Proofs/StringPad.lean`: every block decision depends only
on the loaded bytes up to and including the first quote of the block, and the sentinel quote precedes the padding;
`run_err_agree`: a rejected literal gets the same code and the same `src`).
-/

namespace Sonic.Props.C01
open Sonic.Gen Sonic.Spec Sonic.Model.Parse Sonic.Proofs.Parse

/-! ## `skip_space` -/

/-- **The cached-block `skip_space` is the naive scan.**  `p` = first index `≥ pos` whose byte is not whitespace,
    `c` that byte (`FirstNS`).  If the cache invariant holds (the cached bits are behind `pos` or describe the current
    buffer on `[pos, nonspace_bits_end)`), and `p` is found by one of the two scalar probes or a whole 64-byte block
    starting at `p` is inside the buffer, then `skipSpace` performs no out-of-bounds read, returns `(c, p + 1)` — the
    same as "advance while whitespace" (`naiveSkip`) — and re-establishes the invariant at `p + 1`. -/
theorem C01_skipSpace_naive (B : Buf) (pos p c : Nat) (k : Cache) (h : FirstNS B pos p c)
    (hb : p < pos + 2 ∨ p + 64 ≤ B.length) (hk : CacheInv B pos k) :
    ∃ k', skipSpace B pos k = .ok (c, p + 1, k') ∧ naiveSkip B B.length pos = some (c, p + 1) ∧
      CacheInv B (p + 1) k' := by
  obtain ⟨k', h1, h2⟩ := skipSpace_spec h hb hk
  have hp : p < B.length := (List.getElem?_eq_some_iff.mp h.at_).1
  exact ⟨k', h1, naiveSkip_of_first B.length pos h (by omega), h2⟩

/-- **This is where `SONICJSON_PADDING = 64` is needed**: on a buffer of `len + 64` bytes with the sentinel `x`
    (not whitespace) at index `len`, from every `pos ≤ len` the scan stops at some `p ≤ len`, and the block loads it
    performs (`[q, q + 64)` for `q ≤ p`) stay inside the buffer. -/
theorem C01_skipSpace_padded (B : Buf) (len pos : Nat) (k : Cache) (hlen : B.length = len + 64)
    (hx : B[len]? = some 0x78) (hpos : pos ≤ len) (hk : CacheInv B pos k) :
    ∃ p c k', p ≤ len ∧ FirstNS B pos p c ∧ skipSpace B pos k = .ok (c, p + 1, k') ∧
      naiveSkip B B.length pos = some (c, p + 1) ∧ CacheInv B (p + 1) k' := by
  -- existence of the first non-space index ≤ len, by strong induction on `len - pos`
  have hex : ∀ n pos, len - pos = n → pos ≤ len → ∃ p c, p ≤ len ∧ FirstNS B pos p c := by
    intro n
    induction n with
    | zero =>
      intro pos h1 h2
      have : pos = len := by omega
      subst this
      exact ⟨pos, 0x78, Nat.le_refl _, Nat.le_refl _, fun j a b => by omega, hx, by decide⟩
    | succ n ih =>
      intro pos h1 h2
      obtain ⟨d, hd⟩ : ∃ d, B[pos]? = some d := ⟨B[pos]'(by omega), List.getElem?_eq_getElem (by omega)⟩
      by_cases hs : isSpace d = true
      · obtain ⟨p, c, hp, hf⟩ := ih (pos + 1) (by omega) (by omega)
        refine ⟨p, c, hp, by have := hf.le; omega, fun j a b => ?_, hf.at_, hf.ns⟩
        by_cases hj : j = pos
        · subst hj; exact ⟨d, hd, hs⟩
        · exact hf.sp j (by omega) b
      · exact ⟨pos, d, h2, Nat.le_refl _, fun j a b => by omega, hd, by simpa using hs⟩
  obtain ⟨p, c, hp, hf⟩ := hex _ pos rfl hpos
  obtain ⟨k', h1, h2, h3⟩ := C01_skipSpace_naive B pos p c k hf (Or.inr (by omega)) hk
  exact ⟨p, c, k', hp, hf, h1, h2, h3⟩

/-- 63 bytes after the sentinel are not enough: `"  "` (two spaces) in a buffer of `len + 63` bytes -/
example : (match skipSpace ([0x20, 0x20, 0x78] ++ List.replicate 62 0) 0 Cache.init with
    | .error .oob => true
    | _ => false) = true := by decide

/-- **The cache survives in-place string decoding**: a successful `parseStringInplace` started at `start ≥ pos`
    (model `StringDec.run W`, on the padded buffer `pre ++ rest ++ x"x ++ pad`) only writes below the new position
    `next` (`C05_prefix_preserved`), so the invariant holds for the mutated buffer at `next`. -/
theorem C01_skipSpace_cache_stable (W : Nat) (hW : 0 < W) (hW' : W ≤ 63) (pre rest pad : List Nat)
    (hrest : ∀ x ∈ rest, x < 256) (hpad : ∀ x ∈ pad, x < 256) (hlen : pad.length = 61) (n next : Nat) (b' : List Nat)
    (k : Cache) (pos : Nat) (hpos : pos ≤ pre.length)
    (hrun : Sonic.Model.StringDec.run W (Sonic.Props.C05.padded pre rest pad) pre.length = .ok (.ok n next b'))
    (hk : CacheInv (Sonic.Props.C05.padded pre rest pad) pos k) : CacheInv b' next k := by
  obtain ⟨h1, _, h3, h4, _⟩ := Sonic.Props.C05.C05_prefix_preserved W hW hW' pre rest pad hrest hpad hlen n next b' hrun
  exact (hk.mono (by omega)).congr h1 h3

/-! ## literals -/

/-- **`parseTrue` / `parseNull` / `parseFalse` accept exactly the literal bytes**: the 4-byte compare at `pos_ - 1`
    (`true`, `null`) resp. `pos_` (`alse`) succeeds iff the four bytes are the literal's; then the handler is called and
    `pos_` advances by 3 resp. 4; otherwise `err_ = kParseErrorInvalidChar` and the function returns false. -/
theorem C01_literal (s : PState) (h : s.pos + 4 ≤ s.buf.length) (hp : 1 ≤ s.pos) :
    (parseTrue s = if s.buf[s.pos - 1]? = some 0x74 ∧ s.buf[s.pos - 1 + 1]? = some 0x72 ∧
          s.buf[s.pos - 1 + 2]? = some 0x75 ∧ s.buf[s.pos - 1 + 3]? = some 0x65 then
        match s.sax.scalar (.bool true) with
        | .error e => .error e
        | .ok (sax, r) => .ok ({ s with pos := s.pos + 3, sax := sax }, r)
      else .ok ({ s with err := kParseErrorInvalidChar }, false)) ∧
    (parseNull s = if s.buf[s.pos - 1]? = some 0x6E ∧ s.buf[s.pos - 1 + 1]? = some 0x75 ∧
          s.buf[s.pos - 1 + 2]? = some 0x6C ∧ s.buf[s.pos - 1 + 3]? = some 0x6C then
        match s.sax.scalar .null with
        | .error e => .error e
        | .ok (sax, r) => .ok ({ s with pos := s.pos + 3, sax := sax }, r)
      else .ok ({ s with err := kParseErrorInvalidChar }, false)) ∧
    (parseFalse s = if s.buf[s.pos]? = some 0x61 ∧ s.buf[s.pos + 1]? = some 0x6C ∧
          s.buf[s.pos + 2]? = some 0x73 ∧ s.buf[s.pos + 3]? = some 0x65 then
        match s.sax.scalar (.bool false) with
        | .error e => .error e
        | .ok (sax, r) => .ok ({ s with pos := s.pos + 4, sax := sax }, r)
      else .ok ({ s with err := kParseErrorInvalidChar }, false)) := by
  refine ⟨?_, ?_, ?_⟩
  · unfold parseTrue
    rw [parseLit_eq (by omega)]
    simp only [take4_eq_iff]
    rfl
  · unfold parseNull
    rw [parseLit_eq (by omega)]
    simp only [take4_eq_iff]
    rfl
  · unfold parseFalse
    rw [parseLit_eq (by omega)]
    simp only [take4_eq_iff]
    rfl

/-- on the padded buffer the 4-byte compare agrees with the reference `matchLit` on the bare input: the compare may
    read up to 3 bytes beyond the input, but the first of them is the sentinel `x`, which no literal contains -/
theorem C01_literal_spec (bs pad : List Nat) (i : Nat) (hi : i ≤ bs.length) (a b c d : Nat)
    (ha : a ≠ 0x78) (hb : b ≠ 0x78) (hc : c ≠ 0x78) (hd : d ≠ 0x78) :
    ((paddedBuf bs pad).drop i).take 4 == [a, b, c, d] ↔ Json.matchLit bs i [a, b, c, d] = true :=
  lit4_agree hi (fun _ _ => rfl) ha hb hc hd

/-! ## the whole parser -/

/-- **Accept iff RFC 8259**: for every width `0 < W ≤ 63`, every content `pad` of the 61
    uninitialised bytes, every content `raw` of the freshly allocated node stack, every previous document `d` and
    every input `bs`: the checked model does not fault, and its error code is `kErrorNone` iff the reference reader
    accepts `bs`. -/
theorem C01_accept_iff (W : Nat) (hW : 0 < W) (hW' : W ≤ 63) (pad bs : List Nat) (raw : List (Option Node)) (d : Doc)
    (hbs : ∀ x ∈ bs, x < 256) (hpad : ∀ x ∈ pad, x < 256) (hlen : pad.length = 61)
    (hraw : raw.length = setUpCap bs.length) (hL : bs.length + 4 < 2 ^ 32) :
    ∃ r, parseDoc W pad raw d bs = .ok r ∧ (r.err = 0 ↔ Json.accepts bs = true) := by
  have h := parseDoc_spec ⟨hW, hW', hbs, hpad, hlen, hL⟩ (numberOK_all (by omega)) hraw d
  unfold Json.accepts
  cases hj : Json.parse bs with
  | ok v =>
    rw [hj] at h
    obtain ⟨r, hr, he, _⟩ := h
    exact ⟨r, hr, by simp [he]⟩
  | error e =>
    rw [hj] at h
    obtain ⟨r, hr, he, _⟩ := h
    exact ⟨r, hr, by simp only [Bool.false_eq_true, iff_false]; omega⟩

/-- the same for a fresh document (`Model.Parse.parse`) -/
theorem C01_accept_iff_fresh (W : Nat) (hW : 0 < W) (hW' : W ≤ 63) (pad bs : List Nat)
    (hbs : ∀ x ∈ bs, x < 256) (hpad : ∀ x ∈ pad, x < 256) (hlen : pad.length = 61)
    (hL : bs.length + 4 < 2 ^ 32) :
    ∃ r, parse W pad bs = .ok r ∧ (r.err = 0 ↔ Json.accepts bs = true) :=
  C01_accept_iff W hW hW' pad bs _ Doc.fresh hbs hpad hlen (by simp) hL

/-- **success ⇒ the reported offset is the input length** -/
theorem C01_ok_offset (W : Nat) (hW : 0 < W) (hW' : W ≤ 63) (pad bs : List Nat) (raw : List (Option Node)) (d : Doc)
    (hbs : ∀ x ∈ bs, x < 256) (hpad : ∀ x ∈ pad, x < 256) (hlen : pad.length = 61)
    (hraw : raw.length = setUpCap bs.length) (hL : bs.length + 4 < 2 ^ 32)
    (r : Result) (hr : parseDoc W pad raw d bs = .ok r) (he : r.err = 0) : r.off = bs.length := by
  have h := parseDoc_spec ⟨hW, hW', hbs, hpad, hlen, hL⟩ (numberOK_all (by omega)) hraw d
  cases hj : Json.parse bs with
  | ok v =>
    rw [hj] at h
    obtain ⟨r', hr', _, ho, _⟩ := h
    rw [hr] at hr'; injection hr' with hr'; subst hr'
    exact ho
  | error e =>
    rw [hj] at h
    obtain ⟨r', hr', he', _⟩ := h
    rw [hr] at hr'; injection hr' with hr'; subst hr'
    omega

/-- **failure ⇒ the document is null, the code is a parse error code, the offset is within `[0, len]`**.
    (The codes that occur are `InvalidChar` 2, `Infinity` 3, `UnEscaped` 4, `EscapedFormat` 5, `EscapedUnicode` 6 — a
    subset of the parse codes `{1..7, 15}` of the property.) -/
theorem C01_fail_shape (W : Nat) (hW : 0 < W) (hW' : W ≤ 63) (pad bs : List Nat) (raw : List (Option Node)) (d : Doc)
    (hbs : ∀ x ∈ bs, x < 256) (hpad : ∀ x ∈ pad, x < 256) (hlen : pad.length = 61)
    (hraw : raw.length = setUpCap bs.length) (hL : bs.length + 4 < 2 ^ 32)
    (r : Result) (hr : parseDoc W pad raw d bs = .ok r) (he : r.err ≠ 0) :
    r.doc.root = .null ∧ r.doc.value = some .null ∧
      (r.err = kParseErrorInvalidChar ∨ r.err = kParseErrorInfinity ∨ r.err = kParseErrorUnEscaped ∨
        r.err = kParseErrorEscapedFormat ∨ r.err = kParseErrorEscapedUnicode) ∧ r.off ≤ bs.length := by
  have h := parseDoc_spec ⟨hW, hW', hbs, hpad, hlen, hL⟩ (numberOK_all (by omega)) hraw d
  cases hj : Json.parse bs with
  | ok v =>
    rw [hj] at h
    obtain ⟨r', hr', he', _⟩ := h
    rw [hr] at hr'; injection hr' with hr'; subst hr'
    exact absurd he' he
  | error e =>
    rw [hj] at h
    obtain ⟨r', hr', he', ho, hn, hv, _⟩ := h
    rw [hr] at hr'; injection hr' with hr'; subst hr'
    exact ⟨hn, hv, he', ho⟩

/-- what a caller can observe of a parse that is not an error code/offset detail: accepted?, the value, and on
    success the offset -/
def observe (r : Result) : Bool × Option JVal × Option Nat :=
  (r.err == 0, r.doc.value, if r.err = 0 then some r.off else none)

/-- **The outcome does not depend on the uninitialised memory** (the 61 padding bytes, the raw node stack):
    accept/reject, the resulting value, the offset on success.
    PARTIAL (kept because it is referenced elsewhere): on failure nothing is said here about the error *code* and
    *offset* beyond `C01_fail_shape`.  The FULL statement — same code, same offset, same value for all paddings, raw
    node stacks and previous documents — is `C01_pad_irrelevant` below (proved by a two-run lock-step of the parser
    machine, `Proofs/ParsePad*.lean`, on top of a two-run lock-step of the string decoder, `Proofs/StringPad.lean`). -/
theorem C01_pad_irrelevant_partial (W : Nat) (hW : 0 < W) (hW' : W ≤ 63) (pad₁ pad₂ bs : List Nat)
    (raw₁ raw₂ : List (Option Node)) (d₁ d₂ : Doc)
    (hbs : ∀ x ∈ bs, x < 256) (hpad₁ : ∀ x ∈ pad₁, x < 256) (hlen₁ : pad₁.length = 61)
    (hpad₂ : ∀ x ∈ pad₂, x < 256) (hlen₂ : pad₂.length = 61)
    (hraw₁ : raw₁.length = setUpCap bs.length) (hraw₂ : raw₂.length = setUpCap bs.length)
    (hL : bs.length + 4 < 2 ^ 32) :
    ∃ r₁ r₂, parseDoc W pad₁ raw₁ d₁ bs = .ok r₁ ∧ parseDoc W pad₂ raw₂ d₂ bs = .ok r₂ ∧ observe r₁ = observe r₂ := by
  have h1 := parseDoc_spec ⟨hW, hW', hbs, hpad₁, hlen₁, hL⟩ (numberOK_all (by omega)) hraw₁ d₁
  have h2 := parseDoc_spec ⟨hW, hW', hbs, hpad₂, hlen₂, hL⟩ (numberOK_all (by omega)) hraw₂ d₂
  cases hj : Json.parse bs with
  | ok v =>
    rw [hj] at h1 h2
    obtain ⟨r1, hr1, e1, o1, v1, _⟩ := h1
    obtain ⟨r2, hr2, e2, o2, v2, _⟩ := h2
    exact ⟨r1, r2, hr1, hr2, by simp [observe, e1, e2, o1, o2, v1, v2]⟩
  | error e =>
    rw [hj] at h1 h2
    obtain ⟨r1, hr1, e1, _, _, v1, _⟩ := h1
    obtain ⟨r2, hr2, e2, _, _, v2, _⟩ := h2
    have n1 : r1.err ≠ 0 := by omega
    have n2 : r2.err ≠ 0 := by omega
    have b1 : (r1.err == 0) = false := by rw [beq_eq_false_iff_ne]; exact n1
    have b2 : (r2.err == 0) = false := by rw [beq_eq_false_iff_ne]; exact n2
    exact ⟨r1, r2, hr1, hr2, by simp [observe, n1, n2, b1, b2, v1, v2]⟩

/-- **Accept/reject and the tree do not depend on the vector width** (`16` for SSE, `32` for AVX2, any `0 < W ≤ 63`).
    PARTIAL (kept because it is referenced elsewhere): nothing is claimed here about code/offset on failure beyond
    `C01_fail_shape`.  The FULL statement is `C01_width_irrelevant` below: code and offset are the same for all widths
    unless both runs fail inside the same malformed string literal (and then they really can differ:
    `C01_width_differs`). -/
theorem C01_width_irrelevant_partial (W₁ W₂ : Nat) (h1 : 0 < W₁) (h1' : W₁ ≤ 63) (h2 : 0 < W₂) (h2' : W₂ ≤ 63)
    (pad bs : List Nat) (raw : List (Option Node)) (d : Doc)
    (hbs : ∀ x ∈ bs, x < 256) (hpad : ∀ x ∈ pad, x < 256) (hlen : pad.length = 61)
    (hraw : raw.length = setUpCap bs.length) (hL : bs.length + 4 < 2 ^ 32) :
    ∃ r₁ r₂, parseDoc W₁ pad raw d bs = .ok r₁ ∧ parseDoc W₂ pad raw d bs = .ok r₂ ∧ observe r₁ = observe r₂ := by
  have g1 := parseDoc_spec ⟨h1, h1', hbs, hpad, hlen, hL⟩ (numberOK_all (by omega)) hraw d
  have g2 := parseDoc_spec ⟨h2, h2', hbs, hpad, hlen, hL⟩ (numberOK_all (by omega)) hraw d
  cases hj : Json.parse bs with
  | ok v =>
    rw [hj] at g1 g2
    obtain ⟨r1, hr1, e1, o1, v1, _⟩ := g1
    obtain ⟨r2, hr2, e2, o2, v2, _⟩ := g2
    exact ⟨r1, r2, hr1, hr2, by simp [observe, e1, e2, o1, o2, v1, v2]⟩
  | error e =>
    rw [hj] at g1 g2
    obtain ⟨r1, hr1, e1, _, _, v1, _⟩ := g1
    obtain ⟨r2, hr2, e2, _, _, v2, _⟩ := g2
    have n1 : r1.err ≠ 0 := by omega
    have n2 : r2.err ≠ 0 := by omega
    have b1 : (r1.err == 0) = false := by rw [beq_eq_false_iff_ne]; exact n1
    have b2 : (r2.err == 0) = false := by rw [beq_eq_false_iff_ne]; exact n2
    exact ⟨r1, r2, hr1, hr2, by simp [observe, n1, n2, b1, b2, v1, v2]⟩

/-! ## non-vacuity -/

/-- `{"a":[1,"x\n",{}]}` -/
def exDoc : List Nat :=
  [0x7B, 0x22, 0x61, 0x22, 0x3A, 0x5B, 0x31, 0x2C, 0x22, 0x78, 0x5C, 0x6E, 0x22, 0x2C, 0x7B, 0x7D, 0x5D, 0x7D]

/-- `{"a":["x\n",{},true]}` (no number token) -/
def exNoNum : List Nat :=
  [0x7B, 0x22, 0x61, 0x22, 0x3A, 0x5B, 0x22, 0x78, 0x5C, 0x6E, 0x22, 0x2C, 0x7B, 0x7D, 0x2C, 0x74, 0x72, 0x75, 0x65,
   0x5D, 0x7D]

example : errOff (parse 32 runPad exDoc) = some (0, 18) ∧ errOff (parse 16 runPad exDoc) = some (0, 18) ∧
    treeOf (parse 32 runPad exDoc) = some "{k61:[u1,s780a,{}]}" ∧ Json.accepts exDoc = true := by decide +kernel

/-- `[[[1,` (truncated), the empty input, `x"x` (a sentinel look-alike), `"abc` (closed only by the sentinel quote),
    `[1 2]`, `nul` -/
example : errOff (parse 32 runPad [0x5B, 0x5B, 0x5B, 0x31, 0x2C]) = some (2, 5) ∧
    errOff (parse 32 runPad []) = some (2, 0) ∧
    errOff (parse 32 runPad [0x78, 0x22, 0x78]) = some (2, 1) ∧
    errOff (parse 32 runPad [0x22, 0x61, 0x62, 0x63]) = some (2, 4) ∧
    errOff (parse 32 runPad [0x5B, 0x31, 0x20, 0x32, 0x5D]) = some (2, 4) ∧
    errOff (parse 32 runPad [0x6E, 0x75, 0x6C]) = some (2, 1) ∧
    Json.accepts [0x5B, 0x5B, 0x5B, 0x31, 0x2C] = false ∧ Json.accepts [] = false ∧
    Json.accepts [0x22, 0x61, 0x62, 0x63] = false := by decide +kernel

/-- a document preceded by 70 spaces (two block loads of `found_space`), and followed by 3 -/
example : errOff (parse 32 runPad (List.replicate 70 0x20 ++ exDoc ++ [0x20, 0x0A, 0x09])) = some (0, 91) ∧
    treeOf (parse 16 runPad (List.replicate 70 0x20 ++ exDoc ++ [0x20, 0x0A, 0x09])) = some "{k61:[u1,s780a,{}]}" ∧
    Json.accepts (List.replicate 70 0x20 ++ exDoc ++ [0x20, 0x0A, 0x09]) = true := by decide +kernel

/-- the hypotheses of `C01_accept_iff` are satisfiable: `exNoNum`, `W = 32`,
    padding `0xAA…`, a raw stack of garbage -/
example : ∃ r, parseDoc 32 runPad (List.replicate 16 (some (.hole 7))) Doc.fresh exNoNum = .ok r ∧
    (r.err = 0 ↔ Json.accepts exNoNum = true) :=
  C01_accept_iff 32 (by decide) (by decide) runPad exNoNum _ Doc.fresh (by decide) (by decide) (by decide)
    (by decide) (by decide)

/-- … and on a document WITH number tokens (`exDoc` = `{"a":[1,"x\n",{}]}`): nothing about numbers is assumed any more -/
example : ∃ r, parse 16 runPad exDoc = .ok r ∧ (r.err = 0 ↔ Json.accepts exDoc = true) :=
  C01_accept_iff_fresh 16 (by decide) (by decide) runPad exDoc (by decide) (by decide) (by decide) (by decide)

/-- … and on `[1e100000]` (rejected with `kParseErrorInfinity` by the model and by the reference): no hypothesis about
    exponents is needed -/
example : ∃ r, parse 16 runPad [0x5B, 0x31, 0x65, 0x31, 0x30, 0x30, 0x30, 0x30, 0x30, 0x5D] = .ok r ∧
    (r.err = 0 ↔ Json.accepts [0x5B, 0x31, 0x65, 0x31, 0x30, 0x30, 0x30, 0x30, 0x30, 0x5D] = true) :=
  C01_accept_iff_fresh 16 (by decide) (by decide) runPad _ (by decide) (by decide) (by decide) (by decide)
example : errOff (parse 16 runPad [0x5B, 0x31, 0x65, 0x31, 0x30, 0x30, 0x30, 0x30, 0x30, 0x5D]) = some (3, 9) ∧
    Json.accepts [0x5B, 0x31, 0x65, 0x31, 0x30, 0x30, 0x30, 0x30, 0x30, 0x5D] = false := by decide +kernel

/-- **doomed positions** (`C04_native_guard_needed`): `["1.5.3"]` is a valid document (the `1.5` sits inside a string:
    this is where the old per-input hypothesis `NumberCorrectOn` was false); `[1.5.3]`, `1.5.` and `[01]` are invalid —
    the number token is followed by `.` resp. a digit — and are rejected by the reference and by the model (both widths)
    with `InvalidChar` right after the token, whatever value `parseNumber` has handed to the handler; all of them
    satisfy `ExpSmall` -/
example :
    errOff (parse 32 runPad [0x5B, 0x22, 0x31, 0x2E, 0x35, 0x2E, 0x33, 0x22, 0x5D]) = some (0, 9) ∧
    treeOf (parse 16 runPad [0x5B, 0x22, 0x31, 0x2E, 0x35, 0x2E, 0x33, 0x22, 0x5D]) = some "[s312e352e33]" ∧
    Json.accepts [0x5B, 0x22, 0x31, 0x2E, 0x35, 0x2E, 0x33, 0x22, 0x5D] = true ∧
    errOff (parse 32 runPad [0x5B, 0x31, 0x2E, 0x35, 0x2E, 0x33, 0x5D]) = some (kParseErrorInvalidChar, 5) ∧
    errOff (parse 16 runPad [0x5B, 0x31, 0x2E, 0x35, 0x2E, 0x33, 0x5D]) = some (kParseErrorInvalidChar, 5) ∧
    Json.accepts [0x5B, 0x31, 0x2E, 0x35, 0x2E, 0x33, 0x5D] = false ∧
    errOff (parse 32 runPad [0x31, 0x2E, 0x35, 0x2E]) = some (kParseErrorInvalidChar, 3) ∧
    Json.accepts [0x31, 0x2E, 0x35, 0x2E] = false ∧
    errOff (parse 32 runPad [0x5B, 0x30, 0x31, 0x5D]) = some (kParseErrorInvalidChar, 3) ∧
    Json.accepts [0x5B, 0x30, 0x31, 0x5D] = false ∧
    expSmallCheck [0x5B, 0x22, 0x31, 0x2E, 0x35, 0x2E, 0x33, 0x22, 0x5D] = true ∧
    expSmallCheck [0x5B, 0x31, 0x2E, 0x35, 0x2E, 0x33, 0x5D] = true ∧ expSmallCheck [0x31, 0x2E, 0x35, 0x2E] = true := by
  decide +kernel

/-- the hypotheses of `C01_accept_iff` on the valid document `["1.5.3"]` and on the doomed text `[1.5.3]` -/
example :
    (∃ r, parse 32 runPad [0x5B, 0x22, 0x31, 0x2E, 0x35, 0x2E, 0x33, 0x22, 0x5D] = .ok r ∧
      (r.err = 0 ↔ Json.accepts [0x5B, 0x22, 0x31, 0x2E, 0x35, 0x2E, 0x33, 0x22, 0x5D] = true)) ∧
    (∃ r, parse 32 runPad [0x5B, 0x31, 0x2E, 0x35, 0x2E, 0x33, 0x5D] = .ok r ∧
      (r.err = 0 ↔ Json.accepts [0x5B, 0x31, 0x2E, 0x35, 0x2E, 0x33, 0x5D] = true)) :=
  ⟨C01_accept_iff_fresh 32 (by decide) (by decide) runPad _ (by decide) (by decide) (by decide) (by decide),
   C01_accept_iff_fresh 32 (by decide) (by decide) runPad _ (by decide) (by decide) (by decide) (by decide)⟩

/-! ## full statements: the padding, the raw node stack, the previous document and the vector width -/

/-- **The result does not depend on the uninitialised memory** (FULL statement): for the same input bytes and the
    same vector width, any two contents of the 61 padding bytes, any two contents of the freshly `realloc`ed node
    stack and any two previous documents give the same error code, the same error offset, the same root node (the same
    tree with the same string offsets and lengths; `null` on failure) and the same value — on success *and on
    failure*.  (`doc.str` itself contains the padding bytes and `doc.mallocs/frees` continue the ledger of the previous
    document, so these fields of the record are not — and cannot be — claimed equal.) -/
theorem C01_pad_irrelevant (W : Nat) (hW : 0 < W) (hW' : W ≤ 63) (pad₁ pad₂ bs : List Nat)
    (raw₁ raw₂ : List (Option Node)) (d₁ d₂ : Doc)
    (hbs : ∀ x ∈ bs, x < 256) (hpad₁ : ∀ x ∈ pad₁, x < 256) (hlen₁ : pad₁.length = 61)
    (hpad₂ : ∀ x ∈ pad₂, x < 256) (hlen₂ : pad₂.length = 61)
    (hraw₁ : raw₁.length = setUpCap bs.length) (hraw₂ : raw₂.length = setUpCap bs.length)
    (hL : bs.length + 4 < 2 ^ 32) :
    ∃ r₁ r₂, parseDoc W pad₁ raw₁ d₁ bs = .ok r₁ ∧ parseDoc W pad₂ raw₂ d₂ bs = .ok r₂ ∧
      r₁.err = r₂.err ∧ r₁.off = r₂.off ∧ r₁.doc.root = r₂.doc.root ∧ r₁.doc.value = r₂.doc.value ∧
      observe r₁ = observe r₂ := by
  have c1 : Ctx W bs pad₁ := ⟨hW, hW', hbs, hpad₁, hlen₁, hL⟩
  have c2 : Ctx W bs pad₂ := ⟨hW, hW', hbs, hpad₂, hlen₂, hL⟩
  obtain ⟨r1, r2, hr1, hr2, hobs⟩ := C01_pad_irrelevant_partial W hW hW' pad₁ pad₂ bs raw₁ raw₂ d₁ d₂ hbs hpad₁
    hlen₁ hpad₂ hlen₂ hraw₁ hraw₂ hL
  have hv : r1.doc.value = r2.doc.value := by
    have := congrArg (fun t => t.2.1) hobs
    simpa [observe] using this
  rcases parseDoc_rel c1 c2 (numberOK_all (by omega)) hraw₁ hraw₂ hr1 hr2 with ⟨he, ho⟩ | ⟨hne, _⟩
  · refine ⟨r1, r2, hr1, hr2, he, ho, ?_, hv, hobs⟩
    by_cases h0 : r1.err = 0
    · exact parseDoc_root_rel c1 c2 (numberOK_all (by omega)) hraw₁ hraw₂ hr1 hr2 h0
    · have n1 := (C01_fail_shape W hW hW' pad₁ bs raw₁ d₁ hbs hpad₁ hlen₁ hraw₁ hL r1 hr1 h0).1
      have n2 := (C01_fail_shape W hW hW' pad₂ bs raw₂ d₂ hbs hpad₂ hlen₂ hraw₂ hL r2 hr2
        (by rw [← he]; exact h0)).1
      rw [n1, n2]
  · exact absurd rfl hne

/-- the same for two fresh documents -/
theorem C01_pad_irrelevant_fresh (W : Nat) (hW : 0 < W) (hW' : W ≤ 63) (pad₁ pad₂ bs : List Nat)
    (hbs : ∀ x ∈ bs, x < 256) (hpad₁ : ∀ x ∈ pad₁, x < 256) (hlen₁ : pad₁.length = 61)
    (hpad₂ : ∀ x ∈ pad₂, x < 256) (hlen₂ : pad₂.length = 61)
    (hL : bs.length + 4 < 2 ^ 32) :
    ∃ r₁ r₂, parse W pad₁ bs = .ok r₁ ∧ parse W pad₂ bs = .ok r₂ ∧
      r₁.err = r₂.err ∧ r₁.off = r₂.off ∧ r₁.doc.root = r₂.doc.root ∧ r₁.doc.value = r₂.doc.value :=
  let ⟨r1, r2, h1, h2, a, b, r, c, _⟩ := C01_pad_irrelevant W hW hW' pad₁ pad₂ bs _ _ Doc.fresh Doc.fresh hbs hpad₁
    hlen₁ hpad₂ hlen₂ (by simp) (by simp) hL
  ⟨r1, r2, h1, h2, a, b, r, c⟩

/-- `q` is the index of the opening quote of a string literal of `bs` that RFC 8259 rejects even if a closing quote
    is supplied right after the end of the input (as the sentinel `x"x` does): the literal contains a control byte
    `≤ 0x1F` or a malformed escape before any closing quote.  (`Spec.decodeLit` is the byte-at-a-time reference
    decoder; it knows nothing about vector blocks.) -/
def MalformedLiteralAt (bs : List Nat) (q : Nat) : Prop :=
  bs[q]? = some 0x22 ∧ Sonic.Spec.decodeLit (bs ++ [0x78, 0x22, 0x78]) (q + 1) = none

instance (bs : List Nat) (q : Nat) : Decidable (MalformedLiteralAt bs q) := by
  unfold MalformedLiteralAt; infer_instance

/-- an error code that a failure inside a string literal can produce: `UnEscaped` 4, `EscapedFormat` 5,
    `EscapedUnicode` 6 from the decoder; `InvalidChar` 2 when the literal is the root value and the decoder's `src`
    has run beyond the input (`parsePrimitives`), or when the handler declines the node (node stack exhausted) -/
def StringFailureCode (e : Nat) : Prop :=
  e = kParseErrorInvalidChar ∨ e = kParseErrorUnEscaped ∨ e = kParseErrorEscapedFormat ∨
    e = kParseErrorEscapedUnicode

/-- **The vector width is irrelevant, except for the error detail inside a malformed string literal** (FULL
    statement).  For two widths `0 < W₁, W₂ ≤ 63` (the code has 16 and 32), arbitrary paddings, raw node stacks and
    previous documents: accept/reject, the value and the success offset are the same (`observe`), so is the root node,
    and on failure the error code and the error offset are the same as well, **unless** both runs fail while decoding
    one and the same malformed string literal (opening quote at `q`): then both codes are string-failure codes and
    both offsets lie in `(q, len]`, but code and offset may differ — the SIMD decoder reports whichever defect its
    block structure meets first, and for `UnEscaped` the offset is the *block start* (`C01_width_differs` shows that
    this really happens: code 5 vs 4, code 2 vs 4, and code 2 vs 2 at different offsets). -/
theorem C01_width_irrelevant (W₁ W₂ : Nat) (h1 : 0 < W₁) (h1' : W₁ ≤ 63) (h2 : 0 < W₂) (h2' : W₂ ≤ 63)
    (pad₁ pad₂ bs : List Nat) (raw₁ raw₂ : List (Option Node)) (d₁ d₂ : Doc)
    (hbs : ∀ x ∈ bs, x < 256) (hpad₁ : ∀ x ∈ pad₁, x < 256) (hlen₁ : pad₁.length = 61)
    (hpad₂ : ∀ x ∈ pad₂, x < 256) (hlen₂ : pad₂.length = 61)
    (hraw₁ : raw₁.length = setUpCap bs.length) (hraw₂ : raw₂.length = setUpCap bs.length)
    (hL : bs.length + 4 < 2 ^ 32) :
    ∃ r₁ r₂, parseDoc W₁ pad₁ raw₁ d₁ bs = .ok r₁ ∧ parseDoc W₂ pad₂ raw₂ d₂ bs = .ok r₂ ∧
      observe r₁ = observe r₂ ∧ r₁.doc.root = r₂.doc.root ∧
      ((r₁.err = r₂.err ∧ r₁.off = r₂.off) ∨
       (W₁ ≠ W₂ ∧ ∃ q, MalformedLiteralAt bs q ∧ q < r₁.off ∧ r₁.off ≤ bs.length ∧ q < r₂.off ∧
          r₂.off ≤ bs.length ∧ StringFailureCode r₁.err ∧ StringFailureCode r₂.err)) := by
  have c1 : Ctx W₁ bs pad₁ := ⟨h1, h1', hbs, hpad₁, hlen₁, hL⟩
  have c2 : Ctx W₂ bs pad₂ := ⟨h2, h2', hbs, hpad₂, hlen₂, hL⟩
  have g1 := parseDoc_spec c1 (numberOK_all (by omega)) hraw₁ d₁
  have g2 := parseDoc_spec c2 (numberOK_all (by omega)) hraw₂ d₂
  have hobs : ∃ r₁ r₂, parseDoc W₁ pad₁ raw₁ d₁ bs = .ok r₁ ∧ parseDoc W₂ pad₂ raw₂ d₂ bs = .ok r₂ ∧
      observe r₁ = observe r₂ := by
    cases hj : Json.parse bs with
    | ok v =>
      rw [hj] at g1 g2
      obtain ⟨r1, hr1, e1, o1, v1, _⟩ := g1
      obtain ⟨r2, hr2, e2, o2, v2, _⟩ := g2
      exact ⟨r1, r2, hr1, hr2, by simp [observe, e1, e2, o1, o2, v1, v2]⟩
    | error e =>
      rw [hj] at g1 g2
      obtain ⟨r1, hr1, e1, _, _, v1, _⟩ := g1
      obtain ⟨r2, hr2, e2, _, _, v2, _⟩ := g2
      have n1 : r1.err ≠ 0 := by omega
      have n2 : r2.err ≠ 0 := by omega
      have b1 : (r1.err == 0) = false := by rw [beq_eq_false_iff_ne]; exact n1
      have b2 : (r2.err == 0) = false := by rw [beq_eq_false_iff_ne]; exact n2
      exact ⟨r1, r2, hr1, hr2, by simp [observe, n1, n2, b1, b2, v1, v2]⟩
  obtain ⟨r1, r2, hr1, hr2, ho⟩ := hobs
  have hz : r1.err = 0 ↔ r2.err = 0 := by
    have := congrArg (fun t => t.1) ho
    simp only [observe] at this
    constructor
    · intro h; rw [h] at this; simpa using this.symm
    · intro h; rw [h] at this; simpa using this
  have hroot : r1.doc.root = r2.doc.root := by
    by_cases h0 : r1.err = 0
    · exact parseDoc_root_rel c1 c2 (numberOK_all (by omega)) hraw₁ hraw₂ hr1 hr2 h0
    · have n1 := (C01_fail_shape W₁ h1 h1' pad₁ bs raw₁ d₁ hbs hpad₁ hlen₁ hraw₁ hL r1 hr1 h0).1
      have n2 := (C01_fail_shape W₂ h2 h2' pad₂ bs raw₂ d₂ hbs hpad₂ hlen₂ hraw₂ hL r2 hr2
        (fun h => h0 (hz.mpr h))).1
      rw [n1, n2]
  refine ⟨r1, r2, hr1, hr2, ho, hroot, ?_⟩
  rcases parseDoc_rel c1 c2 (numberOK_all (by omega)) hraw₁ hraw₂ hr1 hr2 with h | ⟨hne, q, hbad, hq1, hq2, he1, he2⟩
  · exact Or.inl h
  · have z1 : r1.err ≠ 0 := by omega
    have z2 : r2.err ≠ 0 := by omega
    have o1 := (C01_fail_shape W₁ h1 h1' pad₁ bs raw₁ d₁ hbs hpad₁ hlen₁ hraw₁ hL r1 hr1 z1).2.2.2
    have o2 := (C01_fail_shape W₂ h2 h2' pad₂ bs raw₂ d₂ hbs hpad₂ hlen₂ hraw₂ hL r2 hr2 z2).2.2.2
    exact Or.inr ⟨hne, q, hbad, hq1, o1, hq2, o2, he1, he2⟩

/-- `["aaa\q` + 20 × `a` + `0x01` + `"]`: a bad escape at offset 5 and a control byte at offset 27 in the same literal -/
def exWidth : List Nat :=
  [0x5B, 0x22, 0x61, 0x61, 0x61, 0x5C, 0x71] ++ List.replicate 20 0x61 ++ [0x01, 0x22, 0x5D]

/-- `"` + 14 × `a` + `\u` + `0x01` as the root value -/
def exWidthRoot : List Nat := [0x22] ++ List.replicate 14 0x61 ++ [0x5C, 0x75, 0x01]

/-- 31 × `[` + `"aaa\q` + 20 × `a` + `0x01`: the node stack (`cap = 31`) is exhausted when the literal is reached -/
def exWidthFull : List Nat :=
  List.replicate 31 0x5B ++ [0x22, 0x61, 0x61, 0x61, 0x5C, 0x71] ++ List.replicate 20 0x61 ++ [0x01]

/-- **The exception in `C01_width_irrelevant` is real** (runs of the model with `W = 16` and `W = 32`).
    * `exWidth`: the 16-byte decoder's first block `[2, 18)` holds the backslash but neither the control byte nor a
      quote, so it processes the escape: `EscapedFormat` at the backslash (offset 5); the 32-byte decoder's first
      block `[2, 34)` holds the control byte before the closing quote: `UnEscaped` at the block start (offset 2).
    * `exWidthRoot`: a root-level literal; the 16-byte decoder fails in `\u` + non-hex with `src` advanced by 6 beyond
      the input, which `parsePrimitives` turns into `InvalidChar` at offset `len`; the 32-byte decoder sees the
      control byte in its first block: `UnEscaped` at offset 1.
    * `exWidthFull`: the handler declines the string node (stack full), so both widths report `InvalidChar`, but at the
      decoder's `src`: the backslash (offset 35) for 16 bytes, the block start (offset 32) for 32 bytes.
    * the literal is the one opened at index 1 resp. 0 resp. 31, and it is malformed in the sense of
      `MalformedLiteralAt`. -/
theorem C01_width_differs :
    errOff (parse 16 runPad exWidth) = some (kParseErrorEscapedFormat, 5) ∧
    errOff (parse 32 runPad exWidth) = some (kParseErrorUnEscaped, 2) ∧
    errOff (parse 16 runPad exWidthRoot) = some (kParseErrorInvalidChar, 18) ∧
    errOff (parse 32 runPad exWidthRoot) = some (kParseErrorUnEscaped, 1) ∧
    errOff (parse 16 runPad exWidthFull) = some (kParseErrorInvalidChar, 35) ∧
    errOff (parse 32 runPad exWidthFull) = some (kParseErrorInvalidChar, 32) ∧
    MalformedLiteralAt exWidth 1 ∧ MalformedLiteralAt exWidthRoot 0 ∧ MalformedLiteralAt exWidthFull 31 := by
  decide +kernel

/-- `["a\q"]`: rejected (bad escape) -/
def exBad : List Nat := [0x5B, 0x22, 0x61, 0x5C, 0x71, 0x22, 0x5D]

/-- non-vacuity of `C01_pad_irrelevant` on a *failing* input: padding of control bytes / of backslashes, raw stacks of
    garbage placeholders / of indeterminate slots, widths 32 and 16: always `EscapedFormat` at offset 3; and on an
    unterminated literal `["ab` (closed only by the sentinel quote; the block load reaches into the padding):
    `InvalidChar` at offset 4 whether the padding is `0xAA…` or control bytes -/
example :
    errOff (parseDoc 32 (List.replicate 61 0x01) (List.replicate 16 (some (.hole 7))) Doc.fresh exBad)
      = some (kParseErrorEscapedFormat, 3) ∧
    errOff (parseDoc 32 (List.replicate 61 0x5C) (List.replicate 16 none) Doc.fresh exBad)
      = some (kParseErrorEscapedFormat, 3) ∧
    errOff (parseDoc 16 (List.replicate 61 0x22) (List.replicate 16 none) Doc.fresh exBad)
      = some (kParseErrorEscapedFormat, 3) ∧
    errOff (parse 32 runPad [0x5B, 0x22, 0x61, 0x62]) = some (kParseErrorInvalidChar, 4) ∧
    errOff (parse 32 (List.replicate 61 0x01) [0x5B, 0x22, 0x61, 0x62]) = some (kParseErrorInvalidChar, 4) ∧
    Json.accepts exBad = false := by decide +kernel

/-- the hypotheses of `C01_pad_irrelevant` / `C01_width_irrelevant` are satisfiable on a failing input -/
example : ∃ r₁ r₂, parseDoc 32 (List.replicate 61 0x01) (List.replicate 16 (some (.hole 7))) Doc.fresh exBad = .ok r₁ ∧
    parseDoc 32 runPad (List.replicate 16 none) Doc.fresh exBad = .ok r₂ ∧
    r₁.err = r₂.err ∧ r₁.off = r₂.off ∧ r₁.doc.root = r₂.doc.root ∧ r₁.doc.value = r₂.doc.value ∧
    observe r₁ = observe r₂ :=
  C01_pad_irrelevant 32 (by decide) (by decide) (List.replicate 61 0x01) runPad exBad _ _ Doc.fresh Doc.fresh
    (by decide) (by decide) (by decide) (by decide) (by decide) (by decide) (by decide) (by decide)

example : ∃ r₁ r₂, parseDoc 16 runPad (List.replicate 17 none) Doc.fresh exWidth = .ok r₁ ∧
    parseDoc 32 runPad (List.replicate 17 none) Doc.fresh exWidth = .ok r₂ ∧ observe r₁ = observe r₂ ∧
    r₁.doc.root = r₂.doc.root ∧
    ((r₁.err = r₂.err ∧ r₁.off = r₂.off) ∨
     ((16 : Nat) ≠ 32 ∧ ∃ q, MalformedLiteralAt exWidth q ∧ q < r₁.off ∧ r₁.off ≤ exWidth.length ∧ q < r₂.off ∧
        r₂.off ≤ exWidth.length ∧ StringFailureCode r₁.err ∧ StringFailureCode r₂.err)) :=
  C01_width_irrelevant 16 32 (by decide) (by decide) (by decide) (by decide) runPad runPad exWidth _ _ Doc.fresh
    Doc.fresh (by decide) (by decide) (by decide) (by decide) (by decide) (by decide) (by decide) (by decide)

end Sonic.Props.C01
