import Sonic.Proofs.NumberTables
import Sonic.Proofs.NumberMaster
import Sonic.Proofs.NumberFast
import Sonic.Proofs.NumberConvert
import Sonic.Proofs.NumberAnchor
import Sonic.Proofs.NumberValue
import Sonic.Proofs.NumberELMain
import Sonic.Proofs.NumberELPath
import Sonic.Proofs.NumberNormalFast
import Sonic.Proofs.NumberNormalFastPath
import Sonic.Proofs.DecTake
import Sonic.Proofs.NumberAllB
import Sonic.Proofs.NumberBig

/-!
# C04 — numbers parse to the exact integer or the correctly rounded double

Objects: `Sonic.Model.Number.parseNumber` (literal model of `Parser::parseNumber`, split into the scanning phase
`accumulate` and the conversion phase `convert` at the label `double_fast`), the generated tables, and the
independent reference `Sonic.Spec.Number.scanNumber` / `Sonic.Spec.Rne.round`.

Proved here, for **all** buffers / numbers (no bound on digit counts or exponents unless stated):
* `C04_tables`        every row of `kPow10M128Tab`, `kPow10Tab`, `kPowTab`, `LSHIFT_TAB` and the `217706` constant;
* `C04_scan_grammar`  the scanner accepts exactly RFC 8259 numbers and stops at the end of the token;
* `C04_int_kinds`     integer texts that fit 64 bits: `uint` / `sint` / `-(double)` exactly as the spec says;
* `C04_accumulate`    the state at `double_fast` brackets the exact decimal; `trunc = 0` means equality;
* `C04_zero`          every text denoting zero gives `±0.0` (or the integer 0) with the right sign;
* `C04_fast_exact`, `C04_fast_path_correct`  the exact fast path returns the correctly rounded double;
* `Rne_monotone`, `C04_retry_sound`  soundness of the `man` / `man+1` agreement test;
* `Rne_spec`          anchor of the oracle: `Spec.Rne.round` is a nearest binary64, ties to even;
* `C04_el_path_correct`  end-to-end: every answer of `parseNumber` through Eisel-Lemire (`el`, and `el2` = the
                      `man` / `man+1` retry for truncated mantissas) is the value the reference demands;
* `C04_el_correct`    Eisel-Lemire: `atofEiselLemire64 m e neg = some b → Rne.round neg m e = some b` for every non-zero
                      64-bit mantissa (what `convert` / `parseFloatEiselLemire64` pass), all exponents, both signs;
* `C04_normalfast_correct`  whenever `ParseFloatingNormalFast` (yyjson's fast path) returns true under the caller's guards
  (`man ≠ 0`, no truncation, `-307 < exp10 < 288`), its result is the correctly rounded double;
  `C04_normalfast_path_correct` is the end-to-end form (`parseNumber ... = .ok v n .normalfast → scanNumber ... = .ok v n`);
* `C04_decimal_correct`, `C04_decimal_shift_exact`, `C04_native_path_correct`  the big-decimal fallback `AtofNative`
  (800-digit `Decimal`, `LeftShift`/`RightShift` with `LSHIFT_TAB`, `RoundedInteger`, `DecimalToF64`) returns the
  correctly rounded double for texts of any length and never faults; known finding: `C04_native_guard_needed`;
* `C04_parseNumber_correct` (master theorem: every path of `parseNumber` agrees with the reference — `NumAgrees`),
  `C04_parseNumber_correct'` (the pre-fix statement with the exponent guard `|exp| < 100000` or token ≤ 9600 bytes, kept),
  `C04_parseNumber_malformed`, `C04_parseNumber_shape` (any token, guard or not: ends at the token's end),
  `C04_parseNumber_congr` (buffer independence), `C04_number_agrees_padded` (the same on the parser's buffer
  `bs ++ x"x ++ pad`, hypotheses on the text `bs` only), `C04_native_never_faults` (all byte strings).

Nothing of the conversion pipeline remains open: every path of `convert` (exact fast path, normal-fast, Eisel-Lemire with the
`man`/`man+1` retry, big-decimal fallback) is proved against `Spec.Rne.round`.  One guard is needed and is a genuine observation
about the code (`C04_native_guard_needed`): `AtofNative` is handed the REST OF THE BUFFER, and `SetDecimal` accepts a second `.`;
so for a token with a fraction and no exponent that is directly followed by `.` (a text that is invalid JSON anyway and is rejected
right afterwards) the double handed to the SAX handler is not the token's value.
Known finding F6 (written exponents of 100000 and more saturated the `int exp` accumulators of `parseNumber` and
`SetDecimal`, so that e.g. `0.<100000 zeros>1e100001` was not parsed to 1.0) is FIXED in the code and in the models:
both accumulators are `int64_t` and saturate at `10^15`, and the sums with the digit counts are clamped (`exp10` to
`±100000`, `dp` to `±10^6`).  No theorem of this file has an exponent guard any more; where a bound is needed it is
"the token is shorter than `2^32` bytes" (a written exponent of `10^16` and more saturates the accumulator, and the
digit counts must not be able to compensate that).
-/
namespace Sonic.Props.C04

open Sonic.Spec
open Sonic.Spec.Number
open Sonic.Model.Number
open Sonic.Gen
open Sonic.Proofs.NumberTables
open Sonic.Proofs.Number
open Sonic.Proofs.Rne (optLe absDiff value value_eq_u)

/-! ## tables -/

/-- Every table the number parser relies on holds what the algorithms need:
(a) row `i < 696` of `kPow10M128Tab` is `⌊10^(i-348)·2^s⌋` as a 128-bit number with the top bit set
    (`RowSpec`), the declared 697th row is all-zero (and unreachable: `exp10 > 347` is rejected);
(b) `kPow10Tab[i]` is the double `10^i` exactly (the correctly rounded value of the decimal `1e i`), `i ≤ 22`;
(c) `(217706·e) >> 16 = ⌊log2 10^e⌋` for every `e ∈ [-348, 347]`, and the variant used by
    `ParseFloatingNormalFast`, `(217706·e - 4128768) >> 16`, is that minus 63, for every `e`;
(d) row `k ∈ [1, 60]` of `LSHIFT_TAB` has cutoff `5^k` and `delta` = number of digits of `2^k`; row 0 is `{0, ""}`;
(e) `kPowTab[i] = ⌊log2 10^i⌋` for `1 ≤ i ≤ 8` (and `2^27 ≤ 10^9` for the default shift). -/
theorem C04_tables :
    (kPow10M128Tab.length = 697 ∧ kPow10M128Tab.getD 696 (1, 1) = (0, 0) ∧
      ∀ i, i < 696 → RowSpec i (kPow10M128Tab.getD i (0, 0)).1 (kPow10M128Tab.getD i (0, 0)).2) ∧
    (kPow10Tab.length = 23 ∧ ∀ i, i < 23 → some (kPow10Tab.getD i 0) = Rne.round false 1 (i : Int)) ∧
    ((∀ i : Nat, i < 696 → IsFloorLog2Pow10 ((i : Int) - 348) (log2Pow10 ((i : Int) - 348))) ∧
      ∀ e : Int, (217706 * e - 4128768) >>> 16 = log2Pow10 e - 63) ∧
    (lshiftTab.length = 61 ∧ lshiftTab.getD 0 (1, [1]) = (0, []) ∧
      ∀ k, k < 61 → 1 ≤ k → LshiftRowSpec k (lshiftTab.getD k (0, [])).1 (lshiftTab.getD k (0, [])).2) ∧
    (kPowTab = [1, 3, 6, 9, 13, 16, 19, 23, 26] ∧
      (∀ i, i < 9 → 1 ≤ i → 2 ^ kPowTab.getD i 0 ≤ 10 ^ i ∧ 10 ^ i < 2 ^ (kPowTab.getD i 0 + 1)) ∧ 2 ^ 27 ≤ 10 ^ 9) := by
  refine ⟨⟨by decide +kernel, by decide +kernel, by decide +kernel⟩, ⟨by decide +kernel, by decide +kernel⟩,
    ⟨by decide +kernel, ?_⟩, ⟨by decide +kernel, by decide +kernel, by decide +kernel⟩,
    ⟨by decide +kernel, by decide +kernel, by decide +kernel⟩⟩
  intro e
  unfold log2Pow10
  rw [Int.shiftRight_eq_div_pow, Int.shiftRight_eq_div_pow]
  omega

-- non-vacuity: row 348 is 10^0 = 2^127 · 2^-127, row 0 is 10^-348
example : RowSpec 348 0 (2 ^ 63) := by decide +kernel
example : kPow10M128Tab.getD 348 (0, 0) = (0, 2 ^ 63) := by decide +kernel
example : log2Pow10 (-348) = -1157 ∧ log2Pow10 347 = 1152 := by decide +kernel

/-! ## the scanner -/

/-- **The scanner accepts exactly the RFC 8259 numbers and stops at the end of the token**, on every buffer and at
    every start index (bytes beyond the list read as 0, so this covers every content of the padding):
    `parseNumber` reports `kParseErrorInvalidChar` iff the reference finds no number token; and when the reference
    finds the token `t`, `parseNumber` ends with `pos_ = start + |t|`, either successfully or with an error code
    other than `kParseErrorInvalidChar` (the infinity error of the native fall-back). -/
theorem C04_scan_grammar (buf : List Nat) (len start : Nat) :
    (scanNumber buf start = .malformed ↔ ∃ p, parseNumber buf len start = .err errInvalidChar p) ∧
    (∀ t, scanToken (buf.drop start) = some t →
        (∃ v path, parseNumber buf len start = .ok v (start + t.len) path) ∨
        (∃ code, code ≠ errInvalidChar ∧ parseNumber buf len start = .err code (start + t.len))) := by
  have hacc := accumulate_spec buf start
  have hsome : ∀ t, scanToken (buf.drop start) = some t →
      (∃ v path, parseNumber buf len start = .ok v (start + t.len) path) ∨
      (∃ code, code ≠ errInvalidChar ∧ parseNumber buf len start = .err code (start + t.len)) := by
    intro t ht
    unfold parseNumber
    rcases hacc.2 t ht with ⟨_, _, h⟩ | ⟨_, _, h⟩ | ⟨_, f, h, hg⟩
    · rw [h]; exact Or.inl ⟨_, _, rfl⟩
    · rw [h]; exact Or.inl ⟨_, _, rfl⟩
    · rw [h]
      have := convert_shape f ((buf.drop start).take (len - start))
      rw [hg.next] at this
      exact this
  refine ⟨?_, hsome⟩
  rw [scanNumber_malformed_iff]
  constructor
  · intro hn
    obtain ⟨p, hp⟩ := hacc.1 hn
    exact ⟨p, by unfold parseNumber; rw [hp]⟩
  · intro ⟨p, hp⟩
    cases ht : scanToken (buf.drop start) with
    | none => rfl
    | some t =>
      rcases hsome t ht with ⟨v, path, h⟩ | ⟨code, hc, h⟩
      · rw [h] at hp; cases hp
      · rw [h] at hp
        simp only [PResult.err.injEq] at hp
        exact absurd hp.1 hc

-- non-vacuity: accepted, rejected, and "stops after the leading zero"
example : parseNumber [45, 49, 46, 53, 101, 43, 50, 93] 7 0 = .ok (.real 13862853709232340992) 7 .fast := by
  decide +kernel
example : scanNumber [45, 49, 46, 53, 101, 43, 50, 93] 0 = .ok (.real 13862853709232340992) 7 := by decide +kernel
example : parseNumber [49, 46, 120] 2 0 = .err errInvalidChar 2 ∧ scanNumber [49, 46, 120] 0 = .malformed := by
  decide +kernel
example : parseNumber [48, 49] 2 0 = .ok (.uint 0) 1 .int ∧ scanNumber [48, 49] 0 = .ok (.uint 0) 1 := by
  decide +kernel

/-! ## integers -/

/-- **Integer kinds.**  A text without fraction and exponent whose value fits 64 bits (at most 20 digits) is stored
    exactly as the reference says: non-negative → `uint`; negative and `≥ -2^63` → `sint`; `-0` → the unsigned 0;
    negative below `-2^63` → the double `-(double)man`, which is the correctly rounded value. -/
theorem C04_int_kinds (buf : List Nat) (len start : Nat) (t : Token)
    (ht : scanToken (buf.drop start) = some t) (hint : t.isInteger = true) (hfit : t.mantissa < 2 ^ 64) :
    ∃ v, scanNumber buf start = .ok v (start + t.len) ∧ parseNumber buf len start = .ok v (start + t.len) .int := by
  refine ⟨intVal t.neg t.mantissa, ?_, ?_⟩
  · unfold scanNumber
    rw [ht]
    simp only [value_int t hint hfit]
  · rcases (accumulate_spec buf start).2 t ht with ⟨_, _, h⟩ | ⟨h0, _, _⟩ | ⟨hn, _⟩
    · unfold parseNumber; rw [h]
    · rw [hint] at h0; cases h0
    · exact absurd ⟨hint, hfit⟩ hn

-- non-vacuity: the boundary values of the three kinds
example : parseNumber [49,56,52,52,54,55,52,52,48,55,51,55,48,57,53,53,49,54,49,53,120] 20 0
    = .ok (.uint 18446744073709551615) 20 .int := by decide +kernel
example : parseNumber [45,57,50,50,51,51,55,50,48,51,54,56,53,52,55,55,53,56,48,56,120] 20 0
    = .ok (.sint (-9223372036854775808)) 20 .int := by decide +kernel
example : parseNumber [45,57,50,50,51,51,55,50,48,51,54,56,53,52,55,55,53,56,48,57,120] 20 0
    = .ok (.real 14114281232179134464) 20 .int := by decide +kernel
example : scanNumber [45,57,50,50,51,51,55,50,48,51,54,56,53,52,55,55,53,56,48,57,120] 0
    = .ok (.real 14114281232179134464) 20 := by decide +kernel
example : parseNumber [45, 48, 120] 2 0 = .ok (.uint 0) 2 .int := by decide +kernel

/-! ## the digit loops -/

/-- **Accumulation** (no bound on the written exponent; the token is shorter than `2^32` bytes).  When the scanning
    phase reaches `double_fast` for the token `t`, the state `(man, exp10, trunc)` brackets the exact decimal
    `mantissa·10^exponent`: with `k` the number of dropped mantissa digits,
    `man·10^k ≤ mantissa < (man+1)·10^k`, with equality `man = mantissa`, `k = 0` when `trunc = 0`; and `exp10` is the
    exact exponent `exponent + k`, or — when that is beyond `±100000` — the clamp `±100000` on the same side (the written
    exponent is accumulated in 64 bits while below `10^15`, and `exp10 + exp·esm` is clamped: the fix of known finding
    F6).  Moreover `man < 10^19`, and `trunc = 1` forces `man ≥ 10^16 > 2^52`, so the exact fast path is never taken
    for a truncated mantissa. -/
theorem C04_accumulate (buf : List Nat) (start : Nat) (t : Token) (f : FloatIn)
    (ht : scanToken (buf.drop start) = some t) (hf : accumulate buf start = .float f) (hL : t.len < 2 ^ 32) :
    f.next = start + t.len ∧ f.neg = t.neg ∧ f.man < 10 ^ 19 ∧ (f.trunc = true → 2 ^ 52 < f.man) ∧
    ∃ k : Nat, f.man * 10 ^ k ≤ t.mantissa ∧ t.mantissa < (f.man + 1) * 10 ^ k ∧
      (f.trunc = false → k = 0 ∧ f.man = t.mantissa) ∧
      (f.exp10 = t.exponent + k ∨ (t.exponent + k > 100000 ∧ f.exp10 = 100000) ∨
        (t.exponent + k < -100000 ∧ f.exp10 = -100000)) := by
  rcases (accumulate_spec buf start).2 t ht with ⟨_, _, h⟩ | ⟨_, _, h⟩ | ⟨_, f', h, hg⟩
  · rw [h] at hf; cases hf
  · rw [h] at hf; cases hf
  · rw [h] at hf
    simp only [Acc.float.injEq] at hf
    subst hf
    refine ⟨hg.next, hg.neg, hg.man_lt, ?_,
      Sonic.Proofs.NumberAll.good_tri t _ f' hg (Sonic.Proofs.NumberAll.token_digits _ t ht) (Or.inr hL)⟩
    intro htr
    have := hg.trunc_big htr
    have : (2 : Nat) ^ 52 < 10 ^ 16 := by decide
    omega

-- non-vacuity: 27 integer digits, 19 kept, 8 counted in exp10, and the written exponent -1
example : accumulate [49,49,48,54,55,55,52,55,48,51,57,53,51,56,55,53,48,48,54,50,51,50,57,56,53,54,49,101,45,49,120] 0
    = .float { neg := false, man := 1106774703953875006, exp10 := 7, trunc := true, next := 30 } := by decide +kernel
example : (scanToken [49,49,48,54,55,55,52,55,48,51,57,53,51,56,55,53,48,48,54,50,51,50,57,56,53,54,49,101,45,49,120]).map
    (fun t => (t.mantissa, t.exponent)) = some (110677470395387500623298561, -1) := by decide +kernel

/-! ## zero -/

/-- **Zero.**  Every text whose digits are all zero (any number of them, any exponent) is stored as the integer 0
    (`0`, `-0`) or as `±0.0` with the sign of the text, exactly as the reference says. -/
theorem C04_zero (buf : List Nat) (len start : Nat) (t : Token)
    (ht : scanToken (buf.drop start) = some t) (hz : t.mantissa = 0) :
    ∃ v p, parseNumber buf len start = .ok v (start + t.len) p ∧ scanNumber buf start = .ok v (start + t.len) ∧
      (v = .uint 0 ∨ v = .real (zeroBits t.neg)) := by
  have hval : t.isInteger = false → t.value = some (.real (zeroBits t.neg)) := by
    intro hni
    unfold Token.value
    simp only [hni, Bool.false_and, Bool.false_eq_true, if_false, hz]
    unfold Rne.round zeroBits
    simp
  have hspec : ∀ v, t.value = some v → scanNumber buf start = .ok v (start + t.len) := by
    intro v hv; unfold scanNumber; rw [ht]; simp only [hv]
  rcases (accumulate_spec buf start).2 t ht with ⟨hi, hfit, h⟩ | ⟨hni, _, h⟩ | ⟨hn, f, h, hg⟩
  · refine ⟨_, _, by unfold parseNumber; rw [h], hspec _ (value_int t hi hfit), Or.inl ?_⟩
    simp [intVal, hz]
  · exact ⟨_, _, by unfold parseNumber; rw [h], hspec _ (hval hni), Or.inr rfl⟩
  · have hni : t.isInteger = false := by
      cases hh : t.isInteger with
      | false => rfl
      | true => exact absurd ⟨hh, by rw [hz]; exact Nat.pow_pos (by omega)⟩ hn
    obtain ⟨k, _, h1, _⟩ := hg.acc
    have hman : f.man = 0 := by
      rw [hz] at h1
      rcases Nat.eq_zero_or_pos f.man with h0 | h0
      · exact h0
      · have := Nat.mul_pos h0 (Nat.pow_pos (n := k) (by omega : 0 < 10)); omega
    refine ⟨.real (zeroBits t.neg), .zero, ?_, hspec _ (hval hni), Or.inr rfl⟩
    unfold parseNumber
    rw [h]
    simp only
    unfold convert
    rw [if_pos hman, hg.next, hg.neg]

-- non-vacuity: 23 fraction zeros (finding F4), a negative zero with exponent, and the integer -0
example : parseNumber [48,46,48,48,48,48,48,48,48,48,48,48,48,48,48,48,48,48,48,48,48,48,48,48,48,120] 25 0
    = .ok (.real 0) 25 .zero := by decide +kernel
example : parseNumber [45,48,46,48,48,101,53,120] 7 0 = .ok (.real (2 ^ 63)) 7 .zero := by decide +kernel

/-! ## the exact fast path -/

/-- **The exact fast path.**  For a non-zero `man` that passes the code's test `(man >> 52) == 0` and
    `-22 ≤ exp10 ≤ 37`, whenever `parseFloatingFast` returns true its result (with the sign applied by
    `dbl * sgn`) is the correctly rounded double of `±man·10^exp10`.
    Trusted hardware assumption (built into the model): `(double)man`, `*` and `/` are IEEE-754 correctly rounded
    (`u64ToF64`, `fmul`, `fdiv` are `Spec.Rne.roundRat` of the exact result) and `>` compares exact values.
    Content of the proof: `man` and `10^k` (`k ≤ 22`, table checked) are exactly representable, so one operation
    rounds the exact result; for `22 < exp10 ≤ 37` the first product is exact if it is at most `10^15`, and if it is
    not exact it is at least `2^53 > 10^15`, in which case the code bails out. -/
theorem C04_fast_exact (neg : Bool) (man : Nat) (exp10 : Int) (d : Nat)
    (h0 : man ≠ 0) (hm : man / 2 ^ 52 = 0) (h1 : -22 ≤ exp10) (h2 : exp10 ≤ 22 + 15)
    (h : parseFloatingFast exp10 man = some d) :
    Rne.round neg man exp10 = some (withSign neg d) := by
  have hlt : man < 2 ^ 52 := (Nat.div_eq_zero_iff_lt (by decide)).1 hm
  exact Sonic.Proofs.Rne.fast_exact_signed neg man exp10 (by omega)
    (Nat.lt_trans hlt (by decide)) h1 (by omega) d h

/-- **End-to-end for the fast path**: whenever `parseNumber` answers through the exact fast path (for a token whose
    length is below `2^32`), the stored double is the one the reference demands. -/
theorem C04_fast_path_correct (buf : List Nat) (len start : Nat) (t : Token) (v : JNum) (n : Nat)
    (ht : scanToken (buf.drop start) = some t) (hL : t.len < 2 ^ 32)
    (h : parseNumber buf len start = .ok v n .fast) :
    scanNumber buf start = .ok v n := by
  unfold parseNumber at h
  rcases (accumulate_spec buf start).2 t ht with ⟨_, _, ha⟩ | ⟨_, _, ha⟩ | ⟨hn, f, ha, hg⟩
  · rw [ha] at h; cases h
  · rw [ha] at h; cases h
  · rw [ha] at h
    obtain ⟨hm0, hm52, he1, he2, d, hd, hv, hnx⟩ := convert_fast f _ v n h
    have hnext := hg.next
    have hneg := hg.neg
    have htb : f.trunc = true → 2 ^ 52 < f.man := by
      intro htr
      have := hg.trunc_big htr
      have : (2 : Nat) ^ 52 < 10 ^ 16 := by decide
      omega
    obtain ⟨k, hk, _, _, htr⟩ := Sonic.Proofs.NumberAll.good_exact t _ f hg
      (Sonic.Proofs.NumberAll.token_digits _ t ht) (Or.inr hL) ⟨by omega, by omega⟩
    have hlt : f.man < 2 ^ 52 := (Nat.div_eq_zero_iff_lt (by decide)).1 hm52
    have htrunc : f.trunc = false := by
      cases hh : f.trunc with
      | false => rfl
      | true => have := htb hh; omega
    obtain ⟨_, hmant, hexp10⟩ := htr htrunc
    have hr := C04_fast_exact f.neg f.man f.exp10 d hm0 hm52 he2 he1 hd
    rw [hneg, hmant, hexp10] at hr
    have hval : t.value = some v := by
      unfold Token.value
      have hnn : ¬ (t.isInteger = true ∧ t.mantissa < 2 ^ 64) := hn
      by_cases hi : t.isInteger = true
      · have hbig : ¬ (t.mantissa < 2 ^ 64) := fun hh => hnn ⟨hi, hh⟩
        have h0 : t.mantissa ≠ 0 := by
          intro h0; rw [h0] at hbig; exact hbig (Nat.pow_pos (by omega))
        have h63 : ¬ (t.mantissa ≤ 2 ^ 63) := by
          intro h63; exact hbig (Nat.lt_of_le_of_lt h63 (by decide))
        simp only [hi, Bool.true_and, Bool.and_eq_true, decide_eq_true_eq, hbig, and_false, if_false, h0, h63]
        rw [hr, hv, hneg]; rfl
      · have hi' : t.isInteger = false := by simpa using hi
        simp only [hi', Bool.false_and, Bool.false_eq_true, if_false]
        rw [hr, hv, hneg]; rfl
    unfold scanNumber
    rw [ht]
    simp only [hval, hnx, hnext]

-- non-vacuity: 0.1 (one division), 1e23 (two multiplications), 123456789012345e25 bails out (`d > 1e15`)
example : parseFloatingFast (-1) 1 = some 4591870180066957722 := by decide +kernel
example : parseFloatingFast 23 1 = some 4950912855330343670 := by decide +kernel
example : parseFloatingFast 25 123456789012345 = none := by decide +kernel
example : parseNumber [48, 46, 49, 120] 3 0 = .ok (.real 4591870180066957722) 3 .fast := by decide +kernel

/-! ## monotonicity of rounding and the `man` / `man + 1` retry -/

/-- **Rne_monotone.**  For a fixed decimal exponent the correctly rounded double (as a bit pattern; `none` = +∞ is the
    top element) is monotone in the mantissa. -/
theorem Rne_monotone (m m' : Nat) (e : Int) (h : m ≤ m') : optLe (Rne.round false m e) (Rne.round false m' e) :=
  Sonic.Proofs.Rne.round_mono m m' e h

/-- **Soundness of the retry.**  `parseFloatEiselLemire64` accepts a truncated mantissa when Eisel–Lemire gives the
    same double for `man` and `man + 1`.  If those two answers are the correctly rounded values of `man·10^e` and
    `(man+1)·10^e`, then the common answer is the correctly rounded value of every decimal in between — in
    particular of the exact decimal `N·10^(e-k)`, `man·10^k ≤ N ≤ (man+1)·10^k`, that `C04_accumulate` brackets. -/
theorem C04_retry_sound (neg : Bool) (man : Nat) (e : Int) (k N : Nat) (b : Nat)
    (hlo : Rne.round neg man e = some b) (hhi : Rne.round neg (man + 1) e = some b)
    (h1 : man * 10 ^ k ≤ N) (h2 : N ≤ (man + 1) * 10 ^ k) :
    Rne.round neg N (e - k) = some b :=
  Sonic.Proofs.Rne.retry_sound neg man e k N (some b) hlo hhi h1 h2

-- non-vacuity: 18446744073709551616 = 1844674407370955161|6 : man and man+1 agree
example : Rne.round false 1844674407370955161 1 = some 4895412794951729152 ∧
    Rne.round false 1844674407370955162 1 = some 4895412794951729152 ∧
    Rne.round false 18446744073709551616 0 = some 4895412794951729152 := by decide +kernel


/-! ## `ParseFloatingNormalFast` (yyjson's 128/192-bit fast path) -/

/-- **`ParseFloatingNormalFast` is correct.**  `Parser::parseNumber` calls it (see `Model.Number.convert`) only when
    `man ≠ 0` (a `uint64_t`, so `man < 2^64`), the mantissa was not truncated (so `man·10^exp10` *is* the decimal) and
    `exp10 > -308 + 1`, `exp10 < 308 - 20`.  Under exactly these guards, whenever the function returns true the bit
    pattern it stores (sign included) is the correctly rounded binary64 of `±man·10^exp10`.
    Content of the proof (`Proofs/NumberNormalFast.lean`): with `sig1 = man << clz(man)` and `v` the 128-bit table row
    (`C04_tables`: `v = ⌊10^e·2^s⌋`, top bit set), the exact scaled value lies in `[sig1·v, sig1·v + sig1)`; the one-word
    product is accepted only if the low 9 bits of `hi` are in `[1, 510]`, the two-word product only if the middle word
    `add ∉ {0, 2^64-1}`; in both cases bits 9.. of the accepted `hi` are those of the exact value and the bits below
    are not all zero, so rounding at bit 10 (after the optional 1-bit normalisation, with the mantissa-overflow carry)
    is round-to-nearest with no tie; `-307 < exp10 < 288` keeps the biased exponent in `[6, 2041]`, so the `int32`
    exponent arithmetic and the final shift do not wrap.
    (`Proofs/NumberNormalFastEq.lean` first rewrites the model into a matcher-free form, `nf_eq`.) -/
theorem C04_normalfast_correct (m : Nat) (e : Int) (neg : Bool) (b : Nat) (hm : 0 < m) (hm' : m < 2 ^ 64)
    (he : -307 < e) (he' : e < 288)
    (h : Sonic.Model.NormalFast.parseFloatingNormalFast e m neg = some b) :
    Sonic.Spec.Rne.round neg m e = some b :=
  Sonic.Proofs.NormalFast.normalfast_correct C04_tables.1.2.2 m e neg b hm hm' he he' h

-- non-vacuity: the extreme exponents and mantissas the caller can pass; the mantissa-overflow carry of the rounding
-- (115292150460684697e1 = 2^60 - 6 → 2^60); the two-word product with a carry into `hi`; an exact tie is refused
example : Sonic.Model.NormalFast.parseFloatingNormalFast (-306) 1 true = some 9252215105407481745 ∧
    Rne.round true 1 (-306) = some 9252215105407481745 := by decide +kernel
example : Sonic.Model.NormalFast.parseFloatingNormalFast 287 18446744073709551615 false = some 9188754901139275218 ∧
    Rne.round false 18446744073709551615 287 = some 9188754901139275218 := by decide +kernel
example : Sonic.Model.NormalFast.parseFloatingNormalFast 1 115292150460684697 false = some 4877398396442247168 ∧
    Rne.round false 115292150460684697 1 = some 4877398396442247168 := by decide +kernel
example : Sonic.Model.NormalFast.parseFloatingNormalFast 30 9007199254743080 false = some 5294331389890564953 ∧
    Rne.round false 9007199254743080 30 = some 5294331389890564953 := by decide +kernel
example : Sonic.Model.NormalFast.parseFloatingNormalFast 0 9007199254740993 false = none := by decide +kernel


/-- **End-to-end for the `ParseFloatingNormalFast` path**: whenever `parseNumber` answers through that path (for a
    token shorter than `2^32` bytes), the stored double is the one the reference demands.
    (The guard `!trunc` makes `man·10^exp10` the exact decimal of the text: `C04_accumulate`.) -/
theorem C04_normalfast_path_correct (buf : List Nat) (len start : Nat) (t : Token) (v : JNum) (n : Nat)
    (ht : scanToken (buf.drop start) = some t) (hL : t.len < 2 ^ 32)
    (h : parseNumber buf len start = .ok v n .normalfast) :
    scanNumber buf start = .ok v n := by
  unfold parseNumber at h
  rcases (accumulate_spec buf start).2 t ht with ⟨_, _, ha⟩ | ⟨_, _, ha⟩ | ⟨hn, f, ha, hg⟩
  · rw [ha] at h; cases h
  · rw [ha] at h; cases h
  · rw [ha] at h
    obtain ⟨hm0, htrunc, he1, he2, raw, hraw, hv, hnx⟩ := convert_normalfast f _ v n h
    have hnext := hg.next
    have hneg := hg.neg
    have hman := hg.man_lt
    obtain ⟨k, hk, _, _, htr⟩ := Sonic.Proofs.NumberAll.good_exact t _ f hg
      (Sonic.Proofs.NumberAll.token_digits _ t ht) (Or.inr hL) ⟨by omega, by omega⟩
    obtain ⟨_, hmant, hexp10⟩ := htr htrunc
    have hr := C04_normalfast_correct f.man f.exp10 f.neg raw (by omega)
      (Nat.lt_trans hman (by decide)) (by omega) (by omega) hraw
    rw [hneg, hmant, hexp10] at hr
    have hval : t.value = some v := by
      unfold Token.value
      have hnn : ¬ (t.isInteger = true ∧ t.mantissa < 2 ^ 64) := hn
      by_cases hi : t.isInteger = true
      · have hbig : ¬ (t.mantissa < 2 ^ 64) := fun hh => hnn ⟨hi, hh⟩
        have h0 : t.mantissa ≠ 0 := by
          intro h0; rw [h0] at hbig; exact hbig (Nat.pow_pos (by omega))
        have h63 : ¬ (t.mantissa ≤ 2 ^ 63) := by
          intro h63; exact hbig (Nat.lt_of_le_of_lt h63 (by decide))
        simp only [hi, Bool.true_and, Bool.and_eq_true, decide_eq_true_eq, hbig, and_false, if_false, h0, h63]
        rw [hr, hv]; rfl
      · have hi' : t.isInteger = false := by simpa using hi
        simp only [hi', Bool.false_and, Bool.false_eq_true, if_false]
        rw [hr, hv]; rfl
    unfold scanNumber
    rw [ht]
    simp only [hval, hnx, hnext]

-- non-vacuity: 1.2345678901234567e-5 (17 digits: not the exact fast path) goes through `ParseFloatingNormalFast`
example : parseNumber [49,46,50,51,52,53,54,55,56,57,48,49,50,51,52,53,54,55,101,45,53,120] 21 0
    = .ok (.real 4533405228038781114) 21 .normalfast ∧
    scanNumber [49,46,50,51,52,53,54,55,56,57,48,49,50,51,52,53,54,55,101,45,53,120] 0
    = .ok (.real 4533405228038781114) 21 := by decide +kernel


/-! ## anchor of the oracle -/

/-- **Anchor: `Spec.Rne.round` is round-to-nearest, ties-to-even.**  If `Rne.round false m e = some b` then `b` is a
    finite bit pattern (exponent field below `0x7FF`) and, with `x = m·10^e = N/D`, for every bit pattern `b'`
    `|x - value b| ≤ |x - value b'|` (both sides multiplied by `D·2^1074`); and if some different value is equally
    near, then the significand of `b` is even.  (`Rne.round true` is the same bit pattern with the sign bit set:
    `Proofs.Rne.round_neg`; `none` is returned only when no finite pattern is produced, see `roundRat_closed`.) -/
theorem Rne_spec (m : Nat) (e : Int) (b : Nat) (h : Rne.round false m e = some b) :
    b < 0x7FF0000000000000 ∧
    ∀ b' : Nat,
      absDiff (m * 10 ^ e.toNat * (value b).2) ((value b).1 * 10 ^ (-e).toNat)
        ≤ absDiff (m * 10 ^ e.toNat * (value b').2) ((value b').1 * 10 ^ (-e).toNat) ∧
      (absDiff (m * 10 ^ e.toNat * (value b).2) ((value b).1 * 10 ^ (-e).toNat)
          = absDiff (m * 10 ^ e.toNat * (value b').2) ((value b').1 * 10 ^ (-e).toNat) →
        (value b').1 ≠ (value b).1 → b % 2 = 0) := by
  have hfin := (Sonic.Proofs.Rne.round_nearest m e b h 0).1
  refine ⟨Nat.lt_of_lt_of_le hfin (by decide), fun b' => ?_⟩
  obtain ⟨_, h1, h2⟩ := Sonic.Proofs.Rne.round_nearest m e b h b'
  have hv2 : ∀ x, (value x).2 = 2 ^ 1074 := by
    set_option exponentiation.threshold 1100 in
    exact fun _ => rfl
  rw [value_eq_u, value_eq_u, hv2, hv2]
  exact ⟨h1, h2⟩

-- non-vacuity: 0.1, the smallest subnormal 4.9e-324, an exact tie 2^53+1 → 2^53 (even), the largest double
example : Rne.round false 1 (-1) = some 4591870180066957722 := by decide +kernel
example : Rne.round false 49 (-325) = some 1 := by decide +kernel
example : Rne.round false 9007199254740993 0 = some 4845873199050653696 ∧ 4845873199050653696 % 2 = 0 := by
  decide +kernel
example : Rne.round false 17976931348623157 292 = some 9218868437227405311 := by decide +kernel
example : Rne.round false 1 400 = none := by decide +kernel
example : value 4607182418800017408 = (2 ^ 1074, 2 ^ 1074) := by decide +kernel

/-! ## the Eisel-Lemire path -/

/-- **Eisel-Lemire is correct whenever it answers.**  For a non-zero mantissa that fits 64 bits (the callers
    `convert` / `parseFloatEiselLemire64` pass `man ≠ 0`, `man < 10^19`, and `man + 1`), any decimal exponent and either
    sign: if the model of `AtofEiselLemire64` returns `true` with the bits `b`, then `b` is the correctly rounded
    binary64 of `±m·10^e` (round to nearest, ties to even: `Rne_spec`).
    Both hypotheses on `m` are necessary: `atofEiselLemire64 0 0 false = some 4602678819172646912` (not `0.0`) and
    `atofEiselLemire64 (2^64) 0 false = some 4890909195324358656` (the double `2^63`, the shift wraps).
    Content of the proof: with `w = m·2^clz` and the table row `T = ⌊10^e·2^s⌋` (`C04_tables`), the 128-bit product
    `w·T[hi]` — refined with `w·T[lo]` when its low 9 bits are all ones and the low word may carry — brackets the exact
    `w·10^e·2^s` so tightly that, outside the two cases in which the code gives up (`ambiguous`, and the exact-half-way
    pattern `xLo = 0 ∧ xHi % 512 = 0 ∧ retMan % 4 = 1`), the upper word fixes the 54-bit quotient `⌊x/2^(g-1)⌋` and
    whether the remainder is zero; "add the low bit and shift" is then ties-to-even rounding, the wrapping exponent
    arithmetic equals `g + 1075` whenever it passes `(ret_exp2 - 1) < 0x7FF - 1`, and the only subnormal input that
    passes the test (quotient `2^54 - 1` at `g = -1075`) rounds up to the smallest normal number in both. -/
theorem C04_el_correct (m : Nat) (e : Int) (neg : Bool) (b : Nat) (hm : 0 < m) (hm' : m < 2 ^ 64)
    (h : Sonic.Model.EiselLemire.atofEiselLemire64 m e neg = some b) :
    Rne.round neg m e = some b :=
  Sonic.Proofs.EL.el_correct m e neg b hm hm' C04_tables.1.2.2 h

-- non-vacuity: 0.1; a negative number; an input that takes the wider approximation (second product); the largest
-- double; the carry out of an all-ones 54-bit quotient (2^53 - 0.4 → 2^53); the one subnormal input class that passes
-- the exponent test (2.2250738585072013e-308, just below 2^-1022, rounds up to the smallest normal number);
-- the code gives up on an exact half-way case (2^53 + 1), on 1.5 (`xLo = 0`), and outside the table
example : Sonic.Model.EiselLemire.atofEiselLemire64 1 (-1) false = some 4591870180066957722 := by decide +kernel
example : Sonic.Model.EiselLemire.atofEiselLemire64 3 (-1) true = some 13822447976325526323 := by decide +kernel
example : Sonic.Model.EiselLemire.atofEiselLemire64 1858669753882310 (-181) false = some 2127365487756417895 ∧
    Sonic.Model.EiselLemire.pow10M128 167 = (8522995362035230495, 15309010345804195115) ∧
    (Sonic.Model.EiselLemire.mulU64 (1858669753882310 * 2 ^ 13) 15309010345804195115).1 = 12636289566544443391 ∧
    Sonic.Proofs.EL.refine (1858669753882310 * 2 ^ 13) 15309010345804195115 8522995362035230495
      = (12636289566544443392, 5210025055324290692, false) := by decide +kernel
example : Sonic.Model.EiselLemire.atofEiselLemire64 17976931348623157 292 false = some 9218868437227405311 := by
  decide +kernel
example : Sonic.Model.EiselLemire.atofEiselLemire64 90071992547409916 (-1) false = some 4845873199050653696 := by
  decide +kernel
example : Sonic.Model.EiselLemire.atofEiselLemire64 22250738585072013 (-324) false = some (2 ^ 52) ∧
    Rne.round false 22250738585072013 (-324) = some (2 ^ 52) := by decide +kernel
example : Sonic.Model.EiselLemire.atofEiselLemire64 9007199254740993 0 false = none := by decide +kernel
example : Sonic.Model.EiselLemire.atofEiselLemire64 15 (-1) false = none := by decide +kernel
example : Sonic.Model.EiselLemire.atofEiselLemire64 1 348 false = none := by decide +kernel

/-- **End-to-end for the Eisel-Lemire paths**: whenever `parseNumber` answers through Eisel-Lemire — path `el`
    (mantissa not truncated, one call) or `el2` (more than 19 significant digits: the calls for `man` and `man + 1`
    agree) — for a token shorter than `2^32` bytes, the stored double is the one the
    reference demands: the correctly rounded value of the *full* decimal text. -/
theorem C04_el_path_correct (buf : List Nat) (len start : Nat) (t : Token) (v : JNum) (n : Nat) (p : Path)
    (ht : scanToken (buf.drop start) = some t) (hL : t.len < 2 ^ 32)
    (hp : p = .el ∨ p = .el2) (h : parseNumber buf len start = .ok v n p) :
    scanNumber buf start = .ok v n := by
  unfold parseNumber at h
  rcases (accumulate_spec buf start).2 t ht with ⟨_, _, ha⟩ | ⟨_, _, ha⟩ | ⟨hn, f, ha, hg⟩
  · rw [ha] at h
    simp only [PResult.ok.injEq] at h
    rcases hp with hp | hp <;> rw [hp] at h <;> exact absurd h.2.2 (by decide)
  · rw [ha] at h
    simp only [PResult.ok.injEq] at h
    rcases hp with hp | hp <;> rw [hp] at h <;> exact absurd h.2.2 (by decide)
  · rw [ha] at h
    obtain ⟨hm0, hnx, b, hv, hel, hcase⟩ := convert_el f _ v n p hp h
    have hnext := hg.next
    have hneg := hg.neg
    have hman := hg.man_lt
    have hin : ¬ (f.exp10 < -348 ∨ f.exp10 > 347) := by
      intro hr; rw [Sonic.Proofs.NumberAll.el_none_of_range _ _ _ hr] at hel; cases hel
    obtain ⟨k, hk, hk1, hk2, htr⟩ := Sonic.Proofs.NumberAll.good_exact t _ f hg
      (Sonic.Proofs.NumberAll.token_digits _ t ht) (Or.inr hL) ⟨by omega, by omega⟩
    have h64 : f.man + 1 < 2 ^ 64 := Nat.lt_of_lt_of_le (Nat.succ_lt_succ hman) (by decide)
    have hlo := C04_el_correct f.man f.exp10 f.neg b (by omega) (by omega) hel
    have hr : Rne.round t.neg t.mantissa t.exponent = some b := by
      rcases hcase with ⟨_, htrunc⟩ | ⟨_, _, hel2⟩
      · obtain ⟨_, hmant, hexp10⟩ := htr htrunc
        rw [← hneg, ← hmant, ← hexp10]; exact hlo
      · rw [Nat.mod_eq_of_lt h64] at hel2
        have hhi := C04_el_correct (f.man + 1) f.exp10 f.neg b (by omega) h64 hel2
        have := C04_retry_sound f.neg f.man f.exp10 k t.mantissa b hlo hhi hk1 (Nat.le_of_lt hk2)
        rw [← hneg, show t.exponent = f.exp10 - (k : Int) by omega]; exact this
    unfold scanNumber
    rw [ht]
    simp only [value_of_round t hn b hr, hv, hnx, hnext]

-- non-vacuity: 1.7976931348623157e308 through `el`; 21 digits through `el2`
example : parseNumber [49,46,55,57,55,54,57,51,49,51,52,56,54,50,51,49,53,55,101,51,48,56,120] 22 0
    = .ok (.real 9218868437227405311) 22 .el := by decide +kernel
example : parseNumber [49,50,51,52,53,54,55,56,57,48,49,50,51,52,53,54,55,56,57,48,49,101,51,48,120] 24 0
    = .ok (.real 5356220585486068589) 24 .el2 := by decide +kernel

/-! ## the big-decimal fallback `AtofNative` -/

open Sonic.Proofs.Dec (nativeGuard specBits StepQ val WF Dnat Trimmed)
open Sonic.Model.BigDecimal (atofNative rightShift leftShift)

/-- **The big-decimal fallback is correct.**  Let `txt` be the bytes handed to `AtofNative` (the real parser passes
    the rest of the buffer, `len_ - pos_ + 1` bytes from the start of the number), let the reference scanner find the
    token `t` at its start, shorter than `2^32` bytes (no bound on the written exponent: known finding F6 is fixed), and let the
    byte after the token satisfy `nativeGuard` (not `.` after a fraction without exponent part, not a digit after a
    lone `0`; see `C04_native_guard_needed`).  Then, for texts of **any length** (more than 800 significant digits
    included: the dropped digits only enter through `trunc`, and flooring to 800 digits at every shift never crosses
    a double or a midpoint between two doubles):
    the result is the bit pattern of the correctly rounded binary64 of the exact decimal `±mantissa·10^exponent` —
    `Spec.Rne.round`, with `±inf` (`0x7FF0…0` plus sign) exactly when the reference says the value rounds to infinity —
    and the model's fault flag is `false`: no index into the 800-byte digit buffer is out of range, the write index
    of `LeftShift` ends at exactly 0 (`LSHIFT_TAB`/`PrefixIsLess` predict the number of new digits exactly), and no
    loop exceeds its bound. -/
theorem C04_decimal_correct (txt : List Nat) (t : Token) (ht : scanToken txt = some t)
    (hg : nativeGuard t (txt.drop t.len) = true) (hL : t.len < 2 ^ 32) :
    atofNative txt = (specBits t.neg (Rne.round t.neg t.mantissa t.exponent), false) :=
  Sonic.Proofs.Dec.atofNative_correct txt t ht hg (Or.inr hL)

-- non-vacuity: 47 significant digits just above the tie 2^53+1 (Eisel–Lemire cannot decide it), followed by `,`
example : (scanToken [57,48,48,55,49,57,57,50,53,52,55,52,48,57,57,51,46,48,48,48,48,48,48,48,48,48,48,48,48,48,48,48,48,
    48,48,48,48,48,48,48,48,48,48,48,48,48,48,49,44]).any (fun t =>
      nativeGuard t (List.drop t.len [57,48,48,55,49,57,57,50,53,52,55,52,48,57,57,51,46,48,48,48,48,48,48,48,48,48,48,
        48,48,48,48,48,48,48,48,48,48,48,48,48,48,48,48,48,48,48,48,49,44]) &&
      decide (t.len < 2 ^ 32) &&
      (Rne.round t.neg t.mantissa t.exponent == some 4845873199050653697)) = true := by decide +kernel
example : atofNative [57,48,48,55,49,57,57,50,53,52,55,52,48,57,57,51,46,48,48,48,48,48,48,48,48,48,48,48,48,48,48,48,48,
    48,48,48,48,48,48,48,48,48,48,48,48,48,48,49,44] = (4845873199050653697, false) := by decide +kernel
-- overflow: `1e400` gives +inf, the reference says "rounds to infinity"
example : atofNative [49, 101, 52, 48, 48] = (0x7FF0000000000000, false) ∧ Rne.round false 1 400 = none := by
  decide +kernel

/-- **The shifts are exact.**  On a well-formed non-zero decimal (`k ≤ 60`), `RightShift(d, k)` / `LeftShift(d, k)`
    leave a well-formed, trimmed, non-zero decimal whose value is `val d / 2^k` resp. `val d · 2^k` *exactly* with
    `trunc` unchanged — or, when more than 800 digits would be needed, that value floored to the 800-digit grid
    `10^(dp-800)` with `trunc` raised (`StepQ`).  In particular no digit index leaves the buffer and
    `LSHIFT_TAB`/`PrefixIsLess` give the exact number of new digits. -/
theorem C04_decimal_shift_exact (d : Sonic.Model.BigDecimal.Decimal) (k : Nat) (hwf : WF d) (hpos : 0 < Dnat d)
    (hk : k ≤ 60) :
    (WF (rightShift d k) ∧ (rightShift d k).neg = d.neg ∧ 0 < Dnat (rightShift d k) ∧ Trimmed (rightShift d k) ∧
      StepQ (val d / 2 ^ k) d.trunc (rightShift d k)) ∧
    (1 ≤ k → WF (leftShift d k) ∧ (leftShift d k).neg = d.neg ∧ 0 < Dnat (leftShift d k) ∧ Trimmed (leftShift d k) ∧
      StepQ (val d * 2 ^ k) d.trunc (leftShift d k)) :=
  ⟨Sonic.Proofs.Dec.rightShift_Q d k hwf hpos hk, fun hk1 => Sonic.Proofs.Dec.leftShift_Q d k hwf hpos hk1 hk⟩

/-- **End-to-end for the native path**: whenever `parseNumber` answers through `AtofNative` — with a double, or with
    `kParseErrorInfinity` — the reference scanner says the same.  Hypotheses (on the buffer only): the token ends at or
    before `len_` (so the `len_ - pos_ + 1` bytes handed to `AtofNative` contain it; a token only depends on its own
    bytes: `Proofs.Dec.scanToken_take`), the byte after it satisfies `nativeGuard`, the token is shorter than `2^32` bytes. -/
theorem C04_native_path_correct (buf : List Nat) (len start : Nat) (t : Token)
    (ht : scanToken (buf.drop start) = some t) (hlen : start + t.len ≤ len)
    (hg : nativeGuard t ((buf.drop start).drop t.len) = true)
    (hL : t.len < 2 ^ 32) :
    (∀ v n, parseNumber buf len start = .ok v n .native → scanNumber buf start = .ok v n) ∧
    (∀ p, parseNumber buf len start = .err errInfinity p → scanNumber buf start = .infinity p) :=
  Sonic.Proofs.Dec.native_path_agrees' buf len start t ht hlen hg (Or.inr hL)

-- non-vacuity: the 47-digit number inside a buffer with the sentinel
example : parseNumber [57,48,48,55,49,57,57,50,53,52,55,52,48,57,57,51,46,48,48,48,48,48,48,48,48,48,48,48,48,48,48,48,
    48,48,48,48,48,48,48,48,48,48,48,48,48,48,48,49,120,34,120] 48 0
    = .ok (.real 4845873199050653697) 48 .native := by decide +kernel

/-- **Known finding (guard of `C04_decimal_correct`).**  `AtofNative` receives the rest of the buffer, not the token
    (`parser.h`: `AtofNative(s + pos_ - 1, len_ - pos_ + 1)`), and `SetDecimal` accepts a second `.` (it re-positions
    the decimal point).  So a number with a fraction and no exponent that is directly followed by `.` is converted
    wrongly when the native path is taken: here the token is `9007199254740993.0000000000000000000000000000001`
    (reference: `2^53 + 2`), but the handler is given the double of `90071992547409930000000000000000000000000000001.5`.
    Such a document is invalid (the parser reports `kParseErrorInvalidChar` at the `.` right afterwards).
    When the guard fails, the token has no exponent and is followed by `.` (after a fraction) or by a digit (after a
    lone `0`, which never reaches the native path). -/
theorem C04_native_guard_needed :
    parseNumber [57,48,48,55,49,57,57,50,53,52,55,52,48,57,57,51,46,48,48,48,48,48,48,48,48,48,48,48,48,48,48,48,
      48,48,48,48,48,48,48,48,48,48,48,48,48,48,48,49,46,53,120,34,120] 50 0
      = .ok (.real 5309618545612075045) 48 .native ∧
    scanNumber [57,48,48,55,49,57,57,50,53,52,55,52,48,57,57,51,46,48,48,48,48,48,48,48,48,48,48,48,48,48,48,48,
      48,48,48,48,48,48,48,48,48,48,48,48,48,48,48,49,46,53,120,34,120] 0
      = .ok (.real 4845873199050653697) 48 ∧
    (∀ (t : Token) (rest : List Nat), nativeGuard t rest = false →
      t.exp = none ∧ ∃ c r, rest = c :: r ∧
        ((t.fracDigits.isSome = true ∧ c = 46) ∨ (t.fracDigits = none ∧ Sonic.Spec.Number.isDigit c = true))) :=
  ⟨by decide +kernel, by decide +kernel, Sonic.Proofs.Dec.nativeGuard_false⟩


/-! ## the whole number model -/

open Sonic.Proofs.Parse (NumAgrees numOut NumOut BufAt)

/-- **Master theorem: `parseNumber` agrees with the reference on every path.**  If the reference scanner finds the
    token `t` at `start`, the token ends at or before `len` (`len_`; the parser calls `parseNumber` with the text
    length, and the `len_ - pos_ + 1` bytes handed to `AtofNative` then contain the token), its written exponent is
    unrestricted (known finding F6 is fixed; the token only has to be shorter than `2^32` bytes) and the byte after it satisfies `nativeGuard` (known finding
    `C04_native_guard_needed`), then whatever path `parseNumber` takes — `int` (all three integer kinds and
    `-(double)man`), `zero`, `fast`, `normalfast`, `el`, `el2`, `native` — its outcome agrees with the reference:
    same kind and value, same end index with `start < next ≤ len`, and `kParseErrorInfinity` exactly when the reference
    says the value rounds to infinity (`NumAgrees`, `numOut` of `Proofs/ParseInv.lean`). -/
theorem C04_parseNumber_correct (buf : List Nat) (len start : Nat) (t : Token)
    (ht : scanToken (buf.drop start) = some t) (hlen : start + t.len ≤ len)
    (hL : t.len < 2 ^ 32) (hg : nativeGuard t ((buf.drop start).drop t.len) = true) :
    NumAgrees start len (scanNumber buf start) (numOut (parseNumber buf len start)) :=
  Sonic.Proofs.NumberAll.parseNumber_correct buf len start t ht hlen (Or.inr hL) hg

/-- **Malformed.**  Where the reference finds no number token, it answers `malformed` and `parseNumber` reports
    `kParseErrorInvalidChar` (at some position `p`; `NumAgrees` does not constrain it and `Parser::Parse` clamps it
    to `len_`). -/
theorem C04_parseNumber_malformed (buf : List Nat) (len start : Nat) (h : scanToken (buf.drop start) = none) :
    scanNumber buf start = .malformed ∧ (∃ p, parseNumber buf len start = .err errInvalidChar p) ∧
    NumAgrees start len (scanNumber buf start) (numOut (parseNumber buf len start)) :=
  ⟨(Sonic.Proofs.NumberAll.parseNumber_malformed buf len start h).1,
    (Sonic.Proofs.NumberAll.parseNumber_malformed buf len start h).2,
    Sonic.Proofs.NumberAll.parseNumber_malformed_agrees buf len start h⟩

/-- **Shape of the outcome for every token (the "doomed" texts outside `nativeGuard` included).**  Wherever the
    reference finds a token `t`, `parseNumber` stops at the end of that token: it returns some value with
    `pos_ = start + t.len`, or `kParseErrorInfinity` with `pos_ = start + t.len`; never `kParseErrorInvalidChar`,
    never the model's fault code. -/
theorem C04_parseNumber_shape (buf : List Nat) (len start : Nat) (t : Token)
    (ht : scanToken (buf.drop start) = some t) :
    (∃ v p, parseNumber buf len start = .ok v (start + t.len) p) ∨
    parseNumber buf len start = .err errInfinity (start + t.len) :=
  Sonic.Proofs.NumberAll.parseNumber_shape buf len start t ht

-- what can actually happen outside the guard: a wrong value, or `kParseErrorInfinity` where the reference sees a
-- finite number followed by garbage (the document is rejected either way, but with a different error code)
example : parseNumber [57,48,48,55,49,57,57,50,53,52,55,52,48,57,57,51,46,48,48,48,48,48,48,48,48,48,48,48,48,48,48,48,
    48,48,48,48,48,48,48,48,48,48,48,48,48,48,48,49,46,51,101,57,57,57,120,34,120] 54 0 = .err errInfinity 48 := by
  decide +kernel

/-- **Buffer independence.**  `parseNumber buf len start` reads `buf` only from index `start` on. -/
theorem C04_parseNumber_congr (buf buf' : List Nat) (len start : Nat) (h : buf.drop start = buf'.drop start) :
    parseNumber buf len start = parseNumber buf' len start :=
  Sonic.Proofs.NumberAll.parseNumber_congr buf buf' len start h

/-- **The number model on the parser's buffer** (the form `NumberCorrectOn` needs).  `bs` is the input text and `buf`
    any buffer that agrees with `bs ++ x"x ++ pad` from `start` on (`BufAt`: whatever the 61 padding bytes and
    whatever earlier in-place string decoding left below `start`).  Then the reference scanner sees in `buf` exactly
    what it sees in `bs` (the sentinel `x` stops every scan), and if the text is shorter than `2^32` bytes and every
    token found at `start` satisfies `nativeGuard` *in the text `bs`* — in particular if there is no token at all —
    `parseNumber buf |bs| start` agrees with `scanNumber bs start`.  No condition on written exponents. -/
theorem C04_number_agrees_padded (bs pad buf : List Nat) (start : Nat) (hs : start ≤ bs.length)
    (hb : BufAt bs pad buf start) (hL : bs.length < 2 ^ 32)
    (hgood : ∀ t, scanToken (bs.drop start) = some t → nativeGuard t ((bs.drop start).drop t.len) = true) :
    scanNumber buf start = scanNumber bs start ∧
    NumAgrees start bs.length (scanNumber bs start) (numOut (parseNumber buf bs.length start)) :=
  ⟨(Sonic.Proofs.NumberAll.scan_padded bs pad buf start hs hb.2).2,
    Sonic.Proofs.NumberAll.number_agrees_padded bs pad buf start hs hb.2 hL hgood⟩

/-- **`AtofNative` never faults, on any byte string** (valid number or not): no index into the 800-byte digit buffer
    is out of range, `LeftShift`'s write index never goes negative, every table index is in range and no loop
    exceeds its bound. -/
theorem C04_native_never_faults (txt : List Nat) : (atofNative txt).2 = false :=
  Sonic.Proofs.Dec.atofNative_nofault txt


/-- **The master theorem in its pre-fix form** (kept under its name).  Before the fix of known finding F6 the written
    exponent had to be below 100000 in magnitude *or the token at most 9600 bytes long* (both `int exp` accumulators
    saturated in `[10000, 99999]`, harmlessly in a short token).  With the patched code (`int64_t exp`, cap `10^15`,
    clamps) this is a special case of `C04_parseNumber_correct`. -/
theorem C04_parseNumber_correct' (buf : List Nat) (len start : Nat) (t : Token)
    (ht : scanToken (buf.drop start) = some t) (hlen : start + t.len ≤ len)
    (hexp : (expVal t.exp).natAbs < 100000 ∨ t.len ≤ 9600)
    (hg : nativeGuard t ((buf.drop start).drop t.len) = true) :
    NumAgrees start len (scanNumber buf start) (numOut (parseNumber buf len start)) :=
  Sonic.Proofs.NumberAll.parseNumber_correct' buf len start t ht hlen hexp hg

-- non-vacuity: `1e100000` → kParseErrorInfinity, `1e-100000` → +0.0, `-1E-99999999999` → -0.0, and a zero mantissa;
-- below: exponents that saturate the 64-bit accumulator, and a small-scale version of the F6 input
-- (`0.<40 zeros>1e41` = 1.0: the written exponent is compensated by the fraction digits)
example : parseNumber [49,101,49,48,48,48,48,48,120,34,120] 8 0 = .err errInfinity 8 ∧
    scanNumber [49,101,49,48,48,48,48,48,120,34,120] 0 = .infinity 8 := by decide +kernel
example : parseNumber [49,101,45,49,48,48,48,48,48,120,34,120] 9 0 = .ok (.real 0) 9 .native ∧
    scanNumber [49,101,45,49,48,48,48,48,48,120,34,120] 0 = .ok (.real 0) 9 := by decide +kernel
example : parseNumber [45,49,69,45,57,57,57,57,57,57,57,57,57,57,57,120,34,120] 15 0 = .ok (.real (2 ^ 63)) 15 .native ∧
    scanNumber [45,49,69,45,57,57,57,57,57,57,57,57,57,57,57,120,34,120] 0 = .ok (.real (2 ^ 63)) 15 := by
  decide +kernel
example : parseNumber [48,101,57,57,57,57,57,57,120,34,120] 8 0 = .ok (.real 0) 8 .zero ∧
    scanNumber [48,101,57,57,57,57,57,57,120,34,120] 0 = .ok (.real 0) 8 := by decide +kernel
example : parseNumber [49,101,49,48,48,48,48,48,48,48,48,48,48,48,48,48,48,48,48,48,48,120,34,120] 21 0
      = .err errInfinity 21 ∧
    scanNumber [49,101,49,48,48,48,48,48,48,48,48,48,48,48,48,48,48,48,48,48,48,120,34,120] 0 = .infinity 21 := by
  decide +kernel
example : parseNumber [49,101,45,49,48,48,48,48,48,48,48,48,48,48,48,48,48,48,48,48,48,48,120,34,120] 22 0
      = .ok (.real 0) 22 .native ∧
    scanNumber [49,101,45,49,48,48,48,48,48,48,48,48,48,48,48,48,48,48,48,48,48,48,120,34,120] 0 = .ok (.real 0) 22 := by
  decide +kernel
example : parseNumber [48,46,48,48,48,48,48,48,48,48,48,48,48,48,48,48,48,48,48,48,48,48,48,48,48,48,48,48,48,48,48,48,
      48,48,48,48,48,48,48,48,48,48,49,101,52,49,120,34,120] 46 0 = .ok (.real 4607182418800017408) 46 .fast ∧
    scanNumber [48,46,48,48,48,48,48,48,48,48,48,48,48,48,48,48,48,48,48,48,48,48,48,48,48,48,48,48,48,48,48,48,
      48,48,48,48,48,48,48,48,48,48,49,101,52,49,120,34,120] 0 = .ok (.real 4607182418800017408) 46 := by
  decide +kernel

end Sonic.Props.C04
