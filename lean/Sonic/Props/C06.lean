import Sonic.Proofs.SerializeTop
import Sonic.Proofs.SerializeQuoteDecode
import Sonic.Proofs.SerializeNumber
import Sonic.Proofs.SerializeParse
import Sonic.Proofs.FtoaFacts

/-!
# C06 — Serialize output is valid JSON that parses back to an equal document

> For every document, however built (parsed, or assembled through the mutation API with arbitrary string bytes,
> finite doubles and 64-bit integers), serialization succeeds and yields a JSON text that is accepted by an
> independent RFC 8259 recogniser, parses back to a document equal to the original with every number keeping its
> kind, and re-serialises to the identical bytes.  A document containing a non-finite double makes serialization
> return the infinity error and Dump return the empty string, never malformed output.
> Quantifier: for every document shape (empty/nested containers, single scalar root, objects with duplicate keys),
> every string byte content and length, every finite double and 64-bit integer, and every write-buffer starting
> state (fresh, reused, small initial capacity).

Objects of the statements
* documents: `Spec.JVal` (ordered members, duplicate keys allowed, strings = byte lists, numbers with their kind);
  `Spec.Render.WF v` says that the numbers are in range (`uint < 2^64`, `-2^63 ≤ sint < 0`, 64-bit patterns) and the
  string/key contents are bytes; `Spec.Render.AllFinite v` that no double is NaN/±∞;
* the reference printer `Spec.Render.render` and the independent reader `Spec.Json.parse` / `accepts`;
* `Model.Serialize.serialize cfg v wb` — the literal model of `SerializeImpl` run on the write buffer state `wb`
  (`Model.Stack.Stk`: live bytes, `cap_`, allocated size), every store checked; `serializeN cfg v n wb` = `n + 1` calls
  on the same buffer object; `dump cfg v` = `Dump()`.  Outcomes: `.done err wb stk`, `.fault _` (a store outside the
  buffer, a pop below its start, …), `.fuel`.
* `cfg : Cfg` = vector width of `Quote`, sanitizer tail variant, the bound writes are checked against
  (`strict = false`: the allocated size `SONIC_ALIGN(cap_)`; `strict = true`: `cap_` itself, which is smaller) and
  the double printer.  `CfgOK cfg`: `0 < W ≤ 32` and the size facts `FtoaSize` about the printer.

Named hypotheses about `F64toa`, `Proofs.Serialize` — DISCHARGED for the literal model `ftoaModel` of `F64toa` by
`C06_ftoaModel_facts` (from C07's theorems and the C07↔C04 reader equivalence); the `…_model` theorems at the end
of the file are the unconditional statements:
* `FtoaSize F`  : a finite pattern gives a text of 1..25 bytes and stores at most 32 bytes from `End()`; a non-finite
                  pattern gives length 0 (and stays within those 32 bytes);
* `FtoaFacts F` : `FtoaSize F` + the text of a finite pattern is read back by `Spec.Number.scanNumber` as exactly
                  `real bits` (hence it is a number token that is not an integer token).

The counters `val_cnt`, `member_cnt` are `Nat` in the model; it coincides with the `uint32_t` code under
`Model.Serialize.SizesFit v` (arrays `< 2^31` elements, objects `< 2^30` members); the three decrements that would
wrap in C are explicit faults of the model and are covered by `C06_no_overrun`.  `kRaw` nodes and invalid type tags
are not representable in `JVal`.
-/

namespace Sonic.Props.C06
open Sonic.Spec Sonic.Spec.Render Sonic.Model Sonic.Model.Stack Sonic.Model.Serialize
open Sonic.Proofs.SerializeStack Sonic.Proofs.Serialize

/-! ## the buffer (`internal::Stack` / `WriteBuffer`) -/

/-- `Grow(n)` from any state satisfying the representation invariant: the invariant is kept, the live bytes are
kept, there is room for `n` more bytes below the new `cap_` — `size + n ≤ cap_`, NOT `<`: see the example below —
`cap_` bytes are really allocated, the capacity never shrinks, and nothing happens when `size + n < cap_` already. -/
theorem C06_stack_grow (s : Stk) (n : Nat) (h : StackInv s) :
    StackInv (s.grow n) ∧ (s.grow n).buf = s.buf ∧ s.size + n ≤ (s.grow n).cap ∧
    (s.grow n).cap ≤ (s.grow n).alloc ∧ s.cap ≤ (s.grow n).cap ∧ (s.size + n < s.cap → s.grow n = s) := by
  have hr := grow_room h n
  have := hr.fit
  rw [grow_size] at this
  exact ⟨hr.inv, grow_buf s n, this, hr.cap_le, grow_cap_ge s n h, grow_noop s n⟩

/-- the exact new capacity -/
theorem C06_stack_grow_cap (s : Stk) (n : Nat) : (s.grow n).cap =
    if s.size + n ≥ s.cap then
      (if s.size + n > 2 * s.cap then (s.size + n) + (s.size + n) / 2 else s.cap * 2)
    else s.cap := grow_cap s n

/-- `size + n = cap_` after `Grow(n)` does happen (full 8-byte buffer, `Grow(8)` doubles to 16): after `Grow(n)`
exactly `n` bytes may be stored, not `n + 1` -/
example : ((Stk.mk [1, 2, 3, 4, 5, 6, 7, 8] 8 8).grow 8).cap = 16 ∧ (Stk.mk [1, 2, 3, 4, 5, 6, 7, 8] 8 8).size + 8 = 16 := by
  decide
/-- first growth case (`top_ + cnt > buf_ + 2 * cap_`): `cap_` is first set to `size + cnt`, then `Reserve`d to 1.5× -/
example : (Stk.new 0).grow 35 = ⟨[], 52, 56⟩ := by decide
example : (Stk.new 1).grow 1 = ⟨[], 2, 8⟩ := by decide

/-- `Reserve(n)`: invariant and contents kept, `cap_ ≥ n` afterwards and never smaller than before; the block
`realloc` returns has `SONIC_ALIGN(n) ≥ n` bytes -/
theorem C06_stack_reserve (s : Stk) (n : Nat) (h : StackInv s) :
    StackInv (s.reserve n) ∧ (s.reserve n).buf = s.buf ∧ n ≤ (s.reserve n).cap ∧ s.cap ≤ (s.reserve n).cap ∧
    (s.reserve n).cap = (if n < s.cap then s.cap else n) :=
  ⟨reserve_inv h n, reserve_buf s n, (reserve_cap_ge s n).1, (reserve_cap_ge s n).2, reserve_cap s n⟩

/-- `Clear()` and the constructors establish / keep the invariant -/
theorem C06_stack_clear (s : Stk) (h : StackInv s) : StackInv s.clear ∧ s.clear.buf = [] ∧ s.clear.cap = s.cap :=
  ⟨clear_inv h, rfl, rfl⟩

theorem C06_stack_new (cap0 : Nat) : StackInv (Stk.new cap0) ∧ (Stk.new cap0).buf = [] ∧ (Stk.new cap0).cap = cap0 := by
  refine ⟨new_inv cap0, new_buf cap0, ?_⟩
  rw [new_eq]

/-- allocation vs `cap_`: `cap_ ≤ SONIC_ALIGN(cap_) < cap_ + 8`, a multiple of 8 -/
theorem C06_align8 (n : Nat) : n ≤ align8 n ∧ align8 n < n + 8 ∧ align8 n % 8 = 0 :=
  ⟨le_align8 n, align8_lt n, align8_mod n⟩

/-! ## no write outside the buffer -/

/-- the inequalities that make every unchecked write of `SerializeImpl` safe, one per `Grow`/`Reserve`:
* string: `inc_len = 6·len + 32 + 3` ≥ store extent of `Quote` (`≤ 6·len + 27`, C09) + 1, and ≥ `|quote s| + 1`;
* number: `kNumberSize = 33` ≥ store extent of `F64toa`/`U64toa`/`I64toa` (`≤ 32`) + 1;
* `true`/`false`/`null`: `Grow(8)` = the 8-byte `memcpy`, of which 5 or 6 bytes are kept;
* `[` `]` `,` of an empty container: 3 ≤ `Grow(3)`; `[` of a non-empty one: 1 ≤ 3;
* `]` `,` at `scope_end`: 2 ≤ `Grow(2)`;
* first `[` of a container root: 1 ≤ `estimate = nodes·18 + 64`. -/
theorem C06_write_bounds :
    (∀ n ext, ext ≤ 6 * n + 27 → ext + 1 ≤ n * 6 + 32 + 3) ∧
    (∀ s : List Nat, (quote s).length + 1 ≤ s.length * 6 + 32 + 3) ∧
    (∀ ext, ext ≤ 32 → ext + 1 ≤ kNumberSize) ∧
    (∀ n, n ≤ 6 → n ≤ 8 ∧ 8 ≤ 8) ∧ (1 + 1 + 1 ≤ 3) ∧ (1 ≤ 3) ∧ (1 + 1 ≤ 2) ∧
    (∀ nodeNums, 1 ≤ nodeNums * kExpectMinifyRatio + 64) :=
  ⟨bound_quote_extent, bound_quote_text, bound_number, bound_push5_8, bound_empty, bound_open, bound_close, bound_first⟩

/-- For every well-formed document (finite or not), every configuration (both vector widths, both `Quote` tails,
writes checked against the allocation or against the smaller `cap_`), every number of reuses and every starting
buffer state satisfying the invariant (fresh with any initial capacity — `C06_stack_new` — or left by earlier use):
the checked model ends with `return err`, i.e. no store leaves the buffer, no `Pop`/`Top` goes below its start, no
counter wraps, the node pointer never runs past the last sibling, and the loop terminates within its fuel.  The
buffer is left in a state satisfying the invariant.  The same for `Dump()` (which adds `ToString`'s NUL). -/
theorem C06_no_overrun (cfg : Cfg) (hc : CfgOK cfg) (v : JVal) (hwf : WF v = true) (nreuse : Nat) (wb : Stk)
    (hinv : StackInv wb) :
    (∃ err wb' stk', serializeN cfg v nreuse wb = .done err wb' stk' ∧ StackInv wb' ∧
      (err = Gen.kErrorNone ∨ err = Gen.kSerErrorInfinity)) ∧
    (∃ text, dump cfg v = some text) := by
  refine ⟨?_, _, dump_spec hc v hwf⟩
  rcases serializeN_spec hc v hwf nreuse wb hinv with ⟨_, wb', stk', h, _, hi⟩ | ⟨_, wb', stk', h, hi⟩
  · exact ⟨_, wb', stk', h, hi, Or.inl rfl⟩
  · exact ⟨_, wb', stk', h, hi, Or.inr rfl⟩

/-! ## the output is the reference rendering -/

/-- finite document: `err = 0`, the buffer holds exactly `render v`, `Size()` is its length, the invariant holds
(so the buffer can be reused), and `Dump()` returns the same bytes.  In particular `key_err` (13) is never
returned for a `JVal` (its keys are strings). -/
theorem C06_serialize_eq_render (cfg : Cfg) (hc : CfgOK cfg) (v : JVal) (hwf : WF v = true)
    (hfin : AllFinite v = true) (nreuse : Nat) (wb : Stk) (hinv : StackInv wb) :
    ∃ wb' stk', serializeN cfg v nreuse wb = .done Gen.kErrorNone wb' stk' ∧
      render (ftoaText cfg.ftoa) v = some wb'.buf ∧ wb'.size = wb'.buf.length ∧ StackInv wb' ∧
      dump cfg v = some wb'.buf := by
  rcases serializeN_spec hc v hwf nreuse wb hinv with ⟨_, wb', stk', h, hb, hi⟩ | ⟨hf, _⟩
  · refine ⟨wb', stk', h, ?_, rfl, hi, ?_⟩
    · rw [hb]; exact render_eq_rT hc.ftoa v hwf hfin
    · rw [dump_spec hc v hwf, hb, hfin]; rfl
  · rw [hfin] at hf; cases hf

/-- a document containing a non-finite double: `Serialize` returns `kSerErrorInfinity` (12), `Dump()` returns the
empty string, and the reference printer has no rendering either -/
theorem C06_nonfinite (cfg : Cfg) (hc : CfgOK cfg) (v : JVal) (hwf : WF v = true)
    (hnf : AllFinite v = false) (nreuse : Nat) (wb : Stk) (hinv : StackInv wb) :
    (∃ wb' stk', serializeN cfg v nreuse wb = .done Gen.kSerErrorInfinity wb' stk') ∧
    dump cfg v = some [] ∧ render (ftoaText cfg.ftoa) v = none := by
  refine ⟨?_, ?_, render_none hc.ftoa v hwf hnf⟩
  · rcases serializeN_spec hc v hwf nreuse wb hinv with ⟨hf, _⟩ | ⟨_, wb', stk', h, _⟩
    · rw [hnf] at hf; cases hf
    · exact ⟨wb', stk', h⟩
  · rw [dump_spec hc v hwf, hnf]; rfl

/-! ## the text is valid JSON and reads back as the same document -/

/-- the reference decoder inverts the reference quoting, for EVERY byte string (indeed every list of numbers; no
range hypothesis is needed): decoding starts after the opening quote (index 1) and ends just after the closing one -/
theorem C06_quote_decode (s rest : List Nat) :
    decodeLit (quote s ++ rest) 1 = some (s, (quote s).length) := by
  simpa using decodeLit_quote s [] rest

/-- … also when the literal is embedded at any position of a text -/
theorem C06_quote_decode_at (pre s rest : List Nat) :
    decodeLit (pre ++ (quote s ++ rest)) (pre.length + 1) = some (s, pre.length + (quote s).length) :=
  decodeLit_quote s pre rest

/-- integers keep their kind and value: `decimal n` reads back as `uint n` -/
theorem C06_scan_uint (n : Nat) (hn : n < 2 ^ 64) :
    Number.scanNumber (decimal n) 0 = .ok (.uint n) (decimal n).length := scanNumber_decimal n hn

/-- … and the spelling of a negative `int64_t` (given by its bit pattern `≥ 2^63`) as `sint` of its value -/
theorem C06_scan_sint (bits : Nat) (h1 : 2 ^ 63 ≤ bits) (h2 : bits < 2 ^ 64) :
    Number.scanNumber (decimalI64 bits) 0 = .ok (.sint (-((2 ^ 64 - bits : Nat) : Int))) (decimalI64 bits).length := by
  unfold decimalI64
  rw [if_pos h1]
  exact scanNumber_neg (2 ^ 64 - bits) (by omega) (by omega)

/-- a number token followed by `,` `]` `}` or the end of the text is read exactly as the token alone -/
theorem C06_scan_delim (t rest : List Nat) (h : Delim rest) : Number.scanToken (t ++ rest) = Number.scanToken t :=
  scanToken_append h t

/-- Round trip, general form: for a well-formed document whose doubles each print to a text that the exact
reference reader reads back (`RealsOK`: what `FtoaFacts` gives for finite doubles; vacuous without doubles), the
rendering exists, `Spec.Json.parse` returns exactly the document (same shape, same member order and duplicate keys,
same string bytes, every number with its kind), hence the recogniser accepts it. -/
theorem C06_roundtrip_general (F : FtoaFn) (hF : FtoaSize F) (v : JVal) (hwf : WF v = true)
    (hfin : AllFinite v = true) (hr : RealsOK F v) :
    ∃ bytes, render (ftoaText F) v = some bytes ∧ Json.parse bytes = .ok v ∧ Json.accepts bytes = true := by
  refine ⟨rT F v, render_eq_rT hF v hwf hfin, parse_text v hwf hr, ?_⟩
  simp [Json.accepts, parse_text v hwf hr]

/-- `render v` is accepted by the independent RFC 8259 recogniser (finite document, `FtoaFacts` for the doubles) -/
theorem C06_render_valid (F : FtoaFn) (hF : FtoaFacts F) (v : JVal) (hwf : WF v = true) (hfin : AllFinite v = true) :
    ∃ bytes, render (ftoaText F) v = some bytes ∧ Json.accepts bytes = true := by
  obtain ⟨b, h1, _, h3⟩ := C06_roundtrip_general F hF.toFtoaSize v hwf hfin (realsOK_of_facts hF v hwf hfin)
  exact ⟨b, h1, h3⟩

/-- `parse (render v) = ok v` (finite document, `FtoaFacts` for the doubles) -/
theorem C06_roundtrip (F : FtoaFn) (hF : FtoaFacts F) (v : JVal) (hwf : WF v = true) (hfin : AllFinite v = true) :
    ∃ bytes, render (ftoaText F) v = some bytes ∧ Json.parse bytes = .ok v := by
  obtain ⟨b, h1, h2, _⟩ := C06_roundtrip_general F hF.toFtoaSize v hwf hfin (realsOK_of_facts hF v hwf hfin)
  exact ⟨b, h1, h2⟩

/-- unconditional for documents without doubles, whatever the double printer is -/
theorem C06_roundtrip_noReals (ftoa : Nat → Option (List Nat)) (v : JVal) (hwf : WF v = true)
    (hnr : NoReals v = true) :
    ∃ bytes, render ftoa v = some bytes ∧ Json.parse bytes = .ok v ∧ Json.accepts bytes = true := by
  have hp := parse_text (F := fun _ => none) v hwf (realsOK_of_noReals _ v hnr)
  exact ⟨rT (fun _ => none) v, render_noReals ftoa _ v hnr, hp, by simp [Json.accepts, hp]⟩

/-- re-serialisation is the identity: whatever document the text parses to renders to the same bytes -/
theorem C06_reserialize (F : FtoaFn) (hF : FtoaFacts F) (v : JVal) (hwf : WF v = true) (hfin : AllFinite v = true)
    (bytes : List Nat) (hb : render (ftoaText F) v = some bytes) (v' : JVal) (hp : Json.parse bytes = .ok v') :
    render (ftoaText F) v' = some bytes := by
  obtain ⟨b, h1, h2⟩ := C06_roundtrip F hF v hwf hfin
  rw [hb] at h1
  cases h1
  rw [h2] at hp
  cases hp
  exact hb

/-- End to end, on the machine: serialising a finite document into any buffer (any number of times) gives a text
that the independent reader accepts and reads back as the same document, and serialising THAT document again —
into any buffer state — gives the identical bytes; `Dump()` agrees. -/
theorem C06_end_to_end (cfg : Cfg) (hc : CfgOK cfg) (hF : FtoaFacts cfg.ftoa) (v : JVal) (hwf : WF v = true)
    (hfin : AllFinite v = true) (nreuse : Nat) (wb : Stk) (hinv : StackInv wb) :
    ∃ wb' stk', serializeN cfg v nreuse wb = .done Gen.kErrorNone wb' stk' ∧
      Json.accepts wb'.buf = true ∧ Json.parse wb'.buf = .ok v ∧ dump cfg v = some wb'.buf ∧
      ∀ v', Json.parse wb'.buf = .ok v' → ∀ n2 wb2, StackInv wb2 →
        ∃ wb'' stk'', serializeN cfg v' n2 wb2 = .done Gen.kErrorNone wb'' stk'' ∧ wb''.buf = wb'.buf := by
  obtain ⟨wb', stk', h1, h2, _, _, h5⟩ := C06_serialize_eq_render cfg hc v hwf hfin nreuse wb hinv
  obtain ⟨b, hb1, hb2, hb3⟩ :=
    C06_roundtrip_general cfg.ftoa hc.ftoa v hwf hfin (realsOK_of_facts hF v hwf hfin)
  rw [h2] at hb1
  cases hb1
  refine ⟨wb', stk', h1, hb3, hb2, h5, ?_⟩
  intro v' hp n2 wb2 hinv2
  rw [hb2] at hp
  cases hp
  obtain ⟨wb'', stk'', g1, g2, _⟩ := C06_serialize_eq_render cfg hc v hwf hfin n2 wb2 hinv2
  exact ⟨wb'', stk'', g1, (Option.some.inj (h2.symm.trans g2)).symm⟩

/-! ## non-vacuity -/

/-- `{"a":[1,-2,"x\ny",{},[]],"a":null}` — nested and empty containers, a duplicate key, a negative integer, an
escaped control byte -/
def exDoc : JVal :=
  .obj [([97], .arr [.num (.uint 1), .num (.sint (-2)), .str [120, 10, 121], .obj [], .arr []]), ([97], .null)]

def exText : List Nat :=
  [123, 34, 97, 34, 58, 91, 49, 44, 45, 50, 44, 34, 120, 92, 110, 121, 34, 44, 123, 125, 44, 91, 93, 93, 44,
   34, 97, 34, 58, 110, 117, 108, 108, 125]

example : WF exDoc = true ∧ AllFinite exDoc = true ∧ NoReals exDoc = true ∧ SizesFit exDoc = true := by decide

/-- the literal machine (real `Quote`/`U64toa`/`I64toa` models, AVX2 width) on fresh buffers of capacity 0, 1, 8
and 256: same bytes, `cap_` as the growth policy dictates (`estimate = 2·18 + 64 = 100`) -/
example : serialize {} exDoc (Stk.new 0) = .done 0 ⟨exText, 100, 104⟩ ⟨[], 256, 256⟩ := by decide +kernel
example : serialize {} exDoc (Stk.new 1) = .done 0 ⟨exText, 100, 104⟩ ⟨[], 256, 256⟩ := by decide +kernel
example : serialize { W := 16, san := true, strict := true } exDoc (Stk.new 8) =
    .done 0 ⟨exText, 100, 104⟩ ⟨[], 256, 256⟩ := by decide +kernel
example : serialize {} exDoc (Stk.new 256) = .done 0 ⟨exText, 256, 256⟩ ⟨[], 256, 256⟩ := by decide +kernel
/-- a reused buffer: three calls on the same object, and a call on a buffer that still holds other bytes -/
example : serializeN {} exDoc 2 (Stk.new 0) = .done 0 ⟨exText, 100, 104⟩ ⟨[], 256, 256⟩ := by decide +kernel
example : serialize {} exDoc ⟨[1, 2, 3, 4, 5, 6, 7], 7, 8⟩ = .done 0 ⟨exText, 100, 104⟩ ⟨[], 256, 256⟩ := by
  decide +kernel
/-- the independent reader on that text -/
example : Json.parse exText = .ok exDoc := by rfl
example : Json.accepts exText = true := by rfl
/-- scalar roots and empty containers at the root (`is_single`: the `]` `,` written at `scope_end` are popped) -/
example : serialize {} (.num (.uint 1)) (Stk.new 0) = .done 0 ⟨[49], 82, 88⟩ ⟨[], 256, 256⟩ := by decide +kernel
example : serialize {} (.str [97, 0, 34]) (Stk.new 1) =
    .done 0 ⟨[34, 97, 92, 117, 48, 48, 48, 48, 92, 34, 34], 82, 88⟩ ⟨[], 256, 256⟩ := by decide +kernel
example : serialize {} (.obj []) (Stk.new 0) = .done 0 ⟨[123, 125], 64, 64⟩ ⟨[], 256, 256⟩ := by decide +kernel
example : serializeN {} (.arr []) 1 (Stk.new 1) = .done 0 ⟨[91, 93], 64, 64⟩ ⟨[], 256, 256⟩ := by decide +kernel
example : dump {} (.bool false) = some [102, 97, 108, 115, 101] := by decide +kernel
/-- a buffer that has to grow in the middle (37-byte string: `Grow(257)` from `cap_ = 82`) -/
example : (match serialize {} (.str (List.replicate 37 97)) (Stk.new 0) with
    | .done e wb _ => (e, wb.size, wb.cap, wb.alloc)
    | _ => (99, 0, 0, 0)) = (0, 39, 385, 392) := by decide +kernel

/-- a printer satisfying `FtoaSize` (used only to show the hypotheses of the theorems are satisfiable without
appealing to C07; the real instance is the model of `F64toa`, whose facts are C07's) -/
def exF : FtoaFn := fun bits => if finiteBits bits then some ⟨[48], 1⟩ else some ⟨[], 0⟩

theorem exF_size : FtoaSize exF := by
  constructor
  · intro bits _ hf; exact ⟨⟨[48], 1⟩, by simp [exF, hf], by simp, by simp, by simp⟩
  · intro bits _ hf; exact ⟨⟨[], 0⟩, by simp [exF, hf], by simp, by simp⟩

theorem exCfg_ok (W : Nat) (hW : 0 < W) (hW32 : W ≤ 32) (san strict : Bool) :
    CfgOK { W := W, san := san, strict := strict, ftoa := exF } := ⟨hW, hW32, exF_size⟩

/-- instances of the theorems: both vector widths, both tails, both write limits, any reuse count, any capacity -/
example (san strict : Bool) (nreuse cap0 : Nat) :
    ∃ wb' stk', serializeN { W := 16, san := san, strict := strict, ftoa := exF } exDoc nreuse (Stk.new cap0) =
      .done Gen.kErrorNone wb' stk' ∧ Json.parse wb'.buf = .ok exDoc := by
  obtain ⟨wb', stk', h1, h2, _⟩ := C06_serialize_eq_render _ (exCfg_ok 16 (by decide) (by decide) san strict) exDoc
    (by decide) (by decide) nreuse (Stk.new cap0) (new_inv cap0)
  obtain ⟨b, hb1, hb2, _⟩ := C06_roundtrip_noReals (ftoaText exF) exDoc (by decide) (by decide)
  rw [h2] at hb1
  cases hb1
  exact ⟨wb', stk', h1, hb2⟩

/-- a document with a NaN inside: error 12, empty `Dump()` -/
def exNaN : JVal := .arr [.num (.uint 7), .obj [([107], .num (.real 0x7FF8000000000000))]]

example : WF exNaN = true ∧ AllFinite exNaN = false := by decide
example (cap0 : Nat) :
    (∃ wb' stk', serializeN { ftoa := exF } exNaN 0 (Stk.new cap0) = .done Gen.kSerErrorInfinity wb' stk') ∧
    dump { ftoa := exF } exNaN = some [] :=
  let h := C06_nonfinite { ftoa := exF } (exCfg_ok 32 (by decide) (by decide) false false) exNaN (by decide)
    (by decide) 0 (Stk.new cap0) (new_inv cap0)
  ⟨h.1, h.2.1⟩
/-- the same with the real `F64toa` model: `[7,{"k":` is in the buffer when the error is returned -/
example : serialize {} exNaN (Stk.new 0) =
    .done 12 ⟨[91, 55, 44, 123, 34, 107, 34, 58], 100, 104⟩ ⟨List.replicate 16 0, 256, 256⟩ := by decide +kernel
example : dump {} exNaN = some [] := by decide +kernel

/-! ## instantiating the hypotheses with the literal `F64toa` model -/

/-- the non-finite half of `FtoaSize` holds for the literal model by mere unfolding: `F64toa` returns 0 and stores
nothing when the exponent field is 2047.  (The finite half and `FtoaFacts.roundtrip` are C07's theorems about
`Model.Ftoa.f64toa Itoa.zeroBuf 0 bits`: return value in `1..25`, `st.ext ≤ 32`, `scanNumber` of the text.) -/
theorem C06_ftoaModel_nonfinite (bits : Nat) (h : finiteBits bits = false) :
    ftoaModel bits = some ⟨[], 0⟩ := by
  have h' : bits / 2 ^ 52 % 2 ^ 11 = 2047 := by simpa [finiteBits] using h
  simp [ftoaModel, Ftoa.f64toa, h', Itoa.slice]

/-- `FtoaSize` from its finite half (kept for reference; the finite half is supplied by `C06_ftoaModel_facts` below) -/
theorem C06_ftoaModel_size
    (hfin : ∀ bits, bits < 2 ^ 64 → finiteBits bits = true →
      ∃ o, ftoaModel bits = some o ∧ 1 ≤ o.text.length ∧ o.text.length ≤ 25 ∧ o.ext ≤ 32) :
    FtoaSize ftoaModel :=
  ⟨hfin, fun bits _ h => ⟨⟨[], 0⟩, C06_ftoaModel_nonfinite bits h, rfl, by simp⟩⟩

/-- **`FtoaFacts` holds for the literal `F64toa` model**: for every 64-bit pattern the model is defined; a finite
pattern prints 1..25 bytes and stores at most 32 bytes, a non-finite one prints nothing; and the text of every finite
pattern is read back by the exact reference reader `Spec.Number.scanNumber` (the oracle of C04) as one number token
of the full length, of kind `real`, with exactly the same 64 bits (so `-0.0`, subnormals, `DBL_MAX`, integers
printed as `ddd.0` all come back bit-identical).
Ingredients: `C07_output`/`C07_zero`/`C07_integer_path`/`C07_decimal_path` (the text and what it denotes),
`C07_schubfach` (the certificate holds on the general path), `C07_chk_reparse_signed` and
`C07_roundTrips_iff_rne_signed` (rounding interval = preimage under `Rne.round`), the fast-path integer lies in its
own interval (`Proofs.FtoaFacts.fast_inInterval`), and the reader equivalence `Proofs.FtoaFacts.scan_of_parseDec`
(`parseDecText t = some (neg, sig, exp)` + fraction-or-exponent ⇒ `scanNumber t 0` is the `real` token of value
`Rne.round neg sig exp`; trailing zeros of the mantissa do not matter by `Proofs.Rne.round_scale`). -/
theorem C06_ftoaModel_facts : FtoaFacts ftoaModel := Sonic.Proofs.FtoaFacts.ftoaModel_facts

/-- the standing assumptions hold for every configuration that uses the literal `F64toa` model -/
theorem C06_cfgOK_model (cfg : Cfg) (hw : 0 < cfg.W) (hw32 : cfg.W ≤ 32) (hf : cfg.ftoa = ftoaModel) : CfgOK cfg :=
  ⟨hw, hw32, by rw [hf]; exact C06_ftoaModel_facts.toFtoaSize⟩

/-- `C06_render_valid` without hypotheses on the printer -/
theorem C06_render_valid_model (v : JVal) (hwf : WF v = true) (hfin : AllFinite v = true) :
    ∃ bytes, render (ftoaText ftoaModel) v = some bytes ∧ Json.accepts bytes = true :=
  C06_render_valid ftoaModel C06_ftoaModel_facts v hwf hfin

/-- `C06_roundtrip` without hypotheses on the printer: every finite well-formed document, doubles included,
renders to a text that parses back to exactly the document -/
theorem C06_roundtrip_model (v : JVal) (hwf : WF v = true) (hfin : AllFinite v = true) :
    ∃ bytes, render (ftoaText ftoaModel) v = some bytes ∧ Json.parse bytes = .ok v :=
  C06_roundtrip ftoaModel C06_ftoaModel_facts v hwf hfin

/-- `C06_reserialize` without hypotheses on the printer -/
theorem C06_reserialize_model (v : JVal) (hwf : WF v = true) (hfin : AllFinite v = true)
    (bytes : List Nat) (hb : render (ftoaText ftoaModel) v = some bytes) (v' : JVal)
    (hp : Json.parse bytes = .ok v') : render (ftoaText ftoaModel) v' = some bytes :=
  C06_reserialize ftoaModel C06_ftoaModel_facts v hwf hfin bytes hb v' hp

/-- **End to end, unconditional**: with the literal models of `SerializeImpl`, `Quote`, `U64toa`, `I64toa` and
`F64toa`, for every vector width `0 < W ≤ 32`, both tails, both write limits: serialising a finite well-formed
document (any doubles) into any buffer state, any number of times, succeeds; the text is accepted by the independent
recogniser and parses back to the same document; `Dump()` agrees; and serialising the re-parsed document gives the
identical bytes. -/
theorem C06_end_to_end_model (cfg : Cfg) (hw : 0 < cfg.W) (hw32 : cfg.W ≤ 32) (hf : cfg.ftoa = ftoaModel)
    (v : JVal) (hwf : WF v = true) (hfin : AllFinite v = true) (nreuse : Nat) (wb : Stk) (hinv : StackInv wb) :
    ∃ wb' stk', serializeN cfg v nreuse wb = .done Gen.kErrorNone wb' stk' ∧
      Json.accepts wb'.buf = true ∧ Json.parse wb'.buf = .ok v ∧ dump cfg v = some wb'.buf ∧
      ∀ v', Json.parse wb'.buf = .ok v' → ∀ n2 wb2, StackInv wb2 →
        ∃ wb'' stk'', serializeN cfg v' n2 wb2 = .done Gen.kErrorNone wb'' stk'' ∧ wb''.buf = wb'.buf :=
  C06_end_to_end cfg (C06_cfgOK_model cfg hw hw32 hf) (by rw [hf]; exact C06_ftoaModel_facts) v hwf hfin nreuse wb hinv

/-! non-vacuity with doubles: `[0.1,-1.5e-7,1e+21,{"k":5e-324},123456.0,-0.0]` — general path, negative, exponent
form, smallest subnormal, integer fast path, negative zero -/
def exDbl : JVal :=
  .arr [.num (.real 4591870180066957722), .num (.real 13728134904377344886), .num (.real 4921056587992461136),
    .obj [([107], .num (.real 1))], .num (.real 4683220244930494464), .num (.real (2 ^ 63))]

def exDblText : List Nat :=
  [91, 48, 46, 49, 44, 45, 49, 46, 53, 101, 45, 55, 44, 49, 101, 43, 50, 49, 44, 123, 34, 107, 34, 58, 53, 101,
   45, 51, 50, 52, 125, 44, 49, 50, 51, 52, 53, 54, 46, 48, 44, 45, 48, 46, 48, 93]

example : WF exDbl = true ∧ AllFinite exDbl = true ∧ NoReals exDbl = false := by decide
example : serialize {} exDbl (Stk.new 0) = .done 0 ⟨exDblText, 172, 176⟩ ⟨[], 256, 256⟩ := by decide +kernel
example : dump {} exDbl = some exDblText := by decide +kernel
example : render (ftoaText ftoaModel) exDbl = some exDblText ∧ Json.accepts exDblText = true := by decide +kernel
example : Json.parse exDblText = .ok exDbl := by
  obtain ⟨b, h1, h2⟩ := C06_roundtrip_model exDbl (by decide) (by decide)
  have : render (ftoaText ftoaModel) exDbl = some exDblText := by decide +kernel
  rw [this] at h1
  cases h1
  exact h2
example : ftoaModel 4591870180066957722 = some ⟨[48, 46, 49], 10⟩ ∧
    Number.scanNumber [48, 46, 49] 0 = .ok (.real 4591870180066957722) 3 := by decide +kernel
/-- instance of the unconditional theorem on that document: SSE width, sanitizer tail, strict limit, any reuse
count, any initial capacity -/
example (nreuse cap0 : Nat) :
    ∃ wb' stk', serializeN { W := 16, san := true, strict := true } exDbl nreuse (Stk.new cap0) =
      .done Gen.kErrorNone wb' stk' ∧ Json.parse wb'.buf = .ok exDbl ∧
      dump { W := 16, san := true, strict := true } exDbl = some wb'.buf := by
  obtain ⟨wb', stk', h1, _, h3, h4, _⟩ := C06_end_to_end_model { W := 16, san := true, strict := true }
    (by decide) (by decide) rfl exDbl (by decide) (by decide) nreuse (Stk.new cap0) (new_inv cap0)
  exact ⟨wb', stk', h1, h3, h4⟩

end Sonic.Props.C06
