import Sonic.Spec.Merge
import Sonic.Spec.Json
import Sonic.Model.Lazy
import Sonic.Proofs.MergeDecEq
import Sonic.Proofs.MergeUpdate
import Sonic.Proofs.MergeLazy
import Sonic.Proofs.MergeLazyText
import Sonic.Proofs.MergeSerialize
import Sonic.Proofs.MergeParseLazy

/-!
# C20 — `UpdateLazy` is a faithful recursive object merge

> For valid JSON texts target and source, the result parses to the value obtained by merging source into target:
> where both sides are objects (and the target is non-empty) every source member replaces or recursively merges into
> the target member with the same decoded key and new keys are appended, and in every other case the source value
> replaces the target value; untouched values keep their meaning.  Keys are matched by their decoded value, so
> escaped spellings of keys behave like any other key, and no member of a valid input is lost.

* `Spec.Merge.update` is the statement; `Model.Lazy.updateLazy` the literal model on bytes (`parseLazyImpl` one
  level, `UpdateNodeLazy`, the fallbacks, the serialisation); `Proofs.MergeLazy.den` what a lazy tree denotes
  (a raw slice denotes what the spec reader `Spec.Json.parse` makes of it).
-/
namespace Sonic.Props.C20
open Sonic.Spec Sonic.Spec.Merge Sonic.Spec.Json Sonic.Model.Lazy Sonic.Model.OnDemand
open Sonic.Proofs.MergeSchema Sonic.Proofs.MergeUpdate Sonic.Proofs.MergeLazy Sonic.Proofs.MergeDecEq
open Sonic.Proofs.MergeLazyText Sonic.Proofs.MergeSerialize Sonic.Proofs.MergeParseLazy

/-! ## the statement's clauses, on the Spec -/

/-- For a non-empty target object and a source object: the result is an object whose keys are the target's keys
    (in order) followed by new ones and contain every source key; a target member whose key the source does not
    mention keeps position and value; duplicate-free inputs give a duplicate-free result. -/
theorem C20_spec_props (m : List Nat × JVal) (ms skvs : Members) :
    (∃ kvs extra, update (.obj (m :: ms)) (.obj skvs) = .obj kvs ∧ keys kvs = keys (m :: ms) ++ extra ∧
      ∀ k, k ∈ keys skvs → k ∈ keys kvs) ∧
    (∀ (i : Nat) (k : List Nat) (v : JVal), (m :: ms)[i]? = some (k, v) → hasKey k skvs = false →
      ∃ kvs, update (.obj (m :: ms)) (.obj skvs) = .obj kvs ∧ kvs[i]? = some (k, v)) ∧
    (noDupKeys (.obj (m :: ms)) = true → noDupKeys (.obj skvs) = true →
      noDupKeys (update (.obj (m :: ms)) (.obj skvs)) = true) := by
  refine ⟨?_, ?_, fun h1 h2 => noDup_update _ _ h1 h2⟩
  · obtain ⟨extra, h1, h2⟩ := keys_updateMembers skvs (m :: ms)
    exact ⟨_, extra, by rw [update], h1, fun k hk => h1 ▸ h2 k hk⟩
  · intro i k v hi hk
    exact ⟨_, by rw [update], updateMembers_untouched skvs (m :: ms) i hi hk⟩

/-- in every other case the source value replaces the target value -/
theorem C20_spec_replace (t s : JVal) (h : isNonEmptyObj t = false ∨ ∀ kvs, s ≠ .obj kvs) : update t s = s := by
  rcases h with h | h
  · exact update_of_not_obj_left s h
  · exact update_of_not_obj_right t h

/-- one source member: merged recursively into the first target member of that key, or appended -/
theorem C20_spec_member (tkvs : Members) (k : List Nat) (v : JVal) (rest : Members) :
    updateMembers tkvs ((k, v) :: rest) =
      updateMembers (if hasKey k tkvs then modifyFirst k (fun tv => update tv v) tkvs else tkvs ++ [(k, v)]) rest :=
  updateMembers_cons tkvs k v rest

/-- merging duplicate-free values gives a duplicate-free value (any kinds) -/
theorem C20_spec_noDup (t s : JVal) (ht : noDupKeys t = true) (hs : noDupKeys s = true) :
    noDupKeys (update t s) = true := noDup_update s t ht hs

/-! ## `UpdateNodeLazy` on lazy trees -/

/-- The lazy-node merge computes `Spec.Merge.update` on the denoted values: if the source tree denotes `s` and the
    target tree denotes `t` (raw slices denote what the spec reader makes of them), then `UpdateNodeLazy` — with its
    re-parse of raw `{…` slices on either side, the `target.Empty()` test, first-match `FindMember`, `AddMember`,
    recursion and replacement — returns without error a tree that denotes `update t s`, for every fuel above the
    object nesting depth of `s` and any duplicate keys.  `ReparseOK` is the one-level correctness of `ParseLazy` on
    a slice that spells an object. -/
theorem C20_tree_merge (W : Nat) (junk : Nat → Nat → Nat) (hR : ReparseOK W junk) (nt ns : LNode) (t s : JVal)
    (f : Nat) (ht : den nt = some t) (hs : den ns = some s) (hf : objDepth s < f) :
    ∃ n', updateNode W junk f nt ns = .ok (.inr n') ∧ den n' = some (update t s) :=
  updateNode_den hR s f nt ns t hs ht hf

/-! ## from the two texts to the output bytes -/

/-- one call of `ParseLazy` on a valid text of bytes succeeds and yields a lazy node that denotes the text's value
    (an object node when the text starts with `{`): object members with DECODED keys and raw value slices, array
    elements as raw slices, anything else as one raw slice.  Rests on `SkipOne` / `SkipString` / `SkipSpaceSafe`
    being exact on valid JSON (`Props/C10.lean`) and on the key decoder on the private copy
    (`Proofs/OnDemandDec.lean`); the slices are re-read out of context by the locality of the spec reader
    (`Proofs/MergeShift.lean`). -/
theorem C20_parseLazy (W : Nat) (hW : 0 < W) (hW32 : W ≤ 32) (junk : Nat → Nat → Nat)
    (hj : ∀ s i, junk s i < 256) (d : List Nat) (hd : ∀ x ∈ d, x < 256) (v : JVal) (hp : parse d = .ok v) :
    ∃ n, parseLazy W junk d = .ok (.ok n) ∧ den n = some v ∧ (d.head? = some 0x7B → ∃ kvs, n = .obj kvs) :=
  parseLazyOK hW hW32 junk hj d v hd hp

/-- the serialisation of a lazy tree (`{`, re-quoted keys, `:`, raw slices verbatim, `,`, `}`) is read back by the
    spec reader as the value the tree denotes (uses `decodeLit (quote k) = k`, `Proofs/SerializeQuoteDecode.lean`) -/
theorem C20_serialize (n : LNode) (v : JVal) (h : den n = some v) : parse (serialize n) = .ok v :=
  serializeOK n v h

/-- **C20.**  For every vector width `0 < W ≤ 32`, every content of the stale part of the key buffer, and every
    pair of VALID JSON texts `tt`, `st` (strings of bytes; any whitespace, any nesting, keys with and without
    escapes, duplicate keys allowed) with values `t`, `s`: the literal model of `UpdateLazy` returns — without a
    fault of the checked model, within the fuel of its loops, taking none of the fallbacks — bytes that the spec
    reader parses to `Spec.Merge.update t s`. -/
theorem C20_model_eq_spec (W : Nat) (hW : 0 < W) (hW32 : W ≤ 32) (junk : Nat → Nat → Nat)
    (hj : ∀ s i, junk s i < 256) (tt st : List Nat) (hbt : ∀ x ∈ tt, x < 256) (hbs : ∀ x ∈ st, x < 256)
    (t s : JVal) (ht : parse tt = .ok t) (hs : parse st = .ok s) :
    ∃ out, updateLazy W junk tt st = .ok out ∧ parse out = .ok (update t s) :=
  updateLazy_ok (parseLazyOK hW hW32 junk hj) serializeOK tt st hbt hbs t s ht hs

/-- Keys are matched by their decoded value: two source texts that differ only in how keys (or anything else) are
    spelled — i.e. that have the same value under the spec reader, which decodes keys — give outputs with the same
    value; in particular an escaped spelling addresses the same member as the plain one. -/
theorem C20_key_spelling (W : Nat) (hW : 0 < W) (hW32 : W ≤ 32) (junk : Nat → Nat → Nat)
    (hj : ∀ s i, junk s i < 256) (tt st₁ st₂ : List Nat) (hbt : ∀ x ∈ tt, x < 256) (hb₁ : ∀ x ∈ st₁, x < 256)
    (hb₂ : ∀ x ∈ st₂, x < 256) (t s : JVal) (ht : parse tt = .ok t) (hs₁ : parse st₁ = .ok s)
    (hs₂ : parse st₂ = .ok s) :
    ∃ out₁ out₂, updateLazy W junk tt st₁ = .ok out₁ ∧ updateLazy W junk tt st₂ = .ok out₂ ∧
      parse out₁ = .ok (update t s) ∧ parse out₂ = .ok (update t s) := by
  obtain ⟨o1, h1, h2⟩ := C20_model_eq_spec W hW hW32 junk hj tt st₁ hbt hb₁ t s ht hs₁
  obtain ⟨o2, h3, h4⟩ := C20_model_eq_spec W hW hW32 junk hj tt st₂ hbt hb₂ t s ht hs₂
  exact ⟨o1, o2, h1, h3, h2, h4⟩

/-- no member of a valid input is lost: every key of the target and every key of the source is a key of the
    value of the output (non-empty target object, source object) -/
theorem C20_no_member_lost (W : Nat) (hW : 0 < W) (hW32 : W ≤ 32) (junk : Nat → Nat → Nat)
    (hj : ∀ s i, junk s i < 256) (tt st : List Nat) (hbt : ∀ x ∈ tt, x < 256) (hbs : ∀ x ∈ st, x < 256)
    (m : List Nat × JVal) (ms skvs : Members) (ht : parse tt = .ok (.obj (m :: ms)))
    (hs : parse st = .ok (.obj skvs)) :
    ∃ out kvs, updateLazy W junk tt st = .ok out ∧ parse out = .ok (.obj kvs) ∧
      (∀ k, k ∈ keys (m :: ms) → k ∈ keys kvs) ∧ (∀ k, k ∈ keys skvs → k ∈ keys kvs) := by
  obtain ⟨out, h1, h2⟩ := C20_model_eq_spec W hW hW32 junk hj tt st hbt hbs _ _ ht hs
  obtain ⟨⟨kvs, extra, e1, e2, e3⟩, _, _⟩ := C20_spec_props m ms skvs
  refine ⟨out, kvs, h1, by rw [h2, e1], ?_, e3⟩
  intro k hk
  rw [e2]; exact List.mem_append_left _ hk

/-- the two spellings `{"a":2}` and `{"a":2}` have the same value, and address the member `a` of `{"a":1}` -/
example : parse [0x7B, 0x22, 0x61, 0x22, 0x3A, 0x32, 0x7D] =
      parse [0x7B, 0x22, 0x5C, 0x75, 0x30, 0x30, 0x36, 0x31, 0x22, 0x3A, 0x32, 0x7D] ∧
    updateLazy 32 (fun _ _ => 0) [0x7B, 0x22, 0x61, 0x22, 0x3A, 0x31, 0x7D] [0x7B, 0x22, 0x61, 0x22, 0x3A, 0x32, 0x7D] =
      updateLazy 32 (fun _ _ => 0) [0x7B, 0x22, 0x61, 0x22, 0x3A, 0x31, 0x7D]
        [0x7B, 0x22, 0x5C, 0x75, 0x30, 0x30, 0x36, 0x31, 0x22, 0x3A, 0x32, 0x7D] := by decide +kernel

/-! ## non-vacuity (`decide`d on the literal byte-level model, `W = 32` and `W = 16`) -/

/-- `{"a\nb":1}` (the key spelled with the escape `\n`) -/
def tEsc : List Nat := [0x7B, 0x22, 0x61, 0x5C, 0x6E, 0x62, 0x22, 0x3A, 0x31, 0x7D]
/-- `{"c":2}` -/
def sC : List Nat := [0x7B, 0x22, 0x63, 0x22, 0x3A, 0x32, 0x7D]

/-- the F14 regression: `UpdateLazy({"a\nb":1}, {"c":2}) = {"a\nb":1,"c":2}` (the escaped key used to be lost) -/
example : updateLazy 32 (fun _ _ => 0) tEsc sC =
    .ok [0x7B, 0x22, 0x61, 0x5C, 0x6E, 0x62, 0x22, 0x3A, 0x31, 0x2C, 0x22, 0x63, 0x22, 0x3A, 0x32, 0x7D] := by
  decide +kernel
example : updateLazy 16 (fun _ _ => 0) tEsc sC =
    .ok [0x7B, 0x22, 0x61, 0x5C, 0x6E, 0x62, 0x22, 0x3A, 0x31, 0x2C, 0x22, 0x63, 0x22, 0x3A, 0x32, 0x7D] := by
  decide +kernel
example : parse tEsc = .ok (.obj [([0x61, 0x0A, 0x62], .num (.uint 1))]) ∧
    parse sC = .ok (.obj [([0x63], .num (.uint 2))]) := by decide +kernel

/-- `{"a":1}` / `{"a":2}` / `{"a":2}`: the source key spelled `a` addresses the member `a` -/
example : updateLazy 32 (fun _ _ => 0) [0x7B, 0x22, 0x61, 0x22, 0x3A, 0x31, 0x7D]
      [0x7B, 0x22, 0x5C, 0x75, 0x30, 0x30, 0x36, 0x31, 0x22, 0x3A, 0x32, 0x7D] =
    .ok [0x7B, 0x22, 0x61, 0x22, 0x3A, 0x32, 0x7D] := by decide +kernel

/-- `{"k":{"x":5,"y":[1]}}` + `{"k":{"x":{"z":null}},"n":"s"}` = `{"k":{"x":{"z":null},"y":[1]},"n":"s"}`:
    nested merge through a re-parsed raw slice -/
example : updateLazy 32 (fun _ _ => 0)
      [0x7B,0x22,0x6B,0x22,0x3A,0x7B,0x22,0x78,0x22,0x3A,0x35,0x2C,0x22,0x79,0x22,0x3A,0x5B,0x31,0x5D,0x7D,0x7D]
      [0x7B,0x22,0x6B,0x22,0x3A,0x7B,0x22,0x78,0x22,0x3A,0x7B,0x22,0x7A,0x22,0x3A,0x6E,0x75,0x6C,0x6C,0x7D,0x7D,
       0x2C,0x22,0x6E,0x22,0x3A,0x22,0x73,0x22,0x7D] =
    .ok [0x7B,0x22,0x6B,0x22,0x3A,0x7B,0x22,0x78,0x22,0x3A,0x7B,0x22,0x7A,0x22,0x3A,0x6E,0x75,0x6C,0x6C,0x7D,
         0x2C,0x22,0x79,0x22,0x3A,0x5B,0x31,0x5D,0x7D,0x2C,0x22,0x6E,0x22,0x3A,0x22,0x73,0x22,0x7D] := by
  decide +kernel

/-- a non-object source replaces the target: `{"a":1}` + `[1]` = `[1]`; an unparsable source keeps the target -/
example : updateLazy 32 (fun _ _ => 0) [0x7B, 0x22, 0x61, 0x22, 0x3A, 0x31, 0x7D] [0x5B, 0x31, 0x5D] =
    .ok [0x5B, 0x31, 0x5D] := by decide +kernel
example : updateLazy 32 (fun _ _ => 0) [0x7B, 0x22, 0x61, 0x22, 0x3A, 0x31, 0x7D] [0x5B, 0x31] =
    .ok [0x7B, 0x22, 0x61, 0x22, 0x3A, 0x31, 0x7D] := by decide +kernel

/-- `C20_tree_merge` is not vacuous: the two trees of the first example denote the two parsed values -/
example : den (.obj [([0x61, 0x0A, 0x62], .raw [0x31])]) = some (.obj [([0x61, 0x0A, 0x62], .num (.uint 1))]) ∧
    den (.obj [([0x63], .raw [0x32])]) = some (.obj [([0x63], .num (.uint 2))]) := by decide +kernel

end Sonic.Props.C20
