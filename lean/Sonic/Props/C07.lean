import Sonic.Model.Ftoa
import Sonic.Spec.Shortest
import Sonic.Proofs.FtoaTables
import Sonic.Proofs.FtoaChk
import Sonic.Proofs.FtoaMain
import Sonic.Proofs.FtoaSchubMain
import Sonic.Proofs.FtoaRne
import Sonic.Proofs.FtoaFastChk

/-!
# C07 — finite doubles print as the shortest decimal that reads back to the same double

Model: `Sonic.Model.Ftoa` (literal transcription of `internal/ftoa.h`, buffer writes included).
Spec: `Sonic.Spec.Shortest` (rounding interval, shortest/closest over exact rationals, the decidable certificate
`chk`, the JSON-number reader `parseDecText`, the reference rendering `refText`).

What is proved for **every** bit pattern (`C07_output`, `C07_format`, `C07_integer_path`, `C07_zero`):
the model never hits undefined behaviour, the text is a JSON number with a fraction or an exponent, it denotes
exactly the decimal `(sig, exp)` chosen by `F64ToDecimal` (resp. the exact integer / zero), is at most 25 bytes
long, nothing below the start pointer is written and the write extent is at most 26 bytes (≤ the 32 reserved).
What is proved about the tables (`C07_tables`, `C07_exponents`): every row of the generated power-of-ten table and
the three fixed-point logarithm formulas, by kernel-checked enumeration.
What is proved about the certificate (`C07_checker_sound`): `chk = true` implies round trip, minimal length and
closest, for all decimals.
What is proved about `F64ToDecimal` (`C07_schubfach`, `C07_shortest`): for every finite non-zero double the decimal
it returns satisfies `chk`, hence round-trips, has the minimal number of digits and is the closest among the
shortest (Schubfach is correct as implemented, 128-bit table and `y0 > 1` sticky rule included).
What is proved about the link to the reference reader (`C07_roundTrips_iff_rne`, `C07_RoundTrips_iff_rne`,
`C07_roundTrips_iff_rne_signed`, `C07_chk_reparse`, `C07_chk_reparse_signed`): for every finite non-zero bit
pattern the rounding interval of this file is *exactly* the set of decimals that the executable reference rounding
`Spec.Rne.round` (the oracle of C04) maps to that bit pattern; hence `chk = true` implies that re-parsing the
printed decimal with a correctly rounding reader gives back the same bits.
Nothing of the C07 statement remains open in the model; what is *trusted* is the tie of the model to the compiled code
(differential correspondence) and, for `parse(print(x)) = x` through the real parser, property C04.
-/

namespace Sonic.Props.C07
open Sonic.Gen Sonic.Model.Itoa Sonic.Model.Ftoa Sonic.Spec Sonic.Spec.Shortest Sonic.Proofs.Ftoa

/-! ## tables -/

/-- (a) every row `i` of the generated table (`k = i - 292`, `g = hi·2^64 + lo`): `2^127 ≤ g < 2^128` and
    `g = ⌈10^k · 2^-r⌉` with `r = ⌊log2 10^k⌋ - 127` — i.e. `2^e ≤ 10^k < 2^(e+1)` for the `e` given by the
    fixed-point formula and `(g-1)·2^(e-127) < 10^k ≤ g·2^(e-127)`, over exact rationals;
    (b) for `-1500 ≤ q ≤ 1500`: `(q·1262611) >> 22 = ⌊log10 2^q⌋` and
    `(q·1262611 - 524031) >> 22 = ⌊log10 (3/4·2^q)⌋`;
    (c) for `-350 ≤ k ≤ 350`: `((-k)·1741647) >> 19 = ⌊log2 10^(-k)⌋`. -/
theorem C07_tables :
    pow10CeilSig.length = 617 ∧
    (∀ (i hi lo : Nat), pow10CeilSig[i]? = some (hi, lo) →
      hi < 2 ^ 64 ∧ lo < 2 ^ 64 ∧ 2 ^ 127 ≤ hi * 2 ^ 64 + lo ∧ hi * 2 ^ 64 + lo < 2 ^ 128 ∧
      (2 : Rat) ^ ((((i : Int) - 292) * 1741647) >>> 19) ≤ (10 : Rat) ^ ((i : Int) - 292) ∧
      (10 : Rat) ^ ((i : Int) - 292) < (2 : Rat) ^ (((((i : Int) - 292) * 1741647) >>> 19) + 1) ∧
      ((hi * 2 ^ 64 + lo - 1 : Nat) : Rat) * (2 : Rat) ^ (((((i : Int) - 292) * 1741647) >>> 19) - 127)
        < (10 : Rat) ^ ((i : Int) - 292) ∧
      (10 : Rat) ^ ((i : Int) - 292) ≤
        ((hi * 2 ^ 64 + lo : Nat) : Rat) * (2 : Rat) ^ (((((i : Int) - 292) * 1741647) >>> 19) - 127)) ∧
    (∀ q : Int, -1500 ≤ q → q ≤ 1500 →
      (10 : Rat) ^ ((q * 1262611) >>> 22) ≤ (2 : Rat) ^ q ∧
      (2 : Rat) ^ q < (10 : Rat) ^ (((q * 1262611) >>> 22) + 1) ∧
      4 * (10 : Rat) ^ ((q * 1262611 - 524031) >>> 22) ≤ 3 * (2 : Rat) ^ q ∧
      3 * (2 : Rat) ^ q < 4 * (10 : Rat) ^ (((q * 1262611 - 524031) >>> 22) + 1)) ∧
    (∀ k : Int, -350 ≤ k → k ≤ 350 →
      (2 : Rat) ^ (((-k) * 1741647) >>> 19) ≤ (10 : Rat) ^ (-k) ∧
      (10 : Rat) ^ (-k) < (2 : Rat) ^ ((((-k) * 1741647) >>> 19) + 1)) := by
  refine ⟨table_length, ?_, ?_, ?_⟩
  · intro i hi lo h
    obtain ⟨r1, r2, r3, r4, r5, r6, r7, r8⟩ := row_ok i (hi, lo) h
    rw [leS_iff] at r5 r8
    rw [ltS_iff] at r6 r7
    simp only [rv, Rat.zpow_zero, Rat.mul_one, show ((1 : Nat) : Rat) = 1 from rfl, Rat.one_mul] at r5 r6 r7 r8
    exact ⟨r1, r2, r3, r4, r5, r6, r7, r8⟩
  · intro q h1 h2
    obtain ⟨r1, r2, r3, r4⟩ := q_ok q h1 h2
    rw [leS_iff] at r1 r3
    rw [ltS_iff] at r2 r4
    simp only [rv, Rat.zpow_zero, Rat.mul_one, show ((1 : Nat) : Rat) = 1 from rfl, Rat.one_mul,
      show ((4 : Nat) : Rat) = 4 from rfl, show ((3 : Nat) : Rat) = 3 from rfl] at r1 r2 r3 r4
    exact ⟨r1, r2, r3, r4⟩
  · intro k h1 h2
    obtain ⟨r1, r2⟩ := k_ok k h1 h2
    rw [leS_iff] at r1
    rw [ltS_iff] at r2
    simp only [rv, Rat.zpow_zero, Rat.mul_one, show ((1 : Nat) : Rat) = 1 from rfl, Rat.one_mul] at r1 r2
    exact ⟨r1, r2⟩

/-- (d) for every binary exponent of a finite double and both values of the `irregular` flag: the index
    `-k - (-292)` is inside the table, the shift count is in `[1, 4]`, `-324 ≤ k ≤ 292`, and the table entry
    is such that the scaled significand is `≥ 1` and has at most 17 digits (see `Proofs.Ftoa.ExpOk`). -/
theorem C07_exponents (q : Int) (h1 : -1074 ≤ q) (h2 : q ≤ 971) (irr : Bool) : ExpOk q irr :=
  exp_ok q h1 h2 irr

/-! ## the certificate -/

/-- `chk` is sound: for any `c > 0` (in particular any valid `(c, q)`), any decimal -/
theorem C07_checker_sound (c : Nat) (q : Int) (sig : Nat) (exp : Int) (hv : ValidCQ c q)
    (h : chk c q sig exp = true) :
    RoundTrips c q sig exp ∧ MinimalDigits c q sig exp ∧ ClosestAmongMinimal c q sig exp :=
  chk_sound c q sig exp hv.1 h

/-- the directly evaluated interval test is the Prop-level rounding interval -/
theorem C07_inInterval (c : Nat) (q : Int) (sig : Nat) (exp : Int) (hv : ValidCQ c q) :
    inInterval c q sig exp = true ↔ RoundTrips c q sig exp :=
  inInterval_iff c q sig exp hv.1

/-! ## the rounding interval is the preimage of the bit pattern under the reference rounding `Spec.Rne.round` -/

/-- the `(c, q)` of every finite non-zero bit pattern is valid (sign bit ignored) -/
theorem C07_validCQ (bits : Nat) (hfin : bits / 2 ^ 52 % 2 ^ 11 ≠ 2047)
    (hnz : bits % 2 ^ 63 ≠ 0) : ValidCQ (cqOfBits bits).1 (cqOfBits bits).2 := by
  rw [← Sonic.Proofs.FtoaRne.cqOfBits_low]
  exact (Sonic.Proofs.FtoaRne.cq_of_bits (bits % 2 ^ 63) (Nat.mod_lt _ (by decide)) (by omega) hnz).1

/-- **Interval = preimage of `Rne.round`.**  For every finite (`exponent field ≠ 0x7FF`) non-zero non-negative bit
    pattern and every decimal `sig·10^exp` with `sig > 0` (no bound on `sig` or `exp`): the decimal lies in the
    rounding interval of the double — end points included iff the significand is even, the lower end point only a
    quarter ulp away at the start of a binade, half the smallest subnormal excluded for `bits = 1`, the upper end point
    of `DBL_MAX` excluded — iff the exact reference rounding of the decimal (`Spec.Rne.round`, the oracle of C04,
    including its clamps for exponents beyond ±400) returns exactly `bits`. -/
theorem C07_roundTrips_iff_rne (bits : Nat) (h : bits < 2 ^ 63) (hfin : bits / 2 ^ 52 % 2 ^ 11 ≠ 2047)
    (hnz : bits ≠ 0) (sig : Nat) (exp : Int) (hs : 0 < sig) :
    inInterval (cqOfBits bits).1 (cqOfBits bits).2 sig exp = true ↔ Rne.round false sig exp = some bits :=
  Sonic.Proofs.FtoaRne.inInterval_iff_round bits h hfin hnz sig exp hs

/-- the same for the Prop-level statement over exact rationals -/
theorem C07_RoundTrips_iff_rne (bits : Nat) (h : bits < 2 ^ 63) (hfin : bits / 2 ^ 52 % 2 ^ 11 ≠ 2047)
    (hnz : bits ≠ 0) (sig : Nat) (exp : Int) (hs : 0 < sig) :
    RoundTrips (cqOfBits bits).1 (cqOfBits bits).2 sig exp ↔ Rne.round false sig exp = some bits := by
  rw [← C07_inInterval _ _ _ _ (C07_validCQ bits hfin (by omega))]
  exact C07_roundTrips_iff_rne bits h hfin hnz sig exp hs

/-- the same for all 64-bit patterns: the sign of the decimal is the sign bit -/
theorem C07_roundTrips_iff_rne_signed (bits : Nat) (h : bits < 2 ^ 64) (hfin : bits / 2 ^ 52 % 2 ^ 11 ≠ 2047)
    (hnz : bits % 2 ^ 63 ≠ 0) (sig : Nat) (exp : Int) (hs : 0 < sig) :
    inInterval (cqOfBits bits).1 (cqOfBits bits).2 sig exp = true ↔
      Rne.round (negOf bits) sig exp = some bits := by
  have key := Sonic.Proofs.FtoaRne.inInterval_iff_round_signed (negOf bits) (bits % 2 ^ 63)
    (Nat.mod_lt _ (by decide)) (by omega) hnz sig exp hs
  rw [Sonic.Proofs.FtoaRne.cqOfBits_low] at key
  have hb : bits % 2 ^ 63 + (if negOf bits = true then 2 ^ 63 else 0) = bits := by
    unfold negOf
    by_cases hn : bits / 2 ^ 63 ≠ 0
    · rw [if_pos (decide_eq_true hn)]; omega
    · rw [if_neg (by rw [decide_eq_false hn]; decide)]; omega
  rw [hb] at key
  exact key

/-- **Certificate ⇒ re-parse.**  If the certificate holds for the decimal `(sig, exp)` and the `(c, q)` of a finite
    non-zero non-negative bit pattern, a correctly rounding reader (`Spec.Rne.round`, to which C04 ties the parser)
    returns exactly `bits` for that decimal. -/
theorem C07_chk_reparse (bits : Nat) (h : bits < 2 ^ 63) (hfin : bits / 2 ^ 52 % 2 ^ 11 ≠ 2047)
    (hnz : bits ≠ 0) (sig : Nat) (exp : Int)
    (hchk : chk (cqOfBits bits).1 (cqOfBits bits).2 sig exp = true) :
    Rne.round false sig exp = some bits := by
  have hv := C07_validCQ bits hfin (by omega)
  have hs : 0 < sig := (chk_parts _ _ _ _ hchk).1
  exact (C07_RoundTrips_iff_rne bits h hfin hnz sig exp hs).1 (C07_checker_sound _ _ _ _ hv hchk).1

/-- the same for all 64-bit patterns (the printed sign is the sign bit, see `C07_decimal_path`) -/
theorem C07_chk_reparse_signed (bits : Nat) (h : bits < 2 ^ 64) (hfin : bits / 2 ^ 52 % 2 ^ 11 ≠ 2047)
    (hnz : bits % 2 ^ 63 ≠ 0) (sig : Nat) (exp : Int)
    (hchk : chk (cqOfBits bits).1 (cqOfBits bits).2 sig exp = true) :
    Rne.round (negOf bits) sig exp = some bits := by
  have hv := C07_validCQ bits hfin hnz
  have hs : 0 < sig := (chk_parts _ _ _ _ hchk).1
  exact (C07_roundTrips_iff_rne_signed bits h hfin hnz sig exp hs).1
    ((C07_inInterval _ _ _ _ hv).2 (C07_checker_sound _ _ _ _ hv hchk).1)

/-! ## zero, infinities, NaN -/

/-- `+0.0` prints `0.0`, `-0.0` prints `-0.0`; for infinities and NaNs nothing is written and the returned
    length is 0 -/
theorem C07_zero (b : Buf) (out : Nat) :
    (∃ o, f64toa b out 0 = some o ∧ slice o.st.buf out o.ret = [48, 46, 48] ∧
      (∀ j, j < out → o.st.buf j = b j) ∧ o.st.ext ≤ out + 4) ∧
    (∃ o, f64toa b out (2 ^ 63) = some o ∧ slice o.st.buf out o.ret = [45, 48, 46, 48] ∧
      (∀ j, j < out → o.st.buf j = b j) ∧ o.st.ext ≤ out + 4) ∧
    (∀ raw, raw / 2 ^ 52 % 2 ^ 11 = 2047 →
      ∃ o, f64toa b out raw = some o ∧ o.ret = out ∧ o.st.buf = b ∧ o.st.ext = out) := by
  refine ⟨?_, ?_, fun raw h => f64toa_nonfinite b out raw h⟩
  · obtain ⟨o, h1, h2, h3, h4⟩ := f64toa_zero b out 0 (by decide)
    exact ⟨o, h1, by simpa [negOf] using h2, h3, h4⟩
  · obtain ⟨o, h1, h2, h3, h4⟩ := f64toa_zero b out (2 ^ 63) (by decide)
    exact ⟨o, h1, by simpa [negOf] using h2, h3, h4⟩

/-! ## the integer fast path -/

/-- Every double taken by the fast path (normal, `-52 ≤ q ≤ 0`, `2^(-q) ∣ c`; `FastInt` states this on the
    fields of the bit pattern): the output is `[-]decimal (c / 2^(-q)) ++ ".0"`; that integer is exactly the
    double's magnitude; the text is a JSON number that reads back as exactly that integer, has a fraction, is
    at most 25 bytes; the write extent is at most 26 bytes. -/
theorem C07_integer_path (b : Buf) (out raw : Nat)
    (hfin : raw / 2 ^ 52 % 2 ^ 11 ≠ 2047) (hnz : raw % 2 ^ 63 ≠ 0) (hfast : FastInt raw) :
    ∃ o, f64toa b out raw = some o ∧
      slice o.st.buf out o.ret = (if negOf raw then [45] else []) ++ decimal (fastVal raw) ++ [46, 48] ∧
      dblVal (cqOfBits raw).1 (cqOfBits raw).2 = (fastVal raw : Rat) ∧
      parseDecText (slice o.st.buf out o.ret) = some (negOf raw, normalize (fastVal raw) 0) ∧
      hasFracOrExp (slice o.st.buf out o.ret) = true ∧
      (slice o.st.buf out o.ret).length ≤ 25 ∧
      (∀ j, j < out → o.st.buf j = b j) ∧ o.st.ext ≤ out + 26 := by
  obtain ⟨o, h1, h2, h3, h4⟩ := f64toa_int b out raw hfin (by omega) hfast
  obtain ⟨f1, f2, f3, f4⟩ := hfast
  have hsig : rsigOf raw < 2 ^ 52 := Nat.mod_lt _ (by decide)
  have hpow : 2 ^ (1075 - rexpOf raw) ≤ 2 ^ 52 := Nat.pow_le_pow_right (by decide) (by omega)
  have hpos : 0 < 2 ^ (1075 - rexpOf raw) := Nat.pow_pos (by decide)
  have hu1 : 1 ≤ fastVal raw := by
    unfold fastVal
    exact (Nat.le_div_iff_mul_le hpos).2 (by omega)
  have hu2 : fastVal raw < 10 ^ 17 := by
    unfold fastVal
    exact Nat.lt_of_le_of_lt (Nat.div_le_self _ _) (by omega)
  obtain ⟨p1, p2, p3⟩ := refText_props (negOf raw) (fastVal raw) 0 hu1 hu2 (by omega) (by omega)
  have htext : slice o.st.buf out o.ret =
      refText (negOf raw) (normalize (fastVal raw) 0).1 (normalize (fastVal raw) 0).2 := by
    rw [h2, List.append_assoc, int_text _ hu1 hu2]; rfl
  refine ⟨o, h1, h2, ?_, by rw [htext]; exact p1, by rw [htext]; exact p2, by rw [htext]; exact p3, h3, h4⟩
  -- the integer is the double's value: c = u·2^n, q = -n
  have hc : (cqOfBits raw).1 = fastVal raw * 2 ^ (1075 - rexpOf raw) := by
    unfold cqOfBits fastVal
    unfold rexpOf at f1
    simp only [if_neg f1]
    exact (Nat.div_mul_cancel (Nat.dvd_of_mod_eq_zero f4)).symm
  have hq : (cqOfBits raw).2 = -((1075 - rexpOf raw : Nat) : Int) := by
    unfold cqOfBits
    unfold rexpOf at f1 f2 f3 ⊢
    simp only [if_neg f1]
    omega
  unfold dblVal
  rw [hc, hq, Rat.natCast_mul, Rat.natCast_pow, Rat.zpow_neg, Rat.zpow_natCast, Rat.mul_assoc,
    show ((2 : Nat) : Rat) = 2 from rfl,
    Rat.mul_inv_cancel _ (Rat.ne_of_lt (Rat.pow_pos (by decide))).symm, Rat.mul_one]

/-! ## the three output formats -/

/-- For every `1 ≤ sig < 10^17`, every `-900 ≤ exp ≤ 900` (`F64ToDecimal` produces `-324 ≤ exp ≤ 293`, see
    `C07_decimal_path`) and either sign: the three-way format switch does not fault; the bytes it produces are the
    reference rendering of the normalised decimal; that text is a JSON number (`parseDecText` succeeds), contains
    `.` or `e`, denotes exactly `±sig·10^exp` (the reader returns the normal form of `(sig, exp)`), is at most 25
    bytes long; nothing below the start pointer is written and the write extent is at most 26 (≤ 32) bytes. -/
theorem C07_format (b : Buf) (out : Nat) (neg : Bool) (sig : Nat) (exp : Int)
    (h1 : 1 ≤ sig) (h2 : sig < 10 ^ 17) (he1 : -900 ≤ exp) (he2 : exp ≤ 900) :
    ∃ st ret, format b out neg sig exp = some (st, ret) ∧
      slice st.buf out ret = refText neg (normalize sig exp).1 (normalize sig exp).2 ∧
      parseDecText (slice st.buf out ret) = some (neg, normalize sig exp) ∧
      hasFracOrExp (slice st.buf out ret) = true ∧
      (slice st.buf out ret).length ≤ 25 ∧
      (∀ j, j < out → st.buf j = b j) ∧ st.ext ≤ out + 32 := by
  obtain ⟨st, ret, f0, f1, f2, f3, f4, f5⟩ := format_spec b out neg sig exp h1 h2 he1 he2
  obtain ⟨p1, p2, p3⟩ := refText_props neg sig exp h1 h2 he1 he2
  exact ⟨st, ret, f0, f1, by rw [f1]; exact p1, by rw [f1]; exact p2, by rw [f1]; exact p3, f3, by omega⟩

/-- the normal form used above really is the same number: `normalize` only moves trailing zeros of `sig`
    into the exponent -/
theorem C07_normalize (sig : Nat) (exp : Int) (h : 1 ≤ sig) :
    ∃ t : Nat, sig = (normalize sig exp).1 * 10 ^ t ∧ (normalize sig exp).2 = exp + (t : Int) ∧
      (normalize sig exp).1 % 10 ≠ 0 := by
  obtain ⟨m, t, hs⟩ := exists_stripped sig h
  rw [normalize_spec sig m t exp hs]
  exact ⟨t, hs.1, rfl, hs.2⟩

/-! ## the general path: `F64ToDecimal` + format -/

/-- Every finite non-zero double not taken by the fast path: `F64ToDecimal` does not fault (table index and shift
    count in range) and returns `1 ≤ sig < 10^17`, `-324 ≤ exp ≤ 293`; `F64toa` prints the reference rendering
    of that decimal, with all the consequences of `C07_format`. -/
theorem C07_decimal_path (b : Buf) (out raw : Nat)
    (hfin : raw / 2 ^ 52 % 2 ^ 11 ≠ 2047) (hnz : raw % 2 ^ 63 ≠ 0) (hnf : ¬ FastInt raw) :
    ∃ o d, f64toa b out raw = some o ∧ o.path = Path.dec d ∧
      f64ToDecimal (raw % 2 ^ 52) (raw / 2 ^ 52 % 2 ^ 11) (cqOfBits raw).1 (cqOfBits raw).2 = some d ∧
      1 ≤ d.sig ∧ d.sig < 10 ^ 17 ∧ -324 ≤ d.exp ∧ d.exp ≤ 293 ∧
      slice o.st.buf out o.ret = refText (negOf raw) (normalize d.sig d.exp).1 (normalize d.sig d.exp).2 ∧
      parseDecText (slice o.st.buf out o.ret) = some (negOf raw, normalize d.sig d.exp) ∧
      hasFracOrExp (slice o.st.buf out o.ret) = true ∧
      (slice o.st.buf out o.ret).length ≤ 25 ∧
      (∀ j, j < out → o.st.buf j = b j) ∧ o.st.ext ≤ out + 32 := by
  obtain ⟨o, d, g1, g2, g3, d1, d2, d3, d4, g4, g5, g6⟩ := f64toa_dec b out raw hfin (by omega) hnf
  obtain ⟨p1, p2, p3⟩ := refText_props (negOf raw) d.sig d.exp d1 d2 (by omega) (by omega)
  exact ⟨o, d, g1, g2, g3, d1, d2, d3, d4, g4, by rw [g4]; exact p1, by rw [g4]; exact p2,
    by rw [g4]; exact p3, g5, by omega⟩

/-- Every bit pattern: the model never hits anything undefined in C++ (table index, shift count, `memset`
    count), writes nothing below the start pointer and at most 26 (≤ 32) bytes from it; for every finite
    double the text is a JSON number of at most 25 bytes that contains a fraction or an exponent and whose sign
    is the sign bit (so `-0.0` keeps its sign). -/
theorem C07_output (b : Buf) (out raw : Nat) :
    ∃ o, f64toa b out raw = some o ∧ (∀ j, j < out → o.st.buf j = b j) ∧ o.st.ext ≤ out + 32 ∧
      (raw / 2 ^ 52 % 2 ^ 11 = 2047 → o.ret = out) ∧
      (raw / 2 ^ 52 % 2 ^ 11 ≠ 2047 →
        (∃ sig exp, parseDecText (slice o.st.buf out o.ret) = some (negOf raw, sig, exp)) ∧
        hasFracOrExp (slice o.st.buf out o.ret) = true ∧ (slice o.st.buf out o.ret).length ≤ 25) := by
  by_cases hfin : raw / 2 ^ 52 % 2 ^ 11 = 2047
  · obtain ⟨o, h1, h2, h3, h4⟩ := f64toa_nonfinite b out raw hfin
    exact ⟨o, h1, fun j _ => by rw [h3], by omega, fun _ => h2, fun h => absurd hfin h⟩
  by_cases hz : raw % 2 ^ 63 = 0
  · obtain ⟨o, h1, h2, h3, h4⟩ := f64toa_zero b out raw hz
    refine ⟨o, h1, h3, by omega, fun h => absurd h hfin, fun _ => ?_⟩
    rw [h2]
    cases negOf raw
    · exact ⟨⟨0, 0, by decide⟩, by decide, by decide⟩
    · exact ⟨⟨0, 0, by decide⟩, by decide, by decide⟩
  by_cases hfast : FastInt raw
  · obtain ⟨o, h1, _, _, h4, h5, h6, h7, h8⟩ := C07_integer_path b out raw hfin hz hfast
    cases hp : normalize (fastVal raw) 0 with
    | mk m e =>
      rw [hp] at h4
      exact ⟨o, h1, h7, by omega, fun h => absurd h hfin, fun _ => ⟨⟨m, e, h4⟩, h5, h6⟩⟩
  · obtain ⟨o, d, h1, _, _, _, _, _, _, _, h4, h5, h6, h7, h8⟩ := C07_decimal_path b out raw hfin hz hfast
    cases hp : normalize d.sig d.exp with
    | mk m e =>
      rw [hp] at h4
      exact ⟨o, h1, h7, h8, fun h => absurd h hfin, fun _ => ⟨⟨m, e, h4⟩, h5, h6⟩⟩


/-! ## non-vacuity: concrete doubles through every path, by kernel evaluation -/

/-- the text the model produces for a bit pattern (start index 0, zero-filled buffer) -/
def textOf (bits : Nat) : Option (List Nat) :=
  (f64toa zeroBuf 0 bits).map (fun o => slice o.st.buf 0 o.ret)

-- 0.1, 1e21, 5e-324 (smallest subnormal), DBL_MAX, 123456.0 (fast path), 0.3, -1.5e-7
example : textOf 4591870180066957722 = some [48, 46, 49] := by decide +kernel                      -- "0.1"
example : textOf 4921056587992461136 = some [49, 101, 43, 50, 49] := by decide +kernel             -- "1e+21"
example : textOf 1 = some [53, 101, 45, 51, 50, 52] := by decide +kernel                           -- "5e-324"
example : textOf 9218868437227405311 =
    some [49, 46, 55, 57, 55, 54, 57, 51, 49, 51, 52, 56, 54, 50, 51, 49, 53, 55, 101, 43, 51, 48, 56] := by
  decide +kernel                                                                 -- "1.7976931348623157e+308"
example : textOf 4683220244930494464 = some [49, 50, 51, 52, 53, 54, 46, 48] := by decide +kernel  -- "123456.0"
example : textOf 4599075939470750515 = some [48, 46, 51] := by decide +kernel                      -- "0.3"
example : textOf 13728134904377344886 = some [45, 49, 46, 53, 101, 45, 55] := by decide +kernel    -- "-1.5e-7"
example : textOf 0 = some [48, 46, 48] ∧ textOf (2 ^ 63) = some [45, 48, 46, 48] := by decide +kernel
example : (f64toa zeroBuf 0 0x7FF0000000000000).map (·.ret) = some 0 := by decide +kernel          -- +inf

-- the certificate holds on them (`(c, q)` of the bit pattern, `(sig, exp)` read from the text) …
example : cqOfBits 4591870180066957722 = (7205759403792794, -56) ∧ ValidCQ 7205759403792794 (-56) ∧
    chk 7205759403792794 (-56) 1 (-1) = true := by decide +kernel
example : chk 7629394531250000 17 1 21 = true := by decide +kernel                  -- 1e21
example : ValidCQ 1 (-1074) ∧ chk 1 (-1074) 5 (-324) = true := by decide +kernel    -- 5e-324
example : ValidCQ 9007199254740991 971 ∧ chk 9007199254740991 971 17976931348623157 292 = true := by
  decide +kernel                                                                    -- DBL_MAX
example : chk 8483831719919616 (-36) 123456 0 = true := by decide +kernel           -- 123456.0
example : chk 5404319552844595 (-54) 3 (-1) = true := by decide +kernel             -- 0.3
example : chk 2 (-1074) 1 (-323) = true := by decide +kernel     -- 1e-323: candidates 8e-324, 9e-324, 1e-323
-- … and is falsified by a decimal that round-trips but is not the shortest, by one that does not round-trip,
-- and by the farther of two shortest candidates
example : inInterval 7205759403792794 (-56) 10000000000000001 (-17) = true ∧
    chk 7205759403792794 (-56) 10000000000000001 (-17) = false := by decide +kernel
example : chk 7205759403792794 (-56) 2 (-1) = false := by decide +kernel
example : inInterval 1 (-1074) 4 (-324) = true ∧ chk 1 (-1074) 4 (-324) = false := by decide +kernel

-- hypotheses of the path theorems are satisfiable
example : FastInt 4683220244930494464 ∧ fastVal 4683220244930494464 = 123456 := by decide +kernel
example : ¬ FastInt 4591870180066957722 := by decide +kernel
example : (format zeroBuf 0 true 15 (-8)).map (fun r => slice r.1.buf 0 r.2) =
    some [45, 49, 46, 53, 101, 45, 55] := by decide +kernel
example : normalize 1500 (-10) = (15, -8) := by decide +kernel
example : parseDecText [45, 49, 46, 53, 101, 45, 55] = some (true, 15, -8) := by decide +kernel
example : parseDecText [48, 49] = none ∧ parseDecText [49, 46] = none ∧ parseDecText [49, 101] = none := by
  decide +kernel
example : pow10CeilSig[292]? = some (2 ^ 63, 0) ∧ pow10CeilSig[0]? = some (0xFF77B1FCBEBCDC4F, 0x25E8E89C13BB0F7B) := by
  decide +kernel

/-! ## Schubfach: the decimal chosen by `F64ToDecimal` is the shortest, closest one -/

-- the link to `Spec.Rne.round`: both sides true / both sides false, by kernel evaluation
-- 0.1 (inside), 0.2 (outside)
example : inInterval (cqOfBits 4591870180066957722).1 (cqOfBits 4591870180066957722).2 1 (-1) = true ∧
    Rne.round false 1 (-1) = some 4591870180066957722 := by decide +kernel
example : inInterval (cqOfBits 4591870180066957722).1 (cqOfBits 4591870180066957722).2 2 (-1) = false ∧
    Rne.round false 2 (-1) ≠ some 4591870180066957722 := by decide +kernel
-- exact end point `2^53 + 1` between `2^53` (even: included) and `2^53 + 2` (odd: excluded)
example : cqOfBits 4845873199050653696 = (2 ^ 52, 1) ∧ cqOfBits 4845873199050653697 = (2 ^ 52 + 1, 1) ∧
    inInterval (2 ^ 52) 1 9007199254740993 0 = true ∧ inInterval (2 ^ 52 + 1) 1 9007199254740993 0 = false ∧
    Rne.round false 9007199254740993 0 = some 4845873199050653696 := by decide +kernel
-- the irregular lower end point of 1.0 (start of a binade, `c = 2^52` even: included):
-- `1 - 2^-54 = (2^54 - 1)·5^54·10^-54` reads back as 1.0, the next decimal below it reads back as the predecessor
example : cqOfBits 4607182418800017408 = (2 ^ 52, -52) ∧
    inInterval (2 ^ 52) (-52) ((2 ^ 54 - 1) * 5 ^ 54) (-54) = true ∧
    Rne.round false ((2 ^ 54 - 1) * 5 ^ 54) (-54) = some 4607182418800017408 ∧
    inInterval (2 ^ 52) (-52) ((2 ^ 54 - 1) * 5 ^ 54 - 1) (-54) = false ∧
    Rne.round false ((2 ^ 54 - 1) * 5 ^ 54 - 1) (-54) = some 4607182418800017407 := by decide +kernel
-- half the smallest subnormal is excluded (ties to even = 0); the upper end point of DBL_MAX rounds to infinity
example : inInterval 1 (-1074) (5 ^ 1075) (-1075) = false ∧ Rne.round false (5 ^ 1075) (-1075) = some 0 ∧
    inInterval 1 (-1074) (5 ^ 1075 + 1) (-1075) = true ∧ Rne.round false (5 ^ 1075 + 1) (-1075) = some 1 := by
  decide +kernel
example : inInterval 9007199254740991 971 ((2 ^ 54 - 1) * 2 ^ 970) 0 = false ∧
    Rne.round false ((2 ^ 54 - 1) * 2 ^ 970) 0 = none ∧
    inInterval 9007199254740991 971 ((2 ^ 54 - 1) * 2 ^ 970 - 1) 0 = true ∧
    Rne.round false ((2 ^ 54 - 1) * 2 ^ 970 - 1) 0 = some 9218868437227405311 := by decide +kernel
-- exponents beyond the clamps of `Rne.round`
example : inInterval 1 (-1074) 1 (-500) = false ∧ Rne.round false 1 (-500) = some 0 ∧
    inInterval 9007199254740991 971 1 500 = false ∧ Rne.round false 1 500 = none ∧
    inInterval 1 (-1074) (5 * 10 ^ 500) (-824) = true ∧ Rne.round false (5 * 10 ^ 500) (-824) = some 1 := by
  decide +kernel
-- the certificate gives the re-parse (instances of `C07_chk_reparse` / `_signed`): 0.1, 5e-324, DBL_MAX, -1.5e-7
example : Rne.round false 1 (-1) = some 4591870180066957722 :=
  C07_chk_reparse 4591870180066957722 (by decide) (by decide) (by decide) 1 (-1) (by decide +kernel)
example : Rne.round false 5 (-324) = some 1 :=
  C07_chk_reparse 1 (by decide) (by decide) (by decide) 5 (-324) (by decide +kernel)
example : Rne.round false 17976931348623157 292 = some 9218868437227405311 :=
  C07_chk_reparse 9218868437227405311 (by decide) (by decide) (by decide) _ _ (by decide +kernel)
example : Rne.round true 15 (-8) = some 13728134904377344886 :=
  C07_chk_reparse_signed 13728134904377344886 (by decide) (by decide) (by decide) 15 (-8) (by decide +kernel)


set_option linter.unusedVariables false in
/-- **Schubfach is correct as implemented.**  For every finite non-zero double that is not printed by the integer
    fast path (the statement in fact holds for those too: `hnf` is not used), the decimal `(sig, exp)` returned by
    `F64ToDecimal` — after moving the trailing zeros of `sig` into the exponent, as the printed text does —
    satisfies the certificate `chk`.

    Proof (files `Sonic/Proofs/FtoaNT*.lean`, `FtoaRO`, `FtoaBridge`, `FtoaAlg`, `FtoaChkC`, `FtoaSchub`,
    `FtoaSchubMain`):
    * number theory, per binary exponent `q` (2046 kernel-checked certificates: a small reduced denominator, or a
      lattice basis made of the best approximations from above and below): for `A/B = 2^q·10^(-k)` and every
      multiplier `m ≤ 2^54 + 1`, `m·A mod B` is `0` or at least `B/2^64` away from `0` and `B/2^69` away from `B`;
    * hence, with the table entry `g = ⌈10^(-k)·2^(-r)⌉` (`C07_tables`), `RoundToOdd(g, 2m·2^h)` is *exactly*
      `2·⌊m·A/B⌋ + [B ∤ m·A]` — the round-to-odd of the exact scaled value — for the three multipliers
      `2c-1, 2c, 2c+1` (the smallest margin over all doubles is `frac = 1.37·2^-64` at `q = 164`,
      `c = 5592117679628511`, which the `y0 > 1` rule just accepts);
    * so every test of the algorithm is a comparison of exact rationals, and the branch analysis of the paper
      (`R_{k+1}`: the unique multiple of `10^(k+1)` in the rounding interval; `R_k`: `s` or `s+1`, the closer one,
      ties to even) yields the conditions `chk` encodes;
    * the 2045 doubles at the start of a binade (`c = 2^52`, asymmetric interval) and the subnormals with `c < 20`
      are evaluated by the kernel. -/
theorem C07_schubfach (bits : Nat) (h : bits < 2 ^ 64) (hfin : bits / 2 ^ 52 % 2 ^ 11 ≠ 2047)
    (hnz : bits % 2 ^ 63 ≠ 0) (hnf : ¬ FastInt bits) :
    ∀ d, f64ToDecimal (bits % 2 ^ 52) (bits / 2 ^ 52 % 2 ^ 11) (cqOfBits bits).1 (cqOfBits bits).2 = some d →
      chk (cqOfBits bits).1 (cqOfBits bits).2 (normalize d.sig d.exp).1 (normalize d.sig d.exp).2 = true :=
  schub_all bits hfin hnz

/-- Consequence on exact rationals: the decimal denoted by the text `F64toa` prints for a finite non-zero double
    outside the integer fast path (`parseDecText` of the output is `normalize d.sig d.exp`, `C07_decimal_path`)
    reads back as the same double under round-to-nearest-even, no decimal with fewer significant digits does, and
    no decimal with the same number of digits that reads back is closer (ties: even significand). -/
theorem C07_shortest (b : Buf) (out bits : Nat)
    (hfin : bits / 2 ^ 52 % 2 ^ 11 ≠ 2047) (hnz : bits % 2 ^ 63 ≠ 0) (hnf : ¬ FastInt bits) :
    ∃ o sig exp, f64toa b out bits = some o ∧
      parseDecText (slice o.st.buf out o.ret) = some (negOf bits, sig, exp) ∧
      RoundTrips (cqOfBits bits).1 (cqOfBits bits).2 sig exp ∧
      MinimalDigits (cqOfBits bits).1 (cqOfBits bits).2 sig exp ∧
      ClosestAmongMinimal (cqOfBits bits).1 (cqOfBits bits).2 sig exp := by
  obtain ⟨o, d, h1, _, h3, _, _, _, _, _, h5, _⟩ := C07_decimal_path b out bits hfin hnz hnf
  have hc := schub_all bits hfin hnz d h3
  have hv := C07_validCQ bits hfin hnz
  exact ⟨o, (normalize d.sig d.exp).1, (normalize d.sig d.exp).2, h1, h5,
    C07_checker_sound _ _ _ _ hv hc⟩

-- non-vacuity: 0.1, 5e-324, DBL_MAX, 2^-1022 (start of a binade) satisfy the hypotheses of `C07_schubfach`
example : (4591870180066957722 < 2 ^ 64 ∧ 4591870180066957722 / 2 ^ 52 % 2 ^ 11 ≠ 2047 ∧
    4591870180066957722 % 2 ^ 63 ≠ 0 ∧ ¬ FastInt 4591870180066957722) ∧
    (1 / 2 ^ 52 % 2 ^ 11 ≠ 2047 ∧ 1 % 2 ^ 63 ≠ 0 ∧ ¬ FastInt 1) ∧
    (9218868437227405311 / 2 ^ 52 % 2 ^ 11 ≠ 2047 ∧ 9218868437227405311 % 2 ^ 63 ≠ 0 ∧
      ¬ FastInt 9218868437227405311) ∧
    (2 ^ 52 / 2 ^ 52 % 2 ^ 11 ≠ 2047 ∧ 2 ^ 52 % 2 ^ 63 ≠ 0 ∧ ¬ FastInt (2 ^ 52)) := by decide +kernel
-- the double with the smallest margin for `RoundToOdd` (q = 164, c = 5592117679628511): prints 1.3076622631878654e65
example : cqOfBits 0x4D73DE005BD620DF = (5592117679628511, 164) ∧
    f64ToDecimal (0x4D73DE005BD620DF % 2 ^ 52) (0x4D73DE005BD620DF / 2 ^ 52 % 2 ^ 11) 5592117679628511 164 =
      some ⟨13076622631878654, 49⟩ := by decide +kernel

/-! ## both paths: every finite non-zero double -/

/-- **The integer fast path satisfies the certificate too.**  The double is the integer `u = fastVal bits`
    (`q ≤ 0`, so the rounding interval has half-width at most `1/2` and `u` is the only integer in it); the printed
    decimal is `u` with its trailing zeros moved into the exponent. -/
theorem C07_fast_chk (bits : Nat) (hfin : bits / 2 ^ 52 % 2 ^ 11 ≠ 2047) (hnz : bits % 2 ^ 63 ≠ 0)
    (hfast : FastInt bits) :
    chk (cqOfBits bits).1 (cqOfBits bits).2 (normalize (fastVal bits) 0).1 (normalize (fastVal bits) 0).2 = true := by
  obtain ⟨_, _, _, hval, _⟩ := C07_integer_path zeroBuf 0 bits hfin hnz hfast
  have hv := C07_validCQ bits hfin hnz
  obtain ⟨f1, f2, f3, f4⟩ := hfast
  have hq : (cqOfBits bits).2 ≤ 0 := by
    unfold cqOfBits
    unfold rexpOf at f1 f3
    simp only [if_neg f1]
    omega
  have hu : 1 ≤ fastVal bits := by
    have hpow : 2 ^ (1075 - rexpOf bits) ≤ 2 ^ 52 := Nat.pow_le_pow_right (by decide) (by omega)
    have hpos : 0 < 2 ^ (1075 - rexpOf bits) := Nat.pow_pos (by decide)
    unfold fastVal
    exact (Nat.le_div_iff_mul_le hpos).2 (by omega)
  exact int_chk _ _ _ hv.1 hq hu hval

/-- everything the certificate gives for a printed text, in one statement (`C07_checker_sound` +
    `C07_chk_reparse_signed`) -/
theorem C07_of_chk (b : Buf) (out bits : Nat) (hb : bits < 2 ^ 64)
    (hfin : bits / 2 ^ 52 % 2 ^ 11 ≠ 2047) (hnz : bits % 2 ^ 63 ≠ 0) (o : Out) (p : Nat × Int)
    (h1 : f64toa b out bits = some o)
    (h2 : parseDecText (slice o.st.buf out o.ret) = some (negOf bits, p))
    (hc : chk (cqOfBits bits).1 (cqOfBits bits).2 p.1 p.2 = true) :
    ∃ o sig exp, f64toa b out bits = some o ∧
      parseDecText (slice o.st.buf out o.ret) = some (negOf bits, sig, exp) ∧
      chk (cqOfBits bits).1 (cqOfBits bits).2 sig exp = true ∧
      RoundTrips (cqOfBits bits).1 (cqOfBits bits).2 sig exp ∧
      MinimalDigits (cqOfBits bits).1 (cqOfBits bits).2 sig exp ∧
      ClosestAmongMinimal (cqOfBits bits).1 (cqOfBits bits).2 sig exp ∧
      Rne.round (negOf bits) sig exp = some bits := by
  have hv := C07_validCQ bits hfin hnz
  obtain ⟨s1, s2, s3⟩ := C07_checker_sound _ _ _ _ hv hc
  exact ⟨o, p.1, p.2, h1, h2, hc, s1, s2, s3, C07_chk_reparse_signed bits hb hfin hnz p.1 p.2 hc⟩

/-- **C07, closing statement.**  For every finite non-zero double, whichever path `F64toa` takes (integer fast path or
    Schubfach): the model does not fault; the printed text is a JSON number whose sign is the sign bit and which
    denotes the decimal `sig·10^exp`; that decimal satisfies the certificate, hence reads back as the same double
    under round-to-nearest-even, no decimal with fewer significant digits does, none with as many digits that reads
    back is closer (ties: even significand); and the exact reference reader `Spec.Rne.round` (the oracle of C04)
    returns exactly `bits` for it. -/
theorem C07_print_shortest_and_reparses (b : Buf) (out bits : Nat) (hb : bits < 2 ^ 64)
    (hfin : bits / 2 ^ 52 % 2 ^ 11 ≠ 2047) (hnz : bits % 2 ^ 63 ≠ 0) :
    ∃ o sig exp, f64toa b out bits = some o ∧
      parseDecText (slice o.st.buf out o.ret) = some (negOf bits, sig, exp) ∧
      chk (cqOfBits bits).1 (cqOfBits bits).2 sig exp = true ∧
      RoundTrips (cqOfBits bits).1 (cqOfBits bits).2 sig exp ∧
      MinimalDigits (cqOfBits bits).1 (cqOfBits bits).2 sig exp ∧
      ClosestAmongMinimal (cqOfBits bits).1 (cqOfBits bits).2 sig exp ∧
      Rne.round (negOf bits) sig exp = some bits := by
  by_cases hfast : FastInt bits
  · obtain ⟨o, h1, _, _, h4, _⟩ := C07_integer_path b out bits hfin hnz hfast
    exact C07_of_chk b out bits hb hfin hnz o _ h1 h4 (C07_fast_chk bits hfin hnz hfast)
  · obtain ⟨o, d, h1, _, h3, _, _, _, _, _, h5, _⟩ := C07_decimal_path b out bits hfin hnz hfast
    exact C07_of_chk b out bits hb hfin hnz o _ h1 h5 (C07_schubfach bits hb hfin hnz hfast d h3)

-- non-vacuity: fast-path doubles 1.0, 123456.0, 2^53 - 1, 1e15, 2^52 (hypotheses and the certificate, by evaluation)
example : FastInt 0x3FF0000000000000 ∧ fastVal 0x3FF0000000000000 = 1 ∧
    chk (cqOfBits 0x3FF0000000000000).1 (cqOfBits 0x3FF0000000000000).2 1 0 = true := by decide +kernel
example : FastInt 4683220244930494464 ∧ normalize (fastVal 4683220244930494464) 0 = (123456, 0) := by decide +kernel
example : FastInt 0x433FFFFFFFFFFFFF ∧ fastVal 0x433FFFFFFFFFFFFF = 2 ^ 53 - 1 ∧
    cqOfBits 0x433FFFFFFFFFFFFF = (2 ^ 53 - 1, 0) := by decide +kernel
example : FastInt 0x430C6BF526340000 ∧ normalize (fastVal 0x430C6BF526340000) 0 = (1, 15) ∧
    chk (cqOfBits 0x430C6BF526340000).1 (cqOfBits 0x430C6BF526340000).2 1 15 = true := by decide +kernel
example : FastInt 0x4330000000000000 ∧ fastVal 0x4330000000000000 = 4503599627370496 := by decide +kernel
-- both paths and a negative double satisfy the hypotheses of the closing theorem
example : (0x3FF0000000000000 < 2 ^ 64 ∧ 0x3FF0000000000000 / 2 ^ 52 % 2 ^ 11 ≠ 2047 ∧ 0x3FF0000000000000 % 2 ^ 63 ≠ 0) ∧
    (13728134904377344886 < 2 ^ 64 ∧ 13728134904377344886 / 2 ^ 52 % 2 ^ 11 ≠ 2047 ∧
      13728134904377344886 % 2 ^ 63 ≠ 0 ∧ negOf 13728134904377344886 = true) := by decide +kernel

/-!
## Nothing open

`C07_print_shortest_and_reparses` is the whole statement of C07 for the model, for every finite non-zero double and both
paths: `C07_schubfach` / `C07_fast_chk` (the printed decimal satisfies the certificate) + `C07_checker_sound` (what the
certificate means on exact rationals) + `C07_chk_reparse(_signed)` (the certificate implies that the correctly rounding
reference reader `Spec.Rne.round` maps the printed decimal back to the same bits); `C07_zero` covers ±0 and the
non-finite values.  The driver still prints `chk=` and `rt=` per input: they now serve as an independent cross-check of
these theorems and of the tie between model and compiled code.
-/

end Sonic.Props.C07
